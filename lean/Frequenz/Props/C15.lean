/-
C15 — distribution results truthfully account for the requested power (battery pools and PV pools).

Model: `Frequenz/Model/Results.lean`; the failure tables, the result-field expressions and the water-filling
expressions come from `Frequenz/Extracted/Distributor.lean` (regenerated from the source on every run).
Every theorem quantifies over ALL requests `P`, ALL set-point vectors / inverter sets with arbitrary
bounds and ALL outcome vectors (`ok | outOfRange | clientError | exception | timeout` per call).

Batteries: the output of the distribution algorithm (set-points in dict order, `remaining_power`) is an
arbitrary input — conservation of the algorithm is C01, and is NOT assumed except where stated.
PV: the allocation loop is part of the model, so the statements are unconditional.
On the pinned tree the PV sum clause is false (`succeeded_power` is computed from a never-assigned
`_target_power`); these theorems are about the tree with `fixes/C15-pv-succeeded-power.patch` applied, and
`C15_pv_sum` does not type-check against the extraction of the unpatched source.
-/
import Frequenz.Lemmas.ResultsCases
import Frequenz.Lemmas.ResultsTie

open Results Extracted.Distributor

/-- "The API call was rejected, errored or timed out". -/
def C15_callFailed (o : Outcome) : Bool := decide (o ≠ Outcome.ok)

/-! ## Batteries -/

/-- A result is always produced (no outcome makes an exception escape `_parse_result`). -/
def C15_battery_total_statement : Prop :=
  ∀ (P remaining : Rat) (ib : Nat → List Nat) (sps : List SetPoint), (batResult P remaining ib sps).isSome

/-- succeeded + failed + excess = requested power, for every outcome vector — and for every output of the
algorithm, conserving or not. -/
def C15_battery_sum_statement : Prop :=
  ∀ (P remaining : Rat) (ib : Nat → List Nat) (sps : List SetPoint) (r : Result),
    batResult P remaining ib sps = some r → r.succeededPower + r.failedPower + r.excess = P

/-- failed power = sum of the set-points whose call was rejected, errored or timed out; the excess is the
algorithm's remaining power; the result is a `PartialFailure` iff some call failed.
(Hypothesis: every addressed inverter has a battery behind it — `_inv_bats_map` is built that way.) -/
def C15_battery_failed_power_statement : Prop :=
  ∀ (P remaining : Rat) (ib : Nat → List Nat) (sps : List SetPoint) (r : Result),
    (∀ sp ∈ sps, ib sp.inv ≠ []) → batResult P remaining ib sps = some r →
      r.failedPower = ((sps.filter (fun sp => C15_callFailed sp.outcome)).map (·.power)).sum ∧
      r.excess = remaining ∧
      (r.partialFailure = true ↔ ∃ sp ∈ sps, C15_callFailed sp.outcome = true)

/-- succeeded ∩ failed = ∅; succeeded ∪ failed = the batteries behind the addressed inverters; failed =
the batteries behind an inverter whose call failed. -/
def C15_battery_sets_statement : Prop :=
  ∀ (P remaining : Rat) (ib : Nat → List Nat) (sps : List SetPoint) (r : Result),
    batResult P remaining ib sps = some r →
      (∀ b, ¬ (b ∈ r.succeeded ∧ b ∈ r.failed)) ∧
      (∀ b, (b ∈ r.succeeded ∨ b ∈ r.failed) ↔ ∃ sp ∈ sps, b ∈ ib sp.inv) ∧
      (∀ b, b ∈ r.failed ↔ ∃ sp ∈ sps, C15_callFailed sp.outcome = true ∧ b ∈ ib sp.inv)

/-- If the algorithm conserved the request (`Σ set-points = P − remaining`, see C01 for when it does), the
succeeded power is exactly the sum of the set-points whose call succeeded. -/
def C15_battery_succeeded_is_sum_statement : Prop :=
  ∀ (P remaining : Rat) (ib : Nat → List Nat) (sps : List SetPoint) (r : Result),
    (∀ sp ∈ sps, ib sp.inv ≠ []) → (sps.map (·.power)).sum = P - remaining →
    batResult P remaining ib sps = some r →
      r.succeededPower = ((sps.filter (fun sp => !C15_callFailed sp.outcome)).map (·.power)).sum

/-! ## PV inverters -/

/-- Water-filling: the allocations plus the remaining power are the request; the calls are for exactly the
working inverters (each once); every allocation is within its inverter's bound (`WithinBound`: zero or not
below the lower bound, and inside `[bound, 0]` for a non-positive bound); with non-positive bounds and a
non-positive request the remaining power lies between the request and zero. -/
def C15_pv_allocation_statement : Prop :=
  ∀ (P : Rat) (invs : List PvInv),
    (((allocate P invs).1.map (·.2)).sum + (allocate P invs).2 = P) ∧
    ((allocate P invs).1.map (·.1)).Perm (invs.map (·.id)) ∧
    List.Forall₂ WithinBound (sortInvs invs) (allocate P invs).1 ∧
    ((∀ x ∈ invs, x.bound ≤ 0) → P ≤ 0 → P ≤ (allocate P invs).2 ∧ (allocate P invs).2 ≤ 0)

/-- A result is produced whenever there is a working inverter. -/
def C15_pv_total_statement : Prop :=
  ∀ (P : Rat) (invs : List PvInv) (oc : Nat → Outcome), invs ≠ [] →
    ∃ calls r, pvDistribute P invs oc = some (calls, some r)

/-- succeeded + failed + excess = requested power. -/
def C15_pv_sum_statement : Prop :=
  ∀ (P : Rat) (invs : List PvInv) (oc : Nat → Outcome) (calls : List (Nat × Rat)) (r : Result),
    pvDistribute P invs oc = some (calls, some r) → r.succeededPower + r.failedPower + r.excess = P

/-- failed power = Σ set-points of the failed calls, succeeded power = Σ set-points of the calls that
succeeded (unconditionally: the allocation loop conserves), `PartialFailure` iff some call failed. -/
def C15_pv_powers_statement : Prop :=
  ∀ (P : Rat) (invs : List PvInv) (oc : Nat → Outcome) (calls : List (Nat × Rat)) (r : Result),
    pvDistribute P invs oc = some (calls, some r) →
      r.failedPower = ((calls.filter (fun c => C15_callFailed (oc c.1))).map (·.2)).sum ∧
      r.succeededPower = ((calls.filter (fun c => !C15_callFailed (oc c.1))).map (·.2)).sum ∧
      (r.partialFailure = true ↔ ∃ c ∈ calls, C15_callFailed (oc c.1) = true)

/-- succeeded ∩ failed = ∅, succeeded ∪ failed = the inverters that were addressed, failed = those whose
call failed. -/
def C15_pv_sets_statement : Prop :=
  ∀ (P : Rat) (invs : List PvInv) (oc : Nat → Outcome) (calls : List (Nat × Rat)) (r : Result),
    pvDistribute P invs oc = some (calls, some r) →
      (∀ i, ¬ (i ∈ r.succeeded ∧ i ∈ r.failed)) ∧
      (∀ i, (i ∈ r.succeeded ∨ i ∈ r.failed) ↔ i ∈ calls.map (·.1)) ∧
      (∀ i, i ∈ r.failed ↔ i ∈ calls.map (·.1) ∧ C15_callFailed (oc i) = true)

def C15_statement : Prop :=
  C15_battery_total_statement ∧ C15_battery_sum_statement ∧ C15_battery_failed_power_statement ∧
  C15_battery_sets_statement ∧ C15_battery_succeeded_is_sum_statement ∧
  C15_pv_allocation_statement ∧ C15_pv_total_statement ∧ C15_pv_sum_statement ∧ C15_pv_powers_statement ∧
  C15_pv_sets_statement

/-! ## Proofs: batteries -/

theorem C15_battery_total : C15_battery_total_statement := by
  intro P remaining ib sps
  have h := batResult_cases P remaining ib sps
  simp only at h
  rw [h]
  split <;> simp

theorem C15_battery_sum : C15_battery_sum_statement := by
  intro P remaining ib sps r h
  have hc := batResult_cases P remaining ib sps
  simp only at hc
  rw [hc] at h
  split at h
  · injection h with h; subst h; simp only; grind
  · injection h with h; subst h; simp only; grind

theorem C15_battery_failed_power : C15_battery_failed_power_statement := by
  intro P remaining ib sps r hw h
  have hc := batResult_cases P remaining ib sps
  simp only at hc
  rw [hc] at h
  have hfil : sps.filter (fun sp => C15_callFailed sp.outcome) = sps.filter SetPoint.isFailed := by
    rw [filter_isFailed]; rfl
  have hnil := failed_nil_iff ib sps hw
  split at h
  · rename_i hne
    injection h with h; subst h
    refine ⟨by rw [hfil], rfl, ?_⟩
    simp only [true_iff]
    have : sps.filter SetPoint.isFailed ≠ [] := fun h' => hne (hnil.mpr h')
    obtain ⟨sp, hsp⟩ := List.exists_mem_of_ne_nil _ this
    rw [← hfil] at hsp
    exact ⟨sp, (List.mem_filter.mp hsp).1, (List.mem_filter.mp hsp).2⟩
  · rename_i hne
    injection h with h; subst h
    have hempty : sps.filter SetPoint.isFailed = [] := hnil.mp (by simpa using hne)
    refine ⟨by rw [hfil, hempty]; simp, rfl, ?_⟩
    simp only [Bool.false_eq_true, false_iff, not_exists, not_and]
    intro sp hsp hf
    have : sp ∈ sps.filter (fun sp => C15_callFailed sp.outcome) := List.mem_filter.mpr ⟨hsp, hf⟩
    rw [hfil, hempty] at this
    simp at this

theorem C15_battery_sets : C15_battery_sets_statement := by
  intro P remaining ib sps r h
  have hc := batResult_cases P remaining ib sps
  simp only at hc
  rw [hc] at h
  have hmem : ∀ b, b ∈ (sps.filter SetPoint.isFailed).flatMap (fun sp => ib sp.inv) ↔
      ∃ sp ∈ sps, C15_callFailed sp.outcome = true ∧ b ∈ ib sp.inv := by
    intro b
    simp only [List.mem_flatMap, List.mem_filter, isFailed_iff, C15_callFailed, decide_eq_true_eq]
    constructor
    · rintro ⟨sp, ⟨h1, h2⟩, h3⟩; exact ⟨sp, h1, h2, h3⟩
    · rintro ⟨sp, h1, h2, h3⟩; exact ⟨sp, ⟨h1, h2⟩, h3⟩
  have haddr : ∀ b, b ∈ addressed ib sps ↔ ∃ sp ∈ sps, b ∈ ib sp.inv := by
    intro b; simp [addressed, List.mem_flatMap]
  split at h
  · injection h with h; subst h
    refine ⟨?_, ?_, ?_⟩
    · intro b ⟨h1, h2⟩
      simp only [List.mem_filter, decide_eq_true_eq] at h1
      exact h1.2 h2
    · intro b
      simp only [List.mem_filter, decide_eq_true_eq, haddr]
      constructor
      · rintro (⟨h1, _⟩ | h2)
        · exact h1
        · obtain ⟨sp, hsp, _, hb⟩ := (hmem b).mp h2
          exact ⟨sp, hsp, hb⟩
      · intro h1
        by_cases hf : b ∈ (sps.filter SetPoint.isFailed).flatMap (fun sp => ib sp.inv)
        · exact Or.inr hf
        · exact Or.inl ⟨h1, hf⟩
    · intro b; exact hmem b
  · rename_i hne
    injection h with h; subst h
    have hempty : (sps.filter SetPoint.isFailed).flatMap (fun sp => ib sp.inv) = [] := by simpa using hne
    refine ⟨by simp, ?_, ?_⟩
    · intro b; simp [haddr]
    · intro b
      have := hmem b
      rw [hempty] at this
      simpa using this

theorem C15_battery_succeeded_is_sum : C15_battery_succeeded_is_sum_statement := by
  intro P remaining ib sps r hw hcons h
  obtain ⟨hf, _, hpf⟩ := C15_battery_failed_power P remaining ib sps r hw h
  have hsum := C15_battery_sum P remaining ib sps r h
  have hex : r.excess = remaining := (C15_battery_failed_power P remaining ib sps r hw h).2.1
  have hpart := sum_partition sps (·.power) (fun sp => C15_callFailed sp.outcome)
    (fun sp => !C15_callFailed sp.outcome) (by intro sp _; cases C15_callFailed sp.outcome <;> simp)
  grind

/-! ## Proofs: PV -/

theorem C15_pv_allocation : C15_pv_allocation_statement := by
  intro P invs
  refine ⟨allocLoop_sum _ _ _ _, ?_, allocLoop_bounds _ _ _ _, ?_⟩
  · unfold allocate
    rw [allocLoop_ids]
    exact (sortInvs_perm invs).map _
  · intro hb hP
    unfold allocate
    exact allocLoop_remaining _ _ _ _ (fun x hx => hb x ((sortInvs_perm invs).mem_iff.mp hx)) hP

theorem C15_pv_total : C15_pv_total_statement := by
  intro P invs oc hne
  have hc := pvResult_cases P (allocate P invs).2 (allocate P invs).1 oc
  simp only at hc
  simp only [pvDistribute, hne, if_false, hc]
  split <;> exact ⟨_, _, rfl⟩

theorem C15_pv_powers : C15_pv_powers_statement := by
  intro P invs oc calls r h
  obtain ⟨hcalls, hr⟩ := pvDistribute_unfold h
  subst hcalls
  have hc := pvResult_cases P (allocate P invs).2 (allocate P invs).1 oc
  simp only at hc
  rw [hc] at hr
  have hff : (allocate P invs).1.filter (fun c => C15_callFailed (oc c.1)) =
      (allocate P invs).1.filter (pvFailed oc) := by
    apply List.filter_congr; intro c _
    simp only [C15_callFailed, pvFailed]
    cases oc c.1 <;> simp [pvHandling]
  have hfs : (allocate P invs).1.filter (fun c => !C15_callFailed (oc c.1)) =
      (allocate P invs).1.filter (pvSucceeded oc) := by
    apply List.filter_congr; intro c _
    simp only [C15_callFailed, pvSucceeded]
    cases oc c.1 <;> simp [pvHandling]
  have hpart := sum_partition (allocate P invs).1 (·.2) (pvFailed oc) (pvSucceeded oc) (pv_partition _ oc)
  have hsum := allocLoop_sum invs.length (sortInvs invs) 0 P
  change (((allocate P invs).1.map (·.2)).sum + (allocate P invs).2 = P) at hsum
  rw [hff, hfs]
  split at hr
  · rename_i hne
    injection hr with hr; subst hr
    refine ⟨rfl, ?_, ?_⟩
    · simp only [pvPfSucceeded]; grind
    · simp only [true_iff]
      have : (allocate P invs).1.filter (pvFailed oc) ≠ [] := fun h' => hne (by simp [h'])
      obtain ⟨c, hc'⟩ := List.exists_mem_of_ne_nil _ this
      rw [← hff] at hc'
      exact ⟨c, (List.mem_filter.mp hc').1, (List.mem_filter.mp hc').2⟩
  · rename_i hne
    injection hr with hr; subst hr
    have hempty : (allocate P invs).1.filter (pvFailed oc) = [] := by simpa using hne
    refine ⟨by rw [hempty]; simp, ?_, ?_⟩
    · simp only [pvOkSucceeded]
      rw [hempty] at hpart
      try rw [hempty]
      simp at hpart ⊢
      grind
    · simp only [Bool.false_eq_true, false_iff, not_exists, not_and]
      intro c hc' hf
      have : c ∈ (allocate P invs).1.filter (fun c => C15_callFailed (oc c.1)) := List.mem_filter.mpr ⟨hc', hf⟩
      rw [hff, hempty] at this
      simp at this

theorem C15_pv_sum : C15_pv_sum_statement := by
  intro P invs oc calls r h
  obtain ⟨hcalls, hr⟩ := pvDistribute_unfold h
  subst hcalls
  have hc := pvResult_cases P (allocate P invs).2 (allocate P invs).1 oc
  simp only at hc
  rw [hc] at hr
  split at hr
  · injection hr with hr; subst hr
    simp only [pvPfSucceeded]; grind
  · rename_i hne
    injection hr with hr; subst hr
    have hempty : (allocate P invs).1.filter (pvFailed oc) = [] := by simpa using hne
    simp only [pvOkSucceeded, hempty, List.map_nil, List.sum_nil]; grind

theorem C15_pv_sets : C15_pv_sets_statement := by
  intro P invs oc calls r h
  obtain ⟨hcalls, hr⟩ := pvDistribute_unfold h
  subst hcalls
  have hc := pvResult_cases P (allocate P invs).2 (allocate P invs).1 oc
  simp only at hc
  rw [hc] at hr
  have hF : ∀ i, i ∈ ((allocate P invs).1.filter (pvFailed oc)).map (·.1) ↔
      i ∈ (allocate P invs).1.map (·.1) ∧ C15_callFailed (oc i) = true := by
    intro i
    simp only [List.mem_map, List.mem_filter, pvFailed, C15_callFailed, decide_eq_true_eq, pv_failed_iff]
    constructor
    · rintro ⟨c, ⟨h1, h2⟩, rfl⟩; exact ⟨⟨c, h1, rfl⟩, h2⟩
    · rintro ⟨⟨c, h1, rfl⟩, h2⟩; exact ⟨c, ⟨h1, h2⟩, rfl⟩
  have hS : ∀ i, i ∈ ((allocate P invs).1.filter (pvSucceeded oc)).map (·.1) ↔
      i ∈ (allocate P invs).1.map (·.1) ∧ C15_callFailed (oc i) = false := by
    intro i
    simp only [List.mem_map, List.mem_filter, pvSucceeded, C15_callFailed, decide_eq_true_eq, pv_succeeded_iff,
      decide_eq_false_iff_not, Decidable.not_not]
    constructor
    · rintro ⟨c, ⟨h1, h2⟩, rfl⟩; exact ⟨⟨c, h1, rfl⟩, h2⟩
    · rintro ⟨⟨c, h1, rfl⟩, h2⟩; exact ⟨c, ⟨h1, h2⟩, rfl⟩
  split at hr
  · injection hr with hr; subst hr
    refine ⟨?_, ?_, hF⟩
    · intro i ⟨h1, h2⟩
      have a := ((hS i).mp h1).2
      have b := ((hF i).mp h2).2
      rw [a] at b; cases b
    · intro i
      simp only [hS, hF]
      cases C15_callFailed (oc i) <;> simp
  · rename_i hne
    injection hr with hr; subst hr
    have hempty : ((allocate P invs).1.filter (pvFailed oc)).map (·.1) = [] := by simpa using hne
    have hnone : ∀ i, i ∈ (allocate P invs).1.map (·.1) → C15_callFailed (oc i) = false := by
      intro i hi
      cases hcf : C15_callFailed (oc i) with
      | false => rfl
      | true =>
        have := (hF i).mpr ⟨hi, hcf⟩
        rw [hempty] at this; simp at this
    refine ⟨by simp, ?_, ?_⟩
    · intro i
      simp only [hS, List.not_mem_nil, or_false]
      exact ⟨fun h => h.1, fun h => ⟨h, hnone i h⟩⟩
    · intro i
      simp only [List.not_mem_nil, false_iff, not_and]
      intro hi; simp [hnone i hi]

theorem C15_full : C15_statement :=
  ⟨C15_battery_total, C15_battery_sum, C15_battery_failed_power, C15_battery_sets, C15_battery_succeeded_is_sum,
   C15_pv_allocation, C15_pv_total, C15_pv_sum, C15_pv_powers, C15_pv_sets⟩

/-! ## Concurrent requests (one manager serves requests for different component sets at the same time) -/

/-- A result is a function of its own request and of the outcomes of its own calls only: whatever other
requests are in flight in the same manager (any number, any powers, any interleaving of their calls with this
request's awaits), the calls made and the result are those of the request served alone — so every clause
above holds for every result of a concurrent run.  Batteries: the per-request code of `BatteryManager` writes
no instance attribute at all (and `batResult` reads none).  PV: `pvDistributeAmong others` reads the instance
state as the calls of `others` left it (`sharedAfter` of the attributes the source writes per request). -/
def C15_result_independent_of_concurrent_requests_statement : Prop :=
  batRequestStateWrites = [] ∧
  ∀ (others : List Rat) (P : Rat) (invs : List PvInv) (oc : Nat → Outcome),
    pvDistributeAmong others P invs oc = pvDistribute P invs oc

theorem C15_result_independent_of_concurrent_requests :
    C15_result_independent_of_concurrent_requests_statement := by
  refine ⟨by decide, ?_⟩
  intro others P invs oc
  have hc : pvRequestStateWrites.contains "_target_power" = false := by decide
  have hsh : sharedAfter pvRequestStateWrites P others = { target := pvTargetInit } := by
    unfold sharedAfter
    rw [hc]
    rfl
  unfold pvDistributeAmong pvDistribute
  rw [hsh]
  rfl

/-! ## Non-vacuity: concrete cases (also the shapes the harness compares against the real managers) -/

/-- Two inverters (one with two batteries), the second call times out: 100 W requested, 10 W excess. -/
def C15_example_ib : Nat → List Nat := fun i => if i = 1 then [11] else [12, 13]
def C15_example_sps : List SetPoint := [⟨1, 50, .ok⟩, ⟨2, 40, .timeout⟩]

example : batResult 100 10 C15_example_ib C15_example_sps =
    some { partialFailure := true, succeededPower := 50, succeeded := [11],
           failedPower := 40, failed := [12, 13], excess := 10 } := by decide +kernel

/-- The hypotheses of `C15_battery_failed_power` / `C15_battery_succeeded_is_sum` are satisfiable. -/
example : (∀ sp ∈ C15_example_sps, C15_example_ib sp.inv ≠ []) ∧
    (C15_example_sps.map (·.power)).sum = 100 - 10 := by decide +kernel

/-- PV: −500 W over bounds −100 W and −1000 W; the small inverter's call is rejected.
(On the unpatched tree the real manager reports `succeeded_power = +100 W` here and the three fields
add up to 0 W — the excess — instead of −500 W.) -/
example : pvDistribute (-500) [⟨2, -1000⟩, ⟨1, -100⟩] (fun i => if i = 1 then .clientError else .ok) =
    some ([(1, -100), (2, -400)],
      some { partialFailure := true, succeededPower := -400, succeeded := [2],
             failedPower := -100, failed := [1], excess := 0 }) := by decide +kernel

/-- PV: request beyond the bounds — −2000 W, 1100 W cannot be placed (excess). -/
example : pvDistribute (-2000) [⟨1, -100⟩, ⟨2, -1000⟩] (fun _ => .ok) =
    some ([(1, -100), (2, -1000)],
      some { partialFailure := false, succeededPower := -1100, succeeded := [1, 2],
             failedPower := 0, failed := [], excess := -900 }) := by decide +kernel

/-- Concurrency, non-vacuity: −120 W for inverter 1 while requests for −600 W and +50 W are in flight — the
result accounts for −120 W. -/
example : pvDistributeAmong [-600, 50] (-120) [⟨1, -1200⟩] (fun _ => .ok) =
    some ([(1, -120)], some ⟨false, -120, [1], 0, [], 0⟩) := by decide +kernel

/-! ## The hand-written model is the current source text -/

/-- **Model is source.**  `Extracted.ResultsLoops.*` is machine-translated from `_battery_manager.py` and
`_pv_inverter_manager.py` on every run: ONE iteration of every loop of the result accounting (outcome classification
by the `try/except` clauses, accumulations, `continue`s), the initial accumulators, and the statement sequences around
the loops (emptiness tests, both constructors with every field, what is sent / returned, early exits); the extractor
also establishes — or raises — that one `set_power` task is created per item, that all tasks are awaited with the
request timeout and the late ones cancelled, that `_parse_result` / `_set_api_power` receive these tasks, this
distribution, these allocations and this remaining power, and that the sort key is the inclusion lower bound.
`ResultsTie.src…` assemble the loops from those pieces only.  For ALL inputs:
(1) `_parse_result` = `parseResult` (no result if an outcome escapes the handlers);
(2) the calls are the set-points / allocations themselves;
(3) `_distribute_power` after the algorithm = `batResult` (sets compared as sets: the model lists the batteries of every
    addressed inverter, the code keeps a dict keyed by battery);
(4) PV: the filter loop keeps exactly the candidates with data, in order; the sort direction is the model's; with no
    working inverter the method returns without a result; without a status tracker it sends the empty `Success` for an
    empty request and raises otherwise, with one it goes on;
    inside the allocation loop an inverter WITHOUT data (dead after the filter) gets a zero allocation;
(5) `_set_api_power` = `pvResult`;
(6) `distribute_power` on the working inverters (distinct ids) = `pvDistribute`: calls and result. -/
def C15_model_is_source_statement : Prop :=
  (∀ (ib : Nat → List Nat) (sps : List SetPoint),
    ResultsTie.srcParse ib sps =
      if sps.any (fun sp => decide (batHandling sp.outcome = Handling.propagates)) then none
      else some (parseResult ib sps)) ∧
  (∀ (i : Nat) (w : Rat), Extracted.ResultsLoops.batCall i w = (i, w) ∧ Extracted.ResultsLoops.pvCall i w = (i, w)) ∧
  (∀ (P remaining : Rat) (ib : Nat → List Nat) (sps : List SetPoint),
    ResultsTie.SameResult (batResult P remaining ib sps) (ResultsTie.srcBatResult P remaining ib sps)) ∧
  ((∀ cands : List (Nat × Bool), ResultsTie.srcFilter cands = (cands.filter (·.2)).map (·.1)) ∧
   Extracted.ResultsLoops.pvSortReverse = pvSortDescending ∧
   (∀ n : Nat, Extracted.ResultsLoops.pvAbort n =
      if n = 0 then Extracted.ResultsLoops.Exit.returns none else Extracted.ResultsLoops.Exit.falls) ∧
   (∀ (ids : List Nat) (P : Rat),
      Extracted.ResultsLoops.pvPrelude true ids P = Extracted.ResultsLoops.Exit.falls ∧
      Extracted.ResultsLoops.pvPrelude false [] P =
        Extracted.ResultsLoops.Exit.returns (some ⟨false, 0, [], 0, [], P⟩) ∧
      (ids ≠ [] → Extracted.ResultsLoops.pvPrelude false ids P = Extracted.ResultsLoops.Exit.raises))) ∧
  (∀ (num idx : Nat) (allocs : List (Nat × Rat)) (rem : Rat) (i : Nat) (b : Rat),
    Extracted.ResultsLoops.pvAllocStep num idx allocs rem i false b = (Extracted.ResultsLoops.assocSet allocs i 0, rem)) ∧
  (∀ (P remaining : Rat) (allocs : List (Nat × Rat)) (oc : Nat → Outcome),
    pvResult P remaining allocs oc = (ResultsTie.srcPvResult P remaining allocs oc).map ResultsTie.toResult) ∧
  (∀ (P : Rat) (invs : List PvInv) (oc : Nat → Outcome), (invs.map (·.id)).Nodup →
    pvDistribute P invs oc =
      (ResultsTie.srcPvDistribute P invs oc).map (fun cr => (cr.1, cr.2.map ResultsTie.toResult)))

theorem C15_model_is_source : C15_model_is_source_statement := by
  refine ⟨ResultsTie.srcParse_eq, ?_, ResultsTie.batResult_eq_source, ⟨ResultsTie.srcFilter_eq, by decide, ?_, ?_⟩,
    ResultsTie.pvAllocStep_nodata, ResultsTie.pvResult_eq_source, ResultsTie.pvDistribute_eq_source⟩
  · intro i w
    exact ⟨rfl, rfl⟩
  · intro n
    unfold Extracted.ResultsLoops.pvAbort
    by_cases h : n = 0
    · subst h; simp
    · have h' : ¬ 0 = n := fun e => h e.symm
      simp [h, h']
  · intro ids P
    refine ⟨by simp [Extracted.ResultsLoops.pvPrelude], by simp [Extracted.ResultsLoops.pvPrelude], ?_⟩
    intro h
    simp [Extracted.ResultsLoops.pvPrelude, h]

/-- Non-vacuity: the source-assembled pipeline computes the PV example above (second call rejected) and the battery
example (second call timed out), with their non-trivial results. -/
example : ResultsTie.srcPvDistribute (-500) [⟨2, -1000⟩, ⟨1, -100⟩] (fun i => if i = 1 then .clientError else .ok) =
    some ([(1, -100), (2, -400)], some ⟨true, -400, [2], -100, [1], 0⟩) := by decide +kernel

example : ResultsTie.srcBatResult 100 10 C15_example_ib C15_example_sps =
    some ⟨true, 50, [11], 40, [12, 13], 10⟩ := by decide +kernel
