/-
C14 — power requests for a component group are applied one at a time, latest wins.

Model: `Frequenz/Model/Distributor.lean` (`step` interprets the decision table extracted from
`power_distributing.py` on every run).  Every theorem quantifies over ALL histories `es : List Event`
(any number of groups, any number of requests, any interleaving of arrivals and completions, any outcome
`ok | exc` of every completion); `Admissible` only says that a completion is delivered for a group that
has an uncompleted task.  All statements are about the observable trace (events + `start` outputs).
A request `r : Req` is a whole `Request` object — identity plus fields (power, adjust_power) — so "the most
recent request" below is the most recent OBJECT with all its fields, whatever the other waiting requests
ask for (equal power, equal in every field, …).
-/
import Frequenz.Lemmas.DistributorAdm

open Distributor

/-- Mutual exclusion: at every moment of every admissible history each group has at most one request
whose processing was started and has not completed (`es₁` ranges over all prefixes). -/
def C14_mutex_statement : Prop :=
  ∀ (es₁ es₂ : List Event) (g : Group), Admissible (es₁ ++ es₂) →
    0 ≤ inFlight g (trace es₁) ∧ inFlight g (trace es₁) ≤ 1

/-- Latest wins, immediately, for success and failure alike: when the in-flight task of `g` completes with
outcome `o`, the step's output is exactly `start g r` for the most recent of the requests that arrived
since the in-flight one was started, or nothing if none arrived.  The right-hand side does not mention `o`. -/
def C14_latest_wins_statement : Prop :=
  ∀ (es : List Event) (g : Group) (o : Outcome), Admissible (es ++ [Event.complete g o]) →
    trace (es ++ [Event.complete g o]) =
      trace es ++ [(Event.complete g o,
        match (waitingOf g (trace es)).getLast? with
        | some r => [Out.start g r]
        | none => [])]

/-- A request that arrives for an idle group is started at once; one that arrives for a busy group starts
nothing (it waits). -/
def C14_arrival_statement : Prop :=
  ∀ (es : List Event) (g : Group) (r : Req), Admissible es →
    trace (es ++ [Event.arrive g r]) =
      trace es ++ [(Event.arrive g r, if inFlight g (trace es) = 0 then [Out.start g r] else [])]

/-- The last request is never lost: at every moment the most recent arrival of `g` either is the most
recently started request of `g`, or a task of `g` is in flight and it is the request that
`C14_latest_wins` starts at the next completion. -/
def C14_never_lost_statement : Prop :=
  ∀ (es : List Event) (g : Group) (r : Req), Admissible es →
    (arrivalsOf g (trace es)).getLast? = some r →
      (startsOf g (trace es)).getLast? = some r ∨
      (inFlight g (trace es) = 1 ∧ (waitingOf g (trace es)).getLast? = some r)

/-- Eventually applied: (a) whenever nothing of `g` is in flight, the last request that arrived for `g` is
the last one that was started; (b) from every admissible history this situation is reached by at most two
completions of `g`, whatever their outcomes (and those completions are admissible). -/
def C14_eventually_applied_statement : Prop :=
  (∀ (es : List Event) (g : Group), Admissible es → inFlight g (trace es) = 0 →
    (startsOf g (trace es)).getLast? = (arrivalsOf g (trace es)).getLast?) ∧
  (∀ (es : List Event) (g : Group), Admissible es →
    ∃ k, k ≤ 2 ∧ ∀ os : List Outcome, os.length = k →
      Admissible (es ++ os.map (Event.complete g)) ∧
      inFlight g (trace (es ++ os.map (Event.complete g))) = 0)

/-- Independence: in every history (admissible or not) the events of group `g` together with the outputs
they caused are exactly what running the events of `g` alone produces — events of other groups neither
delay, reorder, add nor remove anything for `g`. -/
def C14_independent_statement : Prop :=
  ∀ (es : List Event) (g : Group),
    (trace es).filter (fun x => x.1.group = g) = trace (es.filter (fun e => e.group = g))

/-- The processed requests of a group are a subsequence of its arrivals (same order, nothing invented,
nothing processed twice). -/
def C14_processed_is_subsequence_statement : Prop :=
  ∀ (es : List Event) (g : Group), Admissible es →
    (startsOf g (trace es)).Sublist (arrivalsOf g (trace es))

def C14_statement : Prop :=
  C14_mutex_statement ∧ C14_latest_wins_statement ∧ C14_arrival_statement ∧ C14_never_lost_statement ∧
  C14_eventually_applied_statement ∧ C14_independent_statement ∧ C14_processed_is_subsequence_statement

theorem C14_mutex : C14_mutex_statement := by
  intro es₁ es₂ g h
  have h1 := admissible_prefix es₁ es₂ h
  have := (inv_of_admissible h1 g).flight
  rw [this]
  split <;> omega

theorem C14_latest_wins : C14_latest_wins_statement := by
  intro es g o h
  obtain ⟨h1, _⟩ := admissible_snoc_inv h
  have hp := (inv_of_admissible h1 g).pend
  rw [trace_snoc]
  cases hq : (final es).pending g with
  | some r =>
    rw [hq] at hp
    rw [step_complete_pending (final es) g o r hq, ← hp]
  | none =>
    rw [hq] at hp
    rw [(step_complete_nopending (final es) g o hq).1, ← hp]

theorem C14_arrival : C14_arrival_statement := by
  intro es g r h
  rw [trace_snoc]
  cases hp : (final es).processing g with
  | none => rw [step_arrive_idle _ g r hp, inFlight_of_idle h g hp]; simp
  | some r0 => rw [step_arrive_busy _ g r r0 hp, inFlight_of_busy h g r0 hp]; simp

theorem C14_never_lost : C14_never_lost_statement := by
  intro es g r h hlast
  have inv := inv_of_admissible h g
  obtain ⟨A, hA1, _, hA3⟩ := inv.split
  rw [hA1, List.getLast?_append] at hlast
  cases hw : (waitingOf g (trace es)).getLast? with
  | none =>
    rw [hw] at hlast
    left
    rw [hA3]; simpa using hlast
  | some r' =>
    rw [hw] at hlast
    have : r' = r := by simpa using hlast
    subst this
    right
    refine ⟨?_, rfl⟩
    cases hp : (final es).processing g with
    | none => have := inv.idle hp; rw [this] at hw; simp at hw
    | some r0 => exact inFlight_of_busy h g r0 hp

theorem C14_eventually_applied : C14_eventually_applied_statement := by
  refine ⟨?_, fun es g h => drain h g⟩
  intro es g h hfl
  have inv := inv_of_admissible h g
  have hp : (final es).processing g = none := by
    have := inv.flight
    cases hp : (final es).processing g with
    | none => rfl
    | some r0 => rw [hp, hfl] at this; simp at this
  obtain ⟨A, hA1, _, hA3⟩ := inv.split
  rw [hA1, inv.idle hp, hA3]; simp

theorem C14_independent : C14_independent_statement :=
  fun es g => (project es g).1

theorem C14_processed_is_subsequence : C14_processed_is_subsequence_statement := by
  intro es g h
  obtain ⟨A, hA1, hA2, _⟩ := (inv_of_admissible h g).split
  rw [hA1]
  exact hA2.trans (List.sublist_append_left A _)

theorem C14_full : C14_statement :=
  ⟨C14_mutex, C14_latest_wins, C14_arrival, C14_never_lost, C14_eventually_applied, C14_independent,
   C14_processed_is_subsequence⟩

/-! ## Non-vacuity: a concrete admissible history with overlapping requests, two groups, a failing task -/

/-- Request objects: `q i p a` = the `i`-th object the environment created, asking for `p` W with
`adjust_power = a`. -/
abbrev C14_q (i : Nat) (p : Int) (a : Bool) : Req := { id := i, power := p, adjust := a }

/-- r1 starts; r2 and r3 arrive while it runs (r3 overwrites r2); group 1 is served meanwhile; r1 FAILS:
r3 is started at once and r2 never is; then r3 succeeds.  r2 and r3 ask for the SAME power and differ only
in `adjust_power`: the request started is r3 — the object that arrived last — with r3's flag. -/
def C14_example : List Event :=
  [.arrive 0 (C14_q 1 1000 true), .arrive 0 (C14_q 2 5000 true), .arrive 1 (C14_q 7 7000 true),
   .arrive 0 (C14_q 3 5000 false), .complete 0 .exc, .complete 0 .ok]

example : Admissible C14_example :=
  Admissible.complete (es := C14_example.take 5) 0 .ok
    (Admissible.complete (es := C14_example.take 4) 0 .exc
      (Admissible.arrive (es := C14_example.take 3) 0 (C14_q 3 5000 false)
        (Admissible.arrive (es := C14_example.take 2) 1 (C14_q 7 7000 true)
          (Admissible.arrive (es := C14_example.take 1) 0 (C14_q 2 5000 true)
            (Admissible.arrive (es := []) 0 (C14_q 1 1000 true) Admissible.nil))))
      (by decide))
    (by decide)

example : trace C14_example =
    [(.arrive 0 (C14_q 1 1000 true), [.start 0 (C14_q 1 1000 true)]), (.arrive 0 (C14_q 2 5000 true), []),
     (.arrive 1 (C14_q 7 7000 true), [.start 1 (C14_q 7 7000 true)]), (.arrive 0 (C14_q 3 5000 false), []),
     (.complete 0 .exc, [.start 0 (C14_q 3 5000 false)]), (.complete 0 .ok, [])] := by decide

example : startsOf 0 (trace C14_example) = [C14_q 1 1000 true, C14_q 3 5000 false] ∧
    arrivalsOf 0 (trace C14_example) = [C14_q 1 1000 true, C14_q 2 5000 true, C14_q 3 5000 false] ∧
    inFlight 0 (trace C14_example) = 0 ∧ inFlight 1 (trace C14_example) = 1 := by decide

/-- Requests that are equal field by field but are different objects stay different requests: the one
started after the completion is object 3 (the last to arrive), not object 2. -/
example : trace [.arrive 0 (C14_q 1 1000 true), .arrive 0 (C14_q 2 5000 true), .arrive 0 (C14_q 3 5000 true),
      .complete 0 .ok] =
    [(.arrive 0 (C14_q 1 1000 true), [.start 0 (C14_q 1 1000 true)]), (.arrive 0 (C14_q 2 5000 true), []),
     (.arrive 0 (C14_q 3 5000 true), []), (.complete 0 .ok, [.start 0 (C14_q 3 5000 true)])] ∧
    C14_q 2 5000 true ≠ C14_q 3 5000 true := by decide

/-- A history that is NOT admissible (a completion without a task) — `Admissible` is not trivially true. -/
example : ¬ Admissible [Event.complete 0 Outcome.ok] := by
  intro h
  have := (admissible_snoc_inv (es := []) h).2 0 .ok rfl
  revert this
  decide
