/-
C16 — a battery is reported usable only while its data proves it healthy.

The tracker logic these theorems talk about (`Tracker.runIteration` and everything it calls, `Pool.updateStatus`,
`PoolStatus.getWorkingComponents`) is machine-translated from the Python source on every run
(`Frequenz/Extracted/BatteryStatus.lean`); `step s e` is one iteration of the `select` loop of
`BatteryStatusTracker._run` on event `e`.  All theorems quantify over every history / schedule (no bound).

Clauses of the property and where they are:
  * "working only if the latest messages … show an operational state, no critical error, known capacity, younger
    than the maximum data age":
      - `C16_safety_facts`      (FULL, every history): reported WORKING/UNCERTAIN ⇒ the latest battery and inverter
        messages exist, are healthy and were not older than `maxAge` when they arrived;
      - `C16_statement`         the literal reading: … and at every observable time their age counted from their own
        timestamp is ≤ `maxAge`.  REFUTED on the pinned code (`C16_full_refuted`, a message that arrives 9 s old keeps
        the battery WORKING until it is 19 s old); PROVED (`C16_partial`) when the latest message of each stream
        carries its arrival time as timestamp — exactly the complement of the regimes `StaleOnArrival`
        (timestamp < arrival) and `FutureTimestamp` (timestamp > arrival);
      - `C16_safety_arrival_statement`  the same with age counted from the arrival.  REFUTED
        (`C16_safety_arrival_refuted`: a message stamped in the future makes the `continue` guard of `_run` swallow
        the silence tick, silence is noticed only after 2·maxAge); PROVED (`C16_safety_arrival_partial`) when the
        latest messages are not stamped in the future (complement of `FutureTimestamp`);
  * "becomes not-working as soon as any of these fails or data stops arriving": `C16_prompt` (FULL) + the two
    safety theorems above (silence ⇒ not observable as working);
  * back-off: `C16_backoff` (FULL: blocking state = closed form `min(2ᵏ·min, max)`, reset on success and on recovery),
    `C16_backoff_status` (FULL: UNCERTAIN exactly while blocked, at every re-evaluation);
  * "notifications only on change": `C16_on_change` (FULL);
  * pool: `C16_pool_selection`, `C16_pool_tracking` (FULL);
  * `C16_operational_sets`, `C16_defaults_ok`: the tables/constants read from the source are the expected ones.
-/
import Frequenz.Lemmas.BatteryStatusBackoff

open Extracted.BatteryStatus BatteryStatus

/-! ### Tables and constants read from the source -/

/-- "Operational" means what the property means: the extracted tables are exactly these. -/
theorem C16_operational_sets :
    batteryValidState = ["CHARGING", "DISCHARGING", "IDLE"] ∧ batteryValidRelay = ["CLOSED"] ∧
    inverterValidState = ["CHARGING", "DISCHARGING", "IDLE", "STANDBY"] := by decide

/-- The production configuration satisfies the hypotheses of the theorems below. -/
theorem C16_defaults_ok :
    0 < defaultMaxDataAge ∧ 0 < minBlockingDuration ∧ minBlockingDuration ≤ defaultMaxBlockingDuration := by decide

/-! ### Safety: what a WORKING / UNCERTAIN report implies about the latest messages (every history) -/

theorem C16_safety_facts (maxAge maxBlk ts0 t0 : Int) (es : List Event) :
    (finalState (Tracker.new maxAge maxBlk ts0 t0) es).lastStatus ≠ Status.notWorking →
      ArrivedOk BatHealthy maxAge (lastBat es) ∧ ArrivedOk InvHealthy maxAge (lastInv es) := by
  intro hst
  have h := inv_final maxAge maxBlk ts0 t0 es
  have hh := (healthy_split _).mp (h.st.mp hst)
  exact ⟨h.bat hh.1, h.inv hh.2⟩

-- non-vacuity: a history after which the battery is reported WORKING
example : (finalState (Tracker.new 10 30000000 0 0)
    [.bat 1 ⟨1, "IDLE", "CLOSED", ["WARN"], false⟩, .inv 2 ⟨2, "STANDBY", "", [], false⟩]).lastStatus
      = Status.working := by decide

/-! ### Safety, literal statement: age counted from the message's own timestamp -/

/-- At every time at which the status can be observed (no timer tick overdue), a battery reported WORKING or
UNCERTAIN has latest battery and inverter messages that are healthy and whose timestamps are at most `maxAge` old. -/
def C16_statement : Prop :=
  ∀ (maxAge maxBlk ts0 t0 : Int) (es : List Event) (t : Int),
    Admissible (Tracker.new maxAge maxBlk ts0 t0) t0 es →
    Observable (afinal (Tracker.new maxAge maxBlk ts0 t0) es) (lastTime t0 es) t →
    (afinal (Tracker.new maxAge maxBlk ts0 t0) es).lastStatus ≠ Status.notWorking →
    StreamOk BatHealthy maxAge t true (lastBat es) ∧ StreamOk InvHealthy maxAge t true (lastInv es)

/-- Witness: max age 10; a healthy battery message stamped −8 arrives at 1 (9 old: accepted), the inverter reports
at 1; at time 5 the battery is WORKING although its latest message is 13 old. -/
def C16_witness_stale : List Event :=
  [.bat 1 ⟨-8, "IDLE", "CLOSED", [], false⟩, .inv 1 ⟨1, "IDLE", "", [], false⟩]

theorem C16_full_refuted : ¬ C16_statement := by
  intro h
  have := h 10 30000000 0 0 C16_witness_stale 5 (by decide) (by decide) (by decide)
  exact absurd this (by decide)

/-- The literal statement holds whenever the latest message of each stream is stamped with its arrival time
(complement of the regimes `StaleOnArrival` and `FutureTimestamp`). -/
theorem C16_partial (maxAge maxBlk ts0 t0 : Int) (es : List Event) (t : Int)
    (hadm : Admissible (Tracker.new maxAge maxBlk ts0 t0) t0 es)
    (hobs : Observable (afinal (Tracker.new maxAge maxBlk ts0 t0) es) (lastTime t0 es) t)
    (hst : (afinal (Tracker.new maxAge maxBlk ts0 t0) es).lastStatus ≠ Status.notWorking)
    (hb : TsIsArrival (lastBat es)) (hi : TsIsArrival (lastInv es)) :
    StreamOk BatHealthy maxAge t true (lastBat es) ∧ StreamOk InvHealthy maxAge t true (lastInv es) := by
  have h := safety_arrival hadm hobs hst
  constructor
  · cases hl : lastBat es with
    | none => have := h.1 (by rw [hl]; trivial); rw [hl] at this; exact this
    | some am =>
      obtain ⟨a, m⟩ := am
      rw [hl] at hb
      have hts : m.timestamp = a := hb
      have := h.1 (by rw [hl]; exact Int.le_of_eq hts)
      rw [hl] at this
      obtain ⟨h1, h2, h3⟩ := this
      refine ⟨h1, h2, ?_⟩
      simp only [Bool.false_eq_true, if_false] at h3
      simp only [if_true]
      omega
  · cases hl : lastInv es with
    | none => have := h.2 (by rw [hl]; trivial); rw [hl] at this; exact this
    | some am =>
      obtain ⟨a, m⟩ := am
      rw [hl] at hi
      have hts : m.timestamp = a := hi
      have := h.2 (by rw [hl]; exact Int.le_of_eq hts)
      rw [hl] at this
      obtain ⟨h1, h2, h3⟩ := this
      refine ⟨h1, h2, ?_⟩
      simp only [Bool.false_eq_true, if_false] at h3
      simp only [if_true]
      omega

-- non-vacuity: an admissible schedule with punctual messages, battery WORKING, observed at time 9
example : Admissible (Tracker.new 10 30000000 0 0) 0
      [.bat 1 ⟨1, "IDLE", "CLOSED", [], false⟩, .inv 2 ⟨2, "IDLE", "", [], false⟩, .setPower 3 ⟨false, true⟩] ∧
    Observable (afinal (Tracker.new 10 30000000 0 0)
      [.bat 1 ⟨1, "IDLE", "CLOSED", [], false⟩, .inv 2 ⟨2, "IDLE", "", [], false⟩, .setPower 3 ⟨false, true⟩]) 3 9 ∧
    (afinal (Tracker.new 10 30000000 0 0)
      [.bat 1 ⟨1, "IDLE", "CLOSED", [], false⟩, .inv 2 ⟨2, "IDLE", "", [], false⟩, .setPower 3 ⟨false, true⟩]).lastStatus
      = Status.uncertain ∧
    TsIsArrival (lastBat [.bat 1 ⟨1, "IDLE", "CLOSED", [], false⟩, .inv 2 ⟨2, "IDLE", "", [], false⟩,
      .setPower 3 ⟨false, true⟩]) := by decide

/-! ### Safety with age counted from the arrival -/

def C16_safety_arrival_statement : Prop :=
  ∀ (maxAge maxBlk ts0 t0 : Int) (es : List Event) (t : Int),
    Admissible (Tracker.new maxAge maxBlk ts0 t0) t0 es →
    Observable (afinal (Tracker.new maxAge maxBlk ts0 t0) es) (lastTime t0 es) t →
    (afinal (Tracker.new maxAge maxBlk ts0 t0) es).lastStatus ≠ Status.notWorking →
    StreamOk BatHealthy maxAge t false (lastBat es) ∧ StreamOk InvHealthy maxAge t false (lastInv es)

/-- Witness: max age 10; a battery message stamped 4 arrives at 1 and nothing follows from the battery; the inverter
keeps reporting.  The battery timer ticks at 11, finds the timestamp only 7 old and is ignored; at time 20 the battery
is still WORKING although its latest message arrived 19 ago. -/
def C16_witness_future : List Event :=
  [.bat 1 ⟨4, "IDLE", "CLOSED", [], false⟩, .inv 1 ⟨1, "IDLE", "", [], false⟩, .inv 10 ⟨10, "IDLE", "", [], false⟩,
   .batTimer 11, .inv 19 ⟨19, "IDLE", "", [], false⟩]

theorem C16_safety_arrival_refuted : ¬ C16_safety_arrival_statement := by
  intro h
  have := h 10 30000000 0 0 C16_witness_future 20 (by decide) (by decide) (by decide)
  exact absurd this (by decide)

/-- Safety by arrival age holds for every stream whose latest message is not stamped in the future
(complement of the regime `FutureTimestamp`). -/
theorem C16_safety_arrival_partial (maxAge maxBlk ts0 t0 : Int) (es : List Event) (t : Int)
    (hadm : Admissible (Tracker.new maxAge maxBlk ts0 t0) t0 es)
    (hobs : Observable (afinal (Tracker.new maxAge maxBlk ts0 t0) es) (lastTime t0 es) t)
    (hst : (afinal (Tracker.new maxAge maxBlk ts0 t0) es).lastStatus ≠ Status.notWorking) :
    (TsNotFuture (lastBat es) → StreamOk BatHealthy maxAge t false (lastBat es)) ∧
    (TsNotFuture (lastInv es) → StreamOk InvHealthy maxAge t false (lastInv es)) :=
  safety_arrival hadm hobs hst

-- non-vacuity: a stale-on-arrival (but not future) schedule satisfying the hypotheses
example : Admissible (Tracker.new 10 30000000 0 0) 0 C16_witness_stale ∧
    (afinal (Tracker.new 10 30000000 0 0) C16_witness_stale).lastStatus = Status.working ∧
    TsNotFuture (lastBat C16_witness_stale) ∧ TsNotFuture (lastInv C16_witness_stale) := by decide

/-! ### Promptness -/

/-- After every history, a disqualifying event (unhealthy or stale message; a timer tick that finds the stream's
latest message `maxAge` old) leaves the battery NOT_WORKING, and if it was reported usable the notification
NOT_WORKING is sent in that very iteration. -/
theorem C16_prompt (maxAge maxBlk ts0 t0 : Int) (es : List Event) (e : Event)
    (hd : Disqualifying maxAge es e) :
    let s := finalState (Tracker.new maxAge maxBlk ts0 t0) es
    (step s e).1.lastStatus = Status.notWorking ∧
      (s.lastStatus ≠ Status.notWorking → (step s e).2 = some Status.notWorking) :=
  prompt_step (inv_final maxAge maxBlk ts0 t0 es) e hd

-- non-vacuity: a disqualifying event (NaN capacity) after a history that made the battery WORKING
example : Disqualifying 10 [.bat 1 ⟨1, "IDLE", "CLOSED", [], false⟩, .inv 2 ⟨2, "IDLE", "", [], false⟩]
    (.bat 3 ⟨3, "IDLE", "CLOSED", [], true⟩) := by
  simp [Disqualifying, BatHealthy]

/-! ### Back-off -/

/-- For every history, the tracker's blocking state is the closed form: it is blocked until `u` exactly when the
specification automaton is in `some (k, u)`, and the last blocking duration is then `min (2ᵏ·min) max`; the automaton
restarts at `k = 0` after a success and after a recovery from NOT_WORKING, ignores failures while blocked or while
NOT_WORKING, and moves to `k+1` on a failure after the block expired. -/
theorem C16_backoff (maxAge maxBlk ts0 t0 : Int) (es : List Event) (hle : minBlockingDuration ≤ maxBlk) :
    let s0 := Tracker.new maxAge maxBlk ts0 t0
    let b := backoffRun minBlockingDuration maxBlk s0 none es
    (finalState s0 es).blocking.blockedUntil = b.map (·.2) ∧
      ∀ k u, b = some (k, u) →
        (finalState s0 es).blocking.lastBlockingDuration = backoffDur minBlockingDuration maxBlk k := by
  have h := bk_run (by decide : (0 : Int) ≤ minBlockingDuration) hle es (bk_init maxAge maxBlk ts0 t0)
  exact ⟨h.huntil, h.hdur⟩

/-- Whenever the status is re-evaluated and is not NOT_WORKING, it is UNCERTAIN exactly if the closed-form
automaton says the battery is blocked at that time. -/
theorem C16_backoff_status (maxAge maxBlk ts0 t0 : Int) (es : List Event) (e : Event)
    (hle : minBlockingDuration ≤ maxBlk) :
    let s0 := Tracker.new maxAge maxBlk ts0 t0
    let s := finalState s0 es
    let b := backoffRun minBlockingDuration maxBlk s0 none es
    Reevaluates s e → (step s e).1.lastStatus ≠ Status.notWorking →
      ((step s e).1.lastStatus = Status.uncertain ↔
        blockedAt (backoffStep minBlockingDuration maxBlk b s.lastStatus (step s e).1.lastStatus e) e.now) := by
  intro s0 s b hre hne
  have h := bk_run (by decide : (0 : Int) ≤ minBlockingDuration) hle es (bk_init maxAge maxBlk ts0 t0)
  exact uncertain_step h (by decide) hle e hre hne

-- the doubling sequence of the repo's own test: 1, 2, 4, 8, 16, 30, 30 seconds
example : (List.range 7).map (backoffDur minBlockingDuration defaultMaxBlockingDuration) =
    [1000000, 2000000, 4000000, 8000000, 16000000, 30000000, 30000000] := by decide

-- non-vacuity: three failures, each after the previous block expired -> automaton at k = 2
example : backoffRun minBlockingDuration 30000000 (Tracker.new 100000000 30000000 0 0) none
    [.bat 1 ⟨1, "IDLE", "CLOSED", [], false⟩, .inv 2 ⟨2, "IDLE", "", [], false⟩,
     .setPower 3 ⟨false, true⟩, .setPower 1000003 ⟨false, true⟩, .setPower 3000003 ⟨false, true⟩]
    = some (2, 7000003) := by decide

/-! ### Notifications only on change -/

theorem C16_on_change (maxAge maxBlk ts0 t0 : Int) (es : List Event) :
    AdjDistinct Status.notWorking (notifications (Tracker.new maxAge maxBlk ts0 t0) es) :=
  on_change es (Tracker.new maxAge maxBlk ts0 t0)

/-! ### Pool -/

/-- `get_working_components`: a requested component is returned iff it is working, or it is uncertain and no
requested component is working. -/
theorem C16_pool_selection (p : Pool) (req : List Nat) (x : Nat) :
    x ∈ Pool.getWorkingComponents p req ↔
      x ∈ req ∧ (x ∈ p.currentStatus.working ∨
        (x ∈ p.currentStatus.uncertain ∧ ∀ y, y ∈ req → y ∉ p.currentStatus.working)) :=
  pool_selection p.currentStatus req x

/-- After any sequence of component notifications the pool's `working` / `uncertain` sets are exactly the components
whose latest notification was WORKING / UNCERTAIN (in particular they are disjoint), and every notification makes
the pool publish its current sets. -/
theorem C16_pool_tracking (cs : List CompStatus) (x : Nat) :
    (x ∈ (poolRun Pool.new cs).currentStatus.working ↔ latestOf x cs = some Status.working) ∧
    (x ∈ (poolRun Pool.new cs).currentStatus.uncertain ↔ latestOf x cs = some Status.uncertain) :=
  pool_run cs pool_init x

theorem C16_pool_publishes (p : Pool) (c : CompStatus) :
    (Pool.updateStatus p 0 c).2 = some (Pool.updateStatus p 0 c).1.currentStatus := by
  obtain ⟨id, v⟩ := c
  cases v <;> first | rfl | (unfold Pool.updateStatus; c16_unfold_helpers <;> (try simp) <;> c16_leaf)
