/-
C19 — formulas switch to fallback components when a primary fails, and return to the primary.

Model: `Frequenz/Model/Fallback.lean` (the `MetricFetcher` of `_formula_steps.py` WITH the fix
`fixes/C19-except-receivererror.patch`; on the pinned tree the handlers `except ReceiverError[Any]` raise `TypeError`
and none of this holds once the primary stream is closed — the harness reports that as a violation).

Reading of the statements.  `es` is any schedule (interleaving of primary deliveries `dP`, primary close `cP`,
emissions of the fallback source `dF`, fallback failure `cF`, and `round` = one `fetch_next()`), `σ = run es`:
  `σ.pAll`  the primary samples delivered (round `k` of the formula is the tick of `σ.pAll[k]`, i.e. `p0 + k`: every
            other term of the formula consumes exactly one sample per round),
  `σ.acc`   the fallback samples delivered after the fallback was started (fallback samples emitted before, with or
            after the primary sample of the same tick: all orders are schedules),
  `σ.out`   the results of the completed rounds.
`AdmFrom p0 g0 St.init es`: the primary stream is gap-free from tick `p0`, the fallback source gap-free from `g0`.
-/
import Frequenz.Lemmas.FallbackClosed
import Frequenz.Extracted.Evaluator
import Frequenz.Lemmas.FallbackTie
import Frequenz.Extracted.FallbackMetrics

open Fallback

/-- Precondition of the whole model, regenerated from `_formula_steps.py` on every run: every receive-error handler
of `MetricFetcher` names the class (`except ReceiverError`).  On the pinned tree the four handlers are written
`except ReceiverError[Any]` (a subscripted generic: Python raises `TypeError` instead of catching), this theorem
does not build, and the check searches (and finds) the failing input. -/
theorem C19_handlers_catch : Extracted.Evaluator.receiverErrorHandlersCatch = true := by decide

/-- A schedule with two failures and a recovery, fallback emissions before/with/after the primary's. -/
def C19_demo : List Ev :=
  [.dF ⟨9, some 209⟩, .dP ⟨10, some 110⟩, .round, .dF ⟨10, some 210⟩, .dP ⟨11, none⟩, .dP ⟨12, none⟩, .round,
   .dF ⟨11, some 211⟩, .round, .dF ⟨12, some 212⟩, .round, .dP ⟨13, some 113⟩, .dF ⟨13, some 213⟩, .round,
   .dF ⟨14, none⟩, .dP ⟨14, none⟩, .round]

/-- **Value** (any fault sequence, any schedule; rounds that read a primary sample): the returned sample carries
the timestamp of the round; a valid primary sample is returned as is; an invalid one is replaced by the fallback
sample *of the same timestamp*, or else passed through unchanged (start-up, see `C19_bounded_startup`). -/
theorem C19_value (p0 g0 : Int) (es : List Ev) (ha : AdmFrom p0 g0 St.init es)
    (k : Nat) (p : Sample) (res : Res)
    (hp : (run es).pAll[k]? = some p) (hres : (run es).out[k]? = some res) :
    p.ts = p0 + k ∧
    (p.val.isSome = true → res = .sample p) ∧
    (p.val = none → (∃ s ∈ (run es).acc, s.ts = p.ts ∧ res = .sample s) ∨ res = .sample p) := by
  have hinv := inv_run (p0 := p0) (g0 := g0) es ha
  have hk := QList.lt_length_of_getElem? _ _ _ hp
  obtain ⟨p', hp', h1, h2⟩ := hinv.results k res hres hk
  rw [hp] at hp'; cases hp'
  refine ⟨hinv.pts k p hp, h1, ?_⟩
  intro hv
  rcases h2 hv with ⟨s, j, hj, hts, hr⟩ | ⟨hr, _⟩
  · exact Or.inl ⟨s, List.mem_of_getElem? hj, hts, hr⟩
  · exact Or.inr hr

example : AdmFrom 10 9 St.init C19_demo := by decide

/-- **Returns to the primary**: whatever happened before (failures, a running or failed fallback), a round whose
primary sample is valid returns exactly that sample. -/
theorem C19_returns_to_primary (p0 g0 : Int) (es : List Ev) (ha : AdmFrom p0 g0 St.init es)
    (k : Nat) (p : Sample) (res : Res)
    (hp : (run es).pAll[k]? = some p) (hres : (run es).out[k]? = some res) (hv : p.val.isSome = true) :
    res = .sample p :=
  (C19_value p0 g0 es ha k p res hp hres).2.1 hv

/-- in the demo the primary recovers at round 3 (tick 13) after two fallback rounds -/
example : (run C19_demo).out[3]? = some (.sample ⟨13, some 113⟩) ∧
    (run C19_demo).out[2]? = some (.sample ⟨12, some 212⟩) := by decide

/-- **Bounded start-up**: while the fallback stream has not failed, an invalid primary sample is passed through
(instead of the fallback sample of the same tick) only in the round of the first failure, or while the primary is
still behind the first sample `a0` the freshly started fallback receiver saw — at most `a0.ts - (p0 + r)` rounds
after the failure round `r`. -/
theorem C19_bounded_startup (p0 g0 : Int) (es : List Ev) (ha : AdmFrom p0 g0 St.init es)
    (k : Nat) (p : Sample) (res : Res)
    (hp : (run es).pAll[k]? = some p) (hres : (run es).out[k]? = some res) (hv : p.val = none)
    (hf : (run es).fClosed = false) :
    (∃ s ∈ (run es).acc, s.ts = p.ts ∧ res = .sample s) ∨
    (res = .sample p ∧
      (k = firstInvalid (run es).pAll ∨ ∃ a0, (run es).acc[0]? = some a0 ∧ p0 + (k : Int) < a0.ts)) := by
  have hinv := inv_run (p0 := p0) (g0 := g0) es ha
  have hk := QList.lt_length_of_getElem? _ _ _ hp
  obtain ⟨p', hp', _, h2⟩ := hinv.results k res hres hk
  rw [hp] at hp'; cases hp'
  rcases h2 hv with ⟨s, j, hj, hts, hr⟩ | ⟨hr, h3⟩
  · exact Or.inl ⟨s, List.mem_of_getElem? hj, hts, hr⟩
  · refine Or.inr ⟨hr, ?_⟩
    rcases h3 with h3 | ⟨a0, ha0, hlt⟩ | h3
    · left
      have h4 := fi_ge_of_valid _ k h3 (by omega)
      have h5 := fi_le_of_invalid _ k p hp hv
      omega
    · right; exact ⟨a0, ha0, by rw [← hinv.pts k p hp]; exact hlt⟩
    · rw [hf] at h3; cases h3

/-- demo: first failure at round 1 (tick 11) passes the invalid sample through; the fallback receiver's first
sample is tick 11, so round 2 already uses the fallback -/
example : firstInvalid (run C19_demo).pAll = 1 ∧ (run C19_demo).out[1]? = some (.sample ⟨11, none⟩) ∧
    (run C19_demo).acc[0]? = some ⟨11, some 211⟩ := by decide

/-- **The fallback is started** as soon as a round has seen a failure (an invalid sample or the closed stream). -/
theorem C19_starts_fallback (p0 g0 : Int) (es : List Ev) (ha : AdmFrom p0 g0 St.init es)
    (hfail : (∃ (k : Nat) (p : Sample), k < (run es).out.length ∧ (run es).pAll[k]? = some p ∧ p.val = none) ∨
      (run es).pAll.length < (run es).out.length) :
    (run es).running = true := by
  have hinv := inv_run (p0 := p0) (g0 := g0) es ha
  cases hr : (run es).running with
  | true => rfl
  | false =>
    obtain ⟨_, _, _, h4⟩ := hinv.notRunning hr
    rcases hfail with ⟨k, p, hk, hp, hv⟩ | hlt
    · have := h4 k p hk hp; rw [hv] at this; cases this
    · have := (hinv.closedPhase hlt).2; rw [hr] at this; cases this

/-- a closed primary: the round that sees the error returns `None` and starts the fallback -/
example : (run [.dP ⟨0, some 1⟩, .cP, .round, .round]).out = [.sample ⟨0, some 1⟩, .none] ∧
    (run [.dP ⟨0, some 1⟩, .cP, .round, .round]).running = true := by decide

/-! ### Error path (primary stream closed) -/

/-- Full statement of "same timestamp" including the rounds after the primary stream was closed: every returned
sample carries the timestamp of its round. -/
def C19_error_statement : Prop :=
  ∀ (p0 g0 : Int) (es : List Ev), AdmFrom p0 g0 St.init es →
    ∀ (k : Nat) (s : Sample), (run es).out[k]? = some (.sample s) → s.ts = p0 + k

/-- Witness (regime `PrimaryStreamError`): three primary samples, close; the rounds lag two ticks behind the
deliveries (as when another term of the formula lags), so the fallback receiver created in round 3 first sees
tick 5; round 4 returns it although every other term is at tick 4 — and the shift persists. -/
def C19_error_witness : List Ev :=
  [.dP ⟨0, some 100⟩, .dF ⟨0, some 200⟩, .dP ⟨1, some 101⟩, .dF ⟨1, some 201⟩, .dP ⟨2, some 102⟩, .dF ⟨2, some 202⟩,
   .cP, .round, .dF ⟨3, some 203⟩, .round, .dF ⟨4, some 204⟩, .round, .round, .dF ⟨5, some 205⟩, .round,
   .dF ⟨6, some 206⟩, .round]

theorem C19_error_full_refuted : ¬ C19_error_statement := by
  intro h
  have := h 0 0 C19_error_witness (by decide) 4 ⟨5, some 205⟩ (by decide)
  simp at this

/-- The hypothesis of the partial theorem = complement of the regime `PrimaryStreamError`: when the close is seen,
the fallback is synchronised to the last primary tick (`r` = round of the first failure, `N` = number of primary
samples, `a0` = first sample the fallback receiver saw). -/
def C19_Synced (p0 : Int) (σ : St) : Prop :=
  ∀ a0, σ.acc[0]? = some a0 → SyncedF p0 (firstInvalid σ.pAll) σ.pAll.length a0.ts

/-- **Error path, partial**: if the primary is never closed, or the fallback is synchronised when the close is
seen, every returned sample carries the timestamp of its round, and after the close it is the fallback sample of
that tick. -/
theorem C19_error_partial (p0 g0 : Int) (es : List Ev) (ha : AdmFrom p0 g0 St.init es)
    (hH : (run es).pClosed = true → C19_Synced p0 (run es))
    (k : Nat) (s : Sample) (hres : (run es).out[k]? = some (.sample s)) :
    s.ts = p0 + k ∧ ((run es).pAll.length ≤ k → s ∈ (run es).acc) := by
  have hinv := inv_run (p0 := p0) (g0 := g0) es ha
  have hinv2 := inv2_run (p0 := p0) (g0 := g0) es ha
  rcases Nat.lt_or_ge k (run es).pAll.length with hk | hk
  · refine ⟨?_, fun h => by omega⟩
    obtain ⟨p, hp, h1, h2⟩ := hinv.results k _ hres hk
    have hpts := hinv.pts k p hp
    cases hv : p.val with
    | some v =>
      have := h1 (by rw [hv]; rfl)
      cases this; exact hpts
    | none =>
      rcases h2 hv with ⟨s', j, _, hts, hr⟩ | ⟨hr, _⟩
      · cases hr; omega
      · cases hr; exact hpts
  · obtain ⟨j, hj, hsync⟩ := hinv2.c3 k s hk hres
    refine ⟨?_, fun _ => List.mem_of_getElem? hj⟩
    have hn := QList.lt_length_of_getElem? _ _ _ hres
    have hcl := (hinv.closedPhase (by omega)).1
    have hjl := QList.lt_length_of_getElem? _ _ _ hj
    have h0 : (run es).acc[0]? = some ((run es).acc[0]'(by omega)) := List.getElem?_eq_getElem (by omega)
    exact hsync _ h0 (hH hcl _ h0)

/-- Non-vacuity: a closed primary with a synchronised fallback (failure at round 1, close after 3 samples). -/
def C19_synced_demo : List Ev :=
  [.dP ⟨0, some 100⟩, .round, .dP ⟨1, none⟩, .round, .dF ⟨2, some 202⟩, .dP ⟨2, none⟩, .round, .cP,
   .dF ⟨3, some 203⟩, .round, .dF ⟨4, some 204⟩, .round]

example : AdmFrom 0 2 St.init C19_synced_demo ∧ (run C19_synced_demo).pClosed = true ∧
    C19_Synced 0 (run C19_synced_demo) ∧
    (run C19_synced_demo).out[4]? = some (.sample ⟨4, some 204⟩) := by
  refine ⟨by decide, by decide, ?_, by decide⟩
  intro a0 h0
  have : a0 = ⟨2, some 202⟩ := by
    have h : (run C19_synced_demo).acc[0]? = some ⟨2, some 202⟩ := by decide
    rw [h] at h0; cases h0; rfl
  subst this
  decide

/-! ### The model is the source -/

/-- **Tie by proof** (replaces the sampling tie of `round`/`withFallback`/`withLatest`/`syncLoop`).
`Extracted.FallbackPull.fetch_next` is the statement-by-statement translation of the CURRENT source text of
`MetricFetcher.fetch_next`, `_fetch_next`, `fetch_next_with_fallback`, `_synchronize_and_fetch_fallback` and
`_is_value_valid`, regenerated on every run, as a function of the two receiver queues, their closed flags,
`fallback.is_running` and `_latest_fallback_sample` (`Pull.PSt`; values may be `None`, NaN, ±inf or numbers).
For EVERY such state `c` of a fetcher with a fallback and every model state `σ` whose live fields are the abstraction
of `c` (`FallbackTie.Rel`; the history fields `out`, `pAll`, `fAll`, `acc` are arbitrary):
  * the translated call blocks (needs data not yet delivered)  ⇔  `round σ = none`;
  * it returns `v` leaving `c'`  ⇒  `round σ = some σ'` with the live fields of `σ'` the abstraction of `c'`, the
    history fields unchanged and `out` extended by `v` (a sample or `None`);
  * it propagates a `ReceiverError` leaving `c'`  ⇒  the same with `.raised` appended;
  * it never raises anything else (`FallbackTie.Agrees`);
and the returned value is what `value`/`apply` read back afterwards.  Every model state is the abstraction of some `c`
(second conjunct), so this covers ALL model states.  A semantic change of those methods makes this
theorem (or the extraction) fail; a behaviour-preserving rewrite does not. -/
theorem C19_model_is_source :
    (∀ (σ : St) (c : Pull.PSt), FallbackTie.Rel σ c →
      FallbackTie.Agrees σ (round σ) (Extracted.FallbackPull.fetch_next c) ∧
      (∀ v c', Extracted.FallbackPull.fetch_next c = .ok v c' → c'.next = v)) ∧
    (∀ σ : St, FallbackTie.Rel σ (FallbackTie.conc σ)) :=
  ⟨fun σ c h => ⟨FallbackTie.round_is_source σ c h, fun v c' hv => FallbackTie.fetch_stores_next c c' v hv⟩,
   FallbackTie.rel_conc⟩

/-- Non-vacuity: a running fallback, a NaN primary sample at tick 12, fallback queue at ticks 11, 12 — the relation
holds and both sides return the fallback sample of tick 12. -/
example :
    let c : Pull.PSt := ⟨[⟨12, some .nan⟩], false, [⟨11, some (.num 211)⟩, ⟨12, some (.num 212)⟩], false, true, true,
      none, none⟩
    let σ : St := { pq := [⟨12, none⟩], fq := [⟨11, some 211⟩, ⟨12, some 212⟩], running := true }
    FallbackTie.Rel σ c ∧ (round σ).map (·.out) = some [.sample ⟨12, some 212⟩] ∧
    (∃ c', Extracted.FallbackPull.fetch_next c = .ok (some ⟨12, some (.num 212)⟩) c') := by
  refine ⟨⟨rfl, rfl, rfl, rfl, rfl, rfl, rfl⟩, by decide, ⟨_, rfl⟩⟩

/-! ### The fallback formula measures the same quantity -/

/-- **Same metric.**  `Extracted.FallbackMetrics.rows` lists, from the current source, every place where a formula
generator wraps a fallback formula (`FallbackFormulaMetricFetcher(<generator>)`), with the `ComponentMetricId` member
and the create method (unit) the generator passes to `_get_builder` for its own formula and those the wrapped generator
passes for the fallback formula.  Every fallback formula requests the SAME metric, in the same unit, as the formula it
backs — "the term's value is taken from the sum of its fallback components" is a sum of the same quantity — and the
sites are exactly the six generated formulas the harness drives (grid power, grid reactive power, consumer, producer,
PV and battery power).  A generator whose metric cannot be read off makes the extraction fail. -/
theorem C19_fallback_same_metric :
    (∀ r ∈ Extracted.FallbackMetrics.rows, r.primaryMetric = r.fallbackMetric ∧ r.primaryCreate = r.fallbackCreate) ∧
    Extracted.FallbackMetrics.rows.map (·.primary) =
      ["BatteryPowerFormula", "ConsumerPowerFormula", "GridPowerFormula", "GridReactivePowerFormula", "PVPowerFormula",
       "ProducerPowerFormula"] ∧
    (∃ r ∈ Extracted.FallbackMetrics.rows, r.primaryMetric = "REACTIVE_POWER") := by
  decide
