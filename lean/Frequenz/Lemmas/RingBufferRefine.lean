/-
Refinement of the ring-buffer model to the abstract sliding map (C09): state invariant, one update step,
all histories.
-/
import Frequenz.Lemmas.RingBufferGaps

set_option linter.unusedSimpArgs false
set_option linter.unusedVariables false

namespace RingBuffer
open Extracted.RingBuffer

/-! ### index arithmetic -/

theorem wrapIdx_lt {cap : Nat} (h : 0 < cap) (k : Int) : wrapIdx cap k < cap := by
  unfold wrapIdx
  have h0 : (cap : Int) ≠ 0 := by omega
  have h1 := Int.emod_nonneg k h0
  have h2 := Int.emod_lt_of_pos k (by omega : (0 : Int) < cap)
  omega

/-- Two slots of one window never share a position of the container. -/
theorem wrapIdx_inj {cap : Nat} (h : 0 < cap) {k t : Int} (hkt : k - t < cap) (htk : t - k < cap)
    (he : wrapIdx cap k = wrapIdx cap t) : k = t := by
  unfold wrapIdx at he
  have h0 : (cap : Int) ≠ 0 := by omega
  have hk := Int.emod_nonneg k h0
  have ht := Int.emod_nonneg t h0
  have he' : k % (cap : Int) = t % (cap : Int) := by omega
  have hz := Int.emod_eq_emod_iff_emod_sub_eq_zero.mp he'
  have hd := Int.dvd_of_emod_eq_zero hz
  have := Int.eq_zero_of_dvd_of_natAbs_lt_natAbs hd (by omega)
  omega

theorem getD_set_eq {β : Type} (l : List β) (i : Nat) (a d : β) (h : i < l.length) : (l.set i a).getD i d = a := by
  simp [List.getD_eq_getElem?_getD, List.getElem?_set, h]

theorem getD_set_ne {β : Type} (l : List β) (i j : Nat) (a d : β) (h : i ≠ j) : (l.set i a).getD j d = l.getD j d := by
  simp [List.getD_eq_getElem?_getD, List.getElem?_set, h]

/-! ### capacity 1: the empty gap `(n, n)` left by the jump branch behaves like no gap -/

theorem isMissing_empty_gap (n k : Int) : isMissing [(n, n)] k = false := by
  rw [isMissing_cons, isMissing_nil]
  simp only [Bool.or_false, decide_eq_false_iff_not]
  omega

theorem updateGaps_exc (n t n' o' : Int) (m : Bool) (ht : n ≤ t) (hn' : n' = max n t) (ho' : o' = n') :
    updateGaps ((1 : Nat) : Int) [(n, n)] t n n' o' m = updateGaps ((1 : Nat) : Int) [] t n n' o' m := by
  have hf := isMissing_empty_gap n t
  unfold updateGaps
  rw [hf, isMissing_nil]
  cases m with
  | false =>
    by_cases hj : n' - n ≥ ((1 : Nat) : Int)
    · simp only [ugJump_iff, hj, and_self, if_true]
    · have hnt : t = n := by omega
      have hon : o' = n := by omega
      subst hnt
      simp only [ugJump_iff, ugCreated_iff, hj, and_false, if_false, Bool.false_eq_true, List.length_cons,
        List.length_nil, not_false_eq_true, true_and, false_and]
      have h1 : ¬ (t > t + 1) := by omega
      simp only [h1, if_false, hon]
      simp [cleanupGaps, sortGaps, insertGap, cleanupLoop, clOutdated_iff]
  | true =>
    have hot : o' = t := by omega
    simp only [ugMissingStart_eq, ugMissingEnd_eq, Bool.true_eq_false, false_and, if_false, if_true, hot,
      List.nil_append, List.cons_append]
    have hle : n ≤ min (n + 1) t := by omega
    by_cases hlt : min (n + 1) t < t
    · simp [cleanupGaps, sortGaps, insertGap, cleanupLoop, clOutdated_iff, clRolled_iff, hle, ht, hlt]
    · simp [cleanupGaps, sortGaps, insertGap, cleanupLoop, clOutdated_iff, clRolled_iff, hle, ht, hlt]

/-! ### State invariant -/

/-- The gap list of a state whose newest slot is `n`: in normal form (sorted, disjoint, not adjacent, non-empty,
inside the window `[n - (cap - 1), n + 1)`), or — capacity 1 only, right after a jump — the single empty range
`(n, n)`, which covers no slot. -/
def GapsInv (cap : Nat) (n : Int) (gaps : List Gap) : Prop :=
  Normal (n - ((cap : Int) - 1)) (n + 1) gaps ∨ (cap = 1 ∧ gaps = [(n, n)])

/-- Invariant of every reachable state. -/
structure Inv {α : Type} (s : State α) : Prop where
  cap_pos : 1 ≤ s.cap
  len : s.slots.length = s.cap
  fresh : s.newest = none → s.gaps = []
  gaps : ∀ n, s.newest = some n → GapsInv s.cap n s.gaps
  /-- a slot of the window outside every gap holds a valid value -/
  valid : ∀ n, s.newest = some n → ∀ k, n - ((s.cap : Int) - 1) ≤ k → k ≤ n → isMissing s.gaps k = false →
    (s.slots.getD (wrapIdx s.cap k) none).isSome = true

theorem Inv.init {α : Type} (buffer : List (Option α)) (h : 1 ≤ buffer.length) : Inv (State.init buffer) where
  cap_pos := h
  len := rfl
  fresh := fun _ => rfl
  gaps := fun n hn => by simp [State.init] at hn
  valid := fun n hn => by simp [State.init] at hn

theorem oldestOf_eq (cap : Nat) (n : Int) : oldestOf cap n = n - ((cap : Int) - 1) := by
  simp [oldestOf, updOldest_eq]

/-- `updateSlot` on a buffer that already holds a newest slot `n`. -/
theorem updateSlot_some {α : Type} (s : State α) (t : Int) (v : Option α) (n : Int) (hn : s.newest = some n) :
    updateSlot s t v =
      if t < n - ((s.cap : Int) - 1) then (s, true)
      else ({ s with
                slots := s.slots.set (wrapIdx s.cap t) v
                gaps := updateGaps s.cap s.gaps t n (max n t) (max n t - ((s.cap : Int) - 1)) v.isNone
                newest := some (max n t) }, false) := by
  unfold updateSlot
  simp only [hn, updReject_iff, Option.isNone_some, and_true, oldestOf_eq, updNewest_eq]

/-- `updateSlot` on the fresh buffer (`_TIMESTAMP_MIN` represented by `t - cap`). -/
theorem updateSlot_none {α : Type} (s : State α) (t : Int) (v : Option α) (hn : s.newest = none) :
    updateSlot s t v =
      ({ s with
          slots := s.slots.set (wrapIdx s.cap t) v
          gaps := updateGaps s.cap s.gaps t (t - s.cap) (max (t - s.cap) t) (max (t - s.cap) t - ((s.cap : Int) - 1)) v.isNone
          newest := some (max (t - s.cap) t) }, false) := by
  unfold updateSlot
  simp only [hn, updReject_iff, Option.isNone_none, oldestOf_eq, updNewest_eq]
  simp

/-- Was the sample rejected?  Exactly when it is older than the window. -/
theorem updateSlot_rejected {α : Type} (s : State α) (t : Int) (v : Option α) :
    (updateSlot s t v).2 = true ↔ ∃ n, s.newest = some n ∧ t < n - ((s.cap : Int) - 1) := by
  cases hn : s.newest with
  | none => rw [updateSlot_none s t v hn]; simp
  | some n =>
    rw [updateSlot_some s t v n hn]
    by_cases h : t < n - ((s.cap : Int) - 1)
    · simp [h]
    · simp [h]

/-- A rejected sample leaves the state unchanged. -/
theorem updateSlot_rejected_state {α : Type} (s : State α) (t : Int) (v : Option α)
    (h : (updateSlot s t v).2 = true) : (updateSlot s t v).1 = s := by
  cases hn : s.newest with
  | none => rw [updateSlot_none s t v hn] at h; simp at h
  | some n =>
    rw [updateSlot_some s t v n hn] at h ⊢
    by_cases hc : t < n - ((s.cap : Int) - 1)
    · simp [hc]
    · simp [hc] at h

/-! ### One accepted update -/

theorem step_core {α : Type} (cap : Nat) (hcap : 1 ≤ cap) (slots : List (Option α)) (hlen : slots.length = cap)
    (gaps : List Gap) (prev t : Int) (v : Option α)
    (hN : Normal (prev - ((cap : Int) - 1)) (prev + 1) gaps) (ht : prev - ((cap : Int) - 1) ≤ t)
    (hvalid : ∀ k, max prev t - ((cap : Int) - 1) ≤ k → k ≤ prev → isMissing gaps k = false →
      (slots.getD (wrapIdx cap k) none).isSome = true) :
    GapsInv cap (max prev t) (updateGaps cap gaps t prev (max prev t) (max prev t - ((cap : Int) - 1)) v.isNone)
    ∧ (∀ k, max prev t - ((cap : Int) - 1) ≤ k → k ≤ max prev t →
        isMissing (updateGaps cap gaps t prev (max prev t) (max prev t - ((cap : Int) - 1)) v.isNone) k = false →
        ((slots.set (wrapIdx cap t) v).getD (wrapIdx cap k) none).isSome = true)
    ∧ (∀ j, (if max prev t - ((cap : Int) - 1) ≤ j ∧ j ≤ max prev t
              ∧ isMissing (updateGaps cap gaps t prev (max prev t) (max prev t - ((cap : Int) - 1)) v.isNone) j = false
            then (slots.set (wrapIdx cap t) v).getD (wrapIdx cap j) none else none)
          = if j = t then v
            else if max prev t - ((cap : Int) - 1) ≤ j then
              (if prev - ((cap : Int) - 1) ≤ j ∧ j ≤ prev ∧ isMissing gaps j = false
               then slots.getD (wrapIdx cap j) none else none)
            else none) := by
  obtain ⟨ug1, ug2⟩ := updateGaps_spec cap hcap gaps t prev v.isNone hN ht
  generalize hout : updateGaps cap gaps t prev (max prev t) (max prev t - ((cap : Int) - 1)) v.isNone = out at *
  have hcap' : (1 : Int) ≤ (cap : Int) := by exact_mod_cast hcap
  have hpos : 0 < cap := by omega
  have hidx : wrapIdx cap t < slots.length := by rw [hlen]; exact wrapIdx_lt hpos t
  -- reading a slot other than `t` of the new window is not affected by the write
  have hother : ∀ j, j ≠ t → max prev t - ((cap : Int) - 1) ≤ j → j ≤ max prev t →
      (slots.set (wrapIdx cap t) v).getD (wrapIdx cap j) none = slots.getD (wrapIdx cap j) none := by
    intro j hjt h1 h2
    apply getD_set_ne
    intro he
    exact hjt (wrapIdx_inj hpos (by omega) (by omega) he.symm)
  refine ⟨?_, ?_, ?_⟩
  · rcases ug1 with h | ⟨h1, _, h3, h4⟩
    · exact Or.inl h
    · right; refine ⟨h1, ?_⟩
      rw [h4]; have : max prev t = t := by omega
      rw [this]
  · intro k hk1 hk2 hm
    have hiff := ug2 k hk1 hk2
    rw [hm] at hiff
    by_cases hkt : k = t
    · subst hkt
      simp only [if_true] at hiff
      rw [getD_set_eq _ _ _ _ hidx]
      cases v with
      | none => simp at hiff
      | some x => rfl
    · simp only [hkt, if_false] at hiff
      rw [hother k hkt hk1 hk2]
      have h1 : ¬ prev < k := fun h => by have := hiff.mpr (Or.inl h); cases this
      have h2 : isMissing gaps k = false := by
        cases hg : isMissing gaps k with
        | false => rfl
        | true => have := hiff.mpr (Or.inr hg); cases this
      exact hvalid k hk1 (by omega) h2
  · intro j
    by_cases hjt : j = t
    · subst hjt
      simp only [if_true]
      have hr1 : max prev j - ((cap : Int) - 1) ≤ j := by omega
      have hr2 : j ≤ max prev j := by omega
      have hiff := ug2 j hr1 hr2
      simp only [if_true] at hiff
      cases v with
      | none =>
        have : isMissing out j = true := hiff.mpr rfl
        simp [this]
      | some x =>
        have : isMissing out j = false := by
          cases hg : isMissing out j with
          | false => rfl
          | true => have := hiff.mp hg; simp at this
        simp only [hr1, hr2, this, and_self, if_true]
        exact getD_set_eq _ _ _ _ hidx
    · simp only [hjt, if_false]
      by_cases h1 : max prev t - ((cap : Int) - 1) ≤ j
      · simp only [h1, true_and, if_true]
        by_cases h2 : j ≤ max prev t
        · have hiff := ug2 j h1 h2
          simp only [hjt, if_false] at hiff
          simp only [h2, true_and]
          by_cases h3 : prev < j
          · have : isMissing out j = true := hiff.mpr (Or.inl h3)
            have h4 : ¬ j ≤ prev := by omega
            simp [this, h4]
          · have h4 : j ≤ prev := by omega
            have h5 : prev - ((cap : Int) - 1) ≤ j := by omega
            have h6 : isMissing out j = isMissing gaps j := by
              apply Bool.eq_iff_iff.mpr
              rw [hiff]
              constructor
              · rintro (h | h)
                · omega
                · exact h
              · intro h; exact Or.inr h
            simp only [h4, h5, h6, true_and]
            rw [hother j hjt h1 h2]
        · have h4 : ¬ j ≤ prev := by omega
          simp [h2, h4]
      · simp [h1]

/-! ### One `update` on a state: invariant and refinement -/

theorem Normal_nil (o ub : Int) : Normal o ub [] := ⟨List.Pairwise.nil, fun _ h => by cases h⟩

theorem step {α : Type} (s : State α) (hI : Inv s) (t : Int) (v : Option α) :
    Inv (updateSlot s t v).1
    ∧ (updateSlot s t v).1.cap = s.cap
    ∧ abs (updateSlot s t v).1 = Spec.write s.cap (abs s) t v := by
  have hcap := hI.cap_pos
  have hcap' : (1 : Int) ≤ (s.cap : Int) := by exact_mod_cast hcap
  cases hn : s.newest with
  | none =>
    rw [updateSlot_none s t v hn]
    have hg : s.gaps = [] := hI.fresh hn
    rw [hg]
    have hmax : max (t - (s.cap : Int)) t = t := by omega
    obtain ⟨c1, c2, c3⟩ := step_core s.cap hcap s.slots hI.len [] (t - s.cap) t v (Normal_nil _ _) (by omega)
      (by intro k h1 h2; omega)
    refine ⟨?_, rfl, ?_⟩
    · refine ⟨hcap, ?_, ?_, ?_, ?_⟩
      · simp only [List.length_set]; exact hI.len
      · intro h; cases h
      · intro n h; simp only [Option.some.injEq] at h; subst h; exact c1
      · intro n h; simp only [Option.some.injEq] at h; subst h; exact c2
    · unfold abs Spec.write
      simp only [hn, oldestOf_eq, Spec.mk.injEq]
      refine ⟨by rw [hmax], funext fun j => ?_⟩
      rw [c3 j]
      by_cases hjt : j = t
      · simp [hjt]
      · simp only [hjt, if_false, isMissing_nil, and_true]
        by_cases h1 : max (t - (s.cap : Int)) t - ((s.cap : Int) - 1) ≤ j
        · have : ¬ (j ≤ t - (s.cap : Int)) := by omega
          simp [h1, this]
        · simp [h1]
  | some n =>
    rw [updateSlot_some s t v n hn]
    by_cases hr : t < n - ((s.cap : Int) - 1)
    · simp only [hr, if_true]
      refine ⟨hI, by first | rfl | trivial, ?_⟩
      unfold Spec.write
      simp only [abs, hn, hr, if_true]
    · simp only [hr, if_false]
      -- bring the gap list into normal form (capacity 1: the empty range behaves like no gap)
      have key : ∃ gaps₀ : List Gap,
          Normal (n - ((s.cap : Int) - 1)) (n + 1) gaps₀
          ∧ updateGaps s.cap s.gaps t n (max n t) (max n t - ((s.cap : Int) - 1)) v.isNone
              = updateGaps s.cap gaps₀ t n (max n t) (max n t - ((s.cap : Int) - 1)) v.isNone
          ∧ ∀ k, isMissing s.gaps k = isMissing gaps₀ k := by
        rcases hI.gaps n hn with h | ⟨h1, h2⟩
        · exact ⟨s.gaps, h, rfl, fun _ => rfl⟩
        · refine ⟨[], Normal_nil _ _, ?_, ?_⟩
          · rw [h2, h1]
            apply updateGaps_exc
            · rw [h1] at hr; omega
            · rfl
            · simp
          · intro k; rw [h2, isMissing_empty_gap, isMissing_nil]
      obtain ⟨gaps₀, hN, hug, hmiss⟩ := key
      obtain ⟨c1, c2, c3⟩ := step_core s.cap hcap s.slots hI.len gaps₀ n t v hN (by omega)
        (by
          intro k h1 h2 h3
          rw [← hmiss k] at h3
          exact hI.valid n hn k (by omega) h2 h3)
      rw [hug]
      refine ⟨?_, by first | rfl | trivial, ?_⟩
      · refine ⟨hcap, ?_, ?_, ?_, ?_⟩
        · simp only [List.length_set]; exact hI.len
        · intro h; cases h
        · intro m h; simp only [Option.some.injEq] at h; subst h; exact c1
        · intro m h; simp only [Option.some.injEq] at h; subst h; exact c2
      · unfold abs Spec.write
        simp only [hn, hr, if_false, oldestOf_eq, Spec.mk.injEq, true_and]
        funext j
        rw [c3 j, hmiss j]

/-- Every history preserves the invariant and refines the abstract map. -/
theorem run_refines {α : Type} (c : Cfg) (s : State α) (hI : Inv s) (sp : Spec α) (habs : abs s = sp)
    (h : List (Int × Option α)) :
    Inv (run c s h) ∧ (run c s h).cap = s.cap
    ∧ abs (run c s h) = h.foldl (fun sp u => Spec.write s.cap sp (normSlot c u.1) u.2) sp := by
  induction h generalizing s sp with
  | nil => exact ⟨hI, rfl, habs⟩
  | cons u us ih =>
    obtain ⟨i1, i2, i3⟩ := step s hI (normSlot c u.1) u.2
    have := ih (update c s u.1 u.2).1 i1 (Spec.write s.cap sp (normSlot c u.1) u.2) (by rw [← habs]; exact i3)
    simp only [run, List.foldl_cons] at this ⊢
    unfold update at this ⊢
    rw [i2] at this
    exact this

theorem abs_init {α : Type} (buffer : List (Option α)) : abs (State.init buffer) = Spec.init := rfl

end RingBuffer
