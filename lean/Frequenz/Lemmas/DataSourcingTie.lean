/-
The hand-written event model of `MicrogridApiSource` (`Frequenz.Model.DataSourcing`: `step` on `request` / `message` /
`start` / `take`) is EQUAL — state and samples sent, for every event — to the machine translation of the current
source text (`Frequenz.Extracted.DataSourcingLoops`, regenerated on every run: `addMetric`, `handlePrologue`,
`handleMessage`, `actorRun`), read through the abstraction `abs : Src → State`:

  * `subs`    = `_req_streaming_metrics[cid]` (absent = empty),
  * `hasRecv` = `cid in comp_data_receivers`, `queue` = the messages buffered in that receiver,
  * `pending` = the task in `comp_data_tasks[cid]` has been created and has not run,
  * `active`  = it is past its prologue, with the sender snapshot it took (metric ↦ channels).

Hand-written here (the asyncio side, trusted as in the model): WHICH translated function an event runs (`srcStep`:
`request` = the entry point; `start` = a created task runs the streaming method up to its loop; `take` = the running
task's `async for` receives the oldest buffered message and runs one iteration; `message` = the API appends to the
receiver).  Everything those functions DO is the translation.

The equality holds on every state satisfying `WF` (no task replaced while alive; a task exists only for a component
with registrations, was created for that component and its category; every registered metric is provided by the
category; a running task's receiver exists) and `WF` is preserved by every event — both proved from the translation,
so e.g. dropping the `cancel()`, registering before validating, or opening the stream under another id breaks them.
-/
import Frequenz.Model.DataSourcing
import Frequenz.Extracted.DataSourcingLoops

namespace DataSourcingTie

open DataSourcing Extracted.DataSourcing Extracted.DataSourcingLoops

set_option linter.unusedSimpArgs false
set_option linter.unusedVariables false

/-! ### Dictionaries -/

section Dict
variable {κ α : Type} [DecidableEq κ]

theorem get?_set (d : Dict κ α) (k k' : κ) (v : α) :
    Dict.get? (Dict.set d k v) k' = if k = k' then some v else Dict.get? d k' := by
  induction d with
  | nil => simp [Dict.set, Dict.get?]
  | cons p d ih =>
    obtain ⟨a, w⟩ := p
    by_cases h : a = k
    · subst h; by_cases h' : a = k' <;> simp [Dict.set, Dict.get?, h']
    · by_cases h' : a = k'
      · subst h'
        have : ¬ k = a := fun e => h e.symm
        simp [Dict.set, Dict.get?, h, this]
      · simp [Dict.set, Dict.get?, h, h', ih]

theorem get?_append_single (d : Dict κ α) (k k' : κ) (v : α) :
    Dict.get? (d ++ [(k, v)]) k' = match Dict.get? d k' with
      | some w => some w
      | none => if k = k' then some v else none := by
  induction d with
  | nil => simp [Dict.get?]
  | cons p d ih =>
    obtain ⟨a, w⟩ := p
    by_cases h : a = k' <;> simp [Dict.get?, h, ih]

theorem get?_setdefault (d : Dict κ α) (k k' : κ) (v : α) :
    Dict.get? (Dict.setdefault d k v) k' =
      if k = k' then (match Dict.get? d k with | some w => some w | none => some v) else Dict.get? d k' := by
  unfold Dict.setdefault Dict.contains
  by_cases hk : k = k'
  · subst hk
    cases hg : Dict.get? d k <;> simp [hg, get?_append_single]
  · cases hg : Dict.get? d k <;> simp [hg, hk, get?_append_single]
    cases Dict.get? d k' <;> simp

theorem contains_set (d : Dict κ α) (k k' : κ) (v : α) :
    Dict.contains (Dict.set d k v) k' = (decide (k = k') || Dict.contains d k') := by
  unfold Dict.contains; rw [get?_set]; by_cases h : k = k' <;> simp [h]

theorem getD_set (d : Dict κ α) (k k' : κ) (v v0 : α) :
    Dict.getD (Dict.set d k v) k' v0 = if k = k' then v else Dict.getD d k' v0 := by
  unfold Dict.getD; rw [get?_set]; by_cases h : k = k' <;> simp [h]

theorem getD_setdefault_self (d : Dict κ α) (k : κ) (v : α) :
    Dict.getD (Dict.setdefault d k v) k v = Dict.getD d k v := by
  unfold Dict.getD; rw [get?_setdefault]; cases Dict.get? d k <;> simp

theorem getD_setdefault_ne (d : Dict κ α) {k k' : κ} (h : k ≠ k') (v v0 : α) :
    Dict.getD (Dict.setdefault d k v) k' v0 = Dict.getD d k' v0 := by
  unfold Dict.getD; rw [get?_setdefault]; simp [h]

theorem contains_setdefault (d : Dict κ α) (k k' : κ) (v : α) :
    Dict.contains (Dict.setdefault d k v) k' = (decide (k = k') || Dict.contains d k') := by
  unfold Dict.contains; rw [get?_setdefault]
  by_cases h : k = k'
  · subst h; cases Dict.get? d k <;> simp
  · simp [h]

theorem contains_iff (d : Dict κ α) (k : κ) : Dict.contains d k = true ↔ ∃ v, Dict.get? d k = some v := by
  unfold Dict.contains; cases Dict.get? d k <;> simp

theorem getD_of_get? {d : Dict κ α} {k : κ} {v : α} (h : Dict.get? d k = some v) (v0 : α) :
    Dict.getD d k v0 = v := by
  unfold Dict.getD; simp [h]

theorem getD_of_not_contains {d : Dict κ α} {k : κ} (h : Dict.contains d k = false) (v0 : α) :
    Dict.getD d k v0 = v0 := by
  unfold Dict.contains at h; unfold Dict.getD; cases hg : Dict.get? d k <;> simp_all

end Dict

/-! ### Registrations: the dictionary operations of the source are `Subs.get` / `Subs.add` -/

theorem subs_get_eq (g : Subs) (μ : Metric) : Subs.get g μ = Dict.getD g μ [] := by
  induction g with
  | nil => rfl
  | cons p g ih =>
    obtain ⟨k, cs⟩ := p
    by_cases h : k = μ <;> simp [Subs.get, Dict.getD, Dict.get?, h]
    simpa [Dict.getD] using ih

theorem subs_add_eq (g : Subs) (r : Chan) :
    Dict.set (Dict.setdefault g r.metric []) r.metric (Dict.getD (Dict.setdefault g r.metric []) r.metric [] ++ [r])
      = Subs.add g r := by
  rw [getD_setdefault_self]
  induction g with
  | nil => simp [Dict.setdefault, Dict.contains, Dict.get?, Dict.set, Dict.getD, Subs.add]
  | cons p g ih =>
    obtain ⟨k, cs⟩ := p
    by_cases h : k = r.metric
    · simp [Dict.setdefault, Dict.contains, Dict.get?, Dict.set, Dict.getD, Subs.add, h]
    · have e : Dict.setdefault ((k, cs) :: g) r.metric [] = (k, cs) :: Dict.setdefault g r.metric [] := by
        unfold Dict.setdefault Dict.contains
        simp only [Dict.get?, h, if_false]
        split <;> rfl
      rw [e]
      simp only [Dict.set, h, if_false, Subs.add, Dict.getD, Dict.get?]
      first
        | (congr 1; simpa [Dict.getD] using ih)
        | simpa [Dict.getD] using ih

theorem any_eq_mem (l : List Chan) (r : Chan) : (List.any l (fun x => decide (r = x)) = true) ↔ r ∈ l := by
  constructor
  · intro h
    obtain ⟨x, hx, he⟩ := List.any_eq_true.mp h
    have : r = x := of_decide_eq_true he
    exact this ▸ hx
  · intro h
    exact List.any_eq_true.mpr ⟨r, h, decide_eq_true rfl⟩

/-! ### Abstraction -/

def pendingOf : Option StreamTask → Bool
  | some (.created _ _) => true
  | _ => false

def activeOf : Option StreamTask → Option Subs
  | some (.running _ _ snap _) => some (snap.map fun p => (p.1.2, p.2))
  | _ => none

def absComp (σ : Src) (cid : Nat) : Comp :=
  { subs := Dict.getD σ.reqs cid [],
    hasRecv := Dict.contains σ.receivers cid,
    queue := Dict.getD σ.receivers cid [],
    pending := pendingOf (Dict.get? σ.tasks cid),
    active := activeOf (Dict.get? σ.tasks cid) }

/-- The model state that a source state stands for. -/
def abs (σ : Src) : State := ⟨absComp σ⟩

theorem abs_init : abs Src.init = State.init := by
  unfold abs State.init Src.init absComp
  simp [Dict.getD, Dict.get?, Dict.contains, pendingOf, activeOf]

/-! ### The asyncio side: which translated function an event runs -/

def srcStep (cfg : Config) (isDone : Msg → Bool) (σ : Src) : Event → Src × List Out
  | .request r =>
    match addMetric cfg.category σ r with
    | .ok (σ', outs, _) => (σ', outs)
    | .error _ => (σ, [])
  | .message cid m =>
    if Dict.contains σ.receivers cid = true then
      ({ σ with receivers := Dict.set σ.receivers cid (Dict.getD σ.receivers cid [] ++ [m]) }, [])
    else (σ, [])
  | .start cid =>
    match Dict.get? σ.tasks cid with
    | some (.created c cat) =>
      (match handlePrologue σ c cat with
        | .ok (σ', outs, (snap, sending)) =>
          ({ σ' with tasks := Dict.set σ'.tasks cid (.running c cat snap sending) }, outs)
        | .error _ => (σ, []))
    | _ => (σ, [])
  | .take cid =>
    match Dict.get? σ.tasks cid with
    | some (.running c cat snap sending) =>
      (match Dict.get? σ.receivers c with
        | some (m :: q) =>
          (match handleMessage isDone { σ with receivers := Dict.set σ.receivers c q } c snap sending m with
            | .ok (σ', outs, sending') =>
              ({ σ' with tasks := Dict.set σ'.tasks cid (.running c cat snap sending') }, outs)
            | .error _ => (σ, []))
        | _ => (σ, []))
    | _ => (σ, [])

def srcExec (cfg : Config) (isDone : Msg → Bool) (σ : Src) : List Event → Src × List Out
  | [] => (σ, [])
  | e :: es => ((srcExec cfg isDone (srcStep cfg isDone σ e).1 es).1,
      (srcStep cfg isDone σ e).2 ++ (srcExec cfg isDone (srcStep cfg isDone σ e).1 es).2)

/-! ### Well-formed source states -/

def TaskOK (cfg : Config) (σ : Src) (cid : Nat) : StreamTask → Prop
  | .created c cat => c = cid ∧ cfg.category cid = some cat
  | .running c cat snap _ =>
    c = cid ∧ cfg.category cid = some cat ∧ Dict.contains σ.receivers cid = true ∧ ∀ p ∈ snap, p.1.1 = cat
  | .cancelled => False

structure WF (cfg : Config) (σ : Src) : Prop where
  leaked : σ.leaked = []
  reqs_ne : ∀ cid, Dict.contains σ.reqs cid = true → Dict.getD σ.reqs cid [] ≠ []
  reqs_sup : ∀ cid p, p ∈ Dict.getD σ.reqs cid [] → ∃ cat, cfg.category cid = some cat ∧ supported cat p.1 = true
  tasks : ∀ cid t, Dict.get? σ.tasks cid = some t → Dict.contains σ.reqs cid = true ∧ TaskOK cfg σ cid t

theorem WF.init (cfg : Config) : WF cfg Src.init := by
  refine ⟨rfl, ?_, ?_, ?_⟩
  · intro cid h; simp [Src.init, Dict.contains, Dict.get?] at h
  · intro cid p h; simp [Src.init, Dict.getD, Dict.get?] at h
  · intro cid t h; simp [Src.init, Dict.get?] at h

/-! ### `request` = the entry point -/

theorem extractionMethod_cases (cat : Category) (μ : Metric) :
    (extractionMethod cat μ = .ok (cat, μ) ∧ supported cat μ = true) ∨
    ((extractionMethod cat μ = .error Exc.keyError ∨ extractionMethod cat μ = .error Exc.valueError) ∧
      supported cat μ = false) := by
  unfold extractionMethod supported fieldOf
  cases assoc extractionDispatch cat with
  | none => simp
  | some tbl => cases h : assoc tbl μ <;> simp [h]

theorem State.ext' {s t : State} (h : ∀ i, s.comps i = t.comps i) : s = t := by
  cases s; cases t; congr; exact funext h

/-- The model state after an accepted request, in terms of ANY source state whose registrations are the old ones
with `r` added, whose task for `r.cid` is freshly created and whose other tasks and receivers are untouched. -/
theorem abs_restart (σ : Src) (r : Chan) (cat : Category) (reqs' : Reqs) (recv' : Dict Nat (List Msg))
    (tasks' : Dict Nat StreamTask) (leaked' : List StreamTask) (hr : recv' = σ.receivers)
    (hreqs : ∀ i, Dict.getD reqs' i [] =
      if r.cid = i then Subs.add (Dict.getD σ.reqs r.cid []) r else Dict.getD σ.reqs i [])
    (hself : Dict.get? tasks' r.cid = some (.created r.cid cat))
    (hother : ∀ i, r.cid ≠ i → Dict.get? tasks' i = Dict.get? σ.tasks i) :
    (abs σ).set r.cid { (abs σ).comps r.cid with
        subs := ((abs σ).comps r.cid).subs.add r, pending := true, active := none }
      = abs ⟨reqs', recv', tasks', leaked'⟩ := by
  subst hr
  refine State.ext' fun i => ?_
  simp only [abs, absComp, State.set]
  by_cases hi : r.cid = i
  · subst hi
    simp [hreqs, hself, pendingOf, activeOf]
  · have hi' : ¬ i = r.cid := fun e => hi e.symm
    simp [hreqs, hi, hi', hother i hi]

/-- Registration algebra: `setdefault` / `setdefault` / `append` on the dict of dicts is `Subs.add` on the entry of
the component and leaves the other entries alone. -/
theorem reqs_added (d : Reqs) (r : Chan) (i : Nat) :
    Dict.getD (Dict.set
        (Dict.set (Dict.setdefault d r.cid []) r.cid (Dict.setdefault (Dict.getD d r.cid []) r.metric []))
        r.cid
        (Dict.set (Dict.setdefault (Dict.getD d r.cid []) r.metric []) r.metric
          (Dict.getD (Dict.getD d r.cid []) r.metric [] ++ [r]))) i []
      = if r.cid = i then Subs.add (Dict.getD d r.cid []) r else Dict.getD d i [] := by
  by_cases hi : r.cid = i
  · subst hi
    have := subs_add_eq (Dict.getD d r.cid []) r
    rw [getD_setdefault_self] at this
    simp [getD_set, this]
  · simp [getD_set, hi, getD_setdefault_ne]

theorem step_request (cfg : Config) (isDone : Msg → Bool) (σ : Src) (r : Chan) :
    step cfg (abs σ) (.request r)
      = (abs (srcStep cfg isDone σ (.request r)).1, (srcStep cfg isDone σ (.request r)).2) := by
  unfold srcStep addMetric DataSourcing.step
  cases hc : cfg.category r.cid with
  | none => simp [hc]
  | some cat =>
    simp only [hc]
    rcases extractionMethod_cases cat r.metric with ⟨h1, h2⟩ | ⟨h1 | h1, h2⟩ <;> simp only [h1, h2]
    · -- validated: duplicate test, registration, restart
      have hget : Subs.get ((abs σ).comps r.cid).subs r.metric
          = Dict.getD (Dict.getD σ.reqs r.cid []) r.metric [] := by
        rw [subs_get_eq]; rfl
      simp only [getD_set, getD_setdefault_self, if_true, Bool.true_eq_false, if_false, hget]
      by_cases hdup : r ∈ Dict.getD (Dict.getD σ.reqs r.cid []) r.metric []
      · have hany := (any_eq_mem _ r).mpr hdup
        simp only [hdup, hany, if_true]
        refine Prod.ext (State.ext' fun i => ?_) rfl
        simp only [abs, absComp]
        by_cases hi : r.cid = i
        · subst hi
          have hin : Dict.contains (Dict.getD σ.reqs r.cid []) r.metric = true := by
            unfold Dict.contains Dict.getD at *
            cases hg : Dict.get? ((Dict.get? σ.reqs r.cid).getD []) r.metric <;> simp_all
          simp [getD_set, getD_setdefault_self, Dict.setdefault, hin]
        · have hi' : ¬ i = r.cid := fun e => hi e.symm
          simp [getD_set, hi, hi', getD_setdefault_ne]
      · have hany : (List.any (Dict.getD (Dict.getD σ.reqs r.cid []) r.metric []) (fun x => decide (r = x))) = false := by
          cases h : List.any (Dict.getD (Dict.getD σ.reqs r.cid []) r.metric []) (fun x => decide (r = x))
          · rfl
          · exact absurd ((any_eq_mem _ r).mp h) hdup
        by_cases ht : Dict.contains σ.tasks r.cid = true <;>
          simp only [hdup, hany, ht, if_true, if_false, Bool.false_eq_true] <;>
          refine Prod.ext ?_ rfl <;>
          refine abs_restart σ r cat _ _ _ _ rfl (reqs_added σ.reqs r) ?_ ?_
        · simp [get?_set]
        · intro i hi; simp [get?_set, hi]
        · simp [get?_set]
        · intro i hi; simp [get?_set, hi]
    · simp
    · simp

/-! ### `message`: the API appends to the receiver (environment; the same in both) -/

theorem step_message (cfg : Config) (isDone : Msg → Bool) (σ : Src) (cid : Nat) (m : Msg) :
    step cfg (abs σ) (.message cid m)
      = (abs (srcStep cfg isDone σ (.message cid m)).1, (srcStep cfg isDone σ (.message cid m)).2) := by
  unfold srcStep DataSourcing.step
  by_cases h : Dict.contains σ.receivers cid = true
  · have h' : ((abs σ).comps cid).hasRecv = true := h
    simp only [h, h', if_true]
    refine Prod.ext (State.ext' fun i => ?_) rfl
    simp only [abs, absComp, State.set]
    by_cases hi : i = cid
    · subst hi; simp [getD_set, contains_set]
    · have hi' : ¬ cid = i := fun e => hi e.symm
      simp [getD_set, contains_set, hi, hi']
  · have h' : ¬ ((abs σ).comps cid).hasRecv = true := h
    simp [h, h']

/-! ### `start` = the streaming method up to its loop -/

theorem mapM_snapshot (cat : Category) (subs : Subs) (h : ∀ p ∈ subs, supported cat p.1 = true) :
    List.mapM (fun x => Except.map (fun e => (e, x.2)) (extractionMethod cat x.1)) subs
      = (Except.ok (subs.map fun x => ((cat, x.1), x.2)) : Except Exc Snapshot) := by
  induction subs with
  | nil => rfl
  | cons p subs ih =>
    have hp := h p (List.mem_cons_self ..)
    rcases extractionMethod_cases cat p.1 with ⟨h1, _⟩ | ⟨_, h2⟩
    · rw [List.mapM_cons, h1, ih (fun q hq => h q (List.mem_cons_of_mem _ hq))]
      rfl
    · rw [hp] at h2; exact absurd h2 (by simp)

theorem assoc_key {β : Type} {l : List (String × β)} {k : String} {v : β} (h : assoc l k = some v) :
    k ∈ l.map (·.1) := by
  induction l with
  | nil => simp [assoc] at h
  | cons p l ih =>
    obtain ⟨a, w⟩ := p
    by_cases ha : a = k
    · simp [ha]
    · simp only [assoc, ha, if_false] at h
      simp [ih h]

theorem any_not_false {α : Type} (l : List α) (f : α → Bool) (h : ∀ p ∈ l, f p = true) :
    List.any l (fun x => !f x) = false := by
  induction l with
  | nil => rfl
  | cons a l ih =>
    simp [List.any_cons, h a (List.mem_cons_self ..), ih (fun q hq => h q (List.mem_cons_of_mem _ hq))]

/-- The receivers after the prologue: the stream of the component is opened (empty) unless it exists already. -/
def openedReceivers (σ : Src) (cid : Nat) : Dict Nat (List Msg) :=
  if Dict.contains σ.receivers cid = true then σ.receivers else Dict.set σ.receivers cid []

/-- The prologue of the streaming method on a well-formed state: it cannot raise, it opens the API stream of the
component iff there is none yet and otherwise leaves the object state alone, and the sender snapshot is the current
registration list with the extraction method of (category, metric) per entry. -/
theorem handlePrologue_spec (cfg : Config) (σ : Src) (cid : Nat) (cat : Category) (h : WF cfg σ)
    (hreq : Dict.contains σ.reqs cid = true) (hcat : cfg.category cid = some cat) :
    handlePrologue σ cid cat
      = .ok (⟨σ.reqs, openedReceivers σ cid, σ.tasks, σ.leaked⟩, [],
          ((Dict.getD σ.reqs cid []).map (fun x => ((cat, x.1), x.2)), [])) := by
  have hsup : ∀ p ∈ Dict.getD σ.reqs cid [], supported cat p.1 = true := by
    intro p hp
    obtain ⟨c, hc, hs⟩ := h.reqs_sup cid p hp
    rw [hcat] at hc; cases hc; exact hs
  have hne := h.reqs_ne cid hreq
  unfold handlePrologue openedReceivers
  simp only [hreq, if_true, mapM_snapshot cat _ hsup]
  by_cases hr : Dict.contains σ.receivers cid = true
  · simp [hr]
  · simp only [hr, if_false, Bool.false_eq_true]
    -- the category provides at least one registered metric, so it is one of the dispatch's categories
    obtain ⟨p0, hp0⟩ := List.exists_mem_of_ne_nil _ hne
    have hs0 := hsup p0 hp0
    have hkey : cat ∈ extractionDispatch.map (·.1) := by
      unfold supported fieldOf at hs0
      cases hd : assoc extractionDispatch cat with
      | none => simp [hd] at hs0
      | some tbl => exact assoc_key hd
    simp only [extractionDispatch, List.map_cons, List.map_nil, List.mem_cons, List.not_mem_nil, or_false] at hkey
    rcases hkey with rfl | rfl | rfl | rfl <;>
    · have hs := hsup
      simp only [supported, fieldOf, extractionDispatch, assoc] at hs
      simp at hs
      simp
      intro a b hab hnone
      have := hs a b hab
      simp [hnone] at this

theorem abs_start (σ : Src) (cid : Nat) (cat : Category) (sending : List Msg)
    (ht : Dict.get? σ.tasks cid = some (.created cid cat)) :
    (abs σ).set cid { (abs σ).comps cid with
        hasRecv := true, pending := false, active := some ((abs σ).comps cid).subs }
      = abs ⟨σ.reqs, openedReceivers σ cid,
          Dict.set σ.tasks cid (.running cid cat ((Dict.getD σ.reqs cid []).map (fun x => ((cat, x.1), x.2))) sending),
          σ.leaked⟩ := by
  refine State.ext' fun i => ?_
  simp only [abs, absComp, State.set, openedReceivers]
  by_cases hi : i = cid
  · subst hi
    by_cases hr : Dict.contains σ.receivers i = true
    · simp [hr, get?_set, pendingOf, activeOf, Function.comp_def]
    · have hr' : Dict.contains σ.receivers i = false := by simpa using hr
      simp [hr, get?_set, pendingOf, activeOf, Function.comp_def, contains_set, getD_set,
        getD_of_not_contains hr']
  · have hi' : ¬ cid = i := fun e => hi e.symm
    by_cases hr : Dict.contains σ.receivers cid = true
    · simp [hr, get?_set, hi, hi']
    · simp [hr, get?_set, hi, hi', contains_set, getD_set]

theorem step_start (cfg : Config) (isDone : Msg → Bool) (σ : Src) (cid : Nat) (h : WF cfg σ) :
    step cfg (abs σ) (.start cid)
      = (abs (srcStep cfg isDone σ (.start cid)).1, (srcStep cfg isDone σ (.start cid)).2) := by
  unfold srcStep DataSourcing.step
  cases ht : Dict.get? σ.tasks cid with
  | none => simp [abs, absComp, ht, pendingOf]
  | some t =>
    obtain ⟨hreq, hok⟩ := h.tasks cid t ht
    cases t with
    | created c cat =>
      obtain ⟨rfl, hcat⟩ := hok
      have hp : ((abs σ).comps c).pending = true := by simp [abs, absComp, ht, pendingOf]
      simp only [ht, hp, if_true, handlePrologue_spec cfg σ c cat h hreq hcat]
      exact Prod.ext (abs_start σ c cat [] ht) rfl
    | running c cat snap sending => simp [abs, absComp, ht, pendingOf]
    | cancelled => simp [abs, absComp, ht, pendingOf]

/-! ### `take` = one iteration of the `async for` -/

theorem fanout_eq (cfg : Config) (cid : Nat) (cat : Category) (snap : Snapshot) (m : Msg)
    (hc : cfg.category cid = some cat) (hs : ∀ p ∈ snap, p.1.1 = cat) :
    fanout (cfg.category cid) (snap.map fun p => (p.1.2, p.2)) m
      = List.flatMap (fun x1 => List.map (fun x2 => (⟨x2, (⟨m.ts, Extractor.apply x1.1 m⟩ : Sample)⟩ : Out)) x1.2) snap := by
  unfold fanout
  induction snap with
  | nil => rfl
  | cons p snap ih =>
    have hp := hs p (List.mem_cons_self ..)
    simp only [List.map_cons, List.flatMap_cons, ih (fun q hq => hs q (List.mem_cons_of_mem _ hq))]
    congr 1
    simp [Extractor.apply, hc, hp]

theorem step_take (cfg : Config) (isDone : Msg → Bool) (σ : Src) (cid : Nat) (h : WF cfg σ) :
    step cfg (abs σ) (.take cid)
      = (abs (srcStep cfg isDone σ (.take cid)).1, (srcStep cfg isDone σ (.take cid)).2) := by
  unfold srcStep DataSourcing.step
  cases ht : Dict.get? σ.tasks cid with
  | none => simp [abs, absComp, ht, activeOf]
  | some t =>
    obtain ⟨hreq, hok⟩ := h.tasks cid t ht
    cases t with
    | created c cat => simp [abs, absComp, ht, activeOf]
    | cancelled => simp [abs, absComp, ht, activeOf]
    | running c cat snap sending =>
      obtain ⟨rfl, hcat, hrecv, hsnap⟩ := hok
      have ha : ((abs σ).comps c).active = some (snap.map fun p => (p.1.2, p.2)) := by
        simp [abs, absComp, ht, activeOf]
      have hq : ((abs σ).comps c).queue = Dict.getD σ.receivers c [] := rfl
      cases hg : Dict.get? σ.receivers c with
      | none =>
        have : Dict.contains σ.receivers c = false := by simp [Dict.contains, hg]
        simp [this] at hrecv
      | some q =>
        have hq' : Dict.getD σ.receivers c [] = q := getD_of_get? hg []
        cases q with
        | nil => simp [ha, hq, hq', ht, hg]
        | cons m q =>
          simp only [ha, hq, hq', ht, hg]
          unfold handleMessage
          simp only []
          refine Prod.ext (State.ext' fun i => ?_) (fanout_eq cfg c cat snap m hcat hsnap)
          simp only [abs, absComp, State.set]
          by_cases hi : i = c
          · subst hi
            simp [get?_set, getD_set, contains_set, pendingOf, activeOf, ht, hrecv]
          · have hi' : ¬ c = i := fun e => hi e.symm
            simp [get?_set, getD_set, contains_set, hi, hi']

/-! ### `WF` is preserved by every event -/

theorem TaskOK.mono {cfg : Config} {σ σ' : Src} {i : Nat} {t : StreamTask}
    (hm : ∀ j, Dict.contains σ.receivers j = true → Dict.contains σ'.receivers j = true)
    (h : TaskOK cfg σ i t) : TaskOK cfg σ' i t := by
  cases t with
  | created c cat => exact h
  | cancelled => exact h
  | running c cat snap sending => exact ⟨h.1, h.2.1, hm _ h.2.2.1, h.2.2.2⟩

theorem mem_setdefault {κ α : Type} [DecidableEq κ] {d : Dict κ α} {k : κ} {v : α} {p : κ × α}
    (h : p ∈ Dict.setdefault d k v) : p ∈ d ∨ p = (k, v) := by
  unfold Dict.setdefault at h
  split at h
  · exact Or.inl h
  · simpa using h

theorem setdefault_ne_nil {κ α : Type} [DecidableEq κ] (d : Dict κ α) (k : κ) (v : α) :
    Dict.setdefault d k v ≠ [] := by
  unfold Dict.setdefault Dict.contains
  cases d with
  | nil => simp [Dict.get?]
  | cons p d => split <;> simp

theorem subs_add_ne_nil (g : Subs) (r : Chan) : Subs.add g r ≠ [] := by
  cases g with
  | nil => simp [Subs.add]
  | cons p g => obtain ⟨k, cs⟩ := p; simp only [Subs.add]; split <;> simp

theorem mem_subs_add {g : Subs} {r : Chan} {p : Metric × List Chan} (h : p ∈ Subs.add g r) :
    p.1 = r.metric ∨ ∃ q ∈ g, q.1 = p.1 := by
  induction g with
  | nil => simp [Subs.add] at h; exact Or.inl (by simp [h])
  | cons a g ih =>
    obtain ⟨k, cs⟩ := a
    simp only [Subs.add] at h
    split at h
    · rename_i hk
      rcases List.mem_cons.mp h with rfl | h'
      · exact Or.inl hk
      · exact Or.inr ⟨p, List.mem_cons_of_mem _ h', rfl⟩
    · rcases List.mem_cons.mp h with rfl | h'
      · exact Or.inr ⟨(k, cs), List.mem_cons_self .., rfl⟩
      · rcases ih h' with h1 | ⟨q, hq, e⟩
        · exact Or.inl h1
        · exact Or.inr ⟨q, List.mem_cons_of_mem _ hq, e⟩

theorem src_eta (σ : Src) : (⟨σ.reqs, σ.receivers, σ.tasks, σ.leaked⟩ : Src) = σ := rfl

theorem wf_request (cfg : Config) (isDone : Msg → Bool) (σ : Src) (r : Chan) (h : WF cfg σ) :
    WF cfg (srcStep cfg isDone σ (.request r)).1 := by
  unfold srcStep addMetric
  cases hc : cfg.category r.cid with
  | none => simpa [hc, src_eta] using h
  | some cat =>
    simp only [hc]
    rcases extractionMethod_cases cat r.metric with ⟨h1, h2⟩ | ⟨h1 | h1, h2⟩ <;> simp only [h1, h2]
    · simp only [getD_set, getD_setdefault_self, if_true]
      have hsupOld : ∀ p ∈ Dict.getD σ.reqs r.cid [], supported cat p.1 = true := by
        intro p hp
        obtain ⟨c, hc', hs⟩ := h.reqs_sup r.cid p hp
        rw [hc] at hc'; cases hc'; exact hs
      have hkeep : ∀ (σ' : Src), σ'.receivers = σ.receivers →
          (∀ i, Dict.contains σ.reqs i = true → Dict.contains σ'.reqs i = true) →
          ∀ i t, Dict.get? σ.tasks i = some t → Dict.contains σ'.reqs i = true ∧ TaskOK cfg σ' i t := by
        intro σ' hr hm i t ht
        obtain ⟨a, b⟩ := h.tasks i t ht
        exact ⟨hm i a, TaskOK.mono (by intro j hj; rw [hr]; exact hj) b⟩
      by_cases hany : (List.any (Dict.getD (Dict.getD σ.reqs r.cid []) r.metric []) (fun x => decide (r = x))) = true
      · -- duplicate: only the two `setdefault`s happened
        simp only [hany, if_true]
        have hg : ∀ i, Dict.getD (Dict.set (Dict.setdefault σ.reqs r.cid []) r.cid
              (Dict.setdefault (Dict.getD σ.reqs r.cid []) r.metric [])) i []
            = if r.cid = i then Dict.setdefault (Dict.getD σ.reqs r.cid []) r.metric [] else Dict.getD σ.reqs i [] := by
          intro i; by_cases hi : r.cid = i <;> simp [getD_set, hi, getD_setdefault_ne]
        refine ⟨h.leaked, ?_, ?_, ?_⟩
        · intro i hci
          simp only [hg]
          by_cases hi : r.cid = i
          · simp only [hi, if_true]; exact setdefault_ne_nil _ _ _
          · simp only [hi, if_false]
            apply h.reqs_ne
            simpa [contains_set, contains_setdefault, hi] using hci
        · intro i p hp
          simp only [hg] at hp
          by_cases hi : r.cid = i
          · subst hi
            simp only [if_true] at hp
            rcases mem_setdefault hp with hp' | rfl
            · exact ⟨cat, hc, hsupOld p hp'⟩
            · exact ⟨cat, hc, h2⟩
          · simp only [hi, if_false] at hp
            exact h.reqs_sup i p hp
        · exact hkeep _ rfl (by intro i hi; simp [contains_set, contains_setdefault, hi])
      · -- registered: the task of the component is cancelled (if any) and re-created
        have hany' : (List.any (Dict.getD (Dict.getD σ.reqs r.cid []) r.metric []) (fun x => decide (r = x))) = false := by
          cases hx : List.any (Dict.getD (Dict.getD σ.reqs r.cid []) r.metric []) (fun x => decide (r = x))
          · rfl
          · exact absurd hx hany
        have hreqs := reqs_added σ.reqs r
        have hwf : ∀ (tasks' : Dict Nat StreamTask) (leaked' : List StreamTask), leaked' = [] →
            Dict.get? tasks' r.cid = some (.created r.cid cat) →
            (∀ i, r.cid ≠ i → Dict.get? tasks' i = Dict.get? σ.tasks i) →
            WF cfg ⟨Dict.set
                (Dict.set (Dict.setdefault σ.reqs r.cid []) r.cid
                  (Dict.setdefault (Dict.getD σ.reqs r.cid []) r.metric []))
                r.cid
                (Dict.set (Dict.setdefault (Dict.getD σ.reqs r.cid []) r.metric []) r.metric
                  (Dict.getD (Dict.getD σ.reqs r.cid []) r.metric [] ++ [r])),
              σ.receivers, tasks', leaked'⟩ := by
          intro tasks' leaked' hl hself hother
          have hcont : ∀ i, Dict.contains σ.reqs i = true ∨ r.cid = i → Dict.contains (Dict.set
                (Dict.set (Dict.setdefault σ.reqs r.cid []) r.cid
                  (Dict.setdefault (Dict.getD σ.reqs r.cid []) r.metric []))
                r.cid
                (Dict.set (Dict.setdefault (Dict.getD σ.reqs r.cid []) r.metric []) r.metric
                  (Dict.getD (Dict.getD σ.reqs r.cid []) r.metric [] ++ [r]))) i = true := by
            intro i hi
            rcases hi with hi | hi <;> simp [contains_set, contains_setdefault, hi]
          refine ⟨hl, ?_, ?_, ?_⟩
          · intro i hi
            simp only [hreqs]
            by_cases hi' : r.cid = i
            · simp only [hi', if_true]; exact subs_add_ne_nil _ _
            · simp only [hi', if_false]
              apply h.reqs_ne
              simpa [contains_set, contains_setdefault, hi'] using hi
          · intro i p hp
            simp only [hreqs] at hp
            by_cases hi' : r.cid = i
            · subst hi'
              simp only [if_true] at hp
              rcases mem_subs_add hp with e | ⟨q, hq, e⟩
              · exact ⟨cat, hc, e ▸ h2⟩
              · exact ⟨cat, hc, e ▸ hsupOld q hq⟩
            · simp only [hi', if_false] at hp
              exact h.reqs_sup i p hp
          · intro i t ht
            by_cases hi' : r.cid = i
            · subst hi'
              rw [hself] at ht; cases ht
              exact ⟨hcont _ (Or.inr rfl), rfl, hc⟩
            · rw [hother i hi'] at ht
              obtain ⟨a, b⟩ := h.tasks i t ht
              exact ⟨hcont i (Or.inl a), TaskOK.mono (fun j hj => hj) b⟩
        by_cases ht : Dict.contains σ.tasks r.cid = true <;>
          simp only [hany', ht, if_true, if_false, Bool.false_eq_true] <;>
          refine hwf _ _ ?_ ?_ ?_
        · simp [Tasks.leak, get?_set, StreamTask.alive, h.leaked]
        · simp [get?_set]
        · intro i hi; simp [get?_set, hi]
        · have : Dict.get? σ.tasks r.cid = none := by
            unfold Dict.contains at ht; cases hg : Dict.get? σ.tasks r.cid <;> simp_all
          simp [Tasks.leak, this, h.leaked]
        · simp [get?_set]
        · intro i hi; simp [get?_set, hi]
    · simpa [src_eta] using h
    · simpa [src_eta] using h

theorem wf_step (cfg : Config) (isDone : Msg → Bool) (σ : Src) (e : Event) (h : WF cfg σ) :
    WF cfg (srcStep cfg isDone σ e).1 := by
  cases e with
  | request r => exact wf_request cfg isDone σ r h
  | message cid m =>
    unfold srcStep
    by_cases hr : Dict.contains σ.receivers cid = true
    · simp only [hr, if_true]
      refine ⟨h.leaked, h.reqs_ne, h.reqs_sup, fun i t ht => ?_⟩
      obtain ⟨a, b⟩ := h.tasks i t ht
      exact ⟨a, TaskOK.mono (by intro j hj; simp [contains_set, hj]) b⟩
    · simpa [hr] using h
  | start cid =>
    unfold srcStep
    cases ht : Dict.get? σ.tasks cid with
    | none => simpa [ht] using h
    | some t =>
      obtain ⟨hreq, hok⟩ := h.tasks cid t ht
      cases t with
      | running c cat snap sending => simpa [ht] using h
      | cancelled => simpa [ht] using h
      | created c cat =>
        obtain ⟨rfl, hcat⟩ := hok
        simp only [ht, handlePrologue_spec cfg σ c cat h hreq hcat]
        have hm : ∀ j, Dict.contains σ.receivers j = true → Dict.contains (openedReceivers σ c) j = true := by
          intro j hj; unfold openedReceivers; split
          · exact hj
          · simp [contains_set, hj]
        refine ⟨h.leaked, h.reqs_ne, h.reqs_sup, fun i t ht' => ?_⟩
        simp only [get?_set] at ht'
        by_cases hi : c = i
        · subst hi
          simp only [if_true, Option.some.injEq] at ht'
          subst ht'
          refine ⟨hreq, rfl, hcat, ?_, ?_⟩
          · show Dict.contains (openedReceivers σ c) c = true
            unfold openedReceivers; split
            · assumption
            · simp [contains_set]
          · intro p hp
            obtain ⟨x, _, rfl⟩ := List.mem_map.mp hp
            rfl
        · simp only [hi, if_false] at ht'
          obtain ⟨a, b⟩ := h.tasks i t ht'
          exact ⟨a, TaskOK.mono hm b⟩
  | take cid =>
    unfold srcStep
    cases ht : Dict.get? σ.tasks cid with
    | none => simpa [ht] using h
    | some t =>
      obtain ⟨hreq, hok⟩ := h.tasks cid t ht
      cases t with
      | created c cat => simpa [ht] using h
      | cancelled => simpa [ht] using h
      | running c cat snap sending =>
        obtain ⟨rfl, hcat, hrecv, hsnap⟩ := hok
        simp only [ht]
        cases hg : Dict.get? σ.receivers c with
        | none => simpa [hg] using h
        | some q =>
          cases q with
          | nil => simpa [hg] using h
          | cons m q =>
            simp only [hg]
            unfold handleMessage
            simp only []
            have hm : ∀ j, Dict.contains σ.receivers j = true → Dict.contains (Dict.set σ.receivers c q) j = true := by
              intro j hj; simp [contains_set, hj]
            refine ⟨h.leaked, h.reqs_ne, h.reqs_sup, fun i t ht' => ?_⟩
            simp only [get?_set] at ht'
            by_cases hi : c = i
            · subst hi
              simp only [if_true, Option.some.injEq] at ht'
              subst ht'
              exact ⟨hreq, rfl, hcat, by simp [contains_set], hsnap⟩
            · simp only [hi, if_false] at ht'
              obtain ⟨a, b⟩ := h.tasks i t ht'
              exact ⟨a, TaskOK.mono hm b⟩

/-! ### Every schedule -/

theorem step_eq (cfg : Config) (isDone : Msg → Bool) (σ : Src) (e : Event) (h : WF cfg σ) :
    step cfg (abs σ) e = (abs (srcStep cfg isDone σ e).1, (srcStep cfg isDone σ e).2) := by
  cases e with
  | request r => exact step_request cfg isDone σ r
  | message cid m => exact step_message cfg isDone σ cid m
  | start cid => exact step_start cfg isDone σ cid h
  | take cid => exact step_take cfg isDone σ cid h

theorem exec_eq (cfg : Config) (isDone : Msg → Bool) (σ : Src) (es : List Event) (h : WF cfg σ) :
    exec cfg (abs σ) es = (abs (srcExec cfg isDone σ es).1, (srcExec cfg isDone σ es).2) ∧
      WF cfg (srcExec cfg isDone σ es).1 := by
  induction es generalizing σ with
  | nil => exact ⟨rfl, h⟩
  | cons e es ih =>
    have hs := step_eq cfg isDone σ e h
    have ih' := ih (srcStep cfg isDone σ e).1 (wf_step cfg isDone σ e h)
    refine ⟨?_, ih'.2⟩
    simp only [exec, srcExec, hs, ih'.1]

/-- The entry point never raises on a well-formed state (so the `.error` arm of `srcStep` is never taken) and the
actor's loop is the schedule of its requests. -/
theorem addMetric_ok (cfg : Config) (σ : Src) (r : Chan) :
    ∃ σ', addMetric cfg.category σ r = .ok (σ', [], ()) := by
  unfold addMetric
  cases hc : cfg.category r.cid with
  | none => exact ⟨_, rfl⟩
  | some cat =>
    simp only []
    rcases extractionMethod_cases cat r.metric with ⟨h1, _⟩ | ⟨h1 | h1, _⟩ <;> simp only [h1]
    · split
      · exact ⟨_, rfl⟩
      · split <;> exact ⟨_, rfl⟩
    · exact ⟨_, rfl⟩
    · exact ⟨_, rfl⟩

theorem actorRun_eq (cfg : Config) (isDone : Msg → Bool) (σ : Src) (rs : List Chan) :
    actorRun cfg.category σ rs = .ok (srcExec cfg isDone σ (rs.map Event.request)).1 := by
  unfold actorRun
  induction rs generalizing σ with
  | nil => rfl
  | cons r rs ih =>
    obtain ⟨σ', hσ⟩ := addMetric_ok cfg σ r
    have hstep : (srcStep cfg isDone σ (.request r)).1 = σ' := by simp [srcStep, hσ]
    simp only [List.foldlM_cons, List.map_cons, srcExec, hσ, hstep]
    exact ih σ'

end DataSourcingTie
