/-
Helper lemmas for C12, part 3: value (and fallback agreement) of every generated formula.
-/
import Frequenz.Lemmas.GraphPools

namespace Graph
open Extracted.Graph

/-- What the theorems conclude about a formula: it is generated, evaluates to `v`, and every fallback
formula in it measures what its primary component measures. -/
def Formula.good (f : Formula) (env : Nat → Rat) (v : Rat) : Prop :=
  ∃ ts, f = .ok ts ∧ evalTerms env ts = v ∧ fallbacksAgree env ts = true

theorem Formula.good.eval {f : Formula} {env : Nat → Rat} {v : Rat} (h : f.good env v) : evalF env f = some v := by
  obtain ⟨ts, rfl, hv, _⟩ := h
  simp [evalF, hv]

theorem Formula.good.fb {f : Formula} {env : Nat → Rat} {v : Rat} (h : f.good env v) : f.fallbacksOk env = true := by
  obtain ⟨ts, rfl, _, hf⟩ := h
  exact hf

theorem Formula.good_ok (env : Nat → Rat) (v : Rat) (ts : List Term) (h1 : evalTerms env ts = v)
    (h2 : fallbacksAgree env ts = true) : Formula.good (.ok ts) env v := ⟨ts, rfl, h1, h2⟩

/-! ### unpacking the hypotheses -/

structure Hyp (g : Grid) (env load : Nat → Rat) : Prop where
  ne : g.succ.isEmpty = false
  noChpTop : g.succ.any Node.isChp = false
  metered : chpMeteredL g.succ = true
  bats : invsHaveBatsL g.succ = true
  law : lawL env load g.succ = true
  noLoad : noLoadAtDedicatedL load g.succ = true
  none0 : env nonExistingComponentId = 0

theorem hyp_of (g : Grid) (env load : Nat → Rat) (ha : g.admissible = true) (hr : g.reading env load = true) :
    Hyp g env load := by
  simp only [Grid.admissible, Bool.and_eq_true, Bool.not_eq_true'] at ha
  simp only [Grid.reading, Bool.and_eq_true, decide_eq_true_eq] at hr
  exact ⟨ha.1.1.1, ha.1.1.2, ha.1.2, ha.2, hr.1.1, hr.1.2, hr.2⟩

/-! ### all devices = PV + battery + EV + CHP -/

theorem devSumL_all (env : Nat → Rat) (ns : List Node) :
    devSumL allDev env ns = devSumL Node.isPv env ns + devSumL Node.isBat env ns + devSumL Node.isEv env ns
      + devSumL Node.isChp env ns := by
  have e : devSumL allDev env ns
      = devSumL (fun x => ((Node.isPv x || Node.isBat x) || Node.isEv x) || Node.isChp x) env ns := by
    apply devSumL_congr
    intro n hn
    cases n <;> first | rfl | (simp [Node.isMeter] at hn)
  rw [e, devSumL_add, devSumL_add, devSumL_add]
  · intro n h; cases n <;> first | rfl | (simp [Node.isPv] at h)
  · intro n h; cases n <;> first | rfl | (simp [Node.isPv, Node.isBat] at h)
  · intro n h; cases n <;> first | rfl | (simp [Node.isPv, Node.isBat, Node.isEv] at h)

theorem kindOf_producer (env : Nat → Rat) (ns : List Node) :
    devSumL (kindOf producerChains) env ns = devSumL Node.isPv env ns + devSumL Node.isChp env ns := by
  have e : devSumL (kindOf producerChains) env ns = devSumL (fun x => Node.isPv x || Node.isChp x) env ns := by
    apply devSumL_congr
    intro n _
    cases n <;> rfl
  rw [e, devSumL_add]
  intro n h; cases n <;> first | rfl | (simp [Node.isPv] at h)

theorem kindOf_pv (env : Nat → Rat) (ns : List Node) :
    devSumL (kindOf pvDfsChains) env ns = devSumL Node.isPv env ns := by
  apply devSumL_congr
  intro n _
  cases n <;> rfl

theorem kindOf_nonConsumer (env : Nat → Rat) (ns : List Node) :
    devSumL (kindOf nonConsumerChains) env ns = devSumL allDev env ns := by
  apply devSumL_congr
  intro n hn
  cases n <;> first | rfl | (simp [Node.isMeter] at hn)

/-! ### grid -/

theorem gridCat_of_not_chp (n : Node) (h : n.isChp = false) : gridSuccessorCats.contains n.cat = true := by
  cases n <;> first | rfl | (simp [Node.isChp] at h)

theorem primaryOf_top_fst (n : Node) (pos : Pos) : (primaryOf ⟨n, pos, none⟩).1 = n := by
  cases n <;> rfl

theorem top_terms (env load : Nat → Rat) (pos : Pos) : (ns : List Node) → lawL env load ns = true →
    noLoadAtDedicatedL load ns = true →
    sumPrim env (ns.map (fun n => primaryOf ⟨n, pos, none⟩)) = sumEnv env ns
      ∧ fbOk env (ns.map (fun n => primaryOf ⟨n, pos, none⟩))
  | [], _, _ => ⟨rfl, fbOk_nil _⟩
  | n :: ns, hl, hn => by
    simp only [lawL, Bool.and_eq_true] at hl
    simp only [noLoadAtDedicatedL, Bool.and_eq_true] at hn
    obtain ⟨h, f⟩ := top_terms env load pos ns hl.2 hn.2
    simp only [List.map_cons, sumPrim_cons, sumEnv_cons, h, primaryOf_top_fst]
    refine ⟨trivial, fbOk_cons _ _ _ ?_ f⟩
    cases n with
    | meter id cs => rw [primaryOf_meter]; exact meterFallback_ok env load id cs hl.1 hn.1
    | _ => exact Or.inl rfl

theorem grid_good (g : Grid) (env load : Nat → Rat) (h : Hyp g env load) :
    (gridFormula g).good env (devSumL allDev env g.succ + loadSumL load g.succ) := by
  have hf : g.succ.filter (fun n => gridSuccessorCats.contains n.cat) = g.succ := by
    rw [List.filter_eq_self]
    intro n hn
    apply gridCat_of_not_chp
    have := List.any_eq_false.mp h.noChpTop n hn
    simpa using this
  obtain ⟨hs, hfb⟩ := top_terms env load (topPos g) g.succ h.law h.noLoad
  have hform : gridFormula g
      = .ok (g.succ.map (fun n => mkTerm false gridNaz simpleNaz (primaryOf ⟨n, topPos g, none⟩))) := by
    simp only [gridFormula, h.ne, Bool.false_eq_true, if_false, hf]
  rw [hform]
  apply Formula.good_ok
  · have : (g.succ.map (fun n => mkTerm false gridNaz simpleNaz (primaryOf ⟨n, topPos g, none⟩)))
        = (g.succ.map (fun n => primaryOf ⟨n, topPos g, none⟩)).map (mkTerm false gridNaz simpleNaz) := by
      simp [List.map_map, Function.comp_def]
    rw [this, evalTerms_mkTerm_pos, hs, sumEnv_eq_total env load g.succ h.law]
  · have : (g.succ.map (fun n => mkTerm false gridNaz simpleNaz (primaryOf ⟨n, topPos g, none⟩)))
        = (g.succ.map (fun n => primaryOf ⟨n, topPos g, none⟩)).map (mkTerm false gridNaz simpleNaz) := by
      simp [List.map_map, Function.comp_def]
    rw [this]
    exact fallbacksAgree_mkTerm env false _ _ _ hfb

/-! ### formulas of the shape "search, or NON_EXISTING when nothing is found" -/

theorem nonExisting_eval (env : Nat → Rat) (nz : Naz) (h0 : env nonExistingComponentId = 0) :
    evalTerms env [nonExisting nz] = 0 := by
  simp only [evalTerms_cons, evalTerms_nil, Term.eval, nonExisting, Bool.false_eq_true, if_false, h0]; grind

theorem nonExisting_fb (env : Nat → Rat) (nz : Naz) : fallbacksAgree env [nonExisting nz] = true := rfl

theorem search_good (env : Nat → Rat) (h0 : env nonExistingComponentId = 0) (fs : List Found) (v : Rat)
    (nzNone nz fnz : Naz) (hs : sumPrim env (fs.map primaryOf) = v) (hf : fbOk env (fs.map primaryOf)) :
    Formula.good (if fs.isEmpty then .ok [nonExisting nzNone]
      else .ok (fs.map (fun f => mkTerm false nz fnz (primaryOf f)))) env v := by
  by_cases he : fs.isEmpty = true
  · have : fs = [] := by simpa using he
    subst this
    simp only [List.isEmpty_nil, if_true]
    refine Formula.good_ok _ _ _ ?_ (nonExisting_fb env _)
    rw [nonExisting_eval env _ h0, ← hs]; rfl
  · have he' : fs.isEmpty = false := by simpa using he
    have e : fs.map (fun f => mkTerm false nz fnz (primaryOf f)) = (fs.map primaryOf).map (mkTerm false nz fnz) := by
      simp [List.map_map, Function.comp_def]
    simp only [he', Bool.false_eq_true, if_false]
    apply Formula.good_ok
    · rw [e, evalTerms_mkTerm_pos, hs]
    · rw [e]; exact fallbacksAgree_mkTerm env false nz fnz _ hf

theorem producer_good (g : Grid) (env load : Nat → Rat) (h : Hyp g env load) :
    (producerFormula g).good env (g.pvTotal env + g.chpTotal env) := by
  obtain ⟨hs, hf⟩ := dfsL_sum (condSpec_anyChain producerChains) env load g.succ (topPos g) none
    (by intro p ppos e; cases e) h.law h.noLoad
  rw [kindOf_producer] at hs
  exact search_good env h.none0 _ _ _ _ _ hs hf

theorem pv_dfs_good (g : Grid) (env load : Nat → Rat) (h : Hyp g env load) :
    (pvFormula g none).good env (g.pvTotal env) := by
  show (pvFormulaR pairRequiresAllRequested g none).good env (g.pvTotal env)
  obtain ⟨hs, hf⟩ := dfsL_sum (condSpec_anyChain pvDfsChains) env load g.succ (topPos g) none
    (by intro p ppos e; cases e) h.law h.noLoad
  rw [kindOf_pv] at hs
  exact search_good env h.none0 _ _ _ _ _ hs hf

/-! ### consumer -/

theorem consumer_meters_eval (env : Nat → Rat) (ns : List Node) :
    evalTerms env (ns.map (fun m => (⟨false, m.id, nazEval consumerGridMeterNaz m.cat, []⟩ : Term))) = sumEnv env ns := by
  induction ns with
  | nil => rfl
  | cons m ms ih => simp only [List.map_cons, evalTerms_cons, ih, sumEnv_cons]; rfl

theorem consumer_meters_fb (env : Nat → Rat) (ns : List Node) :
    fallbacksAgree env (ns.map (fun m => (⟨false, m.id, nazEval consumerGridMeterNaz m.cat, []⟩ : Term))) = true := by
  simp [fallbacksAgree]

theorem consumer_with_good (g : Grid) (env load : Nat → Rat) (h : Hyp g env load) (hg : areGridMeters g = true) :
    (consumerFormula g).good env (g.loadTotal load) := by
  obtain ⟨hs, hf⟩ := dfsL_sum (condSpec_anyChain nonConsumerChains) env load g.succ (topPos g) none
    (by intro p ppos e; cases e) h.law h.noLoad
  rw [kindOf_nonConsumer] at hs
  have e : (dfsFromGrid nonConsumerCond g).map (fun f => mkTerm true consumerWithNaz simpleNaz (primaryOf f))
      = ((dfsL (anyChain nonConsumerChains) (topPos g) none g.succ).map primaryOf).map
          (mkTerm true consumerWithNaz simpleNaz) := by
    simp [dfsFromGrid, nonConsumerCond, List.map_map, Function.comp_def]
  have hform : consumerFormula g
      = .ok (g.succ.map (fun m => (⟨false, m.id, nazEval consumerGridMeterNaz m.cat, []⟩ : Term))
        ++ (dfsFromGrid nonConsumerCond g).map (fun f => mkTerm true consumerWithNaz simpleNaz (primaryOf f))) := by
    simp only [consumerFormula, h.ne, Bool.false_eq_true, if_false, hg, if_true]
  rw [hform]
  apply Formula.good_ok
  · rw [evalTerms_append, consumer_meters_eval, e, evalTerms_mkTerm_neg, hs,
      sumEnv_eq_total env load g.succ h.law]
    simp only [Grid.loadTotal]; grind
  · rw [e]
    exact fallbacksAgree_append env _ _ (consumer_meters_fb env _) (fallbacksAgree_mkTerm env true _ _ _ hf)

/-- Without a grid meter the consumer formula is the unmetered loads PLUS the devices below the meters it picks. -/
theorem consumer_without_good (g : Grid) (env load : Nat → Rat) (h : Hyp g env load) (hg : areGridMeters g = false) :
    (consumerFormula g).good env (g.loadTotal load + sumDevFound env (dfsFromGrid consumerCond g)) := by
  obtain ⟨hs, hf⟩ := consumer_dfsL_sum env load g.succ (topPos g) none h.law h.noLoad
  have := search_good env h.none0 (dfsFromGrid consumerCond g) _ consumerNoneNaz consumerWithoutNaz simpleNaz hs hf
  simp only [consumerFormula, h.ne, Bool.false_eq_true, if_false, hg]
  exact this

/-! ### pools -/

theorem pool_good (env : Nat → Rat) (h0 : env nonExistingComponentId = 0) (ps : List (Node × List Node)) (v : Rat)
    (nzNone nz fnz : Naz) (hs : sumPrim env ps = v) (hf : fbOk env ps) :
    Formula.good (if ps.isEmpty then .ok [nonExisting nzNone] else .ok (ps.map (mkTerm false nz fnz))) env v := by
  by_cases he : ps.isEmpty = true
  · have : ps = [] := by simpa using he
    subst this
    simp only [List.isEmpty_nil, if_true]
    refine Formula.good_ok _ _ _ ?_ (nonExisting_fb env _)
    rw [nonExisting_eval env _ h0, ← hs]; rfl
  · have he' : ps.isEmpty = false := by simpa using he
    simp only [he', Bool.false_eq_true, if_false]
    refine Formula.good_ok _ _ _ ?_ (fallbacksAgree_mkTerm env false nz fnz _ hf)
    rw [evalTerms_mkTerm_pos, hs]

theorem pvSel_leaf (ids : List Nat) (c : Node) (h : pvSel ids c = true) : leafTest .pvInverter c = true := by
  simp only [pvSel, Bool.and_eq_true] at h; exact h.1

theorem batSel_leaf (S : List Nat) (c : Node) (h : batSel S c = true) : leafTest .batteryInverter c = true := by
  simp only [batSel, batteryInverterLeaf, Bool.and_eq_true] at h; exact h.1

/-- PV pool formula for a pool that shares no dedicated meter with inverters outside the pool
(or for any pool, once pairing requires all successors of the meter to be requested). -/
theorem pv_pool_good (req : Bool) (g : Grid) (env load : Nat → Rat) (h : Hyp g env load) (i : Nat) (is : List Nat)
    (hc : req = true ∨ poolClosedL (pvSel (i :: is)) (topPos g) g.succ = true) :
    (pvFormulaR req g (some (i :: is))).good env (devSumL (pvSel (i :: is)) env g.succ) := by
  obtain ⟨hs, hf⟩ := poolTerms_sum req .pvInverter _ (pvSel_leaf (i :: is)) env load g h.law h.noLoad hc
  exact pool_good env h.none0 _ _ _ _ _ hs hf

theorem pv_all_good (g : Grid) (env load : Nat → Rat) (h : Hyp g env load) (ids : List Nat)
    (hcov : ∀ j ∈ g.allPv, j ∈ ids) : (pvFormula g (some ids)).good env (g.pvTotal env) := by
  have hfull := pv_fullL ids g.succ hcov
  cases ids with
  | nil =>
    -- no PV inverter in the graph: the search finds nothing either
    have := pv_dfs_good g env load h
    simpa [pvFormula, pvFormulaR] using this
  | cons i is =>
    have hc := closedL_of_full .pvInverter _ (pvSel_leaf (i :: is)) g.succ (topPos g) hfull
    have := pv_pool_good pairRequiresAllRequested g env load h i is (Or.inr hc)
    rw [devSumL_selFull _ _ (pvSel_leaf (i :: is)) env g.succ hfull] at this
    have e : devSumL (leafTest .pvInverter) env g.succ = devSumL Node.isPv env g.succ :=
      devSumL_congr _ _ env (fun n _ => leafTest_pv n) g.succ
    rw [e] at this
    exact this

/-- Battery pool formula for a pool that shares no dedicated meter with inverters outside the pool. -/
theorem battery_pool_good (req : Bool) (g : Grid) (env load : Nat → Rat) (h : Hyp g env load) (S : List Nat)
    (hne : S.isEmpty = false) (herr : batErrL S g.succ = false)
    (hc : req = true ∨ poolClosedL (batSel S) (topPos g) g.succ = true) :
    (batteryFormulaR req g S).good env (devSumL (batSel S) env g.succ) := by
  obtain ⟨hs, hf⟩ := poolTerms_sum req .batteryInverter _ (batSel_leaf S) env load g h.law h.noLoad hc
  simp only [batteryFormulaR, hne, herr, Bool.false_eq_true, if_false]
  refine Formula.good_ok _ _ _ ?_ (fallbacksAgree_mkTerm env false _ _ _ hf)
  rw [evalTerms_mkTerm_pos, hs]

mutual
/-- Every battery inverter has a battery, so a graph without batteries has no battery inverter. -/
theorem devSum_zero_of_no_bats (env : Nat → Rat) : (n : Node) → n.invsHaveBats = true → n.allBats = [] →
    n.devSum Node.isBat env = 0
  | .meter _ cs, hb, ha => by
    simp only [Node.invsHaveBats] at hb
    simp only [Node.allBats] at ha
    simp only [Node.devSum]
    exact devSumL_zero_of_no_bats env cs hb ha
  | .batInv _ bs, hb, ha => by
    simp only [Node.allBats] at ha
    subst ha
    simp [Node.invsHaveBats] at hb
  | .pvInv _, _, _ => rfl
  | .ev _, _, _ => rfl
  | .chp _, _, _ => rfl
theorem devSumL_zero_of_no_bats (env : Nat → Rat) : (ns : List Node) → invsHaveBatsL ns = true → allBatsL ns = [] →
    devSumL Node.isBat env ns = 0
  | [], _, _ => rfl
  | n :: ns, hb, ha => by
    simp only [invsHaveBatsL, Bool.and_eq_true] at hb
    simp only [allBatsL, List.append_eq_nil_iff] at ha
    simp only [devSumL, devSum_zero_of_no_bats env n hb.1 ha.1, devSumL_zero_of_no_bats env ns hb.2 ha.2]
    grind
end

theorem battery_all_good (g : Grid) (env load : Nat → Rat) (h : Hyp g env load) (S : List Nat)
    (hcov : ∀ b ∈ g.allBats, b ∈ S) (hS : S.isEmpty = true → g.allBats = []) :
    (batteryFormula g S).good env (g.batTotal env) := by
  by_cases hne : S.isEmpty = true
  · have hz := devSumL_zero_of_no_bats env g.succ h.bats (hS hne)
    simp only [batteryFormula, batteryFormulaR, hne, if_true]
    refine Formula.good_ok _ _ _ ?_ (nonExisting_fb env _)
    rw [nonExisting_eval env _ h.none0, Grid.batTotal, hz]
  · have hne' : S.isEmpty = false := by simpa using hne
    obtain ⟨hfull, herr⟩ := bat_fullL S g.succ hcov h.bats
    have hc := closedL_of_full .batteryInverter _ (batSel_leaf S) g.succ (topPos g) hfull
    have := battery_pool_good pairRequiresAllRequested g env load h S hne' herr (Or.inr hc)
    rw [devSumL_selFull _ _ (batSel_leaf S) env g.succ hfull] at this
    have e : devSumL (leafTest .batteryInverter) env g.succ = devSumL Node.isBat env g.succ :=
      devSumL_congr _ _ env (fun n _ => leafTest_bat n) g.succ
    rw [e] at this
    exact this

/-! ### EV and CHP -/

theorem ev_good (g : Grid) (env : Nat → Rat) (h0 : env nonExistingComponentId = 0) :
    (evFormula g.allEv).good env (g.evTotal env) := by
  have hs := sumIds_idsWhereL Node.isEv (fun _ _ => rfl) env g.succ
  by_cases he : g.allEv.isEmpty = true
  · have hnil : idsWhereL Node.isEv g.succ = [] := by simpa [Grid.allEv] using he
    simp only [evFormula, he, if_true]
    refine Formula.good_ok _ _ _ ?_ (nonExisting_fb env _)
    rw [nonExisting_eval env _ h0, Grid.evTotal, ← hs, hnil]; rfl
  · have he' : g.allEv.isEmpty = false := by simpa using he
    simp only [evFormula, he', Bool.false_eq_true, if_false]
    refine Formula.good_ok _ _ _ ?_ (by simp [fallbacksAgree])
    rw [evalTerms_ev, Grid.evTotal, ← hs]; rfl

theorem chp_good (g : Grid) (env load : Nat → Rat) (h : Hyp g env load) :
    (chpFormula g).good env (g.chpTotal env) := by
  have e : isChpNode = Node.isChp := funext isChpNode_eq
  have hsum := chp_sumL env load g.succ h.law h.noLoad h.metered
  rw [filter_none Node.isChp g.succ h.noChpTop, sumEnv_nil] at hsum
  have herr : ((g.succ.any isChpNode && chpPredecessorCat != .grid) || chpErrL g.succ) = false := by
    rw [e, h.noChpTop, chpErrL_false g.succ h.metered]; rfl
  by_cases he : (chpMetersL g.succ).isEmpty = true
  · have hnil : chpMetersL g.succ = [] := by simpa using he
    simp only [chpFormula, herr, Bool.false_eq_true, if_false, he, if_true]
    refine Formula.good_ok _ _ _ ?_ (nonExisting_fb env _)
    rw [hnil, sumEnv_nil] at hsum
    rw [nonExisting_eval env _ h.none0, Grid.chpTotal]; grind
  · have he' : (chpMetersL g.succ).isEmpty = false := by simpa using he
    simp only [chpFormula, herr, Bool.false_eq_true, if_false, he']
    refine Formula.good_ok _ _ _ ?_ (by simp [fallbacksAgree])
    rw [evalTerms_chp, Grid.chpTotal]; grind

end Graph
