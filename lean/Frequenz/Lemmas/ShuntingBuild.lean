/-
From the `(stack, steps)` core back to the real entry points (serves C05, C13):
  * `build` with its fetcher table (`setdefault`) equals the core when every metric token carries the flag of its id;
  * the tokenizer reads back any token sequence rendered with arbitrary whitespace padding;
  * `from_string`'s token conversion of the tokens of an expression.
-/
import Frequenz.Lemmas.ShuntingApi

namespace Formula

set_option linter.unusedSimpArgs false

/-! ## `build` = core, for consistent `nones_are_zeros` flags -/

def FetchOK (zf : Nat → Bool) (fs : List (Nat × Bool)) : Prop :=
  ∀ n z, lookupFetcher fs n = some z → z = zf n

def TokOK (zf : Nat → Bool) : Tok → Prop
  | .metric n z => z = zf n
  | _ => True

theorem lookupFetcher_append (fs : List (Nat × Bool)) (m : Nat) (w : Bool) (n : Nat) :
    lookupFetcher (fs ++ [(m, w)]) n =
      match lookupFetcher fs n with
      | some z => some z
      | none => if m = n then some w else none := by
  induction fs with
  | nil => simp [lookupFetcher]
  | cons p fs ih =>
    obtain ⟨a, b⟩ := p
    by_cases h : a = n <;> simp [lookupFetcher, h, ih]

theorem pushTok_core (zf : Nat → Bool) (b : Builder) (t : Tok) (hb : FetchOK zf b.fetchers) (ht : TokOK zf t) :
    ((pushTok b t).stack, (pushTok b t).steps) = stepS (b.stack, b.steps) t ∧ FetchOK zf (pushTok b t).fetchers := by
  cases t with
  | metric n z =>
    have hz : z = zf n := ht
    subst hz
    simp only [pushTok, pushMetric, stepS]
    cases hl : lookupFetcher b.fetchers n with
    | some z' =>
      have := hb n z' hl
      subst this
      exact ⟨rfl, hb⟩
    | none =>
      refine ⟨rfl, ?_⟩
      intro m w hw
      simp only [lookupFetcher_append] at hw
      cases hl2 : lookupFetcher b.fetchers m with
      | some w' =>
        simp [hl2] at hw
        subst hw
        exact hb m w' hl2
      | none =>
        simp [hl2] at hw
        obtain ⟨rfl, rfl⟩ := hw
        rfl
  | const c => exact ⟨rfl, hb⟩
  | oper o =>
    refine ⟨?_, ?_⟩
    · simp only [pushTok, pushOper, stepS, pushOperS]
      by_cases h : o = .rp <;> simp [h]
    · simp only [pushTok, pushOper]
      by_cases h : o = .rp <;> simpa [h] using hb
  | clip lo hi => exact ⟨rfl, hb⟩

theorem foldl_core (zf : Nat → Bool) (toks : List Tok) (b : Builder) (hb : FetchOK zf b.fetchers)
    (ht : ∀ t ∈ toks, TokOK zf t) :
    ((toks.foldl pushTok b).stack, (toks.foldl pushTok b).steps) = shuntS toks (b.stack, b.steps) := by
  induction toks generalizing b with
  | nil => rfl
  | cons t ts ih =>
    obtain ⟨h1, h2⟩ := pushTok_core zf b t hb (ht t (by simp))
    simp only [List.foldl_cons, shuntS_cons]
    rw [ih (pushTok b t) h2 (fun t' ht' => ht t' (by simp [ht'])), h1]

theorem build_core (zf : Nat → Bool) (toks : List Tok) (ht : ∀ t ∈ toks, TokOK zf t) :
    build toks = finalizeS (shuntS toks ([], [])) := by
  have h := foldl_core zf toks {} (by intro n z h; simp [lookupFetcher] at h) ht
  simp only [build, finalize, finalizeS, flush]
  rw [← h]

/-! ## The tokenizer reads back what `render` writes -/

/-- A token the tokenizer can produce from a well-formed string. -/
def RawOK : RawTok → Prop
  | .metric ds => ds ≠ [] ∧ ∀ c ∈ ds, c.isDigit = true
  | .oper c => isOperChar c = true

def WsOnly (w : List Char) : Prop := ∀ c ∈ w, isWs c = true

theorem ws_not_digit : ∀ c, isWs c = true → c.isDigit = false := by
  intro c h
  simp only [isWs, Extracted.Formula.wsChars, List.contains_cons, List.contains_nil, Bool.or_false,
    Bool.or_eq_true, beq_iff_eq] at h
  rcases h with h | h | h | h <;> subst h <;> decide

theorem oper_not_digit : ∀ c, isOperChar c = true → c.isDigit = false ∧ isWs c = false := by
  intro c h
  simp only [isOperChar, Extracted.Formula.operChars, List.contains_cons, List.contains_nil, Bool.or_false,
    Bool.or_eq_true, beq_iff_eq] at h
  rcases h with h | h | h | h | h | h <;> subst h <;> decide

theorem hash_class : Extracted.Formula.metricChar.isDigit = false ∧ isWs Extracted.Formula.metricChar = false ∧
    isOperChar Extracted.Formula.metricChar = false := by decide

/-- `s` is empty or starts with a non-digit (so a number in progress ends here). -/
def NoDigitStart : List Char → Prop
  | [] => True
  | c :: _ => c.isDigit = false

theorem tokGo_num_eq_top (ds : List Char) (s : List Char) (h : NoDigitStart s) :
    tokGo (.num ds) s = (tokGo .top s).map ([RawTok.metric ds] ++ ·) := by
  cases s with
  | nil => simp [tokGo]
  | cons c cs =>
    have hc : c.isDigit = false := h
    simp only [tokGo, hc, Bool.false_eq_true, if_false]
    by_cases h1 : isWs c = true
    · simp [h1, Option.map_map, Function.comp_def]
    · by_cases h2 : isOperChar c = true
      · simp [h1, h2, Option.map_map, Function.comp_def]
      · by_cases h3 : c = Extracted.Formula.metricChar
        · subst h3
          simp [h1, h2, Option.map_map, Function.comp_def]
        · simp [h1, h2, h3]

theorem tokGo_top_ws (w rest : List Char) (hw : WsOnly w) : tokGo .top (w ++ rest) = tokGo .top rest := by
  induction w with
  | nil => rfl
  | cons c w ih =>
    have hc : isWs c = true := hw c (by simp)
    have hd := ws_not_digit c hc
    have := ih (fun c' h' => hw c' (by simp [h']))
    simp [tokGo, hd, hc, this]

theorem tokGo_top_oper (c : Char) (rest : List Char) (hc : isOperChar c = true) :
    tokGo .top (c :: rest) = (tokGo .top rest).map (RawTok.oper c :: ·) := by
  obtain ⟨hd, hw⟩ := oper_not_digit c hc
  simp [tokGo, hd, hw, hc]

theorem tokGo_num_digits (ds acc rest : List Char) (hds : ∀ c ∈ ds, c.isDigit = true) :
    tokGo (.num acc) (ds ++ rest) = tokGo (.num (acc ++ ds)) rest := by
  induction ds generalizing acc with
  | nil => simp
  | cons c ds ih =>
    have hc : c.isDigit = true := hds c (by simp)
    have := ih (acc ++ [c]) (fun c' h' => hds c' (by simp [h']))
    simp [tokGo, hc, this]

theorem tokGo_top_metric (ds rest : List Char) (hne : ds ≠ []) (hds : ∀ c ∈ ds, c.isDigit = true)
    (hrest : NoDigitStart rest) :
    tokGo .top (Extracted.Formula.metricChar :: (ds ++ rest)) = (tokGo .top rest).map (RawTok.metric ds :: ·) := by
  obtain ⟨h1, h2, h3⟩ := hash_class
  cases ds with
  | nil => exact absurd rfl hne
  | cons d ds =>
    have hd : d.isDigit = true := hds d (by simp)
    have := tokGo_num_digits ds [d] rest (fun c' h' => hds c' (by simp [h']))
    simp [tokGo, h1, h2, h3, hd, this, tokGo_num_eq_top _ rest hrest, Function.comp_def]

theorem rawChars_noDigitStart (t : RawTok) (ht : RawOK t) (rest : List Char) : NoDigitStart (rawChars t ++ rest) := by
  cases t with
  | metric ds => exact hash_class.1
  | oper c => exact (oper_not_digit c ht).1

theorem renderFrom_noDigitStart (pad : Nat → List Char) (hpad : ∀ k, WsOnly (pad k)) (k : Nat) (toks : List RawTok)
    (ht : ∀ t ∈ toks, RawOK t) : NoDigitStart (renderFrom pad k toks) := by
  cases toks with
  | nil =>
    simp only [renderFrom]
    cases hp : pad k with
    | nil => trivial
    | cons c w => exact ws_not_digit c (hpad k c (by simp [hp]))
  | cons t ts =>
    simp only [renderFrom]
    cases hp : pad k with
    | nil => simpa using rawChars_noDigitStart t (ht t (by simp)) _
    | cons c w => exact ws_not_digit c (hpad k c (by simp [hp]))

/-- The tokenizer returns exactly the tokens, whatever whitespace surrounds them. -/
theorem tokenize_render (pad : Nat → List Char) (hpad : ∀ k, WsOnly (pad k)) (toks : List RawTok)
    (ht : ∀ t ∈ toks, RawOK t) : tokenize (render pad toks) = some toks := by
  unfold tokenize render
  generalize 0 = k
  induction toks generalizing k with
  | nil =>
    have := tokGo_top_ws (pad k) [] (hpad k)
    simpa [renderFrom, tokGo] using this
  | cons t ts ih =>
    have iht := ih (fun t' h' => ht t' (by simp [h'])) (k + 1)
    simp only [renderFrom]
    rw [List.append_assoc, tokGo_top_ws _ _ (hpad k)]
    have hok : RawOK t := ht t (by simp)
    cases t with
    | metric ds =>
      have hnd := renderFrom_noDigitStart pad hpad (k + 1) ts (fun t' h' => ht t' (by simp [h']))
      simp only [rawChars, List.cons_append]
      rw [tokGo_top_metric ds _ hok.1 hok.2 hnd, iht]
      rfl
    | oper c =>
      simp only [rawChars, List.cons_append, List.nil_append]
      rw [tokGo_top_oper c _ hok, iht]
      rfl

/-! ## Tokens of an expression -/

theorem digitChar_isDigit : ∀ d : Fin 10, (digitChar d).isDigit = true := by decide

theorem toksOfRaw_append (zf : Nat → Bool) (a b : List RawTok) (ta tb : List Tok)
    (ha : toksOfRaw zf a = some ta) (hb : toksOfRaw zf b = some tb) : toksOfRaw zf (a ++ b) = some (ta ++ tb) := by
  induction a generalizing ta with
  | nil => simp [toksOfRaw] at ha; subst ha; simpa using hb
  | cons r rs ih =>
    simp only [toksOfRaw] at ha
    cases h1 : tokOfRaw zf r with
    | none => simp [h1] at ha
    | some t =>
      cases h2 : toksOfRaw zf rs with
      | none => simp [h1, h2] at ha
      | some ts =>
        simp [h1, h2] at ha
        subst ha
        simp [toksOfRaw, h1, ih ts h2]

theorem opOfChar_opChar (o : BinOp) (h : o = .add ∨ o = .sub ∨ o = .mul ∨ o = .div) :
    opOfChar (opChar o.toOp) = some o.toOp := by
  rcases h with rfl | rfl | rfl | rfl <;> decide

section
variable (zf : Nat → Bool)

def RawGoal (raw : List RawTok) (toks : List Tok) : Prop :=
  toksOfRaw zf raw = some toks ∧ (∀ r ∈ raw, RawOK r) ∧ (∀ t ∈ toks, TokOK zf t)

theorem rawGoal_append {a b : List RawTok} {ta tb : List Tok} (ha : RawGoal zf a ta) (hb : RawGoal zf b tb) :
    RawGoal zf (a ++ b) (ta ++ tb) := by
  refine ⟨toksOfRaw_append zf a b ta tb ha.1 hb.1, ?_, ?_⟩
  · intro r hr; rcases List.mem_append.mp hr with h | h; exact ha.2.1 r h; exact hb.2.1 r h
  · intro t ht; rcases List.mem_append.mp ht with h | h; exact ha.2.2 t h; exact hb.2.2 t h

theorem rawGoal_oper (c : Char) (o : Op) (h1 : opOfChar c = some o) (h2 : isOperChar c = true) :
    RawGoal zf [.oper c] [.oper o] := by
  refine ⟨by simp [toksOfRaw, tokOfRaw, h1], ?_, ?_⟩
  · intro r hr; simp at hr; subst hr; exact h2
  · intro t ht; simp at ht; subst ht; trivial

theorem rawGoal_all (e : E) : RawGoal zf e.raw (e.toks zf) :=
  E.rec (motive_1 := fun e => RawGoal zf e.raw (e.toks zf)) (motive_2 := fun t => RawGoal zf t.raw (t.toks zf))
    (motive_3 := fun f => RawGoal zf f.raw (f.toks zf))
    (fun t h => by simpa [E.raw, E.toks] using h)
    (fun l o r hl hr => by
      have ho : RawGoal zf [.oper (opChar o.toBin.toOp)] [.oper o.toBin.toOp] :=
        rawGoal_oper zf _ _ (by cases o <;> decide) (by cases o <;> decide)
      simpa [E.raw, E.toks] using rawGoal_append zf (rawGoal_append zf hl ho) hr)
    (fun f h => by simpa [T.raw, T.toks] using h)
    (fun l o r hl hr => by
      have ho : RawGoal zf [.oper (opChar o.toBin.toOp)] [.oper o.toBin.toOp] :=
        rawGoal_oper zf _ _ (by cases o <;> decide) (by cases o <;> decide)
      simpa [T.raw, T.toks] using rawGoal_append zf (rawGoal_append zf hl ho) hr)
    (fun d ds => by
      refine ⟨by simp [F.raw, F.toks, toksOfRaw, tokOfRaw, idDigits], ?_, ?_⟩
      · intro r hr
        simp [F.raw] at hr
        subst hr
        refine ⟨by simp [idDigits], ?_⟩
        intro c hc
        simp only [idDigits, List.mem_map] at hc
        obtain ⟨x, _, rfl⟩ := hc
        exact digitChar_isDigit x
      · intro t ht
        simp [F.toks] at ht
        subst ht
        rfl)
    (fun e h => by
      have hl : RawGoal zf [.oper '('] [.oper .lp] := rawGoal_oper zf _ _ (by decide) (by decide)
      have hr : RawGoal zf [.oper ')'] [.oper .rp] := rawGoal_oper zf _ _ (by decide) (by decide)
      simpa [F.raw, F.toks] using rawGoal_append zf (rawGoal_append zf hl h) hr)
    e

/-- `from_string` on any rendering of `e` compiles to the core's result. -/
theorem fromString_render (e : E) (pad : Nat → List Char) (hpad : ∀ k, WsOnly (pad k)) :
    fromString (render pad e.raw) zf = some (finalizeS (shuntS (e.toks zf) ([], []))) := by
  obtain ⟨h1, h2, h3⟩ := rawGoal_all zf e
  simp [fromString, tokenize_render pad hpad e.raw h2, h1, build_core zf _ h3]

end

theorem ho_toks_ok (z : Bool) (h : HO) : ∀ t ∈ h.toks z, TokOK (fun _ => z) t := by
  induction h with
  | start n => intro t ht; simp [HO.toks] at ht; subst ht; rfl
  | pushEng b o n ih =>
    intro t ht
    simp [HO.toks] at ht
    rcases ht with rfl | h | rfl | rfl | rfl
    · trivial
    · exact ih t h
    · trivial
    · trivial
    · rfl
  | pushConst b o k ih =>
    intro t ht
    simp [HO.toks] at ht
    rcases ht with rfl | h | rfl | rfl | rfl
    · trivial
    · exact ih t h
    · trivial
    · trivial
    · trivial
  | pushB b o r ihb ihr =>
    intro t ht
    simp [HO.toks] at ht
    rcases ht with rfl | h | rfl | rfl | rfl | h | rfl
    · trivial
    · exact ihb t h
    · trivial
    · trivial
    · trivial
    · exact ihr t h
    · trivial
  | un b u ih =>
    intro t ht
    simp [HO.toks] at ht
    rcases ht with rfl | h | rfl | rfl
    · trivial
    · exact ih t h
    · trivial
    · trivial

theorem hoBuild_core (h : HO) (z : Bool) : hoBuild h z = finalizeS (shuntS (h.toks z) ([], [])) :=
  build_core (fun _ => z) _ (ho_toks_ok z h)

end Formula

namespace Formula

/-! ## One fetcher per name (`setdefault`): a metric used twice is one object pushed twice -/

def FetcherInv (b : Builder) : Prop :=
  (b.fetchers.map Prod.fst).Nodup ∧ ∀ n z, Step.metric n z ∈ b.steps → lookupFetcher b.fetchers n = some z

theorem lookupFetcher_none {fs : List (Nat × Bool)} {n : Nat} (h : lookupFetcher fs n = none) :
    n ∉ fs.map Prod.fst := by
  induction fs with
  | nil => simp
  | cons p fs ih =>
    obtain ⟨a, w⟩ := p
    by_cases ha : a = n
    · simp [lookupFetcher, ha] at h
    · simp only [lookupFetcher, ha, if_false] at h
      simp only [List.map_cons, List.mem_cons, not_or]
      exact ⟨fun hn => ha hn.symm, ih h⟩

theorem popLoop_metric (o : Op) (S : List Op) (st : List Step) (n : Nat) (z : Bool) :
    Step.metric n z ∈ (popLoop o S st).2 ↔ Step.metric n z ∈ st := by
  induction S generalizing st with
  | nil => simp [popLoop]
  | cons p S ih =>
    simp only [popLoop]
    split
    · rfl
    · split
      · rfl
      · split
        · rfl
        · rw [ih]; simp

theorem fetcherInv_pushTok (b : Builder) (t : Tok) (hb : FetcherInv b) : FetcherInv (pushTok b t) := by
  obtain ⟨h1, h2⟩ := hb
  cases t with
  | metric n z =>
    simp only [pushTok, pushMetric]
    cases hl : lookupFetcher b.fetchers n with
    | some z' =>
      refine ⟨h1, ?_⟩
      intro m w hm
      simp only [List.mem_append, List.mem_singleton] at hm
      rcases hm with hm | hm
      · exact h2 m w hm
      · cases hm; exact hl
    | none =>
      refine ⟨?_, ?_⟩
      · simp only [List.map_append, List.map_cons, List.map_nil]
        refine List.nodup_append.mpr ⟨h1, by simp, ?_⟩
        intro a ha c hc
        simp only [List.mem_singleton] at hc
        subst hc
        intro hac
        subst hac
        exact lookupFetcher_none hl ha
      · intro m w hm
        simp only [List.mem_append, List.mem_singleton] at hm
        rw [lookupFetcher_append]
        rcases hm with hm | hm
        · rw [h2 m w hm]
        · cases hm; simp [hl]
  | const c =>
    refine ⟨h1, ?_⟩
    intro m w hm
    simp only [pushTok, List.mem_append, List.mem_singleton] at hm
    rcases hm with hm | hm
    · exact h2 m w hm
    · cases hm
  | oper o =>
    have key : ∀ m w, Step.metric m w ∈
        (if b.stack ≠ [] ∧ o ≠ .lp then popLoop o b.stack b.steps else (b.stack, b.steps)).2 →
        Step.metric m w ∈ b.steps := by
      intro m w hm
      split at hm
      · exact (popLoop_metric _ _ _ m w).mp hm
      · exact hm
    simp only [pushTok, pushOper]
    split <;> exact ⟨h1, fun m w hm => h2 m w (key m w hm)⟩
  | clip lo hi =>
    refine ⟨h1, ?_⟩
    intro m w hm
    simp only [pushTok, List.mem_append, List.mem_singleton] at hm
    rcases hm with hm | hm
    · exact h2 m w hm
    · cases hm

theorem fetcherInv_foldl (toks : List Tok) (b : Builder) (hb : FetcherInv b) : FetcherInv (toks.foldl pushTok b) := by
  induction toks generalizing b with
  | nil => exact hb
  | cons t ts ih => exact ih _ (fetcherInv_pushTok b t hb)

end Formula
