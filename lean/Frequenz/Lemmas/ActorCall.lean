/-
C10 — invariants linking the stop()/wait() calls to the task list: what a call has reaped, what it raises,
and that (with the all-rounds `wait()` loop) a finished call leaves no unfinished task behind.
-/
import Frequenz.Lemmas.ActorSvc

namespace Actor

/-- `t'` is a later state of task `u` produced by anything but a reaping `wait()` round. -/
structure Stable (u t' : Tsk) : Prop where
  id : t'.id = u.id
  done : u.isDone = true → t'.phase = u.phase
  owned : t'.owned = false → u.owned = false ∨ t'.dropped = true
  dropped : u.dropped = true → t'.dropped = true

theorem Stable.isDone {u t' : Tsk} (h : Stable u t') (hd : u.isDone = true) : t'.isDone = true := by
  have := h.done hd
  simp only [Tsk.isDone] at hd ⊢
  rw [this]; exact hd

theorem Stable.errOf {u t' : Tsk} (h : Stable u t') (hd : u.isDone = true) : errOf t' = errOf u := by
  simp only [Actor.errOf, h.done hd, h.id]

theorem Stable_refl (u : Tsk) : Stable u u := ⟨rfl, fun _ => rfl, fun h => Or.inl h, id⟩
theorem Stable_cancelOne (u : Tsk) : Stable u (cancelOne u) :=
  ⟨by simp, by simp, by simp; exact Or.inl, by simp⟩
theorem Stable_clearOne (u : Tsk) : Stable u (clearOne u) := by
  refine ⟨by simp, by simp, ?_, ?_⟩ <;> unfold clearOne <;> split <;> simp_all
theorem Stable_stepOne (lim : Option Nat) (now : Int) (i : Nat) (r : StepRes) (u : Tsk) :
    Stable u (stepOne lim now i r u) :=
  ⟨by simp, fun h => by rw [stepOne_done _ _ _ _ _ h], by simp; exact Or.inl, by simp⟩

structure CInv (m : Mode) (ts : List Tsk) (cs : List Caller) : Prop where
  reapedLt : ∀ c ∈ cs, ∀ i ∈ c.reaped, i < ts.length
  batchLt : ∀ c ∈ cs, ∀ b, c.st = .blocked b → ∀ i ∈ b, i < ts.length
  reapedDone : ∀ c ∈ cs, ∀ t ∈ ts, t.id ∈ c.reaped → t.isDone = true
  accIff : ∀ c ∈ cs, ∀ e, e ∈ c.acc ↔ ∃ t ∈ ts, t.id ∈ c.reaped ∧ errOf t = some e
  raisedEq : ∀ c ∈ cs, ∀ r tm n, c.st = .finished r tm n → r = raisedOf c.kind c.acc
  accounted : ∀ t ∈ ts, t.owned = false → t.dropped = true ∨ ∃ c ∈ cs, t.id ∈ c.reaped
  quiet : m.allRounds = true → ∀ c ∈ cs, ∀ r tm n, c.st = .finished r tm n →
    n ≤ ts.length ∧ ∀ t ∈ ts, t.id < n → t.isDone = true

theorem CInv_nil (m : Mode) : CInv m [] [] :=
  ⟨by simp, by simp, by simp, by simp, by simp, by simp, by simp⟩

/-- Tasks evolve without reaping, new tasks are appended with fresh ids, the calls do not move. -/
theorem CInv_evolve {m : Mode} {ts : List Tsk} {cs : List Caller} (g : Tsk → Tsk) (new : List Tsk)
    (hg : ∀ u ∈ ts, Stable u (g u)) (hnew : ∀ t ∈ new, t.id = ts.length ∧ t.owned = true) 
    (h : CInv m ts cs) : CInv m (ts.map g ++ new) cs := by
  have hlen' : ts.length ≤ (ts.map g ++ new).length := by simp
  refine ⟨?_, ?_, ?_, ?_, h.raisedEq, ?_, ?_⟩
  · intro c hc i hi; exact Nat.lt_of_lt_of_le (h.reapedLt c hc i hi) hlen'
  · intro c hc b hb i hi; exact Nat.lt_of_lt_of_le (h.batchLt c hc b hb i hi) hlen'
  · intro c hc t ht hid
    rcases List.mem_append.mp ht with ht | ht
    · obtain ⟨u, hu, rfl⟩ := List.mem_map.mp ht
      have hs := hg u hu
      rw [hs.id] at hid
      exact hs.isDone (h.reapedDone c hc u hu hid)
    · have := h.reapedLt c hc _ hid
      rw [(hnew t ht).1] at this; omega
  · intro c hc e
    rw [h.accIff c hc e]
    constructor
    · rintro ⟨u, hu, hid, he⟩
      have hs := hg u hu
      refine ⟨g u, List.mem_append_left _ (List.mem_map_of_mem hu), by rw [hs.id]; exact hid, ?_⟩
      rw [hs.errOf (h.reapedDone c hc u hu hid)]; exact he
    · rintro ⟨t, ht, hid, he⟩
      rcases List.mem_append.mp ht with ht | ht
      · obtain ⟨u, hu, rfl⟩ := List.mem_map.mp ht
        have hs := hg u hu
        rw [hs.id] at hid
        refine ⟨u, hu, hid, ?_⟩
        rw [← hs.errOf (h.reapedDone c hc u hu hid)]; exact he
      · have := h.reapedLt c hc _ hid
        rw [(hnew t ht).1] at this; omega
  · intro t ht ho
    rcases List.mem_append.mp ht with ht | ht
    · obtain ⟨u, hu, rfl⟩ := List.mem_map.mp ht
      have hs := hg u hu
      rcases hs.owned ho with h1 | h1
      · rcases h.accounted u hu h1 with h2 | ⟨c, hc, h2⟩
        · exact Or.inl (hs.dropped h2)
        · exact Or.inr ⟨c, hc, by rw [hs.id]; exact h2⟩
      · exact Or.inl h1
    · rw [(hnew t ht).2] at ho; cases ho
  · intro ha c hc r tm n hst
    obtain ⟨hn, hall⟩ := h.quiet ha c hc r tm n hst
    refine ⟨Nat.le_trans hn hlen', ?_⟩
    intro t ht hid
    rcases List.mem_append.mp ht with ht | ht
    · obtain ⟨u, hu, rfl⟩ := List.mem_map.mp ht
      have hs := hg u hu
      rw [hs.id] at hid
      exact hs.isDone (hall u hu hid)
    · rw [(hnew t ht).1] at hid; omega

/-! ### list helpers -/

theorem self_mem_set {α} {cs : List α} {c : Nat} {cl cl' : α} (hc : cs[c]? = some cl) : cl' ∈ cs.set c cl' := by
  have hlt : c < cs.length := by
    rcases Nat.lt_or_ge c cs.length with h | h
    · exact h
    · rw [List.getElem?_eq_none h] at hc; cases hc
  exact List.mem_iff_getElem.mpr ⟨c, by simpa using hlt, by simp⟩

theorem mem_set_transfer {α} {cs : List α} {c : Nat} {cl cl' : α} (hc : cs[c]? = some cl) {c0 : α} (h0 : c0 ∈ cs) :
    c0 ∈ cs.set c cl' ∨ c0 = cl := by
  obtain ⟨j, hj, rfl⟩ := List.mem_iff_getElem.mp h0
  by_cases hjc : c = j
  · subst hjc
    right
    rw [List.getElem?_eq_getElem hj] at hc
    exact Option.some.inj hc
  · left
    exact List.mem_iff_getElem.mpr ⟨j, by simpa using hj, by simp [List.getElem_set_ne hjc]⟩

theorem mem_errorsOf {ts : List Tsk} {b : List Nat} {e : Nat × Outcome} :
    e ∈ errorsOf ts b ↔ ∃ t ∈ ts, t.id ∈ b ∧ errOf t = some e := by
  unfold errorsOf
  rw [List.mem_filterMap]
  constructor
  · rintro ⟨t, ht, he⟩
    by_cases hb : b.contains t.id = true
    · rw [if_pos hb] at he; exact ⟨t, ht, by simpa using hb, he⟩
    · rw [if_neg hb] at he; cases he
  · rintro ⟨t, ht, hb, he⟩
    exact ⟨t, ht, by rw [if_pos (by simpa using hb)]; exact he⟩

@[simp] theorem errOf_unownOne (b : List Nat) (t : Tsk) : errOf (unownOne b t) = errOf t := by
  simp [errOf]

/-! ### a new call, and a call that reaps its batch -/

theorem CInv_push {m : Mode} {lim : Option Nat} {ts : List Tsk} {cs : List Caller} (k : CallKind) (st : CallSt)
    (hT : TInv lim ts) (h : CInv m ts cs)
    (hst : (∃ b, st = .blocked b ∧ ∀ i ∈ b, i < ts.length) ∨
           (∃ tm, st = .finished [] tm ts.length ∧ ∀ t ∈ ts, t.owned = false)) :
    CInv m ts (cs ++ [{ kind := k, st := st, acc := [], reaped := [] }]) := by
  refine ⟨?_, ?_, ?_, ?_, ?_, ?_, ?_⟩
  · intro c hc i hi
    rcases List.mem_append.mp hc with hc | hc
    · exact h.reapedLt c hc i hi
    · simp at hc; subst hc; simp at hi
  · intro c hc b hb i hi
    rcases List.mem_append.mp hc with hc | hc
    · exact h.batchLt c hc b hb i hi
    · simp at hc; subst hc
      rcases hst with ⟨b', rfl, hb'⟩ | ⟨tm, rfl, _⟩
      · simp at hb; subst hb; exact hb' i hi
      · simp at hb
  · intro c hc t ht hid
    rcases List.mem_append.mp hc with hc | hc
    · exact h.reapedDone c hc t ht hid
    · simp at hc; subst hc; simp at hid
  · intro c hc e
    rcases List.mem_append.mp hc with hc | hc
    · exact h.accIff c hc e
    · simp at hc; subst hc; simp
  · intro c hc r tm n hr
    rcases List.mem_append.mp hc with hc | hc
    · exact h.raisedEq c hc r tm n hr
    · simp at hc; subst hc
      rcases hst with ⟨b', rfl, _⟩ | ⟨tm', rfl, _⟩
      · simp at hr
      · simp at hr; obtain ⟨rfl, _, _⟩ := hr; cases k <;> simp [raisedOf]
  · intro t ht ho
    rcases h.accounted t ht ho with h1 | ⟨c, hc, h1⟩
    · exact Or.inl h1
    · exact Or.inr ⟨c, List.mem_append_left _ hc, h1⟩
  · intro ha c hc r tm n hr
    rcases List.mem_append.mp hc with hc | hc
    · exact h.quiet ha c hc r tm n hr
    · simp at hc; subst hc
      rcases hst with ⟨b', rfl, _⟩ | ⟨tm', rfl, hall⟩
      · simp at hr
      · simp at hr; obtain ⟨_, _, rfl⟩ := hr
        exact ⟨Nat.le_refl _, fun t ht _ => hT.unownedDone t ht (hall t ht)⟩

theorem CInv_reap {m : Mode} {lim : Option Nat} {now : Int} {ts : List Tsk} {cs : List Caller} {c : Nat} {cl : Caller}
    {batch : List Nat} (hT : TInv lim ts) (h : CInv m ts cs) (hc : cs[c]? = some cl) (hbl : cl.st = .blocked batch)
    (hb : batchDone ts batch = true) (cl' : Caller) (hk : cl'.kind = cl.kind)
    (hacc : cl'.acc = cl.acc ++ errorsOf ts batch) (hre : cl'.reaped = cl.reaped ++ batch)
    (hst' : (∃ b, cl'.st = .blocked b ∧ ∀ i ∈ b, i < ts.length) ∨
            (∃ tm, cl'.st = .finished (raisedOf cl.kind (cl.acc ++ errorsOf ts batch)) tm ts.length ∧
               (m.allRounds = true → ∀ t ∈ ts.map (unownOne batch), t.owned = false))) :
    CInv m (ts.map (unownOne batch)) (cs.set c cl') := by
  have hT1 : TInv lim (ts.map (unownOne batch)) := TInv_step (now := now) (.unown ts batch hb) hT
  have hclmem : cl ∈ cs := List.mem_of_getElem? hc
  refine ⟨?_, ?_, ?_, ?_, ?_, ?_, ?_⟩
  · intro x hx i hi
    simp only [List.length_map]
    rcases List.mem_or_eq_of_mem_set hx with hx | rfl
    · exact h.reapedLt x hx i hi
    · rw [hre] at hi
      rcases List.mem_append.mp hi with hi | hi
      · exact h.reapedLt cl hclmem i hi
      · exact h.batchLt cl hclmem batch hbl i hi
  · intro x hx b hxb i hi
    simp only [List.length_map]
    rcases List.mem_or_eq_of_mem_set hx with hx | rfl
    · exact h.batchLt x hx b hxb i hi
    · rcases hst' with ⟨b', hb1, hb'⟩ | ⟨tm, hf, _⟩
      · rw [hb1] at hxb; simp at hxb; subst hxb; exact hb' i hi
      · rw [hf] at hxb; simp at hxb
  · intro x hx t ht hid
    obtain ⟨u, hu, rfl⟩ := List.mem_map.mp ht
    simp only [unownOne_id, unownOne_isDone] at hid ⊢
    rcases List.mem_or_eq_of_mem_set hx with hx | rfl
    · exact h.reapedDone x hx u hu hid
    · rw [hre] at hid
      rcases List.mem_append.mp hid with hid | hid
      · exact h.reapedDone cl hclmem u hu hid
      · exact batchDone_mem hb hu (by simpa using hid)
  · intro x hx e
    have key : ∀ (ids : List Nat), (∃ t ∈ ts.map (unownOne batch), t.id ∈ ids ∧ errOf t = some e) ↔
        (∃ t ∈ ts, t.id ∈ ids ∧ errOf t = some e) := by
      intro ids
      constructor
      · rintro ⟨t, ht, hid, he⟩
        obtain ⟨u, hu, rfl⟩ := List.mem_map.mp ht
        exact ⟨u, hu, by simpa using hid, by simpa using he⟩
      · rintro ⟨u, hu, hid, he⟩
        exact ⟨unownOne batch u, List.mem_map_of_mem hu, by simpa using hid, by simpa using he⟩
    rw [key]
    rcases List.mem_or_eq_of_mem_set hx with hx | rfl
    · exact h.accIff x hx e
    · rw [hacc, hre]
      simp only [List.mem_append]
      rw [h.accIff cl hclmem e, mem_errorsOf]
      constructor
      · rintro (⟨t, ht, hid, he⟩ | ⟨t, ht, hid, he⟩)
        · exact ⟨t, ht, Or.inl hid, he⟩
        · exact ⟨t, ht, Or.inr hid, he⟩
      · rintro ⟨t, ht, hid | hid, he⟩
        · exact Or.inl ⟨t, ht, hid, he⟩
        · exact Or.inr ⟨t, ht, hid, he⟩
  · intro x hx r tm n hr
    rcases List.mem_or_eq_of_mem_set hx with hx | rfl
    · exact h.raisedEq x hx r tm n hr
    · rcases hst' with ⟨b', hb1, _⟩ | ⟨tm', hf, _⟩
      · rw [hb1] at hr; simp at hr
      · rw [hf] at hr; simp at hr; rw [hk, hacc]; exact hr.1.symm
  · intro t ht ho
    obtain ⟨u, hu, rfl⟩ := List.mem_map.mp ht
    rw [unownOne_owned] at ho
    simp only [unownOne_dropped, unownOne_id]
    cases hcb : batch.contains u.id with
    | true =>
      exact Or.inr ⟨cl', self_mem_set hc, by rw [hre]; exact List.mem_append_right _ (by simpa using hcb)⟩
    | false =>
      rw [hcb] at ho
      rcases h.accounted u hu (by simpa using ho) with h1 | ⟨c0, hc0, h1⟩
      · exact Or.inl h1
      · rcases mem_set_transfer (cl' := cl') hc hc0 with h2 | rfl
        · exact Or.inr ⟨c0, h2, h1⟩
        · exact Or.inr ⟨cl', self_mem_set hc, by rw [hre]; exact List.mem_append_left _ h1⟩
  · intro ha x hx r tm n hr
    simp only [List.length_map]
    rcases List.mem_or_eq_of_mem_set hx with hx | rfl
    · obtain ⟨hn, hall⟩ := h.quiet ha x hx r tm n hr
      refine ⟨hn, ?_⟩
      intro t ht hid
      obtain ⟨u, hu, rfl⟩ := List.mem_map.mp ht
      simpa using hall u hu (by simpa using hid)
    · rcases hst' with ⟨b', hb1, _⟩ | ⟨tm', hf, hall⟩
      · rw [hb1] at hr; simp at hr
      · rw [hf] at hr; simp at hr; obtain ⟨_, _, rfl⟩ := hr
        exact ⟨Nat.le_refl _, fun t ht _ => hT1.unownedDone t ht (hall ha t ht)⟩

end Actor
