/-
Step semantics AFTER the fixes `fixes/C13-minmax-nan.patch` and `fixes/C13-zero-division.patch` (serves C13 only):
every step is total, NaN-strict in both operands, and a zero divisor yields NaN.  These lemmas do NOT hold for the
pinned bodies (`max(x, nan) = x`, `x / 0` raises) — on the pinned tree this file does not compile, which is what
sends C13 to the failing-input search.
-/
import Frequenz.Lemmas.FormulaSteps

namespace Formula

open Extracted.Formula

set_option linter.unusedSimpArgs false

/-- NaN-strict lifting of the rational operations; an undefined result is NaN. -/
def binSpec (o : BinOp) : V → V → V
  | some x, some y => binQ o x y
  | _, _ => none

def unSpec (u : UnOp) : V → V
  | some x => some (unQ u x)
  | none => none

theorem binVal_spec (o : BinOp) (a b : V) : binVal o a b = .ok (binSpec o a b) := by
  cases a with
  | none =>
    cases b with
    | none =>
      cases o <;> pyf_simp [binSpec]
    | some y =>
      cases o <;> pyf_simp [binSpec] <;>
        (by_cases h : y = 0
         · subst h; pyf_simp
         · have h' : ¬ (0 : Rat) = y := fun e => h e.symm
           pyf_simp [h, h'])
  | some x =>
    cases b with
    | none =>
      cases o <;> pyf_simp [binSpec]
    | some y =>
      cases hq : binQ o x y with
      | some q => simpa [binSpec, hq] using binVal_some o x y q hq
      | none =>
        cases o <;> simp [binQ] at hq
        subst hq
        pyf_simp [binSpec, binQ]

theorem unVal_spec (u : UnOp) (a : V) : unVal u a = .ok (unSpec u a) := by
  cases a with
  | some x => simpa [unSpec] using unVal_some u x
  | none =>
    cases u <;> pyf_simp [unSpec]

/-- Clipping a rational to the optional bounds (lower bound first, as `Clipper.apply` does). -/
def clampQ (lo hi : Option Rat) (x : Rat) : Rat :=
  let y := match lo with | some l => max x l | none => x
  match hi with | some h => min y h | none => y

/-- NaN-strict clip. -/
def clipSpec (lo hi : Option Rat) : V → V
  | some x => some (clampQ lo hi x)
  | none => none

/-- `Clipper.apply` never raises, propagates NaN whatever bounds are configured, and clips finite values. -/
theorem clipVal_spec (lo hi : Option Rat) (a : V) : clipVal lo hi a = .ok (clipSpec lo hi a) := by
  cases a <;> cases lo <;> cases hi <;>
    pyf_simp [clipSpec, clampQ] <;> grind

/-- The value of the tree under the strict semantics. -/
def specEval (zf : Nat → Bool) (env : Env) : Ast → V
  | .metric n => fetch (zf n) (env n)
  | .const c => some c
  | .bin o l r => binSpec o (specEval zf env l) (specEval zf env r)
  | .un u a => unSpec u (specEval zf env a)

theorem evalAst_spec (zf : Nat → Bool) (env : Env) (a : Ast) : evalAst zf env a = .ok (specEval zf env a) := by
  induction a with
  | metric n => rfl
  | const c => rfl
  | bin o l r ihl ihr => simp only [evalAst, ihl, ihr, specEval]; exact binVal_spec o _ _
  | un u a ih => simp only [evalAst, ih, specEval]; exact unVal_spec u _

theorem missingNeeded_bin (zf : Nat → Bool) (env : Env) (o : BinOp) (l r : Ast) :
    missingNeeded zf env (.bin o l r) = (missingNeeded zf env l || missingNeeded zf env r) := by
  simp [missingNeeded, Ast.ids, List.any_append]

theorem missingNeeded_un (zf : Nat → Bool) (env : Env) (u : UnOp) (a : Ast) :
    missingNeeded zf env (.un u a) = missingNeeded zf env a := rfl

theorem specEval_expected (zf : Nat → Bool) (env : Env) (a : Ast) : specEval zf env a = expected zf env a := by
  induction a with
  | metric n =>
    simp only [specEval, expected, missingNeeded, Ast.ids, evalQ, zeroed, List.any_cons, List.any_nil, Bool.or_false]
    cases h : env n <;> cases hz : zf n <;> simp [fetch, Inp.missing]
  | const c => simp [specEval, expected, missingNeeded, Ast.ids, evalQ]
  | bin o l r ihl ihr =>
    simp only [specEval, ihl, ihr]
    unfold expected
    rw [missingNeeded_bin]
    simp only [evalQ]
    cases missingNeeded zf env l <;> cases missingNeeded zf env r <;>
      cases evalQ (zeroed env) l <;> cases evalQ (zeroed env) r <;> simp [binSpec]
  | un u a ih =>
    simp only [specEval, ih]
    unfold expected
    rw [missingNeeded_un]
    simp only [evalQ]
    cases missingNeeded zf env a <;> cases evalQ (zeroed env) a <;> simp [unSpec]

/-- After the fixes: the tree always evaluates (no exception), to exactly what C13 demands. -/
theorem evalAst_expected (zf : Nat → Bool) (env : Env) (a : Ast) : evalAst zf env a = .ok (expected zf env a) := by
  rw [evalAst_spec, specEval_expected]

end Formula
