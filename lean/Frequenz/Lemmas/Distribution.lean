/-
Lemmas about the stages of the battery distribution model (`Frequenz.Model.Distribution`): tolerance tests,
the reservation loop, the deficit-covering loop, adding the excesses, the greedy top-up and the per-inverter
split.  The proofs unfold the definitions generated from the Python source (`Extracted.Dist.*`), so an edit
of a formula or comparison there breaks them.   Serves C01, C02.
-/
import Frequenz.Model.Distribution
import Mathlib.Tactic.SplitIfs
open Dist Extracted.Dist

namespace DistLemmas

/-- What the reservation loop stores for one group. -/
def EntryInit (en : Entry) : Prop :=
  (en.active = false ∧ en.ub = 0 ∧ en.base = 0 ∧ en.dInc = 0 ∧ en.exc = none ∧ en.dfc = none) ∨
  (en.active = true ∧ en.ub = en.it.ub ∧ en.base = en.it.minP ∧ en.dInc = en.it.minP ∧
    ((∃ e, en.exc = some e ∧ en.dfc = none ∧ e ≤ en.it.ub - en.it.minP ∧ (en.it.minP ≤ en.it.ub → 0 ≤ e)) ∨
     (∃ d, en.dfc = some d ∧ en.exc = none)) ∧
    (en.it.ratio = 0 → en.it.minP = 0 → 0 ≤ en.it.ub → en.exc = some 0))

theorem tailEntry_init (it : Item) : EntryInit (tailEntry it) := by
  left; simp [tailEntry]

/-- entry of a group that takes part in the distribution -/
def actE (it : Item) (exc dfc : Option Rat) : Entry := ⟨it, true, it.ub, it.minP, it.minP, exc, dfc⟩

theorem mkEntry_cases (it : Item) (c : Rat) :
    (c > it.ub ∧ mkEntry it c = actE it (some (it.ub - it.minP)) none) ∨
    (¬ c > it.ub ∧ c < it.minP ∧ mkEntry it c = actE it none (some (c - it.minP))) ∨
    (¬ c > it.ub ∧ ¬ c < it.minP ∧ mkEntry it c = actE it (some (c - it.minP)) none) := by
  unfold mkEntry overIncl underMin entryUpper entryPower distributedInc excessOver excessIn deficitOf actE
  by_cases h1 : c > it.ub
  · left; exact ⟨h1, by simp only [h1, if_true]⟩
  · by_cases h2 : c < it.minP
    · right; left; exact ⟨h1, h2, by simp only [h1, h2, if_true, if_false]⟩
    · right; right; exact ⟨h1, h2, by simp only [h1, h2, if_false]⟩

theorem mkEntry_it (it : Item) (c : Rat) : (mkEntry it c).it = it := by
  rcases mkEntry_cases it c with ⟨_, h⟩ | ⟨_, _, h⟩ | ⟨_, _, h⟩ <;> rw [h] <;> rfl

theorem mkEntry_init (it : Item) (c : Rat) (hc : it.ratio = 0 → c = 0) : EntryInit (mkEntry it c) := by
  right
  rcases mkEntry_cases it c with ⟨h1, h⟩ | ⟨h1, h2, h⟩ | ⟨h1, h2, h⟩ <;> rw [h] <;>
    refine ⟨rfl, rfl, rfl, rfl, ?_, ?_⟩
  · exact Or.inl ⟨_, rfl, rfl, by simp only [actE]; grind, by simp only [actE]; grind⟩
  · intro hr hm hu; have := hc hr; simp only [actE] at *; grind
  · exact Or.inr ⟨_, rfl, rfl⟩
  · intro hr hm hu; have := hc hr; simp only [actE] at *; grind
  · exact Or.inl ⟨_, rfl, rfl, by simp only [actE]; grind, by simp only [actE]; grind⟩
  · intro hr hm hu; have := hc hr; simp only [actE] at *; subst this; simp only [hm]; grind

theorem calcPower_zero (a r : Rat) : calcPower a 0 r = 0 := by
  unfold calcPower; grind

theorem reserve_init (P S : Rat) : ∀ (its : List Item) (R U ρ : Rat), ∀ en ∈ reserve P S R U ρ its, EntryInit en := by
  intro its
  induction its with
  | nil => intro R U ρ en h; simp [reserve] at h
  | cons it rest ih =>
    intro R U ρ en h
    unfold reserve at h
    split_ifs at h with ht
    · rcases List.mem_cons.mp h with h | h
      · subst h; exact tailEntry_init it
      · exact ih _ _ _ en h
    · rcases List.mem_cons.mp h with h | h
      · subst h; apply mkEntry_init; intro hr; rw [hr]; exact calcPower_zero _ _
      · exact ih _ _ _ en h

theorem reserve_its (P S : Rat) : ∀ (its : List Item) (R U ρ : Rat), (reserve P S R U ρ its).map (·.it) = its := by
  intro its
  induction its with
  | nil => intro R U ρ; simp [reserve]
  | cons it rest ih =>
    intro R U ρ
    unfold reserve
    split_ifs with ht
    · simp [tailEntry, ih]
    · simp [mkEntry_it, ih]


theorem absR_nonneg (v : Rat) : 0 ≤ absR v := by unfold absR; split_ifs <;> grind
theorem absR_le (v t : Rat) : absR v ≤ t ↔ (-t ≤ v ∧ v ≤ t) := by unfold absR; split_ifs <;> grind

theorem close_iff (v : Rat) : isCloseToZero v ↔ (-closeTol ≤ v ∧ v ≤ closeTol) := by
  have h0 : absR 0 = 0 := by unfold absR; simp
  have hv := absR_nonneg v
  have hle := absR_le v closeTol
  unfold isCloseToZero mathIsClose rmax relTol
  rw [h0, show v - 0 = v by grind]
  unfold closeTol at *
  split_ifs <;> grind

theorem sumL_cons (x : Rat) (l : List Rat) : sumL (x :: l) = x + sumL l := rfl
theorem sumL_nil : sumL [] = 0 := rfl
theorem sumL_append (a b : List Rat) : sumL (a ++ b) = sumL a + sumL b := by
  induction a with
  | nil => simp only [List.nil_append, sumL_nil]; grind
  | cons x xs ih => simp only [List.cons_append, sumL_cons, ih]; grind

/-- pointwise relation of two lists (core has no `List.Forall₂`) -/
inductive All2 {α β : Type} (R : α → β → Prop) : List α → List β → Prop
  | nil : All2 R [] []
  | cons {a b l₁ l₂} : R a b → All2 R l₁ l₂ → All2 R (a :: l₁) (b :: l₂)

theorem All2.mem_right {α β : Type} {R : α → β → Prop} : ∀ {xs : List α} {ys : List β}, All2 R xs ys →
    ∀ y ∈ ys, ∃ x ∈ xs, R x y
  | _, _, .nil, y, h => by simp at h
  | _, _, .cons h t, y, hy => by
    rcases List.mem_cons.mp hy with rfl | hy
    · exact ⟨_, List.mem_cons_self, h⟩
    · obtain ⟨x, hx, hr⟩ := t.mem_right y hy
      exact ⟨x, List.mem_cons_of_mem _ hx, hr⟩

theorem All2.map_eq {α β γ : Type} {R : α → β → Prop} (f : α → γ) (g : β → γ) (h : ∀ x y, R x y → f x = g y) :
    ∀ {xs : List α} {ys : List β}, All2 R xs ys → xs.map f = ys.map g
  | _, _, .nil => rfl
  | _, _, .cons h1 t => by simp only [List.map_cons, h _ _ h1, t.map_eq f g h]

theorem All2.length_eq {α β : Type} {R : α → β → Prop} : ∀ {xs : List α} {ys : List β}, All2 R xs ys →
    xs.length = ys.length
  | _, _, .nil => rfl
  | _, _, .cons _ t => by simp only [List.length_cons, t.length_eq]

/-- How the covering loop may change one excess value (`a` = the isclose shortcut was taken). -/
def ExcRel (a : Bool) : Option Rat → Option Rat → Prop
  | none, none => True
  | some x, some y => y ≤ x ∧ (x = 0 → y = 0) ∧ (a = false → 0 ≤ x → 0 ≤ y)
  | _, _ => False

def EnRel (a : Bool) (e e' : Entry) : Prop :=
  e'.it = e.it ∧ e'.active = e.active ∧ e'.ub = e.ub ∧ e'.base = e.base ∧ e'.dInc = e.dInc ∧ e'.dfc = e.dfc ∧
  ExcRel a e.exc e'.exc

theorem ExcRel.refl (a : Bool) (x : Option Rat) : ExcRel a x x := by
  cases x with
  | none => trivial
  | some x => exact ⟨by grind, fun h => h, fun _ h => h⟩

theorem EnRel.refl (a : Bool) (e : Entry) : EnRel a e e := ⟨rfl, rfl, rfl, rfl, rfl, rfl, ExcRel.refl a _⟩

theorem ExcRel.trans {a b : Bool} (hab : a = true → b = true) {x y z : Option Rat}
    (h1 : ExcRel a x y) (h2 : ExcRel b y z) : ExcRel b x z := by
  cases x <;> cases y <;> cases z <;> simp only [ExcRel] at * <;> try trivial
  obtain ⟨h11, h12, h13⟩ := h1
  obtain ⟨h21, h22, h23⟩ := h2
  refine ⟨by grind, fun h => h22 (h12 h), fun hb hx => h23 hb (h13 ?_ hx)⟩
  cases a <;> simp_all

theorem EnRel.trans {a b : Bool} (hab : a = true → b = true) {x y z : Entry}
    (h1 : EnRel a x y) (h2 : EnRel b y z) : EnRel b x z := by
  obtain ⟨a1, a2, a3, a4, a5, a6, a7⟩ := h1
  obtain ⟨b1, b2, b3, b4, b5, b6, b7⟩ := h2
  exact ⟨b1.trans a1, b2.trans a2, b3.trans a3, b4.trans a4, b5.trans a5, b6.trans a6, ExcRel.trans hab a7 b7⟩

theorem forall2_refl (a : Bool) : ∀ es : List Entry, All2 (EnRel a) es es
  | [] => .nil
  | e :: es => .cons (EnRel.refl a e) (forall2_refl a es)

theorem forall2_trans {a b : Bool} (hab : a = true → b = true) :
    ∀ {xs ys zs : List Entry}, All2 (EnRel a) xs ys → All2 (EnRel b) ys zs →
      All2 (EnRel b) xs zs
  | _, _, _, .nil, .nil => .nil
  | _, _, _, .cons h1 t1, .cons h2 t2 => .cons (EnRel.trans hab h1 h2) (forall2_trans hab t1 t2)

theorem setFirst_rel (a : Bool) (lp v : Rat) (h0 : lp ≠ 0) (hv : v ≤ lp) (ha : a = false → 0 ≤ v) :
    ∀ es : List Entry, All2 (EnRel a) es (setFirst lp v es)
  | [] => .nil
  | e :: es => by
    unfold setFirst
    split_ifs with h
    · refine .cons ⟨rfl, rfl, rfl, rfl, rfl, rfl, ?_⟩ (forall2_refl a es)
      rw [h]; exact ⟨hv, fun h' => absurd h' h0, fun h' _ => ha h'⟩
    · exact .cons (EnRel.refl a e) (setFirst_rel a lp v h0 hv ha es)

theorem close_zero : isCloseToZero 0 := by
  unfold isCloseToZero mathIsClose rmax absR relTol closeTol; decide +kernel

theorem coverLoop_rel : ∀ (n : Nat) (es : List Entry) (d : Rat) (a : Bool),
    (a = true → (coverLoop n es d a).2.2 = true) ∧
    All2 (EnRel (coverLoop n es d a).2.2) es (coverLoop n es d a).1 := by
  intro n
  induction n with
  | zero => intro es d a; exact ⟨fun h => h, forall2_refl _ _⟩
  | succ n ih =>
    intro es d a
    unfold coverLoop
    split_ifs with hc
    · cases hm : maxExc es with
      | none => exact ⟨fun h => h, forall2_refl _ _⟩
      | some lp =>
        simp only []
        split_ifs with hs hcov
        · exact ⟨fun h => h, forall2_refl _ _⟩
        · refine ⟨fun h => by simp [h], ?_⟩
          have hd : d < 0 := hc.2
          have hlp : ¬ lp < 0 := fun h => hs (Or.inr h)
          have h0 : lp ≠ 0 := fun h => hs (Or.inl (h ▸ close_zero))
          apply setFirst_rel _ _ _ h0
          · unfold coverExcess; grind
          · intro ha; simp only [Bool.or_eq_false_iff, decide_eq_false_iff_not] at ha; unfold coverExcess; grind
        · have hlp : ¬ lp < 0 := fun h => hs (Or.inr h)
          have h0 : lp ≠ 0 := fun h => hs (Or.inl (h ▸ close_zero))
          obtain ⟨i1, i2⟩ := ih (setFirst lp partialExcess es) (partialDeficit d lp) a
          refine ⟨i1, forall2_trans (fun h => h) ?_ i2⟩
          apply setFirst_rel _ _ _ h0
          · unfold partialExcess; grind
          · intro _; unfold partialExcess; grind
    · exact ⟨fun h => h, forall2_refl _ _⟩


/-! ### the fuel of the covering loop is never exhausted -/

/-- number of excess entries the covering loop can still consume -/
def liveCount : List Entry → Nat
  | [] => 0
  | e :: es => (match e.exc with
      | some x => if largestStop x then 0 else 1
      | none => 0) + liveCount es

theorem largestStop_zero : largestStop 0 := Or.inl close_zero

theorem liveCount_setFirst (lp : Rat) (hs : ¬ largestStop lp) : ∀ es : List Entry, maxExc es = some lp →
    liveCount (setFirst lp partialExcess es) + 1 = liveCount es
  | [], h => by simp [maxExc] at h
  | e :: es, h => by
    unfold maxExc at h
    unfold setFirst
    cases hx : e.exc with
    | none =>
      rw [hx] at h
      simp only [reduceCtorEq, if_false, liveCount, hx]
      have := liveCount_setFirst lp hs es h
      omega
    | some x =>
      rw [hx] at h
      by_cases hxl : x = lp
      · subst hxl
        simp only [if_true, liveCount, hx, hs, if_false, partialExcess, largestStop_zero]
        omega
      · have hne : ¬ (some x = some lp) := fun h' => hxl (Option.some.inj h')
        simp only [hne, if_false, liveCount, hx]
        cases hm : maxExc es with
        | none => rw [hm] at h; exact absurd (Option.some.inj h) hxl
        | some y =>
          rw [hm] at h
          have hp : pyMax x y = lp := Option.some.inj h
          have hy : y = lp := by
            unfold pyMax at hp; split_ifs at hp
            · exact hp
            · exact absurd hp hxl
          have := liveCount_setFirst lp hs es (hy ▸ hm)
          omega

theorem coverLoop_stable : ∀ (n : Nat) (es : List Entry) (d : Rat) (a : Bool), liveCount es < n →
    coverLoop (n + 1) es d a = coverLoop n es d a := by
  intro n
  induction n with
  | zero => intro es d a h; omega
  | succ k ih =>
    intro es d a h
    rw [coverLoop, coverLoop]
    split_ifs with hc
    · cases hm : maxExc es with
      | none => rfl
      | some lp =>
        simp only []
        split_ifs with hs hcov
        · rfl
        · rfl
        · apply ih
          have := liveCount_setFirst lp hs es hm
          omega
    · rfl

theorem liveCount_le : ∀ es : List Entry, liveCount es ≤ es.length
  | [] => Nat.le_refl _
  | e :: es => by
    have := liveCount_le es
    simp only [liveCount, List.length_cons]
    cases e.exc with
    | none => simp only []; omega
    | some x => simp only []; split_ifs <;> omega

/-- The fuel `length + 1` the model gives to the `while` loop is never exhausted: more fuel changes nothing. -/
theorem coverLoop_fuel (es : List Entry) (d : Rat) (a : Bool) : ∀ m : Nat,
    coverLoop (es.length + 1 + m) es d a = coverLoop (es.length + 1) es d a
  | 0 => rfl
  | m + 1 => by
    have := liveCount_le es
    rw [← coverLoop_fuel es d a m]
    have h2 : liveCount es < es.length + 1 + m := by omega
    exact coverLoop_stable (es.length + 1 + m) es d a h2

/-- Invariant of the loop over the deficits, relative to the entries `es0` the reservation loop produced. -/
def CSInv (es0 : List Entry) (cs : CS) : Prop :=
  All2 (EnRel cs.approx) es0 cs.es ∧ cs.D = sumL (es0.map (·.dInc)) + sumL cs.adjs

theorem coverOne_inv (P : Rat) (es0 : List Entry) (s : CS) (d0 : Rat) (h : CSInv es0 s) :
    CSInv es0 (coverOne P s d0) ∧ (s.approx = true → (coverOne P s d0).approx = true) := by
  obtain ⟨m, rel⟩ := coverLoop_rel (s.es.length + 1) s.es d0 s.approx
  have hrel := forall2_trans m h.1 rel
  have hD := h.2
  unfold coverOne
  simp only []
  split_ifs <;> refine ⟨⟨hrel, ?_⟩, m⟩ <;> simp only [sumL_append, sumL_cons, sumL_nil] <;> grind

theorem cover_fold_inv (P : Rat) (es0 : List Entry) : ∀ (ds : List Rat) (s : CS), CSInv es0 s →
    CSInv es0 (ds.foldl (coverOne P) s)
  | [], _, h => h
  | d :: ds, s, h => cover_fold_inv P es0 ds _ (coverOne_inv P es0 s d h).1

theorem cover_inv (P : Rat) (es : List Entry) : CSInv es (cover P es) := by
  unfold cover
  apply cover_fold_inv
  exact ⟨forall2_refl _ _, by simp only [sumL_nil]; grind⟩


/-! ## slots, greedy top-up -/

theorem excessTotal_nil : excessTotal [] = 0 := rfl
theorem excessTotal_cons (e : Entry) (es : List Entry) :
    excessTotal (e :: es) = (match e.exc with | none => 0 | some x => x) + excessTotal es := by
  unfold excessTotal
  cases h : e.exc with
  | none => simp only [List.filterMap_cons, h]; grind
  | some x => simp only [List.filterMap_cons, h, List.map_cons, sumL_cons, excessDistributedInc]

theorem slotOf_p (e : Entry) : (slotOf e).p = e.base + (match e.exc with | none => 0 | some x => x) := by
  unfold slotOf; cases e.exc with
  | none => simp only []; grind
  | some x => simp only [excessPowerInc]

theorem slot_sum : ∀ es : List Entry,
    sumL ((es.map slotOf).map (·.p)) = sumL (es.map (·.base)) + excessTotal es
  | [] => by simp only [List.map_nil, excessTotal_nil, sumL_nil]; grind
  | e :: es => by
    have ih := slot_sum es
    simp only [List.map_cons, sumL_cons, excessTotal_cons, slotOf_p]
    grind

theorem greedyGo_nil (rem : Rat) : greedyGo rem [] = ([], rem) := rfl
theorem greedyGo_cons (rem : Rat) (s : Slot) (ss : List Slot) :
    greedyGo rem (s :: ss) =
      if greedySkip rem s.p then (s :: (greedyGo rem ss).1, (greedyGo rem ss).2)
      else ({ s with p := s.p + greedyAdd s.ub s.p rem } :: (greedyGo (rem - greedyAdd s.ub s.p rem) ss).1,
            (greedyGo (rem - greedyAdd s.ub s.p rem) ss).2) := by
  rw [greedyGo]; rfl

/-- What the greedy step may do to one slot. -/
def GRel (s s' : Slot) : Prop :=
  s'.en = s.en ∧ s'.ub = s.ub ∧ (s.p ≤ s.ub → s'.p ≤ s.ub) ∧ (isCloseToZero s.p → s'.p = s.p)

theorem greedyAdd_le (ub p rem : Rat) : greedyAdd ub p rem ≤ ub - p ∧ greedyAdd ub p rem ≤ rem := by
  simp only [greedyAdd, pyMin]; split_ifs <;> grind

theorem greedyAdd_nonneg (ub p rem : Rat) (h1 : p ≤ ub) (h2 : 0 ≤ rem) : 0 ≤ greedyAdd ub p rem := by
  simp only [greedyAdd, pyMin]; split_ifs <;> grind

/-- The skip condition, whatever the order / polarity the source writes it in. -/
theorem greedySkip_iff (rem p : Rat) : greedySkip rem p ↔ (isCloseToZero rem ∨ isCloseToZero p) := by
  unfold greedySkip
  by_cases h1 : isCloseToZero rem <;> by_cases h2 : isCloseToZero p <;> simp [h1, h2]

theorem greedyGo_rel : ∀ (ss : List Slot) (rem : Rat), All2 GRel ss (greedyGo rem ss).1
  | [], _ => .nil
  | s :: ss, rem => by
    rw [greedyGo_cons]
    split_ifs with h
    · exact .cons ⟨rfl, rfl, fun h => h, fun _ => rfl⟩ (greedyGo_rel ss _)
    · refine .cons ⟨rfl, rfl, ?_, ?_⟩ (greedyGo_rel ss _)
      · intro hp; have := greedyAdd_le s.ub s.p rem; simp only []; grind
      · intro hc; exact absurd ((greedySkip_iff _ _).2 (Or.inr hc)) h

theorem greedyGo_sum : ∀ (ss : List Slot) (rem : Rat),
    sumL ((greedyGo rem ss).1.map (·.p)) + (greedyGo rem ss).2 = sumL (ss.map (·.p)) + rem
  | [], _ => by simp [greedyGo_nil]
  | s :: ss, rem => by
    rw [greedyGo_cons]
    split_ifs with h
    · have := greedyGo_sum ss rem
      simp only [List.map_cons, sumL_cons]; grind
    · have := greedyGo_sum ss (rem - greedyAdd s.ub s.p rem)
      simp only [List.map_cons, sumL_cons] at *; grind

theorem greedyGo_mono : ∀ (ss : List Slot) (rem : Rat), 0 ≤ rem → (∀ s ∈ ss, s.p ≤ s.ub) →
    All2 (fun s s' : Slot => s.p ≤ s'.p) ss (greedyGo rem ss).1 ∧ 0 ≤ (greedyGo rem ss).2 ∧ (greedyGo rem ss).2 ≤ rem
  | [], rem, h, _ => ⟨.nil, by simpa [greedyGo_nil] using h, by simp only [greedyGo_nil]; grind⟩
  | s :: ss, rem, h, hs => by
    have hsp := hs s List.mem_cons_self
    have hss : ∀ s' ∈ ss, s'.p ≤ s'.ub := fun s' h' => hs s' (List.mem_cons_of_mem _ h')
    rw [greedyGo_cons]
    split_ifs with hk
    · obtain ⟨a, b, c⟩ := greedyGo_mono ss rem h hss
      exact ⟨.cons (by grind) a, b, c⟩
    · have h1 := greedyAdd_le s.ub s.p rem
      have h2 := greedyAdd_nonneg s.ub s.p rem hsp h
      obtain ⟨a, b, c⟩ := greedyGo_mono ss (rem - greedyAdd s.ub s.p rem) (by grind) hss
      exact ⟨.cons (by simp only []; grind) a, b, by simp only []; grind⟩


/-! ## per-inverter split -/

theorem splitGo_nil (rem : Rat) : splitGo rem [] = ([], rem) := rfl
theorem splitGo_cons (rem : Rat) (ib : IB) (ibs : List IB) :
    splitGo rem (ib :: ibs) =
      if splitTake rem ib.excl then
        ((ib, splitPower ib.incl rem) :: (splitGo (rem - splitPower ib.incl rem) ibs).1,
          (splitGo (rem - splitPower ib.incl rem) ibs).2)
      else ((ib, 0) :: (splitGo rem ibs).1, (splitGo rem ibs).2) := by
  rw [splitGo]; rfl

theorem splitPower_le (incl rem : Rat) : splitPower incl rem ≤ incl ∧ splitPower incl rem ≤ rem ∧
    (splitPower incl rem = incl ∨ splitPower incl rem = rem) := by
  simp only [splitPower, pyMin]; split_ifs <;> grind

theorem splitGo_fst : ∀ (ibs : List IB) (rem : Rat), (splitGo rem ibs).1.map (·.1) = ibs
  | [], _ => rfl
  | ib :: ibs, rem => by
    rw [splitGo_cons]; split_ifs <;> simp only [List.map_cons, splitGo_fst ibs]

theorem splitGo_sum : ∀ (ibs : List IB) (rem : Rat),
    sumL ((splitGo rem ibs).1.map (·.2)) + (splitGo rem ibs).2 = rem
  | [], rem => by simp only [splitGo_nil, List.map_nil, sumL_nil]; grind
  | ib :: ibs, rem => by
    rw [splitGo_cons]
    split_ifs
    · have := splitGo_sum ibs (rem - splitPower ib.incl rem)
      simp only [List.map_cons, sumL_cons]; grind
    · have := splitGo_sum ibs rem
      simp only [List.map_cons, sumL_cons]; grind

/-- every set-point of the split is zero or at most the (clipped) inclusion bound -/
theorem splitGo_upper : ∀ (ibs : List IB) (rem : Rat), ∀ x ∈ (splitGo rem ibs).1, x.2 = 0 ∨ x.2 ≤ x.1.incl
  | [], _, x, h => by simp [splitGo_nil] at h
  | ib :: ibs, rem, x, h => by
    rw [splitGo_cons] at h
    split_ifs at h
    · rcases List.mem_cons.mp h with rfl | h
      · exact Or.inr (splitPower_le _ _).1
      · exact splitGo_upper ibs _ x h
    · rcases List.mem_cons.mp h with rfl | h
      · exact Or.inl rfl
      · exact splitGo_upper ibs _ x h

/-- with `rem ≤ B` (the battery inclusion bound) every non-zero set-point is inside `[excl, incl]` -/
theorem splitGo_bounds (B : Rat) : ∀ (ibs : List IB) (rem : Rat),
    (∀ ib ∈ ibs, 0 ≤ ib.excl ∧ (ib.excl ≤ ib.incl ∨ ib.incl = B)) → rem ≤ B →
    ∀ x ∈ (splitGo rem ibs).1, x.2 = 0 ∨ (x.1.excl ≤ x.2 ∧ x.2 ≤ x.1.incl)
  | [], _, _, _, x, h => by simp [splitGo_nil] at h
  | ib :: ibs, rem, hw, hB, x, h => by
    have hib := hw ib List.mem_cons_self
    have hw' : ∀ ib' ∈ ibs, 0 ≤ ib'.excl ∧ (ib'.excl ≤ ib'.incl ∨ ib'.incl = B) :=
      fun ib' h' => hw ib' (List.mem_cons_of_mem _ h')
    rw [splitGo_cons] at h
    split_ifs at h with ht
    · have hp := splitPower_le ib.incl rem
      have hex : ib.excl ≤ rem := ht.2
      rcases List.mem_cons.mp h with rfl | h
      · right; simp only []; grind
      · exact splitGo_bounds B ibs _ hw' (by grind) x h
    · rcases List.mem_cons.mp h with rfl | h
      · exact Or.inl rfl
      · exact splitGo_bounds B ibs _ hw' hB x h

theorem splitGo_residual : ∀ (ibs : List IB) (rem : Rat), (∀ ib ∈ ibs, 0 ≤ ib.excl) →
    (0 ≤ rem → 0 ≤ (splitGo rem ibs).2) ∧ (rem < 0 → (splitGo rem ibs).2 = rem)
  | [], rem, _ => by simp only [splitGo_nil]; grind
  | ib :: ibs, rem, hw => by
    have hib := hw ib List.mem_cons_self
    have hw' : ∀ ib' ∈ ibs, 0 ≤ ib'.excl := fun ib' h' => hw ib' (List.mem_cons_of_mem _ h')
    rw [splitGo_cons]
    split_ifs with ht
    · have hp := splitPower_le ib.incl rem
      have hex : ib.excl ≤ rem := ht.2
      have ih := splitGo_residual ibs (rem - splitPower ib.incl rem) hw'
      simp only []; grind
    · exact splitGo_residual ibs rem hw'

theorem splitGo_zero : ∀ (ibs : List IB) (rem : Rat), isCloseToZero rem → ∀ x ∈ (splitGo rem ibs).1, x.2 = 0
  | [], _, _, x, h => by simp [splitGo_nil] at h
  | ib :: ibs, rem, hc, x, h => by
    rw [splitGo_cons] at h
    have ht : ¬ splitTake rem ib.excl := fun ht => ht.1 hc
    simp only [ht, if_false] at h
    rcases List.mem_cons.mp h with rfl | h
    · rfl
    · exact splitGo_zero ibs rem hc x h


end DistLemmas
