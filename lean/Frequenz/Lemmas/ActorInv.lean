/-
C10 — the global invariant of the service machine and its preservation by every event.
-/
import Frequenz.Lemmas.ActorCall

namespace Actor

structure Inv (s : Svc) : Prop where
  t : TInv s.limit s.tasks
  c : CInv s.mode s.tasks s.callers

theorem Inv_init (m : Mode) (lim : Option Nat) : Inv (Svc.init m lim) :=
  ⟨TInv_nil _, CInv_nil _⟩

theorem step_limit (s : Svc) (e : Event) : (s.step e).limit = s.limit := by
  cases e <;> simp only [Svc.step, Svc.start, Svc.call, Svc.wake] <;> (repeat' split) <;> rfl

theorem step_mode (s : Svc) (e : Event) : (s.step e).mode = s.mode := by
  cases e <;> simp only [Svc.step, Svc.start, Svc.call, Svc.wake] <;> (repeat' split) <;> rfl

theorem ownedIds_lt {lim : Option Nat} {ts : List Tsk} (hT : TInv lim ts) : ∀ i ∈ ownedIds ts, i < ts.length := by
  intro i hi
  unfold ownedIds at hi
  obtain ⟨t, ht, rfl⟩ := List.mem_map.mp hi
  exact hT.idLt t (List.mem_filter.mp ht).1

theorem any_owned_false {ts : List Tsk} (h : ts.any (·.owned) = false) : ∀ t ∈ ts, t.owned = false := by
  intro t ht
  have := (List.any_eq_false.mp h) t ht
  simpa using this

/-- What has to be shown for one event: the invariants, stated with the old `limit`/`mode`. -/
def Inv' (s s' : Svc) : Prop := TInv s.limit s'.tasks ∧ CInv s.mode s'.tasks s'.callers

theorem TInv_cancelAll {lim : Option Nat} {ts : List Tsk} (h : TInv lim ts) : TInv lim (cancelAll ts) := by
  rw [cancelAll_eq]; exact TInv_step (now := 0) (.cancel ts) h

theorem CInv_cancelAll {m : Mode} {ts : List Tsk} {cs : List Caller} (h : CInv m ts cs) :
    CInv m (cancelAll ts) cs := by
  rw [cancelAll_eq]
  have := CInv_evolve cancelOne [] (fun u _ => Stable_cancelOne u) (by simp) h
  simpa using this

theorem Inv_start (s : Svc) (h : Inv s) : Inv' s s.start := by
  refine ⟨TInv_step (start_tasks s) h.t, ?_⟩
  unfold Svc.start
  split
  · exact h.c
  · simp only [clearOwned_eq]
    exact CInv_evolve clearOne _ (fun u _ => Stable_clearOne u) (by simp [newLoopTask]) h.c

theorem Inv_call (s : Svc) (k : CallKind) (h : Inv s) : Inv' s (s.call k) := by
  refine ⟨TInv_step (call_tasks s k) h.t, ?_⟩
  unfold Svc.call
  split
  · simp only []
    split
    · exact CInv_push k _ (TInv_cancelAll h.t) (CInv_cancelAll h.c)
        (Or.inl ⟨_, rfl, ownedIds_lt (TInv_cancelAll h.t)⟩)
    · exact CInv_push k _ h.t h.c (Or.inl ⟨_, rfl, ownedIds_lt h.t⟩)
  · rename_i hno
    simp only []
    exact CInv_push k _ h.t h.c (Or.inr ⟨_, rfl, any_owned_false (by simpa using hno)⟩)

theorem Inv_wake (s : Svc) (c : Nat) (h : Inv s) : Inv' s (s.wake c) := by
  refine ⟨TInv_step (wake_tasks s c) h.t, ?_⟩
  unfold Svc.wake
  split
  · exact h.c
  · rename_i cl hcl
    split
    · exact h.c
    · rename_i batch hbl
      split
      · rename_i hb
        simp only []
        have hT1 : TInv s.limit (unown batch s.tasks) := by
          rw [unown_eq]; exact TInv_step (now := s.now) (.unown _ _ hb) h.t
        have hlen1 : (unown batch s.tasks).length = s.tasks.length := by simp [unown_eq]
        split
        · -- another round
          simp only []
          split
          · have hlen : (cancelAll (unown batch s.tasks)).length = s.tasks.length := by
              simp [cancelAll_eq, unown_eq]
            have h1 := CInv_reap (now := s.now) h.t h.c hcl hbl hb
              { cl with st := .blocked (ownedIds (cancelAll (unown batch s.tasks))),
                        acc := cl.acc ++ errorsOf s.tasks batch, reaped := cl.reaped ++ batch }
              rfl rfl rfl
              (Or.inl ⟨_, rfl, fun i hi => by rw [← hlen]; exact ownedIds_lt (TInv_cancelAll hT1) i hi⟩)
            rw [← unown_eq] at h1
            exact CInv_cancelAll h1
          · have h1 := CInv_reap (now := s.now) h.t h.c hcl hbl hb
              { cl with st := .blocked (ownedIds (unown batch s.tasks)),
                        acc := cl.acc ++ errorsOf s.tasks batch, reaped := cl.reaped ++ batch }
              rfl rfl rfl (Or.inl ⟨_, rfl, fun i hi => by rw [← hlen1]; exact ownedIds_lt hT1 i hi⟩)
            rw [← unown_eq] at h1
            exact h1
        · rename_i hcond
          simp only []
          have h1 := CInv_reap (now := s.now) h.t h.c hcl hbl hb
            { cl with st := .finished (raisedOf cl.kind (cl.acc ++ errorsOf s.tasks batch)) s.now s.tasks.length,
                      acc := cl.acc ++ errorsOf s.tasks batch, reaped := cl.reaped ++ batch }
            rfl rfl rfl (Or.inr ⟨_, rfl, fun ha => by
              rw [← unown_eq]
              apply any_owned_false
              simp only [ha, Bool.true_or, Bool.and_true, Bool.not_eq_true] at hcond
              exact hcond⟩)
          rw [← unown_eq] at h1
          exact h1
      · exact h.c

theorem Inv_step' (s : Svc) (e : Event) (h : Inv s) : Inv' s (s.step e) := by
  cases e with
  | advance d => exact ⟨h.t, h.c⟩
  | start => exact Inv_start s h
  | cancel => exact ⟨TInv_cancelAll h.t, CInv_cancelAll h.c⟩
  | addTask =>
    refine ⟨TInv_step (step_tasks s .addTask) h.t, ?_⟩
    simp only [Svc.step]
    have := CInv_evolve id [newExtraTask s.tasks.length] (fun u _ => Stable_refl u) (by simp [newExtraTask]) h.c
    simpa using this
  | call k => exact Inv_call s k h
  | taskStep i r =>
    refine ⟨TInv_step (step_tasks s (.taskStep i r)) h.t, ?_⟩
    simp only [Svc.step]
    have := CInv_evolve (stepOne s.limit s.now i r) [] (fun u _ => Stable_stepOne _ _ _ _ u) (by simp) h.c
    rw [List.append_nil] at this
    exact this
  | wake c => exact Inv_wake s c h

theorem Inv_step (s : Svc) (e : Event) (h : Inv s) : Inv (s.step e) := by
  obtain ⟨h1, h2⟩ := Inv_step' s e h
  exact ⟨by rw [step_limit]; exact h1, by rw [step_mode]; exact h2⟩

theorem Inv_exec (s : Svc) (es : List Event) (h : Inv s) : Inv (s.exec es) := by
  induction es generalizing s with
  | nil => exact h
  | cons e es ih => exact ih (s.step e) (Inv_step s e h)

theorem exec_limit (s : Svc) (es : List Event) : (s.exec es).limit = s.limit := by
  induction es generalizing s with
  | nil => rfl
  | cons e es ih => exact (ih (s.step e)).trans (step_limit s e)

theorem exec_mode (s : Svc) (es : List Event) : (s.exec es).mode = s.mode := by
  induction es generalizing s with
  | nil => rfl
  | cons e es ih => exact (ih (s.step e)).trans (step_mode s e)

theorem cancelAll_post (ts : List Tsk) : ∀ t ∈ cancelAll ts, ownedLive t = true → t.cancelReq = true := by
  intro t ht ho
  rw [cancelAll_eq] at ht
  obtain ⟨u, _, rfl⟩ := List.mem_map.mp ht
  have : ownedLive u = true := by simpa [ownedLive] using ho
  simp [cancelOne, this]

end Actor
