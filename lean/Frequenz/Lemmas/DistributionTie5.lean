/-
"Model is source", part 5: `_total_capacity` and `_compute_battery_availability_ratio` (per-pair ratio, sorted inverter
ids, minimum power, the stable sort by `(min_power, ratio)` and the sum of the ratios) are the model's `itemsOf` /
`sortItems`.
-/
import Frequenz.Lemmas.DistributionTie4

namespace DistTie
open Dist Extracted.Dist
open Extracted.DistLoops (Dict dictGet dictSet mapAccumItems Power AvRatio DistResult Pair AggBat InvData PBounds
  sortByKey insertByKey keyLt)

/-- `inverter_ids.sort(key=lambda inv_id: (excl_bounds[inv_id], inv_id), reverse=True)` for the group of an item -/
def idsS (excl : Dict Int Rat) (it : Item) : List Int :=
  sortByKey (fun i => (dictGet excl i, ((i : Int) : Rat))) true (it.ng.raw.invs.map (·.id))

/-- what the source's dictionaries must answer for the groups `gs` -/
structure DictsOK (supply : Bool) (bid : Group → Int) (avail incl excl : Dict Int Rat) (gs : List Group) : Prop where
  avail : ∀ g ∈ gs, dictGet avail (bid g) = (normGroup supply g).avail
  batExcl : ∀ g ∈ gs, dictGet excl (bid g) = (normGroup supply g).batExcl
  batIncl : ∀ g ∈ gs, dictGet incl (bid g) = (normGroup supply g).batIncl
  invs : ∀ g ∈ gs, Lookups excl incl (normGroup supply g).invs

theorem normInv_raw (supply : Bool) (a : Agg) (i : Inv) : (normInv supply a i).raw = i := by
  unfold normInv; split <;> rfl

theorem normGroup_ids (supply : Bool) (g : Group) : idsOf (normGroup supply g).invs = g.invs.map (·.id) := by
  simp [idsOf, normGroup, List.map_map, Function.comp_def, normInv_raw]

theorem totalCap_eq_source (supply : Bool) (bid : Group → Int) (gs : List Group) :
    Extracted.DistLoops.totalCapacity (gs.map (pairOf bid)) =
      if isCloseToZero (totalCap (gs.map (normGroup supply))) then none else some (totalCap (gs.map (normGroup supply))) := by
  have h : ((gs.map (pairOf bid)).map fun x => x.battery.capacity) = (gs.map (normGroup supply)).map (·.agg.cap) := by
    simp [List.map_map, Function.comp_def, pairOf, normGroup]
  unfold Extracted.DistLoops.totalCapacity totalCap
  simp only [sumL_src, h]

/-- the record the source appends for one pair is the model's item -/
theorem item_eq_source (exponent : Nat) (supply : Bool) (bid : Group → Int) (avail incl excl : Dict Int Rat) (total : Rat)
    (g : Group) (hav : dictGet avail (bid g) = (normGroup supply g).avail)
    (hbe : dictGet excl (bid g) = (normGroup supply g).batExcl) (hl : Lookups excl incl (normGroup supply g).invs) :
    ({ battery_id := bid g
       inverter_ids := sortByKey (fun i => (dictGet excl i, ((i : Int) : Rat))) true (g.invs.map (·.id))
       ratio := (aggregate g.bats).cap / total * dictGet avail (bid g) ^ exponent
       min_power := pyMax (dictGet excl (bid g))
         (Extracted.DistLoops.minL ((sortByKey (fun i => (dictGet excl i, ((i : Int) : Rat))) true (g.invs.map (·.id))).map
           fun i => dictGet excl i)) } : AvRatio) =
      arOf (idsS excl) (fun it => bid it.ng.raw) (mkItem total exponent (normGroup supply g)) := by
  have hraw : (normGroup supply g).raw = g := rfl
  have hperm : ((sortByKey (fun i => (dictGet excl i, ((i : Int) : Rat))) true (g.invs.map (·.id))).map fun i => dictGet excl i).Perm
      ((normGroup supply g).invs.map (·.excl)) := by
    have h1 := (sortByKey_perm (fun i => (dictGet excl i, ((i : Int) : Rat))) true (g.invs.map (·.id))).map (fun i => dictGet excl i)
    have h2 : (g.invs.map (·.id)).map (fun i => dictGet excl i) = (normGroup supply g).invs.map (·.excl) := by
      rw [← normGroup_ids supply g, idsOf, List.map_map]
      exact List.map_congr_left fun ib hib => (hl ib hib).1
    rw [h2] at h1; exact h1
  simp only [arOf, mkItem, idsS, hraw, minPOf, minPower, ratioOf, capRatio, socFactor, minL_src, minL_perm hperm, hav, hbe]
  rfl

theorem ratio_loop (exponent : Nat) (supply : Bool) (bid : Group → Int) (avail incl excl : Dict Int Rat) (total : Rat)
    (gs : List Group) (hok : DictsOK supply bid avail incl excl gs) (acc : List AvRatio) (s0 : Rat) :
    List.foldl (Extracted.DistLoops.computeBatteryAvailabilityRatio_for1 exponent total avail excl) (acc, s0) (gs.map (pairOf bid)) =
      (acc ++ gs.map (fun g => arOf (idsS excl) (fun it => bid it.ng.raw) (mkItem total exponent (normGroup supply g))),
       s0 + sumL (gs.map fun g => (mkItem total exponent (normGroup supply g)).ratio)) := by
  induction gs generalizing acc s0 with
  | nil => simp [sumL, Rat.add_zero]
  | cons g gs ih =>
    have hok' : DictsOK supply bid avail incl excl gs :=
      ⟨fun x hx => hok.avail x (List.mem_cons_of_mem _ hx), fun x hx => hok.batExcl x (List.mem_cons_of_mem _ hx),
       fun x hx => hok.batIncl x (List.mem_cons_of_mem _ hx), fun x hx => hok.invs x (List.mem_cons_of_mem _ hx)⟩
    have hitem := item_eq_source exponent supply bid avail incl excl total g (hok.avail g (by simp)) (hok.batExcl g (by simp))
      (hok.invs g (by simp))
    have hids : ((pairOf bid g).inverter.map fun x => x.component_id) = g.invs.map (·.id) := by
      simp [pairOf, invDataOf, List.map_map, Function.comp_def]
    have hr : (aggregate g.bats).cap / total * dictGet avail (bid g) ^ exponent = (mkItem total exponent (normGroup supply g)).ratio := by
      simp only [mkItem, ratioOf, capRatio, socFactor, hok.avail g (by simp)]; rfl
    simp only [List.map_cons, List.foldl_cons, Extracted.DistLoops.computeBatteryAvailabilityRatio_for1, hids]
    simp only [show (pairOf bid g).battery.component_id = bid g from rfl,
      show (pairOf bid g).battery.capacity = (aggregate g.bats).cap from rfl, hitem]
    simp only [hr, sumL_cons, ih hok']
    simp only [List.append_assoc, List.singleton_append, Rat.add_assoc]

/-- `_compute_battery_availability_ratio` is the model's `sortItems (itemsOf …)` with the sum of the ratios. -/
theorem ratio_eq_source (exponent : Nat) (supply : Bool) (bid : Group → Int) (avail incl excl : Dict Int Rat)
    (gs : List Group) (hok : DictsOK supply bid avail incl excl gs) :
    Extracted.DistLoops.computeBatteryAvailabilityRatio exponent (gs.map (pairOf bid)) avail excl =
      if isCloseToZero (totalCap (gs.map (normGroup supply))) then none
      else some ((sortItems (itemsOf supply exponent gs)).map (arOf (idsS excl) (fun it => bid it.ng.raw)),
                 sumL ((itemsOf supply exponent gs).map (·.ratio))) := by
  unfold Extracted.DistLoops.computeBatteryAvailabilityRatio
  rw [totalCap_eq_source supply]
  by_cases hz : isCloseToZero (totalCap (gs.map (normGroup supply)))
  · simp only [hz, if_true]
  · simp only [hz, if_false]
    rw [ratio_loop exponent supply bid avail incl excl _ gs hok]
    have hitems : gs.map (fun g => arOf (idsS excl) (fun it => bid it.ng.raw) (mkItem (totalCap (gs.map (normGroup supply))) exponent (normGroup supply g)))
        = (itemsOf supply exponent gs).map (arOf (idsS excl) (fun it => bid it.ng.raw)) := by
      simp [itemsOf, List.map_map, Function.comp_def]
    have hsum : gs.map (fun g => (mkItem (totalCap (gs.map (normGroup supply))) exponent (normGroup supply g)).ratio)
        = (itemsOf supply exponent gs).map (·.ratio) := by
      simp [itemsOf, List.map_map, Function.comp_def]
    simp only [List.nil_append, hitems, hsum, Rat.zero_add]
    rw [sort_eq_source (arOf (idsS excl) (fun it => bid it.ng.raw)) _ true]
    intro x y
    simp [arOf, keyLt, goesAfter, sortReverse, sortKeyLt]

end DistTie
