/-
Gap-list lemmas for the ring-buffer model (C09): `isMissing`, `sortGaps`, `removeGap`, `cleanupLoop`
(fuel sufficiency + correctness) and `updateGaps`.
-/
import Frequenz.Model.RingBuffer

set_option linter.unusedSimpArgs false
set_option linter.unusedVariables false

namespace RingBuffer
open Extracted.RingBuffer

/-! ### Meaning of the translated conditions and expressions

The generated definitions are opaque `def`s; every proof below goes through these lemmas, which are proved by
`unfold; omega` (or a case split on the `Bool`) and therefore hold for ANY spelling of the same condition in the
source (operand order, `>` vs `<`, `not (… and …)` vs `… or …`, …). -/

theorem gapContains_iff (s e t : Int) : gapContains s e t ↔ (s ≤ t ∧ t < e) := by unfold gapContains; omega

theorem updReject_iff (t o : Int) (b : Bool) : updReject t o b ↔ (t < o ∧ b = false) := by
  unfold updReject; cases b <;> simp

theorem updNewest_eq (n t : Int) : updNewest n t = max n t := by unfold updNewest; omega
theorem updOldest_eq (n fr p : Int) : updOldest n fr p = n - (fr - p) := by unfold updOldest; omega

theorem ugJump_iff (sn n fr : Int) : ugJump sn n fr ↔ sn - n ≥ fr := by unfold ugJump; omega
theorem ugJumpStart_eq (o sn : Int) : ugJumpStart o sn = o := by unfold ugJumpStart; omega
theorem ugJumpEnd_eq (o sn : Int) : ugJumpEnd o sn = sn := by unfold ugJumpEnd; omega

theorem ugCreated_iff (found : Bool) (t n p : Int) : ugCreated found t n p ↔ (found = false ∧ t > n + p) := by
  unfold ugCreated
  cases found <;> simp

theorem ugCreatedStart_eq (t n p : Int) : ugCreatedStart t n p = n + p := by unfold ugCreatedStart; omega
theorem ugCreatedEnd_eq (t n p : Int) : ugCreatedEnd t n p = t := by unfold ugCreatedEnd; omega
theorem ugMissingStart_eq (t n p : Int) : ugMissingStart t n p = min (n + p) t := by unfold ugMissingStart; omega
theorem ugMissingEnd_eq (t n p : Int) : ugMissingEnd t n p = t + p := by unfold ugMissingEnd; omega

theorem clOutdated_iff (s e o : Int) : clOutdated s e o ↔ e ≤ o := by unfold clOutdated; omega
theorem clRolled_iff (s e o : Int) : clRolled s e o ↔ s < o := by unfold clRolled; omega
theorem clSubset_iff (s e s2 e2 : Int) : clSubset s e s2 e2 ↔ (s ≤ s2 ∧ e ≥ e2) := by unfold clSubset; omega
theorem clNeighbor_iff (s e s2 e2 : Int) : clNeighbor s e s2 e2 ↔ e ≥ s2 := by unfold clNeighbor; omega

theorem rgAtStart_iff (gs ge t p : Int) : rgAtStart gs ge t p ↔ gs = t := by unfold rgAtStart; omega
theorem rgWhole_iff (gs ge t p : Int) : rgWhole gs ge t p ↔ ge = t + p := by unfold rgWhole; omega
theorem rgAtEnd_iff (gs ge t p : Int) : rgAtEnd gs ge t p ↔ ge - p = t := by unfold rgAtEnd; omega
theorem rgAfter_eq (t p : Int) : rgAfter t p = t + p := by unfold rgAfter; omega
theorem rgAfterSplit_eq (t p : Int) : rgAfterSplit t p = t + p := by unfold rgAfterSplit; omega

/-! ### Membership -/

theorem isMissing_iff (l : List Gap) (k : Int) :
    isMissing l k = true ↔ ∃ g ∈ l, g.1 ≤ k ∧ k < g.2 := by
  simp [isMissing, List.any_eq_true, gapContains_iff]

theorem isMissing_nil (k : Int) : isMissing [] k = false := rfl

theorem isMissing_cons (g : Gap) (l : List Gap) (k : Int) :
    isMissing (g :: l) k = (decide (g.1 ≤ k ∧ k < g.2) || isMissing l k) := by
  simp [isMissing, gapContains_iff]

theorem isMissing_append (l₁ l₂ : List Gap) (k : Int) :
    isMissing (l₁ ++ l₂) k = (isMissing l₁ k || isMissing l₂ k) := by
  simp [isMissing]

theorem isMissing_perm {l₁ l₂ : List Gap} (h : l₁.Perm l₂) (k : Int) : isMissing l₁ k = isMissing l₂ k := by
  apply Bool.eq_iff_iff.mpr
  rw [isMissing_iff, isMissing_iff]
  constructor
  · rintro ⟨g, hg, h1⟩; exact ⟨g, h.mem_iff.mp hg, h1⟩
  · rintro ⟨g, hg, h1⟩; exact ⟨g, h.mem_iff.mpr hg, h1⟩

/-! ### Shapes of gap lists -/

/-- ordered and disjoint (possibly adjacent) -/
def OD (l : List Gap) : Prop := l.Pairwise (fun g h => g.2 ≤ h.1)
/-- every gap non-empty -/
def NE (l : List Gap) : Prop := ∀ g ∈ l, g.1 < g.2
/-- pairwise disjoint, in any order -/
def SD (l : List Gap) : Prop := l.Pairwise (fun g h => g.2 ≤ h.1 ∨ h.2 ≤ g.1)
/-- all gaps end at or before `ub` -/
def UB (ub : Int) (l : List Gap) : Prop := ∀ g ∈ l, g.2 ≤ ub
/-- all gaps start at or after `lb` -/
def LB (lb : Int) (l : List Gap) : Prop := ∀ g ∈ l, lb ≤ g.1
/-- the normal form kept in the state: sorted, disjoint, NOT adjacent, non-empty, inside `[o, ub]` -/
def Normal (o ub : Int) (l : List Gap) : Prop :=
  l.Pairwise (fun g h => g.2 < h.1) ∧ ∀ g ∈ l, o ≤ g.1 ∧ g.1 < g.2 ∧ g.2 ≤ ub

theorem Normal.od {o ub : Int} {l : List Gap} (h : Normal o ub l) : OD l :=
  h.1.imp (fun h => Int.le_of_lt h)
theorem Normal.ne {o ub : Int} {l : List Gap} (h : Normal o ub l) : NE l := fun g hg => (h.2 g hg).2.1
theorem Normal.ub {o ub : Int} {l : List Gap} (h : Normal o ub l) : UB ub l := fun g hg => (h.2 g hg).2.2
theorem Normal.lb {o ub : Int} {l : List Gap} (h : Normal o ub l) : LB o l := fun g hg => (h.2 g hg).1
theorem OD.sd {l : List Gap} (h : OD l) : SD l := h.imp (fun h => Or.inl h)

/-! ### `sortGaps` -/

theorem insertGap_perm (g : Gap) (l : List Gap) : (insertGap g l).Perm (g :: l) := by
  induction l with
  | nil => exact List.Perm.refl _
  | cons h t ih =>
    unfold insertGap
    by_cases c : g.1 ≤ h.1
    · simp [c]
    · simp only [c, if_false]
      exact (List.Perm.cons h ih).trans (List.Perm.swap g h t)

theorem sortGaps_perm (l : List Gap) : (sortGaps l).Perm l := by
  induction l with
  | nil => exact List.Perm.refl _
  | cons g t ih =>
    unfold sortGaps
    exact (insertGap_perm g _).trans (List.Perm.cons g ih)

theorem insertGap_sorted (g : Gap) (l : List Gap) (hl : l.Pairwise (fun a b => a.1 ≤ b.1)) :
    (insertGap g l).Pairwise (fun a b => a.1 ≤ b.1) := by
  induction l with
  | nil => simp [insertGap]
  | cons h t ih =>
    unfold insertGap
    rw [List.pairwise_cons] at hl
    by_cases c : g.1 ≤ h.1
    · simp only [c, if_true, List.pairwise_cons]
      refine ⟨?_, hl.1, hl.2⟩
      intro a ha
      rcases List.mem_cons.mp ha with rfl | ha
      · exact c
      · exact Int.le_trans c (hl.1 a ha)
    · simp only [c, if_false, List.pairwise_cons]
      refine ⟨?_, ih hl.2⟩
      intro a ha
      rcases List.mem_cons.mp ((insertGap_perm g t).mem_iff.mp ha) with rfl | ha
      · omega
      · exact hl.1 a ha

theorem sortGaps_sorted (l : List Gap) : (sortGaps l).Pairwise (fun a b => a.1 ≤ b.1) := by
  induction l with
  | nil => simp [sortGaps]
  | cons g t ih => unfold sortGaps; exact insertGap_sorted g _ ih

/-- Sorting a set of pairwise disjoint non-empty gaps puts them in order. -/
theorem sortGaps_od {l : List Gap} (hsd : SD l) (hne : NE l) : OD (sortGaps l) := by
  have hp := sortGaps_perm l
  have hsd' : SD (sortGaps l) := by
    unfold SD at *
    exact (hp.pairwise_iff (R := fun (g h : Gap) => g.2 ≤ h.1 ∨ h.2 ≤ g.1) (fun h => h.symm)).mpr hsd
  have hne' : NE (sortGaps l) := fun g hg => hne g (hp.mem_iff.mp hg)
  have hs := sortGaps_sorted l
  have := (hsd'.and hs).imp_of_mem (S := fun g h => g.2 ≤ h.1) (by
    intro a b ha hb hab
    have := hne' a ha; have := hne' b hb
    omega)
  exact this

/-! ### bounds of members -/

theorem isMissing_lb {lb : Int} {l : List Gap} (h : LB lb l) {k : Int} (hk : isMissing l k = true) : lb ≤ k := by
  obtain ⟨g, hg, h1, _⟩ := (isMissing_iff l k).mp hk
  have := h g hg; omega

theorem isMissing_ub {ub : Int} {l : List Gap} (h : UB ub l) {k : Int} (hk : isMissing l k = true) : k < ub := by
  obtain ⟨g, hg, _, h2⟩ := (isMissing_iff l k).mp hk
  have := h g hg; omega

theorem sd_append_single {l : List Gap} {x : Gap} (hl : SD l) (hx : ∀ h ∈ l, h.2 ≤ x.1 ∨ x.2 ≤ h.1) :
    SD (l ++ [x]) := by
  unfold SD at *
  rw [List.pairwise_append]
  refine ⟨hl, by simp, ?_⟩
  intro a ha b hb
  rw [List.mem_singleton] at hb
  subst hb
  exact hx a ha

/-! ### `removeGap` -/

theorem removeGap_spec (l : List Gap) (t : Int) (hod : OD l) (hne : NE l) :
    SD (removeGap l t) ∧ NE (removeGap l t)
    ∧ (∀ k, isMissing (removeGap l t) k = true ↔ (isMissing l k = true ∧ k ≠ t))
    ∧ (∀ ub, UB ub l → UB ub (removeGap l t))
    ∧ (∀ lb, LB lb l → LB lb (removeGap l t)) := by
  induction l with
  | nil => simp [removeGap, SD, NE, UB, LB, isMissing_nil]
  | cons g gs ih =>
    unfold OD at hod
    rw [List.pairwise_cons] at hod
    obtain ⟨hg, hod'⟩ := hod
    have hne' : NE gs := fun x hx => hne x (List.mem_cons_of_mem _ hx)
    have hgne : g.1 < g.2 := hne g (List.mem_cons_self ..)
    have hlb : LB g.2 gs := fun x hx => hg x hx
    have hsd' : SD gs := OD.sd hod'
    unfold removeGap
    simp only [gapContains_iff, rgAtStart_iff, rgWhole_iff, rgAtEnd_iff, rgAfter_eq, rgAfterSplit_eq]
    by_cases hc : g.1 ≤ t ∧ t < g.2
    · simp only [hc, and_self, if_true]
      by_cases h1 : g.1 = t
      · simp only [h1, if_true]
        by_cases h2 : g.2 = t + 1
        · -- the whole gap disappears
          simp only [h2, if_true]
          refine ⟨hsd', hne', ?_, ?_, ?_⟩
          · intro k
            rw [isMissing_cons]
            constructor
            · intro hk
              have := isMissing_lb hlb hk
              exact ⟨by simp [hk], by omega⟩
            · rintro ⟨hk, hkt⟩
              simp only [Bool.or_eq_true, decide_eq_true_eq] at hk
              rcases hk with hk | hk
              · omega
              · exact hk
          · intro ub hub x hx; exact hub x (List.mem_cons_of_mem _ hx)
          · intro lb hlb' x hx; exact hlb' x (List.mem_cons_of_mem _ hx)
        · -- first slot removed
          simp only [h2, if_false]
          refine ⟨?_, ?_, ?_, ?_, ?_⟩
          · unfold SD; rw [List.pairwise_cons]
            exact ⟨fun x hx => Or.inl (hg x hx), hsd'⟩
          · intro x hx
            rcases List.mem_cons.mp hx with rfl | hx
            · show t + 1 < g.2; omega
            · exact hne' x hx
          · intro k
            rw [isMissing_cons, isMissing_cons]
            simp only [Bool.or_eq_true, decide_eq_true_eq]
            constructor
            · rintro (hk | hk)
              · exact ⟨Or.inl (by omega), by omega⟩
              · have := isMissing_lb hlb hk
                exact ⟨Or.inr hk, by omega⟩
            · rintro ⟨hk | hk, hkt⟩
              · exact Or.inl (by omega)
              · exact Or.inr hk
          · intro ub hub x hx
            rcases List.mem_cons.mp hx with rfl | hx
            · exact hub g (List.mem_cons_self ..)
            · exact hub x (List.mem_cons_of_mem _ hx)
          · intro lb hlb' x hx
            rcases List.mem_cons.mp hx with rfl | hx
            · have := hlb' g (List.mem_cons_self ..); show lb ≤ t + 1; omega
            · exact hlb' x (List.mem_cons_of_mem _ hx)
      · simp only [h1, if_false]
        by_cases h3 : g.2 - 1 = t
        · -- last slot removed
          simp only [h3, if_true]
          refine ⟨?_, ?_, ?_, ?_, ?_⟩
          · unfold SD; rw [List.pairwise_cons]
            refine ⟨fun x hx => Or.inl ?_, hsd'⟩
            have := hg x hx; show t ≤ x.1; omega
          · intro x hx
            rcases List.mem_cons.mp hx with rfl | hx
            · show g.1 < t; omega
            · exact hne' x hx
          · intro k
            rw [isMissing_cons, isMissing_cons]
            simp only [Bool.or_eq_true, decide_eq_true_eq]
            constructor
            · rintro (hk | hk)
              · exact ⟨Or.inl (by omega), by omega⟩
              · have := isMissing_lb hlb hk
                exact ⟨Or.inr hk, by omega⟩
            · rintro ⟨hk | hk, hkt⟩
              · exact Or.inl (by omega)
              · exact Or.inr hk
          · intro ub hub x hx
            rcases List.mem_cons.mp hx with rfl | hx
            · have := hub g (List.mem_cons_self ..); show t ≤ ub; omega
            · exact hub x (List.mem_cons_of_mem _ hx)
          · intro lb hlb' x hx
            rcases List.mem_cons.mp hx with rfl | hx
            · exact hlb' g (List.mem_cons_self ..)
            · exact hlb' x (List.mem_cons_of_mem _ hx)
        · -- split in the middle
          simp only [h3, if_false]
          refine ⟨?_, ?_, ?_, ?_, ?_⟩
          · unfold SD; rw [List.pairwise_cons]
            refine ⟨?_, sd_append_single hsd' ?_⟩
            · intro x hx
              rcases List.mem_append.mp hx with hx | hx
              · have := hg x hx; exact Or.inl (by show t ≤ x.1; omega)
              · rw [List.mem_singleton] at hx; subst hx; exact Or.inl (by show t ≤ t + 1; omega)
            · intro x hx; have := hg x hx; exact Or.inr this
          · intro x hx
            rcases List.mem_cons.mp hx with rfl | hx
            · show g.1 < t; omega
            · rcases List.mem_append.mp hx with hx | hx
              · exact hne' x hx
              · rw [List.mem_singleton] at hx; subst hx; show t + 1 < g.2; omega
          · intro k
            rw [isMissing_cons, isMissing_append, isMissing_cons, isMissing_cons, isMissing_nil]
            simp only [Bool.or_eq_true, decide_eq_true_eq, Bool.or_false]
            constructor
            · rintro (hk | hk | hk)
              · exact ⟨Or.inl (by omega), by omega⟩
              · have := isMissing_lb hlb hk
                exact ⟨Or.inr hk, by omega⟩
              · exact ⟨Or.inl (by omega), by omega⟩
            · rintro ⟨hk | hk, hkt⟩
              · by_cases hlt : k < t
                · exact Or.inl (by omega)
                · exact Or.inr (Or.inr (by omega))
              · exact Or.inr (Or.inl hk)
          · intro ub hub x hx
            have hgu := hub g (List.mem_cons_self ..)
            rcases List.mem_cons.mp hx with rfl | hx
            · show t ≤ ub; omega
            · rcases List.mem_append.mp hx with hx | hx
              · exact hub x (List.mem_cons_of_mem _ hx)
              · rw [List.mem_singleton] at hx; subst hx; exact hgu
          · intro lb hlb' x hx
            have hgl := hlb' g (List.mem_cons_self ..)
            rcases List.mem_cons.mp hx with rfl | hx
            · exact hgl
            · rcases List.mem_append.mp hx with hx | hx
              · exact hlb' x (List.mem_cons_of_mem _ hx)
              · rw [List.mem_singleton] at hx; subst hx; show lb ≤ t + 1; omega
    · -- `t` is not in this gap: recurse
      simp only [hc, if_false]
      obtain ⟨ih1, ih2, ih3, ih4, ih5⟩ := ih hod' hne'
      refine ⟨?_, ?_, ?_, ?_, ?_⟩
      · unfold SD; rw [List.pairwise_cons]
        exact ⟨fun x hx => Or.inl (ih5 g.2 hlb x hx), ih1⟩
      · intro x hx
        rcases List.mem_cons.mp hx with rfl | hx
        · exact hgne
        · exact ih2 x hx
      · intro k
        rw [isMissing_cons, isMissing_cons]
        simp only [Bool.or_eq_true, decide_eq_true_eq, ih3 k]
        constructor
        · rintro (hk | ⟨hk, hkt⟩)
          · exact ⟨Or.inl hk, by omega⟩
          · exact ⟨Or.inr hk, hkt⟩
        · rintro ⟨hk | hk, hkt⟩
          · exact Or.inl hk
          · exact Or.inr ⟨hk, hkt⟩
      · intro ub hub x hx
        rcases List.mem_cons.mp hx with rfl | hx
        · exact hub _ (List.mem_cons_self ..)
        · exact ih4 ub (fun y hy => hub y (List.mem_cons_of_mem _ hy)) x hx
      · intro lb hlb' x hx
        rcases List.mem_cons.mp hx with rfl | hx
        · exact hlb' _ (List.mem_cons_self ..)
        · exact ih5 lb (fun y hy => hlb' y (List.mem_cons_of_mem _ hy)) x hx

/-! ### `cleanupLoop`: fuel and correctness -/

/-- Number of loop iterations still needed: one per element, one more for each element to be trimmed. -/
def mu (o : Int) (l : List Gap) : Nat := l.length + l.countP (fun g => decide (g.1 < o))

theorem mu_cons (o : Int) (g : Gap) (l : List Gap) :
    mu o (g :: l) = mu o l + 1 + (if g.1 < o then 1 else 0) := by
  unfold mu
  rw [List.countP_cons, List.length_cons]
  by_cases h : g.1 < o <;> simp [h] <;> omega

theorem mu_le (o : Int) (l : List Gap) : mu o l ≤ 2 * l.length := by
  unfold mu
  have := List.countP_le_length (p := fun g : Gap => decide (g.1 < o)) (l := l)
  omega

theorem cleanupLoop_spec (o : Int) : ∀ (fuel : Nat) (l : List Gap), mu o l ≤ fuel → OD l → NE l →
    (cleanupLoop o fuel l).Pairwise (fun g h => g.2 < h.1)
    ∧ (∀ g ∈ cleanupLoop o fuel l, o ≤ g.1 ∧ g.1 < g.2)
    ∧ (∀ k, o ≤ k → isMissing (cleanupLoop o fuel l) k = isMissing l k)
    ∧ (∀ lb, LB lb l → LB lb (cleanupLoop o fuel l))
    ∧ (∀ ub, UB ub l → UB ub (cleanupLoop o fuel l)) := by
  intro fuel
  induction fuel with
  | zero =>
    intro l hmu _ _
    have : l = [] := by
      cases l with
      | nil => rfl
      | cons g t => rw [mu_cons] at hmu; omega
    subst this
    simp [cleanupLoop, LB, UB]
  | succ fuel ih =>
    intro l hmu hod hne
    cases l with
    | nil => simp [cleanupLoop, LB, UB]
    | cons w1 rest =>
      rw [mu_cons] at hmu
      unfold OD at hod
      rw [List.pairwise_cons] at hod
      obtain ⟨h1r, hodr⟩ := hod
      have hner : NE rest := fun x hx => hne x (List.mem_cons_of_mem _ hx)
      have hw1 : w1.1 < w1.2 := hne w1 (List.mem_cons_self ..)
      unfold cleanupLoop
      simp only [clOutdated_iff, clRolled_iff, clNeighbor_iff]
      by_cases hA : w1.2 ≤ o
      · -- outdated: deleted
        simp only [hA, if_true]
        obtain ⟨i1, i2, i3, i4, i5⟩ := ih rest (by omega) hodr hner
        refine ⟨i1, i2, ?_, ?_, ?_⟩
        · intro k hk
          rw [i3 k hk, isMissing_cons]
          have : decide (w1.1 ≤ k ∧ k < w1.2) = false := by simp; omega
          simp [this]
        · intro lb hlb; exact i4 lb (fun x hx => hlb x (List.mem_cons_of_mem _ hx))
        · intro ub hub; exact i5 ub (fun x hx => hub x (List.mem_cons_of_mem _ hx))
      · simp only [hA, if_false]
        by_cases hB : w1.1 < o
        · -- rolled out: start trimmed, same position examined again
          simp only [hB, if_true]
          have hod2 : OD ((o, w1.2) :: rest) := by
            unfold OD; rw [List.pairwise_cons]; exact ⟨h1r, hodr⟩
          have hne2 : NE ((o, w1.2) :: rest) := by
            intro x hx
            rcases List.mem_cons.mp hx with rfl | hx
            · show o < w1.2; omega
            · exact hner x hx
          have hmu2 : mu o ((o, w1.2) :: rest) ≤ fuel := by
            rw [mu_cons]; simp only [hB, if_true] at hmu; simp; omega
          obtain ⟨i1, i2, i3, i4, i5⟩ := ih _ hmu2 hod2 hne2
          refine ⟨i1, i2, ?_, ?_, ?_⟩
          · intro k hk
            rw [i3 k hk, isMissing_cons, isMissing_cons]
            have : decide (o ≤ k ∧ k < w1.2) = decide (w1.1 ≤ k ∧ k < w1.2) := by
              apply decide_eq_decide.mpr; constructor <;> intro h <;> omega
            rw [this]
          · intro lb hlb
            apply i4
            intro x hx
            rcases List.mem_cons.mp hx with rfl | hx
            · have := hlb w1 (List.mem_cons_self ..); show lb ≤ o; omega
            · exact hlb x (List.mem_cons_of_mem _ hx)
          · intro ub hub
            apply i5
            intro x hx
            rcases List.mem_cons.mp hx with rfl | hx
            · exact hub w1 (List.mem_cons_self ..)
            · exact hub x (List.mem_cons_of_mem _ hx)
        · simp only [hB, if_false]
          cases rest with
          | nil =>
            simp only
            refine ⟨by simp, ?_, ?_, ?_, ?_⟩
            · intro g hg; rw [List.mem_singleton] at hg; subst hg; omega
            · intro k _; trivial
            · intro lb hlb; exact hlb
            · intro ub hub; exact hub
          | cons w2 rest' =>
            simp only
            have h12 : w1.2 ≤ w2.1 := h1r w2 (List.mem_cons_self ..)
            have hw2 : w2.1 < w2.2 := hner w2 (List.mem_cons_self ..)
            rw [List.pairwise_cons] at hodr
            obtain ⟨h2r, hodr'⟩ := hodr
            have hC : ¬ clSubset w1.1 w1.2 w2.1 w2.2 := by rw [clSubset_iff]; omega
            rw [if_neg hC]
            rw [mu_cons] at hmu
            by_cases hD : w1.2 ≥ w2.1
            · -- direct neighbours: merged into one gap, same position examined again
              simp only [hD, if_true]
              have hod2 : OD ((w1.1, w2.2) :: rest') := by
                unfold OD; rw [List.pairwise_cons]; exact ⟨h2r, hodr'⟩
              have hne2 : NE ((w1.1, w2.2) :: rest') := by
                intro x hx
                rcases List.mem_cons.mp hx with rfl | hx
                · show w1.1 < w2.2; omega
                · exact hner x (List.mem_cons_of_mem _ hx)
              have hmu2 : mu o ((w1.1, w2.2) :: rest') ≤ fuel := by
                rw [mu_cons]; simp only [hB, if_false] at hmu ⊢; omega
              obtain ⟨i1, i2, i3, i4, i5⟩ := ih _ hmu2 hod2 hne2
              refine ⟨i1, i2, ?_, ?_, ?_⟩
              · intro k hk
                rw [i3 k hk, isMissing_cons, isMissing_cons, isMissing_cons, ← Bool.or_assoc]
                congr 1
                apply Bool.eq_iff_iff.mpr
                simp only [Bool.or_eq_true, decide_eq_true_eq]
                constructor
                · intro h; by_cases hk2 : k < w1.2
                  · exact Or.inl (by omega)
                  · exact Or.inr (by omega)
                · rintro (h | h) <;> omega
              · intro lb hlb
                apply i4
                intro x hx
                rcases List.mem_cons.mp hx with rfl | hx
                · exact hlb w1 (List.mem_cons_self ..)
                · exact hlb x (List.mem_cons_of_mem _ (List.mem_cons_of_mem _ hx))
              · intro ub hub
                apply i5
                intro x hx
                rcases List.mem_cons.mp hx with rfl | hx
                · exact hub w2 (List.mem_cons_of_mem _ (List.mem_cons_self ..))
                · exact hub x (List.mem_cons_of_mem _ (List.mem_cons_of_mem _ hx))
            · -- separated: `w1` is final, go on with the next position
              simp only [hD, if_false]
              have hod2 : OD (w2 :: rest') := by
                unfold OD; rw [List.pairwise_cons]; exact ⟨h2r, hodr'⟩
              have hmu2 : mu o (w2 :: rest') ≤ fuel := by rw [mu_cons]; omega
              obtain ⟨i1, i2, i3, i4, i5⟩ := ih _ hmu2 hod2 hner
              have hlb2 : LB (w1.2 + 1) (w2 :: rest') := by
                intro x hx
                rcases List.mem_cons.mp hx with rfl | hx
                · omega
                · have := h2r x hx; omega
              refine ⟨?_, ?_, ?_, ?_, ?_⟩
              · rw [List.pairwise_cons]
                refine ⟨?_, i1⟩
                intro x hx
                have := i4 _ hlb2 x hx
                omega
              · intro g hg
                rcases List.mem_cons.mp hg with rfl | hg
                · omega
                · exact i2 g hg
              · intro k hk
                rw [isMissing_cons, i3 k hk, isMissing_cons (l := w2 :: rest')]
              · intro lb hlb x hx
                rcases List.mem_cons.mp hx with rfl | hx
                · exact hlb _ (List.mem_cons_self ..)
                · exact i4 lb (fun y hy => hlb y (List.mem_cons_of_mem _ hy)) x hx
              · intro ub hub x hx
                rcases List.mem_cons.mp hx with rfl | hx
                · exact hub _ (List.mem_cons_self ..)
                · exact i5 ub (fun y hy => hub y (List.mem_cons_of_mem _ hy)) x hx

/-- `_cleanup_gaps` on any set of pairwise disjoint non-empty gaps: the result is in normal form and
covers the same slots from `o` on.  (The fuel `2·len + 2` of `cleanupGaps` suffices.) -/
theorem cleanupGaps_spec (o ub : Int) (l : List Gap) (hsd : SD l) (hne : NE l) (hub : UB ub l) :
    Normal o ub (cleanupGaps o l) ∧ ∀ k, o ≤ k → isMissing (cleanupGaps o l) k = isMissing l k := by
  have hp := sortGaps_perm l
  have hod := sortGaps_od hsd hne
  have hne' : NE (sortGaps l) := fun g hg => hne g (hp.mem_iff.mp hg)
  have hub' : UB ub (sortGaps l) := fun g hg => hub g (hp.mem_iff.mp hg)
  have hmu : mu o (sortGaps l) ≤ 2 * l.length + 2 := by
    have := mu_le o (sortGaps l); rw [hp.length_eq] at this; omega
  obtain ⟨i1, i2, i3, _, i5⟩ := cleanupLoop_spec o _ _ hmu hod hne'
  unfold cleanupGaps
  refine ⟨⟨i1, ?_⟩, ?_⟩
  · intro g hg
    have := i2 g hg
    have := i5 ub hub' g hg
    omega
  · intro k hk
    rw [i3 k hk, isMissing_perm hp]

/-! ### `updateGaps` -/

theorem not_isMissing {l : List Gap} {t : Int} (h : isMissing l t = false) :
    ∀ g ∈ l, ¬ (g.1 ≤ t ∧ t < g.2) := by
  intro g hg hc
  have : isMissing l t = true := (isMissing_iff l t).mpr ⟨g, hg, hc⟩
  rw [h] at this; cases this

/-- What `_update_gaps` does to the gap list, for every branch.  `prev` is the previous newest slot (for the
fresh buffer: `t - cap`, with the empty list), `gaps` is in normal form for the previous window, `t` is
not older than that window. -/
theorem updateGaps_spec (cap : Nat) (hcap : 1 ≤ cap) (gaps : List Gap) (t prev : Int) (missing : Bool)
    (hN : Normal (prev - ((cap : Int) - 1)) (prev + 1) gaps) (ht : prev - ((cap : Int) - 1) ≤ t) :
    let n' := max prev t
    let o' := n' - ((cap : Int) - 1)
    let out := updateGaps cap gaps t prev n' o' missing
    (Normal o' (n' + 1) out ∨ (cap = 1 ∧ missing = false ∧ prev < t ∧ out = [(t, t)]))
    ∧ ∀ k, o' ≤ k → k ≤ n' →
        (isMissing out k = true ↔ if k = t then missing = true else (prev < k ∨ isMissing gaps k = true)) := by
  intro n' o' out
  have hsd := hN.od.sd
  have hne := hN.ne
  have hub := hN.ub
  have hn' : n' = max prev t := rfl
  have ho' : o' = n' - ((cap : Int) - 1) := rfl
  have hcap' : (1 : Int) ≤ (cap : Int) := by exact_mod_cast hcap
  -- the non-jump branches all end in `cleanupGaps o' l` for a list `l` of disjoint non-empty gaps
  have fin : ∀ l : List Gap, SD l → NE l → UB (n' + 1) l →
      (∀ k, o' ≤ k → k ≤ n' →
        (isMissing l k = true ↔ if k = t then missing = true else (prev < k ∨ isMissing gaps k = true))) →
      (Normal o' (n' + 1) (cleanupGaps o' l) ∨ (cap = 1 ∧ missing = false ∧ prev < t ∧ cleanupGaps o' l = [(t, t)]))
      ∧ ∀ k, o' ≤ k → k ≤ n' →
        (isMissing (cleanupGaps o' l) k = true ↔ if k = t then missing = true else (prev < k ∨ isMissing gaps k = true)) := by
    intro l h1 h2 h3 h4
    obtain ⟨c1, c2⟩ := cleanupGaps_spec o' (n' + 1) l h1 h2 h3
    refine ⟨Or.inl c1, ?_⟩
    intro k hk1 hk2
    rw [c2 k hk1]
    exact h4 k hk1 hk2
  have hubn : UB (n' + 1) gaps := fun g hg => by have := hub g hg; omega
  cases hf : isMissing gaps t with
  | false =>
    have hnot := not_isMissing hf
    cases missing with
    | false =>
      by_cases hj : n' - prev ≥ (cap : Int)
      · -- jump of at least the capacity: one gap for everything older than the new value
        have hout : out = [(o', n')] := by
          show updateGaps cap gaps t prev n' o' false = _
          unfold updateGaps
          simp only [ugJump_iff, ugJumpStart_eq, ugJumpEnd_eq, hj, and_self, if_true]
        have hnt : n' = t := by omega
        refine ⟨?_, ?_⟩
        · by_cases hc1 : cap = 1
          · right
            refine ⟨hc1, rfl, by omega, ?_⟩
            have h1 : o' = t := by omega
            rw [hout, h1, hnt]
          · left
            rw [hout]
            refine ⟨by simp, ?_⟩
            intro g hg
            rw [List.mem_singleton] at hg; subst hg
            have : (2 : Int) ≤ (cap : Int) := by omega
            show o' ≤ o' ∧ o' < n' ∧ n' ≤ n' + 1
            omega
        · intro k hk1 hk2
          rw [hout, isMissing_cons, isMissing_nil]
          simp only [Bool.or_false, decide_eq_true_eq]
          by_cases hkt : k = t
          · simp only [hkt, if_true]; constructor
            · intro h; omega
            · intro h; cases h
          · simp only [hkt, if_false]; constructor
            · intro _; left; omega
            · intro _; omega
      · by_cases hcr : t > prev + 1
        · -- slots were skipped: they form a new gap at the end
          have hout : out = cleanupGaps o' (gaps ++ [(prev + 1, t)]) := by
            show updateGaps cap gaps t prev n' o' false = _
            unfold updateGaps
            simp only [ugJump_iff, ugCreated_iff, ugCreatedStart_eq, ugCreatedEnd_eq, hj, hf, hcr, and_false, if_false,
              Bool.false_eq_true, not_false_eq_true, and_self, if_true]
          rw [hout]
          apply fin
          · apply sd_append_single hsd
            intro g hg; left; exact hub g hg
          · intro g hg
            rcases List.mem_append.mp hg with hg | hg
            · exact hne g hg
            · rw [List.mem_singleton] at hg; subst hg; show prev + 1 < t; omega
          · intro g hg
            rcases List.mem_append.mp hg with hg | hg
            · exact hubn g hg
            · rw [List.mem_singleton] at hg; subst hg; show t ≤ n' + 1; omega
          · intro k hk1 hk2
            rw [isMissing_append, isMissing_cons, isMissing_nil]
            simp only [Bool.or_false, Bool.or_eq_true, decide_eq_true_eq]
            by_cases hkt : k = t
            · subst hkt; simp only [if_true, hf]; constructor
              · rintro (h | h)
                · cases h
                · omega
              · intro h; cases h
            · simp only [hkt, if_false]; constructor
              · rintro (h | h)
                · exact Or.inr h
                · exact Or.inl (by omega)
              · rintro (h | h)
                · exact Or.inr (by omega)
                · exact Or.inl h
        · -- next slot, or an older slot that is not in a gap: the list is only cleaned up
          have hout : out = cleanupGaps o' gaps := by
            show updateGaps cap gaps t prev n' o' false = _
            unfold updateGaps
            simp only [ugJump_iff, ugCreated_iff, hj, hf, hcr, and_false, if_false, Bool.false_eq_true]
          rw [hout]
          apply fin _ hsd hne hubn
          intro k hk1 hk2
          by_cases hkt : k = t
          · subst hkt; simp only [if_true, hf]
          · simp only [hkt, if_false]; constructor
            · intro h; exact Or.inr h
            · rintro (h | h)
              · omega
              · exact h
    | true =>
      -- a missing value outside every gap: a new gap is appended
      have hout : out = cleanupGaps o' (gaps ++ [(min (prev + 1) t, t + 1)]) := by
        show updateGaps cap gaps t prev n' o' true = _
        unfold updateGaps
        simp only [ugMissingStart_eq, ugMissingEnd_eq, hf, Bool.true_eq_false, false_and, if_false, if_true]
      rw [hout]
      apply fin
      · apply sd_append_single hsd
        intro g hg
        have := hnot g hg
        have := hub g hg
        show g.2 ≤ min (prev + 1) t ∨ t + 1 ≤ g.1
        omega
      · intro g hg
        rcases List.mem_append.mp hg with hg | hg
        · exact hne g hg
        · rw [List.mem_singleton] at hg; subst hg; show min (prev + 1) t < t + 1; omega
      · intro g hg
        rcases List.mem_append.mp hg with hg | hg
        · exact hubn g hg
        · rw [List.mem_singleton] at hg; subst hg; show t + 1 ≤ n' + 1; omega
      · intro k hk1 hk2
        rw [isMissing_append, isMissing_cons, isMissing_nil]
        simp only [Bool.or_false, Bool.or_eq_true, decide_eq_true_eq]
        by_cases hkt : k = t
        · subst hkt; simp only [if_true]; constructor
          · intro _; trivial
          · intro _; right; omega
        · simp only [hkt, if_false]; constructor
          · rintro (h | h)
            · exact Or.inr h
            · exact Or.inl (by omega)
          · rintro (h | h)
            · exact Or.inr (by omega)
            · exact Or.inl h
  | true =>
    -- the slot is inside a gap, hence not newer than the previous newest slot
    have htp : t < prev + 1 := isMissing_ub hub hf
    have hnp : n' = prev := by omega
    cases missing with
    | false =>
      have hlen : gaps.length > 0 := by
        obtain ⟨g, hg, _⟩ := (isMissing_iff gaps t).mp hf
        exact List.length_pos_of_mem hg
      have hj : ¬ (n' - prev ≥ (cap : Int)) := by omega
      have hout : out = cleanupGaps o' (removeGap gaps t) := by
        show updateGaps cap gaps t prev n' o' false = _
        unfold updateGaps
        simp only [ugJump_iff, ugCreated_iff, hj, hf, and_false, if_false, not_true_eq_false, false_and,
          Bool.false_eq_true, Bool.true_eq_false, hlen, and_self, if_true, true_and, and_true]
      obtain ⟨r1, r2, r3, r4, _⟩ := removeGap_spec gaps t hN.od hne
      rw [hout]
      apply fin _ r1 r2 (r4 _ hubn)
      intro k hk1 hk2
      rw [r3 k]
      by_cases hkt : k = t
      · subst hkt; simp
      · simp only [hkt, if_false, ne_eq, not_false_eq_true, and_true]; constructor
        · intro h; exact Or.inr h
        · rintro (h | h)
          · omega
          · exact h
    | true =>
      have hout : out = cleanupGaps o' gaps := by
        show updateGaps cap gaps t prev n' o' true = _
        unfold updateGaps
        simp only [hf, Bool.true_eq_false, false_and, if_false, if_true]
      rw [hout]
      apply fin _ hsd hne hubn
      intro k hk1 hk2
      by_cases hkt : k = t
      · subst hkt; simp only [if_true, hf]
      · simp only [hkt, if_false]; constructor
        · intro h; exact Or.inr h
        · rintro (h | h)
          · omega
          · exact h

end RingBuffer
