/-
The sweep of `_calc_target_power` and the loop of `get_status` on conflict-free proposal lists:
the running bounds track the plain intersection of bounds, the target is the closest admissible
value for the last stated preference.
-/
import Frequenz.Lemmas.MatryoshkaSpec

open BoundsLemmas

namespace Matryoshka

/-- Conflict-freedom along a list (in processing order): the running *plain* intersection minus the
exclusion zone never becomes empty. -/
def ConflictFree (ex : Option Bounds) : Itv → List Proposal → Prop
  | I, [] => Usable ex I
  | I, p :: ps => Usable ex I ∧ ConflictFree ex (I.narrow p) ps

/-- The interval in force *when* the last proposal with a preference is reached, and that preference. -/
def lastPref : Itv → List Proposal → Option (Itv × Rat) → Option (Itv × Rat)
  | _, [], acc => acc
  | I, p :: ps, acc =>
    lastPref (I.narrow p) ps (match p.pref with | some v => some (I, v) | none => acc)

/-- The plain intersection after the whole list. -/
def narrowAll : Itv → List Proposal → Itv
  | I, [] => I
  | I, p :: ps => narrowAll (I.narrow p) ps

theorem conflictFree_usable {ex : Option Bounds} {I : Itv} {ps : List Proposal}
    (h : ConflictFree ex I ps) : Usable ex I := by
  cases ps with
  | nil => exact h
  | cons p ps => exact h.1

theorem step_eq (ex : Option Bounds) (s : St) (p : Proposal) (hns : s.stopped = false)
    (hle : s.lo ≤ s.hi)
    (hov : Extracted.checkExclusionBoundsOverlap (p.lo.getD s.lo) (p.hi.getD s.hi) ex ≠ (true, true)) :
    step ex s p =
      { lo := (narrowBounds ex s.lo s.hi p).1, hi := (narrowBounds ex s.lo s.hi p).2,
        target := (match p.pref with
          | none => s.target
          | some v => pick v (Extracted.clampToBounds v s.lo s.hi ex) s.target),
        stopped := false } := by
  unfold step narrowBounds
  have : ¬ s.hi < s.lo := Rat.not_lt.mpr hle
  simp only [hns, Bool.false_eq_true, if_false, this, hov]
  cases p.pref <;> rfl

/-- What the accumulated "last preference" says about a target. -/
def TargetOK (ex : Option Bounds) (t0 : Rat) (acc : Option (Itv × Rat)) (t : Rat) : Prop :=
  match acc with
  | some (J, v) => ClosestSpec ex J v t
  | none => t = t0

theorem sweep_closest (ex : Option Bounds) (hz : ZoneOK ex) (t0 : Rat) (ps : List Proposal) :
    ∀ (I : Itv) (s : St) (acc : Option (Itv × Rat)), s.stopped = false → Rel ex I s.lo s.hi →
      ConflictFree ex I ps → TargetOK ex t0 acc s.target →
      TargetOK ex t0 (lastPref I ps acc) (ps.foldl (step ex) s).target ∧
      (ps.foldl (step ex) s).stopped = false ∧
      Rel ex (narrowAll I ps) (ps.foldl (step ex) s).lo (ps.foldl (step ex) s).hi := by
  induction ps with
  | nil => intro I s acc hns hrel _ ht; exact ⟨ht, hns, hrel⟩
  | cons p ps ih =>
    intro I s acc hns hrel hcf ht
    obtain ⟨hu, hcf'⟩ := hcf
    have hu' := conflictFree_usable hcf'
    have hle := rel_le hrel hu
    obtain ⟨hov, hrel', _⟩ := narrow_rel ex I s.lo s.hi p hrel hu hu'
    simp only [List.foldl_cons, lastPref, narrowAll]
    rw [step_eq ex s p hns hle hov]
    apply ih (I.narrow p) _ _ rfl hrel' hcf'
    cases hp : p.pref with
    | none => simpa [hp] using ht
    | some v =>
      simp only [TargetOK]
      exact pick_closest ex hz I s.lo s.hi v s.target hrel hu

/-- The `get_status` loop agrees with the bounds part of the sweep on the higher-priority prefix. -/
theorem statusStep_eq (ex : Option Bounds) (prio : Int) (s : RSt) (p : Proposal)
    (hns : s.stopped = false) (hp : prio < p.prio)
    (hov : Extracted.checkExclusionBoundsOverlap (p.lo.getD s.lo) (p.hi.getD s.hi) ex ≠ (true, true))
    (hle : pyMax s.lo (p.lo.getD s.lo) ≤ pyMin s.hi (p.hi.getD s.hi)) :
    statusStep ex prio s p =
      { lo := (narrowBounds ex s.lo s.hi p).1, hi := (narrowBounds ex s.lo s.hi p).2, stopped := false } := by
  unfold statusStep narrowBounds
  have : ¬ p.prio ≤ prio := Int.not_le.mpr hp
  simp only [hns, Bool.false_eq_true, if_false, this, hov, hle, if_true]

theorem status_prefix (ex : Option Bounds) (prio : Int) (ps : List Proposal) :
    ∀ (I : Itv) (s : RSt), s.stopped = false → Rel ex I s.lo s.hi → ConflictFree ex I ps →
      (∀ p ∈ ps, prio < p.prio) →
      (ps.foldl (statusStep ex prio) s).stopped = false ∧
      Rel ex (narrowAll I ps) (ps.foldl (statusStep ex prio) s).lo (ps.foldl (statusStep ex prio) s).hi := by
  induction ps with
  | nil => intro I s hns hrel _ _; exact ⟨hns, hrel⟩
  | cons p ps ih =>
    intro I s hns hrel hcf hall
    obtain ⟨hu, hcf'⟩ := hcf
    have hu' := conflictFree_usable hcf'
    obtain ⟨hov, hrel', hle⟩ := narrow_rel ex I s.lo s.hi p hrel hu hu'
    simp only [List.foldl_cons, narrowAll]
    rw [statusStep_eq ex prio s p hns (hall p List.mem_cons_self) hov hle]
    exact ih (I.narrow p) _ rfl hrel' hcf' (fun q hq => hall q (List.mem_cons_of_mem _ hq))

theorem status_stop (ex : Option Bounds) (prio : Int) (ps : List Proposal) (s : RSt)
    (h : s.stopped = true) : ps.foldl (statusStep ex prio) s = s := by
  induction ps with
  | nil => rfl
  | cons p ps ih => simp only [List.foldl_cons]; unfold statusStep; simp only [h, if_true]; exact ih

theorem status_low (ex : Option Bounds) (prio : Int) (s : RSt) (p : Proposal) (hns : s.stopped = false)
    (hp : p.prio ≤ prio) : statusStep ex prio s p = { s with stopped := true } := by
  unfold statusStep; simp only [hns, Bool.false_eq_true, if_false, hp, if_true]

theorem conflictFree_append {ex : Option Bounds} {I : Itv} {l1 l2 : List Proposal}
    (h : ConflictFree ex I (l1 ++ l2)) : ConflictFree ex I l1 ∧ ConflictFree ex (narrowAll I l1) l2 := by
  induction l1 generalizing I with
  | nil => exact ⟨conflictFree_usable h, h⟩
  | cons p ps ih =>
    obtain ⟨hu, h'⟩ := h
    have := ih h'
    exact ⟨⟨hu, this.1⟩, this.2⟩

theorem lastPref_append (I : Itv) (l1 l2 : List Proposal) (acc : Option (Itv × Rat)) :
    lastPref I (l1 ++ l2) acc = lastPref (narrowAll I l1) l2 (lastPref I l1 acc) := by
  induction l1 generalizing I acc with
  | nil => rfl
  | cons p ps ih => simp only [List.cons_append, lastPref, narrowAll, ih]

theorem lastPref_noPref (I : Itv) (l : List Proposal) (acc : Option (Itv × Rat))
    (h : ∀ p ∈ l, p.pref = none) : lastPref I l acc = acc := by
  induction l generalizing I with
  | nil => rfl
  | cons p ps ih =>
    simp only [lastPref, h p List.mem_cons_self]
    exact ih _ (fun q hq => h q (List.mem_cons_of_mem _ hq))

end Matryoshka
