/-
The proposal bucket of the Matryoshka manager refines a finite map  key ↦ latest live proposal.
-/
import Frequenz.Lemmas.ProposalOrder
import Mathlib.Data.List.Nodup
import Mathlib.Data.List.Perm.Lattice

namespace Matryoshka

abbrev Key := Int × String

def Proposal.key (p : Proposal) : Key := (p.prio, p.src)

theorem sameKey_iff_key {a b : Proposal} : a.sameKey b ↔ a.key = b.key := by
  unfold Proposal.sameKey Extracted.Proposal.eq Proposal.key; simp [Prod.ext_iff]

/-- Abstraction: the bucket as a map from actor key to proposal. -/
def absBucket (b : List Proposal) (k : Key) : Option Proposal := b.find? (fun q => decide (q.key = k))

theorem find?_filter_of_imp {α} (p q : α → Bool) (l : List α) (h : ∀ x, p x = true → q x = true) :
    (l.filter q).find? p = l.find? p := by
  rw [List.find?_filter]
  congr 1
  funext x
  cases hp : p x with
  | false => simp
  | true => simp [h x hp]

theorem keysDistinct_nodup {b : List Proposal} (hd : KeysDistinct b) : b.Nodup := by
  unfold KeysDistinct at hd
  exact hd.imp (fun {a c} h hac => h (by subst hac; exact ⟨rfl, rfl⟩))

theorem mem_iff_abs {b : List Proposal} (hd : KeysDistinct b) (p : Proposal) :
    p ∈ b ↔ absBucket b p.key = some p := by
  unfold absBucket
  constructor
  · intro hp
    cases hf : b.find? (fun q => decide (q.key = p.key)) with
    | none =>
      have := List.find?_eq_none.mp hf p hp
      simp at this
    | some q =>
      have hq := List.find?_some hf
      have hqm := List.mem_of_find?_eq_some hf
      simp only [decide_eq_true_eq] at hq
      rw [eq_of_mem_sameKey hd hqm hp (sameKey_iff_key.mpr hq)]
  · intro h; exact List.mem_of_find?_eq_some h

theorem keysDistinct_insert {b : List Proposal} (hd : KeysDistinct b) (p : Proposal) :
    KeysDistinct (insertProposal b p) := by
  unfold KeysDistinct insertProposal at *
  rw [List.pairwise_append]
  refine ⟨hd.filter _, List.pairwise_singleton _ _, ?_⟩
  intro a ha c hc
  simp only [List.mem_singleton] at hc; subst hc
  simpa using (List.mem_filter.mp ha).2

theorem keysDistinct_dropOld {b : List Proposal} (hd : KeysDistinct b) (m now : Rat) :
    KeysDistinct (dropOld m now b) := by
  unfold KeysDistinct dropOld at *; exact hd.filter _

theorem abs_insert (b : List Proposal) (p : Proposal) (k : Key) :
    absBucket (insertProposal b p) k = if k = p.key then some p else absBucket b k := by
  unfold absBucket insertProposal
  rw [List.find?_append]
  by_cases hk : k = p.key
  · subst hk
    have : (b.filter fun q => decide ¬q.sameKey p).find? (fun q => decide (q.key = p.key)) = none := by
      rw [List.find?_eq_none]
      intro x hx
      have := (List.mem_filter.mp hx).2
      simp only [decide_eq_true_eq] at this
      simpa [sameKey_iff_key] using this
    rw [this]
    simp
  · have h1 : (b.filter fun q => decide ¬q.sameKey p).find? (fun q => decide (q.key = k))
        = b.find? (fun q => decide (q.key = k)) := by
      apply find?_filter_of_imp
      intro x hx
      simp only [decide_eq_true_eq] at hx ⊢
      rw [sameKey_iff_key, hx]; exact hk
    have h2 : ¬ p.key = k := fun h => hk h.symm
    rw [h1]
    simp only [hk, if_false, List.find?_cons, h2, decide_false, List.find?_nil]
    cases b.find? (fun q => decide (q.key = k)) <;> rfl

theorem abs_dropOld {b : List Proposal} (hd : KeysDistinct b) (m now : Rat) (k : Key) :
    absBucket (dropOld m now b) k = (absBucket b k).filter (fun q => decide ¬ (now - q.created > m)) := by
  unfold absBucket dropOld Extracted.Proposal.expired
  induction b with
  | nil => rfl
  | cons x xs ih =>
    have hd' : KeysDistinct xs := (List.pairwise_cons.mp hd).2
    have hx := (List.pairwise_cons.mp hd).1
    by_cases hk : x.key = k
    · by_cases hf : (now - x.created > m)
      · -- x is dropped; nothing else in xs has key k
        have hnone : xs.find? (fun q => decide (q.key = k)) = none := by
          rw [List.find?_eq_none]; intro y hy
          have := hx y hy
          simp only [decide_eq_true_eq]
          intro hyk; exact this (sameKey_iff_key.mpr (hk.trans hyk.symm))
        simp only [List.filter_cons, hf, not_true_eq_false, decide_false, Bool.false_eq_true,
          if_false, List.find?_cons, hk, decide_true, Option.filter]
        rw [ih hd', hnone]; rfl
      · simp [List.filter_cons, hf, List.find?_cons, hk, Option.filter]
    · by_cases hf : (now - x.created > m)
      · simp only [List.filter_cons, hf, not_true_eq_false, decide_false, Bool.false_eq_true,
          if_false, List.find?_cons, hk]
        exact ih hd'
      · simp only [List.filter_cons, hf, not_false_eq_true, decide_true, if_true, List.find?_cons,
          hk, decide_false]
        exact ih hd'

/-- Two key-distinct buckets with the same abstraction are permutations of each other. -/
theorem perm_of_abs_eq {b1 b2 : List Proposal} (h1 : KeysDistinct b1) (h2 : KeysDistinct b2)
    (h : ∀ k, absBucket b1 k = absBucket b2 k) : b1.Perm b2 := by
  rw [List.perm_ext_iff_of_nodup (keysDistinct_nodup h1) (keysDistinct_nodup h2)]
  intro p
  rw [mem_iff_abs h1, mem_iff_abs h2, h]

end Matryoshka
