/-
"Model is source", part 8: `AggregatedBatteryData.__init__` / `_aggregate_battery_power_bounds` are the model's
`aggregate`, and the statement of the whole chain from the raw battery / inverter data.
-/
import Frequenz.Lemmas.DistributionTie7

namespace DistTie
open Dist Extracted.Dist
open Extracted.DistLoops (Dict dictGet dictSet DistResult Pair AggBat InvData PBounds BatData)

def batDataOf (b : Bat) : BatData :=
  { component_id := b.id, capacity := b.cap, soc := b.soc, soc_upper_bound := b.socHi, soc_lower_bound := b.socLo,
    power_inclusion_lower_bound := b.il, power_exclusion_lower_bound := b.el, power_exclusion_upper_bound := b.eu,
    power_inclusion_upper_bound := b.iu }

/-- the id `AggregatedBatteryData` takes: that of the first battery -/
def batId (g : Group) : Int := ((g.bats.map batDataOf).headD default).component_id

/-- the `InvBatPair` the source builds from the raw data of a group -/
def compOf (g : Group) : Pair :=
  { battery := Extracted.DistLoops.aggregatedBatteryData (g.bats.map batDataOf), inverter := g.invs.map invDataOf }

theorem maxL_src (l : List Rat) : Extracted.DistLoops.maxL l = maxL l := by
  cases l <;> rfl

theorem powerBounds_eq_source (bs : List Bat) :
    Extracted.DistLoops.aggregateBatteryPowerBounds ((bs.map batDataOf).map fun x =>
      { inclusion_lower := x.power_inclusion_lower_bound, exclusion_lower := x.power_exclusion_lower_bound,
        exclusion_upper := x.power_exclusion_upper_bound, inclusion_upper := x.power_inclusion_upper_bound : PBounds }) =
      { inclusion_lower := (aggregate bs).il, exclusion_lower := (aggregate bs).el, exclusion_upper := (aggregate bs).eu,
        inclusion_upper := (aggregate bs).iu } := by
  simp [Extracted.DistLoops.aggregateBatteryPowerBounds, aggregate, sumL_src, minL_src, maxL_src, List.map_map,
    Function.comp_def, batDataOf, Rat.intCast_natCast]

/-- `AggregatedBatteryData(batteries)` is the model's `aggregate` -/
theorem aggregate_eq_source (g : Group) : compOf g = pairOf batId g := by
  have hpb := powerBounds_eq_source g.bats
  unfold compOf pairOf Extracted.DistLoops.aggregatedBatteryData
  simp only [hpb]
  have hsum : ∀ f : BatData → Rat, Extracted.DistLoops.sumL ((g.bats.map batDataOf).map f) = sumL (g.bats.map fun b => f (batDataOf b)) := by
    intro f; simp [sumL_src, List.map_map, Function.comp_def]
  simp only [hsum, batDataOf]
  by_cases hc : sumL (g.bats.map (·.cap)) = 0
  · have hc' : ¬ sumL (g.bats.map (·.cap)) ≠ 0 := by simpa using hc
    settle [hc, hc']
    simp [hc, aggregate, Extracted.DistLoops.nanAsZero, batId, batDataOf]
  · have hc' : sumL (g.bats.map (·.cap)) ≠ 0 := hc
    settle [hc, hc']
    simp [hc, aggregate, batId, batDataOf]

theorem comps_eq_source (gs : List Group) : gs.map compOf = gs.map (pairOf batId) :=
  List.map_congr_left fun g _ => aggregate_eq_source g

/-- **The translated source is the model, from the raw data to the result**: `AggregatedBatteryData(...)` for every
battery set, then `distribute_power`, return what `Dist.distribute` returns (`SameDict`: both raise, or the same
`remaining_power` and the same `distribution` dictionary), for every request — no condition on the numbers — and for
every fuel of the deficit-covering `while` from `number of pairs + 1` on (so the fuel is not a restriction).
Hypotheses: the ids of the first batteries and of the inverters are distinct, every inverter set is non-empty, and
`Group.invs` is listed in the iteration order of the `frozenset` of its ids (`fsOrder`, the only oracle). -/
theorem model_is_source (m : Nat) (fsOrder : List Int → List Int) (inp : Input)
    (hfs : FsOrderOK fsOrder inp.groups) (hnd : (keysL batId inp.groups).Nodup) (hne : ∀ g ∈ inp.groups, g.invs ≠ []) :
    SameDict (Extracted.DistLoops.distributePowerTop inp.exp fsOrder (inp.groups.length + 1 + m) inp.power (inp.groups.map compOf))
      ((distribute inp).map resultOf) := by
  rw [comps_eq_source]
  exact distribute_is_source m fsOrder batId inp hfs hnd hne

end DistTie
