/-
Shunting-yard correctness for the token streams of the composition API (`_BaseHOFormulaBuilder._push`,
`consumption`, `production`) — serves C05, C13.

`_push` parenthesises its left operand and every builder right operand, so when an operator is pushed the top of
the build stack is `(` or the stack is empty.  The only facts about the table that matter are therefore:
`)` is ranked after every operator (it pops them all) and not before `(`.
-/
import Frequenz.Lemmas.ShuntingGrammar

namespace Formula

open Extracted.Formula (prec)

set_option linter.unusedSimpArgs false

theorem unop_ne (u : UnOp) : u.toOp ≠ .lp ∧ u.toOp ≠ .rp := by
  cases u <;> simp [UnOp.toOp]

theorem rp_pops_bin (o : BinOp) : Pops .rp o.toOp := by
  cases o <;> (refine ⟨?_, ?_⟩ <;> decide)

theorem rp_pops_un (u : UnOp) : Pops .rp u.toOp := by
  cases u <;> (refine ⟨?_, ?_⟩ <;> decide)

theorem junk_single {p : Op} (h : Pops .rp p) : Junk PR [p] := by
  refine junk_of_pops ?_
  intro o ho q hq
  cases ho
  simp at hq
  subst hq
  exact h

section
variable (z : Bool) (env : Env)

def GoalH (h : HO) : Prop := ElemOK env PR CtxE (h.toks z) (evalAst (fun _ => z) env h.ast)

/-- `( <b> )`: after the closing parenthesis the stack is as before and the code of `b` is complete. -/
theorem paren_clean {b : HO} (hb : GoalH z env b) (S : List Op) (O : List Step) :
    ∃ c, shuntS (.oper .lp :: b.toks z ++ [.oper .rp]) (S, O) = (S, O ++ c) ∧
      Sem1 env c (evalAst (fun _ => z) env b.ast) := by
  obtain ⟨J, c, hsh, hJ, hsem⟩ := hb (.lp :: S) O (Or.inr ⟨S, rfl⟩)
  refine ⟨c ++ flush J, ?_, hsem⟩
  simp only [shuntS_append, shuntS_cons, shuntS_nil, stepS, pushOperS_lp, hsh, pushOperS_rp]
  rw [hJ .rp rfl, popLoop_rp_lp, List.append_assoc]

/-- `( <b> ) o`: the operator lands on the stack it found (bottom or `(`). -/
theorem paren_op {b : HO} (hb : GoalH z env b) {S : List Op} (hS : CtxE S) (O : List Step) (o : Op)
    (h1 : o ≠ .lp) (h2 : o ≠ .rp) :
    ∃ c, shuntS (.oper .lp :: b.toks z ++ [.oper .rp, .oper o]) (S, O) = (o :: S, O ++ c) ∧
      Sem1 env c (evalAst (fun _ => z) env b.ast) := by
  obtain ⟨c, hsh, hsem⟩ := paren_clean z env hb S O
  refine ⟨c, ?_, hsem⟩
  have : (Tok.oper Op.lp :: b.toks z ++ [Tok.oper Op.rp, Tok.oper o]) =
      (Tok.oper Op.lp :: b.toks z ++ [Tok.oper Op.rp]) ++ [Tok.oper o] := by simp
  rw [this, shuntS_append, hsh]
  simp only [shuntS_cons, shuntS_nil, stepS, pushOperS_of_ne h1 h2, popLoop_stops (ctxE_stops hS h2)]

theorem goalH_start (n : Nat) : GoalH z env (.start n) := by
  intro S O _
  refine ⟨[], [.metric n z], rfl, junk_nil _, ?_⟩
  intro vs; rfl

theorem goalH_pushEng (b : HO) (o : BinOp) (n : Nat) (hb : GoalH z env b) : GoalH z env (.pushEng b o n) := by
  intro S O hS
  obtain ⟨c, hsh, hsem⟩ := paren_op z env hb hS O o.toOp (binop_ne o).1 (binop_ne o).2
  refine ⟨[o.toOp], c ++ [.metric n z], ?_, junk_single (rp_pops_bin o), ?_⟩
  · have : HO.toks z (.pushEng b o n) =
        (Tok.oper Op.lp :: b.toks z ++ [Tok.oper Op.rp, Tok.oper o.toOp]) ++ [Tok.metric n z] := by
      simp [HO.toks]
    rw [this, shuntS_append, hsh]
    simp [shuntS_cons, shuntS_nil, stepS, List.append_assoc]
  · have h2 : Sem1 env [Step.metric n z] (evalAst (fun _ => z) env (Ast.metric n)) := fun vs => rfl
    simpa [flush, HO.ast, evalAst_bin] using sem2_op o (sem1_sem1 hsem h2)

theorem goalH_pushConst (b : HO) (o : BinOp) (k : Rat) (hb : GoalH z env b) : GoalH z env (.pushConst b o k) := by
  intro S O hS
  obtain ⟨c, hsh, hsem⟩ := paren_op z env hb hS O o.toOp (binop_ne o).1 (binop_ne o).2
  refine ⟨[o.toOp], c ++ [.const k], ?_, junk_single (rp_pops_bin o), ?_⟩
  · have : HO.toks z (.pushConst b o k) =
        (Tok.oper Op.lp :: b.toks z ++ [Tok.oper Op.rp, Tok.oper o.toOp]) ++ [Tok.const k] := by
      simp [HO.toks]
    rw [this, shuntS_append, hsh]
    simp [shuntS_cons, shuntS_nil, stepS, List.append_assoc]
  · have h2 : Sem1 env [Step.const k] (evalAst (fun _ => z) env (Ast.const k)) := fun vs => rfl
    simpa [flush, HO.ast, evalAst_bin] using sem2_op o (sem1_sem1 hsem h2)

theorem goalH_pushB (b : HO) (o : BinOp) (r : HO) (hb : GoalH z env b) (hr : GoalH z env r) :
    GoalH z env (.pushB b o r) := by
  intro S O hS
  obtain ⟨c, hsh, hsem⟩ := paren_op z env hb hS O o.toOp (binop_ne o).1 (binop_ne o).2
  obtain ⟨c2, hsh2, hsem2⟩ := paren_clean z env hr (o.toOp :: S) (O ++ c)
  refine ⟨[o.toOp], c ++ c2, ?_, junk_single (rp_pops_bin o), ?_⟩
  · have : HO.toks z (.pushB b o r) =
        (Tok.oper Op.lp :: b.toks z ++ [Tok.oper Op.rp, Tok.oper o.toOp]) ++
          (Tok.oper Op.lp :: r.toks z ++ [Tok.oper Op.rp]) := by
      simp [HO.toks]
    rw [this, shuntS_append, hsh, hsh2]
    simp [List.append_assoc]
  · simpa [flush, HO.ast, evalAst_bin] using sem2_op o (sem1_sem1 hsem hsem2)

theorem goalH_un (b : HO) (u : UnOp) (hb : GoalH z env b) : GoalH z env (.un b u) := by
  intro S O hS
  obtain ⟨c, hsh, hsem⟩ := paren_op z env hb hS O u.toOp (unop_ne u).1 (unop_ne u).2
  refine ⟨[u.toOp], c, ?_, junk_single (rp_pops_un u), ?_⟩
  · simpa [HO.toks] using hsh
  · simpa [flush, HO.ast, evalAst] using sem1_un u hsem

theorem goalH_all (h : HO) : GoalH z env h := by
  induction h with
  | start n => exact goalH_start z env n
  | pushEng b o n ih => exact goalH_pushEng z env b o n ih
  | pushConst b o k ih => exact goalH_pushConst z env b o k ih
  | pushB b o r ihb ihr => exact goalH_pushB z env b o r ihb ihr
  | un b u ih => exact goalH_un z env b u ih

/-- The compiled postfix of any composition-API expression evaluates to the value of its tree. -/
theorem api_core (h : HO) :
    run (finalizeS (shuntS (h.toks z) ([], []))) env = evalAst (fun _ => z) env h.ast := by
  obtain ⟨J, c, hsh, _, hsem⟩ := goalH_all z env h [] [] (Or.inl rfl)
  rw [hsh]
  simpa [finalizeS] using run_of_sem1 env hsem

end

end Formula
