/-
Helper lemmas for C14 (serves: C14).  Closed forms of `step` under the extracted policy, snoc lemmas for
the run and for the observable functions, and the invariant that links the model state to the trace.
-/
import Frequenz.Model.Distributor

namespace Distributor

open Extracted.Distributor (policy)

/-! ## `upd` -/

@[simp] theorem upd_same (f : Group → Option Req) (g : Group) (v : Option Req) : upd f g v g = v := by
  simp [upd]

@[simp] theorem upd_other (f : Group → Option Req) {g g' : Group} (v : Option Req) (h : g' ≠ g) :
    upd f g v g' = f g' := by
  simp [upd, h]

/-! ## closed forms of `step` for the policy of the current source tree -/

theorem step_arrive_idle (s : State) (g : Group) (r : Req) (h : s.processing g = none) :
    step s (.arrive g r) = ({ s with processing := upd s.processing g (some r) }, [Out.start g r]) := by
  simp [step, stepP, policy, startReq, h]

theorem step_arrive_busy (s : State) (g : Group) (r r0 : Req) (h : s.processing g = some r0) :
    step s (.arrive g r) = ({ s with pending := upd s.pending g (some r) }, []) := by
  simp [step, stepP, policy, h]

theorem step_complete_pending (s : State) (g : Group) (o : Outcome) (r : Req) (h : s.pending g = some r) :
    step s (.complete g o) =
      ({ processing := upd s.processing g (some r), pending := upd s.pending g none }, [Out.start g r]) := by
  simp [step, stepP, policy, startReq, h]

theorem step_complete_nopending (s : State) (g : Group) (o : Outcome) (h : s.pending g = none) :
    (step s (.complete g o)).2 = [] ∧
    (step s (.complete g o)).1.pending = s.pending ∧
    (step s (.complete g o)).1.processing g = none ∧
    (∀ g', g' ≠ g → (step s (.complete g o)).1.processing g' = s.processing g') := by
  cases hp : s.processing g with
  | none => simp [step, stepP, policy, h, hp]
  | some r0 =>
    simp [step, stepP, policy, h, hp, clearProcessing]
    intro g' hg
    simp [upd, hg]

/-- An event of another group does not touch group `g`. -/
theorem step_other (s : State) (e : Event) (g : Group) (h : e.group ≠ g) :
    (step s e).1.processing g = s.processing g ∧ (step s e).1.pending g = s.pending g ∧
    (step s e).2.filterMap (outReq g) = [] := by
  cases e with
  | arrive g' r =>
    have hg : g ≠ g' := fun h' => h (by simp [Event.group, h'])
    have hg' : g' ≠ g := fun h' => hg h'.symm
    cases hp : s.processing g' with
    | none => simp [step_arrive_idle s g' r hp, upd, hg, outReq, hg']
    | some r0 => simp [step_arrive_busy s g' r r0 hp, upd, hg]
  | complete g' o =>
    have hg : g ≠ g' := fun h' => h (by simp [Event.group, h'])
    have hg' : g' ≠ g := fun h' => hg h'.symm
    cases hp : s.pending g' with
    | some r => simp [step_complete_pending s g' o r hp, upd, hg, outReq, hg']
    | none =>
      obtain ⟨h1, h2, _, h4⟩ := step_complete_nopending s g' o hp
      simp [h1, h2, h4 g hg]

/-- What a step does to group `g` only depends on the state of group `g`. -/
theorem step_local (s s' : State) (e : Event) (g : Group) (he : e.group = g)
    (h1 : s.processing g = s'.processing g) (h2 : s.pending g = s'.pending g) :
    (step s e).2 = (step s' e).2 ∧ (step s e).1.processing g = (step s' e).1.processing g ∧
    (step s e).1.pending g = (step s' e).1.pending g := by
  cases e with
  | arrive g' r =>
    have : g' = g := by simpa [Event.group] using he
    subst this
    cases hp : s.processing g' with
    | none =>
      have hp' : s'.processing g' = none := by rw [← h1]; exact hp
      simp [step_arrive_idle s g' r hp, step_arrive_idle s' g' r hp', h2]
    | some r0 =>
      have hp' : s'.processing g' = some r0 := by rw [← h1]; exact hp
      simp [step_arrive_busy s g' r r0 hp, step_arrive_busy s' g' r r0 hp', h1]
  | complete g' o =>
    have : g' = g := by simpa [Event.group] using he
    subst this
    cases hp : s.pending g' with
    | some r =>
      have hp' : s'.pending g' = some r := by rw [← h2]; exact hp
      simp [step_complete_pending s g' o r hp, step_complete_pending s' g' o r hp']
    | none =>
      have hp' : s'.pending g' = none := by rw [← h2]; exact hp
      obtain ⟨a1, a2, a3, _⟩ := step_complete_nopending s g' o hp
      obtain ⟨b1, b2, b3, _⟩ := step_complete_nopending s' g' o hp'
      simp [a1, a2, a3, b1, b2, b3, h2]

/-! ## snoc lemmas -/

theorem run_snoc (es : List Event) (e : Event) : run (es ++ [e]) = stepAcc (run es) e := by
  simp [run, runFrom, List.foldl_append]

theorem final_snoc (es : List Event) (e : Event) : final (es ++ [e]) = (step (final es) e).1 := by
  simp [final, run_snoc, stepAcc]

theorem trace_snoc (es : List Event) (e : Event) :
    trace (es ++ [e]) = trace es ++ [(e, (step (final es) e).2)] := by
  simp [trace, final, run_snoc, stepAcc]

@[simp] theorem final_nil : final [] = init := rfl
@[simp] theorem trace_nil : trace [] = [] := rfl

theorem startsOf_snoc (g : Group) (t : Trace) (x : Event × List Out) :
    startsOf g (t ++ [x]) = startsOf g t ++ x.2.filterMap (outReq g) := by
  simp [startsOf, List.flatMap_append]

theorem arrivalsOf_snoc (g : Group) (t : Trace) (x : Event × List Out) :
    arrivalsOf g (t ++ [x]) = arrivalsOf g t ++ (arrivalReq g x.1).toList := by
  cases h : arrivalReq g x.1 <;> simp [arrivalsOf, List.filterMap_append, List.filterMap, h]

theorem completesOf_snoc (g : Group) (t : Trace) (x : Event × List Out) :
    completesOf g (t ++ [x]) = completesOf g t + (if isCompleteOf g x.1 then 1 else 0) := by
  cases h : isCompleteOf g x.1 <;> simp [completesOf, List.filter_append, List.filter, h]

theorem waitingOf_snoc (g : Group) (t : Trace) (x : Event × List Out) :
    waitingOf g (t ++ [x]) = waitingStep g (waitingOf g t) x := by
  simp [waitingOf, List.foldl_append]

theorem inFlight_snoc (g : Group) (t : Trace) (x : Event × List Out) :
    inFlight g (t ++ [x]) =
      inFlight g t + ((x.2.filterMap (outReq g)).length : Int) - (if isCompleteOf g x.1 then 1 else 0) := by
  simp only [inFlight, startsOf_snoc, completesOf_snoc, List.length_append]
  cases isCompleteOf g x.1 <;> simp <;> omega

end Distributor
