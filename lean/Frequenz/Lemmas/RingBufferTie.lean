/-
"Model is source" for the ring buffer (C09): the hand-written model functions of `Model/RingBuffer.lean` /
`Model/RingBufferQuery.lean` are EQUAL, for all arguments, to the machine translation of the current source text of
`_ringbuffer/buffer.py` (`Extracted/RingBufferLoops.lean`, regenerated on every run by `tools/extractors/ringbuffer_loops.py`:
whole method bodies, statement by statement — in-place mutation of the gap list through aliases as index updates, the
`while` loop of `_cleanup_gaps` as a fuel-indexed recursion, early returns, `next(filter(…enumerate…))` as `findIdx?`).

Time is instantiated as in the model: stored timestamps are slot numbers, `period = 1`.
-/
import Frequenz.Lemmas.RingBufferQuery
import Frequenz.Extracted.RingBufferLoops
import Mathlib.Tactic.SplitIfs

set_option linter.unusedSimpArgs false
set_option linter.unusedVariables false

namespace RingBufferTie
open RingBuffer Extracted.RingBuffer Extracted.RingBufferQuery

/-! Short names for the translated functions. -/
local notation "srcContains" => Extracted.RingBufferLoops.contains
local notation "srcIsMissing" => Extracted.RingBufferLoops.isMissing
local notation "srcRemoveGap" => Extracted.RingBufferLoops.removeGap
local notation "srcCleanupLoop" => Extracted.RingBufferLoops.cleanupGaps_loop1
local notation "srcCleanupGaps" => Extracted.RingBufferLoops.cleanupGaps
local notation "srcUpdateGaps" => Extracted.RingBufferLoops.updateGaps
local notation "srcNormalize" => Extracted.RingBufferLoops.normalizeTimestamp
local notation "srcHasValue" => Extracted.RingBufferLoops.hasValue
local notation "srcWrap" => Extracted.RingBufferLoops.wrap
local notation "srcToInternalIndex" => Extracted.RingBufferLoops.toInternalIndex
local notation "srcUpdate" => Extracted.RingBufferLoops.update
local notation "srcUpdateAbs" => Extracted.RingBufferLoops.updateAbs
local notation "srcCountValid" => Extracted.RingBufferLoops.countValid
local notation "srcOldestTs" => Extracted.RingBufferLoops.oldestTimestamp
local notation "srcNewestTs" => Extracted.RingBufferLoops.newestTimestamp
local notation "srcCoveredRange" => Extracted.RingBufferLoops.coveredTimeRange
local notation "srcCountCovered" => Extracted.RingBufferLoops.countCovered
local notation "srcGetTimestamp" => Extracted.RingBufferLoops.getTimestamp
local notation "srcToCoveredIndices" => Extracted.RingBufferLoops.toCoveredIndices
local notation "srcWrapped" => Extracted.RingBufferLoops.wrappedBufferWindow
local notation "srcFillGaps" => Extracted.RingBufferLoops.fillGaps
local notation "srcWindowDt" => Extracted.RingBufferLoops.windowDt
local notation "srcWindowIdx" => Extracted.RingBufferLoops.windowIdx
local notation "srcAtTs" => Extracted.RingBufferLoops.atTs
local notation "srcAtIdx" => Extracted.RingBufferLoops.atIdx

/-! ### `Gap.contains`, `is_missing` -/

theorem contains_eq (s e t : Int) : srcContains s e t = decide (gapContains s e t) := by
  unfold Extracted.RingBufferLoops.contains
  rw [decide_eq_decide, gapContains_iff]
  omega

theorem isMissing_eq (gaps : List Gap) (t : Int) : srcIsMissing gaps t = isMissing gaps t := by
  unfold Extracted.RingBufferLoops.isMissing isMissing
  congr 1
  funext g
  rw [contains_eq]
  simp

/-! ### `_remove_gap` -/

/-- The translated `_remove_gap` on `g :: gs`: decided at the head, or the head is kept and the tail is searched. -/
theorem srcRemoveGap_cons (g : Gap) (gs : List Gap) (t : Int) :
    srcRemoveGap 1 (g :: gs) t =
      if gapContains g.1 g.2 t then
        if g.1 = t then (if g.2 = t + 1 then gs else (t + 1, g.2) :: gs)
        else if g.2 - 1 = t then (g.1, t) :: gs
        else (g.1, t) :: (gs ++ [(t + 1, g.2)])
      else g :: srcRemoveGap 1 gs t := by
  unfold Extracted.RingBufferLoops.removeGap
  simp only [List.findIdx?_cons, contains_eq, decide_eq_true_eq]
  by_cases h : gapContains g.1 g.2 t
  · simp only [h, if_true, decide_true, Option.isSome_some, Int.toNat_zero, Int.cast_ofNat_Int,
      List.getD_cons_zero, List.eraseIdx_cons_zero, List.set_cons_zero, List.cons_append]
    try (split_ifs <;> first | rfl | (exfalso; omega) | (simp; done))
  · simp only [h, if_false, decide_false]
    cases hf : gs.findIdx? (fun g => decide (gapContains g.1 g.2 t)) with
    | none => simp
    | some j =>
      simp only [Option.map_some, Option.isSome_some, if_true]
      have e1 : (((j + 1 : Nat) : Int)).toNat = j + 1 := by omega
      have e2 : ((j : Nat) : Int).toNat = j := by omega
      simp only [e1, e2, List.getD_cons_succ, List.eraseIdx_cons_succ, List.set_cons_succ, List.cons_append]
      split_ifs <;> rfl

theorem removeGap_eq (gaps : List Gap) (t : Int) : srcRemoveGap 1 gaps t = removeGap gaps t := by
  induction gaps with
  | nil => simp [Extracted.RingBufferLoops.removeGap, removeGap]
  | cons g gs ih =>
    rw [srcRemoveGap_cons, ih]
    simp only [removeGap, rgAtStart_iff, rgWhole_iff, rgAtEnd_iff, rgAfter_eq, rgAfterSplit_eq]

/-! ### `_cleanup_gaps`: the `while` loop over an index vs the model's recursion on the rest of the list -/

section listfacts
variable {β : Type} (pre : List β) (a b d : β) (r : List β)

theorem getD_at_length : (pre ++ a :: r).getD pre.length d = a := by
  simp [List.getD_eq_getElem?_getD]

theorem getD_at_length_succ : (pre ++ a :: b :: r).getD (pre.length + 1) d = b := by
  simp [List.getD_eq_getElem?_getD, List.getElem?_append_right]

theorem eraseIdx_at_length : (pre ++ a :: r).eraseIdx pre.length = pre ++ r := by
  rw [List.eraseIdx_append_of_length_le (Nat.le_refl _)]; simp

theorem eraseIdx_at_length_succ : (pre ++ a :: b :: r).eraseIdx (pre.length + 1) = pre ++ a :: r := by
  rw [List.eraseIdx_append_of_length_le (by omega)]; simp

theorem set_at_length (x : β) : (pre ++ a :: r).set pre.length x = pre ++ x :: r := by
  rw [List.set_append_right _ _ (Nat.le_refl _)]; simp
end listfacts

/-- With the elements before index `i` final (the loop never looks back), the translated loop at index `i = |pre|` does
to the rest of the list what the model's `cleanupLoop` does — for EVERY amount of fuel. -/
theorem cleanupLoop_eq (o : Int) (fuel : Nat) (pre rest : List Gap) :
    (srcCleanupLoop o fuel (pre ++ rest) pre.length).1 = pre ++ cleanupLoop o fuel rest := by
  induction fuel generalizing pre rest with
  | zero => simp [Extracted.RingBufferLoops.cleanupGaps_loop1, cleanupLoop]
  | succ fuel ih =>
    cases rest with
    | nil => simp [Extracted.RingBufferLoops.cleanupGaps_loop1, cleanupLoop]
    | cons w1 rest =>
      have e0 : ((pre.length : Nat) : Int).toNat = pre.length := by omega
      have e1 : (((pre.length : Nat) : Int) + 1).toNat = pre.length + 1 := by omega
      have hlt : ((pre.length : Nat) : Int) < ((pre ++ w1 :: rest).length : Int) := by
        simp only [List.length_append, List.length_cons]; omega
      -- the next iteration after `i += 1`: the prefix grows by `w1`
      have adv : ∀ r : List Gap,
          (srcCleanupLoop o fuel (pre ++ w1 :: r) (((pre.length : Nat) : Int) + 1)).1 = pre ++ w1 :: cleanupLoop o fuel r := by
        intro r
        have h := ih (pre ++ [w1]) r
        have hl : (((pre ++ [w1]).length : Nat) : Int) = ((pre.length : Nat) : Int) + 1 := by
          simp only [List.length_append, List.length_cons, List.length_nil]; omega
        rw [hl] at h
        simpa [List.append_assoc] using h
      unfold Extracted.RingBufferLoops.cleanupGaps_loop1
      simp only [hlt, if_true, e0, e1, getD_at_length]
      cases rest with
      | nil =>
        have h2 : ¬ (((pre.length : Nat) : Int) < ((pre ++ [w1]).length : Int) - 1) := by
          simp only [List.length_append, List.length_cons, List.length_nil]; omega
        simp only [h2, if_false, cleanupLoop, clOutdated_iff, clRolled_iff]
        split_ifs <;> first
          | (exfalso; omega)
          | (rw [eraseIdx_at_length]; simpa using ih pre [])
          | (rw [set_at_length]; exact ih pre _)
          | (rw [adv []]; cases fuel <;> simp [cleanupLoop])
      | cons w2 rest =>
        have h2 : ((pre.length : Nat) : Int) < ((pre ++ w1 :: w2 :: rest).length : Int) - 1 := by
          simp only [List.length_append, List.length_cons]; omega
        simp only [h2, if_true, getD_at_length_succ, cleanupLoop, clOutdated_iff, clRolled_iff, clSubset_iff, clNeighbor_iff]
        split_ifs <;> first
          | (exfalso; omega)
          | (rw [eraseIdx_at_length]; exact ih pre _)
          | (rw [set_at_length, eraseIdx_at_length_succ]; exact ih pre _)
          | (rw [set_at_length]; exact ih pre _)
          | (rw [eraseIdx_at_length_succ]; exact ih pre _)
          | exact adv _

theorem cleanupGaps_eq (gaps : List Gap) (o : Int) : srcCleanupGaps gaps o = cleanupGaps o gaps := by
  unfold Extracted.RingBufferLoops.cleanupGaps cleanupGaps
  have h := cleanupLoop_eq o (2 * (sortGaps gaps).length + 2) [] (sortGaps gaps)
  simp only [List.nil_append, List.length_nil] at h
  rw [(sortGaps_perm gaps).length_eq] at h
  simpa [(sortGaps_perm gaps).length_eq] using h

/-! ### `_update_gaps` -/

/-- A timestamp found in some gap means the gap list is not empty (makes the `len(self._gaps) > 0` guard of
`_update_gaps` redundant, so a source without it has the same translation up to this lemma). -/
theorem isMissing_pos (gaps : List Gap) (t : Int) (h : isMissing gaps t = true) : 0 < gaps.length := by
  cases gaps with
  | nil => simp [isMissing] at h
  | cons g gs => simp

theorem updateGaps_eq (fr : Int) (gaps : List Gap) (t newest sn o : Int) (rec : Bool) :
    srcUpdateGaps 1 fr gaps sn o t newest rec = updateGaps fr gaps t newest sn o rec := by
  unfold Extracted.RingBufferLoops.updateGaps updateGaps
  simp only [isMissing_eq, removeGap_eq, cleanupGaps_eq, ugJump_iff, ugCreated_iff, ugJumpStart_eq, ugJumpEnd_eq,
    ugCreatedStart_eq, ugCreatedEnd_eq, ugMissingStart_eq, ugMissingEnd_eq, List.length_append, List.length_cons,
    List.length_nil]
  cases rec <;> cases hf : isMissing gaps t <;> simp <;> split_ifs <;> first | rfl | (exfalso; omega) | (simp; done) |
    (exfalso; have := isMissing_pos gaps t hf; omega)

/-! ### `normalize_timestamp`, `has_value`, `wrap`, `to_internal_index` -/

/-- `normalize_timestamp` in microseconds is the timestamp of the slot `normSlot` computes. -/
theorem normalize_eq (c : Cfg) (ts : Int) : srcNormalize c.period c.align ts = slotTime c (normSlot c ts) := by
  unfold Extracted.RingBufferLoops.normalizeTimestamp normSlot slotTime
  simp only [normRoundUp_iff]
  split_ifs <;> first | rfl | (exfalso; omega)

/-- On slot numbers (`period = 1`, `align = 0`) `normalize_timestamp` is the identity. -/
theorem normalize_slot (t : Int) : srcNormalize 1 0 t = t := by
  unfold Extracted.RingBufferLoops.normalizeTimestamp
  have h : (t - 0) % 1 = 0 := by omega
  simp [h]

theorem hasValue_eq {α : Type} (ts : Int) (isNone isNan : Bool) (base : α) :
    srcHasValue ts isNone isNan base = (!isNone && !isNan) := by
  unfold Extracted.RingBufferLoops.hasValue
  cases isNone <;> cases isNan <;> simp

theorem toInternalIndex_slot {α : Type} (buffer : List (Option α)) (hb : 1 ≤ buffer.length) (n o t : Int) :
    srcToInternalIndex 1 0 buffer n o t false =
      if tiiOutside t n o 1 then none else some ((wrapIdx buffer.length t : Nat) : Int) := by
  unfold Extracted.RingBufferLoops.toInternalIndex Extracted.RingBufferLoops.wrap Extracted.RingBufferLoops.maxlen wrapIdx
  simp only [normalize_slot, tiiOutside_iff]
  have hpos : (0 : Int) ≤ t % (buffer.length : Int) := Int.emod_nonneg _ (by omega)
  split_ifs <;> first | rfl | (exfalso; omega) | (simp only [Int.sub_zero, Int.ediv_one, Int.toNat_of_nonneg hpos]; done) | (exfalso; simp_all; done)

/-! ### `update` -/

/-- What `update` stores for a sample whose value is None / NaN / valid. -/
def storedValue {α : Type} (isNone isNan : Bool) (base : α) : Option α :=
  if (!isNone && !isNan) = true then some base else none

/-- `update` on a buffer that already holds a newest slot `n` (stored timestamps as slot numbers, `period = 1`,
`_full_time_range = capacity`): IndexError exactly when the model rejects, otherwise the model's new container,
gap list and window bounds. -/
theorem update_slot_some {α : Type} (s : State α) (hlen : s.cap = s.slots.length) (hcap : 1 ≤ s.cap) (n : Int)
    (hn : s.newest = some n) (tsMax : Int) (hmax : oldestOf s.cap n ≠ tsMax) (t : Int) (isNone isNan : Bool) (base : α) :
    srcUpdate 1 (s.cap : Int) 0 tsMax s.slots s.gaps n (oldestOf s.cap n) t isNone isNan base =
      if (updateSlot s t (storedValue isNone isNan base)).2 = true then none
      else some ((updateSlot s t (storedValue isNone isNan base)).1.slots,
                 (updateSlot s t (storedValue isNone isNan base)).1.gaps, max n t, oldestOf s.cap (max n t)) := by
  have hb : 1 ≤ s.slots.length := by omega
  unfold Extracted.RingBufferLoops.update updateSlot storedValue
  simp only [hn, normalize_slot, hasValue_eq, updReject_iff, updNewest_eq, oldestOf_eq, updateGaps_eq,
    toInternalIndex_slot _ hb, tiiOutside_iff, Option.isNone_some, hlen]
  by_cases hr : t < n - ((s.slots.length : Int) - 1)
  · simp [hr, hmax, oldestOf_eq, hlen] at *
    omega
  · have h1 : ¬ (max n t + 1 < t ∨ t < max n t - ((s.slots.length : Int) - 1)) := by omega
    have hpos : (0 : Int) ≤ t % (s.slots.length : Int) := Int.emod_nonneg _ (by omega)
    have hmx : max (t % (s.slots.length : Int)) 0 = t % (s.slots.length : Int) := by omega
    cases isNone <;> cases isNan <;> simp [hr, h1, wrapIdx, hmx]

/-- `_cleanup_gaps` of a single gap that reaches into the window. -/
theorem cleanupGaps_single (o a b : Int) (ha : a ≤ o) (hb : o < b) : cleanupGaps o [(a, b)] = [(o, b)] := by
  have h2 : ¬ b ≤ o := by omega
  have h3 : ¬ o < o := by omega
  by_cases h : a < o
  · simp [cleanupGaps, sortGaps, insertGap, cleanupLoop, clOutdated_iff, clRolled_iff, h, h2, h3]
  · have : a = o := by omega
    subst this
    simp [cleanupGaps, sortGaps, insertGap, cleanupLoop, clOutdated_iff, clRolled_iff, h2, h3]

/-- `update` on the FRESH buffer (`_timestamp_newest = _TIMESTAMP_MIN =: m`, `_timestamp_oldest = _TIMESTAMP_MAX`, no gaps):
never rejected; the result is the model's, whatever `m` is as long as it lies at least a full window before the
sample (the model represents `_TIMESTAMP_MIN` by `t - capacity`). -/
theorem update_slot_fresh {α : Type} (s : State α) (hlen : s.cap = s.slots.length) (hcap : 1 ≤ s.cap)
    (hn : s.newest = none) (hg : s.gaps = []) (tsMax m t : Int) (hm : m ≤ t - s.cap) (isNone isNan : Bool) (base : α) :
    srcUpdate 1 (s.cap : Int) 0 tsMax s.slots s.gaps m tsMax t isNone isNan base =
      some ((updateSlot s t (storedValue isNone isNan base)).1.slots,
            (updateSlot s t (storedValue isNone isNan base)).1.gaps, t, oldestOf s.cap t)
    ∧ (updateSlot s t (storedValue isNone isNan base)).2 = false := by
  have hb : 1 ≤ s.slots.length := by omega
  have hpos : (0 : Int) ≤ t % (s.slots.length : Int) := Int.emod_nonneg _ (by omega)
  have hmx : max (t % (s.slots.length : Int)) 0 = t % (s.slots.length : Int) := by omega
  have e1 : max m t = t := by omega
  have e2 : max (t - (s.slots.length : Int)) t = t := by omega
  have h1 : ¬ (t + 1 < t ∨ t < t - ((s.slots.length : Int) - 1)) := by omega
  unfold Extracted.RingBufferLoops.update updateSlot storedValue
  simp only [hn, hg, normalize_slot, hasValue_eq, updReject_iff, updNewest_eq, oldestOf_eq, updateGaps_eq,
    toInternalIndex_slot _ hb, tiiOutside_iff, Option.isNone_none, hlen, e1, e2]
  -- the gap list does not depend on how far back `_TIMESTAMP_MIN` lies
  have hgaps : ∀ rec : Bool,
      updateGaps (s.slots.length : Int) [] t m t (t - ((s.slots.length : Int) - 1)) rec =
      updateGaps (s.slots.length : Int) [] t (t - (s.slots.length : Int)) t (t - ((s.slots.length : Int) - 1)) rec := by
    intro rec
    unfold updateGaps
    simp only [isMissing_nil, ugJump_iff, ugCreated_iff, ugMissingStart_eq, ugMissingEnd_eq, ugJumpStart_eq, ugJumpEnd_eq,
      List.nil_append, List.length_nil]
    cases rec
    · have j1 : t - m ≥ (s.slots.length : Int) := by omega
      have j2 : t - (t - (s.slots.length : Int)) ≥ (s.slots.length : Int) := by omega
      simp [j1, j2]
    · simp only [Bool.true_eq_false, false_and, if_false, if_true, List.nil_append]
      have a1 : min (m + 1) t ≤ t - ((s.slots.length : Int) - 1) := by omega
      have a2 : min (t - (s.slots.length : Int) + 1) t ≤ t - ((s.slots.length : Int) - 1) := by omega
      have a3 : t - ((s.slots.length : Int) - 1) < t + 1 := by omega
      rw [cleanupGaps_single _ _ _ a1 a3, cleanupGaps_single _ _ _ a2 a3]
  cases isNone <;> cases isNan <;> simp [h1, wrapIdx, hmx, hgaps]

/-! ### The query side, in microseconds

The object state as the code holds it: gap bounds, `_timestamp_newest`, `_timestamp_oldest` are datetimes
`align + k·period`; the fresh buffer has `_timestamp_newest = _TIMESTAMP_MIN`. -/

/-- A gap of the model (slot numbers) as the code stores it (timestamps). -/
def usGaps (c : Cfg) (l : List Gap) : List Gap := l.map (fun g => (slotTime c g.1, slotTime c g.2))

/-- `_timestamp_newest` / `_timestamp_oldest` of a model state (`tsMin`, `tsMax`: the sentinels of the fresh buffer). -/
def usNewest {α : Type} (c : Cfg) (tsMin : Int) (s : State α) : Int :=
  match s.newest with | some n => slotTime c n | none => tsMin
def usOldest {α : Type} (c : Cfg) (tsMax : Int) (s : State α) : Int :=
  match s.newest with | some n => slotTime c (oldestOf s.cap n) | none => tsMax

/-- What the ties assume about the representation: a positive period, the container has the capacity's length (≥ 1),
and no stored timestamp coincides with the sentinel `_TIMESTAMP_MIN`. -/
structure Rep {α : Type} (c : Cfg) (tsMin : Int) (s : State α) : Prop where
  period : 0 < c.period
  len : s.cap = s.slots.length
  cap : 1 ≤ s.cap
  ne : ∀ n, s.newest = some n → slotTime c n ≠ tsMin

theorem isMissing_us (c : Cfg) (hp : 0 < c.period) (gaps : List Gap) (k : Int) :
    srcIsMissing (usGaps c gaps) (slotTime c k) = isMissing gaps k := by
  rw [isMissing_eq]
  unfold isMissing usGaps
  rw [List.any_map]
  congr 1
  funext g
  simp only [Function.comp, gapContains_iff, slotTime_le_iff c hp, slotTime_lt_iff c hp]

theorem slot_of_time (c : Cfg) (hp : 0 < c.period) (k : Int) : (slotTime c k - c.align) / c.period = k := by
  unfold slotTime
  have e : c.align + k * c.period - c.align = k * c.period := by omega
  rw [e, Int.mul_ediv_cancel _ (by omega)]

/-- `to_internal_index` on the microsecond state: the range test is `tiiOutside` on slot numbers, the position is
`wrap` of the slot of the timestamp. -/
theorem toInternalIndex_us {α : Type} (c : Cfg) (hp : 0 < c.period) (buffer : List (Option α)) (hb : 1 ≤ buffer.length)
    (n o ts : Int) :
    srcToInternalIndex c.period c.align buffer (slotTime c n) (slotTime c o) ts false =
      if tiiOutside (normSlot c ts) n o 1 then none else some ((wrapIdx buffer.length (normSlot c ts) : Nat) : Int) := by
  unfold Extracted.RingBufferLoops.toInternalIndex Extracted.RingBufferLoops.wrap Extracted.RingBufferLoops.maxlen wrapIdx
  have hpos : (0 : Int) ≤ normSlot c ts % (buffer.length : Int) := Int.emod_nonneg _ (by omega)
  simp only [normalize_eq, tiiOutside_iff, ← slotTime_succ, slotTime_lt_iff c hp, slot_of_time c hp]
  split_ifs <;> first
    | rfl | (exfalso; omega) | (simp only [Int.toNat_of_nonneg hpos]; done) | (exfalso; simp_all; done)

theorem slotTime_max (c : Cfg) (hp : 0 < c.period) (a b : Int) :
    max (slotTime c a) (slotTime c b) = slotTime c (max a b) := by
  have h := slotTime_le_iff c hp a b
  have h' := slotTime_le_iff c hp b a
  by_cases hab : a ≤ b
  · have : max a b = b := by omega
    rw [this]; omega
  · have : max a b = a := by omega
    rw [this]; omega

/-- `count_valid` on the microsecond state. -/
theorem countValid_us {α : Type} (c : Cfg) (tsMin tsMax : Int) (s : State α) (hR : Rep c tsMin s) :
    srcCountValid c.period c.align tsMin s.slots (usGaps c s.gaps) (usNewest c tsMin s) (usOldest c tsMax s)
      = some (countValid s) := by
  have hp := hR.period
  have hb : 1 ≤ s.slots.length := by have := hR.len; have := hR.cap; omega
  unfold Extracted.RingBufferLoops.countValid countValid usNewest usOldest
  cases hn : s.newest with
  | none => simp
  | some n =>
    have hne := hR.ne n hn
    have hcap := hR.cap
    have ho : ¬ tiiOutside n n (oldestOf s.cap n) 1 := by rw [tiiOutside_iff, oldestOf_eq]; omega
    have ho' : ¬ tiiOutside (oldestOf s.cap n) n (oldestOf s.cap n) 1 := by rw [tiiOutside_iff, oldestOf_eq]; omega
    have hsum : (List.map (fun g : Gap => (g.2 - max g.1 (slotTime c (oldestOf s.cap n))) / c.period) (usGaps c s.gaps)) =
        List.map (fun g => cvGapLen g.1 g.2 (oldestOf s.cap n) 1) s.gaps := by
      unfold usGaps
      rw [List.map_map]
      apply List.map_congr_left
      intro g _
      simp only [Function.comp, slotTime_max c hp, fg_index c hp, cvGapLen, Int.ediv_one]
    simp only [hne, if_false, toInternalIndex_us c hp _ hb, normSlot_slotTime c hp, ho, ho', hsum, ← hR.len]
    unfold cvWrapped cvStraight
    split_ifs <;> first | rfl | (exfalso; omega) | (simp only [Option.some.injEq]; omega)

theorem slotTime_min (c : Cfg) (hp : 0 < c.period) (a b : Int) :
    min (slotTime c a) (slotTime c b) = slotTime c (min a b) := by
  have h := slotTime_le_iff c hp a b
  have h' := slotTime_le_iff c hp b a
  by_cases hab : a ≤ b
  · have : min a b = a := by omega
    rw [this]; omega
  · have : min a b = b := by omega
    rw [this]; omega

theorem minOfList_us (c : Cfg) (hp : 0 < c.period) (gaps : List Gap) (hne : gaps ≠ []) :
    Extracted.RingBufferLoops.minOfList ((usGaps c gaps).map (fun g => g.2)) = slotTime c (minEnd gaps) := by
  cases gaps with
  | nil => exact absurd rfl hne
  | cons g gs =>
    unfold usGaps
    simp only [List.map_cons, Extracted.RingBufferLoops.minOfList, minEnd, List.map_map]
    generalize g.2 = m
    clear hne
    induction gs generalizing m with
    | nil => rfl
    | cons h t ih =>
      simp only [List.map_cons, List.foldl_cons, Function.comp, slotTime_min c hp]
      exact ih _

theorem isMissing_ne_nil {gaps : List Gap} {k : Int} (h : isMissing gaps k = true) : gaps ≠ [] := by
  intro e; subst e; simp [isMissing] at h

/-- `oldest_timestamp` / `newest_timestamp` on the microsecond state: the timestamp of the model's slot. -/
theorem oldestTs_us {α : Type} (c : Cfg) (tsMin tsMax : Int) (s : State α) (hR : Rep c tsMin s) :
    srcOldestTs c.period c.align tsMin s.slots (usGaps c s.gaps) (usNewest c tsMin s) (usOldest c tsMax s)
      = some ((oldestTs s).map (slotTime c)) := by
  have hp := hR.period
  unfold Extracted.RingBufferLoops.oldestTimestamp
  rw [countValid_us c tsMin tsMax s hR]
  unfold oldestTs
  by_cases h0 : countValid s = 0
  · simp [h0]
  · cases hn : s.newest with
    | none => exfalso; apply h0; unfold countValid; simp [hn]
    | some n =>
      simp only [h0, if_false, ne_eq, not_false_eq_true, if_true, usOldest, hn, isMissing_us c hp]
      have h0' : ¬ 0 = countValid s := fun e => h0 e.symm
      cases hm : isMissing s.gaps (oldestOf s.cap n) with
      | true => simp [minOfList_us c hp s.gaps (isMissing_ne_nil hm), h0']
      | false => simp [h0']

theorem newestTs_us {α : Type} (c : Cfg) (tsMin tsMax : Int) (s : State α) (hR : Rep c tsMin s) :
    srcNewestTs c.period c.align tsMin s.slots (usGaps c s.gaps) (usNewest c tsMin s) (usOldest c tsMax s)
      = some ((newestTs s).map (slotTime c)) := by
  unfold Extracted.RingBufferLoops.newestTimestamp
  rw [countValid_us c tsMin tsMax s hR]
  unfold newestTs
  by_cases h0 : countValid s = 0
  · simp [h0]
  · cases hn : s.newest with
    | none => exfalso; apply h0; unfold countValid; simp [hn]
    | some n =>
      have h0' : ¬ 0 = countValid s := fun e => h0 e.symm
      simp [h0, h0', usNewest, hn]

theorem newestTs_of_oldestTs {α : Type} (s : State α) {o : Int} (h : oldestTs s = some o) :
    ∃ n, newestTs s = some n := by
  unfold oldestTs at h
  unfold newestTs
  by_cases h0 : countValid s = 0
  · simp [h0] at h
  · cases hn : s.newest with
    | none => simp [h0, hn] at h
    | some n => exact ⟨n, by simp [h0]⟩

theorem oldestTs_of_newestTs {α : Type} (s : State α) {n : Int} (h : newestTs s = some n) :
    ∃ o, oldestTs s = some o := by
  unfold newestTs at h
  unfold oldestTs
  by_cases h0 : countValid s = 0
  · simp [h0] at h
  · simp only [h0, if_false] at h ⊢
    rw [h]
    simp only
    split <;> exact ⟨_, rfl⟩

/-- `count_covered` on the microsecond state. -/
theorem countCovered_us {α : Type} (c : Cfg) (tsMin tsMax : Int) (s : State α) (hR : Rep c tsMin s) :
    srcCountCovered c.period c.align tsMin s.slots (usGaps c s.gaps) (usNewest c tsMin s) (usOldest c tsMax s)
      = some (countCovered s) := by
  have hp := hR.period
  unfold Extracted.RingBufferLoops.countCovered Extracted.RingBufferLoops.coveredTimeRange
  simp only [oldestTs_us c tsMin tsMax s hR, newestTs_us c tsMin tsMax s hR]
  unfold countCovered countCoveredQuot
  cases ho : oldestTs s with
  | none => simp
  | some o =>
    obtain ⟨n, hn⟩ := newestTs_of_oldestTs s ho
    have e : (slotTime c n - slotTime c o + c.period) / c.period = n - o + 1 := by
      rw [slotTime_sub]
      have : (n - o) * c.period + c.period = (n - o + 1) * c.period := by rw [Int.add_mul]; omega
      rw [this, Int.mul_ediv_cancel _ (by omega)]
    simp [hn, e]

/-- `get_timestamp(index)` on the microsecond state. -/
theorem getTimestamp_us {α : Type} (c : Cfg) (tsMin tsMax : Int) (s : State α) (hR : Rep c tsMin s) (i : Int) :
    srcGetTimestamp c.period c.align tsMin s.slots (usGaps c s.gaps) (usNewest c tsMin s) (usOldest c tsMax s) i
      = some ((getTimestamp s i).map (slotTime c)) := by
  unfold Extracted.RingBufferLoops.getTimestamp
  simp only [oldestTs_us c tsMin tsMax s hR, newestTs_us c tsMin tsMax s hR]
  unfold getTimestamp
  cases ho : oldestTs s with
  | none => simp
  | some o =>
    obtain ⟨n, hn⟩ := newestTs_of_oldestTs s ho
    have e1 : slotTime c n + c.period + i * c.period = slotTime c (n + 1 + i * 1) := by
      unfold slotTime; rw [Int.mul_one, Int.add_mul, Int.add_mul]; omega
    have e2 : slotTime c o + i * c.period = slotTime c (o + i * 1) := by
      unfold slotTime; rw [Int.mul_one, Int.add_mul]; omega
    by_cases hi : i < 0
    · have : ¬ i ≥ 0 := by omega
      simp [hn, hi, this, e1]
    · have : i ≥ 0 := by omega
      simp [hn, hi, this, e2]

theorem toCoveredIndices_us {α : Type} (c : Cfg) (tsMin tsMax : Int) (s : State α) (hR : Rep c tsMin s)
    (i j : Option Int) :
    srcToCoveredIndices c.period c.align tsMin s.slots (usGaps c s.gaps) (usNewest c tsMin s) (usOldest c tsMax s) i j
      = some (sliceIndices i j (countCovered s)) := by
  unfold Extracted.RingBufferLoops.toCoveredIndices
  simp only [countCovered_us c tsMin tsMax s hR]

/-- `_wrapped_buffer_window` (list or numpy container, with or without `force_copy`) on positions ≥ 0. -/
theorem wrapped_src {β : Type} (isList fc : Bool) (buf : List (Option β)) (a b : Nat) :
    srcWrapped isList buf (a : Int) (b : Int) fc = wrapped buf a b := by
  unfold Extracted.RingBufferLoops.wrappedBufferWindow wrapped
  have e0 : ((0 : Int)).toNat = 0 := rfl
  simp only [Int.toNat_natCast, e0, List.drop_zero]
  split_ifs <;> first
    | rfl
    | (exfalso; omega)
    | (have hb : b = 0 := by omega
       subst hb; simp)

/-- `_fill_gaps` with the gaps as the code stores them. -/
theorem fillGaps_src {β : Type} (c : Cfg) (isList : Bool) (data : List (Option β)) (f : Option β) (origin : Int)
    (gaps : List Gap) :
    srcFillGaps c.period isList data f origin (usGaps c gaps) = fillGaps c data f origin gaps := by
  unfold Extracted.RingBufferLoops.fillGaps fillGaps usGaps
  rw [List.foldl_map]
  dsimp only
  congr 1
  funext d g
  simp only [fgStartIndex, fgEndIndex]
  cases isList <;> simp <;> first | rfl | (split_ifs <;> rfl) | congr

/-! ### `update` in microseconds: what it hands to `_update_gaps`

On slot numbers `normalize_timestamp` is the identity, so the ties above cannot tell a raw from a normalised timestamp.
Here `update` is translated with `_update_gaps` as a PARAMETER `upd` and run on the microsecond state: the rejection
test, the container position, the new window bounds and every argument of the `_update_gaps` call are pinned. -/

theorem slotTime_oldest (c : Cfg) (cap : Nat) (n : Int) :
    slotTime c n - ((cap : Int) * c.period - c.period) = slotTime c (oldestOf cap n) := by
  rw [oldestOf_eq]
  unfold slotTime
  rw [Int.sub_mul, Int.sub_mul, Int.one_mul]
  omega

theorem updateAbs_us {α : Type} (c : Cfg) (hp : 0 < c.period) (s : State α) (hlen : s.cap = s.slots.length)
    (hcap : 1 ≤ s.cap) (n : Int) (tsMax : Int) (hmax : slotTime c (oldestOf s.cap n) ≠ tsMax)
    (upd : Int → Int → List Gap → Int → Int → Int → Int → Bool → List Gap) (G : List Gap)
    (ts : Int) (isNone isNan : Bool) (base : α) :
    srcUpdateAbs c.period ((s.cap : Int) * c.period) c.align tsMax upd s.slots G (slotTime c n)
        (slotTime c (oldestOf s.cap n)) ts isNone isNan base =
      if normSlot c ts < oldestOf s.cap n then none
      else some (s.slots.set (wrapIdx s.cap (normSlot c ts)) (storedValue isNone isNan base),
                 upd c.period ((s.cap : Int) * c.period) G (slotTime c (max n (normSlot c ts)))
                   (slotTime c (oldestOf s.cap (max n (normSlot c ts)))) (slotTime c (normSlot c ts)) (slotTime c n)
                   (storedValue isNone isNan base).isNone,
                 slotTime c (max n (normSlot c ts)), slotTime c (oldestOf s.cap (max n (normSlot c ts)))) := by
  have hb : 1 ≤ s.slots.length := by omega
  unfold Extracted.RingBufferLoops.updateAbs storedValue
  simp only [normalize_eq, hasValue_eq, slotTime_max c hp, slotTime_oldest, slotTime_lt_iff c hp,
    toInternalIndex_us c hp _ hb, normSlot_slotTime c hp, tiiOutside_iff, hlen]
  by_cases hr : normSlot c ts < oldestOf s.slots.length n
  · simp [hr, hlen ▸ hmax]
  · have h1 : ¬ (max n (normSlot c ts) + 1 < normSlot c ts
        ∨ normSlot c ts < oldestOf s.slots.length (max n (normSlot c ts))) := by
      rw [oldestOf_eq] at hr ⊢; omega
    have hpos : (0 : Int) ≤ normSlot c ts % (s.slots.length : Int) := Int.emod_nonneg _ (by omega)
    have hmx : max (normSlot c ts % (s.slots.length : Int)) 0 = normSlot c ts % (s.slots.length : Int) := by omega
    cases isNone <;> cases isNan <;> simp [hr, h1, wrapIdx, hmx]

/-! ### `window` -/

theorem newest_of_countCovered {α : Type} (s : State α) (h : ¬ countCovered s = 0) :
    ∃ o n nw, oldestTs s = some o ∧ newestTs s = some n ∧ s.newest = some nw := by
  unfold countCovered at h
  cases ho : oldestTs s with
  | none => simp [ho] at h
  | some o =>
    obtain ⟨n, hn⟩ := newestTs_of_oldestTs s ho
    refine ⟨o, n, ?_⟩
    cases hw : s.newest with
    | none => unfold newestTs at hn; simp [hw] at hn
    | some nw => exact ⟨nw, rfl, hn, rfl⟩

/-- `window(start, end, force_copy, fill_value)` for two datetimes, on the microsecond state: ValueError when a fill
value is asked for without a copy, IndexError exactly when the model's `windowTsRaises` says so (which
`C09_window_never_raises` excludes on every reachable state), otherwise the model's `windowTs` — for both container
types, with and without `force_copy`, with and without a fill value. -/
theorem windowDt_us {α : Type} (c : Cfg) (tsMin tsMax : Int) (s : State α) (hR : Rep c tsMin s) (isList fc : Bool)
    (start end_ : Int) (fill : Option (Option α)) :
    srcWindowDt c.period c.align tsMin isList s.slots (usGaps c s.gaps) (usNewest c tsMin s) (usOldest c tsMax s)
        start end_ fc fill =
      if fc = false ∧ fill.isSome = true then none
      else if windowTsRaises c s start end_ = true then none
      else some (windowTs c s start end_ fill) := by
  have hp := hR.period
  have hb : 1 ≤ s.slots.length := by have := hR.len; have := hR.cap; omega
  unfold Extracted.RingBufferLoops.windowDt
  by_cases hv : fc = false ∧ fill.isSome = true
  · simp [hv]
  · simp only [hv, if_false, countCovered_us c tsMin tsMax s hR, oldestTs_us c tsMin tsMax s hR,
      newestTs_us c tsMin tsMax s hR]
    unfold windowTs windowTsRaises
    by_cases hcc : countCovered s = 0
    · cases isList <;> simp [hcc]
    · obtain ⟨o, n, nw, ho, hn, hw⟩ := newest_of_countCovered s hcc
      have hcc' : ¬ 0 = countCovered s := fun e => hcc e.symm
      simp only [hcc, hcc', if_false, ho, hn, hw, Option.map_some, Option.getD_some, usNewest, usOldest,
        toInternalIndex_us c hp _ hb, normalize_eq, winClampStart_eq, winClampEnd_eq, winEmpty_iff, winFillOrigin_eq,
        slotTime_lt_iff c hp, slotTime_le_iff c hp, ge_iff_le, hR.len]
      generalize normSlot c (max start (slotTime c o)) = ns
      generalize normSlot c (min end_ (slotTime c n + c.period)) = ne
      by_cases hemp : ne ≤ ns
      · have : ¬ ns < ne := by omega
        cases isList <;> simp [hemp, this]
      · have h1 : ns < ne := by omega
        simp only [hemp, h1, if_true, if_false]
        by_cases r1 : tiiOutside ns nw (oldestOf s.slots.length nw) 1
        · simp [r1]
        · by_cases r2 : tiiOutside ne nw (oldestOf s.slots.length nw) 1
          · simp [r1, r2]
          · simp only [r1, r2, if_false, decide_false, Bool.or_false, Bool.false_eq_true, wrapped_src, fillGaps_src]
            cases fill with
            | none => simp
            | some f => simp

/-- `window(i, j, …)` for two indices / `None`: the ValueError test, the empty buffer, then `_to_covered_indices` and
`get_timestamp` as in the model, then exactly what `window` does for the two datetimes found (IndexError when one of
them is `None`, which `get_timestamp` never returns on a non-empty buffer). -/
theorem windowIdx_us {α : Type} (c : Cfg) (tsMin tsMax : Int) (s : State α) (hR : Rep c tsMin s) (isList fc : Bool)
    (i j : Option Int) (fill : Option (Option α)) :
    srcWindowIdx c.period c.align tsMin isList s.slots (usGaps c s.gaps) (usNewest c tsMin s) (usOldest c tsMax s)
        i j fc fill =
      if fc = false ∧ fill.isSome = true then none
      else if countCovered s = 0 then some []
      else
        match getTimestamp s (sliceIndices i j (countCovered s)).1, getTimestamp s (sliceIndices i j (countCovered s)).2 with
        | some a, some b =>
          srcWindowDt c.period c.align tsMin isList s.slots (usGaps c s.gaps) (usNewest c tsMin s) (usOldest c tsMax s)
            (slotTime c a) (slotTime c b) fc fill
        | _, _ => none := by
  unfold Extracted.RingBufferLoops.windowIdx Extracted.RingBufferLoops.windowDt
  by_cases hv : fc = false ∧ fill.isSome = true
  · simp [hv]
  · simp only [hv, if_false, countCovered_us c tsMin tsMax s hR, toCoveredIndices_us c tsMin tsMax s hR,
      getTimestamp_us c tsMin tsMax s hR]
    by_cases hcc : countCovered s = 0
    · cases isList <;> simp [hcc]
    · have hcc' : ¬ 0 = countCovered s := fun e => hcc e.symm
      simp only [hcc, hcc', if_false]
      cases getTimestamp s (sliceIndices i j (countCovered s)).1 with
      | none => simp
      | some a =>
        cases getTimestamp s (sliceIndices i j (countCovered s)).2 with
        | none => simp
        | some b => simp

/-! ### `MovingWindow.at` -/

/-- The outcome of `MovingWindow.at` as the translation returns it: `none` = IndexError. -/
def atOpt {α : Type} : AtResult α → Option (Option α)
  | .indexError => none
  | .value v => some v

theorem ts_of_countValid {α : Type} (s : State α) (h : ¬ countValid s = 0) :
    ∃ o n nw, oldestTs s = some o ∧ newestTs s = some n ∧ s.newest = some nw := by
  cases hw : s.newest with
  | none => exfalso; apply h; unfold countValid; simp [hw]
  | some nw =>
    have hn : newestTs s = some nw := by unfold newestTs; simp [h, hw]
    obtain ⟨o, ho⟩ := oldestTs_of_newestTs s hn
    exact ⟨o, nw, nw, ho, hn, rfl⟩

/-- The common tail of `at`: gap test, range test of `to_internal_index`, the element. -/
theorem atSlot_us {α : Type} (c : Cfg) (tsMin tsMax : Int) (s : State α) (hR : Rep c tsMin s) (nw : Int)
    (hw : s.newest = some nw) (ts : Int) :
    (if srcIsMissing (usGaps c s.gaps) (srcNormalize c.period c.align ts) = true then some none
     else match srcToInternalIndex c.period c.align s.slots (usNewest c tsMin s) (usOldest c tsMax s) ts false with
       | none => none
       | some r => some (s.slots.getD r.toNat none)) = atOpt (atSlot s (normSlot c ts)) := by
  have hp := hR.period
  have hb : 1 ≤ s.slots.length := by have := hR.len; have := hR.cap; omega
  unfold atSlot
  simp only [hw, usNewest, usOldest, normalize_eq, isMissing_us c hp, toInternalIndex_us c hp _ hb, atNanOnGap, true_and,
    hR.len]
  cases hm : isMissing s.gaps (normSlot c ts) with
  | true => simp [atOpt]
  | false =>
    by_cases r : tiiOutside (normSlot c ts) nw (oldestOf s.slots.length nw) 1
    · simp [r, atOpt]
    · simp [r, atOpt]

theorem atTs_us {α : Type} (c : Cfg) (tsMin tsMax : Int) (s : State α) (hR : Rep c tsMin s) (ts : Int) :
    srcAtTs c.period c.align tsMin s.slots (usGaps c s.gaps) (usNewest c tsMin s) (usOldest c tsMax s) ts
      = atOpt (atTs c s ts) := by
  unfold Extracted.RingBufferLoops.atTs atTs
  simp only [countValid_us c tsMin tsMax s hR, oldestTs_us c tsMin tsMax s hR, newestTs_us c tsMin tsMax s hR]
  by_cases h0 : countValid s = 0
  · simp [h0, atOpt]
  · obtain ⟨o, n, nw, ho, hn, hw⟩ := ts_of_countValid s h0
    have h0' : ¬ 0 = countValid s := fun e => h0 e.symm
    simp only [h0, h0', if_false, ho, hn, Option.map_some, Option.getD_some, atTsOutOfRange_iff]
    by_cases h1 : ts < slotTime c o
    · simp [h1, atOpt]
    · by_cases h2 : slotTime c n < ts
      · have : ts > slotTime c n := h2
        simp [h1, h2, this, atOpt]
      · have : ¬ ts > slotTime c n := h2
        simp only [h1, h2, this, if_false, or_self]
        exact atSlot_us c tsMin tsMax s hR nw hw ts

theorem atIdx_us {α : Type} (c : Cfg) (tsMin tsMax : Int) (s : State α) (hR : Rep c tsMin s) (i : Int) :
    srcAtIdx c.period c.align tsMin s.slots (usGaps c s.gaps) (usNewest c tsMin s) (usOldest c tsMax s) i
      = atOpt (atIndex s i) := by
  have hp := hR.period
  unfold Extracted.RingBufferLoops.atIdx atIndex
  simp only [countValid_us c tsMin tsMax s hR, countCovered_us c tsMin tsMax s hR, getTimestamp_us c tsMin tsMax s hR]
  by_cases h0 : countValid s = 0
  · simp [h0, atOpt]
  · obtain ⟨o, n, nw, ho, hn, hw⟩ := ts_of_countValid s h0
    have h0' : ¬ 0 = countValid s := fun e => h0 e.symm
    simp only [h0, h0', if_false, atIndexOutOfRange_iff]
    by_cases hr : -(countCovered s) ≤ i ∧ i < countCovered s
    · have hr' : ¬ (i < -(countCovered s) ∨ countCovered s ≤ i) := by omega
      have hg : getTimestamp s i = some ((if i ≥ 0 then o else n + 1) + i * 1) := by unfold getTimestamp; simp [ho, hn]
      simp only [hr, hr', not_true_eq_false, if_false, hg, Option.map_some, Option.getD_some]
      have := atSlot_us c tsMin tsMax s hR nw hw (slotTime c ((if i ≥ 0 then o else n + 1) + i * 1))
      rw [normSlot_slotTime c hp] at this
      exact this
    · have hr' : (i < -(countCovered s) ∨ countCovered s ≤ i) := by omega
      simp [hr, hr', atOpt]

end RingBufferTie
