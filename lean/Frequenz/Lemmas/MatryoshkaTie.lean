/-
The hand-written model of `_matryoshka.py` (`Frequenz.Model.Matryoshka`) is EQUAL, for all arguments, to the machine
translation of the current source text (`Frequenz.Extracted.MatryoshkaLoops`, regenerated on every run):
prelude and loop body of `_calc_target_power`, prelude (with the early return) and loop body of `get_status`, and the
guards of `calculate_target_power`.

The proofs do not depend on the shape of the generated terms: they unfold both sides, split on the options / pairs /
conditions that occur and close the leaves by simplification, so a behaviour-preserving rewrite of the Python still
goes through while a semantic change leaves a false leaf.
-/
import Frequenz.Model.Matryoshka
import Frequenz.Extracted.MatryoshkaLoops
import Mathlib.Tactic.SplitIfs

namespace MatryoshkaTie

set_option linter.unusedSimpArgs false

open Matryoshka Extracted.Matryoshka

/-- Leaves of the case analyses: equalities/inequalities of tuples of rationals under hypotheses on rationals. -/
macro "tie_leaf" : tactic =>
  `(tactic| first
    | with_reducible rfl
    | (simp_all; done)
    | grind)

/-- Case-split every `if` / `match` in the goal, then close the leaves. -/
macro "tie_split" : tactic =>
  `(tactic| (repeat' split) <;> tie_leaf)

/-- Prelude of `_calc_target_power` = `initSt` / `effExcl`. -/
theorem calcInit_eq (sb : SystemBounds) :
    calcInit sb.incl sb.excl = ((initSt sb).lo, (initSt sb).hi, effExcl sb, (initSt sb).target) ∧
    (initSt sb).stopped = false := by
  obtain ⟨incl, excl⟩ := sb
  refine ⟨?_, by unfold initSt; split <;> rfl⟩
  unfold calcInit initSt effExcl
  rcases incl with _ | ⟨il, iu⟩ <;> rcases excl with _ | ⟨el, eu⟩ <;> simp only [] <;> tie_split

/-- The state of the model as the tuple of loop-carried Python variables plus the `break` flag. -/
def stTuple (s : St) : Rat × Rat × Rat × Bool := (s.lo, s.hi, s.target, s.stopped)

/-- One iteration of the loop of `_calc_target_power` = `step` (on a state that has not seen `break`). -/
theorem calcStep_eq (ex : Option Bounds) (s : St) (p : Proposal) (h : s.stopped = false) :
    calcStep ex s.lo s.hi s.target p.pref p.lo p.hi = stTuple (step ex s p) := by
  obtain ⟨lo, hi, target, stopped⟩ := s
  obtain ⟨prio, src, pref, plo, phi, created⟩ := p
  simp only at h
  subst h
  unfold calcStep step pick stTuple
  simp only [Bool.false_eq_true, if_false]
  -- name the proposal's effective bounds and the results of the `_bounds` helpers (opaque here)
  generalize hpl : plo.getD lo = pl
  generalize hph : phi.getD hi = ph
  generalize hc : Extracted.checkExclusionBoundsOverlap pl ph ex = c
  rcases c with ⟨_ | _, _ | _⟩ <;> rcases pref with _ | pref <;> (try simp only [Prod.mk.injEq, Bool.true_eq_false, Bool.false_eq_true, and_self, and_false, and_true, false_and, if_true, if_false, ge_iff_le, gt_iff_lt])
  all_goals try
    (generalize hr : Extracted.clampToBounds pref lo hi ex = r
     rcases r with ⟨_ | a, _ | b⟩ <;> (try simp only [Prod.mk.injEq, Bool.true_eq_false, Bool.false_eq_true, and_self, and_false, and_true, false_and, if_true, if_false, ge_iff_le, gt_iff_lt]))
  all_goals tie_split

/-- A stopped state is left alone by the model (`break` ended the Python loop). -/
theorem step_stopped (ex : Option Bounds) (s : St) (p : Proposal) (h : s.stopped = true) : step ex s p = s := by
  unfold step; simp [h]

/-- Prelude of `get_status`: the early return (no inclusion bounds) and the initial loop variables. -/
theorem statusInit_eq (sb : SystemBounds) :
    statusInit sb.incl sb.excl = sb.incl.map (fun b => (b.lower, b.upper, effExcl sb)) := by
  obtain ⟨incl, excl⟩ := sb
  unfold statusInit effExcl
  rcases incl with _ | ⟨il, iu⟩ <;> rcases excl with _ | ⟨el, eu⟩ <;> simp only [Option.map] <;> tie_split

def rstTuple (s : RSt) : Rat × Rat × Bool := (s.lo, s.hi, s.stopped)

/-- One iteration of the loop of `get_status` = `statusStep`. -/
theorem statusStep_eq (ex : Option Bounds) (prio : Int) (s : RSt) (p : Proposal) (h : s.stopped = false) :
    Extracted.Matryoshka.statusStep ex s.lo s.hi prio p.prio p.lo p.hi = rstTuple (Matryoshka.statusStep ex prio s p) := by
  obtain ⟨lo, hi, stopped⟩ := s
  obtain ⟨pprio, src, pref, plo, phi, created⟩ := p
  simp only at h
  subst h
  unfold Extracted.Matryoshka.statusStep Matryoshka.statusStep rstTuple
  simp only [Bool.false_eq_true, if_false]
  generalize hpl : plo.getD lo = pl
  generalize hph : phi.getD hi = ph
  generalize hc : Extracted.checkExclusionBoundsOverlap pl ph ex = c
  rcases c with ⟨_ | _, _ | _⟩ <;> (try simp only [Prod.mk.injEq, Bool.true_eq_false, Bool.false_eq_true, and_self, and_false, and_true, false_and, if_true, if_false, ge_iff_le, gt_iff_lt]) <;> tie_split

theorem statusStep_stopped (ex : Option Bounds) (prio : Int) (s : RSt) (p : Proposal) (h : s.stopped = true) :
    Matryoshka.statusStep ex prio s p = s := by
  unfold Matryoshka.statusStep; simp [h]

/-- `reportBounds` is: the extracted prelude (early `none`), then the fold of the (tied) step, then `Bounds(lower, upper)`. -/
theorem reportBounds_eq (sb : SystemBounds) (bucket : List Proposal) (prio : Int) :
    reportBounds sb bucket prio =
      (statusInit sb.incl sb.excl).map (fun i =>
        let s := (sortDesc bucket).foldl (Matryoshka.statusStep i.2.2 prio) { lo := i.1, hi := i.2.1, stopped := false }
        ({ lower := s.lo, upper := s.hi } : Bounds)) := by
  rw [statusInit_eq]
  unfold reportBounds
  cases sb.incl <;> rfl

set_option linter.unusedTactic false in
/-- Early exit of `calculate_target_power` (`_validate_component_ids` fails) = first guard of `Mgr.calc`. -/
theorem validateFails_iff (m : Mgr) (sb : SystemBounds) :
    validateFails m.bucket.isSome sb.incl sb.excl ↔ (m.bucket.isNone ∧ sb.incl.isNone ∧ sb.excl.isNone) := by
  obtain ⟨incl, excl⟩ := sb
  obtain ⟨bucket, last⟩ := m
  unfold validateFails validateOk
  cases bucket <;> cases incl <;> cases excl <;> first | (simp; done) | tie_split

set_option linter.unusedTactic false in
/-- "bucket stays absent → return None" = the `none` arm of `match m.newBucket p`. -/
theorem bucketAbsent_iff (b : Option (List Proposal)) : bucketAbsent b ↔ b = none := by
  unfold bucketAbsent bucketAbsentB
  cases b <;> first | (simp; done) | tie_split

/-- The store/return condition = the last guard of `Mgr.calc`. -/
theorem storeNew_iff (must : Bool) (last : Option Rat) (t : Rat) :
    storeNew must last t ↔ (must = true ∨ last ≠ some t) := by
  unfold storeNew storeNewB
  cases must <;> cases last <;> simp only [] <;> tie_split

/-- `Mgr.calc` written with the three extracted conditions. -/
theorem calc_eq (m : Mgr) (p : Option Proposal) (sb : SystemBounds) (must : Bool) :
    m.calc p sb must =
      if validateFails m.bucket.isSome sb.incl sb.excl then (m, none)
      else if bucketAbsent (m.newBucket p) then (m, none)
      else
        let b := (m.newBucket p).getD []
        if storeNew must m.last (calcTarget sb b) then
          ({ bucket := some b, last := some (calcTarget sb b) }, some (calcTarget sb b))
        else ({ m with bucket := some b }, none) := by
  unfold Mgr.calc
  simp only [validateFails_iff, bucketAbsent_iff, storeNew_iff]
  split
  · rfl
  · cases h : m.newBucket p <;> simp


/-! ### The loops: Python's `for … in …: <body>` with `break`, over the extracted bodies -/

/-- `for a in as: s, brk = body(s, a); if brk: break` — the semantics of a `for` loop whose body was translated
to "new loop-carried variables + did it `break`". -/
def forLoop {σ α : Type} (body : σ → α → σ × Bool) : σ → List α → σ
  | s, [] => s
  | s, a :: as => if (body s a).2 = true then (body s a).1 else forLoop body (body s a).1 as

/-- The extracted body of `_calc_target_power`'s loop, as a loop body over (lower_bound, upper_bound, target_power). -/
def srcCalcBody (ex : Option Bounds) (s : Rat × Rat × Rat) (p : Proposal) : (Rat × Rat × Rat) × Bool :=
  let r := calcStep ex s.1 s.2.1 s.2.2 p.pref p.lo p.hi
  ((r.1, r.2.1, r.2.2.1), r.2.2.2)

/-- `_calc_target_power(proposals, system_bounds)` assembled ONLY from extracted pieces: extracted prelude, `for` over
the given (already ordered) proposals with the extracted body, `return target_power`. -/
def srcCalcTarget (incl excl : Option Bounds) (ordered : List Proposal) : Rat :=
  let i := calcInit incl excl
  (forLoop (srcCalcBody i.2.2.1) (i.1, i.2.1, i.2.2.2) ordered).2.2

theorem foldl_step_stopped (ex : Option Bounds) (ps : List Proposal) (s : St) (h : s.stopped = true) :
    ps.foldl (step ex) s = s := by
  induction ps with
  | nil => rfl
  | cons p ps ih => rw [List.foldl_cons, step_stopped ex s p h, ih]

theorem sweep_forLoop (ex : Option Bounds) (ps : List Proposal) (s : St) (h : s.stopped = false) :
    forLoop (srcCalcBody ex) (s.lo, s.hi, s.target) ps =
      ((ps.foldl (step ex) s).lo, (ps.foldl (step ex) s).hi, (ps.foldl (step ex) s).target) := by
  induction ps generalizing s with
  | nil => rfl
  | cons p ps ih =>
    have e := calcStep_eq ex s p h
    unfold stTuple at e
    simp only [forLoop, srcCalcBody, List.foldl_cons, e]
    by_cases hs : (step ex s p).stopped = true
    · simp only [hs, if_true]
      rw [foldl_step_stopped ex ps _ hs]
    · have hs' : (step ex s p).stopped = false := by simpa using hs
      simp only [hs', Bool.false_eq_true, if_false]
      exact ih (step ex s p) hs'

/-- **`calcTarget` (hand-written fold) = the loop of the current source text.** -/
theorem calcTarget_eq_source (sb : SystemBounds) (bucket : List Proposal) :
    calcTarget sb bucket = srcCalcTarget sb.incl sb.excl (sortDesc bucket) := by
  obtain ⟨hi, hs⟩ := calcInit_eq sb
  unfold calcTarget sweep srcCalcTarget
  simp only [hi]
  rw [sweep_forLoop (effExcl sb) (sortDesc bucket) (initSt sb) hs]

/-- The extracted body of `get_status`'s loop over (lower_bound, upper_bound). -/
def srcStatusBody (ex : Option Bounds) (prio : Int) (s : Rat × Rat) (p : Proposal) : (Rat × Rat) × Bool :=
  let r := Extracted.Matryoshka.statusStep ex s.1 s.2 prio p.prio p.lo p.hi
  ((r.1, r.2.1), r.2.2)

/-- The inclusion bounds reported by `get_status`, assembled ONLY from extracted pieces. -/
def srcReportBounds (incl excl : Option Bounds) (ordered : List Proposal) (prio : Int) : Option Bounds :=
  (statusInit incl excl).map (fun i =>
    let r := forLoop (srcStatusBody i.2.2 prio) (i.1, i.2.1) ordered
    ({ lower := r.1, upper := r.2 } : Bounds))

theorem foldl_statusStep_stopped (ex : Option Bounds) (prio : Int) (ps : List Proposal) (s : RSt)
    (h : s.stopped = true) : ps.foldl (Matryoshka.statusStep ex prio) s = s := by
  induction ps with
  | nil => rfl
  | cons p ps ih => rw [List.foldl_cons, statusStep_stopped ex prio s p h, ih]

theorem status_forLoop (ex : Option Bounds) (prio : Int) (ps : List Proposal) (s : RSt) (h : s.stopped = false) :
    forLoop (srcStatusBody ex prio) (s.lo, s.hi) ps =
      ((ps.foldl (Matryoshka.statusStep ex prio) s).lo, (ps.foldl (Matryoshka.statusStep ex prio) s).hi) := by
  induction ps generalizing s with
  | nil => rfl
  | cons p ps ih =>
    have e := statusStep_eq ex prio s p h
    unfold rstTuple at e
    simp only [forLoop, srcStatusBody, List.foldl_cons, e]
    by_cases hs : (Matryoshka.statusStep ex prio s p).stopped = true
    · simp only [hs, if_true]
      rw [foldl_statusStep_stopped ex prio ps _ hs]
    · have hs' : (Matryoshka.statusStep ex prio s p).stopped = false := by simpa using hs
      simp only [hs', Bool.false_eq_true, if_false]
      exact ih (Matryoshka.statusStep ex prio s p) hs'

/-- **`reportBounds` (hand-written) = prelude, early return and loop of the current source text of `get_status`.** -/
theorem reportBounds_eq_source (sb : SystemBounds) (bucket : List Proposal) (prio : Int) :
    reportBounds sb bucket prio = srcReportBounds sb.incl sb.excl (sortDesc bucket) prio := by
  unfold srcReportBounds
  rw [statusInit_eq]
  unfold reportBounds
  cases h : sb.incl with
  | none => rfl
  | some b =>
    simp only [Option.map]
    rw [status_forLoop (effExcl sb) prio (sortDesc bucket) { lo := b.lower, hi := b.upper, stopped := false } rfl]

end MatryoshkaTie
