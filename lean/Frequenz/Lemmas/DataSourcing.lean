/-
Helper lemmas for C20 (`Frequenz.Props.C20`): the registration structure `Subs`, the per-message fan-out, the
state invariant preserved by every event, and the hand-over equation proved by induction over the schedule.
-/
import Frequenz.Model.DataSourcing

namespace DataSourcing

/-! ### `assoc` -/

theorem assoc_mem {β : Type} {l : List (String × β)} {a : String} {v : β}
    (h : assoc l a = some v) : (a, v) ∈ l := by
  induction l with
  | nil => simp [assoc] at h
  | cons p l ih =>
    obtain ⟨k, w⟩ := p
    unfold assoc at h
    by_cases hk : k = a
    · simp only [hk, if_true, Option.some.injEq] at h
      subst hk; subst h; simp
    · simp only [hk, if_false] at h
      exact List.mem_cons_of_mem _ (ih h)

/-! ### `Subs` -/

theorem Subs.chans_nil : Subs.chans [] = [] := rfl

theorem Subs.chans_cons (p : Metric × List Chan) (g : Subs) :
    Subs.chans (p :: g) = p.2 ++ Subs.chans g := by
  simp [Subs.chans]

/-- Every channel is filed under its own metric. -/
def Keyed (g : Subs) : Prop := ∀ p ∈ g, ∀ c ∈ p.2, c.metric = p.1

/-- Every registered channel is found by the duplicate check of `add_metric`. -/
def Found (g : Subs) : Prop := ∀ c ∈ g.chans, c ∈ g.get c.metric

theorem Subs.get_add (g : Subs) (r : Chan) (μ : Metric) :
    (g.add r).get μ = if μ = r.metric then g.get μ ++ [r] else g.get μ := by
  induction g with
  | nil =>
    by_cases h : μ = r.metric
    · simp [Subs.add, Subs.get, h]
    · have h' : ¬ r.metric = μ := fun e => h e.symm
      simp [Subs.add, Subs.get, h, h']
  | cons p g ih =>
    obtain ⟨k, cs⟩ := p
    unfold Subs.add
    by_cases hk : k = r.metric
    · simp only [hk, if_true]
      by_cases h : μ = r.metric
      · simp [Subs.get, h]
      · have h' : ¬ r.metric = μ := fun e => h e.symm
        simp [Subs.get, h, h']
    · simp only [hk, if_false]
      by_cases h : μ = r.metric
      · subst h
        simp only [Subs.get, hk, if_false, ih, if_true]
      · by_cases hkm : k = μ
        · simp [Subs.get, hkm, h]
        · simp only [Subs.get, hkm, if_false, ih, h]

theorem Subs.mem_chans_add (g : Subs) (r x : Chan) :
    x ∈ (g.add r).chans ↔ x ∈ g.chans ∨ x = r := by
  induction g with
  | nil => simp [Subs.add, Subs.chans]
  | cons p g ih =>
    obtain ⟨k, cs⟩ := p
    unfold Subs.add
    by_cases hk : k = r.metric
    · simp only [hk, if_true, Subs.chans_cons, List.mem_append, List.mem_singleton]
      constructor
      · rintro ((h | h) | h)
        · exact Or.inl (Or.inl h)
        · exact Or.inr h
        · exact Or.inl (Or.inr h)
      · rintro ((h | h) | h)
        · exact Or.inl (Or.inl h)
        · exact Or.inr h
        · exact Or.inl (Or.inr h)
    · simp only [hk, if_false, Subs.chans_cons, List.mem_append, ih]
      constructor
      · rintro (h | h | h)
        · exact Or.inl (Or.inl h)
        · exact Or.inl (Or.inr h)
        · exact Or.inr h
      · rintro ((h | h) | h)
        · exact Or.inl h
        · exact Or.inr (Or.inl h)
        · exact Or.inr (Or.inr h)

theorem Subs.count_chans_add (g : Subs) (r x : Chan) :
    (g.add r).chans.count x = g.chans.count x + (if r = x then 1 else 0) := by
  induction g with
  | nil =>
    by_cases h : r = x
    · simp [Subs.add, Subs.chans, h]
    · simp [Subs.add, Subs.chans, h]
  | cons p g ih =>
    obtain ⟨k, cs⟩ := p
    unfold Subs.add
    by_cases hk : k = r.metric
    · simp only [hk, if_true, Subs.chans_cons, List.count_append, List.count_cons, List.count_nil,
        beq_iff_eq]
      omega
    · simp only [hk, if_false, Subs.chans_cons, List.count_append, ih]
      omega

theorem Keyed.add {g : Subs} (h : Keyed g) (r : Chan) : Keyed (g.add r) := by
  induction g with
  | nil =>
    intro p hp c hc
    simp only [Subs.add, List.mem_singleton] at hp
    subst hp
    simp only [List.mem_singleton] at hc
    subst hc; rfl
  | cons p g ih =>
    obtain ⟨k, cs⟩ := p
    have hg : Keyed g := fun q hq => h q (List.mem_cons_of_mem _ hq)
    have hp : ∀ c ∈ cs, c.metric = k := h (k, cs) (by simp)
    unfold Subs.add
    by_cases hk : k = r.metric
    · simp only [hk, if_true]
      intro q hq c hc
      rcases List.mem_cons.mp hq with rfl | hq
      · rcases List.mem_append.mp hc with hc | hc
        · rw [hp c hc, hk]
        · simp only [List.mem_singleton] at hc
          subst hc; rfl
      · exact hg q hq c hc
    · simp only [hk, if_false]
      intro q hq c hc
      rcases List.mem_cons.mp hq with rfl | hq
      · exact hp c hc
      · exact ih hg q hq c hc

theorem Found.add {g : Subs} (h : Found g) (r : Chan) : Found (g.add r) := by
  intro c hc
  rw [Subs.get_add]
  rcases (Subs.mem_chans_add g r c).mp hc with hc | rfl
  · by_cases hm : c.metric = r.metric
    · simp only [hm, if_true]
      have := h c hc
      rw [hm] at this
      exact List.mem_append_left _ this
    · simp only [hm, if_false]
      exact h c hc
  · simp

theorem nodup_of_count_le_one {l : List Chan} (h : ∀ x, l.count x ≤ 1) : l.Nodup := by
  induction l with
  | nil => exact List.nodup_nil
  | cons a l ih =>
    rw [List.nodup_cons]
    constructor
    · intro ha
      have h1 := h a
      have : 0 < l.count a := List.count_pos_iff.mpr ha
      simp only [List.count_cons_self] at h1
      omega
    · apply ih
      intro x
      have := h x
      rw [List.count_cons] at this
      omega

theorem count_le_one_of_nodup {l : List Chan} (h : l.Nodup) (x : Chan) : l.count x ≤ 1 := by
  induction l with
  | nil => simp
  | cons a l ih =>
    rw [List.nodup_cons] at h
    rw [List.count_cons]
    by_cases hax : a = x
    · subst hax
      have : l.count a = 0 := List.count_eq_zero_of_not_mem h.1
      simp [this]
    · have := ih h.2
      simp only [beq_iff_eq, hax, if_false]
      omega

theorem count_eq_one_of_nodup_mem {l : List Chan} (h : l.Nodup) {x : Chan} (hx : x ∈ l) :
    l.count x = 1 := by
  have h1 := count_le_one_of_nodup h x
  have h2 : 0 < l.count x := List.count_pos_iff.mpr hx
  omega

theorem nodup_chans_add {g : Subs} (h : g.chans.Nodup) {r : Chan} (hr : r ∉ g.chans) :
    (g.add r).chans.Nodup := by
  apply nodup_of_count_le_one
  intro x
  rw [Subs.count_chans_add]
  by_cases hx : r = x
  · subst hx
    have : g.chans.count r = 0 := List.count_eq_zero_of_not_mem hr
    simp [this]
  · have := count_le_one_of_nodup h x
    simp only [hx, if_false]
    omega

/-! ### fan-out of one message -/

theorem delivered_nil (ch : Chan) : delivered ch [] = [] := rfl

theorem delivered_append (ch : Chan) (a b : List Out) :
    delivered ch (a ++ b) = delivered ch a ++ delivered ch b := by
  simp [delivered, List.filter_append]

theorem delivered_map_chan (ch : Chan) (cs : List Chan) (smp : Sample) :
    delivered ch (cs.map fun c => (⟨c, smp⟩ : Out)) = List.replicate (cs.count ch) smp := by
  induction cs with
  | nil => rfl
  | cons c cs ih =>
    by_cases h : c = ch
    · subst h
      simp only [List.map_cons, List.count_cons_self, List.replicate_succ]
      simp only [delivered] at ih ⊢
      simp [ih]
    · have : delivered ch ((c :: cs).map fun c => (⟨c, smp⟩ : Out))
          = delivered ch (cs.map fun c => (⟨c, smp⟩ : Out)) := by
        simp [delivered, h]
      rw [this, ih, List.count_cons]
      simp [h]

theorem fanout_nil (cat : Option Category) (m : Msg) : fanout cat [] m = [] := rfl

theorem fanout_cons (cat : Option Category) (p : Metric × List Chan) (g : Subs) (m : Msg) :
    fanout cat (p :: g) m
      = (p.2.map fun c => (⟨c, ⟨m.ts, extract cat p.1 m⟩⟩ : Out)) ++ fanout cat g m := by
  simp [fanout]

/-- What one fan-out puts on channel `ch`: one copy of *its* sample per occurrence of `ch` in the snapshot. -/
theorem delivered_fanout {g : Subs} (hk : Keyed g) (cat : Option Category) (m : Msg) (ch : Chan) :
    delivered ch (fanout cat g m)
      = List.replicate (g.chans.count ch) ⟨m.ts, extract cat ch.metric m⟩ := by
  induction g with
  | nil => rfl
  | cons p g ih =>
    have hg : Keyed g := fun q hq => hk q (List.mem_cons_of_mem _ hq)
    rw [fanout_cons, delivered_append, ih hg, delivered_map_chan, Subs.chans_cons, List.count_append,
      ← List.replicate_append_replicate]
    by_cases hc : ch ∈ p.2
    · rw [hk p (by simp) ch hc]
    · rw [List.count_eq_zero_of_not_mem hc]; rfl

/-! ### invariant of reachable states -/

structure CompInv (cid : Nat) (c : Comp) : Prop where
  keyed : Keyed c.subs
  found : Found c.subs
  nodup : c.subs.chans.Nodup
  snap : ∀ g, c.active = some g → g = c.subs
  owner : ∀ x ∈ c.subs.chans, x.cid = cid

def Inv (s : State) : Prop := ∀ cid, CompInv cid (s.comps cid)

theorem Inv.init : Inv State.init := by
  intro cid
  refine ⟨?_, ?_, ?_, ?_, ?_⟩
  · intro p hp; simp [State.init] at hp
  · intro c hc; simp [State.init, Subs.chans] at hc
  · simp [State.init, Subs.chans]
  · intro g hg; simp [State.init] at hg
  · intro x hx; simp [State.init, Subs.chans] at hx

theorem State.set_same (s : State) (cid : Nat) (c : Comp) : (s.set cid c).comps cid = c := by
  simp [State.set]

theorem State.set_other (s : State) {cid i : Nat} (c : Comp) (h : i ≠ cid) :
    (s.set cid c).comps i = s.comps i := by
  simp [State.set, h]

theorem Inv.set {s : State} (h : Inv s) {cid : Nat} {c : Comp} (hc : CompInv cid c) :
    Inv (s.set cid c) := by
  intro i
  by_cases hi : i = cid
  · subst hi; rw [State.set_same]; exact hc
  · rw [State.set_other s c hi]; exact h i

/-- The effect of an accepted request on the component. -/
def accept (c : Comp) (r : Chan) : Comp :=
  { c with subs := c.subs.add r, pending := true, active := none }

/-- `add_metric` case analysis: a request is either ignored or accepted. -/
theorem step_request (cfg : Config) (s : State) (r : Chan) :
    step cfg s (.request r) = (s, []) ∨
    (r ∉ (s.comps r.cid).subs.get r.metric ∧
      step cfg s (.request r) = (s.set r.cid (accept (s.comps r.cid) r), [])) := by
  simp only [step]
  cases cfg.category r.cid with
  | none => exact Or.inl rfl
  | some cat =>
    simp only []
    by_cases h1 : supported cat r.metric = false
    · left; simp only [h1, if_true]
    · by_cases h2 : r ∈ (s.comps r.cid).subs.get r.metric
      · left; simp only [h1, h2, if_true, if_false, Bool.true_eq_false]
      · right
        refine ⟨h2, ?_⟩
        simp only [h1, h2, if_false, accept, Bool.true_eq_false]

theorem CompInv.accept {c : Comp} {r : Chan} (h : CompInv r.cid c) (hr : r ∉ c.subs.get r.metric) :
    CompInv r.cid (accept c r) := by
  have hnot : r ∉ c.subs.chans := fun hm => hr (h.found r hm)
  refine ⟨h.keyed.add r, h.found.add r, nodup_chans_add h.nodup hnot, ?_, ?_⟩
  · intro g hg; simp [DataSourcing.accept] at hg
  · intro x hx
    rcases (Subs.mem_chans_add c.subs r x).mp hx with hx | rfl
    · exact h.owner x hx
    · rfl

theorem Inv.step (cfg : Config) {s : State} (h : Inv s) (e : Event) : Inv (step cfg s e).1 := by
  cases e with
  | request r =>
    rcases step_request cfg s r with he | ⟨hr, he⟩
    · rw [he]; exact h
    · rw [he]; exact h.set ((h r.cid).accept hr)
  | message cid m =>
    simp only [DataSourcing.step]
    by_cases hq : (s.comps cid).hasRecv = true
    · simp only [hq, if_true]
      exact h.set ⟨(h cid).keyed, (h cid).found, (h cid).nodup, (h cid).snap, (h cid).owner⟩
    · simp only [hq, Bool.false_eq_true, if_false]; exact h
  | start cid =>
    simp only [DataSourcing.step]
    by_cases hq : (s.comps cid).pending = true
    · simp only [hq, if_true]
      refine h.set ⟨(h cid).keyed, (h cid).found, (h cid).nodup, ?_, (h cid).owner⟩
      intro g hg
      simp only [Option.some.injEq] at hg
      exact hg.symm
    · simp only [hq, Bool.false_eq_true, if_false]; exact h
  | take cid =>
    simp only [DataSourcing.step]
    cases ha : (s.comps cid).active with
    | none => simp only []; exact h
    | some snap =>
      cases hq : (s.comps cid).queue with
      | nil => simp only []; exact h
      | cons m q =>
        simp only []
        refine h.set ⟨(h cid).keyed, (h cid).found, (h cid).nodup, ?_, (h cid).owner⟩
        intro g hg
        exact (h cid).snap g (by simpa [ha] using hg)

theorem exec_nil (cfg : Config) (s : State) : exec cfg s [] = (s, []) := rfl

theorem final_nil (cfg : Config) (s : State) : final cfg s [] = s := rfl
theorem trace_nil (cfg : Config) (s : State) : trace cfg s [] = [] := rfl

theorem final_cons (cfg : Config) (s : State) (e : Event) (es : List Event) :
    final cfg s (e :: es) = final cfg (step cfg s e).1 es := rfl

theorem trace_cons (cfg : Config) (s : State) (e : Event) (es : List Event) :
    trace cfg s (e :: es) = (step cfg s e).2 ++ trace cfg (step cfg s e).1 es := rfl

theorem final_append (cfg : Config) (s : State) (a b : List Event) :
    final cfg s (a ++ b) = final cfg (final cfg s a) b := by
  induction a generalizing s with
  | nil => rfl
  | cons e a ih => simp only [List.cons_append, final_cons, ih]

theorem trace_append (cfg : Config) (s : State) (a b : List Event) :
    trace cfg s (a ++ b) = trace cfg s a ++ trace cfg (final cfg s a) b := by
  induction a generalizing s with
  | nil => simp [trace_nil, final_nil]
  | cons e a ih => simp only [List.cons_append, trace_cons, final_cons, ih, List.append_assoc]

theorem Inv.final (cfg : Config) {s : State} (h : Inv s) (es : List Event) : Inv (final cfg s es) := by
  induction es generalizing s with
  | nil => exact h
  | cons e es ih => rw [final_cons]; exact ih (h.step cfg e)

/-! ### registrations only grow; the receiver, once opened, stays -/

theorem Subscribed.step (cfg : Config) {s : State} {ch : Chan} (h : Subscribed s ch) (e : Event) :
    Subscribed (step cfg s e).1 ch := by
  unfold Subscribed at *
  cases e with
  | request r =>
    rcases step_request cfg s r with he | ⟨_, he⟩
    · rw [he]; exact h
    · rw [he]
      by_cases hc : ch.cid = r.cid
      · rw [hc, State.set_same]
        simp only [accept]
        rw [hc] at h
        exact (Subs.mem_chans_add _ r ch).mpr (Or.inl h)
      · rw [State.set_other _ _ hc]; exact h
  | message cid m =>
    simp only [DataSourcing.step]
    by_cases hq : (s.comps cid).hasRecv = true
    · simp only [hq, if_true]
      by_cases hc : ch.cid = cid
      · subst hc; rw [State.set_same]; exact h
      · rw [State.set_other _ _ hc]; exact h
    · simp only [hq, Bool.false_eq_true, if_false]; exact h
  | start cid =>
    simp only [DataSourcing.step]
    by_cases hq : (s.comps cid).pending = true
    · simp only [hq, if_true]
      by_cases hc : ch.cid = cid
      · subst hc; rw [State.set_same]; exact h
      · rw [State.set_other _ _ hc]; exact h
    · simp only [hq, Bool.false_eq_true, if_false]; exact h
  | take cid =>
    simp only [DataSourcing.step]
    cases ha : (s.comps cid).active with
    | none => simp only []; exact h
    | some snap =>
      cases hq : (s.comps cid).queue with
      | nil => simp only []; exact h
      | cons m q =>
        simp only []
        by_cases hc : ch.cid = cid
        · subst hc; rw [State.set_same]; exact h
        · rw [State.set_other _ _ hc]; exact h

theorem hasRecv_step (cfg : Config) {s : State} {cid : Nat} (h : (s.comps cid).hasRecv = true) (e : Event) :
    ((step cfg s e).1.comps cid).hasRecv = true := by
  cases e with
  | request r =>
    rcases step_request cfg s r with he | ⟨_, he⟩
    · rw [he]; exact h
    · rw [he]
      by_cases hc : cid = r.cid
      · subst hc; rw [State.set_same]; exact h
      · rw [State.set_other _ _ hc]; exact h
  | message c m =>
    simp only [DataSourcing.step]
    by_cases hq : (s.comps c).hasRecv = true
    · simp only [hq, if_true]
      by_cases hc : cid = c
      · subst hc; rw [State.set_same]
      · rw [State.set_other _ _ hc]; exact h
    · simp only [hq, Bool.false_eq_true, if_false]; exact h
  | start c =>
    simp only [DataSourcing.step]
    by_cases hq : (s.comps c).pending = true
    · simp only [hq, if_true]
      by_cases hc : cid = c
      · subst hc; rw [State.set_same]
      · rw [State.set_other _ _ hc]; exact h
    · simp only [hq, Bool.false_eq_true, if_false]; exact h
  | take c =>
    simp only [DataSourcing.step]
    cases ha : (s.comps c).active with
    | none => simp only []; exact h
    | some snap =>
      cases hq : (s.comps c).queue with
      | nil => simp only []; exact h
      | cons m q =>
        simp only []
        by_cases hc : cid = c
        · subst hc; rw [State.set_same]; exact h
        · rw [State.set_other _ _ hc]; exact h

theorem Live.step (cfg : Config) {s : State} {ch : Chan} (h : Live s ch) (e : Event) :
    Live (step cfg s e).1 ch :=
  ⟨h.1.step cfg e, hasRecv_step cfg h.2 e⟩

theorem Subscribed.final (cfg : Config) {s : State} {ch : Chan} (h : Subscribed s ch) (es : List Event) :
    Subscribed (final cfg s es) ch := by
  induction es generalizing s with
  | nil => exact h
  | cons e es ih => rw [final_cons]; exact ih (h.step cfg e)

/-! ### one step, seen from one channel -/

/-- The waiting messages of `ch`'s component, as the samples `ch` is owed. -/
def owed (cfg : Config) (s : State) (ch : Chan) : List Sample :=
  (s.comps ch.cid).queue.map (sampleOf cfg ch)

/-- What a `message` event adds to the samples owed to `ch`. -/
def arriving (cfg : Config) (s : State) (ch : Chan) : Event → List Sample
  | .message c m => if c = ch.cid ∧ (s.comps ch.cid).hasRecv = true then [sampleOf cfg ch m] else []
  | _ => []

theorem received_cons (cfg : Config) (s : State) (ch : Chan) (e : Event) (es : List Event) :
    (received cfg s ch.cid (e :: es)).map (sampleOf cfg ch)
      = arriving cfg s ch e ++ (received cfg (step cfg s e).1 ch.cid es).map (sampleOf cfg ch) := by
  cases e with
  | message c m =>
    by_cases h : c = ch.cid ∧ (s.comps ch.cid).hasRecv = true
    · simp only [received, arriving, h, and_self, if_true, List.map_append, List.map_cons, List.map_nil]
    · simp only [received, arriving, h, if_false, List.map_append, List.map_nil]
  | request r => simp [received, arriving]
  | start c => simp [received, arriving]
  | take c => simp [received, arriving]

/-- Balance of one event for a registered channel: what is delivered by the step plus what is owed after it
equals what was owed before plus what arrives. -/
theorem step_balance (cfg : Config) {s : State} (hi : Inv s) {ch : Chan} (hl : Subscribed s ch) (e : Event) :
    delivered ch (step cfg s e).2 ++ owed cfg (step cfg s e).1 ch
      = owed cfg s ch ++ arriving cfg s ch e := by
  cases e with
  | request r =>
    rcases step_request cfg s r with he | ⟨_, he⟩
    · rw [he]; simp [delivered_nil, arriving]
    · rw [he]
      simp only [delivered_nil, arriving, List.nil_append, List.append_nil, owed]
      by_cases hc : ch.cid = r.cid
      · rw [hc, State.set_same]; simp [accept]
      · rw [State.set_other _ _ hc]
  | message c m =>
    simp only [DataSourcing.step]
    by_cases hc : c = ch.cid
    · subst hc
      by_cases hq : (s.comps ch.cid).hasRecv = true
      · simp only [hq, if_true, delivered_nil, List.nil_append, owed, State.set_same, arriving, and_self,
          List.map_append, List.map_cons, List.map_nil]
      · simp only [hq, Bool.false_eq_true, if_false, delivered_nil, List.nil_append, owed, arriving,
          and_false, List.append_nil]
    · have hc' : ch.cid ≠ c := fun e => hc e.symm
      by_cases hq : (s.comps c).hasRecv = true
      · simp only [hq, if_true, delivered_nil, List.nil_append, owed, State.set_other _ _ hc', arriving,
          hc, false_and, if_false, List.append_nil]
      · simp only [hq, Bool.false_eq_true, delivered_nil, List.nil_append, owed, arriving, hc, false_and,
          if_false, List.append_nil]
  | start c =>
    simp only [DataSourcing.step]
    by_cases hq : (s.comps c).pending = true
    · simp only [hq, if_true, delivered_nil, List.nil_append, owed, arriving, List.append_nil]
      by_cases hc : ch.cid = c
      · subst hc; rw [State.set_same]
      · rw [State.set_other _ _ hc]
    · simp only [hq, Bool.false_eq_true, if_false, delivered_nil, List.nil_append, owed, arriving,
        List.append_nil]
  | take c =>
    simp only [DataSourcing.step]
    cases ha : (s.comps c).active with
    | none => simp [delivered_nil, arriving]
    | some snap =>
      cases hq : (s.comps c).queue with
      | nil => simp [delivered_nil, arriving]
      | cons m q =>
        simp only [arriving, List.append_nil]
        have hsnap : snap = (s.comps c).subs := (hi c).snap snap ha
        by_cases hc : ch.cid = c
        · subst hc
          rw [hsnap, delivered_fanout (hi ch.cid).keyed,
            count_eq_one_of_nodup_mem (hi ch.cid).nodup hl]
          simp only [owed, State.set_same, hq, List.map_cons]
          rfl
        · have hnot : ch ∉ (s.comps c).subs.chans := fun hm => hc ((hi c).owner ch hm)
          rw [hsnap, delivered_fanout (hi c).keyed, List.count_eq_zero_of_not_mem hnot]
          simp only [owed, State.set_other _ _ hc, List.replicate_zero, List.nil_append]

/-- A step delivers nothing on a channel that is not registered before it. -/
theorem step_silent (cfg : Config) {s : State} (hi : Inv s) {ch : Chan} (hn : ¬ Subscribed s ch) (e : Event) :
    delivered ch (step cfg s e).2 = [] := by
  cases e with
  | request r =>
    rcases step_request cfg s r with he | ⟨_, he⟩ <;> rw [he] <;> rfl
  | message c m =>
    simp only [DataSourcing.step]
    by_cases hq : (s.comps c).hasRecv = true
    · simp only [hq, if_true]; rfl
    · simp only [hq, Bool.false_eq_true, if_false]; rfl
  | start c =>
    simp only [DataSourcing.step]
    by_cases hq : (s.comps c).pending = true
    · simp only [hq, if_true]; rfl
    · simp only [hq, Bool.false_eq_true, if_false]; rfl
  | take c =>
    simp only [DataSourcing.step]
    cases ha : (s.comps c).active with
    | none => rfl
    | some snap =>
      cases hq : (s.comps c).queue with
      | nil => rfl
      | cons m q =>
        simp only []
        have hsnap : snap = (s.comps c).subs := (hi c).snap snap ha
        have hnot : ch ∉ (s.comps c).subs.chans := by
          intro hm
          have hc : ch.cid = c := (hi c).owner ch hm
          apply hn
          unfold Subscribed
          rw [hc]; exact hm
        rw [hsnap, delivered_fanout (hi c).keyed, List.count_eq_zero_of_not_mem hnot]
        rfl

/-! ### the hand-over equation over a whole schedule -/

theorem exec_balance (cfg : Config) {s : State} (hi : Inv s) {ch : Chan} (hl : Subscribed s ch)
    (es : List Event) :
    delivered ch (trace cfg s es) ++ owed cfg (final cfg s es) ch
      = owed cfg s ch ++ (received cfg s ch.cid es).map (sampleOf cfg ch) := by
  induction es generalizing s with
  | nil => simp [trace_nil, final_nil, delivered_nil, received]
  | cons e es ih =>
    rw [trace_cons, final_cons, delivered_append, List.append_assoc,
      ih (hi.step cfg e) (hl.step cfg e), ← List.append_assoc, step_balance cfg hi hl e,
      List.append_assoc, ← received_cons]

/-- Once the API stream is open, everything the API produces is received. -/
theorem received_eq_msgsOf (cfg : Config) {s : State} {cid : Nat} (h : (s.comps cid).hasRecv = true)
    (es : List Event) : received cfg s cid es = msgsOf cid es := by
  induction es generalizing s with
  | nil => rfl
  | cons e es ih =>
    have ih' := ih (hasRecv_step cfg h e)
    cases e with
    | message c m =>
      by_cases hc : c = cid
      · subst hc
        simp only [received, msgsOf, h, and_self, if_true, ih', List.cons_append, List.nil_append]
      · simp only [received, msgsOf, hc, false_and, if_false, ih', List.nil_append]
    | request r => simp only [received, msgsOf, ih', List.nil_append]
    | start c => simp only [received, msgsOf, ih', List.nil_append]
    | take c => simp only [received, msgsOf, ih', List.nil_append]

theorem msgsOf_append (cid : Nat) (a b : List Event) : msgsOf cid (a ++ b) = msgsOf cid a ++ msgsOf cid b := by
  induction a with
  | nil => rfl
  | cons e a ih =>
    cases e with
    | message c m =>
      by_cases hc : c = cid
      · simp only [List.cons_append, msgsOf, hc, if_true, ih]
      · simp only [List.cons_append, msgsOf, hc, if_false, ih]
    | request r => simp only [List.cons_append, msgsOf, ih]
    | start c => simp only [List.cons_append, msgsOf, ih]
    | take c => simp only [List.cons_append, msgsOf, ih]

theorem exec_silent (cfg : Config) {s : State} (hi : Inv s) {ch : Chan} (es : List Event)
    (hn : ¬ Subscribed (final cfg s es) ch) : delivered ch (trace cfg s es) = [] := by
  induction es generalizing s with
  | nil => rfl
  | cons e es ih =>
    rw [final_cons] at hn
    have hs : ¬ Subscribed s ch := fun h => hn ((h.step cfg e).final cfg es)
    rw [trace_cons, delivered_append, step_silent cfg hi hs e, ih (hi.step cfg e) hn]
    rfl

/-! ### requests: accepted, ignored, repeated -/

theorem Subs.get_subset_chans (g : Subs) (μ : Metric) : ∀ c ∈ g.get μ, c ∈ g.chans := by
  induction g with
  | nil => intro c hc; simp [Subs.get] at hc
  | cons p g ih =>
    obtain ⟨k, cs⟩ := p
    intro c hc
    simp only [Subs.get] at hc
    rw [Subs.chans_cons]
    by_cases hk : k = μ
    · simp only [hk, if_true] at hc; exact List.mem_append_left _ hc
    · simp only [hk, if_false] at hc; exact List.mem_append_right _ (ih c hc)

theorem step_request_accepted (cfg : Config) {s : State} {r : Chan} {cat : Category}
    (hcat : cfg.category r.cid = some cat) (hsup : supported cat r.metric = true) (hn : ¬ Subscribed s r) :
    step cfg s (.request r) = (s.set r.cid (accept (s.comps r.cid) r), []) := by
  have hg : r ∉ (s.comps r.cid).subs.get r.metric := fun h => hn (Subs.get_subset_chans _ _ _ h)
  simp only [step, hcat, hsup, Bool.true_eq_false, if_false, hg, accept]

theorem subscribed_accept (s : State) (r : Chan) :
    Subscribed (s.set r.cid (accept (s.comps r.cid) r)) r := by
  unfold Subscribed
  rw [State.set_same]
  exact (Subs.mem_chans_add _ r r).mpr (Or.inr rfl)

theorem step_request_unknown (cfg : Config) (s : State) {r : Chan} (h : cfg.category r.cid = none) :
    step cfg s (.request r) = (s, []) := by
  simp only [step, h]

theorem step_request_unsupported (cfg : Config) (s : State) {r : Chan} {cat : Category}
    (hcat : cfg.category r.cid = some cat) (h : supported cat r.metric = false) :
    step cfg s (.request r) = (s, []) := by
  simp only [step, hcat, h, if_true]

/-- How one event changes the registrations of one component: not at all, or by one accepted request. -/
theorem subs_step (cfg : Config) (s : State) (e : Event) (cid : Nat) :
    ((step cfg s e).1.comps cid).subs = (s.comps cid).subs ∨
    ∃ r : Chan, ((step cfg s e).1.comps cid).subs = (s.comps cid).subs.add r := by
  cases e with
  | request r =>
    rcases step_request cfg s r with he | ⟨_, he⟩
    · rw [he]; exact Or.inl rfl
    · rw [he]
      by_cases hc : cid = r.cid
      · subst hc; rw [State.set_same]; exact Or.inr ⟨r, rfl⟩
      · rw [State.set_other _ _ hc]; exact Or.inl rfl
  | message c m =>
    simp only [DataSourcing.step]
    by_cases hq : (s.comps c).hasRecv = true
    · simp only [hq, if_true]
      by_cases hc : cid = c
      · subst hc; rw [State.set_same]; exact Or.inl rfl
      · rw [State.set_other _ _ hc]; exact Or.inl rfl
    · simp only [hq, Bool.false_eq_true, if_false]; first | exact Or.inl rfl | exact Or.inl trivial
  | start c =>
    simp only [DataSourcing.step]
    by_cases hq : (s.comps c).pending = true
    · simp only [hq, if_true]
      by_cases hc : cid = c
      · subst hc; rw [State.set_same]; exact Or.inl rfl
      · rw [State.set_other _ _ hc]; exact Or.inl rfl
    · simp only [hq, Bool.false_eq_true, if_false]; first | exact Or.inl rfl | exact Or.inl trivial
  | take c =>
    simp only [DataSourcing.step]
    cases ha : (s.comps c).active with
    | none => first | exact Or.inl rfl | exact Or.inl trivial
    | some snap =>
      cases hq : (s.comps c).queue with
      | nil => first | exact Or.inl rfl | exact Or.inl trivial
      | cons m q =>
        simp only []
        by_cases hc : cid = c
        · subst hc; rw [State.set_same]; exact Or.inl rfl
        · rw [State.set_other _ _ hc]; exact Or.inl rfl

/-- A request that has been looked at once will be ignored from then on: its component is unknown, its metric is
not provided by the component's category, or its channel name is registered. -/
def Settled (cfg : Config) (s : State) (r : Chan) : Prop :=
  cfg.category r.cid = none ∨
  (∃ cat, cfg.category r.cid = some cat ∧ supported cat r.metric = false) ∨
  r ∈ (s.comps r.cid).subs.get r.metric

theorem Settled.noop {cfg : Config} {s : State} {r : Chan} (h : Settled cfg s r) :
    step cfg s (.request r) = (s, []) := by
  rcases h with h | ⟨cat, hc, hs⟩ | h
  · exact step_request_unknown cfg s h
  · exact step_request_unsupported cfg s hc hs
  · rcases step_request cfg s r with he | ⟨hn, _⟩
    · exact he
    · exact absurd h hn

theorem settled_after_request (cfg : Config) (s : State) (r : Chan) :
    Settled cfg (step cfg s (.request r)).1 r := by
  cases hcat : cfg.category r.cid with
  | none => exact Or.inl hcat
  | some cat =>
    cases hs : supported cat r.metric with
    | false => exact Or.inr (Or.inl ⟨cat, hcat, hs⟩)
    | true =>
      right; right
      by_cases hg : r ∈ (s.comps r.cid).subs.get r.metric
      · have hn : step cfg s (.request r) = (s, []) :=
          Settled.noop (cfg := cfg) (Or.inr (Or.inr hg))
        rw [hn]; exact hg
      · have ha : step cfg s (.request r) = (s.set r.cid (accept (s.comps r.cid) r), []) := by
          simp only [step, hcat, hs, Bool.true_eq_false, if_false, hg, accept]
        rw [ha, State.set_same]
        simp only [accept, Subs.get_add, if_true]
        simp

theorem Settled.step {cfg : Config} {s : State} {r : Chan} (h : Settled cfg s r) (e : Event) :
    Settled cfg (step cfg s e).1 r := by
  rcases h with h | h | h
  · exact Or.inl h
  · exact Or.inr (Or.inl h)
  · right; right
    rcases subs_step cfg s e r.cid with he | ⟨r', he⟩
    · rw [he]; exact h
    · rw [he, Subs.get_add]
      by_cases hm : r.metric = r'.metric
      · simp only [hm, if_true]; rw [hm] at h; exact List.mem_append_left _ h
      · simp only [hm, if_false]; exact h

theorem Settled.final {cfg : Config} {s : State} {r : Chan} (h : Settled cfg s r) (es : List Event) :
    Settled cfg (final cfg s es) r := by
  induction es generalizing s with
  | nil => exact h
  | cons e es ih => rw [final_cons]; exact ih (h.step e)

theorem settled_of_mem (cfg : Config) (s : State) (r : Chan) (es : List Event)
    (h : Event.request r ∈ es) : Settled cfg (final cfg s es) r := by
  induction es generalizing s with
  | nil => simp at h
  | cons e es ih =>
    rw [final_cons]
    rcases List.mem_cons.mp h with he | he
    · rw [← he]; exact (settled_after_request cfg s r).final es
    · exact ih _ he

theorem exec_eq (cfg : Config) (s : State) (es : List Event) :
    exec cfg s es = (final cfg s es, trace cfg s es) := rfl

/-- An event that changes nothing and sends nothing can be dropped from a schedule. -/
theorem exec_skip (cfg : Config) (s : State) (a b : List Event) (e : Event)
    (h : step cfg (final cfg s a) e = (final cfg s a, [])) :
    exec cfg s (a ++ e :: b) = exec cfg s (a ++ b) := by
  rw [exec_eq, exec_eq, final_append, trace_append, final_append, trace_append, final_cons, trace_cons, h]
  rfl

end DataSourcing
