/-
"Model is source", part 4: sums / minima / sorts / dictionaries up to the order of iteration, the bound dictionaries of
`_inclusion_exclusion_bounds` and `_compute_battery_availability_ratio` (aggregation + sort).
-/
import Frequenz.Lemmas.DistributionTie3

namespace DistTie
open Dist Extracted.Dist
open Extracted.DistLoops (Dict dictGet dictSet mapAccumItems Power AvRatio DistResult Pair AggBat InvData PBounds
  sortByKey insertByKey keyLt)

/-! ## sums and minima do not depend on the order -/

theorem foldl_add (a : Rat) (l : List Rat) : l.foldl (· + ·) a = a + sumL l := by
  induction l generalizing a with
  | nil => simp [sumL, Rat.add_zero]
  | cons x xs ih => simp only [List.foldl_cons, ih, sumL_cons]; grind

/-- the source's `sum(…)` (left fold from 0) is the model's `sumL` (right fold) -/
theorem sumL_src (l : List Rat) : Extracted.DistLoops.sumL l = sumL l := by
  unfold Extracted.DistLoops.sumL; rw [foldl_add]; grind

theorem sumL_perm {l l' : List Rat} (h : l.Perm l') : sumL l = sumL l' := by
  induction h with
  | nil => rfl
  | cons x _ ih => simp only [sumL_cons, ih]
  | swap x y l => simp only [sumL_cons]; grind
  | trans _ _ ih1 ih2 => exact ih1.trans ih2

theorem minL_src (l : List Rat) : Extracted.DistLoops.minL l = minL l := by
  cases l <;> rfl

theorem foldl_pyMin_spec (a : Rat) (xs : List Rat) :
    xs.foldl pyMin a ∈ a :: xs ∧ ∀ y ∈ a :: xs, xs.foldl pyMin a ≤ y := by
  induction xs generalizing a with
  | nil => simp [Rat.le_refl]
  | cons x xs ih =>
    simp only [List.foldl_cons]
    obtain ⟨hm, hle⟩ := ih (pyMin a x)
    have hp : (pyMin a x = a ∨ pyMin a x = x) ∧ pyMin a x ≤ a ∧ pyMin a x ≤ x := by unfold pyMin; grind
    constructor
    · have hin : pyMin a x ∈ a :: x :: xs := by rcases hp.1 with h' | h' <;> rw [h'] <;> simp
      rcases List.mem_cons.mp hm with h | h
      · rw [h]; exact hin
      · simp [h]
    · intro y hy
      have h0 := hle (pyMin a x) (by simp)
      rcases List.mem_cons.mp hy with h | h
      · subst h; exact Rat.le_trans h0 hp.2.1
      · rcases List.mem_cons.mp h with h | h
        · subst h; exact Rat.le_trans h0 hp.2.2
        · exact hle y (by simp [h])

theorem minL_perm {l l' : List Rat} (h : l.Perm l') : minL l = minL l' := by
  cases l with
  | nil => rw [h.nil_eq]
  | cons a xs =>
    cases l' with
    | nil => exact absurd h.symm.nil_eq (by simp)
    | cons b ys =>
      simp only [minL]
      obtain ⟨m1, l1⟩ := foldl_pyMin_spec a xs
      obtain ⟨m2, l2⟩ := foldl_pyMin_spec b ys
      exact Rat.le_antisymm (l1 _ (h.mem_iff.mpr m2)) (l2 _ (h.mem_iff.mp m1))

/-! ## the two stable sorts -/

theorem insertByKey_perm {α : Type} (key : α → Rat × Rat) (rev : Bool) (x : α) (l : List α) :
    (insertByKey key rev x l).Perm (x :: l) := by
  induction l with
  | nil => simp [insertByKey]
  | cons y ys ih =>
    simp only [insertByKey]
    split_ifs <;> first | exact List.Perm.refl _ | exact ((List.perm_cons y).mpr ih).trans (List.Perm.swap x y ys)

theorem sortByKey_perm {α : Type} (key : α → Rat × Rat) (rev : Bool) (l : List α) : (sortByKey key rev l).Perm l := by
  induction l with
  | nil => simp [sortByKey]
  | cons x xs ih =>
    simp only [sortByKey, List.foldr_cons] at ih ⊢
    exact (insertByKey_perm key rev x _).trans ((List.perm_cons x).mpr ih)

theorem insertSorted_perm (x : Item) (l : List Item) : (insertSorted x l).Perm (x :: l) := by
  induction l with
  | nil => simp [insertSorted]
  | cons y ys ih =>
    simp only [insertSorted]
    split
    · exact ((List.perm_cons y).mpr ih).trans (List.Perm.swap x y ys)
    · exact List.Perm.refl _

theorem sortItems_perm (l : List Item) : (sortItems l).Perm l := by
  induction l with
  | nil => simp [sortItems]
  | cons x xs ih =>
    simp only [sortItems, List.foldr_cons] at ih ⊢
    exact (insertSorted_perm x _).trans ((List.perm_cons x).mpr ih)

/-- the source's `sort(key=lambda r: (r.min_power, r.ratio), reverse=True)` on the records is the model's `sortItems` -/
theorem sort_eq_source (f : Item → AvRatio) (key : AvRatio → Rat × Rat) (rev : Bool)
    (hk : ∀ x y : Item, (if rev then keyLt (key (f x)) (key (f y)) else keyLt (key (f y)) (key (f x))) ↔ goesAfter x y)
    (l : List Item) : sortByKey key rev (l.map f) = (sortItems l).map f := by
  have hins : ∀ (x : Item) (ys : List Item), insertByKey key rev (f x) (ys.map f) = (insertSorted x ys).map f := by
    intro x ys
    induction ys with
    | nil => simp [insertByKey, insertSorted]
    | cons y ys ih =>
      simp only [List.map_cons, insertByKey, insertSorted]
      by_cases h : goesAfter x y
      · simp only [(hk x y).mpr h, h, if_true, List.map_cons, ih]
      · have h' : ¬ (if rev then keyLt (key (f x)) (key (f y)) else keyLt (key (f y)) (key (f x))) := fun hh => h ((hk x y).mp hh)
        simp only [h', h, if_false, List.map_cons]
  induction l with
  | nil => simp [sortByKey, sortItems]
  | cons x xs ih =>
    simp only [sortByKey, sortItems, List.map_cons, List.foldr_cons] at ih ⊢
    rw [ih, hins]

/-! ## dictionaries built key by key -/

theorem dictGet_of_mem {ν : Type} [Inhabited ν] (d : Dict Int ν) (k : Int) (v : ν) (hnd : (d.map (·.1)).Nodup)
    (h : (k, v) ∈ d) : dictGet d k = v := by
  induction d with
  | nil => simp at h
  | cons p d ih =>
    simp only [List.map_cons, List.nodup_cons] at hnd
    unfold dictGet
    simp only [List.find?_cons]
    rcases List.mem_cons.mp h with h | h
    · subst h; simp
    · have hne : p.1 ≠ k := by
        intro he
        exact hnd.1 (List.mem_map.mpr ⟨(k, v), h, he.symm⟩)
      simp only [hne, decide_false]
      have := ih hnd.2 h
      unfold dictGet at this
      exact this

theorem foldl_dictSet_fresh {ν : Type} (d : Dict Int ν) (kvs : List (Int × ν)) (hnd : ((d ++ kvs).map (·.1)).Nodup) :
    kvs.foldl (fun d p => dictSet d p.1 p.2) d = d ++ kvs := by
  induction kvs generalizing d with
  | nil => simp
  | cons p kvs ih =>
    simp only [List.foldl_cons]
    have hf : p.1 ∉ d.map (·.1) := by
      simp only [List.map_append, List.map_cons] at hnd
      have := (List.nodup_append.mp hnd).2.2
      intro hm
      exact this _ hm _ (by simp) rfl
    rw [dictSet_fresh d p.1 p.2 hf]
    have : (d ++ [(p.1, p.2)]) ++ kvs = d ++ p :: kvs := by simp
    rw [ih (d ++ [(p.1, p.2)]) (by rw [this]; exact hnd), this]

/-! ## the source's input for a model input -/

def invDataOf (i : Inv) : InvData :=
  { component_id := i.id, active_power_inclusion_lower_bound := i.il, active_power_exclusion_lower_bound := i.el,
    active_power_exclusion_upper_bound := i.eu, active_power_inclusion_upper_bound := i.iu }

/-- the `InvBatPair` of a model group: the aggregated battery (`AggregatedBatteryData`, id `bid g`) and the inverters
in the order the model lists them -/
def pairOf (bid : Group → Int) (g : Group) : Pair :=
  { battery :=
      { component_id := bid g, capacity := (aggregate g.bats).cap, soc := (aggregate g.bats).soc,
        soc_upper_bound := (aggregate g.bats).socHi, soc_lower_bound := (aggregate g.bats).socLo,
        power_bounds := { inclusion_lower := (aggregate g.bats).il, exclusion_lower := (aggregate g.bats).el,
                          exclusion_upper := (aggregate g.bats).eu, inclusion_upper := (aggregate g.bats).iu } }
    inverter := g.invs.map invDataOf }

/-- all component ids of the request, in the order the source meets them -/
def keysL (bid : Group → Int) (gs : List Group) : List Int := gs.flatMap fun g => bid g :: g.invs.map (·.id)

def exclL (supply : Bool) (bid : Group → Int) (gs : List Group) : Dict Int Rat :=
  gs.flatMap fun g => (bid g, (normGroup supply g).batExcl) :: g.invs.map fun i => (i.id, (normInv supply (aggregate g.bats) i).excl)

def inclL (supply : Bool) (bid : Group → Int) (gs : List Group) : Dict Int Rat :=
  gs.flatMap fun g => (bid g, (normGroup supply g).batIncl) :: g.invs.map fun i => (i.id, (normInv supply (aggregate g.bats) i).incl)

theorem exclL_keys (supply : Bool) (bid : Group → Int) (gs : List Group) : (exclL supply bid gs).map (·.1) = keysL bid gs := by
  induction gs with
  | nil => rfl
  | cons g gs ih =>
    simp only [exclL, keysL, List.flatMap_cons, List.map_append, List.map_cons, List.map_map] at ih ⊢
    rw [ih]; rfl

theorem inclL_keys (supply : Bool) (bid : Group → Int) (gs : List Group) : (inclL supply bid gs).map (·.1) = keysL bid gs := by
  induction gs with
  | nil => rfl
  | cons g gs ih =>
    simp only [inclL, keysL, List.flatMap_cons, List.map_append, List.map_cons, List.map_map] at ih ⊢
    rw [ih]; rfl

/-! ## `_inclusion_exclusion_bounds` -/

theorem fresh_of_nodup {d : Dict Int Rat} {k : Int} {ks : List Int} (h : (d.map (·.1) ++ k :: ks).Nodup) :
    k ∉ d.map (·.1) := by
  intro hm
  exact (List.nodup_append.mp h).2.2 _ hm _ (by simp) rfl

theorem nodup_step {d : Dict Int Rat} {k : Int} {v : Rat} {ks : List Int} (h : (d.map (·.1) ++ k :: ks).Nodup) :
    ((d ++ [(k, v)]).map (·.1) ++ ks).Nodup := by
  simpa using h

theorem bounds_inv_supply (bid : Group → Int) (g : Group)
    (invs : List Inv) (e i : Dict Int Rat) (hne : (e.map (·.1) ++ invs.map (·.id)).Nodup)
    (hni : (i.map (·.1) ++ invs.map (·.id)).Nodup) :
    List.foldl (Extracted.DistLoops.inclusionExclusionBounds_for2 (pairOf bid g).battery) (e, i) (invs.map invDataOf) =
      (e ++ invs.map (fun v => (v.id, (normInv true (aggregate g.bats) v).excl)),
       i ++ invs.map (fun v => (v.id, (normInv true (aggregate g.bats) v).incl))) := by
  induction invs generalizing e i with
  | nil => simp
  | cons v invs ih =>
    simp only [List.map_cons, List.foldl_cons]
    simp only [List.map_cons] at hne hni
    have hfe : (invDataOf v).component_id ∉ e.map (·.1) := fresh_of_nodup hne
    have hfi : (invDataOf v).component_id ∉ i.map (·.1) := fresh_of_nodup hni
    simp only [Extracted.DistLoops.inclusionExclusionBounds_for2]
    rw [dictSet_fresh e _ _ hfe, dictSet_fresh i _ _ hfi]
    simp only [show (invDataOf v).component_id = v.id from rfl]
    rw [ih _ _ (nodup_step hne) (nodup_step hni)]
    simp [normInv, invExclSupply, invInclSupply, invDataOf, pairOf]

theorem bounds_inv_consume (bid : Group → Int) (g : Group)
    (invs : List Inv) (e i : Dict Int Rat) (hne : (e.map (·.1) ++ invs.map (·.id)).Nodup)
    (hni : (i.map (·.1) ++ invs.map (·.id)).Nodup) :
    List.foldl (Extracted.DistLoops.inclusionExclusionBounds_for4 (pairOf bid g).battery) (e, i) (invs.map invDataOf) =
      (e ++ invs.map (fun v => (v.id, (normInv false (aggregate g.bats) v).excl)),
       i ++ invs.map (fun v => (v.id, (normInv false (aggregate g.bats) v).incl))) := by
  induction invs generalizing e i with
  | nil => simp
  | cons v invs ih =>
    simp only [List.map_cons, List.foldl_cons]
    simp only [List.map_cons] at hne hni
    have hfe : (invDataOf v).component_id ∉ e.map (·.1) := fresh_of_nodup hne
    have hfi : (invDataOf v).component_id ∉ i.map (·.1) := fresh_of_nodup hni
    simp only [Extracted.DistLoops.inclusionExclusionBounds_for4]
    rw [dictSet_fresh e _ _ hfe, dictSet_fresh i _ _ hfi]
    simp only [show (invDataOf v).component_id = v.id from rfl]
    rw [ih _ _ (nodup_step hne) (nodup_step hni)]
    simp [normInv, invExclConsume, invInclConsume, invDataOf, pairOf]

theorem bounds_supply (bid : Group → Int) (gs : List Group)
    (e i : Dict Int Rat) (hne : (e.map (·.1) ++ keysL bid gs).Nodup) (hni : (i.map (·.1) ++ keysL bid gs).Nodup) :
    List.foldl Extracted.DistLoops.inclusionExclusionBounds_for1 (e, i) (gs.map (pairOf bid)) =
      (e ++ exclL true bid gs, i ++ inclL true bid gs) := by
  induction gs generalizing e i with
  | nil => simp [exclL, inclL]
  | cons g gs ih =>
    simp only [List.map_cons, List.foldl_cons]
    simp only [keysL, List.flatMap_cons, List.cons_append] at hne hni
    have hfe : (pairOf bid g).battery.component_id ∉ e.map (·.1) := fresh_of_nodup hne
    have hfi : (pairOf bid g).battery.component_id ∉ i.map (·.1) := fresh_of_nodup hni
    have hne2 := nodup_step (v := (normGroup true g).batExcl) hne
    have hni2 := nodup_step (v := (normGroup true g).batIncl) hni
    have hne3 : ((e ++ [(bid g, (normGroup true g).batExcl)]).map (·.1) ++ g.invs.map (·.id)).Nodup := by
      rw [← List.append_assoc] at hne2; exact (List.nodup_append.mp hne2).1
    have hni3 : ((i ++ [(bid g, (normGroup true g).batIncl)]).map (·.1) ++ g.invs.map (·.id)).Nodup := by
      rw [← List.append_assoc] at hni2; exact (List.nodup_append.mp hni2).1
    have hinner := bounds_inv_supply bid g g.invs _ _ hne3 hni3
    have hne4 : ((e ++ [(bid g, (normGroup true g).batExcl)] ++ g.invs.map (fun v => (v.id, (normInv true (aggregate g.bats) v).excl))).map (·.1)
        ++ keysL bid gs).Nodup := by
      simpa [keysL, List.map_map, Function.comp_def] using hne2
    have hni4 : ((i ++ [(bid g, (normGroup true g).batIncl)] ++ g.invs.map (fun v => (v.id, (normInv true (aggregate g.bats) v).incl))).map (·.1)
        ++ keysL bid gs).Nodup := by
      simpa [keysL, List.map_map, Function.comp_def] using hni2
    have hnext := ih _ _ hne4 hni4
    have hbe : (normGroup true g).batExcl = -(aggregate g.bats).el := by simp [normGroup, batExclSupply, batInclSupply]
    have hbi : (normGroup true g).batIncl = -(aggregate g.bats).il := by simp [normGroup, batExclSupply, batInclSupply]
    simp only [Extracted.DistLoops.inclusionExclusionBounds_for1]
    rw [dictSet_fresh e _ _ hfe, dictSet_fresh i _ _ hfi]
    have h1 : (pairOf bid g).battery.component_id = bid g := rfl
    have h2 : (pairOf bid g).battery.power_bounds.exclusion_lower = (aggregate g.bats).el := rfl
    have h3 : (pairOf bid g).battery.power_bounds.inclusion_lower = (aggregate g.bats).il := rfl
    have h4 : (pairOf bid g).inverter = g.invs.map invDataOf := rfl
    simp only [h1, h2, h3, h4, ← hbe, ← hbi, hinner, hnext]
    simp [exclL, inclL, List.append_assoc]

theorem bounds_consume (bid : Group → Int) (gs : List Group)
    (e i : Dict Int Rat) (hne : (e.map (·.1) ++ keysL bid gs).Nodup) (hni : (i.map (·.1) ++ keysL bid gs).Nodup) :
    List.foldl Extracted.DistLoops.inclusionExclusionBounds_for3 (e, i) (gs.map (pairOf bid)) =
      (e ++ exclL false bid gs, i ++ inclL false bid gs) := by
  induction gs generalizing e i with
  | nil => simp [exclL, inclL]
  | cons g gs ih =>
    simp only [List.map_cons, List.foldl_cons]
    simp only [keysL, List.flatMap_cons, List.cons_append] at hne hni
    have hfe : (pairOf bid g).battery.component_id ∉ e.map (·.1) := fresh_of_nodup hne
    have hfi : (pairOf bid g).battery.component_id ∉ i.map (·.1) := fresh_of_nodup hni
    have hne2 := nodup_step (v := (normGroup false g).batExcl) hne
    have hni2 := nodup_step (v := (normGroup false g).batIncl) hni
    have hne3 : ((e ++ [(bid g, (normGroup false g).batExcl)]).map (·.1) ++ g.invs.map (·.id)).Nodup := by
      rw [← List.append_assoc] at hne2; exact (List.nodup_append.mp hne2).1
    have hni3 : ((i ++ [(bid g, (normGroup false g).batIncl)]).map (·.1) ++ g.invs.map (·.id)).Nodup := by
      rw [← List.append_assoc] at hni2; exact (List.nodup_append.mp hni2).1
    have hinner := bounds_inv_consume bid g g.invs _ _ hne3 hni3
    have hne4 : ((e ++ [(bid g, (normGroup false g).batExcl)] ++ g.invs.map (fun v => (v.id, (normInv false (aggregate g.bats) v).excl))).map (·.1)
        ++ keysL bid gs).Nodup := by
      simpa [keysL, List.map_map, Function.comp_def] using hne2
    have hni4 : ((i ++ [(bid g, (normGroup false g).batIncl)] ++ g.invs.map (fun v => (v.id, (normInv false (aggregate g.bats) v).incl))).map (·.1)
        ++ keysL bid gs).Nodup := by
      simpa [keysL, List.map_map, Function.comp_def] using hni2
    have hnext := ih _ _ hne4 hni4
    have hbe : (normGroup false g).batExcl = (aggregate g.bats).eu := by simp [normGroup, batExclConsume, batInclConsume]
    have hbi : (normGroup false g).batIncl = (aggregate g.bats).iu := by simp [normGroup, batExclConsume, batInclConsume]
    simp only [Extracted.DistLoops.inclusionExclusionBounds_for3]
    rw [dictSet_fresh e _ _ hfe, dictSet_fresh i _ _ hfi]
    have h1 : (pairOf bid g).battery.component_id = bid g := rfl
    have h2 : (pairOf bid g).battery.power_bounds.exclusion_upper = (aggregate g.bats).eu := rfl
    have h3 : (pairOf bid g).battery.power_bounds.inclusion_upper = (aggregate g.bats).iu := rfl
    have h4 : (pairOf bid g).inverter = g.invs.map invDataOf := rfl
    simp only [h1, h2, h3, h4, ← hbe, ← hbi, hinner, hnext]
    simp [exclL, inclL, List.append_assoc]

/-- `_inclusion_exclusion_bounds` yields, for distinct component ids, the model's bounds of the requested side. -/
theorem bounds_eq_source (p : Prop) [Decidable p] (supply : Bool) (hp : p ↔ supply = true) (bid : Group → Int) (gs : List Group)
    (hnd : (keysL bid gs).Nodup) :
    Extracted.DistLoops.inclusionExclusionBounds (gs.map (pairOf bid)) p = (inclL supply bid gs, exclL supply bid gs) := by
  unfold Extracted.DistLoops.inclusionExclusionBounds
  by_cases hs : supply = true
  · have hp' : p := hp.mpr hs
    subst hs
    settle [hp']
    simp only [bounds_supply bid gs [] [] (by simpa using hnd) (by simpa using hnd), List.nil_append]
  · have hp' : ¬ p := fun h => hs (hp.mp h)
    have hs' : supply = false := by simpa using hs
    subst hs'
    settle [hp']
    simp only [bounds_consume bid gs [] [] (by simpa using hnd) (by simpa using hnd), List.nil_append]

end DistTie
