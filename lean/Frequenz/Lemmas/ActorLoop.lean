/-
C10 — lemmas about one run-loop task: the extracted decision table means what the property says, and the ghost
history of `Tsk.step` is always a restart chain.
-/
import Frequenz.Model.Actor

namespace Actor

open Extracted.Actor (Action handlers restartAllowed delayApplies restartDelayUs)

/-! ### what the extracted table says -/

theorem restartAllowed_iff (lim : Option Nat) (n : Nat) :
    restartAllowed lim n = true ↔ (lim = none ∨ ∃ l, lim = some l ∧ n < l) := by
  cases lim with
  | none => simp [restartAllowed]
  | some l => simp [restartAllowed] <;> omega

theorem delayApplies_succ (n : Nat) : delayApplies (n + 1) = true := by
  simp [delayApplies] <;> omega

theorem delayApplies_zero : delayApplies 0 = false := by
  simp [delayApplies]

theorem afterRun_ret (lim : Option Nat) (n : Nat) : afterRun lim n .ret = .finish .ret := by
  simp [afterRun]

/-- The tie between the source and the property: the restarting `except` clause is reached by exactly the failures
(`Exception`s: plain or `ExceptionGroup`), whatever other clauses stand before it — and by nothing else: not by a
return, a `CancelledError`, a non-`Exception` `BaseException`, nor a `BaseExceptionGroup` that is no `ExceptionGroup`.
(Fails to build when a clause is widened, narrowed, reordered or given another action.) -/
theorem restartsOn_eq_isFailure (o : Outcome) : restartsOn o = o.isFailure := by
  cases o <;> decide

/-- Every clause other than the restarting one re-raises. -/
theorem handlerFor_cases (o : Outcome) :
    (o.isFailure = true ∧ handlerFor handlers o = some .restartOrReraise) ∨
    (o.isFailure = false ∧ (handlerFor handlers o = some .reraise ∨ handlerFor handlers o = none)) := by
  cases o <;> decide

theorem afterRun_failure (lim : Option Nat) (n : Nat) (o : Outcome) (ho : o.isFailure = true) :
    afterRun lim n o = if restartAllowed lim n then .restart else .finish o := by
  rcases handlerFor_cases o with ⟨_, h⟩ | ⟨h, _⟩
  · have hr : o ≠ .ret := by intro h'; subst h'; cases ho
    simp [afterRun, hr, h]
  · rw [ho] at h; cases h

theorem afterRun_nonFailure (lim : Option Nat) (n : Nat) (o : Outcome) (ho : o.isFailure = false) :
    afterRun lim n o = .finish o := by
  rcases handlerFor_cases o with ⟨h, _⟩ | ⟨_, h | h⟩
  · rw [ho] at h; cases h
  · unfold afterRun; split
    · rename_i hr; rw [hr]
    · simp [h]
  · unfold afterRun; split
    · rename_i hr; rw [hr]
    · simp [h]

theorem afterRun_cancelled (lim : Option Nat) (n : Nat) : afterRun lim n .cancelled = .finish .cancelled :=
  afterRun_nonFailure lim n _ rfl

theorem afterRun_baseExc (lim : Option Nat) (n : Nat) : afterRun lim n .baseExc = .finish .baseExc :=
  afterRun_nonFailure lim n _ rfl

theorem afterRun_baseGroup (lim : Option Nat) (n : Nat) : afterRun lim n .baseGroup = .finish .baseGroup :=
  afterRun_nonFailure lim n _ rfl

theorem afterRun_exc (lim : Option Nat) (n : Nat) :
    afterRun lim n .exc = if restartAllowed lim n then .restart else .finish .exc :=
  afterRun_failure lim n _ rfl

theorem afterRun_excGroup (lim : Option Nat) (n : Nat) :
    afterRun lim n .excGroup = if restartAllowed lim n then .restart else .finish .excGroup :=
  afterRun_failure lim n _ rfl

/-- `_run_loop` restarts exactly after a failure (an `Exception`, plain or group) with the guard true; otherwise the
task ends with the outcome. -/
theorem afterRun_cases (lim : Option Nat) (n : Nat) (o : Outcome) :
    (afterRun lim n o = .restart ∧ o.isFailure = true ∧ restartAllowed lim n = true) ∨
    (afterRun lim n o = .finish o ∧ (o.isFailure = false ∨ restartAllowed lim n = false)) := by
  cases ho : o.isFailure
  · right; exact ⟨afterRun_nonFailure lim n o ho, Or.inl rfl⟩
  · rw [afterRun_failure lim n o ho]
    by_cases h : restartAllowed lim n = true <;> simp [h]


/-! ### the restart chain -/

/-- A history (newest first) is a restart chain: it starts with `enter 0`; every exit closes the entry before it;
every further entry `k+1` follows an exit of invocation `k` with a failure (an `Exception`), with the restart guard true for `k`,
and not before the restart delay has elapsed. -/
def ChainOk (lim : Option Nat) : List HEv → Prop
  | [] => True
  | [.enter n _] => n = 0
  | .exit k _ _ :: .enter k' t' :: rest => k = k' ∧ ChainOk lim (.enter k' t' :: rest)
  | .enter k t :: .exit k' o t' :: rest =>
      k = k' + 1 ∧ o.isFailure = true ∧ restartAllowed lim k' = true ∧ t' + restartDelayUs ≤ t ∧
      ChainOk lim (.exit k' o t' :: rest)
  | _ => False

/-- The phase of a task agrees with the newest entry of its history. -/
def PhaseOk (lim : Option Nat) (t : Tsk) : Prop :=
  match t.phase with
  | .fresh => t.hist = []
  | .extra => t.hist = []
  | .running n => ∃ tm rest, t.hist = .enter n tm :: rest
  | .delay n u => ∃ k o tm rest, n = k + 1 ∧ o.isFailure = true ∧ t.hist = .exit k o tm :: rest ∧
      restartAllowed lim k = true ∧ u = tm + restartDelayUs
  | .done o => t.hist = [] ∨ ∃ k o' tm rest, t.hist = .exit k o' tm :: rest ∧
      (afterRun lim k o' = .finish o ∨ (afterRun lim k o' = .restart ∧ o = .cancelled))

def TaskInv (lim : Option Nat) (t : Tsk) : Prop := ChainOk lim t.hist ∧ PhaseOk lim t

theorem TaskInv_newLoop (lim : Option Nat) (i : Nat) : TaskInv lim (newLoopTask i) := by
  simp [TaskInv, ChainOk, PhaseOk, newLoopTask]

theorem TaskInv_newExtra (lim : Option Nat) (i : Nat) : TaskInv lim (newExtraTask i) := by
  simp [TaskInv, ChainOk, PhaseOk, newExtraTask]

/-- `TaskInv` only looks at `phase` and `hist`. -/
theorem TaskInv_congr {lim : Option Nat} {t t' : Tsk} (hp : t'.phase = t.phase) (hh : t'.hist = t.hist) :
    TaskInv lim t → TaskInv lim t' := by
  intro h
  unfold TaskInv PhaseOk at *
  rw [hp, hh]; exact h

theorem TaskInv_step (lim : Option Nat) (now : Int) (r : StepRes) (t : Tsk) (h : TaskInv lim t) :
    TaskInv lim (t.step lim now r) := by
  obtain ⟨id, lp, phase, cr, owned, dropped, hist⟩ := t
  obtain ⟨hc, hp⟩ := h
  simp only at hc
  cases phase with
  | fresh =>
    simp only [PhaseOk] at hp
    subst hp
    cases cr <;> simp [Tsk.step, beginIteration, delayApplies_zero, TaskInv, PhaseOk, ChainOk]
  | delay n u =>
    simp only [PhaseOk] at hp
    obtain ⟨k, o, tm, rest, hn, hof, hh, hal, hu⟩ := hp
    subst hh
    cases cr with
    | true =>
      simp only [Tsk.step, if_true, TaskInv, PhaseOk]
      refine ⟨hc, Or.inr ⟨k, o, tm, rest, rfl, Or.inr ⟨?_, by first | rfl | trivial⟩⟩⟩
      rw [afterRun_failure lim k o hof, hal]; rfl
    | false =>
      by_cases hle : u ≤ now
      · simp only [Tsk.step, hle, if_true, TaskInv, PhaseOk]
        refine ⟨⟨hn, hof, hal, by omega, hc⟩, ?_⟩
        exact ⟨now, _, rfl⟩
      · simp only [Tsk.step, hle, if_false, TaskInv, PhaseOk]
        exact ⟨hc, k, o, tm, rest, hn, hof, rfl, hal, hu⟩
  | running n =>
    simp only [PhaseOk] at hp
    obtain ⟨tm, rest, hh⟩ := hp
    subst hh
    cases r with
    | cont => simp only [Tsk.step, TaskInv, PhaseOk]; exact ⟨hc, tm, rest, rfl⟩
    | fin o =>
      have hc' : ChainOk lim (.exit n o now :: .enter n tm :: rest) := by
        unfold ChainOk; exact ⟨rfl, hc⟩
      rcases afterRun_cases lim n o with ⟨ha, ho, hal⟩ | ⟨ha, _⟩
      · simp only [Tsk.step, ha, beginIteration, delayApplies_succ, if_true, TaskInv, PhaseOk]
        exact ⟨hc', n, o, now, _, rfl, ho, rfl, hal, rfl⟩
      · simp only [Tsk.step, ha, TaskInv, PhaseOk]
        exact ⟨hc', Or.inr ⟨n, o, now, _, rfl, Or.inl ha⟩⟩
  | extra =>
    simp only [PhaseOk] at hp
    subst hp
    cases r <;> simp [Tsk.step, TaskInv, PhaseOk, ChainOk]
  | done o =>
    simp only [Tsk.step, TaskInv]
    exact ⟨hc, hp⟩

/-! ### reading the chain -/

theorem ChainOk_tail {lim : Option Nat} {x : HEv} {l : List HEv} (h : ChainOk lim (x :: l)) : ChainOk lim l := by
  cases l with
  | nil => simp [ChainOk]
  | cons y l' =>
    cases x <;> cases y <;> simp only [ChainOk] at h
    · exact h.2.2.2.2
    · exact h.2

theorem ChainOk_suffix {lim : Option Nat} (post : List HEv) {l : List HEv} (h : ChainOk lim (post ++ l)) :
    ChainOk lim l := by
  induction post with
  | nil => exact h
  | cons x post ih => exact ih (ChainOk_tail h)

/-- An entry of invocation `k+1` sits directly on an exit of invocation `k` with a failure (an `Exception`), allowed by
the guard, at least `RESTART_DELAY` earlier. -/
theorem ChainOk_enter_succ {lim : Option Nat} {post pre : List HEv} {k : Nat} {tm : Int}
    (h : ChainOk lim (post ++ .enter (k + 1) tm :: pre)) :
    ∃ o t0 pre', pre = .exit k o t0 :: pre' ∧ o.isFailure = true ∧ restartAllowed lim k = true ∧
      t0 + restartDelayUs ≤ tm := by
  have h' := ChainOk_suffix post h
  cases pre with
  | nil => simp [ChainOk] at h'
  | cons y pre' =>
    cases y with
    | enter n t => simp [ChainOk] at h'
    | exit k' o t' =>
      simp only [ChainOk] at h'
      obtain ⟨hk, ho, hal, ht, _⟩ := h'
      have hk' : k' = k := by omega
      subst hk'
      exact ⟨o, t', pre', rfl, ho, hal, ht⟩

/-- Every exit closes the entry of the same invocation. -/
theorem ChainOk_exit_enter {lim : Option Nat} {post pre : List HEv} {k : Nat} {o : Outcome} {tm : Int}
    (h : ChainOk lim (post ++ .exit k o tm :: pre)) : ∃ t0 pre', pre = .enter k t0 :: pre' := by
  have h' := ChainOk_suffix post h
  cases pre with
  | nil => simp [ChainOk] at h'
  | cons y pre' =>
    cases y with
    | exit n o' t => simp [ChainOk] at h'
    | enter k' t' =>
      simp only [ChainOk] at h'
      obtain ⟨hk, _⟩ := h'
      subst hk
      exact ⟨t', pre', rfl⟩

/-- Nothing follows an exit unless it was a failure (an `Exception`) that the guard allows to restart; then the next
event is the entry of the next invocation, not before the delay. -/
theorem ChainOk_after_exit {lim : Option Nat} {post pre : List HEv} {k : Nat} {o : Outcome} {tm : Int}
    (h : ChainOk lim (post ++ .exit k o tm :: pre)) :
    post = [] ∨ (o.isFailure = true ∧ restartAllowed lim k = true ∧
      ∃ post' t1, post = post' ++ [.enter (k + 1) t1] ∧ tm + restartDelayUs ≤ t1) := by
  rcases List.eq_nil_or_concat post with hp | ⟨post', x, hp⟩
  · exact Or.inl hp
  · right
    subst hp
    have h' : ChainOk lim (x :: .exit k o tm :: pre) := by
      have := ChainOk_suffix post' (l := x :: .exit k o tm :: pre) (by simpa using h)
      exact this
    cases x with
    | exit n o' t => simp [ChainOk] at h'
    | enter n t1 =>
      simp only [ChainOk] at h'
      obtain ⟨hn, ho, hal, ht, _⟩ := h'
      subst hn
      exact ⟨ho, hal, post', t1, by simp, ht⟩

end Actor
