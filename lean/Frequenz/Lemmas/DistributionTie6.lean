/-
"Model is source", part 6: the dictionaries `_distribute_consume_power` / `_distribute_supply_power` build, the sign
handling of the supply side and the dispatch of `distribute_power` — the translated `distribute_power` is the model's
`distribute`.
-/
import Frequenz.Lemmas.DistributionTie5

namespace DistTie
open Dist Extracted.Dist
open Extracted.DistLoops (Dict dictGet dictSet mapAccumItems Power AvRatio DistResult Pair AggBat InvData PBounds
  sortByKey insertByKey keyLt)

/-! ## the ids -/

theorem bids_sublist (bid : Group → Int) (gs : List Group) : (gs.map bid).Sublist (keysL bid gs) := by
  induction gs with
  | nil => exact List.Sublist.refl _
  | cons g gs ih =>
    simp only [keysL, List.map_cons, List.flatMap_cons, List.cons_append] at ih ⊢
    exact List.Sublist.cons_cons _ (ih.trans (List.sublist_append_right _ _))

theorem invIds_sublist (bid : Group → Int) (gs : List Group) :
    (gs.flatMap fun g => g.invs.map (·.id)).Sublist (keysL bid gs) := by
  induction gs with
  | nil => exact List.Sublist.refl _
  | cons g gs ih =>
    simp only [keysL, List.flatMap_cons, List.cons_append] at ih ⊢
    exact List.Sublist.cons _ (List.Sublist.append (List.Sublist.refl _) ih)

theorem nodup_of_flat {L : List (List Int)} (hne : ∀ l ∈ L, l ≠ []) (h : L.flatten.Nodup) : L.Nodup := by
  induction L with
  | nil => exact List.nodup_nil
  | cons l L ih =>
    simp only [List.flatten_cons] at h
    obtain ⟨_, h2, h3⟩ := List.nodup_append.mp h
    refine List.nodup_cons.mpr ⟨?_, ih (fun x hx => hne x (List.mem_cons_of_mem _ hx)) h2⟩
    intro hm
    cases hl : l with
    | nil => exact hne l (by simp) hl
    | cons x xs =>
      have hx : x ∈ l := by rw [hl]; simp
      exact h3 x hx x (List.mem_flatten.mpr ⟨l, hm, hx⟩) rfl

/-! ## the dictionaries of one side -/

def availL (supply : Bool) (bid : Group → Int) (gs : List Group) : Dict Int Rat :=
  gs.map fun g => (bid g, (normGroup supply g).avail)

theorem avail_consume_val (bs : List Bat) :
    pyMax 0 ((aggregate bs).socHi - (aggregate bs).soc) = availOf false (aggregate bs) := by
  by_cases hc : sumL (bs.map (·.cap)) = 0
  · simp [aggregate, availOf, hc, pyMax]; grind
  · simp [aggregate, availOf, hc, availConsume]

theorem avail_supply_val (bs : List Bat) :
    pyMax 0 ((aggregate bs).soc - (aggregate bs).socLo) = availOf true (aggregate bs) := by
  by_cases hc : sumL (bs.map (·.cap)) = 0
  · simp [aggregate, availOf, hc, pyMax]; grind
  · simp [aggregate, availOf, hc, availSupply]

theorem avail_eq_source (supply : Bool) (bid : Group → Int) (gs : List Group) (F : Pair → Int × Rat)
    (hF : ∀ g, F (pairOf bid g) = (bid g, (normGroup supply g).avail)) (hnd : (keysL bid gs).Nodup) :
    ((gs.map (pairOf bid)).map F).foldl (fun d p => dictSet d p.1 p.2) ([] : Dict Int Rat) = availL supply bid gs := by
  have hl : (gs.map (pairOf bid)).map F = availL supply bid gs := by
    simp [availL, List.map_map, Function.comp_def, hF]
  rw [hl, foldl_dictSet_fresh]
  · simp
  · have : (availL supply bid gs).map (·.1) = gs.map bid := by simp [availL, List.map_map, Function.comp_def]
    simp only [List.nil_append, this]
    exact (bids_sublist bid gs).nodup hnd

theorem dictsOK_of_lists (supply : Bool) (bid : Group → Int) (gs : List Group) (hnd : (keysL bid gs).Nodup) :
    DictsOK supply bid (availL supply bid gs) (inclL supply bid gs) (exclL supply bid gs) gs := by
  have hndA : ((availL supply bid gs).map (·.1)).Nodup := by
    have : (availL supply bid gs).map (·.1) = gs.map bid := by simp [availL, List.map_map, Function.comp_def]
    rw [this]; exact (bids_sublist bid gs).nodup hnd
  have hndE : ((exclL supply bid gs).map (·.1)).Nodup := by rw [exclL_keys]; exact hnd
  have hndI : ((inclL supply bid gs).map (·.1)).Nodup := by rw [inclL_keys]; exact hnd
  refine ⟨fun g hg => ?_, fun g hg => ?_, fun g hg => ?_, fun g hg ib hib => ?_⟩
  · exact dictGet_of_mem _ _ _ hndA (List.mem_map.mpr ⟨g, hg, rfl⟩)
  · exact dictGet_of_mem _ _ _ hndE (List.mem_flatMap.mpr ⟨g, hg, by simp⟩)
  · exact dictGet_of_mem _ _ _ hndI (List.mem_flatMap.mpr ⟨g, hg, by simp⟩)
  · obtain ⟨i, hi, rfl⟩ : ∃ i ∈ g.invs, normInv supply (aggregate g.bats) i = ib := by
      simpa [normGroup] using hib
    rw [normInv_raw]
    exact ⟨dictGet_of_mem _ _ _ hndE (List.mem_flatMap.mpr ⟨g, hg, List.mem_cons_of_mem _ (List.mem_map.mpr ⟨i, hi, rfl⟩)⟩),
           dictGet_of_mem _ _ _ hndI (List.mem_flatMap.mpr ⟨g, hg, List.mem_cons_of_mem _ (List.mem_map.mpr ⟨i, hi, rfl⟩)⟩)⟩

/-! ## `DataOK` for the sorted items of a request -/

theorem mem_sorted_items {supply : Bool} {exp : Nat} {gs : List Group} {it : Item}
    (h : it ∈ sortItems (itemsOf supply exp gs)) :
    ∃ g ∈ gs, it = mkItem (totalCap (gs.map (normGroup supply))) exp (normGroup supply g) := by
  have h' := (sortItems_perm _).mem_iff.mp h
  simp only [itemsOf, List.map_map, List.mem_map, Function.comp_def] at h'
  obtain ⟨g, hg, rfl⟩ := h'
  exact ⟨g, hg, rfl⟩

theorem items_ids (supply : Bool) (exp : Nat) (gs : List Group) :
    (itemsOf supply exp gs).map (fun it => idsOf it.ng.invs) = gs.map fun g => g.invs.map (·.id) := by
  simp only [itemsOf, List.map_map]
  exact List.map_congr_left fun g _ => by simp [mkItem, normGroup_ids]

/-- `fsOrder` (the iteration order of `frozenset(ids)`, an input) depends on the SET of ids only, and `Group.invs` lists
the inverters in that order — the reading of `Group.invs` the model's header states. -/
def FsOrderOK (fsOrder : List Int → List Int) (gs : List Group) : Prop :=
  ∀ g ∈ gs, ∀ l : List Int, l.Perm (g.invs.map (·.id)) → fsOrder l = g.invs.map (·.id)

theorem dataOK_of_dicts (fsOrder : List Int → List Int) (supply : Bool) (exp : Nat) (bid : Group → Int)
    (avail incl excl : Dict Int Rat) (gs : List Group) (hok : DictsOK supply bid avail incl excl gs)
    (hfs : FsOrderOK fsOrder gs) (hnd : (keysL bid gs).Nodup) (hne : ∀ g ∈ gs, g.invs ≠ []) :
    DataOK fsOrder (idsS excl) (fun it => bid it.ng.raw) incl excl (sortItems (itemsOf supply exp gs)) := by
  have hflat : (gs.flatMap fun g => g.invs.map (·.id)).Nodup := (invIds_sublist bid gs).nodup hnd
  refine ⟨?_, ?_, ?_, ?_, ?_⟩
  · intro it hit
    obtain ⟨g, hg, rfl⟩ := mem_sorted_items hit
    have : idsOf (mkItem (totalCap (gs.map (normGroup supply))) exp (normGroup supply g)).ng.invs = g.invs.map (·.id) := by
      simp [mkItem, normGroup_ids]
    rw [this]
    exact hfs g hg _ (sortByKey_perm _ _ _)
  · have hp := (sortItems_perm (itemsOf supply exp gs)).map (fun it => idsOf it.ng.invs)
    rw [hp.nodup_iff, items_ids]
    refine nodup_of_flat ?_ (by simpa [List.flatMap] using hflat)
    intro l hl
    obtain ⟨g, hg, rfl⟩ := List.mem_map.mp hl
    simpa using hne g hg
  · have hp := (sortItems_perm (itemsOf supply exp gs)).flatMap_right (fun it => idsOf it.ng.invs)
    rw [hp.nodup_iff]
    have : ((itemsOf supply exp gs).flatMap fun it => idsOf it.ng.invs) = gs.flatMap fun g => g.invs.map (·.id) := by
      rw [List.flatMap_def, items_ids, ← List.flatMap_def]
    rw [this]; exact hflat
  · intro it hit
    obtain ⟨g, hg, rfl⟩ := mem_sorted_items hit
    exact hok.invs g hg
  · intro it hit
    obtain ⟨g, hg, rfl⟩ := mem_sorted_items hit
    have hraw : (mkItem (totalCap (gs.map (normGroup supply))) exp (normGroup supply g)).ng.raw = g := rfl
    have hperm : ((idsS excl (mkItem (totalCap (gs.map (normGroup supply))) exp (normGroup supply g))).map fun i => dictGet incl i).Perm
        ((normGroup supply g).invs.map (·.incl)) := by
      have h1 := (sortByKey_perm (fun i => (dictGet excl i, ((i : Int) : Rat))) true (g.invs.map (·.id))).map (fun i => dictGet incl i)
      have h2 : (g.invs.map (·.id)).map (fun i => dictGet incl i) = (normGroup supply g).invs.map (·.incl) := by
        rw [← normGroup_ids supply g, idsOf, List.map_map]
        exact List.map_congr_left fun ib hib => (hok.invs g hg ib hib).2
      rw [h2] at h1; exact h1
    simp only [sumL_src, sumL_perm hperm, hraw, hok.batIncl g hg]
    rfl

theorem sorted_length (supply : Bool) (exp : Nat) (gs : List Group) :
    (sortItems (itemsOf supply exp gs)).length = gs.length := by
  rw [(sortItems_perm _).length_eq]; simp [itemsOf]

/-! ## one side -/

/-- the result record of the source for a model core result -/
def coreResult (c : CoreOut) : DistResult :=
  { distribution := c.groups.flatMap (fun g => spsOf g.sps), remaining_power := c.rem }

/-- `_distribute_power` on the dictionaries of one side is the model's `runSide` (sum of ratios not close to zero). -/
theorem side_eq_source (m : Nat) (fsOrder : List Int → List Int) (supply : Bool) (exp : Nat) (bid : Group → Int) (gs : List Group)
    (P : Rat) (hfs : FsOrderOK fsOrder gs) (hnd : (keysL bid gs).Nodup) (hne : ∀ g ∈ gs, g.invs ≠ [])
    (hS : ¬ isCloseToZero (sumL ((itemsOf supply exp gs).map (·.ratio)))) :
    Extracted.DistLoops.distributePower exp fsOrder (gs.length + 1 + m) (gs.map (pairOf bid)) P (availL supply bid gs)
        (inclL supply bid gs) (exclL supply bid gs) = (runSide supply P exp gs).map coreResult := by
  have hok := dictsOK_of_lists supply bid gs hnd
  have hratio := ratio_eq_source exp supply bid _ _ _ gs hok
  unfold runSide
  by_cases hz : isCloseToZero (totalCap (gs.map (normGroup supply)))
  · simp only [hz, if_true] at hratio ⊢
    unfold Extracted.DistLoops.distributePower
    simp only [hratio, Option.map_none]
  · simp only [hz, if_false] at hratio ⊢
    have hdata := dataOK_of_dicts fsOrder supply exp bid _ _ _ gs hok hfs hnd hne
    have := core_eq_source m exp fsOrder (idsS (exclL supply bid gs)) (fun it => bid it.ng.raw) (inclL supply bid gs)
      (exclL supply bid gs) (availL supply bid gs) (gs.map (pairOf bid)) P _ _ hS hdata hratio
    rw [sorted_length] at this
    rw [this]; rfl

/-! ## `_distribute_consume_power`, `_distribute_supply_power`, `distribute_power` -/

theorem consume_eq_source (m : Nat) (fsOrder : List Int → List Int) (exp : Nat) (bid : Group → Int) (gs : List Group)
    (P : Rat) (hfs : FsOrderOK fsOrder gs) (hnd : (keysL bid gs).Nodup) (hne : ∀ g ∈ gs, g.invs ≠ [])
    (hS : ¬ isCloseToZero (sumL ((itemsOf false exp gs).map (·.ratio)))) :
    Extracted.DistLoops.distributeConsumePower exp fsOrder (gs.length + 1 + m) P (gs.map (pairOf bid)) =
      (runSide false P exp gs).map coreResult := by
  have hav := avail_eq_source false bid gs
    (fun x => (x.battery.component_id, pyMax (0 : Rat) (x.battery.soc_upper_bound - x.battery.soc)))
    (fun g => by
      show (bid g, pyMax 0 ((aggregate g.bats).socHi - (aggregate g.bats).soc)) = _
      rw [avail_consume_val]; rfl) hnd
  have hb := bounds_eq_source False false (by simp) bid gs hnd
  unfold Extracted.DistLoops.distributeConsumePower
  simp only [hav, hb]
  exact side_eq_source m fsOrder false exp bid gs P hfs hnd hne hS

theorem negate_eq_source (d : Dict Int Rat) :
    mapAccumItems Extracted.DistLoops.distributeSupplyPower_for1 () d = ((), d.map fun p => (p.1, supplySetpointOut p.2)) := by
  induction d with
  | nil => rfl
  | cons p d ih =>
    obtain ⟨k, v⟩ := p
    simp only [mapAccumItems, ih, List.map_cons]
    rfl

/-- the result record of the supply side: signs restored -/
def supplyResult (c : CoreOut) : DistResult :=
  { distribution := (coreResult c).distribution.map fun p => (p.1, supplySetpointOut p.2)
    remaining_power := supplyRemainingOut c.rem }

theorem supply_eq_source (m : Nat) (fsOrder : List Int → List Int) (exp : Nat) (bid : Group → Int) (gs : List Group)
    (P : Rat) (hfs : FsOrderOK fsOrder gs) (hnd : (keysL bid gs).Nodup) (hne : ∀ g ∈ gs, g.invs ≠ [])
    (hS : ¬ isCloseToZero (sumL ((itemsOf true exp gs).map (·.ratio)))) :
    Extracted.DistLoops.distributeSupplyPower exp fsOrder (gs.length + 1 + m) P (gs.map (pairOf bid)) =
      (runSide true (supplyPowerIn P) exp gs).map supplyResult := by
  have hav := avail_eq_source true bid gs
    (fun x => (x.battery.component_id, pyMax (0 : Rat) (x.battery.soc - x.battery.soc_lower_bound)))
    (fun g => by
      show (bid g, pyMax 0 ((aggregate g.bats).soc - (aggregate g.bats).socLo)) = _
      rw [avail_supply_val]; rfl) hnd
  have hb := bounds_eq_source True true (by simp) bid gs hnd
  have hside := side_eq_source m fsOrder true exp bid gs (supplyPowerIn P) hfs hnd hne hS
  unfold supplyPowerIn at hside
  unfold Extracted.DistLoops.distributeSupplyPower
  simp only [hav, hb, hside]
  change _ = Option.map supplyResult (runSide true (-1 * P) exp gs)
  cases runSide true (-1 * P) exp gs with
  | none => rfl
  | some c =>
    simp only [Option.map_some, negate_eq_source]
    rfl

/-- the result record of the source for a model result: inverter id ↦ set-point, in the model's order -/
def resultOf (o : Out) : DistResult :=
  { distribution := o.setpoints.map fun x => (x.1.id, x.2), remaining_power := o.rem }

theorem resultOf_consume (c : CoreOut) (f : Flags) :
    resultOf { groups := c.groups.map (resOf false), rem := c.rem, flags := f, core := some c } = coreResult c := by
  simp [resultOf, coreResult, Out.setpoints, resOf, spsOf, List.flatMap_map, List.map_flatMap, List.map_map, Function.comp_def]

theorem resultOf_supply (c : CoreOut) (f : Flags) :
    resultOf { groups := c.groups.map (resOf true), rem := supplyRemainingOut c.rem, flags := f, core := some c } = supplyResult c := by
  simp [resultOf, supplyResult, coreResult, Out.setpoints, resOf, spsOf, List.flatMap_map, List.map_flatMap, List.map_map,
    Function.comp_def]

/-- **`distribute_power` is the model's `distribute`**: for distinct component ids, non-empty inverter sets, `Group.invs`
in `frozenset` order and a sum of availability ratios that is not close to zero on the requested side. -/
theorem distribute_eq_source (m : Nat) (fsOrder : List Int → List Int) (bid : Group → Int) (inp : Input)
    (hfs : FsOrderOK fsOrder inp.groups) (hnd : (keysL bid inp.groups).Nodup) (hne : ∀ g ∈ inp.groups, g.invs ≠ [])
    (hS : ∀ supply : Bool, ¬ isCloseToZero (sumL ((itemsOf supply inp.exp inp.groups).map (·.ratio)))) :
    Extracted.DistLoops.distributePowerTop inp.exp fsOrder (inp.groups.length + 1 + m) inp.power (inp.groups.map (pairOf bid)) =
      (distribute inp).map resultOf := by
  unfold Extracted.DistLoops.distributePowerTop distribute
  by_cases hz : zeroRequest inp.power
  · have hz' : isCloseToZero inp.power := hz
    settle [hz, hz']
    have hl : ((inp.groups.map (pairOf bid)).flatMap fun x => x.inverter.map fun y => (y.component_id, (0 : Rat))) =
        inp.groups.flatMap fun g => g.invs.map fun i => (i.id, (0 : Rat)) := by
      simp [List.flatMap_map, pairOf, invDataOf, List.map_map, Function.comp_def]
    rw [hl, foldl_dictSet_fresh]
    · simp [resultOf, Out.setpoints, List.flatMap_map, List.map_flatMap, List.map_map, Function.comp_def]
    · have : (inp.groups.flatMap fun g => g.invs.map fun i => (i.id, (0 : Rat))).map (·.1) =
          inp.groups.flatMap fun g => g.invs.map (·.id) := by
        simp [List.map_flatMap, List.map_map, Function.comp_def]
      simp only [List.nil_append, this]
      exact (invIds_sublist bid inp.groups).nodup hnd
  · have hz' : ¬ isCloseToZero inp.power := hz
    by_cases hc : consumeRequest inp.power
    · have hc' : (0 : Rat) < inp.power := hc
      have hc'' : ¬ inp.power ≤ 0 := by grind
      settle [hz, hz', hc, hc', hc'']
      rw [consume_eq_source m fsOrder inp.exp bid inp.groups inp.power hfs hnd hne (hS false)]
      cases runSide false inp.power inp.exp inp.groups with
      | none => rfl
      | some c => simp only [Option.map_some, resultOf_consume]
    · have hc' : ¬ (0 : Rat) < inp.power := hc
      have hc'' : inp.power ≤ 0 := by grind
      settle [hz, hz', hc, hc', hc'']
      rw [supply_eq_source m fsOrder inp.exp bid inp.groups inp.power hfs hnd hne (hS true)]
      cases runSide true (supplyPowerIn inp.power) inp.exp inp.groups with
      | none => rfl
      | some c => simp only [Option.map_some, resultOf_supply]

end DistTie
