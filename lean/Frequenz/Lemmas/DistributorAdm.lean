/-
Structural facts about admissible histories (serves: C14): inversion, prefix closure, and the state
reached by letting the in-flight tasks of a group finish.
-/
import Frequenz.Lemmas.DistributorInv

namespace Distributor

theorem snoc_induction {α : Type} {P : List α → Prop} (hnil : P [])
    (hsnoc : ∀ l a, P l → P (l ++ [a])) (l : List α) : P l := by
  have : ∀ l : List α, P l.reverse := by
    intro l
    induction l with
    | nil => simpa using hnil
    | cons a l ih => rw [List.reverse_cons]; exact hsnoc _ _ ih
  simpa using this l.reverse

theorem snoc_inj {α : Type} {a b : List α} {x y : α} (h : a ++ [x] = b ++ [y]) : a = b ∧ x = y := by
  have := List.append_inj' h rfl
  exact ⟨this.1, by simpa using this.2⟩

/-- Inversion: the last event of an admissible history was admissible when it happened. -/
theorem admissible_snoc_inv {es : List Event} {e : Event} (h : Admissible (es ++ [e])) :
    Admissible es ∧ (∀ g o, e = Event.complete g o → 1 ≤ inFlight g (trace es)) := by
  generalize hl : es ++ [e] = l at h
  cases h with
  | nil => simp at hl
  | @arrive es' g r h' =>
    obtain ⟨h1, h2⟩ := snoc_inj hl
    subst h1; subst h2
    exact ⟨h', by intro g o h; cases h⟩
  | @complete es' g o h' hfl =>
    obtain ⟨h1, h2⟩ := snoc_inj hl
    subst h1; subst h2
    refine ⟨h', ?_⟩
    intro g' o' h
    cases h
    exact hfl

/-- Every prefix of an admissible history is admissible. -/
theorem admissible_prefix (es₁ es₂ : List Event) (h : Admissible (es₁ ++ es₂)) : Admissible es₁ := by
  induction es₂ using snoc_induction with
  | hnil => simpa using h
  | hsnoc es e ih =>
    rw [← List.append_assoc] at h
    exact ih (admissible_snoc_inv h).1

theorem busy_of_inFlight {es : List Event} (h : Admissible es) (g : Group)
    (hfl : 1 ≤ inFlight g (trace es)) : ∃ r, (final es).processing g = some r := by
  have := (inv_of_admissible h g).flight
  cases hp : (final es).processing g with
  | some r => exact ⟨r, rfl⟩
  | none => rw [hp] at this; simp at this; omega

theorem inFlight_of_busy {es : List Event} (h : Admissible es) (g : Group) (r : Req)
    (hp : (final es).processing g = some r) : inFlight g (trace es) = 1 := by
  have := (inv_of_admissible h g).flight
  rw [hp] at this; simpa using this

theorem inFlight_of_idle {es : List Event} (h : Admissible es) (g : Group)
    (hp : (final es).processing g = none) : inFlight g (trace es) = 0 := by
  have := (inv_of_admissible h g).flight
  rw [hp] at this; simpa using this

/-- Letting the tasks of `g` finish: after at most two completions (of any outcome) nothing of `g` is in
flight any more. -/
theorem drain {es : List Event} (h : Admissible es) (g : Group) :
    ∃ k, k ≤ 2 ∧ ∀ os : List Outcome, os.length = k →
      Admissible (es ++ os.map (Event.complete g)) ∧
      inFlight g (trace (es ++ os.map (Event.complete g))) = 0 := by
  cases hp : (final es).processing g with
  | none =>
    refine ⟨0, by omega, ?_⟩
    intro os hos
    have : os = [] := List.eq_nil_of_length_eq_zero hos
    subst this
    simp
    exact ⟨h, inFlight_of_idle h g hp⟩
  | some r0 =>
    have hfl : 1 ≤ inFlight g (trace es) := by rw [inFlight_of_busy h g r0 hp]; omega
    cases hq : (final es).pending g with
    | none =>
      refine ⟨1, by omega, ?_⟩
      intro os hos
      match os, hos with
      | [o], _ =>
        have h1 : Admissible (es ++ [Event.complete g o]) := Admissible.complete g o h hfl
        refine ⟨by simpa using h1, ?_⟩
        have hp1 : (final (es ++ [Event.complete g o])).processing g = none := by
          rw [final_snoc]; exact (step_complete_nopending (final es) g o hq).2.2.1
        simpa using inFlight_of_idle h1 g hp1
    | some r =>
      refine ⟨2, by omega, ?_⟩
      intro os hos
      match os, hos with
      | [o1, o2], _ =>
        have h1 : Admissible (es ++ [Event.complete g o1]) := Admissible.complete g o1 h hfl
        have hst := step_complete_pending (final es) g o1 r hq
        have hp1 : (final (es ++ [Event.complete g o1])).processing g = some r := by
          simp [final_snoc, hst]
        have hq1 : (final (es ++ [Event.complete g o1])).pending g = none := by
          simp [final_snoc, hst]
        have hfl1 : 1 ≤ inFlight g (trace (es ++ [Event.complete g o1])) := by
          rw [inFlight_of_busy h1 g r hp1]; omega
        have h2 : Admissible (es ++ [Event.complete g o1] ++ [Event.complete g o2]) :=
          Admissible.complete g o2 h1 hfl1
        have hp2 : (final (es ++ [Event.complete g o1] ++ [Event.complete g o2])).processing g = none := by
          rw [final_snoc]; exact (step_complete_nopending _ g o2 hq1).2.2.1
        have e : es ++ List.map (Event.complete g) [o1, o2] =
            es ++ [Event.complete g o1] ++ [Event.complete g o2] := by simp
        rw [e]
        exact ⟨h2, inFlight_of_idle h2 g hp2⟩

/-- The sub-trace of the events of group `g` is the trace of running the events of `g` alone. -/
theorem project (es : List Event) (g : Group) :
    (trace es).filter (fun x => x.1.group = g) = trace (es.filter (fun e => e.group = g)) ∧
    (final es).processing g = (final (es.filter (fun e => e.group = g))).processing g ∧
    (final es).pending g = (final (es.filter (fun e => e.group = g))).pending g := by
  induction es using snoc_induction with
  | hnil => simp
  | hsnoc es e ih =>
    obtain ⟨ih1, ih2, ih3⟩ := ih
    by_cases he : e.group = g
    · obtain ⟨l1, l2, l3⟩ := step_local (final es) (final (es.filter (fun e => e.group = g))) e g he ih2 ih3
      simp only [List.filter_append, trace_snoc, final_snoc]
      simp [he, trace_snoc, final_snoc, ih1, l1, l2, l3]
    · obtain ⟨o1, o2, _⟩ := step_other (final es) e g he
      simp only [List.filter_append, trace_snoc, final_snoc]
      simp [he, ih1, o1, o2, ih2, ih3]

end Distributor
