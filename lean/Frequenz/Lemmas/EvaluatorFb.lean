/-
Invariant of the engine whose terms may have a fallback (C06, `Evaluator.stepF`): composition of the evaluator's
control state with the per-term invariant of the `MetricFetcher` model (`Fallback.Inv`, C19).  The `k`-th completed
`fetch_next()` of term `i` returns a sample stamped `t0 i + k` (the primary sample of that tick, or the fallback sample
of the same tick); after the first emission every term has completed `T0 + #outputs - t0 i` fetches (+1 if it has
fetched for the running `apply()`), so every `apply()` evaluates samples of one timestamp.  Serves Props/C06.lean.
-/
import Frequenz.Lemmas.Evaluator
import Frequenz.Lemmas.Fallback

namespace Evaluator

open QList

/-! #### one `fetch_next()` of a term -/

/-- What a completed `Fallback.round` leaves untouched, and what it appends. -/
def Frame (τ τ' : Fallback.St) : Prop :=
  τ'.pAll = τ.pAll ∧ τ'.acc = τ.acc ∧ τ'.fAll = τ.fAll ∧ τ'.pClosed = τ.pClosed ∧ τ'.fClosed = τ.fClosed ∧
    ∃ res, τ'.out = τ.out ++ [res] ∧ (τ.pClosed = false → ∃ s, res = .sample s)

theorem withLatest_frame {σ σ' : Fallback.St} {p : Fallback.Sample} {pr : List Fallback.Sample}
    {l : Fallback.Sample} {fq : List Fallback.Sample} (h : Fallback.withLatest σ p pr l fq = some σ') :
    Frame σ σ' := by
  unfold Fallback.withLatest at h
  split at h
  · cases h; exact ⟨rfl, rfl, rfl, rfl, rfl, _, rfl, fun _ => ⟨_, rfl⟩⟩
  · split at h
    · cases h; exact ⟨rfl, rfl, rfl, rfl, rfl, _, rfl, fun _ => ⟨_, rfl⟩⟩
    · cases h; exact ⟨rfl, rfl, rfl, rfl, rfl, _, rfl, fun _ => ⟨_, rfl⟩⟩
    · cases h

theorem withFallback_frame {σ σ' : Fallback.St} {p : Fallback.Sample} {pr : List Fallback.Sample}
    (h : Fallback.withFallback σ p pr = some σ') : Frame σ σ' := by
  unfold Fallback.withFallback at h
  split at h
  · exact withLatest_frame h
  · split at h
    · exact withLatest_frame h
    · split at h
      · cases h; exact ⟨rfl, rfl, rfl, rfl, rfl, _, rfl, fun _ => ⟨_, rfl⟩⟩
      · cases h

theorem round_frame {τ τ' : Fallback.St} (h : Fallback.round τ = some τ') : Frame τ τ' := by
  unfold Fallback.round at h
  split at h
  · split at h
    · split at h
      · cases h; exact ⟨rfl, rfl, rfl, rfl, rfl, _, rfl, fun _ => ⟨_, rfl⟩⟩
      · cases h; exact ⟨rfl, rfl, rfl, rfl, rfl, _, rfl, fun _ => ⟨_, rfl⟩⟩
    · split at h
      · rename_i hc
        cases h; exact ⟨rfl, rfl, rfl, rfl, rfl, _, rfl, fun hf => by rw [hf] at hc; cases hc⟩
      · cases h
  · split at h
    · exact withFallback_frame h
    · split at h
      · rename_i hc
        split at h
        · cases h; exact ⟨rfl, rfl, rfl, rfl, rfl, _, rfl, fun _ => ⟨_, rfl⟩⟩
        · split at h
          · cases h; exact ⟨rfl, rfl, rfl, rfl, rfl, _, rfl, fun hf => by rw [hf] at hc; cases hc⟩
          · cases h
      · cases h

/-- `fetch_next()` of a term with a fallback is one `Fallback.round` whose result is a sample. -/
theorem fetchTerm_fb {τ τ' : Fallback.St} {s : Fallback.Sample} (h : fetchTerm true τ = some (τ', s)) :
    Fallback.round τ = some τ' ∧ τ'.out = τ.out ++ [.sample s] := by
  unfold fetchTerm at h
  simp only [if_true] at h
  cases hr : Fallback.round τ with
  | none => rw [hr] at h; cases h
  | some τ'' =>
    rw [hr] at h
    dsimp only at h
    obtain ⟨_, _, _, _, _, res, hres, _⟩ := round_frame hr
    rw [hres] at h
    simp only [List.getLast?_append, List.getLast?_singleton, Option.some_or] at h
    cases res with
    | sample s' =>
      simp only [Option.some.injEq, Prod.mk.injEq] at h
      obtain ⟨rfl, rfl⟩ := h
      exact ⟨rfl, hres⟩
    | none => cases h
    | raised => cases h

/-- `fetch_next()` of a plain term is a `receive()` on the primary queue. -/
theorem fetchTerm_plain {τ τ' : Fallback.St} {s : Fallback.Sample} (h : fetchTerm false τ = some (τ', s)) :
    ∃ pr, τ.pq = s :: pr ∧ τ' = { τ with pq := pr, out := τ.out ++ [.sample s] } := by
  unfold fetchTerm at h
  simp only [Bool.false_eq_true, if_false] at h
  cases hq : τ.pq with
  | nil => rw [hq] at h; cases h
  | cons p pr =>
    rw [hq] at h
    simp only [Option.some.injEq, Prod.mk.injEq] at h
    obtain ⟨rfl, rfl⟩ := h
    exact ⟨pr, rfl, rfl⟩

/-! #### per-term invariant -/

/-- A term without fallback: its queue is the unread suffix of the gap-free primary history. -/
structure PlainInv (p0 : Int) (τ : Fallback.St) : Prop where
  pts : ∀ (i : Nat) (s : Fallback.Sample), τ.pAll[i]? = some s → s.ts = p0 + i
  pq_eq : τ.pq = τ.pAll.drop τ.out.length
  le : τ.out.length ≤ τ.pAll.length
  results : ∀ (k : Nat) (res : Fallback.Res), τ.out[k]? = some res → ∃ p, τ.pAll[k]? = some p ∧ res = .sample p
  popen : τ.pClosed = false

def TermInv (fb : Bool) (p0 g0 : Int) (τ : Fallback.St) : Prop :=
  (fb = true → Fallback.Inv p0 g0 τ ∧ τ.pClosed = false ∧ τ.fClosed = false) ∧ (fb = false → PlainInv p0 τ)

/-- where the sample `u` used for a term comes from: the primary sample `p` of the same timestamp — `u` is `p`
itself, or, only if `p` is invalid and the term has a fallback, a sample the started fallback delivered -/
def Prov (fb : Bool) (τ : Fallback.St) (u : Fallback.Sample) : Prop :=
  ∃ p, p ∈ τ.pAll ∧ p.ts = u.ts ∧ (p.val.isSome = true → u = p) ∧
    (u = p ∨ (fb = true ∧ p.val = none ∧ u ∈ τ.acc))

/-- what the engine proof uses of a term -/
structure TermOK (fb : Bool) (p0 : Int) (τ : Fallback.St) : Prop where
  le : τ.out.length ≤ τ.pAll.length
  results : ∀ (k : Nat) (res : Fallback.Res), τ.out[k]? = some res →
      ∃ s, res = .sample s ∧ s.ts = p0 + k ∧ Prov fb τ s

theorem TermInv.ok {fb : Bool} {p0 g0 : Int} {τ : Fallback.St} (h : TermInv fb p0 g0 τ) : TermOK fb p0 τ := by
  cases fb with
  | true =>
    obtain ⟨hinv, hpc, _⟩ := h.1 rfl
    have hle : τ.out.length ≤ τ.pAll.length := by
      rcases Nat.lt_or_ge τ.pAll.length τ.out.length with h' | h'
      · have := (hinv.closedPhase h').1; rw [hpc] at this; cases this
      · exact h'
    refine ⟨hle, ?_⟩
    intro k res hk
    have hkl := lt_length_of_getElem? _ _ _ hk
    obtain ⟨p, hp, h1, h2⟩ := hinv.results k res hk (by omega)
    have hpts := hinv.pts k p hp
    have hmem : p ∈ τ.pAll := List.mem_of_getElem? hp
    cases hv : p.val with
    | some v =>
      have hres := h1 (by rw [hv]; rfl)
      exact ⟨p, hres, hpts, p, hmem, rfl, fun _ => rfl, Or.inl rfl⟩
    | none =>
      rcases h2 hv with ⟨s, j, hj, hts, hres⟩ | ⟨hres, _⟩
      · refine ⟨s, hres, by omega, p, hmem, hts.symm, ?_, Or.inr ⟨rfl, hv, List.mem_of_getElem? hj⟩⟩
        intro hc; rw [hv] at hc; cases hc
      · exact ⟨p, hres, hpts, p, hmem, rfl, fun _ => rfl, Or.inl rfl⟩
  | false =>
    have hp := h.2 rfl
    refine ⟨hp.le, ?_⟩
    intro k res hk
    obtain ⟨p, hpk, hres⟩ := hp.results k res hk
    exact ⟨p, hres, hp.pts k p hpk, p, List.mem_of_getElem? hpk, rfl, fun _ => rfl, Or.inl rfl⟩

theorem Prov.mono {fb : Bool} {τ τ' : Fallback.St} {u : Fallback.Sample} (h : Prov fb τ u)
    (hp : ∃ x, τ'.pAll = τ.pAll ++ x) (ha : ∃ y, τ'.acc = τ.acc ++ y) : Prov fb τ' u := by
  obtain ⟨x, hx⟩ := hp
  obtain ⟨y, hy⟩ := ha
  obtain ⟨p, hmem, hts, h1, h2⟩ := h
  refine ⟨p, by rw [hx]; exact List.mem_append_left _ hmem, hts, h1, ?_⟩
  rcases h2 with h2 | ⟨hf, hv, hu⟩
  · exact Or.inl h2
  · exact Or.inr ⟨hf, hv, by rw [hy]; exact List.mem_append_left _ hu⟩

/-- a delivery on the primary stream of a term -/
theorem termInv_dP {fb : Bool} {p0 g0 : Int} {τ : Fallback.St} (h : TermInv fb p0 g0 τ) (s : Fallback.Sample)
    (hs : s.ts = p0 + τ.pAll.length) :
    TermInv fb p0 g0 (Fallback.step τ (.dP s)) ∧ (Fallback.step τ (.dP s)).out = τ.out ∧
      (Fallback.step τ (.dP s)).pAll = τ.pAll ++ [s] ∧ (Fallback.step τ (.dP s)).acc = τ.acc := by
  have hpc : τ.pClosed = false := by
    cases fb with
    | true => exact (h.1 rfl).2.1
    | false => exact (h.2 rfl).popen
  have hstep : Fallback.step τ (.dP s) = { τ with pq := τ.pq ++ [s], pAll := τ.pAll ++ [s] } := by
    rw [Fallback.step_dP, hpc]; rfl
  refine ⟨⟨?_, ?_⟩, by rw [hstep], by rw [hstep], by rw [hstep]⟩
  · intro hf
    obtain ⟨hinv, _, hfc⟩ := h.1 hf
    refine ⟨Fallback.inv_dP hinv s hs, ?_, ?_⟩
    · rw [hstep]; exact hpc
    · rw [hstep]; exact hfc
  · intro hf
    have hp := h.2 hf
    rw [hstep]
    refine ⟨?_, ?_, ?_, ?_, hpc⟩ <;> dsimp only
    · intro i x hx
      rcases getElem?_append_cases _ _ _ _ hx with hx | ⟨rfl, rfl⟩
      · exact hp.pts i x hx
      · exact hs
    · rw [drop_append_single _ _ _ hp.le, hp.pq_eq]
    · simp only [List.length_append, List.length_cons, List.length_nil]; have := hp.le; omega
    · intro k res hk
      obtain ⟨p, hpk, hres⟩ := hp.results k res hk
      exact ⟨p, getElem?_append_some _ _ _ _ hpk, hres⟩

/-- an emission of the fallback source of a term -/
theorem termInv_dF {fb : Bool} {p0 g0 : Int} {τ : Fallback.St} (h : TermInv fb p0 g0 τ) (s : Fallback.Sample)
    (hs : s.ts = g0 + τ.fAll.length) :
    TermInv fb p0 g0 (Fallback.step τ (.dF s)) ∧ (Fallback.step τ (.dF s)).out = τ.out ∧
      (Fallback.step τ (.dF s)).pAll = τ.pAll ∧ ∃ y, (Fallback.step τ (.dF s)).acc = τ.acc ++ y := by
  have hframe : (Fallback.step τ (.dF s)).out = τ.out ∧ (Fallback.step τ (.dF s)).pAll = τ.pAll ∧
      (Fallback.step τ (.dF s)).pq = τ.pq ∧ (Fallback.step τ (.dF s)).pClosed = τ.pClosed ∧
      (Fallback.step τ (.dF s)).fClosed = τ.fClosed ∧ ∃ y, (Fallback.step τ (.dF s)).acc = τ.acc ++ y := by
    rw [Fallback.step_dF]
    split
    · exact ⟨rfl, rfl, rfl, rfl, rfl, [], by simp⟩
    · split
      · exact ⟨rfl, rfl, rfl, rfl, rfl, [s], rfl⟩
      · exact ⟨rfl, rfl, rfl, rfl, rfl, [], by simp⟩
  obtain ⟨ho, hpa, hpq, hpc, hfc, hacc⟩ := hframe
  refine ⟨⟨?_, ?_⟩, ho, hpa, hacc⟩
  · intro hf
    obtain ⟨hinv, h1, h2⟩ := h.1 hf
    exact ⟨Fallback.inv_dF hinv s hs, by rw [hpc]; exact h1, by rw [hfc]; exact h2⟩
  · intro hf
    have hp := h.2 hf
    refine ⟨?_, ?_, ?_, ?_, ?_⟩
    · rw [hpa]; exact hp.pts
    · rw [hpq, hpa, ho]; exact hp.pq_eq
    · rw [hpa, ho]; exact hp.le
    · rw [hpa, ho]; exact hp.results
    · rw [hpc]; exact hp.popen

/-- a completed `fetch_next()` of a term -/
theorem termInv_fetch {fb : Bool} {p0 g0 : Int} {τ τ' : Fallback.St} {s : Fallback.Sample}
    (h : TermInv fb p0 g0 τ) (hf : fetchTerm fb τ = some (τ', s)) :
    TermInv fb p0 g0 τ' ∧ τ'.out = τ.out ++ [.sample s] ∧ τ'.pAll = τ.pAll ∧ τ'.acc = τ.acc := by
  cases fb with
  | true =>
    obtain ⟨hr, hout⟩ := fetchTerm_fb hf
    obtain ⟨hinv, hpc, hfc⟩ := h.1 rfl
    obtain ⟨f1, f2, _, f4, f5, _⟩ := round_frame hr
    refine ⟨⟨fun _ => ⟨Fallback.inv_round hinv hr, by rw [f4]; exact hpc, by rw [f5]; exact hfc⟩, ?_⟩, hout, f1, f2⟩
    intro hc; cases hc
  | false =>
    obtain ⟨pr, hpq, rfl⟩ := fetchTerm_plain hf
    have hp := h.2 rfl
    have h1 := hp.pq_eq
    rw [hpq] at h1
    obtain ⟨hk, hdrop⟩ := drop_eq_cons _ _ _ _ h1.symm
    have hlt := lt_length_of_getElem? _ _ _ hk
    refine ⟨⟨fun hc => (by cases hc), fun _ => ⟨hp.pts, ?_, ?_, ?_, hp.popen⟩⟩, rfl, rfl, rfl⟩ <;> dsimp only
    · simp only [List.length_append, List.length_cons, List.length_nil]; exact hdrop.symm
    · simp only [List.length_append, List.length_cons, List.length_nil]; omega
    · intro k res hres
      rcases getElem?_append_cases _ _ _ _ hres with hres | ⟨rfl, rfl⟩
      · exact hp.results k res hres
      · exact ⟨s, hk, rfl⟩

/-! #### the engine -/

/-- Admissible delivery: the primary stream of term `i` is gap-free from tick `t0 i`, its fallback source gap-free
from `g0 i`.  `fetch` events are unconstrained (no-ops unless the evaluator waits for that term and the data is there). -/
def AdmEvF (t0 g0 : Nat → Int) (σ : FSt) : EvF → Prop
  | .dP i s => s.ts = t0 i + ((σ.terms i).pAll.length : Int)
  | .dF i s => s.ts = g0 i + ((σ.terms i).fAll.length : Int)
  | .fetch _ _ => True

instance (t0 g0 : Nat → Int) (σ : FSt) (e : EvF) : Decidable (AdmEvF t0 g0 σ e) := by
  cases e <;> unfold AdmEvF <;> infer_instance

def AdmFromF (n : Nat) (f : List (Option Rat) → Option Rat) (hasFb : Nat → Bool) (t0 g0 : Nat → Int) :
    FSt → List EvF → Prop
  | _, [] => True
  | σ, e :: es => AdmEvF t0 g0 σ e ∧ AdmFromF n f hasFb t0 g0 (stepF n f hasFb σ e) es

instance (n : Nat) (f : List (Option Rat) → Option Rat) (hasFb : Nat → Bool) (t0 g0 : Nat → Int) :
    ∀ (σ : FSt) (es : List EvF), Decidable (AdmFromF n f hasFb t0 g0 σ es)
  | _, [] => by unfold AdmFromF; infer_instance
  | σ, e :: es => by
      unfold AdmFromF
      have := instDecidableAdmFromF n f hasFb t0 g0 (stepF n f hasFb σ e) es
      infer_instance

/-- The output `o` is the formula on one sample per term, each stamped `o.ts` and each with the provenance `Prov`. -/
def Computed (n : Nat) (f : List (Option Rat) → Option Rat) (hasFb : Nat → Bool) (terms : Nat → Fallback.St)
    (o : Sample) : Prop :=
  ∃ us : List Fallback.Sample, us.length = n ∧ o.val = f (us.map (·.val)) ∧
    ∀ i, i < n → ∃ u, us[i]? = some u ∧ u.ts = o.ts ∧ Prov (hasFb i) (terms i) u

theorem Computed.mono {n : Nat} {f : List (Option Rat) → Option Rat} {hasFb : Nat → Bool}
    {T T' : Nat → Fallback.St} {o : Sample} (h : Computed n f hasFb T o)
    (hp : ∀ i, ∃ x, (T' i).pAll = (T i).pAll ++ x) (ha : ∀ i, ∃ y, (T' i).acc = (T i).acc ++ y) :
    Computed n f hasFb T' o := by
  obtain ⟨us, hl, hv, hu⟩ := h
  refine ⟨us, hl, hv, ?_⟩
  intro i hi
  obtain ⟨u, h1, h2, h3⟩ := hu i hi
  exact ⟨u, h1, h2, h3.mono (hp i) (ha i)⟩

def flag (o : Option Fallback.Sample) : Nat := if o.isSome then 1 else 0

structure FInv (n : Nat) (f : List (Option Rat) → Option Rat) (hasFb : Nat → Bool) (t0 g0 : Nat → Int)
    (σ : FSt) : Prop where
  terms : ∀ i, TermInv (hasFb i) (t0 i) (g0 i) (σ.terms i)
  curLast : ∀ (i : Nat) (s : Fallback.Sample), σ.cur i = some s →
      ∃ k, (σ.terms i).out.length = k + 1 ∧ (σ.terms i).out[k]? = some (.sample s)
  first : σ.firstRun = true → σ.out = [] ∧
      (σ.sync = none → ∀ i, i < n → (σ.terms i).out.length = flag (σ.cur i)) ∧
      (∀ t, σ.sync = some t → t = maxStart n t0 ∧ ∀ i, i < n → (σ.cur i).isSome = true ∧ curTs σ.cur i ≤ t)
  steady : σ.firstRun = false → σ.sync = none ∧ ∀ i, i < n →
      t0 i + ((σ.terms i).out.length : Int) = maxStart n t0 + σ.out.length + flag (σ.cur i)
  outs : ∀ (r : Nat) (o : Sample), σ.out[r]? = some o → o.ts = maxStart n t0 + r ∧ Computed n f hasFb σ.terms o

theorem finv_init (n : Nat) (f : List (Option Rat) → Option Rat) (hasFb : Nat → Bool) (t0 g0 : Nat → Int) :
    FInv n f hasFb t0 g0 FSt.init := by
  refine ⟨?_, ?_, ?_, ?_, ?_⟩
  · intro i
    refine ⟨fun _ => ⟨Fallback.inv_init _ _, rfl, rfl⟩, fun _ => ⟨?_, ?_, ?_, ?_, rfl⟩⟩ <;>
      simp [FSt.init]
  · intro i s h; simp [FSt.init] at h
  · intro _
    refine ⟨rfl, ?_, ?_⟩
    · intro _ i _; simp [FSt.init, flag]
    · intro t h; simp [FSt.init] at h
  · intro h; simp [FSt.init] at h
  · intro r o h; simp [FSt.init] at h

/-- the sample a term holds is stamped `t0 i + (#completed fetches - 1)` and has a provenance -/
theorem FInv.cur_facts {n : Nat} {f : List (Option Rat) → Option Rat} {hasFb : Nat → Bool} {t0 g0 : Nat → Int}
    {σ : FSt} (h : FInv n f hasFb t0 g0 σ) {i : Nat} {s : Fallback.Sample} (hc : σ.cur i = some s) :
    s.ts + 1 = t0 i + ((σ.terms i).out.length : Int) ∧ Prov (hasFb i) (σ.terms i) s := by
  obtain ⟨k, hk, hout⟩ := h.curLast i s hc
  obtain ⟨s', hs', hts, hprov⟩ := (h.terms i).ok.results k _ hout
  cases hs'
  refine ⟨?_, hprov⟩
  rw [hk]; push_cast; omega

/-- Replacing the terms by ones with the same results and longer histories keeps the invariant (deliveries). -/
theorem finv_terms_update {n : Nat} {f : List (Option Rat) → Option Rat} {hasFb : Nat → Bool} {t0 g0 : Nat → Int}
    {σ : FSt} (h : FInv n f hasFb t0 g0 σ) (T' : Nat → Fallback.St)
    (hT : ∀ i, TermInv (hasFb i) (t0 i) (g0 i) (T' i)) (ho : ∀ i, (T' i).out = (σ.terms i).out)
    (hp : ∀ i, ∃ x, (T' i).pAll = (σ.terms i).pAll ++ x) (ha : ∀ i, ∃ y, (T' i).acc = (σ.terms i).acc ++ y) :
    FInv n f hasFb t0 g0 { σ with terms := T' } := by
  refine ⟨hT, ?_, ?_, ?_, ?_⟩ <;> dsimp only
  · intro i s hc
    rw [ho i]; exact h.curLast i s hc
  · intro hf
    obtain ⟨h1, h2, h3⟩ := h.first hf
    refine ⟨h1, ?_, h3⟩
    intro hs i hi
    rw [ho i]; exact h2 hs i hi
  · intro hf
    obtain ⟨h1, h2⟩ := h.steady hf
    refine ⟨h1, ?_⟩
    intro i hi
    rw [ho i]; exact h2 i hi
  · intro r o hr
    obtain ⟨h1, h2⟩ := h.outs r o hr
    exact ⟨h1, h2.mono hp ha⟩

theorem finv_dP {n : Nat} {f : List (Option Rat) → Option Rat} {hasFb : Nat → Bool} {t0 g0 : Nat → Int}
    {σ : FSt} (h : FInv n f hasFb t0 g0 σ) (i : Nat) (s : Fallback.Sample)
    (hs : s.ts = t0 i + ((σ.terms i).pAll.length : Int)) :
    FInv n f hasFb t0 g0 (stepF n f hasFb σ (.dP i s)) := by
  have hd := termInv_dP (h.terms i) s hs
  show FInv n f hasFb t0 g0 { σ with terms := fun j => if j = i then Fallback.step (σ.terms j) (.dP s) else σ.terms j }
  apply finv_terms_update h
  · intro j
    by_cases hj : j = i
    · subst hj; rw [if_pos rfl]; exact hd.1
    · rw [if_neg hj]; exact h.terms j
  · intro j
    by_cases hj : j = i
    · subst hj; rw [if_pos rfl]; exact hd.2.1
    · rw [if_neg hj]
  · intro j
    by_cases hj : j = i
    · subst hj; rw [if_pos rfl]; exact ⟨[s], hd.2.2.1⟩
    · rw [if_neg hj]; exact ⟨[], by simp⟩
  · intro j
    by_cases hj : j = i
    · subst hj; rw [if_pos rfl]; exact ⟨[], by rw [hd.2.2.2]; simp⟩
    · rw [if_neg hj]; exact ⟨[], by simp⟩

theorem finv_dF {n : Nat} {f : List (Option Rat) → Option Rat} {hasFb : Nat → Bool} {t0 g0 : Nat → Int}
    {σ : FSt} (h : FInv n f hasFb t0 g0 σ) (i : Nat) (s : Fallback.Sample)
    (hs : s.ts = g0 i + ((σ.terms i).fAll.length : Int)) :
    FInv n f hasFb t0 g0 (stepF n f hasFb σ (.dF i s)) := by
  have hd := termInv_dF (h.terms i) s hs
  show FInv n f hasFb t0 g0 { σ with terms := fun j => if j = i then Fallback.step (σ.terms j) (.dF s) else σ.terms j }
  apply finv_terms_update h
  · intro j
    by_cases hj : j = i
    · subst hj; rw [if_pos rfl]; exact hd.1
    · rw [if_neg hj]; exact h.terms j
  · intro j
    by_cases hj : j = i
    · subst hj; rw [if_pos rfl]; exact hd.2.1
    · rw [if_neg hj]
  · intro j
    by_cases hj : j = i
    · subst hj; rw [if_pos rfl]; exact ⟨[], by rw [hd.2.2.1]; simp⟩
    · rw [if_neg hj]; exact ⟨[], by simp⟩
  · intro j
    by_cases hj : j = i
    · subst hj; rw [if_pos rfl]; exact hd.2.2.2
    · rw [if_neg hj]; exact ⟨[], by simp⟩

theorem allFetched_iff (n : Nat) (cur : Nat → Option Fallback.Sample) :
    allFetched n cur = true ↔ ∀ i, i < n → (cur i).isSome = true := by
  unfold allFetched
  simp only [List.all_eq_true, List.mem_range]

theorem allCurAt_iff (n : Nat) (t : Int) (cur : Nat → Option Fallback.Sample) :
    allCurAt n t cur = true ↔ ∀ i, i < n → curTs cur i = t := by
  unfold allCurAt
  simp only [List.all_eq_true, List.mem_range, beq_iff_eq]

theorem curTs_some {cur : Nat → Option Fallback.Sample} {i : Nat} {s : Fallback.Sample} (h : cur i = some s) :
    curTs cur i = s.ts := by
  unfold curTs; rw [h]

/-- Emitting: every term holds a sample stamped `maxStart + #outputs`. -/
theorem finv_emit {n : Nat} {f : List (Option Rat) → Option Rat} {hasFb : Nat → Bool} {t0 g0 : Nat → Int}
    {σ : FSt} (h : FInv n f hasFb t0 g0 σ) (t : Int)
    (hall : ∀ i, i < n → ∃ s, σ.cur i = some s ∧ s.ts = t) (ht : t = maxStart n t0 + σ.out.length) :
    FInv n f hasFb t0 g0 (emit n f t σ) := by
  unfold emit
  refine ⟨h.terms, ?_, ?_, ?_, ?_⟩ <;> dsimp only
  · intro i s hc; cases hc
  · intro hc; cases hc
  · intro _
    refine ⟨rfl, ?_⟩
    intro i hi
    obtain ⟨s, hs, hst⟩ := hall i hi
    have := (h.cur_facts hs).1
    simp only [List.length_append, List.length_cons, List.length_nil, flag]
    push_cast
    simp only [Option.isSome_none, Bool.false_eq_true, if_false]
    omega
  · intro r o hr
    rcases getElem?_append_cases _ _ _ _ hr with hr | ⟨rfl, rfl⟩
    · exact h.outs r o hr
    · refine ⟨ht, (List.range n).map (fun i => (σ.cur i).getD ⟨0, none⟩), by simp, ?_, ?_⟩
      · dsimp only
        congr 1
        rw [List.map_map]
        apply List.map_congr_left
        intro i hi
        obtain ⟨s, hs, _⟩ := hall i (List.mem_range.mp hi)
        simp only [Function.comp, curVal, hs, Option.getD_some]
      · intro i hi
        obtain ⟨s, hs, hst⟩ := hall i hi
        refine ⟨s, ?_, hst, (h.cur_facts hs).2⟩
        rw [List.getElem?_map, List.getElem?_range hi]
        simp only [Option.map_some, hs, Option.getD_some]

theorem foldl_max_curTs {n : Nat} (hn : 0 < n) (t0 : Nat → Int) (cur : Nat → Option Fallback.Sample)
    (h : ∀ i, i < n → curTs cur i = t0 i) : latestCur n cur = maxStart n t0 := by
  unfold latestCur maxStart
  rw [h 0 hn]
  exact foldl_max_congr _ _ _ _ (fun i hi => h i (List.mem_range.mp hi))

/-- what `apply()` does after a completed fetch keeps the invariant -/
theorem finv_advance {n : Nat} {f : List (Option Rat) → Option Rat} {hasFb : Nat → Bool} {t0 g0 : Nat → Int}
    {σ : FSt} (hn : 0 < n) (h : FInv n f hasFb t0 g0 σ) (c : Nat) :
    FInv n f hasFb t0 g0 (advance n f c σ) := by
  unfold advance
  by_cases hall : allFetched n σ.cur = true
  · rw [if_pos hall]
    have hall' := (allFetched_iff n σ.cur).mp hall
    have hsome : ∀ i, i < n → ∃ s, σ.cur i = some s := by
      intro i hi
      have := hall' i hi
      cases hc : σ.cur i with
      | none => rw [hc] at this; cases this
      | some s => exact ⟨s, rfl⟩
    by_cases hf : σ.firstRun = true
    · rw [if_pos hf]
      obtain ⟨hout, hnone, hsync⟩ := h.first hf
      -- the timestamp everything is synchronised to is the latest first timestamp
      have key : ∀ t : Int, t = maxStart n t0 → (∀ i, i < n → curTs σ.cur i ≤ maxStart n t0) →
          FInv n f hasFb t0 g0
            (if allCurAt n t σ.cur = true then emit n f t σ else { σ with sync := some t }) := by
        intro t ht hT2
        subst ht
        by_cases hat : allCurAt n (maxStart n t0) σ.cur = true
        · rw [if_pos hat]
          have hat' := (allCurAt_iff n _ σ.cur).mp hat
          apply finv_emit h
          · intro i hi
            obtain ⟨s, hc⟩ := hsome i hi
            exact ⟨s, hc, by rw [← curTs_some hc]; exact hat' i hi⟩
          · rw [hout]; simp
        · rw [if_neg hat]
          refine ⟨h.terms, h.curLast, ?_, ?_, h.outs⟩ <;> dsimp only
          · intro _
            refine ⟨hout, fun hc => (by cases hc), ?_⟩
            intro t ht
            cases ht
            exact ⟨rfl, fun i hi => ⟨hall' i hi, hT2 i hi⟩⟩
          · intro hc; rw [hf] at hc; cases hc
      dsimp only
      cases hs : σ.sync with
      | some t =>
        dsimp only
        obtain ⟨h1, h2⟩ := hsync t hs
        exact key t h1 (fun i hi => by rw [← h1]; exact (h2 i hi).2)
      | none =>
        dsimp only
        have hts : ∀ i, i < n → curTs σ.cur i = t0 i := by
          intro i hi
          obtain ⟨s, hc⟩ := hsome i hi
          have h1 := (h.cur_facts hc).1
          have h2 := hnone hs i hi
          rw [hc] at h2
          simp only [flag, Option.isSome_some, if_true] at h2
          rw [h2] at h1
          rw [curTs_some hc]; push_cast at h1; omega
        exact key _ (foldl_max_curTs hn t0 σ.cur hts) (fun i hi => by rw [hts i hi]; exact maxStart_ge n t0 i hi)
    · rw [if_neg hf]
      have hf' : σ.firstRun = false := by cases hh : σ.firstRun <;> simp_all
      obtain ⟨_, hst⟩ := h.steady hf'
      have hts : ∀ i, i < n → ∃ s, σ.cur i = some s ∧ s.ts = maxStart n t0 + σ.out.length := by
        intro i hi
        obtain ⟨s, hc⟩ := hsome i hi
        have h1 := (h.cur_facts hc).1
        have h2 := hst i hi
        rw [hc] at h2
        simp only [flag, Option.isSome_some, if_true] at h2
        push_cast at h2
        exact ⟨s, hc, by omega⟩
      have hcn : c % n < n := Nat.mod_lt _ hn
      obtain ⟨sc, hsc, hsct⟩ := hts (c % n) hcn
      rw [curTs_some hsc, hsct]
      exact finv_emit h _ hts rfl
  · rw [if_neg hall]; exact h

theorem finv_fetch {n : Nat} {f : List (Option Rat) → Option Rat} {hasFb : Nat → Bool} {t0 g0 : Nat → Int}
    {σ σ' : FSt} {s : Fallback.Sample} (hn : 0 < n) (h : FInv n f hasFb t0 g0 σ) (c i : Nat)
    (hσ' : tryFetch n f hasFb c σ i = some (σ', s)) : FInv n f hasFb t0 g0 σ' := by
  unfold tryFetch at hσ'
  by_cases hp : i < n ∧ permitted σ i = true
  · rw [if_pos hp] at hσ'
    obtain ⟨hi, hperm⟩ := hp
    cases hft : fetchTerm (hasFb i) (σ.terms i) with
    | none => rw [hft] at hσ'; cases hσ'
    | some r =>
      obtain ⟨τ', s'⟩ := r
      rw [hft] at hσ'
      simp only [Option.some.injEq, Prod.mk.injEq] at hσ'
      obtain ⟨rfl, rfl⟩ := hσ'
      obtain ⟨hti, hout, hpa, hacc⟩ := termInv_fetch (h.terms i) hft
      apply finv_advance hn
      -- the invariant of the state with the fetched sample recorded
      refine ⟨?_, ?_, ?_, ?_, ?_⟩ <;> dsimp only
      · intro j
        by_cases hj : j = i
        · subst hj; rw [if_pos rfl]; exact hti
        · rw [if_neg hj]; exact h.terms j
      · intro j x hx
        by_cases hj : j = i
        · subst hj
          rw [if_pos rfl] at hx ⊢
          cases hx
          exact ⟨(σ.terms j).out.length, by rw [hout]; simp, by rw [hout]; simp⟩
        · rw [if_neg hj] at hx ⊢; exact h.curLast j x hx
      · intro hf
        obtain ⟨h1, h2, h3⟩ := h.first hf
        refine ⟨h1, ?_, ?_⟩
        · intro hs j hj
          by_cases hji : j = i
          · subst hji
            rw [if_pos rfl, if_pos rfl, hout]
            have h0 := h2 hs j hj
            -- permitted with `sync = none`: the term had not fetched yet
            have hcn : σ.cur j = none := by
              unfold permitted at hperm
              cases hc : σ.cur j with
              | none => rfl
              | some x => rw [hc, hs] at hperm; cases hperm
            rw [hcn] at h0
            simp only [flag, Option.isSome_none, Bool.false_eq_true, if_false] at h0
            simp only [List.length_append, List.length_cons, List.length_nil, flag, Option.isSome_some, if_true]
            omega
          · rw [if_neg hji, if_neg hji]; exact h2 hs j hj
        · intro t ht
          obtain ⟨g1, g2⟩ := h3 t ht
          refine ⟨g1, ?_⟩
          intro j hj
          by_cases hji : j = i
          · subst hji
            -- permitted with `sync = some t`: the term held an older sample
            unfold permitted at hperm
            cases hc : σ.cur j with
            | none => rw [hc, ht] at hperm; cases hperm
            | some x =>
              rw [hc, ht] at hperm
              simp only [decide_eq_true_eq] at hperm
              have hx := (h.cur_facts hc).1
              refine ⟨by simp, ?_⟩
              have hnew : s'.ts + 1 = t0 j + (((σ.terms j).out ++ [Fallback.Res.sample s']).length : Int) := by
                obtain ⟨k, hk, hok⟩ : ∃ k, ((σ.terms j).out ++ [Fallback.Res.sample s']).length = k + 1 ∧
                    ((σ.terms j).out ++ [Fallback.Res.sample s'])[k]? = some (.sample s') :=
                  ⟨(σ.terms j).out.length, by simp, by simp⟩
                rw [← hout] at hok hk ⊢
                obtain ⟨s'', hs'', hts, _⟩ := hti.ok.results k _ hok
                cases hs''
                rw [hk]; push_cast; omega
              have : curTs (fun j' => if j' = j then some s' else σ.cur j') j = s'.ts := by
                unfold curTs; simp
              rw [this]
              simp only [List.length_append, List.length_cons, List.length_nil] at hnew
              push_cast at hnew
              omega
          · have := g2 j hj
            refine ⟨by rw [if_neg hji]; exact this.1, ?_⟩
            have hcur : curTs (fun j' => if j' = i then some s' else σ.cur j') j = curTs σ.cur j := by
              unfold curTs; simp [hji]
            rw [hcur]; exact this.2
      · intro hf
        obtain ⟨h1, h2⟩ := h.steady hf
        refine ⟨h1, ?_⟩
        intro j hj
        by_cases hji : j = i
        · subst hji
          rw [if_pos rfl, if_pos rfl, hout]
          have h0 := h2 j hj
          have hcn : σ.cur j = none := by
            unfold permitted at hperm
            cases hc : σ.cur j with
            | none => rfl
            | some x => rw [hc, h1] at hperm; cases hperm
          rw [hcn] at h0
          simp only [flag, Option.isSome_none, Bool.false_eq_true, if_false] at h0
          simp only [List.length_append, List.length_cons, List.length_nil, flag, Option.isSome_some, if_true]
          push_cast at h0 ⊢
          omega
        · rw [if_neg hji, if_neg hji]; exact h2 j hj
      · intro r o hr
        obtain ⟨g1, g2⟩ := h.outs r o hr
        refine ⟨g1, g2.mono ?_ ?_⟩
        · intro j
          by_cases hji : j = i
          · subst hji; rw [if_pos rfl]; exact ⟨[], by rw [hpa]; simp⟩
          · rw [if_neg hji]; exact ⟨[], by simp⟩
        · intro j
          by_cases hji : j = i
          · subst hji; rw [if_pos rfl]; exact ⟨[], by rw [hacc]; simp⟩
          · rw [if_neg hji]; exact ⟨[], by simp⟩
  · rw [if_neg hp] at hσ'; cases hσ'

theorem finv_step {n : Nat} {f : List (Option Rat) → Option Rat} {hasFb : Nat → Bool} {t0 g0 : Nat → Int}
    {σ : FSt} (hn : 0 < n) (h : FInv n f hasFb t0 g0 σ) (e : EvF) (ha : AdmEvF t0 g0 σ e) :
    FInv n f hasFb t0 g0 (stepF n f hasFb σ e) := by
  cases e with
  | dP i s => exact finv_dP h i s ha
  | dF i s => exact finv_dF h i s ha
  | fetch i c =>
    show FInv n f hasFb t0 g0 (match tryFetch n f hasFb c σ i with
      | some (σ', _) => σ'
      | none => σ)
    cases ht : tryFetch n f hasFb c σ i with
    | none => exact h
    | some r =>
      obtain ⟨σ', s⟩ := r
      exact finv_fetch hn h c i ht

theorem finv_foldl {n : Nat} {f : List (Option Rat) → Option Rat} {hasFb : Nat → Bool} {t0 g0 : Nat → Int}
    (hn : 0 < n) : ∀ (es : List EvF) (σ : FSt), FInv n f hasFb t0 g0 σ → AdmFromF n f hasFb t0 g0 σ es →
    FInv n f hasFb t0 g0 (es.foldl (stepF n f hasFb) σ)
  | [], _, h, _ => h
  | e :: es, σ, h, ha => finv_foldl hn es (stepF n f hasFb σ e) (finv_step hn h e ha.1) ha.2

theorem finv_run {n : Nat} {f : List (Option Rat) → Option Rat} {hasFb : Nat → Bool} {t0 g0 : Nat → Int}
    (hn : 0 < n) (es : List EvF) (ha : AdmFromF n f hasFb t0 g0 FSt.init es) :
    FInv n f hasFb t0 g0 (runF n f hasFb es) :=
  finv_foldl hn es FSt.init (finv_init n f hasFb t0 g0) ha

end Evaluator
