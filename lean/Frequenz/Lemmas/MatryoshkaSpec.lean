/-
Declarative specification of the Matryoshka target ("closest admissible value") and the lemmas that
connect it to the sweep of `_calc_target_power` and to the loop of `get_status`.
-/
import Frequenz.Lemmas.Matryoshka
import Mathlib.Tactic.SplitIfs

open BoundsLemmas

namespace Matryoshka

/-- A plain closed interval (the *un-carved* intersection of bounds). -/
structure Itv where
  lo : Rat
  hi : Rat
deriving Repr, DecidableEq

def Itv.mem (I : Itv) (x : Rat) : Prop := I.lo ≤ x ∧ x ≤ I.hi

/-- Intersect with a proposal's bounds (`None` = unbounded on that side). -/
def Itv.narrow (I : Itv) (p : Proposal) : Itv :=
  { lo := match p.lo with | some l => max I.lo l | none => I.lo,
    hi := match p.hi with | some h => min I.hi h | none => I.hi }

/-- Outside the open exclusion zone. -/
def Free (ex : Option Bounds) (x : Rat) : Prop := ∀ e, ex = some e → ¬ InZone e x

/-- `I` minus the open exclusion zone is non-empty. -/
def Usable (ex : Option Bounds) (I : Itv) : Prop :=
  I.lo ≤ I.hi ∧ ∀ e, ex = some e → ¬ (InZone e I.lo ∧ InZone e I.hi)

/-- Zero is honoured as a preference: it lies in `I` and neither end of `I` is inside the zone. -/
def ZeroOK (ex : Option Bounds) (I : Itv) : Prop := I.mem 0 ∧ Free ex I.lo ∧ Free ex I.hi

def dist (a b : Rat) : Rat := if a ≤ b then b - a else a - b

/-- `t` is the admissible value closest to the preference `v` (ties towards the lower value);
a preference of exactly zero is adopted as is when `ZeroOK`. -/
def ClosestSpec (ex : Option Bounds) (I : Itv) (v t : Rat) : Prop :=
  ((v = 0 ∧ ZeroOK ex I) → t = 0) ∧
  (¬ (v = 0 ∧ ZeroOK ex I) →
    I.mem t ∧ Free ex t ∧
    ∀ x, I.mem x → Free ex x → dist t v < dist x v ∨ (dist t v = dist x v ∧ t ≤ x))

/-- The sweep's running bounds `[lo, hi]` versus the plain intersection `I`: each end is either the
end of `I`, or — when that end of `I` is inside the zone — the zone edge next to it. -/
def Rel (ex : Option Bounds) (I : Itv) (lo hi : Rat) : Prop :=
  (lo = I.lo ∨ ∃ e, ex = some e ∧ InZone e I.lo ∧ lo = e.upper) ∧
  (hi = I.hi ∨ ∃ e, ex = some e ∧ InZone e I.hi ∧ hi = e.lower)

theorem closestSpec_unique {ex : Option Bounds} {I : Itv} {v t1 t2 : Rat}
    (h1 : ClosestSpec ex I v t1) (h2 : ClosestSpec ex I v t2) : t1 = t2 := by
  unfold ClosestSpec at h1 h2
  by_cases hz : v = 0 ∧ ZeroOK ex I
  · rw [h1.1 hz, h2.1 hz]
  · obtain ⟨m1, f1, c1⟩ := h1.2 hz
    obtain ⟨m2, f2, c2⟩ := h2.2 hz
    have a := c1 t2 m2 f2
    have b := c2 t1 m1 f1
    grind

theorem pick_clamp_some (v lo hi old : Rat) (e : Bounds) :
    pick v (Extracted.clampToBounds v lo hi (some e)) old =
      if InZone e lo ∧ InZone e hi then old
      else if InZone e lo ∧ ¬ InZone e hi ∧ v < e.upper then e.upper
      else if ¬ InZone e lo ∧ InZone e hi ∧ v > e.lower then e.lower
      else if v < lo then lo
      else if v > hi then hi
      else if v ≠ 0 ∧ InZone e v then (if e.upper - v < v - e.lower then e.upper else e.lower)
      else v := by
  rw [clamp_some]
  repeat' split
  all_goals first | rfl | (simp only [pick]; grind)

theorem pick_clamp_none (v lo hi old : Rat) :
    pick v (Extracted.clampToBounds v lo hi none) old =
      if v < lo then lo else if v > hi then hi else v := by
  rw [clamp_none]
  repeat' split
  all_goals first | rfl | (simp only [pick]; grind)

set_option maxHeartbeats 1000000 in
/-- Lemma A: what `clamp_to_bounds` + the `match` block pick is the closest admissible value. -/
theorem pick_closest (ex : Option Bounds) (hz : ZoneOK ex) (I : Itv) (lo hi v old : Rat)
    (hrel : Rel ex I lo hi) (hu : Usable ex I) :
    ClosestSpec ex I v (pick v (Extracted.clampToBounds v lo hi ex) old) := by
  unfold ClosestSpec ZeroOK Free Usable Rel Itv.mem at *
  cases ex with
  | none =>
    rw [pick_clamp_none]
    simp only [reduceCtorEq, false_and, exists_false, or_false, false_implies, implies_true,
      and_true] at *
    obtain ⟨rfl, rfl⟩ := hrel
    unfold dist
    constructor
    · intro h; grind
    · intro h; refine ⟨?_, ?_⟩ <;> grind
  | some e =>
    have h0 := hz e rfl
    clear hz
    generalize hdef : pick v (Extracted.clampToBounds v lo hi (some e)) old = t
    rw [pick_clamp_some] at hdef
    simp only [Option.some.injEq, forall_eq', exists_eq_left'] at *
    unfold InZone at *
    obtain ⟨Ilo, Ihi⟩ := I
    obtain ⟨el, eu⟩ := e
    simp only at *
    obtain ⟨hl, hh⟩ := hrel
    rcases hl with rfl | ⟨hl1, rfl⟩ <;> rcases hh with rfl | ⟨hh1, rfl⟩ <;>
      split_ifs at hdef <;> subst hdef <;>
      refine ⟨fun h => ?_, fun h => ⟨?_, ?_, fun x hx hfx => ?_⟩⟩ <;> (try unfold dist) <;> grind

theorem rel_le {ex : Option Bounds} {I : Itv} {lo hi : Rat} (hrel : Rel ex I lo hi)
    (hu : Usable ex I) : lo ≤ hi := by
  unfold Rel Usable at *
  cases ex with
  | none => simp only [reduceCtorEq, false_and, exists_false, or_false] at hrel; grind
  | some e =>
    simp only [Option.some.injEq, forall_eq', exists_eq_left'] at *
    unfold InZone at *
    obtain ⟨Ilo, Ihi⟩ := I
    obtain ⟨el, eu⟩ := e
    simp only at *
    grind

/-- The bounds update of one loop iteration (shared by `_calc_target_power` and `get_status`). -/
def narrowBounds (ex : Option Bounds) (lo hi : Rat) (p : Proposal) : Rat × Rat :=
  Extracted.adjustExclusionBounds (pyMax lo (p.lo.getD lo)) (pyMin hi (p.hi.getD hi)) ex

theorem narrow_core (el eu Ilo Ihi lo hi pl ph nlo nhi : Rat)
    (hl : lo = Ilo ∨ ((el < Ilo ∧ Ilo < eu) ∧ lo = eu))
    (hh : hi = Ihi ∨ ((el < Ihi ∧ Ihi < eu) ∧ hi = el))
    (hpl : (pl = lo ∧ nlo = Ilo) ∨ nlo = max Ilo pl)
    (hph : (ph = hi ∧ nhi = Ihi) ∨ nhi = min Ihi ph)
    (hu : Ilo ≤ Ihi ∧ ¬((el < Ilo ∧ Ilo < eu) ∧ el < Ihi ∧ Ihi < eu))
    (hu' : nlo ≤ nhi ∧ ¬((el < nlo ∧ nlo < eu) ∧ el < nhi ∧ nhi < eu)) :
    ¬ ((el < pl ∧ pl < eu) ∧ (el < ph ∧ ph < eu)) ∧
    (if lo < pl then pl else lo) ≤ (if ph < hi then ph else hi) := by
  rcases hl with rfl | ⟨hl1, rfl⟩ <;> rcases hh with rfl | ⟨hh1, rfl⟩ <;>
    rcases hpl with ⟨rfl, rfl⟩ | rfl <;> rcases hph with ⟨rfl, rfl⟩ | rfl <;>
    refine ⟨?_, ?_⟩ <;> grind

theorem narrow_core2 (el eu Ilo Ihi lo hi pl ph nlo nhi lo' hi' : Rat)
    (hl : lo = Ilo ∨ ((el < Ilo ∧ Ilo < eu) ∧ lo = eu))
    (hh : hi = Ihi ∨ ((el < Ihi ∧ Ihi < eu) ∧ hi = el))
    (hpl : (pl = lo ∧ nlo = Ilo) ∨ nlo = max Ilo pl)
    (hph : (ph = hi ∧ nhi = Ihi) ∨ nhi = min Ihi ph)
    (hu : Ilo ≤ Ihi ∧ ¬((el < Ilo ∧ Ilo < eu) ∧ el < Ihi ∧ Ihi < eu))
    (hu' : nlo ≤ nhi ∧ ¬((el < nlo ∧ nlo < eu) ∧ el < nhi ∧ nhi < eu))
    (h1 : lo' = max lo pl) (h2 : hi' = min hi ph)
    (r : Rat × Rat)
    (hr : r = (if (el < lo' ∧ lo' < eu) ∧ (el < hi' ∧ hi' < eu) then (0, 0)
      else if ¬ (el < lo' ∧ lo' < eu) ∧ (el < hi' ∧ hi' < eu) then (lo', el)
      else if (el < lo' ∧ lo' < eu) ∧ ¬ (el < hi' ∧ hi' < eu) then (eu, hi')
      else (lo', hi'))) :
    (r.1 = nlo ∨ ((el < nlo ∧ nlo < eu) ∧ r.1 = eu)) ∧
    (r.2 = nhi ∨ ((el < nhi ∧ nhi < eu) ∧ r.2 = el)) := by
  split_ifs at hr <;> subst hr <;> simp only <;>
  rcases hl with rfl | ⟨hl1, rfl⟩ <;> rcases hh with rfl | ⟨hh1, rfl⟩ <;>
    rcases hpl with ⟨rfl, rfl⟩ | rfl <;> rcases hph with ⟨rfl, rfl⟩ | rfl <;>
    subst h1 h2 <;> refine ⟨?_, ?_⟩ <;> grind

/-- Lemma B: for compatible bounds the iteration does not `continue`, and the new running bounds
stand in relation `Rel` to the narrowed plain intersection. -/
theorem narrow_rel (ex : Option Bounds) (I : Itv) (lo hi : Rat) (p : Proposal)
    (hrel : Rel ex I lo hi) (hu : Usable ex I) (hu' : Usable ex (I.narrow p)) :
    Extracted.checkExclusionBoundsOverlap (p.lo.getD lo) (p.hi.getD hi) ex ≠ (true, true) ∧
    Rel ex (I.narrow p) (narrowBounds ex lo hi p).1 (narrowBounds ex lo hi p).2 ∧
    pyMax lo (p.lo.getD lo) ≤ pyMin hi (p.hi.getD hi) := by
  have hpl : (p.lo.getD lo = lo ∧ (I.narrow p).lo = I.lo) ∨ (I.narrow p).lo = max I.lo (p.lo.getD lo) := by
    unfold Itv.narrow; cases p.lo <;> simp
  have hph : (p.hi.getD hi = hi ∧ (I.narrow p).hi = I.hi) ∨ (I.narrow p).hi = min I.hi (p.hi.getD hi) := by
    unfold Itv.narrow; cases p.hi <;> simp
  unfold narrowBounds
  generalize p.lo.getD lo = pl at *
  generalize p.hi.getD hi = ph at *
  rw [pyMax_eq_max, pyMin_eq_min]
  generalize hN : I.narrow p = N at *
  unfold Rel Usable at *
  cases ex with
  | none =>
    simp only [reduceCtorEq, false_and, exists_false, or_false, overlap_none, adjust_none,
      false_implies, implies_true, and_true] at *
    obtain ⟨rfl, rfl⟩ := hrel
    refine ⟨by simp, ⟨?_, ?_⟩, ?_⟩ <;> grind
  | some e =>
    simp only [Option.some.injEq, forall_eq', exists_eq_left', overlap_some, adjust_some] at *
    unfold InZone at *
    have c1 := narrow_core e.lower e.upper I.lo I.hi lo hi pl ph N.lo N.hi hrel.1 hrel.2 hpl hph hu hu'
    have c2 := narrow_core2 e.lower e.upper I.lo I.hi lo hi pl ph N.lo N.hi (max lo pl) (min hi ph)
      hrel.1 hrel.2 hpl hph hu hu' rfl rfl _ rfl
    refine ⟨?_, c2, ?_⟩
    · intro h
      rw [Prod.mk.injEq] at h
      exact c1.1 ⟨of_decide_eq_true h.1, of_decide_eq_true h.2⟩
    · have := c1.2; grind
