/-
Helper lemmas for C15 (serves: C15): the `_parse_result` fold in closed form, sums over partitions,
and the invariants of the PV water-filling loop.
-/
import Frequenz.Model.Results

namespace Results

open Extracted.Distributor

/-! ## sums -/

theorem sum_append_rat (a b : List Rat) : (a ++ b).sum = a.sum + b.sum := by
  induction a with
  | nil => simp [Rat.zero_add]
  | cons x a ih => simp [List.sum_cons, ih]; grind

/-- A list split by two complementary tests: the total is the sum of the two parts. -/
theorem sum_partition {α : Type} (l : List α) (f : α → Rat) (p q : α → Bool)
    (h : ∀ x ∈ l, (p x = true ∧ q x = false) ∨ (p x = false ∧ q x = true)) :
    (l.map f).sum = ((l.filter p).map f).sum + ((l.filter q).map f).sum := by
  induction l with
  | nil => simp [Rat.zero_add]
  | cons x l ih =>
    have ih' := ih (fun y hy => h y (List.mem_cons_of_mem _ hy))
    rcases h x List.mem_cons_self with ⟨h1, h2⟩ | ⟨h1, h2⟩
    · simp [h1, h2, List.sum_cons, ih']; grind
    · simp [h1, h2, List.sum_cons, ih']; grind

/-! ## `_parse_result` -/

theorem parse_fold (ib : Nat → List Nat) (sps : List SetPoint) (a : Rat) (l : List Nat) :
    sps.foldl (parseStep ib) (a, l) =
      (a + ((sps.filter SetPoint.isFailed).map (·.power)).sum,
       l ++ (sps.filter SetPoint.isFailed).flatMap (fun sp => ib sp.inv)) := by
  induction sps generalizing a l with
  | nil => simp [Rat.add_zero]
  | cons sp sps ih =>
    simp only [List.foldl_cons]
    cases hf : sp.isFailed with
    | true =>
      simp only [parseStep, hf, if_true, ih, List.filter_cons, List.map_cons, List.sum_cons, List.flatMap_cons]
      refine Prod.ext ?_ ?_
      · simp; grind
      · simp
    | false =>
      simp [parseStep, hf, ih]

theorem parseResult_fst (ib : Nat → List Nat) (sps : List SetPoint) :
    (parseResult ib sps).1 = ((sps.filter SetPoint.isFailed).map (·.power)).sum := by
  simp [parseResult, parse_fold, Rat.zero_add]

theorem parseResult_snd (ib : Nat → List Nat) (sps : List SetPoint) :
    (parseResult ib sps).2 = (sps.filter SetPoint.isFailed).flatMap (fun sp => ib sp.inv) := by
  simp [parseResult, parse_fold]

/-! ## PV water-filling loop -/

theorem allocLoop_sum (num : Nat) (xs : List PvInv) (idx : Nat) (rem : Rat) :
    ((allocLoop num idx rem xs).1.map (·.2)).sum + (allocLoop num idx rem xs).2 = rem := by
  induction xs generalizing idx rem with
  | nil => simp [allocLoop, Rat.zero_add]
  | cons x xs ih =>
    by_cases hs : pvSkip rem
    · simp only [allocLoop, hs, if_true, List.map_cons, List.sum_cons]
      have := ih (idx + 1) rem
      grind
    · simp only [allocLoop, hs, if_false, List.map_cons, List.sum_cons]
      have := ih (idx + 1) (rem - pvAlloc rem x.bound (pvShare rem num idx))
      grind

theorem allocLoop_ids (num : Nat) (xs : List PvInv) (idx : Nat) (rem : Rat) :
    (allocLoop num idx rem xs).1.map (·.1) = xs.map (·.id) := by
  induction xs generalizing idx rem with
  | nil => simp [allocLoop]
  | cons x xs ih =>
    by_cases hs : pvSkip rem
    · simp [allocLoop, hs, ih]
    · simp [allocLoop, hs, ih]

theorem insertSorted_perm (le : PvInv → PvInv → Bool) (x : PvInv) (l : List PvInv) :
    (insertSorted le x l).Perm (x :: l) := by
  induction l with
  | nil => simp [insertSorted]
  | cons y ys ih =>
    unfold insertSorted
    split
    · exact List.Perm.refl _
    · exact (List.Perm.cons y ih).trans (List.Perm.swap x y ys)

theorem stableSort_perm (le : PvInv → PvInv → Bool) (l : List PvInv) : (stableSort le l).Perm l := by
  induction l with
  | nil => simp [stableSort]
  | cons x xs ih => exact (insertSorted_perm le x _).trans (List.Perm.cons x ih)

theorem sortInvs_perm (xs : List PvInv) : (sortInvs xs).Perm xs := by
  unfold sortInvs
  split <;> exact stableSort_perm _ _

/-- The sort really sorts: with the extracted direction, bounds are non-increasing along the result. -/
theorem insertSorted_pairwise (le : PvInv → PvInv → Bool) (htot : ∀ a b, le a b = true ∨ le b a = true)
    (htr : ∀ a b c, le a b = true → le b c = true → le a c = true) (x : PvInv) (l : List PvInv)
    (h : l.Pairwise (fun a b => le a b = true)) : (insertSorted le x l).Pairwise (fun a b => le a b = true) := by
  induction l with
  | nil => simp [insertSorted]
  | cons y ys ih =>
    unfold insertSorted
    have hy := List.pairwise_cons.mp h
    split
    · rename_i hxy
      refine List.pairwise_cons.mpr ⟨?_, h⟩
      intro z hz
      rcases List.mem_cons.mp hz with rfl | hz
      · exact hxy
      · exact htr _ _ _ hxy (hy.1 z hz)
    · rename_i hxy
      refine List.pairwise_cons.mpr ⟨?_, ih hy.2⟩
      intro z hz
      rcases List.mem_cons.mp ((insertSorted_perm le x ys).mem_iff.mp hz) with rfl | hz
      · rcases htot z y with h1 | h1
        · exact absurd h1 hxy
        · exact h1
      · exact hy.1 z hz

theorem stableSort_pairwise (le : PvInv → PvInv → Bool) (htot : ∀ a b, le a b = true ∨ le b a = true)
    (htr : ∀ a b c, le a b = true → le b c = true → le a c = true) (l : List PvInv) :
    (stableSort le l).Pairwise (fun a b => le a b = true) := by
  induction l with
  | nil => simp [stableSort]
  | cons x xs ih => exact insertSorted_pairwise le htot htr x _ ih

end Results
