/-
Query-side lemmas of the ring-buffer model (C09): counting, `count_valid`, `oldest/newest_timestamp`,
`count_covered`, `window` (index and datetime), `MovingWindow.at`.
-/
import Frequenz.Lemmas.RingBufferRefine
import Frequenz.Lemmas.RingBufferNorm
import Frequenz.Model.RingBufferQuery

set_option linter.unusedSimpArgs false
set_option linter.unusedVariables false

namespace RingBuffer
open Extracted.RingBuffer Extracted.RingBufferQuery

/-! ### Meaning of the translated query-side conditions

As in `RingBufferGaps`: the generated conditions are opaque `def`s and every proof goes through these lemmas
(`unfold; omega`), so that any spelling of the same condition in the source leaves the proofs intact.  They state the
FIXED behaviour: on a tree where `window` tests the raw bounds, `_fill_gaps` starts at the raw `start`, or
`MovingWindow.at` has no index test, they fail — which is how the check notices. -/

theorem tiiOutside_iff (t n o p : Int) : tiiOutside t n o p ↔ (n + p < t ∨ t < o) := by unfold tiiOutside; omega
theorem winClampStart_eq (st o : Int) : winClampStart st o = max st o := by unfold winClampStart; omega
theorem winClampEnd_eq (en n p : Int) : winClampEnd en n p = min en (n + p) := by unfold winClampEnd; omega
theorem winEmpty_iff (st en ns ne : Int) : winEmpty st en ns ne ↔ ns ≥ ne := by unfold winEmpty; omega
theorem winFillOrigin_eq (st ns : Int) : winFillOrigin st ns = ns := by unfold winFillOrigin; omega
theorem atTsOutOfRange_iff (key o n : Int) : atTsOutOfRange key o n ↔ (key < o ∨ key > n) := by
  unfold atTsOutOfRange; omega
theorem atIndexOutOfRange_iff (key cc : Int) : atIndexOutOfRange key cc ↔ ¬ (-cc ≤ key ∧ key < cc) := by
  unfold atIndexOutOfRange; omega

/-! ### Counting slots of a range -/

theorem cnt_add (p : Int → Bool) (lo : Int) (a b : Nat) :
    cnt p lo (a + b) = cnt p lo a + cnt p (lo + a) b := by
  induction a generalizing lo with
  | zero => simp [cnt]
  | succ a ih =>
    have : a + 1 + b = (a + b) + 1 := by omega
    rw [this]
    simp only [cnt]
    rw [ih (lo + 1)]
    have e : lo + 1 + (a : Int) = lo + ((a + 1 : Nat) : Int) := by omega
    rw [e]; omega

theorem cnt_congr (p q : Int → Bool) (lo : Int) (n : Nat)
    (h : ∀ i, lo ≤ i → i < lo + n → p i = q i) : cnt p lo n = cnt q lo n := by
  induction n generalizing lo with
  | zero => rfl
  | succ n ih =>
    simp only [cnt]
    rw [h lo (by omega) (by omega), ih (lo + 1) (fun i h1 h2 => h i (by omega) (by omega))]

theorem cnt_le (p : Int → Bool) (lo : Int) (n : Nat) : cnt p lo n ≤ n := by
  induction n generalizing lo with
  | zero => simp [cnt]
  | succ n ih => simp only [cnt]; have := ih (lo + 1); split <;> omega

theorem cnt_false (p : Int → Bool) (lo : Int) (n : Nat) (h : ∀ i, lo ≤ i → i < lo + n → p i = false) :
    cnt p lo n = 0 := by
  induction n generalizing lo with
  | zero => rfl
  | succ n ih =>
    simp only [cnt]
    rw [h lo (by omega) (by omega), ih (lo + 1) (fun i h1 h2 => h i (by omega) (by omega))]
    simp

theorem cnt_true (p : Int → Bool) (lo : Int) (n : Nat) (h : ∀ i, lo ≤ i → i < lo + n → p i = true) :
    cnt p lo n = n := by
  induction n generalizing lo with
  | zero => rfl
  | succ n ih =>
    simp only [cnt]
    rw [h lo (by omega) (by omega), ih (lo + 1) (fun i h1 h2 => h i (by omega) (by omega))]
    simp; omega

theorem cnt_eq_zero (p : Int → Bool) (lo : Int) (n : Nat) (h : cnt p lo n = 0) :
    ∀ i, lo ≤ i → i < lo + n → p i = false := by
  induction n generalizing lo with
  | zero => intro i h1 h2; omega
  | succ n ih =>
    simp only [cnt] at h
    intro i h1 h2
    by_cases e : i = lo
    · subst e
      cases hp : p i with
      | false => rfl
      | true => simp [hp] at h
    · exact ih (lo + 1) (by omega) i (by omega) (by omega)

theorem cnt_eq_len (p : Int → Bool) (lo : Int) (n : Nat) (h : cnt p lo n = n) :
    ∀ i, lo ≤ i → i < lo + n → p i = true := by
  induction n generalizing lo with
  | zero => intro i h1 h2; omega
  | succ n ih =>
    simp only [cnt] at h
    have hle := cnt_le p (lo + 1) n
    intro i h1 h2
    by_cases e : i = lo
    · subst e
      cases hp : p i with
      | true => rfl
      | false => simp [hp] at h; omega
    · have : cnt p (lo + 1) n = n := by split at h <;> omega
      exact ih (lo + 1) this i (by omega) (by omega)

theorem cnt_not (p : Int → Bool) (lo : Int) (n : Nat) : cnt (fun i => !p i) lo n = n - cnt p lo n := by
  induction n generalizing lo with
  | zero => rfl
  | succ n ih =>
    simp only [cnt]
    rw [ih (lo + 1)]
    have := cnt_le p (lo + 1) n
    by_cases hp : p lo = true
    · simp only [hp, Bool.not_true, Bool.false_eq_true, if_false, if_true]; omega
    · have hp' : p lo = false := by simpa using hp
      simp only [hp', Bool.not_false, Bool.false_eq_true, if_false, if_true]; omega

/-! ### The gap list counts the missing slots -/

theorem sum_eq_cnt (l : List Gap) : ∀ (lo ub : Int), l.Pairwise (fun g h => g.2 < h.1) →
    (∀ g ∈ l, lo ≤ g.1 ∧ g.1 < g.2 ∧ g.2 ≤ ub) → lo ≤ ub →
    (l.map (fun g => g.2 - g.1)).sum = cnt (isMissing l) lo (ub - lo).toNat := by
  induction l with
  | nil =>
    intro lo ub _ _ _
    rw [cnt_false]; · rfl
    intro i _ _; rfl
  | cons g gs ih =>
    intro lo ub hP hb hle
    rw [List.pairwise_cons] at hP
    obtain ⟨hg, hP'⟩ := hP
    obtain ⟨b1, b2, b3⟩ := hb g (List.mem_cons_self ..)
    have hb' : ∀ h ∈ gs, g.2 ≤ h.1 ∧ h.1 < h.2 ∧ h.2 ≤ ub := by
      intro h hh
      obtain ⟨_, c2, c3⟩ := hb h (List.mem_cons_of_mem _ hh)
      have := hg h hh
      exact ⟨by omega, c2, c3⟩
    have hlb : LB (g.2 + 1) gs := fun h hh => by have := hg h hh; omega
    have e : (ub - lo).toNat = (g.1 - lo).toNat + ((g.2 - g.1).toNat + (ub - g.2).toNat) := by omega
    rw [e, cnt_add, cnt_add]
    have p1 : cnt (isMissing (g :: gs)) lo (g.1 - lo).toNat = 0 := by
      apply cnt_false
      intro i h1 h2
      rw [isMissing_cons]
      have : decide (g.1 ≤ i ∧ i < g.2) = false := by simp; omega
      rw [this, Bool.false_or]
      cases hm : isMissing gs i with
      | false => rfl
      | true => have := isMissing_lb hlb hm; omega
    have p2 : cnt (isMissing (g :: gs)) (lo + (g.1 - lo).toNat) (g.2 - g.1).toNat = (g.2 - g.1).toNat := by
      apply cnt_true
      intro i h1 h2
      rw [isMissing_cons]
      have : decide (g.1 ≤ i ∧ i < g.2) = true := by simp; omega
      rw [this, Bool.true_or]
    have e3 : lo + ((g.1 - lo).toNat : Int) + ((g.2 - g.1).toNat : Int) = g.2 := by omega
    have p3 : cnt (isMissing (g :: gs)) (lo + (g.1 - lo).toNat + (g.2 - g.1).toNat) (ub - g.2).toNat
        = cnt (isMissing gs) g.2 (ub - g.2).toNat := by
      rw [e3]
      apply cnt_congr
      intro i h1 h2
      rw [isMissing_cons]
      have : decide (g.1 ≤ i ∧ i < g.2) = false := by simp; omega
      rw [this, Bool.false_or]
    rw [p1, p2, p3]
    have := ih g.2 ub hP' hb' b3
    simp only [List.map_cons, List.sum_cons]
    omega

/-! ### Positions in the container -/

theorem wrapIdx_cast {cap : Nat} (h : 0 < cap) (k : Int) : ((wrapIdx cap k : Nat) : Int) = k % (cap : Int) := by
  unfold wrapIdx
  have := Int.emod_nonneg k (by omega : (cap : Int) ≠ 0)
  omega

/-- Moving `i ≤ cap` slots forward moves the position by `i`, wrapping around at most once. -/
theorem wrapIdx_add {cap : Nat} (h : 0 < cap) (a : Int) (i : Nat) (hi : i ≤ cap) :
    wrapIdx cap (a + i) = if wrapIdx cap a + i < cap then wrapIdx cap a + i else wrapIdx cap a + i - cap := by
  have hc : (0 : Int) < (cap : Int) := by omega
  have h0 : (cap : Int) ≠ 0 := by omega
  have hr0 := Int.emod_nonneg a h0
  have hr1 := Int.emod_lt_of_pos a hc
  have hdec := Int.emod_add_mul_ediv a (cap : Int)     -- a % c + c * (a / c) = a
  have hw := wrapIdx_cast h a
  have hw' := wrapIdx_cast h (a + i)
  suffices hs : (a + (i : Int)) % (cap : Int)
      = if a % (cap : Int) + i < cap then a % (cap : Int) + i else a % (cap : Int) + i - cap by
    split
    · rename_i hlt
      have : a % (cap : Int) + i < cap := by omega
      rw [if_pos this] at hs; omega
    · rename_i hge
      have : ¬ (a % (cap : Int) + i < cap) := by omega
      rw [if_neg this] at hs; omega
  split
  · rename_i hlt
    exact ((Int.ediv_emod_unique (q := a / (cap : Int)) hc).mpr ⟨by omega, by omega, hlt⟩).2
  · rename_i hge
    have e : (cap : Int) * (a / (cap : Int) + 1) = (cap : Int) * (a / (cap : Int)) + cap := by
      rw [Int.mul_add, Int.mul_one]
    exact ((Int.ediv_emod_unique (q := a / (cap : Int) + 1) hc).mpr ⟨by omega, by omega, by omega⟩).2

/-- The `start_pos` / `end_pos` case split of `count_valid` always yields the capacity. -/
theorem cv_positions {cap : Nat} (h : 0 < cap) (o m : Int) :
    (if ((wrapIdx cap (o + ((cap : Int) - 1)) : Nat) : Int) < (wrapIdx cap o : Nat)
      then cvWrapped cap (wrapIdx cap o) (wrapIdx cap (o + ((cap : Int) - 1))) m
      else cvStraight cap (wrapIdx cap o) (wrapIdx cap (o + ((cap : Int) - 1))) m) = cap - m := by
  have e : o + ((cap : Int) - 1) = o + ((cap - 1 : Nat) : Int) := by omega
  rw [e, wrapIdx_add h o (cap - 1) (by omega)]
  have := wrapIdx_lt h o
  unfold cvWrapped cvStraight
  split <;> split <;> omega

/-! ### `count_valid` -/

theorem gapSum_eq (cap : Nat) (hcap : 1 ≤ cap) (n : Int) (gaps : List Gap) (hG : GapsInv cap n gaps) :
    max 0 ((gaps.map (fun g => cvGapLen g.1 g.2 (n - ((cap : Int) - 1)) 1)).sum)
      = cnt (isMissing gaps) (n - ((cap : Int) - 1)) cap := by
  rcases hG with hN | ⟨h1, h2⟩
  · have e : gaps.map (fun g => cvGapLen g.1 g.2 (n - ((cap : Int) - 1)) 1) = gaps.map (fun g => g.2 - g.1) := by
      apply List.map_congr_left
      intro g hg
      have := (hN.2 g hg).1
      unfold cvGapLen
      rw [Int.ediv_one]
      omega
    rw [e, sum_eq_cnt gaps (n - ((cap : Int) - 1)) (n + 1) hN.1 hN.2 (by omega)]
    have : (n + 1 - (n - ((cap : Int) - 1))).toNat = cap := by omega
    rw [this]
    omega
  · subst h1; subst h2
    simp only [List.map_cons, List.map_nil, List.sum_cons, List.sum_nil, cvGapLen]
    rw [cnt_false]
    · simp
    · intro i _ _; exact isMissing_empty_gap n i

theorem abs_val_isSome {α : Type} (s : State α) (hI : Inv s) (n : Int) (hn : s.newest = some n) (j : Int)
    (h1 : n - ((s.cap : Int) - 1) ≤ j) (h2 : j ≤ n) :
    ((abs s).val j).isSome = !isMissing s.gaps j := by
  unfold abs
  simp only [hn, oldestOf_eq, h1, h2, true_and]
  cases hm : isMissing s.gaps j with
  | true => simp
  | false => simp only [if_true, Bool.not_false]; exact hI.valid n hn j h1 h2 hm

/-- `count_valid()` is the number of slots holding a valid value. -/
theorem countValid_eq {α : Type} (s : State α) (hI : Inv s) : countValid s = Spec.count s.cap (abs s) := by
  unfold countValid Spec.count
  cases hn : s.newest with
  | none => simp [abs, hn]
  | some n =>
    have hpos : 0 < s.cap := hI.cap_pos
    have habs : (abs s).newest = some n := hn
    simp only [habs, oldestOf_eq]
    rw [gapSum_eq s.cap hI.cap_pos n s.gaps (hI.gaps n hn)]
    have e : n = (n - ((s.cap : Int) - 1)) + ((s.cap : Int) - 1) := by omega
    have := cv_positions hpos (n - ((s.cap : Int) - 1)) (cnt (isMissing s.gaps) (n - ((s.cap : Int) - 1)) s.cap)
    rw [← e] at this
    rw [this]
    have hc : cnt (fun j => ((abs s).val j).isSome) (n - ((s.cap : Int) - 1)) s.cap
        = cnt (fun j => !isMissing s.gaps j) (n - ((s.cap : Int) - 1)) s.cap := by
      apply cnt_congr
      intro i h1 h2
      exact abs_val_isSome s hI n hn i h1 (by omega)
    rw [hc, cnt_not]
    have := cnt_le (isMissing s.gaps) (n - ((s.cap : Int) - 1)) s.cap
    omega

/-! ### `oldest_timestamp`, `newest_timestamp`, `count_covered` -/

theorem abs_val_outside {α : Type} (s : State α) (j : Int)
    (h : ∀ n, s.newest = some n → ¬ (n - ((s.cap : Int) - 1) ≤ j ∧ j ≤ n)) : (abs s).val j = none := by
  unfold abs
  cases hn : s.newest with
  | none => rfl
  | some n =>
    have := h n hn
    simp only [oldestOf_eq]
    split
    · rename_i hc; exact absurd ⟨hc.1, hc.2.1⟩ this
    · rfl

theorem abs_val_missing {α : Type} (s : State α) (j : Int) (h : isMissing s.gaps j = true) : (abs s).val j = none := by
  unfold abs
  cases hn : s.newest with
  | none => rfl
  | some n => simp [h]

theorem foldl_min_eq (gs : List Gap) (m : Int) (h : ∀ g ∈ gs, m ≤ g.2) :
    gs.foldl (fun m h => min m h.2) m = m := by
  induction gs with
  | nil => rfl
  | cons g gs ih =>
    simp only [List.foldl_cons]
    have h1 := h g (List.mem_cons_self ..)
    have : min m g.2 = m := by omega
    rw [this]
    exact ih (fun x hx => h x (List.mem_cons_of_mem _ hx))

/-- All observers of the covered range at once: either nothing valid is stored, or `oldest_timestamp` is the
oldest valid slot `k` of the window, `newest_timestamp` the newest slot `n`, `count_covered = n - k + 1`. -/
theorem covered_cases {α : Type} (s : State α) (hI : Inv s) :
    (countValid s = 0 ∧ oldestTs s = none ∧ newestTs s = none ∧ countCovered s = 0 ∧ ∀ j, (abs s).val j = none)
    ∨ (∃ n k, s.newest = some n ∧ countValid s ≠ 0 ∧ oldestTs s = some k ∧ newestTs s = some n
        ∧ countCovered s = n - k + 1 ∧ n - ((s.cap : Int) - 1) ≤ k ∧ k ≤ n ∧ Spec.IsOldestValid (abs s) k) := by
  have hcv := countValid_eq s hI
  by_cases hz : countValid s = 0
  · left
    have h1 : oldestTs s = none := by unfold oldestTs; simp [hz]
    have h2 : newestTs s = none := by unfold newestTs; simp [hz]
    refine ⟨hz, h1, h2, by unfold countCovered; rw [h1], ?_⟩
    intro j
    cases hn : s.newest with
    | none => exact abs_val_outside s j (by intro n h; rw [hn] at h; cases h)
    | some n =>
      by_cases hr : n - ((s.cap : Int) - 1) ≤ j ∧ j ≤ n
      · have hc : Spec.count s.cap (abs s) = 0 := by omega
        unfold Spec.count at hc
        have habs : (abs s).newest = some n := hn
        simp only [habs] at hc
        have := cnt_eq_zero _ _ _ hc j hr.1 (by omega)
        cases hv : (abs s).val j with
        | none => rfl
        | some x => simp [hv] at this
      · exact abs_val_outside s j (by intro m h; rw [hn] at h; cases h; exact hr)
  · right
    cases hn : s.newest with
    | none => exfalso; apply hz; unfold countValid; simp [hn]
    | some n =>
      have hcap' : (1 : Int) ≤ (s.cap : Int) := by exact_mod_cast hI.cap_pos
      have hnew : newestTs s = some n := by unfold newestTs; simp [hz, hn]
      have key : ∃ k, oldestTs s = some k ∧ n - ((s.cap : Int) - 1) ≤ k ∧ k ≤ n ∧ Spec.IsOldestValid (abs s) k := by
        unfold oldestTs
        simp only [hz, if_false, hn, oldestOf_eq]
        by_cases hm : isMissing s.gaps (n - ((s.cap : Int) - 1)) = true
        · simp only [hm, if_true]
          have hN : Normal (n - ((s.cap : Int) - 1)) (n + 1) s.gaps := by
            rcases hI.gaps n hn with h | ⟨_, h2⟩
            · exact h
            · rw [h2, isMissing_empty_gap] at hm; cases hm
          obtain ⟨g', hg', c1, c2⟩ := (isMissing_iff _ _).mp hm
          cases hgs : s.gaps with
          | nil => rw [hgs] at hg'; cases hg'
          | cons g gs =>
            rw [hgs] at hN hg' hm
            have hP := hN.1
            rw [List.pairwise_cons] at hP
            obtain ⟨hg, hP'⟩ := hP
            obtain ⟨b1, b2, b3⟩ := hN.2 g (List.mem_cons_self ..)
            have hg1 : g.1 = n - ((s.cap : Int) - 1) := by
              rcases List.mem_cons.mp hg' with rfl | hmem
              · omega
              · have := hg g' hmem
                have := (hN.2 g' (List.mem_cons_of_mem _ hmem)).1
                omega
            have hmin : minEnd (g :: gs) = g.2 := by
              unfold minEnd
              apply foldl_min_eq
              intro x hx
              have := hg x hx
              have := (hN.2 x (List.mem_cons_of_mem _ hx)).2.1
              omega
            rw [hmin]
            have hnm : isMissing (g :: gs) g.2 = false := by
              rw [isMissing_cons]
              have : decide (g.1 ≤ g.2 ∧ g.2 < g.2) = false := by simp
              rw [this, Bool.false_or]
              cases hx : isMissing gs g.2 with
              | false => rfl
              | true =>
                have : LB (g.2 + 1) gs := fun x hx => by have := hg x hx; omega
                have := isMissing_lb this hx; omega
            -- the first gap cannot cover the whole window: something valid is stored
            have hle : g.2 ≤ n := by
              apply Classical.byContradiction
              intro hgt
              apply hz
              rw [hcv]
              unfold Spec.count
              have habs : (abs s).newest = some n := hn
              simp only [habs]
              rw [cnt_false]; · rfl
              intro i h1 h2
              have : isMissing s.gaps i = true := by
                rw [hgs, isMissing_cons]
                have : decide (g.1 ≤ i ∧ i < g.2) = true := by simp; omega
                rw [this, Bool.true_or]
              rw [abs_val_missing s i this]; rfl
            refine ⟨g.2, rfl, by omega, hle, ?_, ?_⟩
            · rw [abs_val_isSome s hI n hn g.2 (by omega) hle, hgs, hnm]; rfl
            · intro j hj
              by_cases ho : n - ((s.cap : Int) - 1) ≤ j
              · apply abs_val_missing
                rw [hgs, isMissing_cons]
                have : decide (g.1 ≤ j ∧ j < g.2) = true := by simp; omega
                rw [this, Bool.true_or]
              · exact abs_val_outside s j (by intro m h; rw [hn] at h; cases h; omega)
        · have hm' : isMissing s.gaps (n - ((s.cap : Int) - 1)) = false := by simpa using hm
          simp only [hm', Bool.false_eq_true, if_false]
          refine ⟨_, rfl, by omega, by omega, ?_, ?_⟩
          · rw [abs_val_isSome s hI n hn _ (by omega) (by omega), hm']; rfl
          · intro j hj
            exact abs_val_outside s j (by intro m h; rw [hn] at h; cases h; omega)
      obtain ⟨k, h1, h2, h3, h4⟩ := key
      refine ⟨n, k, rfl, hz, h1, hnew, ?_, h2, h3, h4⟩
      unfold countCovered
      rw [h1, hnew]
      simp [countCoveredQuot]

theorem IsOldestValid_ne_none {α : Type} {sp : Spec α} {k : Int} (h : sp.IsOldestValid k) : sp.val k ≠ none := by
  intro hc; have := h.1; rw [hc] at this; cases this

theorem IsOldestValid_unique {α : Type} {sp : Spec α} {k k' : Int} (h : sp.IsOldestValid k) (h' : sp.IsOldestValid k') :
    k = k' := by
  apply Int.le_antisymm
  · apply Classical.byContradiction; intro hc
    exact IsOldestValid_ne_none h' (h.2 k' (by omega))
  · apply Classical.byContradiction; intro hc
    exact IsOldestValid_ne_none h (h'.2 k (by omega))

/-- The observers when the abstract map holds nothing valid. -/
theorem observers_of_empty {α : Type} (s : State α) (hI : Inv s) (h : ∀ j, (abs s).val j = none) :
    countValid s = 0 ∧ oldestTs s = none ∧ newestTs s = none ∧ countCovered s = 0 := by
  rcases covered_cases s hI with ⟨h1, h2, h3, h4, _⟩ | ⟨n, k, _, _, _, _, _, _, _, h7⟩
  · exact ⟨h1, h2, h3, h4⟩
  · exact absurd (h k) (IsOldestValid_ne_none h7)

/-- The observers when the abstract map's newest slot is `n` and its oldest valid slot is `k`. -/
theorem observers_of_spec {α : Type} (s : State α) (hI : Inv s) (n k : Int) (hn : (abs s).newest = some n)
    (hk : (abs s).IsOldestValid k) :
    countValid s ≠ 0 ∧ oldestTs s = some k ∧ newestTs s = some n ∧ countCovered s = n - k + 1
    ∧ n - ((s.cap : Int) - 1) ≤ k ∧ k ≤ n := by
  rcases covered_cases s hI with ⟨_, _, _, _, h5⟩ | ⟨n', k', hn', h1, h2, h3, h4, h5, h6, h7⟩
  · exact absurd (h5 k) (IsOldestValid_ne_none hk)
  · have e1 : n' = n := by
      have : (abs s).newest = s.newest := rfl
      rw [this, hn'] at hn; cases hn; rfl
    have e2 : k' = k := IsOldestValid_unique h7 hk
    subst e1; subst e2
    exact ⟨h1, h2, h3, h4, h5, h6⟩

/-! ### `_wrapped_buffer_window` -/

theorem getElem?_eq_getD {β : Type} (l : List β) (j : Nat) (d : β) (h : j < l.length) : l[j]? = some (l.getD j d) := by
  simp [List.getD_eq_getElem?_getD, h]

theorem wrapped_eq {β : Type} {cap : Nat} (hcap : 0 < cap) (slots : List β) (hlen : slots.length = cap) (d : β)
    (a : Int) (len : Nat) (h1 : 1 ≤ len) (h2 : len ≤ cap) :
    wrapped slots (wrapIdx cap a) (wrapIdx cap (a + len))
      = (List.range len).map (fun (i : Nat) => slots.getD (wrapIdx cap (a + (i : Int))) d) := by
  have hsp := wrapIdx_lt hcap a
  have hep := wrapIdx_add hcap a len h2
  generalize hs : wrapIdx cap a = sp at *
  apply List.ext_getElem?
  intro i
  by_cases hi : i < len
  · rw [List.getElem?_map, List.getElem?_range hi]
    simp only [Option.map_some]
    have hw := wrapIdx_add hcap a i (by omega)
    rw [hs] at hw
    unfold wrapped
    by_cases hA : sp + len < cap
    · rw [if_pos hA] at hep
      have hne : ¬ (sp ≥ wrapIdx cap (a + len)) := by omega
      rw [if_neg hne, hep, List.getElem?_drop, List.getElem?_take]
      have : sp + i < sp + len := by omega
      rw [if_pos this, hw, if_pos (by omega)]
      exact getElem?_eq_getD _ _ _ (by omega)
    · rw [if_neg hA] at hep
      have hge : sp ≥ wrapIdx cap (a + len) := by omega
      rw [if_pos hge, hep, List.getElem?_append]
      simp only [List.length_drop, hlen]
      by_cases hB : i < cap - sp
      · rw [if_pos hB, List.getElem?_drop, hw, if_pos (by omega)]
        exact getElem?_eq_getD _ _ _ (by omega)
      · rw [if_neg hB, List.getElem?_take, if_pos (by omega), hw, if_neg (by omega)]
        have : i - (cap - sp) = sp + i - cap := by omega
        rw [this]
        exact getElem?_eq_getD _ _ _ (by omega)
  · have hl : (wrapped slots sp (wrapIdx cap (a + len))).length = len := by
      unfold wrapped
      split
      · simp only [List.length_append, List.length_drop, List.length_take, hlen]
        split at hep <;> omega
      · simp only [List.length_drop, List.length_take, hlen]
        split at hep <;> omega
    rw [List.getElem?_eq_none (by omega), List.getElem?_eq_none (by simp; omega)]


/-! ### `_fill_gaps` -/

theorem setRange_length {β : Type} (data : List β) (si ei : Int) (f : β) : (setRange data si ei f).length = data.length := by
  simp [setRange]

theorem setRange_get {β : Type} (data : List β) (si ei : Int) (f : β) (i : Nat) :
    (setRange data si ei f)[i]? = if i < data.length ∧ si ≤ (i : Int) ∧ (i : Int) < ei then some f else data[i]? := by
  unfold setRange
  rw [List.getElem?_mapIdx]
  by_cases hi : i < data.length
  · simp only [List.getElem?_eq_getElem hi, Option.map_some, hi, true_and]
    split <;> rfl
  · simp [List.getElem?_eq_none (Nat.le_of_not_lt hi), hi]

theorem fg_index (c : Cfg) (hp : 0 < c.period) (x a : Int) :
    (slotTime c x - slotTime c a) / c.period = x - a := by
  rw [slotTime_sub, Int.mul_ediv_cancel _ (by omega)]

/-- `_fill_gaps` with the origin on the grid, in slot numbers. -/
def fillRel {β : Type} (f : β) (a : Int) (gaps : List Gap) (data : List β) : List β :=
  gaps.foldl (fun d g =>
    if max (g.1 - a) 0 < min (g.2 - a) (d.length : Int) then
      setRange d (max (g.1 - a) 0) (min (g.2 - a) d.length) f
    else d) data

theorem fillGaps_eq_fillRel {β : Type} (c : Cfg) (hp : 0 < c.period) (f : β) (a : Int) (gaps : List Gap) (data : List β) :
    fillGaps c data f (slotTime c a) gaps = fillRel f a gaps data := by
  unfold fillGaps fillRel
  simp only [fgStartIndex, fgEndIndex, fg_index c hp]

theorem fillRel_spec {β : Type} (f : β) (a : Int) (gaps : List Gap) :
    ∀ data : List β,
      (fillRel f a gaps data).length = data.length
      ∧ ∀ i : Nat, (fillRel f a gaps data)[i]?
          = if i < data.length ∧ isMissing gaps (a + (i : Int)) = true then some f else data[i]? := by
  induction gaps with
  | nil => intro data; simp [fillRel, isMissing_nil]
  | cons g gs ih =>
    intro data
    unfold fillRel at ih ⊢
    simp only [List.foldl_cons]
    by_cases hlt : max (g.1 - a) 0 < min (g.2 - a) (data.length : Int)
    · simp only [hlt, if_true]
      obtain ⟨l1, l2⟩ := ih (setRange data (max (g.1 - a) 0) (min (g.2 - a) data.length) f)
      rw [setRange_length] at l1
      refine ⟨l1, ?_⟩
      intro i
      rw [l2 i, setRange_length, setRange_get, isMissing_cons]
      by_cases hi : i < data.length
      · simp only [hi, true_and, Bool.or_eq_true, decide_eq_true_eq]
        by_cases hm : isMissing gs (a + i) = true
        · simp [hm]
        · simp only [hm, or_false, if_false]
          by_cases hg : g.1 ≤ a + i ∧ a + i < g.2
          · have : max (g.1 - a) 0 ≤ (i : Int) ∧ (i : Int) < min (g.2 - a) data.length := by omega
            simp [hg, this]
          · have : ¬ (max (g.1 - a) 0 ≤ (i : Int) ∧ (i : Int) < min (g.2 - a) data.length) := by omega
            simp [hg, this]
      · simp [hi]
    · simp only [hlt, if_false]
      obtain ⟨l1, l2⟩ := ih data
      refine ⟨l1, ?_⟩
      intro i
      rw [l2 i, isMissing_cons]
      by_cases hi : i < data.length
      · have : ¬ (g.1 ≤ a + i ∧ a + i < g.2) := by omega
        simp [hi, this]
      · simp [hi]


/-! ### `window` -/

theorem normSlot_max (c : Cfg) (hp : 0 < c.period) (x k : Int) :
    normSlot c (max x (slotTime c k)) = max (normSlot c x) k := by
  by_cases h : x ≤ slotTime c k
  · have h1 : max x (slotTime c k) = slotTime c k := by omega
    have h2 := normSlot_mono c hp h
    rw [normSlot_slotTime c hp] at h2
    rw [h1, normSlot_slotTime c hp]; omega
  · have h1 : max x (slotTime c k) = x := by omega
    have h2 := normSlot_mono c hp (by omega : slotTime c k ≤ x)
    rw [normSlot_slotTime c hp] at h2
    rw [h1]; omega

theorem normSlot_min (c : Cfg) (hp : 0 < c.period) (x k : Int) :
    normSlot c (min x (slotTime c k)) = min (normSlot c x) k := by
  by_cases h : x ≤ slotTime c k
  · have h1 : min x (slotTime c k) = x := by omega
    have h2 := normSlot_mono c hp h
    rw [normSlot_slotTime c hp] at h2
    rw [h1]; omega
  · have h1 : min x (slotTime c k) = slotTime c k := by omega
    have h2 := normSlot_mono c hp (by omega : slotTime c k ≤ x)
    rw [normSlot_slotTime c hp] at h2
    rw [h1, normSlot_slotTime c hp]; omega

/-- `window(start, end)` for two datetimes: the slots from `normalize(start)` (inclusive) to `normalize(end)`
(exclusive), clamped to `[oldest_timestamp, newest_timestamp]`, each with its valid value or the fill value. -/
theorem windowTs_spec {α : Type} (c : Cfg) (hp : 0 < c.period) (s : State α) (hI : Inv s)
    (start end_ : Int) (f : Option α) :
    windowTs c s start end_ (some f) =
      match oldestTs s, newestTs s with
      | some k, some n => Spec.window (abs s) (max (normSlot c start) k) (min (normSlot c end_) (n + 1)) f
      | _, _ => [] := by
  rcases covered_cases s hI with ⟨_, h2, h3, h4, _⟩ | ⟨n, k, hn, _, h2, h3, h4, h5, h6, _⟩
  · unfold windowTs; simp [h2, h4]
  · have hcap := hI.cap_pos
    have hcap' : (1 : Int) ≤ (s.cap : Int) := by exact_mod_cast hcap
    have hcc : ¬ (countCovered s = 0) := by omega
    unfold windowTs
    simp only [hcc, if_false, h2, h3, winClampStart_eq, winClampEnd_eq, winEmpty_iff, winFillOrigin_eq]
    have e1 : slotTime c n + c.period = slotTime c (n + 1) := (slotTime_succ c n).symm
    simp only [e1, normSlot_max c hp, normSlot_min c hp]
    generalize hA : max (normSlot c start) k = A
    generalize hB : min (normSlot c end_) (n + 1) = B
    have hAk : k ≤ A := by omega
    have hBn : B ≤ n + 1 := by omega
    by_cases hemp : slotTime c A ≥ slotTime c B
    · simp only [hemp, if_true]
      have : B ≤ A := (slotTime_le_iff c hp B A).mp hemp
      unfold Spec.window
      have : (B - A).toNat = 0 := by omega
      rw [this]; rfl
    · simp only [hemp, if_false]
      have hAB : A < B := by
        have := (slotTime_le_iff c hp B A); omega
      have hBe : B = A + (((B - A).toNat : Nat) : Int) := by omega
      have hl1 : 1 ≤ (B - A).toNat := by omega
      have hl2 : (B - A).toNat ≤ s.cap := by omega
      generalize hlen : (B - A).toNat = len at *
      rw [hBe, wrapped_eq hcap s.slots hI.len none A len hl1 hl2, fillGaps_eq_fillRel c hp]
      obtain ⟨f1, f2⟩ := fillRel_spec f A s.gaps
        ((List.range len).map (fun (i : Nat) => s.slots.getD (wrapIdx s.cap (A + (i : Int))) none))
      apply List.ext_getElem?
      intro i
      rw [f2 i]
      unfold Spec.window
      have e2 : (A + (len : Int) - A).toNat = len := by omega
      rw [e2]
      simp only [List.length_map, List.length_range, List.getElem?_map]
      by_cases hi : i < len
      · rw [List.getElem?_range hi]
        simp only [hi, true_and, Option.map_some]
        have r1 : n - ((s.cap : Int) - 1) ≤ A + i := by omega
        have r2 : A + (i : Int) ≤ n := by omega
        cases hm : isMissing s.gaps (A + i) with
        | true =>
          rw [abs_val_missing s _ hm]; simp
        | false =>
          have hv := hI.valid n hn (A + i) r1 r2 hm
          have : (abs s).val (A + i) = s.slots.getD (wrapIdx s.cap (A + i)) none := by
            unfold abs; simp [hn, oldestOf_eq, r1, r2, hm]
          rw [this]
          cases hx : s.slots.getD (wrapIdx s.cap (A + i)) none with
          | none => rw [hx] at hv; cases hv
          | some x => simp
      · have : (List.range len)[i]? = none := List.getElem?_eq_none (by simp; omega)
        simp [hi, this]

/-- `window(start, end)` never raises, wherever the two datetimes lie relative to the stored span: the clamped bounds
handed to `to_internal_index` are inside `[oldest bound, newest + period]` whenever the span is not empty. -/
theorem windowTs_never_raises {α : Type} (c : Cfg) (hp : 0 < c.period) (s : State α) (hI : Inv s)
    (start end_ : Int) : windowTsRaises c s start end_ = false := by
  rcases covered_cases s hI with ⟨_, h2, h3, h4, _⟩ | ⟨n, k, hn, _, h2, h3, h4, h5, h6, _⟩
  · unfold windowTsRaises; simp [h2, h4]
  · have hcc : ¬ (countCovered s = 0) := by omega
    unfold windowTsRaises
    simp only [hcc, if_false, h2, h3, hn, winClampStart_eq, winClampEnd_eq, winEmpty_iff, tiiOutside_iff, oldestOf_eq]
    have e1 : slotTime c n + c.period = slotTime c (n + 1) := (slotTime_succ c n).symm
    simp only [e1, normSlot_max c hp, normSlot_min c hp]
    generalize hA : max (normSlot c start) k = A
    generalize hB : min (normSlot c end_) (n + 1) = B
    by_cases hemp : slotTime c A ≥ slotTime c B
    · simp only [hemp, if_true]
    · simp only [hemp, if_false]
      have hAB : A < B := by
        have := (slotTime_le_iff c hp B A); omega
      have r1 : ¬ (n + 1 < A ∨ A < n - ((s.cap : Int) - 1)) := by omega
      have r2 : ¬ (n + 1 < B ∨ B < n - ((s.cap : Int) - 1)) := by omega
      simp only [r1, r2, decide_false, Bool.or_false]

theorem sliceBound_range (x : Option Int) (dflt n : Int) (hd : 0 ≤ dflt ∧ dflt ≤ n) (hn : 0 ≤ n) :
    0 ≤ sliceBound x dflt n ∧ sliceBound x dflt n ≤ n := by
  unfold sliceBound
  cases x with
  | none => exact hd
  | some i => simp only; split <;> omega

/-- `window(i, j)` for indices / `None`: Python slice semantics over the covered range, which starts at the oldest
valid slot `k` and ends at the newest slot `n`. -/
theorem windowIdx_spec {α : Type} (c : Cfg) (hp : 0 < c.period) (s : State α) (hI : Inv s)
    (i j : Option Int) (f : Option α) :
    windowIdx c s i j (some f) =
      match oldestTs s, newestTs s with
      | some k, some n =>
        Spec.window (abs s) (k + (sliceIndices i j (n - k + 1)).1) (k + (sliceIndices i j (n - k + 1)).2) f
      | _, _ => [] := by
  rcases covered_cases s hI with ⟨_, h2, h3, h4, _⟩ | ⟨n, k, hn, _, h2, h3, h4, h5, h6, _⟩
  · unfold windowIdx; simp [h2, h4]
  · have hcc : ¬ (countCovered s = 0) := by omega
    unfold windowIdx
    simp only [hcc, if_false]
    simp only [h4, h2, h3]
    obtain ⟨a1, a2⟩ := sliceBound_range i 0 (n - k + 1) (by omega) (by omega)
    obtain ⟨b1, b2⟩ := sliceBound_range j (n - k + 1) (n - k + 1) (by omega) (by omega)
    unfold sliceIndices
    simp only
    generalize sliceBound i 0 (n - k + 1) = a at *
    generalize sliceBound j (n - k + 1) (n - k + 1) = b at *
    unfold getTimestamp
    simp only [h2, h3, ge_iff_le, a1, b1, if_true, Int.mul_one]
    rw [windowTs_spec c hp s hI]
    simp only [h2, h3, normSlot_slotTime c hp]
    have e1 : max (k + a) k = k + a := by omega
    have e2 : min (k + b) (n + 1) = k + b := by omega
    rw [e1, e2]

/-! ### `MovingWindow.at` -/

theorem atSlot_spec {α : Type} (s : State α) (_hI : Inv s) (n : Int) (hn : s.newest = some n) (k : Int)
    (h1 : n - ((s.cap : Int) - 1) ≤ k) (h2 : k ≤ n) : atSlot s k = .value ((abs s).val k) := by
  unfold atSlot
  simp only [hn, atNanOnGap, true_and, tiiOutside_iff, oldestOf_eq]
  cases hm : isMissing s.gaps k with
  | true => simp [abs_val_missing s k hm]
  | false =>
    have h3 : ¬ (n + 1 < k ∨ k < n - ((s.cap : Int) - 1)) := by omega
    simp only [Bool.false_eq_true, if_false, h3]
    congr 1
    unfold abs; simp [hn, oldestOf_eq, h1, h2, hm]

/-- `MovingWindow.at(i)`: IndexError when nothing valid is stored or `i ∉ [-count_covered, count_covered)`;
otherwise the valid value (or NaN) of the slot `oldest + i` (`i ≥ 0`) resp. `newest + 1 + i` (`i < 0`). -/
theorem atIndex_spec {α : Type} (s : State α) (hI : Inv s) (i : Int) :
    atIndex s i =
      match oldestTs s, newestTs s with
      | some k, some n =>
        if -(n - k + 1) ≤ i ∧ i < n - k + 1 then .value ((abs s).val ((if i ≥ 0 then k else n + 1) + i))
        else .indexError
      | _, _ => .indexError := by
  rcases covered_cases s hI with ⟨h1, h2, h3, _, _⟩ | ⟨n, k, hn, h1, h2, h3, h4, h5, h6, _⟩
  · unfold atIndex; simp [h1, h2]
  · unfold atIndex
    simp only [h1, if_false, h2, h3, h4, atIndexOutOfRange_iff]
    by_cases hr : -(n - k + 1) ≤ i ∧ i < n - k + 1
    · simp only [hr, and_self, not_true_eq_false, if_false, if_true]
      unfold getTimestamp
      simp only [h2, h3, Int.mul_one]
      apply atSlot_spec s hI n hn
      · split <;> omega
      · split <;> omega
    · simp only [hr, not_false_eq_true, if_true, if_false]

/-- `MovingWindow.at(ts)` for a datetime: IndexError when nothing valid is stored or `ts` is outside
`[oldest_timestamp, newest_timestamp]`; otherwise the valid value (or NaN) of the slot `normalize(ts)`. -/
theorem atTs_spec {α : Type} (c : Cfg) (hp : 0 < c.period) (s : State α) (hI : Inv s) (ts : Int) :
    atTs c s ts =
      match oldestTs s, newestTs s with
      | some k, some n =>
        if ts < slotTime c k ∨ ts > slotTime c n then .indexError else .value ((abs s).val (normSlot c ts))
      | _, _ => .indexError := by
  rcases covered_cases s hI with ⟨h1, h2, h3, _, _⟩ | ⟨n, k, hn, h1, h2, h3, h4, h5, h6, _⟩
  · unfold atTs; simp [h1, h2]
  · unfold atTs
    simp only [h1, if_false, h2, h3, atTsOutOfRange_iff]
    by_cases hr : ts < slotTime c k ∨ ts > slotTime c n
    · simp only [hr, if_true]
    · simp only [hr, if_false]
      have m1 := normSlot_mono c hp (by omega : slotTime c k ≤ ts)
      have m2 := normSlot_mono c hp (by omega : ts ≤ slotTime c n)
      rw [normSlot_slotTime c hp] at m1 m2
      exact atSlot_spec s hI n hn _ (by omega) m2

end RingBuffer
