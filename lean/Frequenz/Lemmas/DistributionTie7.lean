/-
"Model is source", part 7: the early return of `_distribute_power` for a sum of availability ratios close to zero (the
source lists the inverters in the order of the request, the model in the sorted order: the same dictionary), and the
statement for EVERY request: the translated `distribute_power` and the model's `distribute` return the same dictionary
and the same remaining power.
-/
import Frequenz.Lemmas.DistributionTie6

namespace DistTie
open Dist Extracted.Dist
open Extracted.DistLoops (Dict dictGet dictSet mapAccumItems Power AvRatio DistResult Pair AggBat InvData PBounds)

/-- equal as Python values: both raise, or the same `remaining_power` and the same `distribution` dict (a Python dict
does not compare its insertion order) -/
def SameDict (r r' : Option DistResult) : Prop :=
  match r, r' with
  | none, none => True
  | some a, some b => a.remaining_power = b.remaining_power ∧ a.distribution.Perm b.distribution
  | _, _ => False

theorem SameDict.of_eq {r r' : Option DistResult} (h : r = r') : SameDict r r' := by
  subst h; cases r with
  | none => trivial
  | some a => exact ⟨rfl, List.Perm.refl _⟩

/-- every inverter of the request with set-point 0, in the order of the request -/
def zeroDist (gs : List Group) : Dict Int Rat := gs.flatMap fun g => g.invs.map fun i => (i.id, (0 : Rat))

theorem zeroDict_eq_source (bid : Group → Int) (gs : List Group) (hnd : (keysL bid gs).Nodup) :
    (((gs.map (pairOf bid)).flatMap fun x => x.inverter.map fun y => (y.component_id, (0 : Rat))).foldl
      (fun d p => dictSet d p.1 p.2) ([] : Dict Int Rat)) = zeroDist gs := by
  have hl : ((gs.map (pairOf bid)).flatMap fun x => x.inverter.map fun y => (y.component_id, (0 : Rat))) = zeroDist gs := by
    simp [zeroDist, List.flatMap_map, pairOf, invDataOf, List.map_map, Function.comp_def]
  rw [hl, foldl_dictSet_fresh]
  · simp
  · have : (zeroDist gs).map (·.1) = gs.flatMap fun g => g.invs.map (·.id) := by
      simp [zeroDist, List.map_flatMap, List.map_map, Function.comp_def]
    simp only [List.nil_append, this]
    exact (invIds_sublist bid gs).nodup hnd

/-- `_distribute_power`, sum of ratios close to zero: nothing is distributed, the whole power remains -/
theorem side_zero_source (fsOrder : List Int → List Int) (supply : Bool) (exp : Nat) (bid : Group → Int) (gs : List Group)
    (P : Rat) (fuel : Nat) (hnd : (keysL bid gs).Nodup) (hz : ¬ isCloseToZero (totalCap (gs.map (normGroup supply))))
    (hS : isCloseToZero (sumL ((itemsOf supply exp gs).map (·.ratio)))) :
    Extracted.DistLoops.distributePower exp fsOrder fuel (gs.map (pairOf bid)) P (availL supply bid gs)
        (inclL supply bid gs) (exclL supply bid gs) = some { distribution := zeroDist gs, remaining_power := P } := by
  have hok := dictsOK_of_lists supply bid gs hnd
  have hratio := ratio_eq_source exp supply bid _ _ _ gs hok
  simp only [hz, if_false] at hratio
  unfold Extracted.DistLoops.distributePower
  simp only [hratio]
  settle [hS]
  rw [zeroDict_eq_source bid gs hnd]

theorem runSide_zero (supply : Bool) (exp : Nat) (gs : List Group) (P : Rat)
    (hz : ¬ isCloseToZero (totalCap (gs.map (normGroup supply))))
    (hS : isCloseToZero (sumL ((itemsOf supply exp gs).map (·.ratio)))) :
    ∃ c, runSide supply P exp gs = some c ∧ c.rem = P ∧ (coreResult c).distribution.Perm (zeroDist gs) := by
  refine ⟨core P (sumL ((itemsOf supply exp gs).map (·.ratio))) (sortItems (itemsOf supply exp gs)), ?_, ?_, ?_⟩
  · simp only [runSide, hz, if_false]
  · simp only [core, hS, if_true]
  · simp only [core, hS, if_true, coreResult, List.flatMap_map]
    have h1 := (sortItems_perm (itemsOf supply exp gs)).flatMap_right (fun it => spsOf (zeroGroup it).sps)
    refine h1.trans ?_
    have : ((itemsOf supply exp gs).flatMap fun it => spsOf (zeroGroup it).sps) = zeroDist gs := by
      simp [itemsOf, zeroDist, List.flatMap_map, mkItem, zeroGroup, spsOf, normGroup, normInv_raw, List.map_map, Function.comp_def]
    rw [this]

theorem consume_same_source (m : Nat) (fsOrder : List Int → List Int) (exp : Nat) (bid : Group → Int) (gs : List Group)
    (P : Rat) (hfs : FsOrderOK fsOrder gs) (hnd : (keysL bid gs).Nodup) (hne : ∀ g ∈ gs, g.invs ≠ []) :
    SameDict (Extracted.DistLoops.distributeConsumePower exp fsOrder (gs.length + 1 + m) P (gs.map (pairOf bid)))
      ((runSide false P exp gs).map coreResult) := by
  by_cases hS : isCloseToZero (sumL ((itemsOf false exp gs).map (·.ratio)))
  · by_cases hz : isCloseToZero (totalCap (gs.map (normGroup false)))
    · -- both raise
      have hav := avail_eq_source false bid gs
        (fun x => (x.battery.component_id, pyMax (0 : Rat) (x.battery.soc_upper_bound - x.battery.soc)))
        (fun g => by
          show (bid g, pyMax 0 ((aggregate g.bats).socHi - (aggregate g.bats).soc)) = _
          rw [avail_consume_val]; rfl) hnd
      have hb := bounds_eq_source False false (by simp) bid gs hnd
      have hratio := ratio_eq_source exp false bid _ _ _ gs (dictsOK_of_lists false bid gs hnd)
      simp only [hz, if_true] at hratio
      unfold Extracted.DistLoops.distributeConsumePower Extracted.DistLoops.distributePower
      simp only [hav, hb, hratio, runSide, hz, if_true]
      trivial
    · have hav := avail_eq_source false bid gs
        (fun x => (x.battery.component_id, pyMax (0 : Rat) (x.battery.soc_upper_bound - x.battery.soc)))
        (fun g => by
          show (bid g, pyMax 0 ((aggregate g.bats).socHi - (aggregate g.bats).soc)) = _
          rw [avail_consume_val]; rfl) hnd
      have hb := bounds_eq_source False false (by simp) bid gs hnd
      obtain ⟨c, hc, hrem, hperm⟩ := runSide_zero false exp gs P hz hS
      unfold Extracted.DistLoops.distributeConsumePower
      simp only [hav, hb, side_zero_source fsOrder false exp bid gs P _ hnd hz hS, hc, Option.map_some]
      exact ⟨by simp [coreResult, hrem], hperm.symm⟩
  · exact SameDict.of_eq (consume_eq_source m fsOrder exp bid gs P hfs hnd hne hS)

theorem supplySetpointOut_zero : supplySetpointOut 0 = 0 := by unfold supplySetpointOut; grind

theorem supply_same_source (m : Nat) (fsOrder : List Int → List Int) (exp : Nat) (bid : Group → Int) (gs : List Group)
    (P : Rat) (hfs : FsOrderOK fsOrder gs) (hnd : (keysL bid gs).Nodup) (hne : ∀ g ∈ gs, g.invs ≠ []) :
    SameDict (Extracted.DistLoops.distributeSupplyPower exp fsOrder (gs.length + 1 + m) P (gs.map (pairOf bid)))
      ((runSide true (supplyPowerIn P) exp gs).map supplyResult) := by
  by_cases hS : isCloseToZero (sumL ((itemsOf true exp gs).map (·.ratio)))
  · have hav := avail_eq_source true bid gs
      (fun x => (x.battery.component_id, pyMax (0 : Rat) (x.battery.soc - x.battery.soc_lower_bound)))
      (fun g => by
        show (bid g, pyMax 0 ((aggregate g.bats).soc - (aggregate g.bats).socLo)) = _
        rw [avail_supply_val]; rfl) hnd
    have hb := bounds_eq_source True true (by simp) bid gs hnd
    by_cases hz : isCloseToZero (totalCap (gs.map (normGroup true)))
    · have hratio := ratio_eq_source exp true bid _ _ _ gs (dictsOK_of_lists true bid gs hnd)
      simp only [hz, if_true] at hratio
      unfold Extracted.DistLoops.distributeSupplyPower Extracted.DistLoops.distributePower
      simp only [hav, hb, hratio, runSide, hz, if_true]
      trivial
    · obtain ⟨c, hc, hrem, hperm⟩ := runSide_zero true exp gs (supplyPowerIn P) hz hS
      have hside := side_zero_source fsOrder true exp bid gs (supplyPowerIn P) (gs.length + 1 + m) hnd hz hS
      unfold supplyPowerIn at hside
      unfold Extracted.DistLoops.distributeSupplyPower
      simp only [hav, hb, hside, hc, Option.map_some, negate_eq_source]
      refine ⟨?_, ?_⟩
      · simp [supplyResult, hrem, supplyRemainingOut, supplyPowerIn]
      · simp only [supplyResult]
        exact (hperm.symm.map fun p => (p.1, supplySetpointOut p.2))
  · exact SameDict.of_eq (supply_eq_source m fsOrder exp bid gs P hfs hnd hne hS)

/-- **`distribute_power` is the model's `distribute`, for every request**: distinct component ids, non-empty inverter
sets and `Group.invs` in `frozenset` order; no condition on the data, the power or the exponent. -/
theorem distribute_is_source (m : Nat) (fsOrder : List Int → List Int) (bid : Group → Int) (inp : Input)
    (hfs : FsOrderOK fsOrder inp.groups) (hnd : (keysL bid inp.groups).Nodup) (hne : ∀ g ∈ inp.groups, g.invs ≠ []) :
    SameDict (Extracted.DistLoops.distributePowerTop inp.exp fsOrder (inp.groups.length + 1 + m) inp.power (inp.groups.map (pairOf bid)))
      ((distribute inp).map resultOf) := by
  unfold Extracted.DistLoops.distributePowerTop distribute
  by_cases hz : zeroRequest inp.power
  · have hz' : isCloseToZero inp.power := hz
    settle [hz, hz']
    rw [zeroDict_eq_source bid inp.groups hnd]
    refine SameDict.of_eq ?_
    simp [resultOf, zeroDist, Out.setpoints, List.flatMap_map, List.map_flatMap, List.map_map, Function.comp_def]
  · have hz' : ¬ isCloseToZero inp.power := hz
    by_cases hc : consumeRequest inp.power
    · have hc' : (0 : Rat) < inp.power := hc
      have hc'' : ¬ inp.power ≤ 0 := by grind
      settle [hz, hz', hc, hc', hc'']
      have h := consume_same_source m fsOrder inp.exp bid inp.groups inp.power hfs hnd hne
      cases hr : runSide false inp.power inp.exp inp.groups with
      | none => simpa [hr] using h
      | some c => simpa [hr, resultOf_consume] using h
    · have hc' : ¬ (0 : Rat) < inp.power := hc
      have hc'' : inp.power ≤ 0 := by grind
      settle [hz, hz', hc, hc', hc'']
      have h := supply_same_source m fsOrder inp.exp bid inp.groups inp.power hfs hnd hne
      cases hr : runSide true (supplyPowerIn inp.power) inp.exp inp.groups with
      | none => simpa [hr] using h
      | some c => simpa [hr, resultOf_supply] using h

end DistTie
