/-
The hand-written model of the formula evaluator (`Frequenz.Model.Evaluator`: `apply` = `applyFirst` / `applySteady`)
agrees with the machine translation of the current source text of `FormulaEvaluator.apply` and
`_synchronize_metric_timestamps` (`Frequenz.Extracted.EvaluatorPull`, regenerated on every run), for every number of
streams `n`, all queue contents and both values of the first-run flag — in the first run under the hypothesis that
every queue is gap-free (consecutive timestamps one step apart; an invariant of the admissible schedules the C06
theorems quantify over, and needed: the code drains the streams of a group in lockstep, the model one by one).

Two layers, as in `FallbackTie.lean`:
  * the generated functions are shown EQUAL to hand-written mirrors (`cGroup`, `cPopEach`, `cLock`, `cGroups`, `cSync`,
    `cApply`) by unfolding, case splitting and simplification — the part that is re-checked against the source and
    that survives behaviour-preserving rewrites of it;
  * the mirrors are related to the model by proofs that do not depend on the source.
-/
import Frequenz.Lemmas.Evaluator
import Frequenz.Extracted.EvaluatorPull

namespace EvaluatorTie

open Evaluator Pull
open Extracted

abbrev CSt := EvSt Evaluator.Sample
abbrev COut := EOut Evaluator.Sample

/-! ### The dict of lists -/

/-- `d.setdefault(k, []).append(x)`: append `x` to the list under `k`, creating it at the end when missing. -/
def dadd : Dict → Int → Nat → Dict
  | [], k, x => [(k, [x])]
  | (k', l) :: r, k, x => if k' = k then (k', l ++ [x]) :: r else (k', l) :: dadd r k x

theorem has_cons (e : Int × List Nat) (r : Dict) (k : Int) :
    Dict.has (e :: r) k = (e.1 == k || Dict.has r k) := by
  simp [Dict.has]

theorem has_nil (k : Int) : Dict.has [] k = false := rfl

theorem appendAt_of_has (d : Dict) (k : Int) (x : Nat) (h : Dict.has d k = true) :
    Dict.appendAt d k x = some (dadd d k x) := by
  induction d with
  | nil => simp [has_nil] at h
  | cons e r ih =>
    obtain ⟨k', l⟩ := e
    by_cases hk : k' = k
    · simp [Dict.appendAt, dadd, hk]
    · have hr : Dict.has r k = true := by simpa [has_cons, hk] using h
      simp [Dict.appendAt, dadd, hk, ih hr]

theorem appendAt_append_new (d : Dict) (k : Int) (x : Nat) (h : Dict.has d k = false) :
    Dict.appendAt (d ++ [(k, [])]) k x = some (dadd d k x) := by
  induction d with
  | nil => simp [Dict.appendAt, dadd]
  | cons e r ih =>
    obtain ⟨k', l⟩ := e
    have hk : ¬ k' = k := by
      intro hk; simp [has_cons, hk] at h
    have hr : Dict.has r k = false := by simpa [has_cons, hk] using h
    simp [Dict.appendAt, dadd, hk, ih hr]

theorem appendAt_setdefault (d : Dict) (k : Int) (x : Nat) :
    Dict.appendAt (Dict.setdefault d k []) k x = some (dadd d k x) := by
  unfold Dict.setdefault
  cases h : Dict.has d k
  · simp [appendAt_append_new d k x h]
  · simp [appendAt_of_has d k x h]

theorem set_of_not_has (d : Dict) (k : Int) (v : List Nat) (h : Dict.has d k = false) :
    Dict.set d k v = d ++ [(k, v)] := by
  induction d with
  | nil => rfl
  | cons e r ih =>
    obtain ⟨k', l⟩ := e
    have hk : ¬ k' = k := by
      intro hk; simp [has_cons, hk] at h
    have hr : Dict.has r k = false := by simpa [has_cons, hk] using h
    simp [Dict.set, hk, ih hr]

/-- `d[k] = [x]` on a missing key is `dadd` -/
theorem set_singleton_new (d : Dict) (k : Int) (x : Nat) (h : Dict.has d k = false) :
    Dict.set d k [x] = dadd d k x := by
  induction d with
  | nil => rfl
  | cons e r ih =>
    obtain ⟨k', l⟩ := e
    have hk : ¬ k' = k := by
      intro hk; simp [has_cons, hk] at h
    have hr : Dict.has r k = false := by simpa [has_cons, hk] using h
    simp [Dict.set, dadd, hk, ih hr]

/-- `all(r is not None …)` is `not any(r is None …)` -/
theorem all_isSome_eq {α β : Type} (l : List (α × Option β)) :
    l.all (fun x => x.2.isSome) = !l.any (fun x => x.2.isNone) := by
  induction l with
  | nil => rfl
  | cons x r ih =>
    obtain ⟨a, _ | b⟩ := x <;> simp [ih]

theorem appendAt_set_new (d : Dict) (k : Int) (x : Nat) (h : Dict.has d k = false) :
    Dict.appendAt (Dict.set d k []) k x = some (dadd d k x) := by
  rw [set_of_not_has d k [] h, appendAt_append_new d k x h]

/-! ### Mirrors of the generated functions -/

/-- `for metric in metrics: … metrics_by_ts.setdefault(result.timestamp, []).append(name)`; `none` = a `None` result. -/
def cGroup : List (ATask Evaluator.Sample) → Dict → Option Dict
  | [], d => some d
  | (_, none) :: _, _ => none
  | (i, some v) :: r, d => cGroup r (dadd d v.ts i)

/-- `for name in names: next_val = await fetchers[name].fetch_next(); metric_ts = next_val.timestamp` -/
def cPopEach : List Nat → Int → CSt → COut (Flow Int Int)
  | [], m, s => .ok (.next m) s
  | i :: r, _, s =>
    if s.names.contains i then
      match s.qs i with
      | [] => .block
      | v :: q => cPopEach r v.ts { s with qs := setAt s.qs i q, cur := setAt s.cur i (some v) }
    else .exc .fault s

/-- `while metric_ts < latest_ts: <cPopEach>` -/
def cLock (t : Int) (ns : List Nat) : Nat → Int → CSt → COut (Flow Int Int)
  | 0, _, _ => .block
  | fuel + 1, m, s =>
    if m < t then
      match cPopEach ns m s with
      | .ok (.next m') s' => cLock t ns fuel m' s'
      | o => o
    else .ok (.next m) s

/-- `for metric_ts, names in metrics_by_ts.items(): …` -/
def cGroups (t : Int) : List (Int × List Nat) → CSt → COut (Flow Int Unit)
  | [], s => .ok (.next ()) s
  | (g, ns) :: r, s =>
    if g = t then cGroups t r s
    else
      match cLock t ns (totalLen s + 1) g s with
      | .ok (.next m) s' => if m > t then .exc .runtime s' else cGroups t r s'
      | .ok (.ret v) s' => .ok (.ret v) s'
      | .exc e s' => .exc e s'
      | .block => .block

/-- `_synchronize_metric_timestamps` -/
def cSync (metrics : List (ATask Evaluator.Sample)) (s : CSt) : COut Int :=
  match cGroup metrics [] with
  | none => .exc .runtime s
  | some d =>
    match Dict.maxKey d with
    | none => .exc .fault s
    | some t =>
      match cGroups t d s with
      | .ok (.next ()) s' => .ok t { s' with firstRun := false }
      | .ok (.ret v) s' => .ok v s'
      | .exc e s' => .exc e s'
      | .block => .block

/-- `apply` -/
def cApply (f : List (Option Rat) → Option Rat) (s : CSt) : COut Evaluator.Sample :=
  match gather s with
  | .block => .block
  | .got ready pending s1 =>
    if pending ≠ [] ∨ ready.any (fun x => x.2.isNone) = true then .exc .runtime s1
    else if s1.firstRun = true then
      match cSync ready s1 with
      | .ok t s2 => .ok ⟨t, f (EvaluatorPull.runSteps s2)⟩ s2
      | .exc e s2 => .exc e s2
      | .block => .block
    else
      match ready with
      | [] => .exc .fault s1
      | (_, none) :: _ => .exc .fault s1
      | (_, some v) :: _ => .ok ⟨v.ts, f (EvaluatorPull.runSteps s1)⟩ s1

theorem cLock_succ (t : Int) (ns : List Nat) (fuel : Nat) (m : Int) (s : CSt) :
    cLock t ns (fuel + 1) m s =
      if m < t then
        match cPopEach ns m s with
        | .ok (.next m') s' => cLock t ns fuel m' s'
        | o => o
      else .ok (.next m) s := rfl

/-- Leaves of the case analyses. -/
macro "tie_leaf" : tactic =>
  `(tactic| first
    | (simp_all [appendAt_setdefault, appendAt_of_has, appendAt_set_new, set_singleton_new, all_isSome_eq, cLock_succ]; done)
    | (simp_all [appendAt_setdefault, appendAt_of_has, appendAt_set_new, set_singleton_new, all_isSome_eq, cLock_succ]; omega)
    | (simp_all [appendAt_setdefault, appendAt_of_has, appendAt_set_new, set_singleton_new, all_isSome_eq, cLock_succ]; grind)
    | omega
    | grind)

/-- Case-split every `if` / `match` in the goal, then close the leaves. -/
macro "tie_split" : tactic =>
  `(tactic| (repeat' split) <;> tie_leaf)

/-! ### Generated = mirror (re-checked against the source on every run) -/

theorem loop1_eq (f : List (Option Rat) → Option Rat) (xs : List (ATask Evaluator.Sample)) :
    ∀ (d : Dict) (s : CSt),
      EvaluatorPull.priv_synchronize_metric_timestamps_loop1 f xs d s =
        match cGroup xs d with
        | some d' => .ok (.next d') s
        | none => .exc .runtime s := by
  induction xs with
  | nil => intro d s; unfold EvaluatorPull.priv_synchronize_metric_timestamps_loop1 cGroup; rfl
  | cons x r ih =>
    intro d s
    obtain ⟨i, _ | v⟩ := x <;>
      unfold EvaluatorPull.priv_synchronize_metric_timestamps_loop1 cGroup <;>
      simp only [appendAt_setdefault, ih] <;> tie_split

theorem loop4_eq (f : List (Option Rat) → Option Rat) (xs : List Nat) :
    ∀ (m : Int) (s : CSt), EvaluatorPull.priv_synchronize_metric_timestamps_loop4 f xs m s = cPopEach xs m s := by
  induction xs with
  | nil => intro m s; unfold EvaluatorPull.priv_synchronize_metric_timestamps_loop4 cPopEach; rfl
  | cons i r ih =>
    intro m s
    unfold EvaluatorPull.priv_synchronize_metric_timestamps_loop4 cPopEach
    simp only [fetchNext, ih]
    tie_split

theorem loop3_eq (f : List (Option Rat) → Option Rat) (t : Int) (ns : List Nat) (fuel : Nat) :
    ∀ (m : Int) (s : CSt),
      EvaluatorPull.priv_synchronize_metric_timestamps_loop3 f t ns fuel m s = cLock t ns fuel m s := by
  induction fuel with
  | zero => intro m s; unfold EvaluatorPull.priv_synchronize_metric_timestamps_loop3 cLock; rfl
  | succ fuel ih =>
    intro m s
    unfold EvaluatorPull.priv_synchronize_metric_timestamps_loop3 cLock
    simp only [loop4_eq, ih]
    tie_split

theorem loop2_eq (f : List (Option Rat) → Option Rat) (t : Int) (xs : List (Int × List Nat)) :
    ∀ (s : CSt), EvaluatorPull.priv_synchronize_metric_timestamps_loop2 f t xs s = cGroups t xs s := by
  induction xs with
  | nil => intro s; unfold EvaluatorPull.priv_synchronize_metric_timestamps_loop2 cGroups; rfl
  | cons e r ih =>
    intro s
    obtain ⟨g, ns⟩ := e
    unfold EvaluatorPull.priv_synchronize_metric_timestamps_loop2 cGroups
    simp only [loop3_eq, ih]
    tie_split

theorem sync_eq (f : List (Option Rat) → Option Rat) (metrics : List (ATask Evaluator.Sample)) (s : CSt) :
    EvaluatorPull.priv_synchronize_metric_timestamps f metrics s = cSync metrics s := by
  unfold EvaluatorPull.priv_synchronize_metric_timestamps cSync
  simp only [loop1_eq, loop2_eq]
  tie_split

theorem apply_eq (f : List (Option Rat) → Option Rat) (s : CSt) : EvaluatorPull.apply f s = cApply f s := by
  unfold EvaluatorPull.apply cApply
  simp only [sync_eq]
  tie_split

/-! ### Mirrors vs model (independent of the source)

`fin` is what the model's `applyFirst` still has to do, computed from an intermediate state of the translated code:
the "effective queue" of stream `i` is the sample the fetcher holds followed by its receiver queue. -/

/-- consecutive timestamps are one step apart -/
def TsGapFree : List Evaluator.Sample → Prop
  | [] => True
  | [_] => True
  | a :: b :: r => b.ts = a.ts + 1 ∧ TsGapFree (b :: r)

theorem TsGapFree.tail {a : Evaluator.Sample} {l : List Evaluator.Sample} (h : TsGapFree (a :: l)) : TsGapFree l := by
  cases l with
  | nil => trivial
  | cons b r => exact h.2

def eff (s : CSt) (i : Nat) : List Evaluator.Sample :=
  match s.cur i with
  | some v => v :: s.qs i
  | none => s.qs i

def finQs (n : Nat) (t : Int) (s : CSt) : Nat → List Evaluator.Sample :=
  fun i => if i < n then drain t (eff s i) else []

def fin (n : Nat) (t : Int) (f : List (Option Rat) → Option Rat) (σ : St) (s : CSt) : Option St :=
  if allAt n t (finQs n t s) then
    some { σ with qs := popAll (finQs n t s), firstRun := false,
                  out := σ.out ++ [⟨t, f (values n (finQs n t s))⟩] }
  else none

/-- the state after fetcher `i` fetched `w` -/
def pop (s : CSt) (i : Nat) (w : Evaluator.Sample) (q : List Evaluator.Sample) : CSt :=
  { s with qs := setAt s.qs i q, cur := setAt s.cur i (some w) }

theorem finQs_pop (n : Nat) (t : Int) (s : CSt) (i : Nat) (v w : Evaluator.Sample) (q : List Evaluator.Sample)
    (hc : s.cur i = some v) (hv : v.ts < t) (hq : s.qs i = w :: q) :
    finQs n t (pop s i w q) = finQs n t s := by
  funext j
  unfold finQs
  by_cases hj : j = i
  · subst hj
    simp only [eff, pop, setAt, if_true, hc, hq]
    split
    · conv => rhs; unfold drain
      simp [hv]
    · rfl
  · simp only [eff, pop, setAt, if_neg hj]

theorem fin_pop (n : Nat) (t : Int) (f : List (Option Rat) → Option Rat) (σ : St) (s : CSt) (i : Nat)
    (v w : Evaluator.Sample) (q : List Evaluator.Sample)
    (hc : s.cur i = some v) (hv : v.ts < t) (hq : s.qs i = w :: q) :
    fin n t f σ (pop s i w q) = fin n t f σ s := by
  unfold fin
  rw [finQs_pop n t s i v w q hc hv hq]

theorem fin_empty (n : Nat) (t : Int) (f : List (Option Rat) → Option Rat) (σ : St) (s : CSt) (i : Nat)
    (v : Evaluator.Sample) (hi : i < n) (hc : s.cur i = some v) (hv : v.ts < t) (hq : s.qs i = []) :
    fin n t f σ s = none := by
  unfold fin
  have : allAt n t (finQs n t s) = false := by
    cases h : allAt n t (finQs n t s) with
    | false => rfl
    | true =>
      have := ((allAt_iff n t _).mp h i hi).1
      exfalso; apply this
      simp [finQs, hi, eff, hc, hq, drain, hv]
  simp [this]

theorem fin_done (n : Nat) (t : Int) (f : List (Option Rat) → Option Rat) (σ : St) (s : CSt)
    (hall : ∀ i, i < n → ∃ v, s.cur i = some v ∧ v.ts = t) (hout : ∀ i, n ≤ i → s.qs i = [])
    (hnames : s.names = List.range n) :
    fin n t f σ s =
      some { σ with qs := s.qs, firstRun := false, out := σ.out ++ [⟨t, f (EvaluatorPull.runSteps s)⟩] } := by
  have hq : ∀ i, i < n → ∃ v, s.cur i = some v ∧ v.ts = t ∧ finQs n t s i = v :: s.qs i := by
    intro i hi
    obtain ⟨v, hc, hv⟩ := hall i hi
    refine ⟨v, hc, hv, ?_⟩
    simp [finQs, hi, eff, hc, drain, hv]
  have hat : allAt n t (finQs n t s) = true := by
    rw [allAt_iff]
    intro i hi
    obtain ⟨v, _, hv, hf⟩ := hq i hi
    rw [hf]; exact ⟨by simp, by simp [headTs, hv]⟩
  have hpop : popAll (finQs n t s) = s.qs := by
    funext i
    unfold popAll
    by_cases hi : i < n
    · obtain ⟨v, _, _, hf⟩ := hq i hi
      rw [hf]; rfl
    · simp [finQs, hi, hout i (by omega)]
  have hval : values n (finQs n t s) = EvaluatorPull.runSteps s := by
    unfold values EvaluatorPull.runSteps
    rw [hnames]
    apply List.map_congr_left
    intro i hi
    obtain ⟨v, hc, _, hf⟩ := hq i (List.mem_range.mp hi)
    rw [hf, hc]; rfl
  unfold fin
  rw [hat, hpop, hval]
  rfl

/-- stream `i` holds a sample stamped `m` and is gap-free from there -/
def AtTs (n : Nat) (m : Int) (s : CSt) (i : Nat) : Prop :=
  i < n ∧ ∃ v, s.cur i = some v ∧ v.ts = m ∧ TsGapFree (v :: s.qs i)

/-- the constant parts of the state, and the streams outside `ns`, are untouched -/
def Frame (ns : List Nat) (s s' : CSt) : Prop :=
  (∀ i, i ∉ ns → s'.cur i = s.cur i ∧ s'.qs i = s.qs i) ∧ s'.names = s.names ∧ s'.order = s.order ∧
  s'.firstRun = s.firstRun

theorem Frame.refl (ns : List Nat) (s : CSt) : Frame ns s s :=
  ⟨fun _ _ => ⟨rfl, rfl⟩, rfl, rfl, rfl⟩

def PopPost (n : Nat) (t : Int) (f : List (Option Rat) → Option Rat) (σ : St) (m0 : Int) (ns : List Nat) (m : Int)
    (s : CSt) : COut (Flow Int Int) → Prop
  | .block => fin n t f σ s = none
  | .ok (.next m') s' =>
    (ns ≠ [] → m' = m0 + 1) ∧ (ns = [] → m' = m) ∧ fin n t f σ s' = fin n t f σ s ∧
    (∀ i ∈ ns, AtTs n (m0 + 1) s' i ∧ (s'.qs i).length + 1 = (s.qs i).length) ∧ Frame ns s s'
  | _ => False

theorem popEach_spec (n : Nat) (t : Int) (f : List (Option Rat) → Option Rat) (σ : St) (m0 : Int) (hm : m0 < t)
    (ns : List Nat) : ∀ (m : Int) (s : CSt), s.names = List.range n → ns.Nodup → (∀ i ∈ ns, AtTs n m0 s i) →
      PopPost n t f σ m0 ns m s (cPopEach ns m s) := by
  induction ns with
  | nil =>
    intro m s _ _ _
    simp [cPopEach, PopPost, Frame.refl]
  | cons i r ih =>
    intro m s hnames hnd hat
    obtain ⟨hi, v, hc, hv, hg⟩ := hat i (by simp)
    have hcont : s.names.contains i = true := by
      rw [hnames]; simp [hi]
    unfold cPopEach
    rw [if_pos hcont]
    cases hq : s.qs i with
    | nil =>
      simp only [PopPost]
      exact fin_empty n t f σ s i v hi hc (by omega) hq
    | cons w q =>
      simp only []
      have hnd' := List.nodup_cons.mp hnd
      -- the state after the fetch
      have hfin := fin_pop n t f σ s i v w q hc (by omega) hq
      have hw : w.ts = m0 + 1 := by
        rw [hq] at hg
        have := hg.1; omega
      have hgw : TsGapFree (w :: q) := by rw [hq] at hg; exact hg.tail
      have hat' : ∀ j ∈ r, AtTs n m0 (pop s i w q) j := by
        intro j hj
        have hne : j ≠ i := by rintro rfl; exact hnd'.1 hj
        obtain ⟨hjn, v', hc', hv', hg'⟩ := hat j (by simp [hj])
        exact ⟨hjn, v', by simp [pop, setAt, hne, hc'], hv', by simpa [pop, setAt, hne] using hg'⟩
      have := ih w.ts (pop s i w q) hnames hnd'.2 hat'
      change PopPost n t f σ m0 (i :: r) m s (cPopEach r w.ts (pop s i w q))
      revert this
      cases cPopEach r w.ts (pop s i w q) with
      | block => simp only [PopPost]; intro h; rw [← hfin]; exact h
      | exc e s' => simp [PopPost]
      | ok fl s' =>
        cases fl with
        | ret x => simp [PopPost]
        | next m' =>
          simp only [PopPost]
          rintro ⟨h1, h2, h3, h4, h5, h6, h7, h8⟩
          refine ⟨fun _ => ?_, fun h => by simp at h, by rw [h3, hfin], ?_, ?_, h6, h7, h8⟩
          · by_cases hr : r = []
            · rw [h2 hr]; exact hw
            · exact h1 hr
          · intro j hj
            by_cases hji : j = i
            · -- `i` itself: untouched by the rest
              subst hji
              obtain ⟨hc5, hq5⟩ := h5 j hnd'.1
              refine ⟨⟨hi, w, by simp [hc5, pop, setAt], hw, by simpa [hq5, pop, setAt] using hgw⟩, ?_⟩
              simp [hq5, pop, setAt, hq]
            · have hjr : j ∈ r := by
                rcases List.mem_cons.mp hj with h | h
                · exact absurd h hji
                · exact h
              obtain ⟨ha, hl⟩ := h4 j hjr
              exact ⟨ha, by simpa [pop, setAt, hji] using hl⟩
          · intro j hj
            have hne : j ≠ i := by intro h; exact hj (by simp [h])
            have hjr : j ∉ r := by intro h; exact hj (by simp [h])
            obtain ⟨hc5, hq5⟩ := h5 j hjr
            exact ⟨by simpa [pop, setAt, hne] using hc5, by simpa [pop, setAt, hne] using hq5⟩

theorem Frame.trans {ns : List Nat} {s s' s'' : CSt} (h : Frame ns s s') (h' : Frame ns s' s'') : Frame ns s s'' := by
  obtain ⟨a1, a2, a3, a4⟩ := h
  obtain ⟨b1, b2, b3, b4⟩ := h'
  refine ⟨fun i hi => ?_, by rw [b2, a2], by rw [b3, a3], by rw [b4, a4]⟩
  obtain ⟨c1, c2⟩ := a1 i hi
  obtain ⟨d1, d2⟩ := b1 i hi
  exact ⟨by rw [d1, c1], by rw [d2, c2]⟩

def LockPost (n : Nat) (t : Int) (f : List (Option Rat) → Option Rat) (σ : St) (ns : List Nat) (s : CSt) :
    COut (Flow Int Int) → Prop
  | .block => fin n t f σ s = none
  | .ok (.next m') s' => m' = t ∧ fin n t f σ s' = fin n t f σ s ∧ (∀ i ∈ ns, AtTs n t s' i) ∧ Frame ns s s'
  | _ => False

/-- The lockstep loop on a group whose streams all hold a sample stamped `m ≤ t`: it ends with every stream of the
group at `t` (or blocks, and then the model blocks too); fuel above the queue length of the group's first stream is
enough. -/
theorem lock_spec (n : Nat) (t : Int) (f : List (Option Rat) → Option Rat) (σ : St) (i0 : Nat) (r : List Nat) :
    ∀ (k : Nat) (m : Int) (s : CSt) (fuel : Nat), m + k = t → s.names = List.range n → (i0 :: r).Nodup →
      (∀ i ∈ i0 :: r, AtTs n m s i) → (s.qs i0).length < fuel →
      LockPost n t f σ (i0 :: r) s (cLock t (i0 :: r) fuel m s) := by
  intro k
  induction k with
  | zero =>
    intro m s fuel hk hnames hnd hat hfuel
    have hmt : m = t := by omega
    cases fuel with
    | zero => omega
    | succ fuel =>
      unfold cLock
      rw [if_neg (by omega)]
      simp only [LockPost]
      refine ⟨hmt, ?_, fun i hi => hmt ▸ hat i hi, Frame.refl _ _⟩
      first | rfl | trivial
  | succ k ih =>
    intro m s fuel hk hnames hnd hat hfuel
    have hlt : m < t := by omega
    cases fuel with
    | zero => omega
    | succ fuel =>
      unfold cLock
      rw [if_pos hlt]
      have hp := popEach_spec n t f σ m hlt (i0 :: r) m s hnames hnd hat
      revert hp
      cases cPopEach (i0 :: r) m s with
      | block => simp only [PopPost, LockPost]; exact id
      | exc e s' => simp [PopPost]
      | ok fl s' =>
        cases fl with
        | ret x => simp [PopPost]
        | next m' =>
          simp only [PopPost]
          rintro ⟨h1, _, h3, h4, h5⟩
          have hm' : m' = m + 1 := h1 (by simp)
          subst hm'
          have hlen := (h4 i0 (by simp)).2
          have := ih (m + 1) s' fuel (by omega) (by rw [h5.2.1, hnames]) hnd (fun i hi => (h4 i hi).1) (by omega)
          revert this
          cases cLock t (i0 :: r) fuel (m + 1) s' with
          | block => simp only [LockPost]; intro h; rw [← h3]; exact h
          | exc e s'' => simp [LockPost]
          | ok fl s'' =>
            cases fl with
            | ret x => simp [LockPost]
            | next m'' =>
              simp only [LockPost]
              rintro ⟨g1, g2, g3, g4⟩
              exact ⟨g1, by rw [g2, h3], g3, h5.trans g4⟩

theorem le_sum_map (g : Nat → Nat) : ∀ (l : List Nat) (i : Nat), i ∈ l → g i ≤ (l.map g).sum
  | [], _, h => by simp at h
  | x :: l, i, h => by
      simp only [List.map_cons, List.sum_cons]
      rcases List.mem_cons.mp h with rfl | h
      · omega
      · have := le_sum_map g l i h; omega

theorem len_le_totalLen (n : Nat) (s : CSt) (hnames : s.names = List.range n) (i : Nat) (hi : i < n) :
    (s.qs i).length ≤ totalLen s := by
  unfold totalLen
  rw [hnames]
  exact le_sum_map (fun i => (s.qs i).length) (List.range n) i (List.mem_range.mpr hi)

def InGroups (rest : List (Int × List Nat)) (i : Nat) : Prop := ∃ e ∈ rest, i ∈ e.2

def GoodGroup (n : Nat) (t : Int) (s : CSt) (e : Int × List Nat) : Prop :=
  e.2 ≠ [] ∧ e.2.Nodup ∧ e.1 ≤ t ∧ ∀ i ∈ e.2, AtTs n e.1 s i

def GroupsPost (n : Nat) (t : Int) (f : List (Option Rat) → Option Rat) (σ : St) (rest : List (Int × List Nat))
    (s : CSt) : COut (Flow Int Unit) → Prop
  | .block => fin n t f σ s = none
  | .ok (.next _) s' =>
    fin n t f σ s' = fin n t f σ s ∧ (∀ i, InGroups rest i → ∃ v, s'.cur i = some v ∧ v.ts = t) ∧
    (∀ i, ¬ InGroups rest i → s'.cur i = s.cur i ∧ s'.qs i = s.qs i) ∧
    s'.names = s.names ∧ s'.order = s.order ∧ s'.firstRun = s.firstRun
  | _ => False

theorem atTs_unique {n : Nat} {a b : Int} {s : CSt} {i : Nat} (ha : AtTs n a s i) (hb : AtTs n b s i) : a = b := by
  obtain ⟨_, v, hv, hva, _⟩ := ha
  obtain ⟨_, w, hw, hwb, _⟩ := hb
  rw [hv] at hw; cases hw; omega

/-- The loop over the groups: every stream of every group ends at `t` (or the call blocks, and then so does the model). -/
theorem groups_spec (n : Nat) (t : Int) (f : List (Option Rat) → Option Rat) (σ : St) :
    ∀ (rest : List (Int × List Nat)) (s : CSt), s.names = List.range n → (rest.map Prod.fst).Nodup →
      (∀ e ∈ rest, GoodGroup n t s e) → GroupsPost n t f σ rest s (cGroups t rest s) := by
  intro rest
  induction rest with
  | nil =>
    intro s _ _ _
    simp only [cGroups, GroupsPost]
    simp [InGroups]
  | cons e r ih =>
    intro s hnames hkeys hgood
    obtain ⟨g, ns⟩ := e
    obtain ⟨hne, hnd, hle, hat⟩ := hgood (g, ns) (by simp)
    simp only at hne hnd hle hat
    have hkeys' : g ∉ r.map Prod.fst ∧ (r.map Prod.fst).Nodup := by
      rw [List.map_cons] at hkeys; exact List.nodup_cons.mp hkeys
    -- the groups are disjoint
    have hdisj : ∀ i, i ∈ ns → ¬ InGroups r i := by
      rintro i hi ⟨e', he', hi'⟩
      have := atTs_unique (hat i hi) ((hgood e' (by simp [he'])).2.2.2 i hi')
      apply hkeys'.1
      rw [this]
      exact List.mem_map_of_mem he'
    have hsplit : ∀ i, InGroups ((g, ns) :: r) i ↔ i ∈ ns ∨ InGroups r i := by
      intro i
      constructor
      · rintro ⟨e', he', hi'⟩
        rcases List.mem_cons.mp he' with rfl | he'
        · exact Or.inl hi'
        · exact Or.inr ⟨e', he', hi'⟩
      · rintro (hi | ⟨e', he', hi'⟩)
        · exact ⟨(g, ns), by simp, hi⟩
        · exact ⟨e', by simp [he'], hi'⟩
    unfold cGroups
    by_cases hgt : g = t
    · rw [if_pos hgt]
      have := ih s hnames hkeys'.2 (fun e' he' => hgood e' (by simp [he']))
      revert this
      cases cGroups t r s with
      | block => simp only [GroupsPost]; exact id
      | exc e s' => simp [GroupsPost]
      | ok fl s' =>
        cases fl with
        | ret x => simp [GroupsPost]
        | next u =>
          simp only [GroupsPost]
          rintro ⟨h1, h2, h3, h4, h5, h6⟩
          refine ⟨h1, fun i hi => ?_, fun i hi => h3 i (fun h => hi ((hsplit i).mpr (Or.inr h))), h4, h5, h6⟩
          rcases (hsplit i).mp hi with hi | hi
          · obtain ⟨_, v, hv, hvt, _⟩ := hat i hi
            exact ⟨v, by rw [(h3 i (hdisj i hi)).1, hv], by omega⟩
          · exact h2 i hi
    · rw [if_neg hgt]
      obtain ⟨i0, r0, rfl⟩ : ∃ i0 r0, ns = i0 :: r0 := by
        cases ns with
        | nil => exact absurd rfl hne
        | cons a b => exact ⟨a, b, rfl⟩
      have hi0 : i0 < n := (hat i0 (by simp)).1
      have hl := lock_spec n t f σ i0 r0 (t - g).toNat g s (totalLen s + 1) (by omega) hnames hnd hat
        (by have := len_le_totalLen n s hnames i0 hi0; omega)
      revert hl
      cases cLock t (i0 :: r0) (totalLen s + 1) g s with
      | block => simp only [LockPost, GroupsPost]; exact id
      | exc e s' => simp [LockPost]
      | ok fl s1 =>
        cases fl with
        | ret x => simp [LockPost]
        | next m' =>
          simp only [LockPost]
          rintro ⟨hm', hfin1, hat1, hfr⟩
          rw [if_neg (by omega)]
          have hgood1 : ∀ e' ∈ r, GoodGroup n t s1 e' := by
            intro e' he'
            obtain ⟨a, b, c, d⟩ := hgood e' (by simp [he'])
            refine ⟨a, b, c, fun i hi => ?_⟩
            have hni : i ∉ i0 :: r0 := fun h => hdisj i h ⟨e', he', hi⟩
            obtain ⟨hc, hq⟩ := hfr.1 i hni
            obtain ⟨x1, v, x2, x3, x4⟩ := d i hi
            exact ⟨x1, v, by rw [hc, x2], x3, by rw [hq]; exact x4⟩
          have := ih s1 (by rw [hfr.2.1, hnames]) hkeys'.2 hgood1
          revert this
          cases cGroups t r s1 with
          | block => simp only [GroupsPost]; intro h; rw [← hfin1]; exact h
          | exc e s' => simp [GroupsPost]
          | ok fl s' =>
            cases fl with
            | ret x => simp [GroupsPost]
            | next u =>
              simp only [GroupsPost]
              rintro ⟨h1, h2, h3, h4, h5, h6⟩
              refine ⟨by rw [h1, hfin1], fun i hi => ?_, fun i hi => ?_, by rw [h4, hfr.2.1],
                by rw [h5, hfr.2.2.1], by rw [h6, hfr.2.2.2]⟩
              · rcases (hsplit i).mp hi with hi | hi
                · obtain ⟨_, v, hv, hvt, _⟩ := hat1 i hi
                  exact ⟨v, by rw [(h3 i (hdisj i hi)).1, hv], hvt⟩
                · exact h2 i hi
              · have hn1 : i ∉ i0 :: r0 := fun h => hi ((hsplit i).mpr (Or.inl h))
                have hn2 : ¬ InGroups r i := fun h => hi ((hsplit i).mpr (Or.inr h))
                obtain ⟨a1, a2⟩ := hfr.1 i hn1
                obtain ⟨b1, b2⟩ := h3 i hn2
                exact ⟨by rw [b1, a1], by rw [b2, a2]⟩

/-! #### The grouping by first timestamp -/

def keyOf (s : CSt) (i : Nat) : Int :=
  match s.cur i with
  | some v => v.ts
  | none => 0

def grp (key : Nat → Int) : List Nat → Dict → Dict
  | [], d => d
  | i :: r, d => grp key r (dadd d (key i) i)

theorem cGroup_eq (s : CSt) : ∀ (l : List Nat) (d : Dict), (∀ i ∈ l, ∃ v, s.cur i = some v) →
    cGroup (l.map (fun i => (i, s.cur i))) d = some (grp (keyOf s) l d)
  | [], d, _ => rfl
  | i :: r, d, h => by
      obtain ⟨v, hv⟩ := h i (by simp)
      simp only [List.map_cons, hv, cGroup, grp, keyOf]
      have := cGroup_eq s r (dadd d v.ts i) (fun j hj => h j (by simp [hj]))
      simpa [keyOf] using this

theorem has_iff (d : Dict) (k : Int) : Dict.has d k = true ↔ k ∈ d.map Prod.fst := by
  induction d with
  | nil => simp [has_nil]
  | cons e r ih =>
    rw [has_cons]
    simp only [List.map_cons, List.mem_cons, Bool.or_eq_true, beq_iff_eq, ih]
    constructor
    · rintro (h | h)
      · exact Or.inl h.symm
      · exact Or.inr h
    · rintro (h | h)
      · exact Or.inl h.symm
      · exact Or.inr h

theorem keys_dadd (d : Dict) (k : Int) (x : Nat) :
    (dadd d k x).map Prod.fst = if Dict.has d k = true then d.map Prod.fst else d.map Prod.fst ++ [k] := by
  induction d with
  | nil => simp [dadd, has_nil]
  | cons e r ih =>
    obtain ⟨k', l⟩ := e
    by_cases hk : k' = k
    · simp [dadd, hk, has_cons]
    · simp only [dadd, hk, if_false, List.map_cons, ih, has_cons]
      have : (k' == k) = false := by simp [hk]
      rw [this]
      simp only [Bool.false_or]
      split <;> simp

theorem mem_dadd (d : Dict) (k : Int) (x : Nat) (e : Int × List Nat) (h : e ∈ dadd d k x) :
    e ∈ d ∨ (∃ l, (k, l) ∈ d ∧ e = (k, l ++ [x])) ∨ e = (k, [x]) := by
  induction d with
  | nil => simp [dadd] at h; exact Or.inr (Or.inr h)
  | cons e' r ih =>
    obtain ⟨k', l⟩ := e'
    by_cases hk : k' = k
    · simp only [dadd, hk, if_true, List.mem_cons] at h
      rcases h with h | h
      · exact Or.inr (Or.inl ⟨l, by simp [hk], h⟩)
      · exact Or.inl (by simp [h])
    · simp only [dadd, hk, if_false, List.mem_cons] at h
      rcases h with h | h
      · exact Or.inl (by simp [h])
      · rcases ih h with h | ⟨l', hl', he⟩ | h
        · exact Or.inl (by simp [h])
        · exact Or.inr (Or.inl ⟨l', by simp [hl'], he⟩)
        · exact Or.inr (Or.inr h)

theorem dadd_new (d : Dict) (k : Int) (x : Nat) : ∃ e ∈ dadd d k x, e.1 = k ∧ x ∈ e.2 := by
  induction d with
  | nil => exact ⟨(k, [x]), by simp [dadd], rfl, by simp⟩
  | cons e' r ih =>
    obtain ⟨k', l⟩ := e'
    by_cases hk : k' = k
    · exact ⟨(k', l ++ [x]), by simp [dadd, hk], hk, by simp⟩
    · obtain ⟨e, he, h1, h2⟩ := ih
      exact ⟨e, by simp [dadd, hk, he], h1, h2⟩

theorem dadd_mono (d : Dict) (k : Int) (x : Nat) :
    ∀ e ∈ d, ∃ e' ∈ dadd d k x, e'.1 = e.1 ∧ ∀ i ∈ e.2, i ∈ e'.2 := by
  induction d with
  | nil => intro e he; simp at he
  | cons e' r ih =>
    obtain ⟨k', l⟩ := e'
    intro e he
    by_cases hk : k' = k
    · rcases List.mem_cons.mp he with rfl | he
      · exact ⟨(k', l ++ [x]), by simp [dadd, hk], rfl, fun i hi => by simp [hi]⟩
      · exact ⟨e, by simp [dadd, hk, he], rfl, fun i hi => hi⟩
    · rcases List.mem_cons.mp he with rfl | he
      · exact ⟨(k', l), by simp [dadd, hk], rfl, fun i hi => hi⟩
      · obtain ⟨e'', h1, h2, h3⟩ := ih e he
        exact ⟨e'', by simp [dadd, hk, h1], h2, h3⟩

structure DInv (key : Nat → Int) (seen : Nat → Prop) (d : Dict) : Prop where
  keys : (d.map Prod.fst).Nodup
  mem : ∀ e ∈ d, e.2 ≠ [] ∧ e.2.Nodup ∧ ∀ i ∈ e.2, seen i ∧ key i = e.1
  cov : ∀ i, seen i → ∃ e ∈ d, e.1 = key i ∧ i ∈ e.2

theorem DInv.congr {key : Nat → Int} {seen seen' : Nat → Prop} {d : Dict} (h : DInv key seen d)
    (hs : ∀ j, seen j ↔ seen' j) : DInv key seen' d :=
  ⟨h.keys, fun e he => ⟨(h.mem e he).1, (h.mem e he).2.1, fun i hi => ⟨(hs i).mp ((h.mem e he).2.2 i hi).1,
    ((h.mem e he).2.2 i hi).2⟩⟩, fun i hi => h.cov i ((hs i).mpr hi)⟩

theorem dadd_inv {key : Nat → Int} {seen : Nat → Prop} {d : Dict} (h : DInv key seen d) (x : Nat) (hx : ¬ seen x) :
    DInv key (fun j => j = x ∨ seen j) (dadd d (key x) x) := by
  refine ⟨?_, ?_, ?_⟩
  · rw [keys_dadd]
    split
    · exact h.keys
    · rename_i hh
      have : key x ∉ d.map Prod.fst := fun hm => hh ((has_iff d (key x)).mpr hm)
      rw [List.nodup_append]
      exact ⟨h.keys, by simp, fun a ha b hb => by simp at hb; subst hb; rintro rfl; exact this ha⟩
  · intro e he
    rcases mem_dadd d (key x) x e he with he | ⟨l, hl, rfl⟩ | rfl
    · obtain ⟨a, b, c⟩ := h.mem e he
      exact ⟨a, b, fun i hi => ⟨Or.inr (c i hi).1, (c i hi).2⟩⟩
    · obtain ⟨a, b, c⟩ := h.mem _ hl
      simp only at a b c
      refine ⟨by simp, ?_, ?_⟩
      · rw [List.nodup_append]
        refine ⟨b, by simp, fun u hu w hw => ?_⟩
        simp at hw; subst hw
        rintro rfl; exact hx (c u hu).1
      · intro i hi
        rcases List.mem_append.mp hi with hi | hi
        · exact ⟨Or.inr (c i hi).1, (c i hi).2⟩
        · simp at hi; subst hi; exact ⟨Or.inl rfl, rfl⟩
    · refine ⟨by simp, by simp, fun i hi => ?_⟩
      simp at hi; subst hi; exact ⟨Or.inl rfl, rfl⟩
  · intro i hi
    rcases hi with rfl | hi
    · obtain ⟨e, he, h1, h2⟩ := dadd_new d (key i) i
      exact ⟨e, he, h1, h2⟩
    · obtain ⟨e, he, h1, h2⟩ := h.cov i hi
      obtain ⟨e', he', g1, g2⟩ := dadd_mono d (key x) x e he
      exact ⟨e', he', by rw [g1, h1], g2 i h2⟩

theorem grp_inv (key : Nat → Int) : ∀ (l : List Nat) (d : Dict) (seen : Nat → Prop), DInv key seen d → l.Nodup →
    (∀ i ∈ l, ¬ seen i) → DInv key (fun j => j ∈ l ∨ seen j) (grp key l d)
  | [], d, seen, h, _, _ => h.congr (fun j => by simp)
  | i :: r, d, seen, h, hnd, hns => by
      have hnd' := List.nodup_cons.mp hnd
      have h1 := dadd_inv h i (hns i (by simp))
      have h2 := grp_inv key r (dadd d (key i) i) (fun j => j = i ∨ seen j) h1 hnd'.2
        (fun j hj => by
          rintro (rfl | hs)
          · exact hnd'.1 hj
          · exact hns j (by simp [hj]) hs)
      refine h2.congr (fun j => ?_)
      simp only [List.mem_cons]
      constructor
      · rintro (h | h | h)
        · exact Or.inl (Or.inr h)
        · exact Or.inl (Or.inl h)
        · exact Or.inr h
      · rintro ((h | h) | h)
        · exact Or.inr (Or.inl h)
        · exact Or.inl h
        · exact Or.inr (Or.inr h)

theorem maxKey_spec : ∀ (d : Dict) (m : Int), Dict.maxKey d = some m →
    (∀ e ∈ d, e.1 ≤ m) ∧ ∃ e ∈ d, e.1 = m
  | [], m, h => by simp [Dict.maxKey] at h
  | (k, l) :: r, m, h => by
      unfold Dict.maxKey at h
      cases hr : Dict.maxKey r with
      | none =>
        rw [hr] at h
        simp only [Option.some.injEq] at h
        subst h
        have : r = [] := by
          cases r with
          | nil => rfl
          | cons e r' =>
            obtain ⟨k', l'⟩ := e
            unfold Dict.maxKey at hr
            cases h' : Dict.maxKey r' <;> simp [h'] at hr
        subst this
        exact ⟨by simp, ⟨(k, l), by simp, rfl⟩⟩
      | some m' =>
        rw [hr] at h
        simp only [Option.some.injEq] at h
        obtain ⟨h1, e, he, h2⟩ := maxKey_spec r m' hr
        by_cases hgt : m' > k
        · rw [if_pos hgt] at h; subst h
          refine ⟨fun e' he' => ?_, e, by simp [he], h2⟩
          rcases List.mem_cons.mp he' with rfl | he'
          · simp only; omega
          · exact h1 e' he'
        · rw [if_neg hgt] at h; subst h
          refine ⟨fun e' he' => ?_, (k, l), by simp, rfl⟩
          rcases List.mem_cons.mp he' with rfl | he'
          · simp
          · have := h1 e' he'; omega

theorem maxKey_none (d : Dict) (h : Dict.maxKey d = none) : d = [] := by
  cases d with
  | nil => rfl
  | cons e r =>
    obtain ⟨k, l⟩ := e
    unfold Dict.maxKey at h
    cases h' : Dict.maxKey r <;> simp [h'] at h

/-! #### The gather -/

def FetchPost (l : List Nat) (s : CSt) : Option CSt → Prop
  | none => ∃ i ∈ l, s.qs i = []
  | some s' =>
    (∀ i ∈ l, ∃ v, s.qs i = v :: s'.qs i ∧ s'.cur i = some v) ∧ (∀ i, i ∉ l → s'.cur i = s.cur i ∧ s'.qs i = s.qs i) ∧
    s'.names = s.names ∧ s'.order = s.order ∧ s'.firstRun = s.firstRun

theorem fetchAll_spec : ∀ (l : List Nat) (s : CSt), l.Nodup → FetchPost l s (fetchAll l s)
  | [], s, _ => by simp [fetchAll, FetchPost]
  | i :: r, s, hnd => by
      have hnd' := List.nodup_cons.mp hnd
      unfold fetchAll fetchNext
      cases hq : s.qs i with
      | nil => simp only [FetchPost]; exact ⟨i, by simp, hq⟩
      | cons v q =>
        simp only []
        have := fetchAll_spec r (pop s i v q) hnd'.2
        change FetchPost (i :: r) s (fetchAll r (pop s i v q))
        revert this
        cases fetchAll r (pop s i v q) with
        | none =>
          simp only [FetchPost]
          rintro ⟨j, hj, hjq⟩
          have hne : j ≠ i := by rintro rfl; exact hnd'.1 hj
          exact ⟨j, by simp [hj], by simpa [pop, setAt, hne] using hjq⟩
        | some s' =>
          simp only [FetchPost]
          rintro ⟨h1, h2, h3, h4, h5⟩
          refine ⟨fun j hj => ?_, fun j hj => ?_, h3, h4, h5⟩
          · by_cases hji : j = i
            · subst hji
              obtain ⟨a, b⟩ := h2 j hnd'.1
              exact ⟨v, by rw [b, hq]; simp [pop, setAt], by rw [a]; simp [pop, setAt]⟩
            · have hjr : j ∈ r := by
                rcases List.mem_cons.mp hj with h | h
                · exact absurd h hji
                · exact h
              obtain ⟨w, a, b⟩ := h1 j hjr
              exact ⟨w, by simpa [pop, setAt, hji] using a, b⟩
          · have hne : j ≠ i := fun h => hj (by simp [h])
            have hjr : j ∉ r := fun h => hj (by simp [h])
            obtain ⟨a, b⟩ := h2 j hjr
            exact ⟨by simpa [pop, setAt, hne] using a, by simpa [pop, setAt, hne] using b⟩

/-! #### `apply` -/

/-- The model state after a call that left the translated state `s'` and returned `o`. -/
def lift (σ : St) (s' : CSt) (o : Evaluator.Sample) : St :=
  { σ with qs := s'.qs, firstRun := s'.firstRun, out := σ.out ++ [o] }

/-- The outcome of the translated `apply` is what the model's `m : Option St` says: blocked ↔ `none`; a returned
sample ↔ that sample emitted, the same remaining queues and first-run flag; never an exception. -/
def Agrees (σ : St) (m : Option St) : COut Evaluator.Sample → Prop
  | .block => m = none
  | .ok o s' => m = some (lift σ s' o)
  | .exc _ _ => False

theorem applyFirst_eq_fin (n : Nat) (f : List (Option Rat) → Option Rat) (σ : St) (s1 : CSt)
    (hready : allReady n σ.qs = true) (heff : ∀ i, i < n → eff s1 i = σ.qs i) (hout : ∀ i, n ≤ i → σ.qs i = []) :
    applyFirst n f σ = fin n (latestTs n σ.qs) f σ s1 := by
  have hqs : (fun i => drain (latestTs n σ.qs) (σ.qs i)) = finQs n (latestTs n σ.qs) s1 := by
    funext i
    unfold finQs
    by_cases hi : i < n
    · rw [if_pos hi, heff i hi]
    · rw [if_neg hi, hout i (by omega)]; rfl
  unfold applyFirst fin
  rw [if_pos hready]
  simp only [hqs]

theorem latest_eq (n : Nat) (hn : 0 < n) (g key : Nat → Int) (mem : Nat → Prop) (D : Dict) (t : Int)
    (hmem : ∀ i, mem i ↔ i < n) (hkey : ∀ i, i < n → key i = g i) (hD : DInv key mem D)
    (ht : Dict.maxKey D = some t) :
    t = (List.range n).foldl (fun m i => max m (g i)) (g 0) := by
  obtain ⟨hle, e, he, het⟩ := maxKey_spec D t ht
  obtain ⟨hne, _, hmm⟩ := hD.mem e he
  have hge := foldl_max_ge g (List.range n) (g 0)
  apply Int.le_antisymm
  · obtain ⟨i, r, hir⟩ : ∃ i r, e.2 = i :: r := by
      cases h : e.2 with
      | nil => exact absurd h hne
      | cons a b => exact ⟨a, b, rfl⟩
    obtain ⟨hi, hk⟩ := hmm i (by rw [hir]; simp)
    have hin := (hmem i).mp hi
    have := hge.2 i (List.mem_range.mpr hin)
    rw [← het, ← hk, hkey i hin]; exact this
  · have hatt : ∃ i, i < n ∧ (List.range n).foldl (fun m i => max m (g i)) (g 0) = g i := by
      rcases foldl_max_mem g (List.range n) (g 0) with h | ⟨i, hi, h⟩
      · exact ⟨0, hn, h⟩
      · exact ⟨i, List.mem_range.mp hi, h⟩
    obtain ⟨i, hi, hfi⟩ := hatt
    obtain ⟨e', he', h1, _⟩ := hD.cov i ((hmem i).mpr hi)
    have := hle e' he'
    rw [hfi, ← hkey i hi, ← h1]; exact this

/-- The hypotheses of the tie: `s` is a state of the translated evaluator for the model state `σ` with `n` streams. -/
structure Rel (n : Nat) (c : Nat) (σ : St) (s : CSt) : Prop where
  names : s.names = List.range n
  perm : s.order.Perm (List.range n)            -- the set of tasks is iterated in SOME order …
  head : s.order.head? = some (c % n)           -- … starting with the stream the model's choice `c` names
  qs : s.qs = σ.qs
  first : s.firstRun = σ.firstRun
  out : ∀ i, n ≤ i → σ.qs i = []                -- there are only `n` streams
  gap : σ.firstRun = true → ∀ i, i < n → TsGapFree (σ.qs i)

theorem capply_tie (n : Nat) (f : List (Option Rat) → Option Rat) (c : Nat) (σ : St) (s : CSt) (hn : 0 < n)
    (h : Rel n c σ s) : Agrees σ (Evaluator.apply n f c σ) (cApply f s) := by
  obtain ⟨hnames, hperm, hhead, hqs, hfirst, hout, hgap⟩ := h
  have hmem : ∀ i, i ∈ s.order ↔ i < n := fun i => by rw [hperm.mem_iff, List.mem_range]
  have hond : s.order.Nodup := hperm.nodup_iff.mpr List.nodup_range
  unfold cApply gather
  rw [hnames]
  have hfa := fetchAll_spec (List.range n) s List.nodup_range
  revert hfa
  cases fetchAll (List.range n) s with
  | none =>
    simp only [FetchPost, Agrees]
    rintro ⟨i, hi, hq⟩
    have hnr : allReady n σ.qs = false := by
      cases hr : allReady n σ.qs with
      | false => rfl
      | true =>
        exact absurd (by rw [← hqs]; exact hq) ((allReady_iff n σ.qs).mp hr i (List.mem_range.mp hi))
    unfold Evaluator.apply applyFirst applySteady
    simp [hnr]
  | some s1 =>
    simp only [FetchPost]
    rintro ⟨h1, h2, h3, h4, h5⟩
    -- what the gather did
    have hpop : ∀ i, i < n → ∃ v, σ.qs i = v :: s1.qs i ∧ s1.cur i = some v := fun i hi => by
      obtain ⟨v, a, b⟩ := h1 i (List.mem_range.mpr hi); exact ⟨v, by rw [← hqs]; exact a, b⟩
    have hrest : ∀ i, n ≤ i → s1.qs i = [] := fun i hi => by
      rw [(h2 i (by simp; omega)).2, hqs]; exact hout i hi
    have hready : allReady n σ.qs = true := by
      rw [allReady_iff]; intro i hi; obtain ⟨v, a, _⟩ := hpop i hi; rw [a]; simp
    have hnames1 : s1.names = List.range n := by rw [h3, hnames]
    have hany : (s1.order.map (fun i => (i, s1.cur i))).any (fun x => x.2.isNone) = false := by
      rw [List.any_eq_false]
      intro x hx
      obtain ⟨i, hi, rfl⟩ := List.mem_map.mp hx
      obtain ⟨v, _, b⟩ := hpop i ((hmem i).mp (h4 ▸ hi))
      simp [b]
    have hvals : values n σ.qs = EvaluatorPull.runSteps s1 := by
      unfold values EvaluatorPull.runSteps
      rw [hnames1]
      apply List.map_congr_left
      intro i hi
      obtain ⟨v, a, b⟩ := hpop i (List.mem_range.mp hi)
      rw [a, b]; rfl
    rw [if_neg (by simp [hany])]
    by_cases hfr : σ.firstRun = true
    · -- first run: synchronise
      have hfr1 : s1.firstRun = true := by rw [h5, hfirst, hfr]
      rw [if_pos hfr1]
      unfold cSync
      have hcur : ∀ i ∈ s1.order, ∃ v, s1.cur i = some v := fun i hi => by
        obtain ⟨v, _, b⟩ := hpop i ((hmem i).mp (h4 ▸ hi)); exact ⟨v, b⟩
      rw [cGroup_eq s1 s1.order [] hcur]
      have hD0 : DInv (keyOf s1) (fun _ => False) [] :=
        ⟨by simp, fun e he => by simp at he, fun i hi => hi.elim⟩
      have hD := (grp_inv (keyOf s1) s1.order [] (fun _ => False) hD0 (h4 ▸ hond) (fun _ _ h => h)).congr
        (seen' := fun j => j < n) (fun j => by rw [h4]; simp [hmem j])
      simp only []
      cases hmk : Dict.maxKey (grp (keyOf s1) s1.order []) with
      | none =>
        exfalso
        obtain ⟨e, he, _⟩ := hD.cov 0 hn
        rw [maxKey_none _ hmk] at he; simp at he
      | some t =>
        simp only []
        have hkey : ∀ i, i < n → keyOf s1 i = headTs (σ.qs i) := fun i hi => by
          obtain ⟨v, a, b⟩ := hpop i hi; simp [keyOf, b, a, headTs]
        have ht : t = latestTs n σ.qs :=
          latest_eq n hn (fun i => headTs (σ.qs i)) (keyOf s1) (fun j => j < n) _ t (fun _ => Iff.rfl) hkey hD hmk
        have heff : ∀ i, i < n → eff s1 i = σ.qs i := fun i hi => by
          obtain ⟨v, a, b⟩ := hpop i hi; simp [eff, b, a]
        have hmodel : Evaluator.apply n f c σ = fin n t f σ s1 := by
          unfold Evaluator.apply
          rw [if_pos hfr, ht]
          exact applyFirst_eq_fin n f σ s1 hready heff hout
        have hgood : ∀ e ∈ grp (keyOf s1) s1.order [], GoodGroup n t s1 e := by
          intro e he
          obtain ⟨a, b, cc⟩ := hD.mem e he
          refine ⟨a, b, (maxKey_spec _ t hmk).1 e he, fun i hi => ?_⟩
          obtain ⟨hin, hk⟩ := cc i hi
          obtain ⟨v, x, y⟩ := hpop i hin
          refine ⟨hin, v, y, ?_, ?_⟩
          · rw [← hk]; simp [keyOf, y]
          · rw [← x]; exact hgap hfr i hin
        have hg := groups_spec n t f σ _ s1 hnames1 hD.keys hgood
        revert hg
        cases cGroups t (grp (keyOf s1) s1.order []) s1 with
        | block => simp only [GroupsPost, Agrees]; intro hfin; rw [hmodel, hfin]
        | exc e s' => simp [GroupsPost]
        | ok fl s2 =>
          cases fl with
          | ret x => simp [GroupsPost]
          | next u =>
            simp only [GroupsPost, Agrees]
            rintro ⟨g1, g2, g3, g4, _, _⟩
            have hall : ∀ i, i < n → ∃ v, s2.cur i = some v ∧ v.ts = t := fun i hi => by
              obtain ⟨e, he, _, hie⟩ := hD.cov i hi
              exact g2 i ⟨e, he, hie⟩
            have hout2 : ∀ i, n ≤ i → s2.qs i = [] := fun i hi => by
              have : ¬ InGroups (grp (keyOf s1) s1.order []) i := by
                rintro ⟨e, he, hie⟩
                have := ((hD.mem e he).2.2 i hie).1
                omega
              rw [(g3 i this).2]; exact hrest i hi
            rw [hmodel, ← g1, fin_done n t f σ s2 hall hout2 (by rw [g4, hnames1])]
            rfl
    · -- steady state: the timestamp of the first task of the set
      have hfr1 : ¬ s1.firstRun = true := by rw [h5, hfirst]; exact hfr
      rw [if_neg hfr1]
      obtain ⟨o1, orest, ho⟩ : ∃ o1 orest, s1.order = o1 :: orest := by
        rw [h4]
        cases hso : s.order with
        | nil => rw [hso] at hhead; simp at hhead
        | cons a b => exact ⟨a, b, rfl⟩
      have ho1 : o1 = c % n := by
        rw [← h4, ho] at hhead; simpa using hhead
      obtain ⟨v, a, b⟩ := hpop o1 (by rw [ho1]; exact Nat.mod_lt _ hn)
      rw [ho]
      simp only [List.map_cons, b, Agrees]
      unfold Evaluator.apply applySteady
      rw [if_neg hfr, if_pos hready, ← ho1, a, hvals]
      have hq1 : popAll σ.qs = s1.qs := by
        funext i
        unfold popAll
        by_cases hi : i < n
        · obtain ⟨w, x, _⟩ := hpop i hi; rw [x]; rfl
        · rw [hout i (by omega), hrest i (by omega)]; rfl
      have hf1 : σ.firstRun = s1.firstRun := by rw [h5, hfirst]
      simp only [lift, hq1, headTs]
      congr 1
      obtain ⟨q, fr, out, all⟩ := σ
      simp only at hf1
      simp [hf1]

/-- **The tie**: the translated `apply` (current source) against one `eval` step of the model. -/
theorem apply_is_source (n : Nat) (f : List (Option Rat) → Option Rat) (c : Nat) (σ : St) (s : CSt) (hn : 0 < n)
    (h : Rel n c σ s) : Agrees σ (Evaluator.apply n f c σ) (EvaluatorPull.apply f s) := by
  rw [apply_eq]
  exact capply_tie n f c σ s hn h

/-! ### The hypotheses hold in every state an admissible schedule reaches -/

theorem tsGapFree_of_gapFree (v : Int → Option Rat) : ∀ (l : List Evaluator.Sample) (a : Int), GapFree a v l → TsGapFree l
  | [], _, _ => trivial
  | [_], _, _ => trivial
  | x :: y :: r, a, h => by
      have h0 := (h 0 x (by simp)).1
      have h1 := (h 1 y (by simp)).1
      refine ⟨by push_cast at h0 h1; omega, tsGapFree_of_gapFree v (y :: r) (a + 1) h.tail⟩

/-- streams `≥ n` never receive anything -/
theorem out_empty_foldl (n : Nat) (f : List (Option Rat) → Option Rat) (t0 : Nat → Int) (src : Nat → Int → Option Rat) :
    ∀ (es : List Ev) (σ : St), (∀ i, n ≤ i → σ.qs i = []) → AdmFrom n f t0 src σ es →
      ∀ i, n ≤ i → (es.foldl (step n f) σ).qs i = []
  | [], σ, h, _ => h
  | e :: es, σ, h, ha => by
      obtain ⟨ha1, ha2⟩ := ha
      refine out_empty_foldl n f t0 src es (step n f σ e) ?_ ha2
      intro i hi
      cases e with
      | deliver j s =>
        have hj : j < n := ha1.1
        rw [step_deliver]
        simp only
        rw [if_neg (by omega)]; exact h i hi
      | eval c =>
        rw [step_eval]
        have hi' := h i hi
        cases happ : Evaluator.apply n f c σ with
        | none => simpa using hi'
        | some σ' =>
          simp only [Option.getD_some]
          unfold Evaluator.apply at happ
          split at happ
          · unfold applyFirst at happ
            split at happ
            · dsimp only at happ
              split at happ
              · cases happ; simp [popAll, hi', drain]
              · cases happ
            · cases happ
          · unfold applySteady at happ
            split at happ
            · cases happ; simp [popAll, hi']
            · cases happ

theorem rel_of_run (n : Nat) (f : List (Option Rat) → Option Rat) (t0 : Nat → Int) (src : Nat → Int → Option Rat)
    (es : List Ev) (hn : 0 < n) (ha : AdmFrom n f t0 src St.init es) (c : Nat) (s : CSt)
    (hnames : s.names = List.range n) (hperm : s.order.Perm (List.range n)) (hhead : s.order.head? = some (c % n))
    (hqs : s.qs = (run n f es).qs) (hfirst : s.firstRun = (run n f es).firstRun) :
    Rel n c (run n f es) s := by
  have hinv := inv_run hn es ha
  refine ⟨hnames, hperm, hhead, hqs, hfirst, ?_, ?_⟩
  · exact out_empty_foldl n f t0 src es St.init (fun _ _ => rfl) ha
  · intro hfr i _
    rw [(hinv.first hfr).2 i]
    exact tsGapFree_of_gapFree (src i) _ (t0 i) (hinv.hist i)

end EvaluatorTie
