import Frequenz.Model.BatteryStatus
import Mathlib.Tactic.SplitIfs
namespace BatteryStatus
open Extracted.BatteryStatus

/-- Is the optional deadline still in the future? -/
def blockedB (u : Option Int) (now : Int) : Bool :=
  match u with
  | none => false
  | some x => decide (now < x)

theorem isBlocked_eq (b : Blocking) (now : Int) : Blocking.isBlocked b now = blockedB b.blockedUntil now := by
  unfold Blocking.isBlocked blockedB optCmp
  cases h : b.blockedUntil <;> simp [gt_iff_lt]

theorem unblock_eq (b : Blocking) (now : Int) : Blocking.unblock b now = { b with blockedUntil := none } := rfl

/-- `BlockingStatus.block` in closed form. -/
def blockRef (b : Blocking) (now : Int) : Blocking :=
  match b.blockedUntil with
  | none => { b with lastBlockingDuration := b.minDuration, blockedUntil := some (now + b.minDuration) }
  | some u =>
    if now < u then b
    else
      let d := min (2 * b.lastBlockingDuration) b.maxDuration
      { b with lastBlockingDuration := d, blockedUntil := some (now + d) }

theorem pyMinInt_eq (a b : Int) : pyMinInt a b = min a b := by
  unfold pyMinInt; omega

theorem block_eq (b : Blocking) (now : Int) : (Blocking.block b now).1 = blockRef b now := by
  unfold Blocking.block blockRef optCmp
  cases h : b.blockedUntil with
  | none => simp
  | some u =>
    simp only [Option.isNone_some, Bool.false_eq_true, if_false, gt_iff_lt, decide_eq_true_eq]
    by_cases hu : now < u
    · simp [hu]
    · simp [hu, pyMinInt_eq]

/-! ## `_get_new_status_if_changed` in closed form -/

def healthyB (s : Tracker) : Bool := s.battery.lastMsgCorrect && s.inverter.lastMsgCorrect

def curStatus (s : Tracker) (now : Int) : Status :=
  if healthyB s = true then
    if s.lastStatus = Status.notWorking then Status.working
    else if blockedB s.blocking.blockedUntil now = true then Status.uncertain else Status.working
  else Status.notWorking

def evalRef (s : Tracker) (now : Int) : Tracker × Option Status :=
  let c := curStatus s now
  let blk := if healthyB s = true ∧ s.lastStatus = Status.notWorking
    then { s.blocking with blockedUntil := none } else s.blocking
  ({ s with lastStatus := c, blocking := blk }, if s.lastStatus = c then none else some c)

theorem getNew_eq (s : Tracker) (now : Int) : Tracker.getNewStatusIfChanged s now = evalRef s now := by
  obtain ⟨ma, ls, blk, ⟨bts, bok, bra⟩, ⟨its, iok, ira⟩⟩ := s
  unfold Tracker.getNewStatusIfChanged Tracker.getCurrentStatus evalRef curStatus healthyB
  simp only [isBlocked_eq, unblock_eq]
  cases bok <;> cases iok <;> cases ls <;> cases hb : blockedB blk.blockedUntil now <;> simp_all

/-! ## Message validity -/

def batOkB (s : Tracker) (now : Int) (m : Msg) : Bool :=
  (Tracker.isMessageReliable s now m) && (Tracker.isBatteryStateCorrect s now m) &&
    (Tracker.noCriticalError s now m) && (Tracker.isCapacityPresent s now m)

def invOkB (s : Tracker) (now : Int) (m : Msg) : Bool :=
  (Tracker.isMessageReliable s now m) && (Tracker.isInverterStateCorrect s now m) &&
    (Tracker.noCriticalError s now m)

theorem reliable_iff (s : Tracker) (now : Int) (m : Msg) :
    Tracker.isMessageReliable s now m = true ↔ now - m.timestamp ≤ s.maxDataAge := by
  unfold Tracker.isMessageReliable Tracker.isTimestampOutdated
  simp only [Bool.not_eq_true', decide_eq_false_iff_not, gt_iff_lt]
  omega

theorem noCritical_iff (s : Tracker) (now : Int) (m : Msg) :
    Tracker.noCriticalError s now m = true ↔ criticalLevel ∉ m.errorLevels := by
  unfold Tracker.noCriticalError criticalLevel
  by_cases h : "CRITICAL" ∈ m.errorLevels
  · have : (List.find? (fun err => err == "CRITICAL") m.errorLevels).isSome = true := by
      rw [List.find?_isSome]; exact ⟨_, h, by simp⟩
    simp [this, h]
  · have : (List.find? (fun err => err == "CRITICAL") m.errorLevels).isSome = false := by
      rw [Bool.eq_false_iff]; intro hc; rw [List.find?_isSome] at hc
      obtain ⟨x, hx, hp⟩ := hc; simp at hp; subst hp; exact h hx
    simp [this, h]

theorem batState_iff (s : Tracker) (now : Int) (m : Msg) :
    Tracker.isBatteryStateCorrect s now m = true ↔
      m.componentState ∈ batteryValidState ∧ m.relayState ∈ batteryValidRelay := by
  unfold Tracker.isBatteryStateCorrect
  by_cases h1 : m.componentState ∈ batteryValidState <;> by_cases h2 : m.relayState ∈ batteryValidRelay <;>
    simp [h1, h2]

theorem invState_iff (s : Tracker) (now : Int) (m : Msg) :
    Tracker.isInverterStateCorrect s now m = true ↔ m.componentState ∈ inverterValidState := by
  unfold Tracker.isInverterStateCorrect
  by_cases h1 : m.componentState ∈ inverterValidState <;> simp [h1]

theorem capacity_iff (s : Tracker) (now : Int) (m : Msg) :
    Tracker.isCapacityPresent s now m = true ↔ m.capacityIsNaN = false := by
  unfold Tracker.isCapacityPresent
  cases m.capacityIsNaN <;> simp

theorem batOkB_iff (s : Tracker) (now : Int) (m : Msg) :
    batOkB s now m = true ↔ (BatHealthy m ∧ now - m.timestamp ≤ s.maxDataAge) := by
  unfold batOkB BatHealthy
  simp only [Bool.and_eq_true, reliable_iff, batState_iff, noCritical_iff, capacity_iff]
  exact ⟨fun ⟨⟨⟨a, b, c⟩, d⟩, e⟩ => ⟨⟨b, c, d, e⟩, a⟩, fun ⟨⟨b, c, d, e⟩, a⟩ => ⟨⟨⟨a, b, c⟩, d⟩, e⟩⟩

theorem invOkB_iff (s : Tracker) (now : Int) (m : Msg) :
    invOkB s now m = true ↔ (InvHealthy m ∧ now - m.timestamp ≤ s.maxDataAge) := by
  unfold invOkB InvHealthy
  simp only [Bool.and_eq_true, reliable_iff, invState_iff, noCritical_iff]
  exact ⟨fun ⟨⟨a, b⟩, d⟩ => ⟨⟨b, d⟩, a⟩, fun ⟨⟨b, d⟩, a⟩ => ⟨⟨a, b⟩, d⟩⟩

/-! ## One iteration of the select loop, per kind of event -/

theorem sent_collapse {α β : Type} (a : α) (o : Option β) :
    (if o.isSome = true then (a, o) else (a, none)) = (a, o) := by
  cases o <;> simp

/-- State after `_handle_status_battery`. -/
def afterBat (s : Tracker) (now : Int) (m : Msg) : Tracker :=
  { s with battery := { lastMsgTimestamp := m.timestamp, lastMsgCorrect := batOkB s now m, timerResetAt := now } }

def afterInv (s : Tracker) (now : Int) (m : Msg) : Tracker :=
  { s with inverter := { lastMsgTimestamp := m.timestamp, lastMsgCorrect := invOkB s now m, timerResetAt := now } }

/-- Blocking state after `_handle_status_set_power_result`. -/
def spBlocking (s : Tracker) (now : Int) (r : SpResult) : Blocking :=
  if r.succeeded = true then { s.blocking with blockedUntil := none }
  else if r.failed = true ∧ s.lastStatus ≠ Status.notWorking then blockRef s.blocking now
  else s.blocking

theorem step_bat (s : Tracker) (now : Int) (m : Msg) :
    step s (.bat now m) = evalRef (afterBat s now m) now := by
  simp only [step, Event.now, Event.selected, Tracker.runIteration, getNew_eq, sent_collapse]
  rfl

theorem step_inv (s : Tracker) (now : Int) (m : Msg) :
    step s (.inv now m) = evalRef (afterInv s now m) now := by
  simp only [step, Event.now, Event.selected, Tracker.runIteration, getNew_eq, sent_collapse]
  rfl

theorem step_setPower (s : Tracker) (now : Int) (r : SpResult) :
    step s (.setPower now r) = evalRef { s with blocking := spBlocking s now r } now := by
  simp only [step, Event.now, Event.selected, Tracker.runIteration, getNew_eq, sent_collapse]
  have : Tracker.handleStatusSetPowerResult s now r = { s with blocking := spBlocking s now r } := by
    obtain ⟨ma, ls, blk, b, i⟩ := s
    unfold Tracker.handleStatusSetPowerResult spBlocking
    cases hs : r.succeeded <;> cases hf : r.failed <;> cases ls <;> simp [unblock_eq, block_eq]
  simp [this]

theorem step_batTimer (s : Tracker) (now : Int) :
    step s (.batTimer now) =
      if now - s.battery.lastMsgTimestamp < s.maxDataAge then (s, none)
      else evalRef { s with battery := { s.battery with lastMsgCorrect := false } } now := by
  simp only [step, Event.now, Event.selected, Tracker.runIteration, getNew_eq, sent_collapse]
  by_cases h : now - s.battery.lastMsgTimestamp < s.maxDataAge
  · simp [h]
  · have : Tracker.handleStatusBatteryTimer s now = { s with battery := { s.battery with lastMsgCorrect := false } } := by
      unfold Tracker.handleStatusBatteryTimer
      cases hc : s.battery.lastMsgCorrect <;> simp [← hc]
    simp [h, this]

theorem step_invTimer (s : Tracker) (now : Int) :
    step s (.invTimer now) =
      if now - s.inverter.lastMsgTimestamp < s.maxDataAge then (s, none)
      else evalRef { s with inverter := { s.inverter with lastMsgCorrect := false } } now := by
  simp only [step, Event.now, Event.selected, Tracker.runIteration, getNew_eq, sent_collapse]
  by_cases h : now - s.inverter.lastMsgTimestamp < s.maxDataAge
  · simp [h]
  · have : Tracker.handleStatusInverterTimer s now = { s with inverter := { s.inverter with lastMsgCorrect := false } } := by
      unfold Tracker.handleStatusInverterTimer
      cases hc : s.inverter.lastMsgCorrect <;> simp [← hc]
    simp [h, this]

end BatteryStatus
