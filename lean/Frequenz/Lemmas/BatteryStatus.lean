/-
Closed forms of the machine-translated tracker functions (C16).

Only the *entry points* of the translation exist as Lean definitions (`Blocking.block/unblock/isBlocked`, the five
`Tracker.handleStatus…`, `Tracker.getNewStatusIfChanged`, `Tracker.runIteration`): these are the seams the repo's own
tests call.  Private helpers of the current source (`_is_…`, `_get_current_status`, whatever a refactoring introduces)
are inlined by the translator, which emits every entry point as the canonical decision tree of what it computes
(`tools/extractors/battery_status.py`), so a behaviour-preserving rewrite of the Python source normally regenerates
the very same Lean text.  As a second line of defence every closed form below is proved by case analysis on the
*semantic* atoms (flags, status, optional deadline, comparisons) followed by simplification — not by matching the
syntactic shape of the translated term — so even a rewrite that does change the generated term (inverted conditions,
reordered branches, rearranged arithmetic) leaves the proofs intact, while a behavioural change makes them fail.
(`c16_unfold_helpers` only unfolds the library helper `optCmp` now.)
-/
import Frequenz.Model.BatteryStatus
import Mathlib.Tactic.SplitIfs

namespace BatteryStatus
open Extracted.BatteryStatus

/-- Closes a leaf goal after the case distinctions, whatever shape the translated function has. -/
macro "c16_leaf" : tactic =>
  `(tactic| first
      | rfl
      | (simp_all; done)
      | omega
      | grind
      | (simp_all <;> first | omega | grind)
      | ((repeat' split) <;> first | rfl | (simp_all; done) | omega | grind | (simp_all <;> first | omega | grind)))

/-- Is the optional deadline still in the future? -/
def blockedB (u : Option Int) (now : Int) : Bool :=
  match u with
  | none => false
  | some x => decide (now < x)

theorem pyMinInt_eq (a b : Int) : pyMinInt a b = min a b := by
  unfold pyMinInt; omega

theorem pyMaxInt_eq (a b : Int) : pyMaxInt a b = max a b := by
  unfold pyMaxInt; omega

/-! ## `BlockingStatus` -/

theorem isBlocked_eq (b : Blocking) (now : Int) : Blocking.isBlocked b now = blockedB b.blockedUntil now := by
  obtain ⟨mn, mx, ld, bu⟩ := b
  unfold Blocking.isBlocked
  cases bu with
  | none => c16_unfold_helpers <;> (try simp [blockedB, optCmp]) <;> c16_leaf
  | some u =>
    by_cases h : now < u <;> c16_unfold_helpers <;> (try simp [blockedB, optCmp, h]) <;> c16_leaf

theorem unblock_eq (b : Blocking) (now : Int) : Blocking.unblock b now = { b with blockedUntil := none } := by
  first
    | rfl
    | (obtain ⟨mn, mx, ld, bu⟩ := b; unfold Blocking.unblock; c16_unfold_helpers <;> (try simp) <;> c16_leaf)

/-- `BlockingStatus.block` in closed form. -/
def blockRef (b : Blocking) (now : Int) : Blocking :=
  match b.blockedUntil with
  | none => { b with lastBlockingDuration := b.minDuration, blockedUntil := some (now + b.minDuration) }
  | some u =>
    if now < u then b
    else
      let d := min (2 * b.lastBlockingDuration) b.maxDuration
      { b with lastBlockingDuration := d, blockedUntil := some (now + d) }

theorem block_eq (b : Blocking) (now : Int) : (Blocking.block b now).1 = blockRef b now := by
  obtain ⟨mn, mx, ld, bu⟩ := b
  unfold Blocking.block
  cases bu with
  | none => c16_unfold_helpers <;> (try simp [blockRef, optCmp, pyMinInt_eq, pyMaxInt_eq]) <;> c16_leaf
  | some u =>
    by_cases h : now < u <;> c16_unfold_helpers <;>
      (try simp [blockRef, optCmp, pyMinInt_eq, pyMaxInt_eq, h]) <;> c16_leaf

/-! ## `_get_new_status_if_changed` in closed form -/

def healthyB (s : Tracker) : Bool := s.battery.lastMsgCorrect && s.inverter.lastMsgCorrect

def curStatus (s : Tracker) (now : Int) : Status :=
  if healthyB s = true then
    if s.lastStatus = Status.notWorking then Status.working
    else if blockedB s.blocking.blockedUntil now = true then Status.uncertain else Status.working
  else Status.notWorking

def evalRef (s : Tracker) (now : Int) : Tracker × Option Status :=
  let c := curStatus s now
  let blk := if healthyB s = true ∧ s.lastStatus = Status.notWorking
    then { s.blocking with blockedUntil := none } else s.blocking
  ({ s with lastStatus := c, blocking := blk }, if s.lastStatus = c then none else some c)

theorem getNew_eq (s : Tracker) (now : Int) : Tracker.getNewStatusIfChanged s now = evalRef s now := by
  obtain ⟨ma, ls, blk, ⟨bts, bok, bra⟩, ⟨its, iok, ira⟩⟩ := s
  unfold Tracker.getNewStatusIfChanged
  cases bok <;> cases iok <;> cases ls <;> cases hb : blockedB blk.blockedUntil now <;>
    c16_unfold_helpers <;>
    (try simp [isBlocked_eq, unblock_eq, evalRef, curStatus, healthyB, hb]) <;> c16_leaf

/-! ## Message validity -/

/-- The latest-message flag the handlers must compute: healthy facts and not older than `maxDataAge` on arrival. -/
def batOkB (s : Tracker) (now : Int) (m : Msg) : Bool :=
  decide (BatHealthy m ∧ now - m.timestamp ≤ s.maxDataAge)

def invOkB (s : Tracker) (now : Int) (m : Msg) : Bool :=
  decide (InvHealthy m ∧ now - m.timestamp ≤ s.maxDataAge)

theorem batOkB_iff (s : Tracker) (now : Int) (m : Msg) :
    batOkB s now m = true ↔ (BatHealthy m ∧ now - m.timestamp ≤ s.maxDataAge) := by
  simp [batOkB]

theorem invOkB_iff (s : Tracker) (now : Int) (m : Msg) :
    invOkB s now m = true ↔ (InvHealthy m ∧ now - m.timestamp ≤ s.maxDataAge) := by
  simp [invOkB]

/-- Searching a list of levels for a given one (`next((e for e in errors if e.level == c), None)`). -/
theorem find_level_isSome (xs : List String) (c : String) :
    (xs.find? (fun e => e == c)).isSome = decide (c ∈ xs) := by
  by_cases h : c ∈ xs
  · have : (List.find? (fun e => e == c) xs).isSome = true := by
      rw [List.find?_isSome]; exact ⟨_, h, by simp⟩
    simp [this, h]
  · have : (List.find? (fun e => e == c) xs).isSome = false := by
      rw [Bool.eq_false_iff]; intro hc; rw [List.find?_isSome] at hc
      obtain ⟨x, hx, hp⟩ := hc; simp at hp; subst hp; exact h hx
    simp [this, h]

theorem find_level_isNone (xs : List String) (c : String) :
    (xs.find? (fun e => e == c)).isNone = decide (c ∉ xs) := by
  have := find_level_isSome xs c
  cases h : List.find? (fun e => e == c) xs <;> simp_all

/-- State after `_handle_status_battery`. -/
def afterBat (s : Tracker) (now : Int) (m : Msg) : Tracker :=
  { s with battery := { lastMsgTimestamp := m.timestamp, lastMsgCorrect := batOkB s now m, timerResetAt := now } }

def afterInv (s : Tracker) (now : Int) (m : Msg) : Tracker :=
  { s with inverter := { lastMsgTimestamp := m.timestamp, lastMsgCorrect := invOkB s now m, timerResetAt := now } }

theorem handleBat_eq (s : Tracker) (now : Int) (m : Msg) :
    Tracker.handleStatusBattery s now m = afterBat s now m := by
  obtain ⟨ma, ls, blk, ⟨bts, bok, bra⟩, inv⟩ := s
  obtain ⟨ts, cs, rs, errs, nan⟩ := m
  unfold Tracker.handleStatusBattery
  by_cases h1 : now - ts ≤ ma <;> by_cases h2 : cs ∈ batteryValidState <;> by_cases h3 : rs ∈ batteryValidRelay <;>
    by_cases h4 : "CRITICAL" ∈ errs <;> cases nan <;>
    c16_unfold_helpers <;>
    (try simp [afterBat, batOkB, BatHealthy, criticalLevel, find_level_isSome, find_level_isNone, h1, h2, h3, h4]) <;>
    c16_leaf

theorem handleInv_eq (s : Tracker) (now : Int) (m : Msg) :
    Tracker.handleStatusInverter s now m = afterInv s now m := by
  obtain ⟨ma, ls, blk, bat, ⟨its, iok, ira⟩⟩ := s
  obtain ⟨ts, cs, rs, errs, nan⟩ := m
  unfold Tracker.handleStatusInverter
  by_cases h1 : now - ts ≤ ma <;> by_cases h2 : cs ∈ inverterValidState <;> by_cases h4 : "CRITICAL" ∈ errs <;>
    c16_unfold_helpers <;>
    (try simp [afterInv, invOkB, InvHealthy, criticalLevel, find_level_isSome, find_level_isNone, h1, h2, h4]) <;>
    c16_leaf

/-- Blocking state after `_handle_status_set_power_result`. -/
def spBlocking (s : Tracker) (now : Int) (r : SpResult) : Blocking :=
  if r.succeeded = true then { s.blocking with blockedUntil := none }
  else if r.failed = true ∧ s.lastStatus ≠ Status.notWorking then blockRef s.blocking now
  else s.blocking

theorem handleSp_eq (s : Tracker) (now : Int) (r : SpResult) :
    Tracker.handleStatusSetPowerResult s now r = { s with blocking := spBlocking s now r } := by
  obtain ⟨ma, ls, blk, b, i⟩ := s
  obtain ⟨succ, fail⟩ := r
  unfold Tracker.handleStatusSetPowerResult
  cases succ <;> cases fail <;> cases ls <;>
    c16_unfold_helpers <;> (try simp [unblock_eq, block_eq, spBlocking]) <;> c16_leaf

theorem handleBatTimer_eq (s : Tracker) (now : Int) :
    Tracker.handleStatusBatteryTimer s now = { s with battery := { s.battery with lastMsgCorrect := false } } := by
  obtain ⟨ma, ls, blk, ⟨bts, bok, bra⟩, i⟩ := s
  unfold Tracker.handleStatusBatteryTimer
  cases bok <;> c16_unfold_helpers <;> (try simp) <;> c16_leaf

theorem handleInvTimer_eq (s : Tracker) (now : Int) :
    Tracker.handleStatusInverterTimer s now = { s with inverter := { s.inverter with lastMsgCorrect := false } } := by
  obtain ⟨ma, ls, blk, b, ⟨its, iok, ira⟩⟩ := s
  unfold Tracker.handleStatusInverterTimer
  cases iok <;> c16_unfold_helpers <;> (try simp) <;> c16_leaf

/-! ## One iteration of the select loop, per kind of event -/

theorem step_bat (s : Tracker) (now : Int) (m : Msg) :
    step s (.bat now m) = evalRef (afterBat s now m) now := by
  simp only [step, Event.now, Event.selected]
  unfold Tracker.runIteration
  cases h : (evalRef (afterBat s now m) now).2 <;>
    c16_unfold_helpers <;> (try simp [handleBat_eq, getNew_eq, h]) <;> c16_leaf

theorem step_inv (s : Tracker) (now : Int) (m : Msg) :
    step s (.inv now m) = evalRef (afterInv s now m) now := by
  simp only [step, Event.now, Event.selected]
  unfold Tracker.runIteration
  cases h : (evalRef (afterInv s now m) now).2 <;>
    c16_unfold_helpers <;> (try simp [handleInv_eq, getNew_eq, h]) <;> c16_leaf

theorem step_setPower (s : Tracker) (now : Int) (r : SpResult) :
    step s (.setPower now r) = evalRef { s with blocking := spBlocking s now r } now := by
  simp only [step, Event.now, Event.selected]
  unfold Tracker.runIteration
  cases h : (evalRef { s with blocking := spBlocking s now r } now).2 <;>
    c16_unfold_helpers <;> (try simp [handleSp_eq, getNew_eq, h]) <;> c16_leaf

theorem step_batTimer (s : Tracker) (now : Int) :
    step s (.batTimer now) =
      if now - s.battery.lastMsgTimestamp < s.maxDataAge then (s, none)
      else evalRef { s with battery := { s.battery with lastMsgCorrect := false } } now := by
  simp only [step, Event.now, Event.selected]
  unfold Tracker.runIteration
  by_cases hg : now - s.battery.lastMsgTimestamp < s.maxDataAge
  · c16_unfold_helpers <;> (try simp [hg]) <;> c16_leaf
  · cases h : (evalRef { s with battery := { s.battery with lastMsgCorrect := false } } now).2 <;>
      c16_unfold_helpers <;> (try simp [handleBatTimer_eq, getNew_eq, hg, h]) <;> c16_leaf

theorem step_invTimer (s : Tracker) (now : Int) :
    step s (.invTimer now) =
      if now - s.inverter.lastMsgTimestamp < s.maxDataAge then (s, none)
      else evalRef { s with inverter := { s.inverter with lastMsgCorrect := false } } now := by
  simp only [step, Event.now, Event.selected]
  unfold Tracker.runIteration
  by_cases hg : now - s.inverter.lastMsgTimestamp < s.maxDataAge
  · c16_unfold_helpers <;> (try simp [hg]) <;> c16_leaf
  · cases h : (evalRef { s with inverter := { s.inverter with lastMsgCorrect := false } } now).2 <;>
      c16_unfold_helpers <;> (try simp [handleInvTimer_eq, getNew_eq, hg, h]) <;> c16_leaf

end BatteryStatus
