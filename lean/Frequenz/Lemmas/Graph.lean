/-
Helper lemmas for C12 (`Frequenz/Props/C12.lean`): sums over component trees.
-/
import Frequenz.Model.Graph

namespace Graph
open Extracted.Graph

/-! ### list sums over `Rat` -/

theorem sum_append_rat (a b : List Rat) : (a ++ b).sum = a.sum + b.sum := by
  simp

theorem sumEnv_nil (env : Nat → Rat) : sumEnv env [] = 0 := by simp [sumEnv]

theorem sumEnv_cons (env : Nat → Rat) (n : Node) (ns : List Node) :
    sumEnv env (n :: ns) = env n.id + sumEnv env ns := by simp [sumEnv]

theorem evalTerms_nil (env : Nat → Rat) : evalTerms env [] = 0 := by simp [evalTerms]

theorem evalTerms_cons (env : Nat → Rat) (t : Term) (ts : List Term) :
    evalTerms env (t :: ts) = t.eval env + evalTerms env ts := by simp [evalTerms]

theorem evalTerms_append (env : Nat → Rat) (a b : List Term) :
    evalTerms env (a ++ b) = evalTerms env a + evalTerms env b := by
  simp [evalTerms]

/-! ### a component reads the total of what is below it -/

def allDev : Node → Bool := fun _ => true

mutual
theorem read_eq_total (env load : Nat → Rat) : (n : Node) → n.law env load = true →
    env n.id = n.devSum allDev env + n.loadSum load
  | .meter id cs, h => by
    simp only [Node.law, Bool.and_eq_true, decide_eq_true_eq] at h
    have h2 := sumEnv_eq_total env load cs h.2
    simp only [Node.id, Node.devSum, Node.loadSum]
    grind
  | .batInv _ _, _ => by simp only [Node.devSum, Node.loadSum, Node.id, allDev, if_true]; grind
  | .pvInv _, _ => by simp only [Node.devSum, Node.loadSum, Node.id, allDev, if_true]; grind
  | .ev _, _ => by simp only [Node.devSum, Node.loadSum, Node.id, allDev, if_true]; grind
  | .chp _, _ => by simp only [Node.devSum, Node.loadSum, Node.id, allDev, if_true]; grind
theorem sumEnv_eq_total (env load : Nat → Rat) : (ns : List Node) → lawL env load ns = true →
    sumEnv env ns = devSumL allDev env ns + loadSumL load ns
  | [], _ => by simp only [sumEnv_nil, devSumL, loadSumL]; grind
  | n :: ns, h => by
    simp only [lawL, Bool.and_eq_true] at h
    have h1 := read_eq_total env load n h.1
    have h2 := sumEnv_eq_total env load ns h.2
    simp only [sumEnv_cons, devSumL, loadSumL]
    grind
end

/-! ### facts about the extracted tables, on the model's node kinds -/

theorem leafTest_pv (n : Node) : leafTest .pvInverter n = n.isPv := by cases n <;> rfl
theorem leafTest_bat (n : Node) : leafTest .batteryInverter n = n.isBat := by cases n <;> rfl
theorem leafTest_ev (n : Node) : leafTest .evCharger n = n.isEv := by cases n <;> rfl
theorem leafTest_chp (n : Node) : leafTest .chp n = n.isChp := by cases n <;> rfl

theorem leafTest_meter (l : Leaf) (id : Nat) (cs : List Node) : leafTest l (.meter id cs) = false := by
  cases l <;> rfl

theorem leafTest_isMeter (l : Leaf) (n : Node) (h : leafTest l n = true) : n.isMeter = false := by
  cases n with
  | meter id cs => rw [leafTest_meter] at h; cases h
  | _ => rfl

theorem isGridMeter_below (cs : List Node) (n : Node) : isGridMeter (belowMeter cs) n = false := by
  simp [isGridMeter, belowMeter, gridMeterSpec]

theorem meterPred_device (m : MeterPred) (pos : Pos) (n : Node) (h : n.isMeter = false) :
    meterPred m pos n = false := by
  cases n <;> cases m <;> first | rfl | (simp [Node.isMeter] at h)

theorem meter_is_primary (id : Nat) (cs : List Node) : ((Node.meter id cs).cat == fallbackPrimaryCat) = true := rfl

theorem device_not_primary (n : Node) (h : n.isMeter = false) : (n.cat == fallbackPrimaryCat) = false := by
  cases n <;> first | rfl | (simp [Node.isMeter] at h)

/-- What a true `is_*_meter` says about the successors. -/
theorem meterPred_meter (m : MeterPred) (pos : Pos) (id : Nat) (cs : List Node)
    (h : meterPred m pos (.meter id cs) = true) :
    cs ≠ [] ∧ cs.all (leafTest m.spec.leaf) = true := by
  cases m <;>
    simp only [meterPred, MeterPred.spec, pvMeterSpec, batteryMeterSpec, evChargerMeterSpec, chpMeterSpec,
      Node.children, Bool.and_eq_true, Bool.or_eq_true, Bool.not_eq_true', Bool.not_true, Bool.false_eq_true,
      false_or] at h <;>
    exact ⟨by simpa using h.1.2, h.2⟩

theorem chain_leaf_spec (c : Chain) : c.parts.2.spec.leaf = c.parts.1 := by cases c <;> rfl

/-- The meter predicate paired with a leaf predicate in `_is_primary_fallback_pair`. -/
def pairedMeter : Leaf → MeterPred
  | .pvInverter => .pvMeter
  | .batteryInverter => .batteryMeter
  | .evCharger => .evChargerMeter
  | .chp => .chpMeter

theorem pairedMeter_leaf (l : Leaf) : (pairedMeter l).spec.leaf = l := by cases l <;> rfl
theorem chain_paired (c : Chain) : pairedMeter c.parts.1 = c.parts.2 := by cases c <;> rfl

/-- Leaf tests are mutually exclusive. -/
theorem leafTest_unique (l l' : Leaf) (n : Node) (h : leafTest l n = true) (h' : leafTest l' n = true) : l = l' := by
  cases n <;> cases l <;> cases l' <;>
    simp_all [leafTest_pv, leafTest_bat, leafTest_ev, leafTest_chp, Node.isPv, Node.isBat, Node.isEv, Node.isChp]

/-- `_is_primary_fallback_pair(p, c)` for a component `c` of leaf kind `l`. -/
theorem pair_of_leaf (l : Leaf) (ppos : Pos) (p c : Node) (h : leafTest l c = true) :
    isPrimaryFallbackPair ppos p c = meterPred (pairedMeter l) ppos p := by
  have e : ∀ l', leafTest l' c = decide (l' = l) := by
    intro l'
    by_cases hl : l' = l
    · subst hl; simp [h]
    · have : leafTest l' c ≠ true := fun h' => hl (leafTest_unique _ _ _ h' h)
      simp [hl, this]
  simp only [isPrimaryFallbackPair, primaryFallbackPairs, List.any_cons, List.any_nil, e]
  cases l <;> simp [pairedMeter]

theorem pair_of_nonleaf (ppos : Pos) (p c : Node) (h : ∀ l, leafTest l c = false) :
    isPrimaryFallbackPair ppos p c = false := by
  simp [isPrimaryFallbackPair, primaryFallbackPairs, h]

/-- Successors that all pass one leaf test make the meter dedicated (by shape). -/
theorem dedicated_of_leaf (l : Leaf) (cs : List Node) (hne : cs ≠ []) (h : cs.all (leafTest l) = true) :
    dedicated cs = true := by
  have hne' : cs.isEmpty = false := by simpa using hne
  cases l
  · have : cs.all Node.isPv = true := by simpa [leafTest_pv] using h
    simp [dedicated, dedicatedTo, hne', this]
  · have : cs.all Node.isBat = true := by simpa [leafTest_bat] using h
    simp [dedicated, dedicatedTo, hne', this]
  · have : cs.all Node.isEv = true := by simpa [leafTest_ev] using h
    simp [dedicated, dedicatedTo, hne', this]
  · have : cs.all Node.isChp = true := by simpa [leafTest_chp] using h
    simp [dedicated, dedicatedTo, hne', this]

/-! ### sums of primaries, agreement of fallbacks -/

def sumPrim (env : Nat → Rat) (l : List (Node × List Node)) : Rat := (l.map (fun pf => env pf.1.id)).sum

theorem sumPrim_nil (env : Nat → Rat) : sumPrim env [] = 0 := by simp [sumPrim]
theorem sumPrim_cons (env : Nat → Rat) (a : Node × List Node) (l : List (Node × List Node)) :
    sumPrim env (a :: l) = env a.1.id + sumPrim env l := by simp [sumPrim]
theorem sumPrim_append (env : Nat → Rat) (a b : List (Node × List Node)) :
    sumPrim env (a ++ b) = sumPrim env a + sumPrim env b := by simp [sumPrim]

/-- Every fallback set present sums to what its primary reads. -/
def fbOk (env : Nat → Rat) (l : List (Node × List Node)) : Prop :=
  ∀ pf ∈ l, pf.2 = [] ∨ sumEnv env pf.2 = env pf.1.id

theorem fbOk_nil (env : Nat → Rat) : fbOk env [] := by intro pf h; cases h
theorem fbOk_append (env : Nat → Rat) (a b : List (Node × List Node)) (ha : fbOk env a) (hb : fbOk env b) :
    fbOk env (a ++ b) := by
  intro pf h
  rcases List.mem_append.mp h with h | h
  · exact ha pf h
  · exact hb pf h
theorem fbOk_cons (env : Nat → Rat) (a : Node × List Node) (l : List (Node × List Node))
    (ha : a.2 = [] ∨ sumEnv env a.2 = env a.1.id) (hl : fbOk env l) : fbOk env (a :: l) := by
  intro pf h
  rcases List.mem_cons.mp h with h | h
  · subst h; exact ha
  · exact hl pf h

theorem sumEnv_devices (k : Node → Bool) (env : Nat → Rat) (cs : List Node)
    (h : cs.all (fun c => !c.isMeter && k c) = true) : sumEnv env cs = devSumL k env cs := by
  induction cs with
  | nil => simp [sumEnv, devSumL]
  | cons c cs ih =>
    simp only [List.all_cons, Bool.and_eq_true, Bool.not_eq_true'] at h
    have := ih h.2
    rw [sumEnv_cons, devSumL, this]
    cases c <;> simp_all [Node.isMeter, Node.devSum, Node.id]

theorem meter_reads_children (env load : Nat → Rat) (id : Nat) (cs : List Node)
    (hl : (Node.meter id cs).law env load = true) (hn : (Node.meter id cs).noLoadAtDedicated load = true)
    (hd : dedicated cs = true) : env id = sumEnv env cs := by
  simp only [Node.law, Bool.and_eq_true, decide_eq_true_eq] at hl
  simp only [Node.noLoadAtDedicated, Bool.and_eq_true, Bool.or_eq_true, Bool.not_eq_true', decide_eq_true_eq] at hn
  have : load id = 0 := by
    rcases hn.1 with h | h
    · rw [hd] at h; cases h
    · exact h
  grind

theorem meterFallback_ok (env load : Nat → Rat) (id : Nat) (cs : List Node)
    (hl : (Node.meter id cs).law env load = true) (hn : (Node.meter id cs).noLoadAtDedicated load = true) :
    meterFallback (.meter id cs) = [] ∨ sumEnv env (meterFallback (.meter id cs)) = env id := by
  unfold meterFallback
  split
  · rename_i h
    by_cases hne : cs = []
    · left; simpa [Node.children] using hne
    · right
      simp only [Node.children]
      obtain ⟨l, _, hl'⟩ := List.any_eq_true.mp h
      exact (meter_reads_children env load id cs hl hn (dedicated_of_leaf l cs hne hl')).symm
  · left; rfl

theorem primaryOf_meter (id : Nat) (cs : List Node) (pos : Pos) (parent : Option (Node × Pos)) :
    primaryOf ⟨.meter id cs, pos, parent⟩ = (.meter id cs, meterFallback (.meter id cs)) := by
  simp [primaryOf, meter_is_primary]

theorem primaryOf_device (n : Node) (pos : Pos) (parent : Option (Node × Pos)) (h : n.isMeter = false)
    (hp : ∀ p ppos, parent = some (p, ppos) → isPrimaryFallbackPair ppos p n = false) :
    primaryOf ⟨n, pos, parent⟩ = (n, []) := by
  simp only [primaryOf, device_not_primary n h]
  cases parent with
  | none => simp
  | some pp =>
    obtain ⟨p, ppos⟩ := pp
    simp [hp p ppos rfl]

theorem dfs_device (cond : Pos → Node → Bool) (pos : Pos) (parent : Option (Node × Pos)) (n : Node)
    (h : n.isMeter = false) : dfs cond pos parent n = if cond pos n then [⟨n, pos, parent⟩] else [] := by
  cases n with
  | meter id cs => simp [Node.isMeter] at h
  | _ => simp [dfs]

theorem devSum_device (k : Node → Bool) (env : Nat → Rat) (n : Node) (h : n.isMeter = false) :
    n.devSum k env = if k n then env n.id else 0 := by
  cases n with
  | meter id cs => simp [Node.isMeter] at h
  | _ => simp [Node.devSum, Node.id]

/-- What a `dfs` condition built from `is_*_chain` predicates must satisfy, for the device kinds `k`. -/
structure CondSpec (cond : Pos → Node → Bool) (k : Node → Bool) : Prop where
  dev : ∀ pos n, n.isMeter = false → cond pos n = k n
  meter : ∀ pos id cs, cond pos (.meter id cs) = true →
    dedicated cs = true ∧ cs.all (fun c => !c.isMeter && k c) = true
  pair : ∀ ppos p pos c, cond ppos p = false → cond pos c = true → c.isMeter = false →
    isPrimaryFallbackPair ppos p c = false

theorem dfs_sum_device {cond : Pos → Node → Bool} {k : Node → Bool} (hc : CondSpec cond k) (env : Nat → Rat)
    (n : Node) (h : n.isMeter = false) (pos : Pos) (parent : Option (Node × Pos))
    (hp : ∀ p ppos, parent = some (p, ppos) → cond ppos p = false) :
    sumPrim env ((dfs cond pos parent n).map primaryOf) = n.devSum k env
      ∧ fbOk env ((dfs cond pos parent n).map primaryOf) := by
  rw [dfs_device cond pos parent n h, devSum_device k env n h, ← hc.dev pos n h]
  by_cases hcn : cond pos n = true
  · have := primaryOf_device n pos parent h (fun p ppos e => hc.pair ppos p pos n (hp p ppos e) hcn h)
    simp only [hcn, if_true, List.map_cons, List.map_nil, this, sumPrim_cons, sumPrim_nil]
    refine ⟨by grind, fbOk_cons _ _ _ (Or.inl rfl) (fbOk_nil _)⟩
  · have hcf : cond pos n = false := by simpa using hcn
    simp only [hcf, Bool.false_eq_true, if_false, List.map_nil]
    exact ⟨sumPrim_nil env, fbOk_nil _⟩

mutual
theorem dfs_sum {cond : Pos → Node → Bool} {k : Node → Bool} (hc : CondSpec cond k) (env load : Nat → Rat) :
    (n : Node) → (pos : Pos) → (parent : Option (Node × Pos)) →
    (∀ p ppos, parent = some (p, ppos) → cond ppos p = false) →
    n.law env load = true → n.noLoadAtDedicated load = true →
    sumPrim env ((dfs cond pos parent n).map primaryOf) = n.devSum k env
      ∧ fbOk env ((dfs cond pos parent n).map primaryOf)
  | .meter id cs, pos, parent, hp, hl, hn => by
    by_cases hcn : cond pos (.meter id cs) = true
    · obtain ⟨hd, hall⟩ := hc.meter pos id cs hcn
      simp only [dfs, hcn, if_true, List.map_cons, List.map_nil, primaryOf_meter, sumPrim_cons, sumPrim_nil,
        Node.devSum, Node.id]
      refine ⟨?_, fbOk_cons _ _ _ (meterFallback_ok env load id cs hl hn) (fbOk_nil _)⟩
      rw [← sumEnv_devices k env cs hall, meter_reads_children env load id cs hl hn hd]
      grind
    · have hcf : cond pos (.meter id cs) = false := by simpa using hcn
      simp only [Node.law, Bool.and_eq_true] at hl
      simp only [Node.noLoadAtDedicated, Bool.and_eq_true] at hn
      have := dfsL_sum hc env load cs (belowMeter cs) (some (.meter id cs, pos))
        (by intro p ppos e; cases e; exact hcf) hl.2 hn.2
      simpa only [dfs, hcf, Bool.false_eq_true, if_false, Node.devSum] using this
  | .batInv id bs, pos, parent, hp, _, _ => dfs_sum_device hc env (.batInv id bs) rfl pos parent hp
  | .pvInv id, pos, parent, hp, _, _ => dfs_sum_device hc env (.pvInv id) rfl pos parent hp
  | .ev id, pos, parent, hp, _, _ => dfs_sum_device hc env (.ev id) rfl pos parent hp
  | .chp id, pos, parent, hp, _, _ => dfs_sum_device hc env (.chp id) rfl pos parent hp
theorem dfsL_sum {cond : Pos → Node → Bool} {k : Node → Bool} (hc : CondSpec cond k) (env load : Nat → Rat) :
    (ns : List Node) → (pos : Pos) → (parent : Option (Node × Pos)) →
    (∀ p ppos, parent = some (p, ppos) → cond ppos p = false) →
    lawL env load ns = true → noLoadAtDedicatedL load ns = true →
    sumPrim env ((dfsL cond pos parent ns).map primaryOf) = devSumL k env ns
      ∧ fbOk env ((dfsL cond pos parent ns).map primaryOf)
  | [], _, _, _, _, _ => by
    simp only [dfsL, List.map_nil, sumPrim_nil, devSumL]
    exact ⟨trivial, fbOk_nil _⟩
  | n :: ns, pos, parent, hp, hl, hn => by
    simp only [lawL, Bool.and_eq_true] at hl
    simp only [noLoadAtDedicatedL, Bool.and_eq_true] at hn
    obtain ⟨h1, f1⟩ := dfs_sum hc env load n pos parent hp hl.1 hn.1
    obtain ⟨h2, f2⟩ := dfsL_sum hc env load ns pos parent hp hl.2 hn.2
    simp only [dfsL, List.map_append, sumPrim_append, devSumL, h1, h2]
    exact ⟨trivial, fbOk_append _ _ _ f1 f2⟩
end

/-! ### the `dfs` conditions built from chains satisfy `CondSpec` -/

/-- Device kinds accepted by `anyChain K`. -/
def kindOf (K : List Chain) (n : Node) : Bool := K.any (fun c => leafTest c.parts.1 n)

theorem chain_device (c : Chain) (pos : Pos) (n : Node) (h : n.isMeter = false) :
    chain c pos n = leafTest c.parts.1 n := by simp [chain, meterPred_device _ _ _ h]

theorem chain_meter (c : Chain) (pos : Pos) (id : Nat) (cs : List Node) :
    chain c pos (.meter id cs) = meterPred c.parts.2 pos (.meter id cs) := by simp [chain, leafTest_meter]

theorem anyChain_device (K : List Chain) (pos : Pos) (n : Node) (h : n.isMeter = false) :
    anyChain K pos n = kindOf K n := by
  induction K with
  | nil => rfl
  | cons c K ih => simp only [anyChain, kindOf, List.any_cons] at ih ⊢; rw [ih, chain_device c pos n h]

theorem condSpec_anyChain (K : List Chain) : CondSpec (anyChain K) (kindOf K) where
  dev := fun pos n h => anyChain_device K pos n h
  meter := by
    intro pos id cs h
    obtain ⟨c, hcK, hc⟩ := List.any_eq_true.mp h
    rw [chain_meter] at hc
    obtain ⟨hne, hall⟩ := meterPred_meter _ _ _ _ hc
    rw [chain_leaf_spec] at hall
    refine ⟨dedicated_of_leaf _ cs hne hall, ?_⟩
    rw [List.all_eq_true] at hall ⊢
    intro x hx
    have hx' := hall x hx
    have : kindOf K x = true := List.any_eq_true.mpr ⟨c, hcK, hx'⟩
    simp [leafTest_isMeter _ _ hx', this]
  pair := by
    intro ppos p pos c hf ht hdev
    rw [anyChain_device K pos c hdev] at ht
    obtain ⟨ch, hK, hch⟩ := List.any_eq_true.mp ht
    rw [pair_of_leaf _ ppos p c hch, chain_paired]
    have hfc : chain ch ppos p = false := by
      have := List.any_eq_false.mp hf ch hK
      simpa using this
    simp only [chain, Bool.or_eq_false_iff] at hfc
    exact hfc.2

/-! ### algebra of `devSum` -/

mutual
theorem devSum_congr (k k' : Node → Bool) (env : Nat → Rat) (h : ∀ n, n.isMeter = false → k n = k' n) :
    (n : Node) → n.devSum k env = n.devSum k' env
  | .meter _ cs => by simp only [Node.devSum]; exact devSumL_congr k k' env h cs
  | .batInv id bs => by simp only [Node.devSum, h (.batInv id bs) rfl]
  | .pvInv id => by simp only [Node.devSum, h (.pvInv id) rfl]
  | .ev id => by simp only [Node.devSum, h (.ev id) rfl]
  | .chp id => by simp only [Node.devSum, h (.chp id) rfl]
theorem devSumL_congr (k k' : Node → Bool) (env : Nat → Rat) (h : ∀ n, n.isMeter = false → k n = k' n) :
    (ns : List Node) → devSumL k env ns = devSumL k' env ns
  | [] => rfl
  | n :: ns => by simp only [devSumL, devSum_congr k k' env h n, devSumL_congr k k' env h ns]
end

theorem ite_or_rat (a b : Bool) (x : Rat) (h : a = true → b = false) :
    (if (a || b) = true then x else 0) = (if a = true then x else 0) + (if b = true then x else 0) := by
  cases a <;> cases b <;> simp_all <;> grind

mutual
theorem devSum_add (k1 k2 : Node → Bool) (env : Nat → Rat) (hd : ∀ n, k1 n = true → k2 n = false) :
    (n : Node) → n.devSum (fun x => k1 x || k2 x) env = n.devSum k1 env + n.devSum k2 env
  | .meter _ cs => by simp only [Node.devSum]; exact devSumL_add k1 k2 env hd cs
  | .batInv id bs => by
    simp only [Node.devSum]; exact ite_or_rat _ _ _ (hd (.batInv id bs))
  | .pvInv id => by
    simp only [Node.devSum]; exact ite_or_rat _ _ _ (hd (.pvInv id))
  | .ev id => by
    simp only [Node.devSum]; exact ite_or_rat _ _ _ (hd (.ev id))
  | .chp id => by
    simp only [Node.devSum]; exact ite_or_rat _ _ _ (hd (.chp id))
theorem devSumL_add (k1 k2 : Node → Bool) (env : Nat → Rat) (hd : ∀ n, k1 n = true → k2 n = false) :
    (ns : List Node) → devSumL (fun x => k1 x || k2 x) env ns = devSumL k1 env ns + devSumL k2 env ns
  | [] => by simp only [devSumL]; grind
  | n :: ns => by
    simp only [devSumL, devSum_add k1 k2 env hd n, devSumL_add k1 k2 env hd ns]; grind
end

/-! ### from primaries to terms -/

theorem mkTerm_eval (env : Nat → Rat) (neg : Bool) (nz fnz : Naz) (pf : Node × List Node) :
    (mkTerm neg nz fnz pf).eval env = if neg then - env pf.1.id else env pf.1.id := rfl

theorem evalTerms_mkTerm_pos (env : Nat → Rat) (nz fnz : Naz) (l : List (Node × List Node)) :
    evalTerms env (l.map (mkTerm false nz fnz)) = sumPrim env l := by
  induction l with
  | nil => rfl
  | cons a l ih => simp only [List.map_cons, evalTerms_cons, sumPrim_cons, ih, mkTerm_eval]; rfl

theorem evalTerms_mkTerm_neg (env : Nat → Rat) (nz fnz : Naz) (l : List (Node × List Node)) :
    evalTerms env (l.map (mkTerm true nz fnz)) = - sumPrim env l := by
  induction l with
  | nil => simp only [List.map_nil, evalTerms_nil, sumPrim_nil]; grind
  | cons a l ih => simp only [List.map_cons, evalTerms_cons, sumPrim_cons, ih, mkTerm_eval]; grind

theorem mkTerm_fbEval (env : Nat → Rat) (neg : Bool) (nz fnz : Naz) (pf : Node × List Node) :
    (mkTerm neg nz fnz pf).fbEval env = sumEnv env pf.2 := by
  simp [Term.fbEval, mkTerm, sumEnv, List.map_map, Function.comp_def]

theorem fallbacksAgree_mkTerm (env : Nat → Rat) (neg : Bool) (nz fnz : Naz) (l : List (Node × List Node))
    (h : fbOk env l) : fallbacksAgree env (l.map (mkTerm neg nz fnz)) = true := by
  simp only [fallbacksAgree, List.all_eq_true, List.mem_map]
  rintro t ⟨pf, hpf, rfl⟩
  rcases h pf hpf with h0 | h1
  · simp [mkTerm, h0]
  · have e := mkTerm_fbEval env neg nz fnz pf
    simp only [Bool.or_eq_true, beq_iff_eq]
    right; rw [e, h1]; rfl

theorem fallbacksAgree_append (env : Nat → Rat) (a b : List Term) (ha : fallbacksAgree env a = true)
    (hb : fallbacksAgree env b = true) : fallbacksAgree env (a ++ b) = true := by
  simp only [fallbacksAgree, List.all_append, Bool.and_eq_true] at *
  exact ⟨ha, hb⟩

end Graph
