/-
C10 — several actors and `run(*actors)`: invariants of `Sys.step` over every event list.
-/
import Frequenz.Lemmas.ActorInv

namespace Actor

/-- Calls keep their index and kind, and a finished call stays finished (with the same result). -/
def CallerMono (s s' : Svc) : Prop :=
  ∀ (c : Nat) (cl : Caller), s.callers[c]? = some cl → ∃ cl' : Caller, s'.callers[c]? = some cl' ∧ cl'.kind = cl.kind ∧
    (∀ r tm n, cl.st = .finished r tm n → cl'.st = .finished r tm n)

theorem CallerMono_refl (s : Svc) : CallerMono s s := fun _ cl h => ⟨cl, h, rfl, fun _ _ _ h => h⟩

theorem CallerMono_of_eq {s s' : Svc} (h : s'.callers = s.callers) : CallerMono s s' := by
  intro c cl hc; exact ⟨cl, by rw [h]; exact hc, rfl, fun _ _ _ h => h⟩

theorem CallerMono_trans {a b c : Svc} (h1 : CallerMono a b) (h2 : CallerMono b c) : CallerMono a c := by
  intro i cl hi
  obtain ⟨cl1, h11, h12, h13⟩ := h1 i cl hi
  obtain ⟨cl2, h21, h22, h23⟩ := h2 i cl1 h11
  exact ⟨cl2, h21, h22.trans h12, fun r tm n h => h23 r tm n (h13 r tm n h)⟩

theorem start_callers (s : Svc) : s.start.callers = s.callers := by
  unfold Svc.start; split <;> rfl

theorem call_callerMono (s : Svc) (k : CallKind) : CallerMono s (s.call k) := by
  intro c cl hc
  have hlt : c < s.callers.length := by
    rcases Nat.lt_or_ge c s.callers.length with h | h
    · exact h
    · rw [List.getElem?_eq_none h] at hc; cases hc
  unfold Svc.call
  split <;> exact ⟨cl, by simp [List.getElem?_append_left hlt, hc], rfl, fun _ _ _ h => h⟩

theorem wake_callerMono (s : Svc) (c : Nat) : CallerMono s (s.wake c) := by
  unfold Svc.wake
  split
  · exact CallerMono_refl s
  · rename_i cl hcl
    split
    · exact CallerMono_refl s
    · rename_i batch hbl
      have key : ∀ cl' : Caller, cl'.kind = cl.kind → ∀ ts,
          CallerMono s { s with tasks := ts, callers := s.callers.set c cl' } := by
        intro cl' hk ts i x hi
        by_cases hic : c = i
        · subst hic
          rw [hcl] at hi; cases hi
          have hlt : c < s.callers.length := by
            rcases Nat.lt_or_ge c s.callers.length with h | h
            · exact h
            · rw [List.getElem?_eq_none h] at hcl; cases hcl
          exact ⟨cl', by simp [hlt], hk, fun r tm n h => by rw [hbl] at h; cases h⟩
        · exact ⟨x, by simp [List.getElem?_set_ne hic, hi], rfl, fun _ _ _ h => h⟩
      split
      · simp only []
        split
        · apply key; rfl
        · apply key; rfl
      · exact CallerMono_refl s

theorem step_callerMono (s : Svc) (e : Event) : CallerMono s (s.step e) := by
  cases e with
  | advance d => exact CallerMono_of_eq rfl
  | start => exact CallerMono_of_eq (start_callers s)
  | cancel => exact CallerMono_of_eq rfl
  | addTask => exact CallerMono_of_eq rfl
  | call k => exact call_callerMono s k
  | taskStep i r => exact CallerMono_of_eq rfl
  | wake c => exact wake_callerMono s c

theorem startIfIdle_callerMono (s : Svc) : CallerMono s (startIfIdle s) := by
  unfold startIfIdle; split
  · exact CallerMono_refl s
  · exact CallerMono_of_eq (start_callers s)

theorem callerFinished_mono {s s' : Svc} (h : CallerMono s s') {c : Nat} (hf : callerFinished s c = true) :
    callerFinished s' c = true := by
  unfold callerFinished at hf ⊢
  cases hc : s.callers[c]? with
  | none => simp [hc] at hf
  | some cl =>
    obtain ⟨cl', h1, _, h3⟩ := h c cl hc
    rw [hc] at hf
    cases hst : cl.st with
    | blocked b => simp [hst] at hf
    | finished r tm n => simp [h1, h3 r tm n hst]

/-- Index-wise evolution of the list of services. -/
def SvcsRel (a b : List Svc) : Prop :=
  a.length = b.length ∧ ∀ (i : Nat) (s : Svc), a[i]? = some s → ∃ s' : Svc, b[i]? = some s' ∧ CallerMono s s'

theorem SvcsRel_refl (a : List Svc) : SvcsRel a a := ⟨rfl, fun _ s h => ⟨s, h, CallerMono_refl s⟩⟩

theorem SvcsRel_set {a : List Svc} {i : Nat} {s s' : Svc} (hi : a[i]? = some s) (hm : CallerMono s s') :
    SvcsRel a (a.set i s') := by
  refine ⟨by simp, ?_⟩
  intro j x hj
  by_cases hij : i = j
  · subst hij
    rw [hi] at hj; cases hj
    have hlt : i < a.length := by
      rcases Nat.lt_or_ge i a.length with h | h
      · exact h
      · rw [List.getElem?_eq_none h] at hi; cases hi
    exact ⟨s', by simp [hlt], hm⟩
  · exact ⟨x, by simp [List.getElem?_set_ne hij, hj], CallerMono_refl x⟩

theorem waiterFinished_mono {a b : List Svc} (h : SvcsRel a b) {w : Nat × Nat} (hf : waiterFinished a w = true) :
    waiterFinished b w = true := by
  unfold waiterFinished at hf ⊢
  cases hs : a[w.1]? with
  | none => simp [hs] at hf
  | some s =>
    obtain ⟨s', h1, h2⟩ := h.2 w.1 s hs
    rw [hs] at hf
    simp only [h1]
    exact callerFinished_mono h2 hf

theorem runDone_mono {a b : List Svc} (h : SvcsRel a b) {rc : RunRec} (hf : runDone a rc = true) :
    runDone b rc = true := by
  unfold runDone at hf ⊢
  simp only [Bool.and_eq_true, List.all_eq_true] at hf ⊢
  exact ⟨hf.1, fun w hw => waiterFinished_mono h (hf.2 w hw)⟩

theorem call_new_caller (s : Svc) (k : CallKind) :
    ∃ cl : Caller, (s.call k).callers[s.callers.length]? = some cl ∧ cl.kind = k := by
  unfold Svc.call
  split <;> exact ⟨_, List.getElem?_concat_length .. , rfl⟩

/-! ### the invariant of the whole system -/

structure SysInv (m : Mode) (y : Sys) : Prop where
  svc : ∀ s ∈ y.svcs, Inv s ∧ s.mode = m
  runOk : ∀ r ∈ y.runs, r.returned.isSome = true → runDone y.svcs r = true
  kind : ∀ r ∈ y.runs, ∀ w ∈ r.waiters, ∃ (s : Svc) (cl : Caller),
    y.svcs[w.1]? = some s ∧ s.callers[w.2]? = some cl ∧ cl.kind = .wait
  cover : ∀ r ∈ y.runs, r.waiters.map (·.1) ++ r.pending = r.actors

theorem SysInv_init (m : Mode) (lims : List (Option Nat)) : SysInv m (Sys.init m lims) := by
  refine ⟨?_, by simp [Sys.init], by simp [Sys.init], by simp [Sys.init]⟩
  intro s hs
  simp only [Sys.init, List.mem_map] at hs
  obtain ⟨l, _, rfl⟩ := hs
  exact ⟨Inv_init m l, rfl⟩

theorem kind_mono {a b : List Svc} (h : SvcsRel a b) {w : Nat × Nat}
    (hk : ∃ (s : Svc) (cl : Caller), a[w.1]? = some s ∧ s.callers[w.2]? = some cl ∧ cl.kind = .wait) :
    ∃ (s : Svc) (cl : Caller), b[w.1]? = some s ∧ s.callers[w.2]? = some cl ∧ cl.kind = .wait := by
  obtain ⟨s, cl, h1, h2, h3⟩ := hk
  obtain ⟨s', h4, h5⟩ := h.2 _ s h1
  obtain ⟨cl', h6, h7, _⟩ := h5 _ cl h2
  exact ⟨s', cl', h4, h6, h7.trans h3⟩

/-- The services evolve (index-wise), the run records stay. -/
theorem SysInv_svcs {m : Mode} {y : Sys} {svcs' : List Svc} (h : SysInv m y) (hrel : SvcsRel y.svcs svcs')
    (hinv : ∀ s ∈ svcs', Inv s ∧ s.mode = m) (now' : Int) :
    SysInv m { y with now := now', svcs := svcs' } :=
  ⟨hinv, fun r hr hret => runDone_mono hrel (h.runOk r hr hret),
   fun r hr w hw => kind_mono hrel (h.kind r hr w hw), h.cover⟩

theorem mem_set_svc {a : List Svc} {i : Nat} {s' x : Svc} (hx : x ∈ a.set i s') : x ∈ a ∨ x = s' :=
  List.mem_or_eq_of_mem_set hx

theorem SysInv_step (m : Mode) (y : Sys) (e : SysEvent) (h : SysInv m y) : SysInv m (y.step e) := by
  cases e with
  | svc a ev =>
    cases ev with
    | advance d => exact h
    | start | cancel | addTask | call _ | taskStep _ _ | wake _ =>
      all_goals
        simp only [Sys.step]
        cases ha : y.svcs[a]? with
        | none => exact h
        | some s =>
          simp only []
          have hs := h.svc s (List.mem_of_getElem? ha)
          refine SysInv_svcs h (SvcsRel_set ha (step_callerMono s _)) ?_ y.now
          intro x hx
          rcases mem_set_svc hx with hx | rfl
          · exact h.svc x hx
          · exact ⟨Inv_step s _ hs.1, (step_mode s _).trans hs.2⟩
  | advance d =>
    simp only [Sys.step]
    refine SysInv_svcs h ⟨by simp, ?_⟩ ?_ _
    · intro i s hi
      exact ⟨s.step (.advance d), by simp [hi], step_callerMono s _⟩
    · intro x hx
      obtain ⟨s, hs, rfl⟩ := List.mem_map.mp hx
      have := h.svc s hs
      exact ⟨Inv_step s _ this.1, (step_mode s _).trans this.2⟩
  | runCall actors =>
    simp only [Sys.step, Sys.runCall]
    have hrel : SvcsRel y.svcs (y.svcs.mapIdx (fun i s =>
        if (actors.filter (fun a => a < y.svcs.length)).contains i then startIfIdle s else s)) := by
      refine ⟨by simp, ?_⟩
      intro i s hi
      refine ⟨_, by simp [hi]; rfl, ?_⟩
      split
      · exact startIfIdle_callerMono s
      · exact CallerMono_refl s
    have hinv : ∀ s ∈ y.svcs.mapIdx (fun i s =>
        if (actors.filter (fun a => a < y.svcs.length)).contains i then startIfIdle s else s), Inv s ∧ s.mode = m := by
      intro x hx
      obtain ⟨i, hi, rfl⟩ := List.mem_mapIdx.mp hx
      have := h.svc _ (List.getElem_mem hi)
      split
      · unfold startIfIdle; split
        · exact this
        · exact ⟨Inv_step _ .start this.1, (step_mode _ .start).trans this.2⟩
      · exact this
    have h1 := SysInv_svcs h hrel hinv y.now
    refine ⟨h1.svc, ?_, ?_, ?_⟩
    · intro r hr hret
      rcases List.mem_append.mp hr with hr | hr
      · exact h1.runOk r hr hret
      · simp at hr; subst hr; simp at hret
    · intro r hr w hw
      rcases List.mem_append.mp hr with hr | hr
      · exact h1.kind r hr w hw
      · simp at hr; subst hr; simp at hw
    · intro r hr
      rcases List.mem_append.mp hr with hr | hr
      · exact h1.cover r hr
      · simp at hr; subst hr; simp
  | runWait r =>
    simp only [Sys.step, Sys.runWait]
    cases hr : y.runs[r]? with
    | none => exact h
    | some rc =>
      simp only []
      have hrc : rc ∈ y.runs := List.mem_of_getElem? hr
      cases hp : rc.pending with
      | nil => exact h
      | cons a rest =>
        simp only []
        have hnone : rc.returned.isSome = false := by
          cases hret : rc.returned.isSome with
          | false => rfl
          | true =>
            have := h.runOk rc hrc hret
            simp [runDone, hp] at this
        cases ha : y.svcs[a]? with
        | none => exact h
        | some s =>
          simp only []
          have hs := h.svc s (List.mem_of_getElem? ha)
          have hrel : SvcsRel y.svcs (y.svcs.set a (s.call .wait)) := SvcsRel_set ha (call_callerMono s .wait)
          have hinv : ∀ x ∈ y.svcs.set a (s.call .wait), Inv x ∧ x.mode = m := by
            intro x hx
            rcases mem_set_svc hx with hx | rfl
            · exact h.svc x hx
            · exact ⟨Inv_step s (.call .wait) hs.1, (step_mode s (.call .wait)).trans hs.2⟩
          have h1 := SysInv_svcs h hrel hinv y.now
          have hlt : a < y.svcs.length := by
            rcases Nat.lt_or_ge a y.svcs.length with h | h
            · exact h
            · rw [List.getElem?_eq_none h] at ha; cases ha
          refine ⟨h1.svc, ?_, ?_, ?_⟩
          · intro x hx hret
            rcases List.mem_or_eq_of_mem_set hx with hx | rfl
            · exact h1.runOk x hx hret
            · simp [hnone] at hret
          · intro x hx w hw
            rcases List.mem_or_eq_of_mem_set hx with hx | rfl
            · exact h1.kind x hx w hw
            · simp only [List.mem_append, List.mem_singleton] at hw
              rcases hw with hw | rfl
              · exact h1.kind rc hrc w hw
              · obtain ⟨cl, hcl, hk⟩ := call_new_caller s .wait
                exact ⟨s.call .wait, cl, by simp [hlt], hcl, hk⟩
          · intro x hx
            rcases List.mem_or_eq_of_mem_set hx with hx | rfl
            · exact h1.cover x hx
            · have := h.cover rc hrc
              rw [hp] at this
              simp only [List.map_append, List.map_cons, List.map_nil, List.append_assoc, List.cons_append,
                List.nil_append]
              exact this
  | runReturn r =>
    simp only [Sys.step]
    cases hr : y.runs[r]? with
    | none => exact h
    | some rc =>
      simp only []
      have hrc : rc ∈ y.runs := List.mem_of_getElem? hr
      split
      · rename_i hcond
        simp only [Bool.and_eq_true] at hcond
        refine ⟨h.svc, ?_, ?_, ?_⟩
        · intro x hx hret
          rcases List.mem_or_eq_of_mem_set hx with hx | rfl
          · exact h.runOk x hx hret
          · exact hcond.2
        · intro x hx w hw
          rcases List.mem_or_eq_of_mem_set hx with hx | rfl
          · exact h.kind x hx w hw
          · exact h.kind rc hrc w hw
        · intro x hx
          rcases List.mem_or_eq_of_mem_set hx with hx | rfl
          · exact h.cover x hx
          · exact h.cover rc hrc
      · exact h

theorem SysInv_exec (m : Mode) (y : Sys) (es : List SysEvent) (h : SysInv m y) : SysInv m (y.exec es) := by
  induction es generalizing y with
  | nil => exact h
  | cons e es ih => exact ih (y.step e) (SysInv_step m y e h)

end Actor
