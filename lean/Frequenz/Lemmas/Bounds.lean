/-
Specifications of the three functions machine-translated from `_bounds.py`
(`Frequenz.Extracted.Bounds`).  The proofs unfold the generated definitions, so an edit of the
Python source that changes their behaviour breaks these lemmas (and everything built on them).
-/
import Frequenz.Extracted.Bounds

namespace BoundsLemmas

/-- "`x` lies strictly inside the open exclusion zone `e`". -/
def InZone (e : Bounds) (x : Rat) : Prop := e.lower < x ∧ x < e.upper

instance (e : Bounds) (x : Rat) : Decidable (InZone e x) := by unfold InZone; exact inferInstance

/-- The zone contains zero (the quantifier of C03/C04). -/
def ZoneOK (ex : Option Bounds) : Prop := ∀ e, ex = some e → e.lower ≤ 0 ∧ 0 ≤ e.upper

/-- `t` is zero or outside the open zone. -/
def OutOrZero (ex : Option Bounds) (t : Rat) : Prop :=
  ∀ e, ex = some e → t = 0 ∨ ¬ InZone e t

/-- Closes the leaf goals that remain after the case distinctions below, whatever shape the
translated function has (the Python source may be refactored without changing its behaviour). -/
macro "finish_cases" : tactic =>
  `(tactic| first
      | rfl
      | (simp_all; done)
      | grind
      | (simp_all <;> grind)
      | ((repeat' split) <;> first | rfl | (simp_all; done) | grind | (simp_all <;> grind)))

theorem overlap_spec (lo hi : Rat) (ex : Option Bounds) :
    Extracted.checkExclusionBoundsOverlap lo hi ex =
      match ex with
      | none => (false, false)
      | some e => (decide (InZone e lo), decide (InZone e hi)) := by
  unfold Extracted.checkExclusionBoundsOverlap InZone
  cases ex with
  | none => rfl
  | some e =>
    first
      | (simp only []; done)
      | ((try simp only []);
         by_cases h1 : e.lower < lo ∧ lo < e.upper <;> by_cases h2 : e.lower < hi ∧ hi < e.upper <;>
           finish_cases)

theorem overlap_none (lo hi : Rat) :
    Extracted.checkExclusionBoundsOverlap lo hi none = (false, false) := by
  rw [overlap_spec]

theorem overlap_some (lo hi : Rat) (e : Bounds) :
    Extracted.checkExclusionBoundsOverlap lo hi (some e) = (decide (InZone e lo), decide (InZone e hi)) := by
  rw [overlap_spec]

/-- `adjust_exclusion_bounds` as a four-way case distinction. -/
theorem adjust_some (lo hi : Rat) (e : Bounds) :
    Extracted.adjustExclusionBounds lo hi (some e) =
      if InZone e lo ∧ InZone e hi then (0, 0)
      else if ¬ InZone e lo ∧ InZone e hi then (lo, e.lower)
      else if InZone e lo ∧ ¬ InZone e hi then (e.upper, hi)
      else (lo, hi) := by
  unfold Extracted.adjustExclusionBounds
  (try simp only [overlap_some, Prod.mk.injEq, decide_eq_true_eq, decide_eq_false_iff_not]) <;>
  by_cases h1 : InZone e lo <;> by_cases h2 : InZone e hi <;>
    simp only [h1, h2, and_self, and_true, and_false, true_and, false_and, not_true_eq_false,
      not_false_eq_true, if_true, if_false] <;> try finish_cases

theorem adjust_none (lo hi : Rat) : Extracted.adjustExclusionBounds lo hi none = (lo, hi) := by
  unfold Extracted.adjustExclusionBounds; first | rfl | finish_cases

/-- `clamp_to_bounds` with an exclusion zone, as a flat case distinction. -/
theorem clamp_some (v lo hi : Rat) (e : Bounds) :
    Extracted.clampToBounds v lo hi (some e) =
      if InZone e lo ∧ InZone e hi then (none, none)
      else if InZone e lo ∧ ¬ InZone e hi ∧ v < e.upper then (none, some e.upper)
      else if ¬ InZone e lo ∧ InZone e hi ∧ v > e.lower then (some e.lower, none)
      else if v < lo then (some lo, none)
      else if v > hi then (none, some hi)
      else if v ≠ 0 ∧ InZone e v then (some e.lower, some e.upper)
      else (some v, some v) := by
  unfold Extracted.clampToBounds
  (try simp only [overlap_some, Prod.mk.injEq, decide_eq_true_eq, decide_eq_false_iff_not]) <;>
  by_cases h1 : InZone e lo <;> by_cases h2 : InZone e hi <;>
    simp only [h1, h2, and_self, and_true, and_false, true_and, false_and, not_true_eq_false,
      not_false_eq_true, if_true, if_false] <;>
    (try unfold InZone at *) <;> try finish_cases

theorem clamp_none (v lo hi : Rat) :
    Extracted.clampToBounds v lo hi none =
      if v < lo then (some lo, none) else if v > hi then (none, some hi) else (some v, some v) := by
  unfold Extracted.clampToBounds; first | rfl | finish_cases

/-- Every value offered by `clamp_to_bounds` lies in `[lo, hi]` and is zero or outside the zone. -/
theorem clamp_fst (v lo hi : Rat) (ex : Option Bounds) (h : lo ≤ hi) (x : Rat)
    (hx : (Extracted.clampToBounds v lo hi ex).1 = some x) :
    lo ≤ x ∧ x ≤ hi ∧ OutOrZero ex x := by
  unfold OutOrZero
  cases ex with
  | none => rw [clamp_none] at hx; grind
  | some e =>
    rw [clamp_some] at hx
    simp only [Option.some.injEq, forall_eq']
    unfold InZone at *
    grind

theorem clamp_snd (v lo hi : Rat) (ex : Option Bounds) (h : lo ≤ hi) (x : Rat)
    (hx : (Extracted.clampToBounds v lo hi ex).2 = some x) :
    lo ≤ x ∧ x ≤ hi ∧ OutOrZero ex x := by
  unfold OutOrZero
  cases ex with
  | none => rw [clamp_none] at hx; grind
  | some e =>
    rw [clamp_some] at hx
    simp only [Option.some.injEq, forall_eq']
    unfold InZone at *
    grind

/-- `adjust_exclusion_bounds` never widens `[lo, hi]` beyond a frame `[L, U] ∋ 0`. -/
theorem adjust_within (lo hi L U : Rat) (ex : Option Bounds) (hL : L ≤ lo) (hU : hi ≤ U)
    (h0 : L ≤ 0 ∧ 0 ≤ U) :
    L ≤ (Extracted.adjustExclusionBounds lo hi ex).1 ∧ (Extracted.adjustExclusionBounds lo hi ex).2 ≤ U := by
  cases ex with
  | none => rw [adjust_none]; exact ⟨hL, hU⟩
  | some e => rw [adjust_some]; unfold InZone; grind

end BoundsLemmas
