/-
Lemmas about `Frequenz.Model.ResamplingHelper`: the binary search on a time-ordered buffer, the relevance window as
a filter, and the deque invariants over every receive/tick history.
-/
import Frequenz.Model.ResamplingHelper

set_option linter.unusedSimpArgs false

namespace ResamplingHelper

open Extracted.Resampling

/-- Time-ordered (non-decreasing timestamps, arrival order). -/
def SortedTs (l : List Sample) : Prop := l.Pairwise (fun a b => a.ts ≤ b.ts)

/-- How many samples are stamped `≤ x`. -/
def countLe (x : Int) (l : List Sample) : Nat := (l.filter (fun s => decide (s.ts ≤ x))).length

theorem countLe_cons_le (x : Int) (a : Sample) (t : List Sample) (h : a.ts ≤ x) :
    countLe x (a :: t) = countLe x t + 1 := by
  simp [countLe, List.filter_cons, h]

theorem countLe_cons_gt (x : Int) (a : Sample) (t : List Sample) (h : x < a.ts) :
    countLe x (a :: t) = countLe x t := by
  have : ¬ a.ts ≤ x := by omega
  simp [countLe, List.filter_cons, this]

theorem countLe_le_length (x : Int) (l : List Sample) : countLe x l ≤ l.length := by
  unfold countLe; exact List.length_filter_le _ _

theorem countLe_all_gt (x : Int) (t : List Sample) (h : ∀ b ∈ t, x < b.ts) : countLe x t = 0 := by
  unfold countLe
  rw [List.length_eq_zero_iff, List.filter_eq_nil_iff]
  intro b hb
  have := h b hb
  simp; omega

theorem sorted_cons {a : Sample} {t : List Sample} (h : SortedTs (a :: t)) :
    (∀ b ∈ t, a.ts ≤ b.ts) ∧ SortedTs t := by
  unfold SortedTs at *
  exact List.pairwise_cons.mp h

/-- In a time-ordered list, position `i` holds a sample `≤ x` iff `i` is below the count. -/
theorem sorted_index (x : Int) (l : List Sample) (hs : SortedTs l) (i : Nat) (s : Sample) (hi : l[i]? = some s) :
    (s.ts ≤ x → i < countLe x l) ∧ (x < s.ts → countLe x l ≤ i) := by
  induction l generalizing i with
  | nil => simp at hi
  | cons a t ih =>
    obtain ⟨hall, hst⟩ := sorted_cons hs
    by_cases ha : a.ts ≤ x
    · rw [countLe_cons_le x a t ha]
      cases i with
      | zero =>
        simp at hi; subst hi
        exact ⟨fun _ => by omega, fun h => by omega⟩
      | succ j =>
        simp at hi
        have := ih hst j hi
        exact ⟨fun h => by have := this.1 h; omega, fun h => by have := this.2 h; omega⟩
    · have hgt : x < a.ts := by omega
      have hz : countLe x t = 0 := countLe_all_gt x t (fun b hb => by have := hall b hb; omega)
      rw [countLe_cons_gt x a t hgt, hz]
      cases i with
      | zero =>
        simp at hi; subst hi
        exact ⟨fun h => by omega, fun _ => by omega⟩
      | succ j =>
        simp at hi
        have hm : s ∈ t := List.mem_of_getElem? hi
        have := hall s hm
        exact ⟨fun h => by omega, fun _ => by omega⟩

/-- The binary search of `bisect_right` finds the count on a time-ordered list. -/
theorem bisectGo_eq (x : Int) (l : List Sample) (hs : SortedTs l) (lo hi : Nat)
    (h1 : lo ≤ countLe x l) (h2 : countLe x l ≤ hi) (h3 : hi ≤ l.length) :
    bisectGo l x lo hi = countLe x l := by
  fun_induction bisectGo l x lo hi with
  | case1 lo hi hlt mid hnone =>
    have : mid < l.length := by omega
    simp [List.getElem?_eq_none_iff] at hnone
    omega
  | case2 lo hi hlt mid s hsome hx ih =>
    have := (sorted_index x l hs mid s hsome).2 hx
    exact ih h1 this (by omega)
  | case3 lo hi hlt mid s hsome hx ih =>
    have := (sorted_index x l hs mid s hsome).1 (by omega)
    exact ih (by omega) h2 h3
  | case4 lo hi hge => omega

theorem bisectRight_eq (x : Int) (l : List Sample) (hs : SortedTs l) : bisectRight l x = countLe x l :=
  bisectGo_eq x l hs 0 l.length (Nat.zero_le _) (countLe_le_length x l) (Nat.le_refl _)

/-- The slice between the two bisections is the filter on the half-open interval `(m, T]`. -/
theorem window_eq (m T : Int) (l : List Sample) (hs : SortedTs l) :
    (l.take (countLe T l)).drop (countLe m l) = l.filter (fun s => decide (m < s.ts ∧ s.ts ≤ T)) := by
  induction l with
  | nil => simp [countLe]
  | cons a t ih =>
    obtain ⟨hall, hst⟩ := sorted_cons hs
    have ih := ih hst
    by_cases h1 : a.ts ≤ T
    · rw [countLe_cons_le T a t h1]
      by_cases h2 : a.ts ≤ m
      · rw [countLe_cons_le m a t h2]
        have hd : decide (m < a.ts ∧ a.ts ≤ T) = false := decide_eq_false (by omega)
        simp only [List.take_succ_cons, List.drop_succ_cons, List.filter_cons, hd, Bool.false_eq_true, if_false]
        exact ih
      · have hgt : m < a.ts := by omega
        have hz : countLe m t = 0 := countLe_all_gt m t (fun b hb => by have := hall b hb; omega)
        rw [countLe_cons_gt m a t hgt, hz]
        rw [hz] at ih
        have hd : decide (m < a.ts ∧ a.ts ≤ T) = true := decide_eq_true ⟨hgt, h1⟩
        simp only [List.take_succ_cons, List.drop_zero, List.filter_cons, hd, if_true]
        simp only [List.drop_zero] at ih
        rw [ih]
    · have hgt : T < a.ts := by omega
      have hz : countLe T t = 0 := countLe_all_gt T t (fun b hb => by have := hall b hb; omega)
      rw [countLe_cons_gt T a t hgt, hz]
      have hd : decide (m < a.ts ∧ a.ts ≤ T) = false := decide_eq_false (by omega)
      simp only [List.take_zero, List.drop_nil, List.filter_cons, hd, Bool.false_eq_true, if_false]
      symm
      rw [List.filter_eq_nil_iff]
      intro b hb
      have := hall b hb
      simp; omega

/-! ### `lastN` (what a `deque(maxlen)` keeps) -/

theorem lastN_suffix (n : Nat) (l : List α) : lastN n l <:+ l := by
  unfold lastN; exact List.drop_suffix _ _

theorem lastN_length (n : Nat) (l : List α) : (lastN n l).length = min n l.length := by
  unfold lastN; simp; omega

theorem lastN_length_le (n : Nat) (l : List α) : (lastN n l).length ≤ n := by
  rw [lastN_length]; omega

theorem lastN_of_length_le (n : Nat) (l : List α) (h : l.length ≤ n) : lastN n l = l := by
  unfold lastN
  have : l.length - n = 0 := by omega
  rw [this]; rfl

theorem lastN_append_lastN (n : Nat) (a ys : List α) : lastN n (lastN n a ++ ys) = lastN n (a ++ ys) := by
  by_cases h : a.length ≤ n
  · rw [lastN_of_length_le n a h]
  · have hk : n < a.length := by omega
    unfold lastN
    simp only [List.length_append, List.length_drop]
    have e1 : a.length - (a.length - n) + ys.length - n = ys.length := by omega
    have e2 : a.length + ys.length - n = (a.length - n) + ys.length := by omega
    rw [e1, e2, ← List.drop_drop]
    have : List.drop (a.length - n) (a ++ ys) = List.drop (a.length - n) a ++ ys :=
      List.drop_append_of_le_length (by omega)
    rw [this]

/-! ### the helper over histories -/

theorem validHistory_accepted (es : List Ev) : ∀ x ∈ validHistory es, accepted x = true := by
  induction es with
  | nil => simp [validHistory]
  | cons e es ih =>
    cases e with
    | recv y =>
      by_cases hy : accepted y = true
      · simp only [validHistory, hy, if_true, List.mem_cons]
        rintro x (rfl | hx)
        · exact hy
        · exact ih x hx
      · simp only [validHistory, hy, if_false, Bool.false_eq_true]
        exact ih
    | tick T est => simpa [validHistory] using ih

theorem resize_buf (h : Helper) (n : Nat) (hl : h.buf.length ≤ h.maxlen) :
    (resize h n).buf = lastN n h.buf ∧ (resize h n).maxlen = n := by
  unfold resize
  by_cases hn : n = h.maxlen
  · subst hn
    simp [lastN_of_length_le _ _ hl]
  · simp [hn]

/-- A tick leaves in the buffer exactly the most recent `maxlen` (new value) samples of the old buffer. -/
theorem tick_buf (cfg : Cfg) (h : Helper) (T est : Int) (hl : h.buf.length ≤ h.maxlen) :
    (tick cfg h T est).1.buf = lastN (tick cfg h T est).1.maxlen h.buf := by
  unfold tick updatePeriod
  by_cases hskip : skipPeriodUpdate h.inputPeriod h.start h.received cfg.period cfg.maxAge h.buf.length h.maxlen T = true
  · simp [hskip, lastN_of_length_le _ _ hl]
  · simp only [hskip, Bool.false_eq_true, if_false, if_true]
    cases hn : newBufferLen cfg (clampEstimate est) with
    | none => simp [lastN_of_length_le _ _ hl]
    | some n =>
      have := resize_buf { h with inputPeriod := some (clampEstimate est) } n hl
      simp only [this.1, this.2]

/-- The three ways a tick can go. -/
theorem tick_cases (cfg : Cfg) (h : Helper) (T est : Int) :
    ((updatePeriod cfg h T est).2 = false ∧
      tick cfg h T est = ((updatePeriod cfg h T est).1,
        { rel := relevant cfg (updatePeriod cfg h T est).1 T, err := false })) ∨
    ((updatePeriod cfg h T est).2 = true ∧ newBufferLen cfg (clampEstimate est) = none ∧
      tick cfg h T est = ((updatePeriod cfg h T est).1, { rel := [], err := true })) ∨
    (∃ n, (updatePeriod cfg h T est).2 = true ∧ newBufferLen cfg (clampEstimate est) = some n ∧
      tick cfg h T est = (resize (updatePeriod cfg h T est).1 n,
        { rel := relevant cfg (resize (updatePeriod cfg h T est).1 n) T, err := false })) := by
  unfold tick
  by_cases hu : (updatePeriod cfg h T est).2 = true
  · cases hb : newBufferLen cfg (clampEstimate est) with
    | none => right; left; simp [hu]
    | some n => right; right; exact ⟨n, hu, rfl, by simp [hu]⟩
  · left
    simp only [Bool.not_eq_true] at hu
    simp [hu]

instance (l : List Sample) : Decidable (SortedTs l) := by unfold SortedTs; exact inferInstance

theorem tick_buf_suffix (cfg : Cfg) (h : Helper) (T est : Int) (hl : h.buf.length ≤ h.maxlen) :
    (tick cfg h T est).1.buf <:+ h.buf := by
  rw [tick_buf cfg h T est hl]; exact lastN_suffix _ _

theorem tick_buf_length (cfg : Cfg) (h : Helper) (T est : Int) (hl : h.buf.length ≤ h.maxlen) :
    (tick cfg h T est).1.buf.length ≤ (tick cfg h T est).1.maxlen := by
  rw [tick_buf cfg h T est hl]; exact lastN_length_le _ _

theorem addSample_buf_length (h : Helper) (x : Sample) : (addSample h x).buf.length ≤ (addSample h x).maxlen := by
  simp only [addSample]; exact lastN_length_le _ _

theorem step_length (cfg : Cfg) (h : Helper) (e : Ev) (hl : h.buf.length ≤ h.maxlen) :
    (step cfg h e).buf.length ≤ (step cfg h e).maxlen := by
  cases e with
  | recv x =>
    simp only [step, recv]
    by_cases hx : accepted x = true
    · simp only [hx, if_true]; exact addSample_buf_length h x
    · simp only [hx, Bool.false_eq_true, if_false]; exact hl
  | tick T est => exact tick_buf_length cfg h T est hl

/-- Over every history: the buffer is a suffix (= the most recent part) of the valid samples received, and fits. -/
theorem runFrom_invariant (cfg : Cfg) (es : List Ev) (h : Helper) (V : List Sample)
    (hsuf : h.buf <:+ V) (hl : h.buf.length ≤ h.maxlen) :
    (runFrom cfg h es).buf <:+ V ++ validHistory es ∧ (runFrom cfg h es).buf.length ≤ (runFrom cfg h es).maxlen := by
  induction es generalizing h V with
  | nil => simpa [runFrom, validHistory] using ⟨hsuf, hl⟩
  | cons e es ih =>
    have hl' := step_length cfg h e hl
    have hcons : runFrom cfg h (e :: es) = runFrom cfg (step cfg h e) es := rfl
    rw [hcons]
    cases e with
    | recv x =>
      by_cases hx : accepted x = true
      · have hs' : (step cfg h (.recv x)).buf <:+ V ++ [x] := by
          simp only [step, recv, hx, if_true, addSample]
          exact (lastN_suffix _ _).trans ((List.suffix_append_inj_of_length_eq rfl).mpr ⟨hsuf, rfl⟩ |> fun h => by
            simpa using List.IsSuffix.trans (List.suffix_refl _) h)
        have := ih (step cfg h (.recv x)) (V ++ [x]) hs' hl'
        simpa [validHistory, hx, List.append_assoc] using this
      · have hs' : (step cfg h (.recv x)).buf <:+ V := by
          simp only [step, recv, hx, Bool.false_eq_true, if_false]; exact hsuf
        have := ih (step cfg h (.recv x)) V hs' hl'
        simpa [validHistory, hx] using this
    | tick T est =>
      have hs' : (step cfg h (.tick T est)).buf <:+ V := (tick_buf_suffix cfg h T est hl).trans hsuf
      have := ih (step cfg h (.tick T est)) V hs' hl'
      simpa [validHistory] using this

/-- Receiving only (no tick in between): the buffer is exactly the last `maxlen` of what it held plus the accepted
samples, in arrival order. -/
theorem recv_only_exact (h : Helper) (xs : List Sample) (hl : h.buf.length ≤ h.maxlen) :
    (xs.foldl recv h).buf = lastN h.maxlen (h.buf ++ xs.filter accepted) ∧ (xs.foldl recv h).maxlen = h.maxlen := by
  induction xs generalizing h with
  | nil => simp [lastN_of_length_le _ _ hl]
  | cons x xs ih =>
    simp only [List.foldl_cons]
    by_cases hx : accepted x = true
    · have hl' : (recv h x).buf.length ≤ (recv h x).maxlen := by
        simp only [recv, hx, if_true]; exact addSample_buf_length h x
      have := ih (recv h x) hl'
      have hb : (recv h x).buf = lastN h.maxlen (h.buf ++ [x]) := by simp [recv, hx, addSample]
      have hm : (recv h x).maxlen = h.maxlen := by simp [recv, hx, addSample]
      rw [this.1, this.2, hb, hm, lastN_append_lastN]
      simp [List.filter_cons, hx]
    · have hr : recv h x = h := by simp [recv, hx]
      rw [hr]
      have := ih h hl
      simpa [List.filter_cons, hx] using this

end ResamplingHelper
