/-
C06: progress of the single-phase evaluator, and the invariant of the 3-phase engine (the k-th 3-phase sample is
built from the k-th outputs of the three per-phase engines).  Serves Props/C06.lean.
-/
import Frequenz.Lemmas.Evaluator

namespace Evaluator

open QList

/-- `apply()` completes as soon as every stream has delivered the tick that is due. -/
theorem apply_enabled {n : Nat} {f : List (Option Rat) → Option Rat} {t0 : Nat → Int}
    {src : Nat → Int → Option Rat} {σ : St} (hn : 0 < n) (h : Inv n f t0 src σ) (c : Nat)
    (hdue : ∀ i, i < n → t0 i + (σ.all i).length > maxStart n t0 + σ.out.length) :
    (apply n f c σ).isSome = true := by
  unfold apply
  by_cases hf : σ.firstRun = true
  · rw [if_pos hf]
    obtain ⟨hout, hqs⟩ := h.first hf
    have hlen : ∀ i, i < n → 0 < (σ.all i).length := by
      intro i hi
      have := hdue i hi
      have := maxStart_ge n t0 i hi
      rw [hout] at *
      simp at *
      omega
    have hr : allReady n σ.qs = true := by
      rw [allReady_iff]
      intro i hi hq
      rw [hqs i] at hq
      have := hlen i hi
      rw [hq] at this; simp at this
    have hhead : ∀ i, i < n → headTs (σ.qs i) = t0 i := by
      intro i hi
      have hne : (σ.all i).drop 0 ≠ [] := by
        have := hlen i hi
        intro hq; simp at hq; rw [hq] at this; simp at this
      have := suffix_head (h.hist i) 0 hne
      rw [hqs i]; simpa using this.1
    have hT : latestTs n σ.qs = maxStart n t0 := by
      unfold latestTs maxStart
      rw [hhead 0 hn]
      exact foldl_max_congr _ _ _ _ (fun i hi => hhead i (List.mem_range.mp hi))
    unfold applyFirst
    rw [if_pos hr]
    (try dsimp only)
    rw [hT]
    have hat : allAt n (maxStart n t0) (fun i => drain (maxStart n t0) (σ.qs i)) = true := by
      rw [allAt_iff]
      intro i hi
      (try dsimp only)
      obtain ⟨d, hd, hcase⟩ := drain_spec (src i) (maxStart n t0) (σ.all i) (t0 i) (h.hist i)
        (maxStart_ge n t0 i hi)
      have hdl : d < (σ.all i).length := by
        have := hdue i hi
        rw [hout] at this
        simp at this
        omega
      rw [hqs i]
      rcases hcase with hc | ⟨hl, _⟩
      · have hne : (σ.all i).drop d ≠ [] := by
          intro hq
          have := (drop_eq_nil_iff _ _).mp hq
          omega
        rw [hc]
        exact ⟨hne, by rw [(suffix_head (h.hist i) d hne).1, hd]⟩
      · omega
    rw [if_pos hat]
    rfl
  · rw [if_neg hf]
    have hf' : σ.firstRun = false := by cases hh : σ.firstRun <;> simp_all
    unfold applySteady
    have hr : allReady n σ.qs = true := by
      rw [allReady_iff]
      intro i hi hq
      obtain ⟨d, _, hdt, hqd⟩ := h.steady hf' i hi
      rw [hqd] at hq
      have := (drop_eq_nil_iff _ _).mp hq
      have := hdue i hi
      omega
    rw [if_pos hr]
    rfl

/-- a step never rewrites what was already emitted -/
theorem step_out_append (n : Nat) (f : List (Option Rat) → Option Rat) (σ : St) (e : Ev) :
    ∃ t, (step n f σ e).out = σ.out ++ t := by
  cases e with
  | deliver i s => exact ⟨[], by rw [step_deliver]; simp⟩
  | eval c =>
    rw [step_eval]
    cases hr : apply n f c σ with
    | none => exact ⟨[], by simp⟩
    | some σ' =>
      simp only [Option.getD_some]
      unfold apply at hr
      by_cases hf : σ.firstRun = true
      · rw [if_pos hf] at hr
        unfold applyFirst at hr
        by_cases h1 : allReady n σ.qs = true
        · rw [if_pos h1] at hr
          dsimp only at hr
          split at hr
          · cases hr; exact ⟨_, rfl⟩
          · cases hr
        · rw [if_neg h1] at hr; cases hr
      · rw [if_neg hf] at hr
        unfold applySteady at hr
        by_cases h1 : allReady n σ.qs = true
        · rw [if_pos h1] at hr; cases hr; exact ⟨_, rfl⟩
        · rw [if_neg h1] at hr; cases hr

/-- Admissible events of the 3-phase system: per-phase admissibility (`t0 p i`, `src p i` = stream `i` of phase `p`). -/
def AdmEv3 (P1 P2 P3 : Phase) (t0 : Nat → Nat → Int) (src : Nat → Nat → Int → Option Rat) (σ : St3) : Ev3 → Prop
  | .ph p e =>
    if p = 0 then AdmEv P1.n (t0 0) (src 0) σ.s1 e
    else if p = 1 then AdmEv P2.n (t0 1) (src 1) σ.s2 e
    else if p = 2 then AdmEv P3.n (t0 2) (src 2) σ.s3 e
    else False
  | .zip => True

instance (P1 P2 P3 : Phase) (t0 : Nat → Nat → Int) (src : Nat → Nat → Int → Option Rat) (σ : St3) (e : Ev3) :
    Decidable (AdmEv3 P1 P2 P3 t0 src σ e) := by
  cases e <;> unfold AdmEv3 <;> infer_instance

def AdmFrom3 (P1 P2 P3 : Phase) (t0 : Nat → Nat → Int) (src : Nat → Nat → Int → Option Rat) :
    St3 → List Ev3 → Prop
  | _, [] => True
  | σ, e :: es => AdmEv3 P1 P2 P3 t0 src σ e ∧ AdmFrom3 P1 P2 P3 t0 src (step3 P1 P2 P3 σ e) es

instance (P1 P2 P3 : Phase) (t0 : Nat → Nat → Int) (src : Nat → Nat → Int → Option Rat) :
    ∀ (σ : St3) (es : List Ev3), Decidable (AdmFrom3 P1 P2 P3 t0 src σ es)
  | _, [] => by unfold AdmFrom3; infer_instance
  | σ, e :: es => by
      unfold AdmFrom3
      have := instDecidableAdmFrom3 P1 P2 P3 t0 src (step3 P1 P2 P3 σ e) es
      infer_instance

/-- the k-th 3-phase sample is the zip of the k-th per-phase outputs -/
def Zipped (σ : St3) : Prop :=
  ∀ (k : Nat) (o : Sample3), σ.out[k]? = some o →
    ∃ a b c, σ.s1.out[k]? = some a ∧ σ.s2.out[k]? = some b ∧ σ.s3.out[k]? = some c ∧
      o = ⟨a.ts, a.val, b.val, c.val⟩

structure Inv3 (P1 P2 P3 : Phase) (t0 : Nat → Nat → Int) (src : Nat → Nat → Int → Option Rat) (σ : St3) :
    Prop where
  i1 : Inv P1.n P1.f (t0 0) (src 0) σ.s1
  i2 : Inv P2.n P2.f (t0 1) (src 1) σ.s2
  i3 : Inv P3.n P3.f (t0 2) (src 2) σ.s3
  zipped : Zipped σ

theorem zipped_mono {σ : St3} {s1' s2' s3' : St} (h : Zipped σ)
    (h1 : ∃ t, s1'.out = σ.s1.out ++ t) (h2 : ∃ t, s2'.out = σ.s2.out ++ t) (h3 : ∃ t, s3'.out = σ.s3.out ++ t) :
    Zipped { σ with s1 := s1', s2 := s2', s3 := s3' } := by
  intro k o ho
  obtain ⟨a, b, c, ha, hb, hc, rfl⟩ := h k o ho
  obtain ⟨t1, h1⟩ := h1
  obtain ⟨t2, h2⟩ := h2
  obtain ⟨t3, h3⟩ := h3
  refine ⟨a, b, c, ?_, ?_, ?_, rfl⟩ <;> dsimp only
  · rw [h1, List.getElem?_append_left (lt_length_of_getElem? _ _ _ ha)]; exact ha
  · rw [h2, List.getElem?_append_left (lt_length_of_getElem? _ _ _ hb)]; exact hb
  · rw [h3, List.getElem?_append_left (lt_length_of_getElem? _ _ _ hc)]; exact hc

theorem inv3_init (P1 P2 P3 : Phase) (t0 : Nat → Nat → Int) (src : Nat → Nat → Int → Option Rat) :
    Inv3 P1 P2 P3 t0 src St3.init :=
  ⟨inv_init _ _ _ _, inv_init _ _ _ _, inv_init _ _ _ _, by intro k o ho; simp [St3.init] at ho⟩

theorem inv3_step {P1 P2 P3 : Phase} {t0 : Nat → Nat → Int} {src : Nat → Nat → Int → Option Rat} {σ : St3}
    (hn1 : 0 < P1.n) (hn2 : 0 < P2.n) (hn3 : 0 < P3.n) (h : Inv3 P1 P2 P3 t0 src σ) (e : Ev3)
    (ha : AdmEv3 P1 P2 P3 t0 src σ e) : Inv3 P1 P2 P3 t0 src (step3 P1 P2 P3 σ e) := by
  cases e with
  | zip =>
    show Inv3 P1 P2 P3 t0 src ((zipStep σ).getD σ)
    cases hz : zipStep σ with
    | none => exact h
    | some σ' =>
      simp only [Option.getD_some]
      unfold zipStep at hz
      dsimp only at hz
      split at hz
      · rename_i a b c ha' hb' hc'
        cases hz
        refine ⟨h.i1, h.i2, h.i3, ?_⟩
        intro k o ho
        rcases getElem?_append_cases _ _ _ _ ho with ho | ⟨rfl, rfl⟩
        · exact h.zipped k o ho
        · exact ⟨a, b, c, ha', hb', hc', rfl⟩
      · cases hz
  | ph p e =>
    simp only [AdmEv3] at ha
    show Inv3 P1 P2 P3 t0 src
      (if p = 0 then { σ with s1 := step P1.n P1.f σ.s1 e }
       else if p = 1 then { σ with s2 := step P2.n P2.f σ.s2 e }
       else if p = 2 then { σ with s3 := step P3.n P3.f σ.s3 e } else σ)
    by_cases h0 : p = 0
    · rw [if_pos h0] at ha ⊢
      have := inv_step hn1 h.i1 e ha
      refine ⟨this, h.i2, h.i3, ?_⟩
      exact zipped_mono (σ := σ) h.zipped (step_out_append _ _ _ _) ⟨[], by simp⟩ ⟨[], by simp⟩
    · rw [if_neg h0] at ha ⊢
      by_cases h1 : p = 1
      · rw [if_pos h1] at ha ⊢
        have := inv_step hn2 h.i2 e ha
        refine ⟨h.i1, this, h.i3, ?_⟩
        exact zipped_mono (σ := σ) h.zipped ⟨[], by simp⟩ (step_out_append _ _ _ _) ⟨[], by simp⟩
      · rw [if_neg h1] at ha ⊢
        by_cases h2 : p = 2
        · rw [if_pos h2] at ha ⊢
          have := inv_step hn3 h.i3 e ha
          refine ⟨h.i1, h.i2, this, ?_⟩
          exact zipped_mono (σ := σ) h.zipped ⟨[], by simp⟩ ⟨[], by simp⟩ (step_out_append _ _ _ _)
        · rw [if_neg h2] at ha; exact absurd ha id

theorem inv3_foldl {P1 P2 P3 : Phase} {t0 : Nat → Nat → Int} {src : Nat → Nat → Int → Option Rat}
    (hn1 : 0 < P1.n) (hn2 : 0 < P2.n) (hn3 : 0 < P3.n) : ∀ (es : List Ev3) (σ : St3),
    Inv3 P1 P2 P3 t0 src σ → AdmFrom3 P1 P2 P3 t0 src σ es → Inv3 P1 P2 P3 t0 src (es.foldl (step3 P1 P2 P3) σ)
  | [], _, h, _ => h
  | e :: es, σ, h, ha =>
    inv3_foldl hn1 hn2 hn3 es (step3 P1 P2 P3 σ e) (inv3_step hn1 hn2 hn3 h e ha.1) ha.2

theorem inv3_run {P1 P2 P3 : Phase} {t0 : Nat → Nat → Int} {src : Nat → Nat → Int → Option Rat}
    (hn1 : 0 < P1.n) (hn2 : 0 < P2.n) (hn3 : 0 < P3.n) (es : List Ev3)
    (ha : AdmFrom3 P1 P2 P3 t0 src St3.init es) : Inv3 P1 P2 P3 t0 src (run3 P1 P2 P3 es) :=
  inv3_foldl hn1 hn2 hn3 es St3.init (inv3_init P1 P2 P3 t0 src) ha

end Evaluator
