/-
C06: progress of the single-phase evaluator, and the invariant of the resynchronising 3-phase engine (after every
round the three per-phase read positions stand at the same tick).  Serves Props/C06.lean.
-/
import Frequenz.Lemmas.Evaluator

namespace Evaluator

open QList

/-- `apply()` completes as soon as every stream has delivered the tick that is due. -/
theorem apply_enabled {n : Nat} {f : List (Option Rat) → Option Rat} {t0 : Nat → Int}
    {src : Nat → Int → Option Rat} {σ : St} (hn : 0 < n) (h : Inv n f t0 src σ) (c : Nat)
    (hdue : ∀ i, i < n → t0 i + (σ.all i).length > maxStart n t0 + σ.out.length) :
    (apply n f c σ).isSome = true := by
  unfold apply
  by_cases hf : σ.firstRun = true
  · rw [if_pos hf]
    obtain ⟨hout, hqs⟩ := h.first hf
    have hlen : ∀ i, i < n → 0 < (σ.all i).length := by
      intro i hi
      have := hdue i hi
      have := maxStart_ge n t0 i hi
      rw [hout] at *
      simp at *
      omega
    have hr : allReady n σ.qs = true := by
      rw [allReady_iff]
      intro i hi hq
      rw [hqs i] at hq
      have := hlen i hi
      rw [hq] at this; simp at this
    have hhead : ∀ i, i < n → headTs (σ.qs i) = t0 i := by
      intro i hi
      have hne : (σ.all i).drop 0 ≠ [] := by
        have := hlen i hi
        intro hq; simp at hq; rw [hq] at this; simp at this
      have := suffix_head (h.hist i) 0 hne
      rw [hqs i]; simpa using this.1
    have hT : latestTs n σ.qs = maxStart n t0 := by
      unfold latestTs maxStart
      rw [hhead 0 hn]
      exact foldl_max_congr _ _ _ _ (fun i hi => hhead i (List.mem_range.mp hi))
    unfold applyFirst
    rw [if_pos hr]
    (try dsimp only)
    rw [hT]
    have hat : allAt n (maxStart n t0) (fun i => drain (maxStart n t0) (σ.qs i)) = true := by
      rw [allAt_iff]
      intro i hi
      (try dsimp only)
      obtain ⟨d, hd, hcase⟩ := drain_spec (src i) (maxStart n t0) (σ.all i) (t0 i) (h.hist i)
        (maxStart_ge n t0 i hi)
      have hdl : d < (σ.all i).length := by
        have := hdue i hi
        rw [hout] at this
        simp at this
        omega
      rw [hqs i]
      rcases hcase with hc | ⟨hl, _⟩
      · have hne : (σ.all i).drop d ≠ [] := by
          intro hq
          have := (drop_eq_nil_iff _ _).mp hq
          omega
        rw [hc]
        exact ⟨hne, by rw [(suffix_head (h.hist i) d hne).1, hd]⟩
      · omega
    rw [if_pos hat]
    rfl
  · rw [if_neg hf]
    have hf' : σ.firstRun = false := by cases hh : σ.firstRun <;> simp_all
    unfold applySteady
    have hr : allReady n σ.qs = true := by
      rw [allReady_iff]
      intro i hi hq
      obtain ⟨d, _, hdt, hqd⟩ := h.steady hf' i hi
      rw [hqd] at hq
      have := (drop_eq_nil_iff _ _).mp hq
      have := hdue i hi
      omega
    rw [if_pos hr]
    rfl

/-- a step never rewrites what was already emitted -/
theorem step_out_append (n : Nat) (f : List (Option Rat) → Option Rat) (σ : St) (e : Ev) :
    ∃ t, (step n f σ e).out = σ.out ++ t := by
  cases e with
  | deliver i s => exact ⟨[], by rw [step_deliver]; simp⟩
  | eval c =>
    rw [step_eval]
    cases hr : apply n f c σ with
    | none => exact ⟨[], by simp⟩
    | some σ' =>
      simp only [Option.getD_some]
      unfold apply at hr
      by_cases hf : σ.firstRun = true
      · rw [if_pos hf] at hr
        unfold applyFirst at hr
        by_cases h1 : allReady n σ.qs = true
        · rw [if_pos h1] at hr
          dsimp only at hr
          split at hr
          · cases hr; exact ⟨_, rfl⟩
          · cases hr
        · rw [if_neg h1] at hr; cases hr
      · rw [if_neg hf] at hr
        unfold applySteady at hr
        by_cases h1 : allReady n σ.qs = true
        · rw [if_pos h1] at hr; cases hr; exact ⟨_, rfl⟩
        · rw [if_neg h1] at hr; cases hr

/-- Admissible events of the 3-phase system: per-phase admissibility (`t0 p i`, `src p i` = stream `i` of phase `p`). -/
def AdmEv3 (P1 P2 P3 : Phase) (t0 : Nat → Nat → Int) (src : Nat → Nat → Int → Option Rat) (σ : St3) : Ev3 → Prop
  | .ph p e =>
    if p = 0 then AdmEv P1.n (t0 0) (src 0) σ.s1 e
    else if p = 1 then AdmEv P2.n (t0 1) (src 1) σ.s2 e
    else if p = 2 then AdmEv P3.n (t0 2) (src 2) σ.s3 e
    else False
  | .zip => True

instance (P1 P2 P3 : Phase) (t0 : Nat → Nat → Int) (src : Nat → Nat → Int → Option Rat) (σ : St3) (e : Ev3) :
    Decidable (AdmEv3 P1 P2 P3 t0 src σ e) := by
  cases e <;> unfold AdmEv3 <;> infer_instance

def AdmFrom3 (resync : Bool) (P1 P2 P3 : Phase) (t0 : Nat → Nat → Int) (src : Nat → Nat → Int → Option Rat) :
    St3 → List Ev3 → Prop
  | _, [] => True
  | σ, e :: es => AdmEv3 P1 P2 P3 t0 src σ e ∧ AdmFrom3 resync P1 P2 P3 t0 src (step3 resync P1 P2 P3 σ e) es

instance (resync : Bool) (P1 P2 P3 : Phase) (t0 : Nat → Nat → Int) (src : Nat → Nat → Int → Option Rat) :
    ∀ (σ : St3) (es : List Ev3), Decidable (AdmFrom3 resync P1 P2 P3 t0 src σ es)
  | _, [] => by unfold AdmFrom3; infer_instance
  | σ, e :: es => by
      unfold AdmFrom3
      have := instDecidableAdmFrom3 resync P1 P2 P3 t0 src (step3 resync P1 P2 P3 σ e) es
      infer_instance

/-- the value a per-phase engine emits for tick `t` -/
def phaseVal (P : Phase) (src : Nat → Int → Option Rat) (t : Int) : Option Rat := P.f (valuesAt P.n src t)

/-- the outputs of a per-phase engine are gap-free from its `T0` -/
theorem out_gapFree {n : Nat} {f : List (Option Rat) → Option Rat} {t0 : Nat → Int}
    {src : Nat → Int → Option Rat} {σ : St} (h : Inv n f t0 src σ) :
    GapFree (maxStart n t0) (fun t => f (valuesAt n src t)) σ.out := by
  intro k s hs
  rw [h.outs k s hs]
  exact ⟨rfl, rfl⟩

theorem GapFree.drop {a : Int} {v : Int → Option Rat} {l : List Sample} (h : GapFree a v l) (z : Nat) :
    GapFree (a + z) v (l.drop z) := by
  intro k s hs
  rw [List.getElem?_drop] at hs
  have := h (z + k) s hs
  push_cast at this
  constructor
  · omega
  · rw [this.2]; congr 1; omega

/-- the resynchronisation loop on gap-free outputs ends exactly at the sample stamped `t` -/
theorem seek_spec (v : Int → Option Rat) (t : Int) : ∀ (l : List Sample) (a : Int) (x : Sample) (k : Nat),
    GapFree a v l → a ≤ t → seek t l = some (x, k) → a + k = t ∧ x.ts = t ∧ x.val = v t
  | [], _, _, _, _, _, h => by simp [seek] at h
  | s :: r, a, x, k, hg, hle, h => by
      have hs := hg 0 s (by simp)
      simp at hs
      unfold seek at h
      by_cases hlt : s.ts < t
      · rw [if_pos hlt] at h
        cases hr : seek t r with
        | none => rw [hr] at h; cases h
        | some xk =>
          obtain ⟨x', k'⟩ := xk
          rw [hr] at h
          simp only [Option.some.injEq, Prod.mk.injEq] at h
          obtain ⟨rfl, rfl⟩ := h
          obtain ⟨e1, e2, e3⟩ := seek_spec v t r (a + 1) x' k' hg.tail (by omega) hr
          exact ⟨by push_cast; omega, e2, e3⟩
      · rw [if_neg hlt] at h
        simp only [Option.some.injEq, Prod.mk.injEq] at h
        obtain ⟨rfl, rfl⟩ := h
        have : a = t := by omega
        subst this
        exact ⟨by simp, hs.1, hs.2⟩

theorem headTs_gapFree {a : Int} {v : Int → Option Rat} {l : List Sample} (h : GapFree a v l)
    (hne : l.isEmpty = false) : headTs l = a := by
  cases l with
  | nil => simp at hne
  | cons s r => have := h 0 s (by simp); simp at this; exact this.1

/-- the latest of the three per-phase start timestamps -/
def maxStart3 (P1 P2 P3 : Phase) (t0 : Nat → Nat → Int) : Int :=
  max (max (maxStart P1.n (t0 0)) (maxStart P2.n (t0 1))) (maxStart P3.n (t0 2))

structure Inv3 (P1 P2 P3 : Phase) (t0 : Nat → Nat → Int) (src : Nat → Nat → Int → Option Rat) (σ : St3) :
    Prop where
  i1 : Inv P1.n P1.f (t0 0) (src 0) σ.s1
  i2 : Inv P2.n P2.f (t0 1) (src 1) σ.s2
  i3 : Inv P3.n P3.f (t0 2) (src 2) σ.s3
  fresh : σ.out = [] → σ.z1 = 0 ∧ σ.z2 = 0 ∧ σ.z3 = 0
  synced : σ.out ≠ [] →
      maxStart P1.n (t0 0) + σ.z1 = maxStart3 P1 P2 P3 t0 + σ.out.length ∧
      maxStart P2.n (t0 1) + σ.z2 = maxStart3 P1 P2 P3 t0 + σ.out.length ∧
      maxStart P3.n (t0 2) + σ.z3 = maxStart3 P1 P2 P3 t0 + σ.out.length
  outs : ∀ (k : Nat) (o : Sample3), σ.out[k]? = some o →
      o = ⟨maxStart3 P1 P2 P3 t0 + k, phaseVal P1 (src 0) (maxStart3 P1 P2 P3 t0 + k),
           phaseVal P2 (src 1) (maxStart3 P1 P2 P3 t0 + k), phaseVal P3 (src 2) (maxStart3 P1 P2 P3 t0 + k)⟩

theorem inv3_init (P1 P2 P3 : Phase) (t0 : Nat → Nat → Int) (src : Nat → Nat → Int → Option Rat) :
    Inv3 P1 P2 P3 t0 src St3.init :=
  ⟨inv_init _ _ _ _, inv_init _ _ _ _, inv_init _ _ _ _, by intro _; simp [St3.init],
   by intro h; simp [St3.init] at h, by intro k o ho; simp [St3.init] at ho⟩

theorem inv3_zip {P1 P2 P3 : Phase} {t0 : Nat → Nat → Int} {src : Nat → Nat → Int → Option Rat} {σ σ' : St3}
    (h : Inv3 P1 P2 P3 t0 src σ) (hz : zipResync σ = some σ') : Inv3 P1 P2 P3 t0 src σ' := by
  unfold zipResync at hz
  dsimp only at hz
  have g1 := (out_gapFree h.i1).drop σ.z1
  have g2 := (out_gapFree h.i2).drop σ.z2
  have g3 := (out_gapFree h.i3).drop σ.z3
  by_cases he : ((σ.s1.out.drop σ.z1).isEmpty || (σ.s2.out.drop σ.z2).isEmpty || (σ.s3.out.drop σ.z3).isEmpty) = true
  · rw [if_pos he] at hz; cases hz
  · rw [if_neg he] at hz
    simp only [Bool.or_eq_true, not_or, Bool.not_eq_true] at he
    obtain ⟨⟨he1, he2⟩, he3⟩ := he
    rw [headTs_gapFree g1 he1, headTs_gapFree g2 he2, headTs_gapFree g3 he3] at hz
    -- the latest of the three head timestamps is the tick that is due
    have hdue : max (max (maxStart P1.n (t0 0) + (σ.z1 : Int)) (maxStart P2.n (t0 1) + (σ.z2 : Int)))
        (maxStart P3.n (t0 2) + (σ.z3 : Int)) = maxStart3 P1 P2 P3 t0 + σ.out.length := by
      by_cases hout : σ.out = []
      · obtain ⟨e1, e2, e3⟩ := h.fresh hout
        rw [e1, e2, e3, hout]
        unfold maxStart3
        simp
      · obtain ⟨e1, e2, e3⟩ := h.synced hout
        rw [e1, e2, e3]
        omega
    rw [hdue] at hz
    cases hs1 : seek (maxStart3 P1 P2 P3 t0 + σ.out.length) (σ.s1.out.drop σ.z1) with
    | none => rw [hs1] at hz; cases hz
    | some ak =>
      obtain ⟨a, k1⟩ := ak
      rw [hs1] at hz
      dsimp only at hz
      cases hs2 : seek (maxStart3 P1 P2 P3 t0 + σ.out.length) (σ.s2.out.drop σ.z2) with
      | none => rw [hs2] at hz; cases hz
      | some bk =>
        obtain ⟨b, k2⟩ := bk
        rw [hs2] at hz
        dsimp only at hz
        cases hs3 : seek (maxStart3 P1 P2 P3 t0 + σ.out.length) (σ.s3.out.drop σ.z3) with
        | none => rw [hs3] at hz; cases hz
        | some ck =>
          obtain ⟨c, k3⟩ := ck
          rw [hs3] at hz
          dsimp only at hz
          cases hz
          obtain ⟨a1, a2, a3⟩ := seek_spec _ _ _ _ a k1 g1 (by omega) hs1
          obtain ⟨b1, b2, b3⟩ := seek_spec _ _ _ _ b k2 g2 (by omega) hs2
          obtain ⟨c1, c2, c3⟩ := seek_spec _ _ _ _ c k3 g3 (by omega) hs3
          refine ⟨h.i1, h.i2, h.i3, ?_, ?_, ?_⟩ <;> dsimp only
          · intro hc; simp at hc
          · intro _
            simp only [List.length_append, List.length_cons, List.length_nil]
            push_cast
            refine ⟨by omega, by omega, by omega⟩
          · intro k o ho
            rcases getElem?_append_cases _ _ _ _ ho with ho | ⟨rfl, rfl⟩
            · exact h.outs k o ho
            · rw [a2, a3, b3, c3]; rfl

theorem inv3_step {P1 P2 P3 : Phase} {t0 : Nat → Nat → Int} {src : Nat → Nat → Int → Option Rat} {σ : St3}
    (hn1 : 0 < P1.n) (hn2 : 0 < P2.n) (hn3 : 0 < P3.n) (h : Inv3 P1 P2 P3 t0 src σ) (e : Ev3)
    (ha : AdmEv3 P1 P2 P3 t0 src σ e) : Inv3 P1 P2 P3 t0 src (step3 true P1 P2 P3 σ e) := by
  cases e with
  | zip =>
    show Inv3 P1 P2 P3 t0 src ((zipStep true σ).getD σ)
    have : zipStep true σ = zipResync σ := rfl
    rw [this]
    cases hz : zipResync σ with
    | none => exact h
    | some σ' => exact inv3_zip h hz
  | ph p e =>
    simp only [AdmEv3] at ha
    show Inv3 P1 P2 P3 t0 src
      (if p = 0 then { σ with s1 := step P1.n P1.f σ.s1 e }
       else if p = 1 then { σ with s2 := step P2.n P2.f σ.s2 e }
       else if p = 2 then { σ with s3 := step P3.n P3.f σ.s3 e } else σ)
    by_cases h0 : p = 0
    · rw [if_pos h0] at ha ⊢
      exact ⟨inv_step hn1 h.i1 e ha, h.i2, h.i3, h.fresh, h.synced, h.outs⟩
    · rw [if_neg h0] at ha ⊢
      by_cases h1 : p = 1
      · rw [if_pos h1] at ha ⊢
        exact ⟨h.i1, inv_step hn2 h.i2 e ha, h.i3, h.fresh, h.synced, h.outs⟩
      · rw [if_neg h1] at ha ⊢
        by_cases h2 : p = 2
        · rw [if_pos h2] at ha ⊢
          exact ⟨h.i1, h.i2, inv_step hn3 h.i3 e ha, h.fresh, h.synced, h.outs⟩
        · rw [if_neg h2] at ha; exact absurd ha id

theorem inv3_foldl {P1 P2 P3 : Phase} {t0 : Nat → Nat → Int} {src : Nat → Nat → Int → Option Rat}
    (hn1 : 0 < P1.n) (hn2 : 0 < P2.n) (hn3 : 0 < P3.n) : ∀ (es : List Ev3) (σ : St3),
    Inv3 P1 P2 P3 t0 src σ → AdmFrom3 true P1 P2 P3 t0 src σ es →
    Inv3 P1 P2 P3 t0 src (es.foldl (step3 true P1 P2 P3) σ)
  | [], _, h, _ => h
  | e :: es, σ, h, ha =>
    inv3_foldl hn1 hn2 hn3 es (step3 true P1 P2 P3 σ e) (inv3_step hn1 hn2 hn3 h e ha.1) ha.2

theorem inv3_run {P1 P2 P3 : Phase} {t0 : Nat → Nat → Int} {src : Nat → Nat → Int → Option Rat}
    (hn1 : 0 < P1.n) (hn2 : 0 < P2.n) (hn3 : 0 < P3.n) (es : List Ev3)
    (ha : AdmFrom3 true P1 P2 P3 t0 src St3.init es) : Inv3 P1 P2 P3 t0 src (run3 true P1 P2 P3 es) :=
  inv3_foldl hn1 hn2 hn3 es St3.init (inv3_init P1 P2 P3 t0 src) ha

end Evaluator
