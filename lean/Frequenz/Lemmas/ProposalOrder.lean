/-
`Proposal.__lt__` is a strict total order on keys `(priority, source_id)`; consequently
`sorted(bucket, reverse=True)` is a function of the *set* of proposals when keys are distinct.
-/
import Frequenz.Model.Matryoshka
import Mathlib.Data.String.Basic

namespace Matryoshka

theorem Proposal.lt_asymm {a b : Proposal} (h : a.lt b) : ¬ b.lt a := by
  unfold Proposal.lt Extracted.Proposal.lt at *
  rcases h with h | ⟨h1, h2⟩
  · rintro (h' | ⟨h1', _⟩) <;> omega
  · rintro (h' | ⟨_, h2'⟩)
    · omega
    · exact absurd h2 (_root_.lt_asymm h2')

/-- Negative transitivity: `≥` (in the sense `¬ <`) is transitive. -/
theorem Proposal.ge_trans {a b c : Proposal} (hab : ¬ a.lt b) (hbc : ¬ b.lt c) : ¬ a.lt c := by
  unfold Proposal.lt Extracted.Proposal.lt at *
  simp only [not_or, not_and, Int.not_lt] at hab hbc
  rintro (h | ⟨h1, h2⟩)
  · have h1 := hab.1; have h2 := hbc.1; omega
  · have hb : b.prio = a.prio := by have := hab.1; have := hbc.1; omega
    have hsab : ¬ a.src < b.src := hab.2 hb.symm
    have hsbc : ¬ b.src < c.src := hbc.2 (by omega)
    exact absurd (lt_of_lt_of_le h2 (not_lt.mp hsbc)) (not_lt.mpr (not_lt.mp hsab))

theorem Proposal.sameKey_of_not_lt {a b : Proposal} (hab : ¬ a.lt b) (hba : ¬ b.lt a) : a.sameKey b := by
  unfold Proposal.lt Extracted.Proposal.lt at *
  unfold Proposal.sameKey Extracted.Proposal.eq
  simp only [not_or, not_and, Int.not_lt] at hab hba
  have hp : a.prio = b.prio := by have := hab.1; have := hba.1; omega
  refine ⟨hp, ?_⟩
  exact le_antisymm (not_lt.mp (hba.2 hp.symm)) (not_lt.mp (hab.2 hp))

/-- No two members of the list share a `(priority, source_id)` key — what a Python `set` of
proposals guarantees through `__eq__`/`__hash__`. -/
def KeysDistinct (ps : List Proposal) : Prop := ps.Pairwise (fun a b => ¬ a.sameKey b)

theorem geB_trans (a b c : Proposal) (h1 : geB a b = true) (h2 : geB b c = true) : geB a c = true := by
  unfold geB at *
  simp only [decide_eq_true_eq] at *
  exact Proposal.ge_trans h1 h2

theorem geB_total (a b : Proposal) : (geB a b || geB b a) = true := by
  unfold geB
  by_cases h : a.lt b
  · simp [Proposal.lt_asymm h]
  · simp [h]

theorem insertDesc_perm (p : Proposal) (l : List Proposal) : (insertDesc p l).Perm (p :: l) := by
  induction l with
  | nil => exact List.Perm.refl _
  | cons q qs ih =>
    unfold insertDesc
    split
    · exact List.Perm.refl _
    · exact (List.Perm.cons q ih).trans (List.Perm.swap p q qs)

theorem sortDesc_perm (ps : List Proposal) : (sortDesc ps).Perm ps := by
  induction ps with
  | nil => exact List.Perm.refl _
  | cons p ps ih => exact (insertDesc_perm p _).trans (List.Perm.cons p ih)

theorem insertDesc_pairwise (p : Proposal) (l : List Proposal)
    (hl : l.Pairwise (fun a b => geB a b = true)) :
    (insertDesc p l).Pairwise (fun a b => geB a b = true) := by
  induction l with
  | nil => exact List.pairwise_singleton _ _
  | cons q qs ih =>
    unfold insertDesc
    rw [List.pairwise_cons] at hl
    split
    · rename_i h
      rw [List.pairwise_cons]
      refine ⟨?_, List.pairwise_cons.mpr hl⟩
      intro x hx
      rcases List.mem_cons.mp hx with rfl | hx
      · exact h
      · exact geB_trans _ _ _ h (hl.1 x hx)
    · rename_i h
      rw [List.pairwise_cons]
      refine ⟨?_, ih hl.2⟩
      intro x hx
      rcases List.mem_cons.mp ((insertDesc_perm p qs).subset hx) with rfl | hx
      · have := geB_total x q
        simp only [Bool.or_eq_true] at this
        rcases this with h' | h'
        · exact absurd h' h
        · exact h'
      · exact hl.1 x hx

theorem sortDesc_pairwise (ps : List Proposal) : (sortDesc ps).Pairwise (fun a b => geB a b = true) := by
  induction ps with
  | nil => exact List.Pairwise.nil
  | cons p ps ih => exact insertDesc_pairwise p _ ih

theorem eq_of_mem_sameKey {ps : List Proposal} (hd : KeysDistinct ps) {a b : Proposal}
    (ha : a ∈ ps) (hb : b ∈ ps) (hk : a.sameKey b) : a = b := by
  unfold KeysDistinct at hd
  induction ps with
  | nil => cases ha
  | cons x xs ih =>
    rw [List.pairwise_cons] at hd
    rcases List.mem_cons.mp ha with rfl | ha' <;> rcases List.mem_cons.mp hb with rfl | hb'
    · rfl
    · exact absurd hk (hd.1 b hb')
    · exact absurd ⟨hk.1.symm, hk.2.symm⟩ (hd.1 a ha')
    · exact ih hd.2 ha' hb'

/-- `sorted(·, reverse=True)` does not depend on the order in which a key-distinct set is listed. -/
theorem sortDesc_eq_of_perm {b1 b2 : List Proposal} (hp : b1.Perm b2) (hd : KeysDistinct b1) :
    sortDesc b1 = sortDesc b2 := by
  have hperm : (sortDesc b1).Perm (sortDesc b2) :=
    (sortDesc_perm b1).trans (hp.trans (sortDesc_perm b2).symm)
  refine List.Perm.eq_of_pairwise (le := fun a b => geB a b = true) ?_ (sortDesc_pairwise b1)
    (sortDesc_pairwise b2) hperm
  intro a b ha hb hab hba
  have ha' : a ∈ b1 := (sortDesc_perm b1).subset ha
  have hb' : b ∈ b1 := hp.symm.subset ((sortDesc_perm b2).subset hb)
  unfold geB at hab hba
  simp only [decide_eq_true_eq] at hab hba
  exact eq_of_mem_sameKey hd ha' hb' (Proposal.sameKey_of_not_lt hab hba)

end Matryoshka
