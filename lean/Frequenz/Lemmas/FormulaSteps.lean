/-
Facts about the step semantics (the bodies are `Extracted.Formula.*`, regenerated from `_formula_steps.py`), and
the monadic bookkeeping used by the compiler-correctness proof (serves C05, C13).

The proofs of this file are written so that they go through for the pinned bodies AND for the bodies after the
proposed fixes (`fixes/C13-*.patch`); what they need from the source is stated as lemmas:
  * `+`, `-`, `*` never raise and are the rational operations on finite operands, NaN otherwise;
  * `(a + b) - d = a + (b - d)` and `(a * b) / d = a * (b / d)` *including* when the division raises / yields NaN.
-/
import Frequenz.Model.Shunting

namespace Formula

open Extracted.Formula

set_option linter.unusedSimpArgs false

/-- `simp` with every translated step body and every float primitive unfolded (whatever comparisons, negations or
conditional forms the current source uses). -/
syntax "pyf_simp" ("[" Lean.Parser.Tactic.simpLemma,* "]")? : tactic
macro_rules
  | `(tactic| pyf_simp) => `(tactic| pyf_simp [])
  | `(tactic| pyf_simp [$ts,*]) => `(tactic|
      simp [binVal, unVal, binAdder, binSubtractor, binMultiplier, binDivider, binMaximizer, binMinimizer,
        unConsumption, unProduction, unClipper, clipVal, PyF.add, PyF.sub, PyF.mul, PyF.neg, PyF.div, PyF.max, PyF.min, PyF.gt, PyF.lt,
        PyF.ge, PyF.le, PyF.eq, PyF.ne, PyF.lit, PyF.nan, PyF.isnan, bind, Except.bind, pure, Except.pure, $ts,*])

/-! ## Frame lemmas: a step only touches the top of the stack -/

theorem applyOp_bin (o : BinOp) (a b : V) (vs : List V) :
    applyOp o.toOp (b :: a :: vs) = (binVal o a b).map (· :: vs) := by
  cases o <;> rfl

theorem applyOp_un (u : UnOp) (a : V) (vs : List V) :
    applyOp u.toOp (a :: vs) = (unVal u a).map (· :: vs) := by
  cases u <;> rfl

theorem exec_append (env : Env) (c d : List Step) (vs : List V) :
    exec env (c ++ d) vs = exec env c vs >>= exec env d := by
  induction c generalizing vs with
  | nil => rfl
  | cons s ss ih =>
    simp only [List.cons_append, exec]
    cases applyStep env s vs with
    | error e => rfl
    | ok st => exact ih st

/-- The final test leaves finite values alone and maps NaN to `None`: on the values of the exact model the
emitted value is the stack value. -/
theorem emitValue_id (v : V) : emitValue v = v := by
  cases v <;> simp [emitValue, ofV, resultIsNone, PyF.isnanC, PyF.isinfC, PyF.isfiniteC]

/-! ## What the proof needs from `Adder`, `Subtractor`, `Multiplier`, `Divider` -/

theorem binVal_add (a b : V) : binVal .add a b = .ok (PyF.add a b) := by
  cases a <;> cases b <;>
    pyf_simp <;> grind

theorem binVal_sub (a b : V) : binVal .sub a b = .ok (PyF.sub a b) := by
  cases a <;> cases b <;>
    pyf_simp <;> grind

theorem binVal_mul (a b : V) : binVal .mul a b = .ok (PyF.mul a b) := by
  cases a <;> cases b <;>
    pyf_simp <;> grind

theorem rat_mul_div (x w y : Rat) : x * w / y = x * (w / y) := by
  rw [Rat.div_def, Rat.div_def, Rat.mul_assoc]

theorem add_sub_assoc (a b d : V) : PyF.sub (PyF.add a b) d = PyF.add a (PyF.sub b d) := by
  cases a <;> cases b <;> cases d <;> simp [PyF.add, PyF.sub] <;> grind

/-- `(a * b) / d` and `a * (b / d)` agree — also on *whether* the division raises. -/
theorem mul_div_assoc (a b d : V) :
    binVal .div (PyF.mul a b) d = binVal .div b d >>= fun q => .ok (PyF.mul a q) := by
  cases a <;> cases b <;> cases d <;>
    pyf_simp
  all_goals
    rename_i y
    by_cases h : y = 0
    · subst h; pyf_simp
    · have h' : ¬ (0 : Rat) = y := fun e => h e.symm
      pyf_simp [h, h', rat_mul_div]

/-! ## On finite operands every step is the rational operation -/

theorem binVal_some (o : BinOp) (x y q : Rat) (h : binQ o x y = some q) :
    binVal o (some x) (some y) = .ok (some q) := by
  cases o <;>
    simp [binQ] at h <;>
    pyf_simp [h] <;> grind

theorem unVal_some (u : UnOp) (x : Rat) : unVal u (some x) = .ok (some (unQ u x)) := by
  cases u <;>
    pyf_simp [unQ] <;> grind

/-- With every input present and no zero divisor, the tree evaluates to its value in ordinary arithmetic. -/
theorem evalAst_arith (zf : Nat → Bool) (env : Env) (val : Nat → Rat) (a : Ast)
    (hpres : ∀ n ∈ a.ids, env n = .val (val n)) (q : Rat) (h : evalQ val a = some q) :
    evalAst zf env a = .ok (some q) := by
  induction a generalizing q with
  | metric n =>
    simp only [evalQ, Option.some.injEq] at h
    simp [evalAst, hpres n (by simp [Ast.ids]), fetch, h]
  | const c =>
    simp only [evalQ, Option.some.injEq] at h
    simp [evalAst, h]
  | bin o l r ihl ihr =>
    simp only [evalQ] at h
    cases hl : evalQ val l with
    | none => simp [hl] at h
    | some x =>
      cases hr : evalQ val r with
      | none => simp [hl, hr] at h
      | some y =>
        simp only [hl, hr] at h
        have h1 := ihl (fun n hn => hpres n (by simp [Ast.ids, hn])) x hl
        have h2 := ihr (fun n hn => hpres n (by simp [Ast.ids, hn])) y hr
        simp only [evalAst, h1, h2]
        exact binVal_some o x y q h
  | un u a ih =>
    simp only [evalQ] at h
    cases ha : evalQ val a with
    | none => simp [ha] at h
    | some x =>
      simp only [ha, Option.map_some, Option.some.injEq] at h
      have h1 := ih (fun n hn => hpres n (by simpa [Ast.ids] using hn)) x ha
      simp only [evalAst, h1]
      subst h
      exact unVal_some u x

/-! ## Monadic bookkeeping -/

/-- `x ⟨o⟩ y`, operands evaluated left to right. -/
def lift2 (o : BinOp) (x y : M V) : M V := x >>= fun a => y >>= fun b => binVal o a b

/-- Running `c` pushes the value of `x` (or raises what `x` raises). -/
def Sem1 (env : Env) (c : List Step) (x : M V) : Prop :=
  ∀ vs, exec env c vs = x >>= fun a => .ok (a :: vs)

def Sem2 (env : Env) (c : List Step) (x y : M V) : Prop :=
  ∀ vs, exec env c vs = x >>= fun a => y >>= fun b => .ok (b :: a :: vs)

def Sem3 (env : Env) (c : List Step) (x y z : M V) : Prop :=
  ∀ vs, exec env c vs = x >>= fun a => y >>= fun b => z >>= fun d => .ok (d :: b :: a :: vs)

theorem exec_op_bin (env : Env) (o : BinOp) (a b : V) (vs : List V) :
    exec env [.op o.toOp] (b :: a :: vs) = binVal o a b >>= fun r => .ok (r :: vs) := by
  simp only [exec, applyStep, applyOp_bin]
  cases binVal o a b <;> rfl

theorem exec_op_un (env : Env) (u : UnOp) (a : V) (vs : List V) :
    exec env [.op u.toOp] (a :: vs) = unVal u a >>= fun r => .ok (r :: vs) := by
  simp only [exec, applyStep, applyOp_un]
  cases unVal u a <;> rfl

theorem sem1_nil_append {env : Env} {c : List Step} {x : M V} (h : Sem1 env c x) : Sem1 env (c ++ []) x := by
  simpa using h

theorem sem1_sem1 {env : Env} {c d : List Step} {x y : M V} (hc : Sem1 env c x) (hd : Sem1 env d y) :
    Sem2 env (c ++ d) x y := by
  intro vs
  rw [exec_append, hc vs]
  cases x with
  | error e => rfl
  | ok a => exact hd (a :: vs)

theorem sem2_sem1 {env : Env} {c d : List Step} {x y z : M V} (hc : Sem2 env c x y) (hd : Sem1 env d z) :
    Sem3 env (c ++ d) x y z := by
  intro vs
  rw [exec_append, hc vs]
  cases x with
  | error e => rfl
  | ok a =>
    cases y with
    | error e => rfl
    | ok b => exact hd (b :: a :: vs)

theorem sem2_op {env : Env} {c : List Step} {x y : M V} (o : BinOp) (hc : Sem2 env c x y) :
    Sem1 env (c ++ [.op o.toOp]) (lift2 o x y) := by
  intro vs
  rw [exec_append, hc vs]
  cases x with
  | error e => rfl
  | ok a =>
    cases y with
    | error e => rfl
    | ok b =>
      show exec env [.op o.toOp] (b :: a :: vs) = _
      rw [exec_op_bin]
      rfl

theorem sem1_un {env : Env} {c : List Step} {x : M V} (u : UnOp) (hc : Sem1 env c x) :
    Sem1 env (c ++ [.op u.toOp]) (x >>= unVal u) := by
  intro vs
  rw [exec_append, hc vs]
  cases x with
  | error e => rfl
  | ok a =>
    show exec env [.op u.toOp] (a :: vs) = _
    rw [exec_op_un]
    rfl

theorem sem3_op {env : Env} {c : List Step} {x y z : M V} (o : BinOp) (hc : Sem3 env c x y z) :
    Sem2 env (c ++ [.op o.toOp]) x (lift2 o y z) := by
  intro vs
  rw [exec_append, hc vs]
  cases x with
  | error e => rfl
  | ok a =>
    cases y with
    | error e => rfl
    | ok b =>
      cases z with
      | error e => rfl
      | ok d =>
        show exec env [.op o.toOp] (d :: b :: a :: vs) = _
        rw [exec_op_bin]
        simp only [lift2, bind, Except.bind]

/-! ## One precedence level: a "loose" operator `L` and a "tight" one `R` (`*` and `/`, or `+` and `-`)

`_operator_precedence` ranks `R` before `L` (so `a L b R d` is compiled as `a L (b R d)`); what makes that
harmless is `alg`. -/
structure Level where
  L : BinOp
  R : BinOp
  hRL : prec R.toOp < prec L.toOp
  totL : ∃ f : V → V → V, ∀ a b, binVal L a b = .ok (f a b)
  alg : ∀ a b d, (binVal L a b >>= fun p => binVal R p d) = (binVal R b d >>= fun q => binVal L a q)

theorem lift2_alg (lv : Level) (x y z : M V) :
    lift2 lv.R (lift2 lv.L x y) z = lift2 lv.L x (lift2 lv.R y z) := by
  obtain ⟨f, hf⟩ := lv.totL
  cases x with
  | error e => rfl
  | ok a =>
    cases y with
    | error e => rfl
    | ok b =>
      cases z with
      | error e => simp [lift2, hf, bind, Except.bind]
      | ok d =>
        have := lv.alg a b d
        simpa [lift2, bind, Except.bind] using this

/-- An engine whose program never raises emits exactly one sample per round. -/
theorem engineRun_of_run {steps : List Step} {f : Env → Option Rat} (h : ∀ env, run steps env = .ok (f env))
    (rounds : List (Int × Env)) : engineRun steps rounds = rounds.map fun r => ⟨r.1, f r.2⟩ := by
  induction rounds with
  | nil => rfl
  | cons r rs ih =>
    simp only [engineRun, List.flatMap_cons, List.map_cons] at ih ⊢
    rw [ih]
    simp [engineRound, h r.2]

end Formula
