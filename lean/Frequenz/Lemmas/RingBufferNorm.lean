/-
`normalize_timestamp` (model: `normSlot`) and the slot grid (C09): grid points are fixed, the map is monotone,
and — for a period of an even number of microseconds — it is "nearest slot, exact ties to the even slot".
-/
import Frequenz.Model.RingBuffer

set_option linter.unusedSimpArgs false
set_option linter.unusedVariables false

namespace RingBuffer
open Extracted.RingBuffer

/-- Meaning of the translated rounding test, whatever the order of its `and` / `or` operands in the source. -/
theorem normRoundUp_iff (r q h : Int) : normRoundUp r q h ↔ (r ≠ 0 ∧ ((h = r ∧ q % 2 ≠ 0) ∨ h < r)) := by
  unfold normRoundUp
  constructor <;> intro hx <;> omega

theorem slotTime_le_iff (c : Cfg) (hp : 0 < c.period) (x y : Int) : slotTime c x ≤ slotTime c y ↔ x ≤ y := by
  unfold slotTime
  constructor
  · intro h
    have : x * c.period ≤ y * c.period := by omega
    exact Int.le_of_mul_le_mul_right this hp
  · intro h
    have := Int.mul_le_mul_of_nonneg_right h (Int.le_of_lt hp)
    omega

theorem slotTime_lt_iff (c : Cfg) (hp : 0 < c.period) (x y : Int) : slotTime c x < slotTime c y ↔ x < y := by
  have := slotTime_le_iff c hp y x
  omega

theorem slotTime_inj (c : Cfg) (hp : 0 < c.period) (x y : Int) : slotTime c x = slotTime c y ↔ x = y := by
  have h1 := slotTime_le_iff c hp x y
  have h2 := slotTime_le_iff c hp y x
  omega

theorem slotTime_succ (c : Cfg) (k : Int) : slotTime c (k + 1) = slotTime c k + c.period := by
  unfold slotTime; rw [Int.add_mul]; omega

theorem slotTime_sub (c : Cfg) (x y : Int) : slotTime c x - slotTime c y = (x - y) * c.period := by
  unfold slotTime; rw [Int.sub_mul]; omega

/-- Grid points are fixed points: `normalize_timestamp(align + k·period) = align + k·period`. -/
theorem normSlot_slotTime (c : Cfg) (hp : 0 < c.period) (k : Int) : normSlot c (slotTime c k) = k := by
  unfold normSlot slotTime
  have h0 : c.period ≠ 0 := by omega
  have e : c.align + k * c.period - c.align = k * c.period := by omega
  rw [e, Int.mul_ediv_cancel _ h0, Int.mul_emod_left]
  simp [normRoundUp_iff]

/-- Decomposition of a timestamp: floor quotient and remainder. -/
theorem divmod_spec (c : Cfg) (hp : 0 < c.period) (ts : Int) :
    ts - c.align = (ts - c.align) / c.period * c.period + (ts - c.align) % c.period
    ∧ 0 ≤ (ts - c.align) % c.period ∧ (ts - c.align) % c.period < c.period := by
  have h0 : c.period ≠ 0 := by omega
  refine ⟨?_, Int.emod_nonneg _ h0, Int.emod_lt_of_pos _ hp⟩
  have := Int.emod_add_ediv_mul (ts - c.align) c.period
  omega

/-- `normalize_timestamp` is monotone. -/
theorem normSlot_mono (c : Cfg) (hp : 0 < c.period) {x y : Int} (h : x ≤ y) : normSlot c x ≤ normSlot c y := by
  obtain ⟨ex, hx0, hxp⟩ := divmod_spec c hp x
  obtain ⟨ey, hy0, hyp⟩ := divmod_spec c hp y
  have hq : (x - c.align) / c.period ≤ (y - c.align) / c.period := Int.ediv_le_ediv hp (by omega)
  unfold normSlot
  simp only [normRoundUp_iff]
  generalize hqx : (x - c.align) / c.period = qx at *
  generalize hqy : (y - c.align) / c.period = qy at *
  generalize hrx : (x - c.align) % c.period = rx at *
  generalize hry : (y - c.align) % c.period = ry at *
  generalize halfPeriod c.period = hh
  by_cases hlt : qx < qy
  · split <;> split <;> omega
  · have hqe : qx = qy := by omega
    subst hqe
    have hr : rx ≤ ry := by omega
    split
    · rename_i h1
      have : ry ≠ 0 ∧ (hh = ry ∧ qx % 2 ≠ 0 ∨ hh < ry) := by
        obtain ⟨a1, a2⟩ := h1
        refine ⟨by omega, ?_⟩
        rcases a2 with ⟨b1, b2⟩ | b
        · by_cases e : ry = rx
          · left; exact ⟨by omega, b2⟩
          · right; omega
        · right; omega
      rw [if_pos this]; omega
    · split <;> omega

/-- For an even number of microseconds, `sampling_period / 2` is exact. -/
theorem halfPeriod_even (p : Int) (h : p % 2 = 0) : 2 * halfPeriod p = p := by
  unfold halfPeriod; simp only [h, if_true]; omega

/-- Even period: the normalised timestamp is a nearest grid point (`|ts - normalize(ts)| ≤ period / 2`) and an
exact tie goes to the even slot. -/
theorem normSlot_nearest (c : Cfg) (hp : 0 < c.period) (he : c.period % 2 = 0) (ts : Int) :
    2 * (ts - slotTime c (normSlot c ts)) ≤ c.period
    ∧ 2 * (slotTime c (normSlot c ts) - ts) ≤ c.period
    ∧ ((2 * (ts - slotTime c (normSlot c ts)) = c.period ∨ 2 * (slotTime c (normSlot c ts) - ts) = c.period) →
        normSlot c ts % 2 = 0) := by
  obtain ⟨e, h0, hlt⟩ := divmod_spec c hp ts
  have hh := halfPeriod_even c.period he
  unfold normSlot
  simp only [normRoundUp_iff]
  generalize hq : (ts - c.align) / c.period = q at *
  generalize hr : (ts - c.align) % c.period = r at *
  generalize halfPeriod c.period = h at *
  split
  · rename_i h1
    rw [slotTime_succ]
    unfold slotTime
    obtain ⟨a1, a2⟩ := h1
    refine ⟨by omega, by omega, ?_⟩
    intro h3
    rcases a2 with ⟨b1, b2⟩ | b <;> omega
  · rename_i h1
    unfold slotTime
    have h2 : r = 0 ∨ (¬ (h = r ∧ q % 2 ≠ 0) ∧ ¬ h < r) := by
      by_cases hr0 : r = 0
      · exact Or.inl hr0
      · right
        constructor
        · intro hc; exact h1 ⟨hr0, Or.inl hc⟩
        · intro hc; exact h1 ⟨hr0, Or.inr hc⟩
    refine ⟨by omega, by omega, ?_⟩
    intro h3
    rcases h2 with h2 | ⟨h2, h4⟩
    · omega
    · have : h = r := by omega
      by_cases ho : q % 2 = 0
      · exact ho
      · exact absurd ⟨this, ho⟩ h2

end RingBuffer
