/-
Second invariant of the fallback metric fetcher model (C19): the rounds after the primary stream was closed
(`return await fallback_fetcher.receive()` — no synchronisation).  Serves the error-path theorems of Props/C19.lean.
-/
import Frequenz.Lemmas.Fallback

namespace Fallback

open QList

/-- Index of the first invalid primary sample (= length when all are valid): the round of the first failure
unless the stream is closed before. -/
def firstInvalid : List Sample → Nat
  | [] => 0
  | p :: ps => if p.val.isSome then firstInvalid ps + 1 else 0

theorem fi_le_len : ∀ l : List Sample, firstInvalid l ≤ l.length
  | [] => by simp [firstInvalid]
  | p :: ps => by
      unfold firstInvalid
      have := fi_le_len ps
      split <;> simp <;> omega

theorem fi_valid_before : ∀ (l : List Sample) (i : Nat) (q : Sample), i < firstInvalid l → l[i]? = some q →
    q.val.isSome = true
  | [], i, q, h, _ => by simp [firstInvalid] at h
  | p :: ps, i, q, h, hq => by
      unfold firstInvalid at h
      by_cases hv : p.val.isSome = true
      · rw [if_pos hv] at h
        cases i with
        | zero => simp at hq; rw [← hq]; exact hv
        | succ i => simp at hq; exact fi_valid_before ps i q (by omega) hq
      · rw [if_neg hv] at h; omega

theorem fi_invalid_at : ∀ (l : List Sample), firstInvalid l < l.length →
    ∃ q, l[firstInvalid l]? = some q ∧ q.val = none
  | [], h => by simp at h
  | p :: ps, h => by
      unfold firstInvalid at h ⊢
      by_cases hv : p.val.isSome = true
      · rw [if_pos hv] at h ⊢
        simp at h
        obtain ⟨q, hq, hn⟩ := fi_invalid_at ps (by omega)
        exact ⟨q, by simpa using hq, hn⟩
      · rw [if_neg hv]
        refine ⟨p, by simp, ?_⟩
        cases hpv : p.val <;> simp_all

theorem fi_le_of_invalid : ∀ (l : List Sample) (i : Nat) (q : Sample), l[i]? = some q → q.val = none →
    firstInvalid l ≤ i
  | [], i, q, h, _ => by simp at h
  | p :: ps, i, q, h, hn => by
      unfold firstInvalid
      by_cases hv : p.val.isSome = true
      · rw [if_pos hv]
        cases i with
        | zero => simp at h; rw [h, hn] at hv; cases hv
        | succ i => simp at h; have := fi_le_of_invalid ps i q h hn; omega
      · rw [if_neg hv]; omega

theorem fi_ge_of_valid (l : List Sample) (n : Nat)
    (h : ∀ (i : Nat) (q : Sample), i < n → l[i]? = some q → q.val.isSome = true) (hn : n ≤ l.length) :
    n ≤ firstInvalid l := by
  rcases Nat.lt_or_ge (firstInvalid l) n with hlt | hge
  · obtain ⟨q, hq, hv⟩ := fi_invalid_at l (by omega)
    have := h _ q hlt hq
    rw [hv] at this; cases this
  · exact hge

theorem fi_append_stable : ∀ (l t : List Sample), firstInvalid l < l.length →
    firstInvalid (l ++ t) = firstInvalid l
  | [], t, h => by simp at h
  | p :: ps, t, h => by
      simp only [List.cons_append]
      unfold firstInvalid at h ⊢
      by_cases hv : p.val.isSome = true
      · rw [if_pos hv] at h ⊢
        simp at h
        rw [if_pos hv, fi_append_stable ps t (by omega)]
      · rw [if_neg hv, if_neg hv]

theorem fi_append_ge : ∀ (l t : List Sample), firstInvalid l ≤ firstInvalid (l ++ t)
  | [], t => by simp [firstInvalid]
  | p :: ps, t => by
      simp only [List.cons_append]
      unfold firstInvalid
      by_cases hv : p.val.isSome = true
      · rw [if_pos hv, if_pos hv]; have := fi_append_ge ps t; omega
      · rw [if_neg hv, if_neg hv]; omega

/-- The fallback is synchronised to the last primary tick when the close is seen (`r` = round of the first
failure, `N` = number of primary samples, `f` = tick of the first sample the fallback receiver saw). -/
def SyncedF (p0 : Int) (r N : Nat) (f : Int) : Prop :=
  (r + 2 ≤ N ∧ f ≤ p0 + N - 1) ∨ (r + 1 = N ∧ f = p0 + N) ∨ (r = N ∧ f = p0 + N + 1)

instance (p0 : Int) (r N : Nat) (f : Int) : Decidable (SyncedF p0 r N f) := by
  unfold SyncedF; infer_instance

/-- Position of the fallback queue once the primary is closed and drained: either nothing can come any more, or
(if synchronised) the head of the queue is the sample of the round's tick. -/
def CPos (p0 : Int) (σ : St) (n : Nat) : Prop :=
  ∃ cf : Nat, cf ≤ σ.acc.length ∧ σ.fq = σ.acc.drop cf ∧
    ((σ.fq = [] ∧ σ.fClosed = true) ∨
     ∀ a0, σ.acc[0]? = some a0 → SyncedF p0 (firstInvalid σ.pAll) σ.pAll.length a0.ts → a0.ts + cf = p0 + n)

structure Inv2 (p0 : Int) (σ : St) : Prop where
  r1 : σ.running = true → firstInvalid σ.pAll < σ.out.length
  r2 : σ.running = false → σ.out.length ≤ firstInvalid σ.pAll
  r3 : σ.running = true → σ.out.length ≤ σ.pAll.length → σ.latest = none →
        σ.out.length ≤ firstInvalid σ.pAll + 1 ∨ (σ.acc = [] ∧ σ.fClosed = true)
  r4 : σ.running = true → σ.out.length ≤ σ.pAll.length → σ.latest ≠ none →
        firstInvalid σ.pAll + 2 ≤ σ.out.length
  c1 : σ.pAll.length < σ.out.length → CPos p0 σ σ.out.length
  c2 : σ.pAll.length < σ.out.length → σ.acc = [] → σ.fClosed = false →
        firstInvalid σ.pAll = σ.pAll.length ∧ σ.out.length = σ.pAll.length + 1
  c3 : ∀ (k : Nat) (s : Sample), σ.pAll.length ≤ k → σ.out[k]? = some (.sample s) →
        ∃ j : Nat, σ.acc[j]? = some s ∧
          ∀ a0, σ.acc[0]? = some a0 → SyncedF p0 (firstInvalid σ.pAll) σ.pAll.length a0.ts → s.ts = p0 + k

theorem inv2_init (p0 : Int) : Inv2 p0 St.init := by
  refine ⟨?_, ?_, ?_, ?_, ?_, ?_, ?_⟩ <;> simp [St.init, firstInvalid]

/-- What a completed `withLatest` leaves behind (only what `Inv2` needs). -/
theorem withLatest_facts {σ σ' : St} {p : Sample} {pr : List Sample} {l : Sample} {fq0 : List Sample}
    (h : withLatest σ p pr l fq0 = some σ') :
    σ'.pAll = σ.pAll ∧ σ'.acc = σ.acc ∧ σ'.fClosed = σ.fClosed ∧ σ'.running = σ.running ∧
      σ'.out.length = σ.out.length + 1 ∧ σ'.latest ≠ none := by
  unfold withLatest at h
  by_cases ha : p.ts < l.ts
  · rw [if_pos ha] at h; cases h; simp
  · rw [if_neg ha] at h
    cases hsl : syncLoop p.ts l fq0 σ.fClosed with
    | done l' fq' => rw [hsl] at h; cases h; simp
    | err l' => rw [hsl] at h; cases h; simp
    | block => rw [hsl] at h; cases h

theorem withFallback_facts {σ σ' : St} {p : Sample} {pr : List Sample}
    (h : withFallback σ p pr = some σ') :
    σ'.pAll = σ.pAll ∧ σ'.acc = σ.acc ∧ σ'.fClosed = σ.fClosed ∧ σ'.running = σ.running ∧
      σ'.out.length = σ.out.length + 1 ∧
      (σ'.latest ≠ none ∨ (σ.latest = none ∧ σ.fq = [] ∧ σ.fClosed = true ∧ σ'.latest = none)) := by
  unfold withFallback at h
  cases hlat : σ.latest with
  | some l =>
    rw [hlat] at h
    obtain ⟨h1, h2, h3, h4, h5, h6⟩ := withLatest_facts h
    exact ⟨h1, h2, h3, h4, h5, Or.inl h6⟩
  | none =>
    rw [hlat] at h
    dsimp only at h
    cases hfq : σ.fq with
    | cons s r =>
      rw [hfq] at h
      obtain ⟨h1, h2, h3, h4, h5, h6⟩ := withLatest_facts h
      exact ⟨h1, h2, h3, h4, h5, Or.inl h6⟩
    | nil =>
      rw [hfq] at h
      dsimp only at h
      by_cases hfc : σ.fClosed = true
      · rw [if_pos hfc] at h
        cases h
        refine ⟨rfl, rfl, rfl, rfl, by simp, Or.inr ⟨rfl, rfl, hfc, rfl⟩⟩
      · rw [if_neg hfc] at h; cases h

/-- The possible shapes of a completed round. -/
theorem round_cases {σ σ' : St} (h : round σ = some σ') :
    (σ.running = false ∧ ∃ p pr, σ.pq = p :: pr ∧ p.val.isSome = true ∧
        σ' = { σ with pq := pr, out := σ.out ++ [.sample p] }) ∨
    (σ.running = false ∧ ∃ p pr, σ.pq = p :: pr ∧ p.val = none ∧
        σ' = { σ with pq := pr, running := true, out := σ.out ++ [.sample p] }) ∨
    (σ.running = false ∧ σ.pq = [] ∧ σ.pClosed = true ∧
        σ' = { σ with running := true, out := σ.out ++ [.none] }) ∨
    (σ.running = true ∧ ∃ p pr, σ.pq = p :: pr ∧ withFallback σ p pr = some σ') ∨
    (σ.running = true ∧ σ.pq = [] ∧ σ.pClosed = true ∧ ∃ s r, σ.fq = s :: r ∧
        σ' = { σ with fq := r, out := σ.out ++ [.sample s] }) ∨
    (σ.running = true ∧ σ.pq = [] ∧ σ.pClosed = true ∧ σ.fq = [] ∧ σ.fClosed = true ∧
        σ' = { σ with out := σ.out ++ [.raised] }) := by
  unfold round at h
  by_cases hr : σ.running = false
  · rw [if_pos hr] at h
    cases hpq : σ.pq with
    | nil =>
      rw [hpq] at h; dsimp only at h
      by_cases hc : σ.pClosed = true
      · rw [if_pos hc] at h; cases h
        right; right; left
        exact ⟨hr, rfl, hc, rfl⟩
      · rw [if_neg hc] at h; cases h
    | cons p pr =>
      rw [hpq] at h; dsimp only at h
      by_cases hv : p.val.isSome = true
      · rw [if_pos hv] at h; cases h
        left; exact ⟨hr, p, pr, rfl, hv, rfl⟩
      · rw [if_neg hv] at h; cases h
        right; left
        refine ⟨hr, p, pr, rfl, ?_, rfl⟩
        cases hpv : p.val <;> simp_all
  · rw [if_neg hr] at h
    have hrun : σ.running = true := by cases hrr : σ.running <;> simp_all
    cases hpq : σ.pq with
    | cons p pr =>
      rw [hpq] at h; dsimp only at h
      right; right; right; left
      exact ⟨hrun, p, pr, rfl, h⟩
    | nil =>
      rw [hpq] at h; dsimp only at h
      by_cases hc : σ.pClosed = true
      · rw [if_pos hc] at h
        cases hfq : σ.fq with
        | cons s r =>
          rw [hfq] at h; dsimp only at h; cases h
          right; right; right; right; left
          exact ⟨hrun, rfl, hc, s, r, rfl, rfl⟩
        | nil =>
          rw [hfq] at h; dsimp only at h
          by_cases hfc : σ.fClosed = true
          · rw [if_pos hfc] at h; cases h
            right; right; right; right; right
            exact ⟨hrun, rfl, hc, rfl, hfc, rfl⟩
          · rw [if_neg hfc] at h; cases h
      · rw [if_neg hc] at h; cases h

theorem inv2_dP {p0 g0 : Int} {σ : St} (h : Inv p0 g0 σ) (h2 : Inv2 p0 σ) (s : Sample) :
    Inv2 p0 (step σ (.dP s)) := by
  rw [step_dP]
  by_cases hc : σ.pClosed = true
  · rw [if_pos hc]; exact h2
  · rw [if_neg hc]
    have hn : σ.out.length ≤ σ.pAll.length := by
      rcases Nat.lt_or_ge σ.pAll.length σ.out.length with h' | h'
      · exact absurd (h.closedPhase h').1 hc
      · exact h'
    have hstab : σ.running = true → firstInvalid (σ.pAll ++ [s]) = firstInvalid σ.pAll := by
      intro hr
      exact fi_append_stable _ _ (by have := h2.r1 hr; omega)
    refine ⟨?_, ?_, ?_, ?_, ?_, ?_, ?_⟩ <;> dsimp only
    · intro hr; rw [hstab hr]; exact h2.r1 hr
    · intro hr; have := h2.r2 hr; have := fi_append_ge σ.pAll [s]; omega
    · intro hr _ hl; rw [hstab hr]; exact h2.r3 hr hn hl
    · intro hr _ hl; rw [hstab hr]; exact h2.r4 hr hn hl
    · intro hlt; simp only [List.length_append, List.length_cons, List.length_nil] at hlt; omega
    · intro hlt; simp only [List.length_append, List.length_cons, List.length_nil] at hlt; omega
    · intro k s' hk hout
      simp only [List.length_append, List.length_cons, List.length_nil] at hk
      have := lt_length_of_getElem? _ _ _ hout
      omega

theorem inv2_cP {p0 : Int} {σ : St} (h2 : Inv2 p0 σ) : Inv2 p0 (step σ .cP) := by
  rw [step_cP]
  refine ⟨?_, ?_, ?_, ?_, ?_, ?_, ?_⟩ <;> dsimp only
  · exact h2.r1
  · exact h2.r2
  · exact h2.r3
  · exact h2.r4
  · exact h2.c1
  · exact h2.c2
  · exact h2.c3

theorem inv2_cF {p0 : Int} {σ : St} (h2 : Inv2 p0 σ) : Inv2 p0 (step σ .cF) := by
  rw [step_cF]
  refine ⟨?_, ?_, ?_, ?_, ?_, ?_, ?_⟩ <;> dsimp only
  · exact h2.r1
  · exact h2.r2
  · intro hr hn hl
    rcases h2.r3 hr hn hl with h | ⟨h, _⟩
    · exact Or.inl h
    · exact Or.inr ⟨h, rfl⟩
  · exact h2.r4
  · intro hlt
    obtain ⟨cf, h1, h2', h3⟩ := h2.c1 hlt
    refine ⟨cf, h1, h2', ?_⟩
    rcases h3 with ⟨h3, _⟩ | h3
    · exact Or.inl ⟨h3, rfl⟩
    · exact Or.inr h3
  · intro _ _ hf; cases hf
  · exact h2.c3

theorem inv2_dF {p0 g0 : Int} {σ : St} (_h : Inv p0 g0 σ) (h2 : Inv2 p0 σ) (s : Sample) :
    Inv2 p0 (step σ (.dF s)) := by
  rw [step_dF]
  by_cases hc : σ.fClosed = true
  · rw [if_pos hc]; exact h2
  · rw [if_neg hc]
    have hcf : σ.fClosed = false := by cases hh : σ.fClosed <;> simp_all
    by_cases hr : σ.running = true
    · rw [if_pos hr]
      refine ⟨?_, ?_, ?_, ?_, ?_, ?_, ?_⟩ <;> dsimp only
      · exact h2.r1
      · exact h2.r2
      · intro hr' hn hl
        rcases h2.r3 hr' hn hl with h' | ⟨_, h'⟩
        · exact Or.inl h'
        · exact absurd h' hc
      · exact h2.r4
      · intro hlt
        obtain ⟨cf, h1, h2', h3⟩ := h2.c1 hlt
        refine ⟨cf, by simp only [List.length_append, List.length_cons, List.length_nil]; omega, ?_, Or.inr ?_⟩
        · rw [drop_append_single _ _ _ h1, h2']
        · intro a0 ha0 hsync
          cases hacc : σ.acc with
          | nil =>
            rw [hacc] at ha0 h1
            simp at ha0
            subst ha0
            obtain ⟨e1, e2⟩ := h2.c2 hlt hacc hcf
            unfold SyncedF at hsync
            dsimp only at hsync
            rw [e1] at hsync
            have : cf = 0 := by simpa using h1
            subst this
            rcases hsync with ⟨hs, _⟩ | ⟨hs, _⟩ | ⟨_, hs⟩
            · omega
            · omega
            · rw [hs, e2]; push_cast; omega
          | cons a as =>
            rw [hacc] at ha0
            simp at ha0
            subst ha0
            rcases h3 with ⟨_, h3⟩ | h3
            · exact absurd h3 hc
            · exact h3 a (by rw [hacc]; simp) hsync
      · intro _ hacc; simp at hacc
      · intro k s' hk hout
        obtain ⟨j, hj, hsync⟩ := h2.c3 k s' hk hout
        refine ⟨j, getElem?_append_some _ _ _ _ hj, ?_⟩
        intro a0 ha0
        have hlen : 0 < σ.acc.length := by have := lt_length_of_getElem? _ _ _ hj; omega
        rw [List.getElem?_append_left hlen] at ha0
        exact hsync a0 ha0
    · rw [if_neg hr]
      refine ⟨?_, ?_, ?_, ?_, ?_, ?_, ?_⟩ <;> dsimp only
      · exact h2.r1
      · exact h2.r2
      · exact h2.r3
      · exact h2.r4
      · exact h2.c1
      · exact h2.c2
      · exact h2.c3

/-- `acc` is gap-free: every element is `index` ticks after the first one. -/
theorem acc_rel {p0 g0 : Int} {σ : St} (h : Inv p0 g0 σ) {a0 s : Sample} {j : Nat}
    (h0 : σ.acc[0]? = some a0) (hj : σ.acc[j]? = some s) : s.ts = a0.ts + j := by
  obtain ⟨m, _, hts⟩ := h.accTs
  have e0 := hts 0 a0 h0
  have ej := hts j s hj
  omega

/-- The fallback position when the round that sees the closed primary is about to run. -/
theorem cpos_transition {p0 g0 : Int} {σ : St} (h : Inv p0 g0 σ) (h2 : Inv2 p0 σ)
    (hrun : σ.running = true) (hn : σ.out.length = σ.pAll.length) : CPos p0 σ σ.out.length := by
  have hr1 := h2.r1 hrun
  rcases h.fpos hrun (by omega) with ⟨hlat, hfq⟩ | ⟨j, l, hlat, hl, hfq, _, hpos⟩
  · refine ⟨0, by omega, by simpa using hfq, ?_⟩
    rcases h2.r3 hrun (by omega) hlat with hle | ⟨hacc, hfc⟩
    · right
      intro a0 _ hs
      rcases hs with ⟨hs, _⟩ | ⟨_, hs⟩ | ⟨hs, _⟩
      · omega
      · rw [hs, hn]; simp
      · omega
    · left; exact ⟨by rw [hfq, hacc], hfc⟩
  · have hr4 := h2.r4 hrun (by omega) (by rw [hlat]; simp)
    have hjl := lt_length_of_getElem? _ _ _ hl
    refine ⟨j + 1, by omega, hfq, ?_⟩
    rcases hpos with ⟨hj, hgt⟩ | hs | ⟨_, hq, hc⟩
    · right
      intro a0 ha0 hs
      subst hj
      rw [hl] at ha0; cases ha0
      rcases hs with ⟨_, hs⟩ | ⟨hs, _⟩ | ⟨hs, _⟩
      · omega
      · omega
      · omega
    · right
      intro a0 ha0 _
      have := acc_rel h ha0 hl
      push_cast; omega
    · left; exact ⟨hq, hc⟩

theorem inv2_round {p0 g0 : Int} {σ σ' : St} (h : Inv p0 g0 σ) (h2 : Inv2 p0 σ)
    (hσ' : round σ = some σ') : Inv2 p0 σ' := by
  rcases round_cases hσ' with ⟨hr, p, pr, hpq, hv, rfl⟩ | ⟨hr, p, pr, hpq, hv, rfl⟩ | ⟨hr, hpq, hc, rfl⟩ |
    ⟨hrun, p, pr, hpq, hwf⟩ | ⟨hrun, hpq, hc, s, r, hfq, rfl⟩ | ⟨hrun, hpq, hc, hfq, hfc, rfl⟩
  · -- valid primary sample, fallback not running
    obtain ⟨hp, _, hlt, _⟩ := head_facts h hpq
    have hr2 := h2.r2 hr
    refine ⟨?_, ?_, ?_, ?_, ?_, ?_, ?_⟩ <;> dsimp only <;>
      (try simp only [List.length_append, List.length_cons, List.length_nil])
    · intro hr'; rw [hr] at hr'; cases hr'
    · intro _
      rcases Nat.lt_or_ge σ.out.length (firstInvalid σ.pAll) with h' | h'
      · omega
      · have he : firstInvalid σ.pAll = σ.out.length := by omega
        obtain ⟨q, hq, hn⟩ := fi_invalid_at σ.pAll (by omega)
        rw [he, hp] at hq; cases hq
        rw [hn] at hv; cases hv
    · intro hr'; rw [hr] at hr'; cases hr'
    · intro hr'; rw [hr] at hr'; cases hr'
    · intro h'; omega
    · intro h'; omega
    · intro k s' hk hout
      have := lt_length_of_getElem? _ _ _ hout
      simp only [List.length_append, List.length_cons, List.length_nil] at this
      omega
  · -- first invalid primary sample: start()
    obtain ⟨hp, _, hlt, _⟩ := head_facts h hpq
    have hr2 := h2.r2 hr
    obtain ⟨_, _, hlat, _⟩ := h.notRunning hr
    refine ⟨?_, ?_, ?_, ?_, ?_, ?_, ?_⟩ <;> dsimp only <;>
      (try simp only [List.length_append, List.length_cons, List.length_nil])
    · intro _; have := fi_le_of_invalid σ.pAll _ p hp hv; omega
    · intro hr'; cases hr'
    · intro _ _ _; left; omega
    · intro _ _ hl; exact absurd hlat hl
    · intro h'; omega
    · intro h'; omega
    · intro k s' hk hout
      have := lt_length_of_getElem? _ _ _ hout
      simp only [List.length_append, List.length_cons, List.length_nil] at this
      omega
  · -- closed primary seen first: start(), None
    have hN := h.closedStable hc hpq
    have hn : σ.out.length = σ.pAll.length := by
      rcases Nat.lt_or_ge σ.pAll.length σ.out.length with h' | h'
      · have := (h.closedPhase h').2; rw [hr] at this; cases this
      · omega
    obtain ⟨hacc, hfq0, _, _⟩ := h.notRunning hr
    have hr2 := h2.r2 hr
    have := fi_le_len σ.pAll
    refine ⟨?_, ?_, ?_, ?_, ?_, ?_, ?_⟩ <;> dsimp only <;>
      (try simp only [List.length_append, List.length_cons, List.length_nil])
    · intro _; omega
    · intro hr'; cases hr'
    · intro _ h'; omega
    · intro _ h'; omega
    · intro _
      refine ⟨0, by omega, by rw [hfq0, hacc]; rfl, Or.inr ?_⟩
      intro a0 ha0; rw [hacc] at ha0; simp at ha0
    · intro _ _ _; omega
    · intro k s' hk hout
      rcases getElem?_append_cases _ _ _ _ hout with hout | ⟨_, hout⟩
      · have := lt_length_of_getElem? _ _ _ hout; omega
      · cases hout
  · -- a round reading a primary sample with the fallback running
    obtain ⟨hp, _, hlt, _⟩ := head_facts h hpq
    obtain ⟨e1, e2, e3, e4, e5, e6⟩ := withFallback_facts hwf
    have hr1 := h2.r1 hrun
    refine ⟨?_, ?_, ?_, ?_, ?_, ?_, ?_⟩
    · intro _; rw [e1, e5]; omega
    · intro hr'; rw [e4, hrun] at hr'; cases hr'
    · intro _ _ hl
      rcases e6 with e6 | ⟨g1, g2, g3, _⟩
      · exact absurd hl e6
      · right
        rw [e2, e3]
        rcases h.fpos hrun (by omega) with ⟨_, hfq⟩ | ⟨j, l, hlat, _⟩
        · exact ⟨by rw [← hfq, g2], g3⟩
        · rw [g1] at hlat; cases hlat
    · intro _ _ _; rw [e1, e5]; omega
    · intro h'; rw [e1, e5] at h'; omega
    · intro h'; rw [e1, e5] at h'; omega
    · intro k s' hk hout
      have := lt_length_of_getElem? _ _ _ hout
      rw [e1] at hk; rw [e5] at this; omega
  · -- closed primary: the next fallback sample is returned unsynchronised
    have hN := h.closedStable hc hpq
    have hr1 := h2.r1 hrun
    have hcp : CPos p0 σ σ.out.length := by
      rcases Nat.lt_or_ge σ.pAll.length σ.out.length with h' | h'
      · exact h2.c1 h'
      · exact cpos_transition h h2 hrun (by omega)
    obtain ⟨cf, hcf, hfqe, hform⟩ := hcp
    rw [hfq] at hfqe
    obtain ⟨hs, hr'⟩ := drop_eq_cons _ _ _ _ hfqe.symm
    have hcfl := lt_length_of_getElem? _ _ _ hs
    have hform' : ∀ a0, σ.acc[0]? = some a0 →
        SyncedF p0 (firstInvalid σ.pAll) σ.pAll.length a0.ts → a0.ts + cf = p0 + σ.out.length := by
      rcases hform with ⟨hq, _⟩ | hform
      · rw [hfq] at hq; cases hq
      · exact hform
    refine ⟨?_, ?_, ?_, ?_, ?_, ?_, ?_⟩ <;> dsimp only <;>
      (try simp only [List.length_append, List.length_cons, List.length_nil])
    · intro _; omega
    · intro hr''; rw [hrun] at hr''; cases hr''
    · intro _ h'; omega
    · intro _ h'; omega
    · intro _
      refine ⟨cf + 1, (by show cf + 1 ≤ σ.acc.length; omega), hr'.symm, Or.inr ?_⟩
      intro a0 ha0 hsy
      have := hform' a0 ha0 hsy
      push_cast; omega
    · intro _ hacc; rw [hacc] at hcfl; simp at hcfl
    · intro k s' hk hout
      rcases getElem?_append_cases _ _ _ _ hout with hout | ⟨hk', hout⟩
      · exact h2.c3 k s' hk hout
      · cases hout
        refine ⟨cf, hs, ?_⟩
        intro a0 ha0 hsy
        have e1 := hform' a0 ha0 hsy
        have e2 := acc_rel h ha0 hs
        rw [hk']; omega
  · -- closed primary and failed fallback: the call raises
    have hN := h.closedStable hc hpq
    have hr1 := h2.r1 hrun
    have hcp : CPos p0 σ σ.out.length := by
      rcases Nat.lt_or_ge σ.pAll.length σ.out.length with h' | h'
      · exact h2.c1 h'
      · exact cpos_transition h h2 hrun (by omega)
    obtain ⟨cf, hcf, hfqe, _⟩ := hcp
    refine ⟨?_, ?_, ?_, ?_, ?_, ?_, ?_⟩ <;> dsimp only <;>
      (try simp only [List.length_append, List.length_cons, List.length_nil])
    · intro _; omega
    · intro hr''; rw [hrun] at hr''; cases hr''
    · intro _ h'; omega
    · intro _ h'; omega
    · intro _; exact ⟨cf, hcf, hfqe, Or.inl ⟨hfq, hfc⟩⟩
    · intro _ _ hf; rw [hfc] at hf; cases hf
    · intro k s' hk hout
      rcases getElem?_append_cases _ _ _ _ hout with hout | ⟨_, hout⟩
      · exact h2.c3 k s' hk hout
      · cases hout

theorem inv2_step {p0 g0 : Int} {σ : St} (h : Inv p0 g0 σ) (h2 : Inv2 p0 σ) (e : Ev) :
    Inv2 p0 (step σ e) := by
  cases e with
  | dP s => exact inv2_dP h h2 s
  | cP => exact inv2_cP h2
  | dF s => exact inv2_dF h h2 s
  | cF => exact inv2_cF h2
  | round =>
    rw [step_round]
    cases hr : round σ with
    | none => exact h2
    | some σ' => exact inv2_round h h2 hr

theorem inv2_foldl {p0 g0 : Int} : ∀ (es : List Ev) (σ : St), Inv p0 g0 σ → Inv2 p0 σ → AdmFrom p0 g0 σ es →
    Inv2 p0 (es.foldl step σ)
  | [], _, _, h2, _ => h2
  | e :: es, σ, h, h2, ha => inv2_foldl es (step σ e) (inv_step h e ha.1) (inv2_step h h2 e) ha.2

theorem inv2_run {p0 g0 : Int} (es : List Ev) (ha : AdmFrom p0 g0 St.init es) : Inv2 p0 (run es) :=
  inv2_foldl es St.init (inv_init p0 g0) (inv2_init p0) ha

end Fallback
