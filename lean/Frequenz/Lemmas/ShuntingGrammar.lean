/-
Shunting-yard correctness for the formula-string grammar E/T/F (serves C05, C13).

The two precedence levels are instantiated from the extracted table by `decide`; every other use of the table is
an order fact (`Pops`, `Stops`) also closed by `decide`.  A table with a different order makes these fail.
-/
import Frequenz.Lemmas.Shunting

namespace Formula

open Extracted.Formula (prec)

set_option linter.unusedSimpArgs false

/-! ## The two levels -/

def mulLevel : Level where
  L := .mul
  R := .div
  hRL := by decide
  totL := ⟨PyF.mul, binVal_mul⟩
  alg := by
    intro a b d
    have h : (fun q => binVal .mul a q) = fun q => Except.ok (PyF.mul a q) := by
      funext q; exact binVal_mul a q
    rw [binVal_mul, h, ← mul_div_assoc]
    rfl

def addLevel : Level where
  L := .add
  R := .sub
  hRL := by decide
  totL := ⟨PyF.add, binVal_add⟩
  alg := by
    intro a b d
    have h : (fun q => binVal .add a q) = fun q => Except.ok (PyF.add a q) := by
      funext q; exact binVal_add a q
    rw [binVal_add, binVal_sub, h]
    show Except.ok (PyF.sub (PyF.add a b) d) = Except.ok (PyF.add a (PyF.sub b d))
    rw [add_sub_assoc]

/-- Operators that end a `T` (and flush its pending `*` `/`). -/
def PE (o : Op) : Prop := o = .add ∨ o = .sub ∨ o = .rp

/-- Operators that end an `E` inside parentheses. -/
def PR (o : Op) : Prop := o = .rp

/-- Where an `E` may start: bottom of the stack or just after `(`. -/
def CtxE (S : List Op) : Prop := S = [] ∨ ∃ rest, S = .lp :: rest

/-- Where a `T` may start: additionally after `+` / `-`. -/
def CtxT (S : List Op) : Prop := Stops .mul S ∧ Stops .div S

theorem ctxE_stops {S : List Op} (h : CtxE S) {o : Op} (ho : o ≠ .rp) : Stops o S := by
  rcases h with rfl | ⟨rest, rfl⟩
  · exact Or.inl rfl
  · exact Or.inr ⟨.lp, rest, rfl, Or.inr ⟨rfl, ho⟩⟩

theorem ctxE_ctxT {S : List Op} (h : CtxE S) : CtxT S :=
  ⟨ctxE_stops h (by decide), ctxE_stops h (by decide)⟩

theorem ctxT_after_add (rest : List Op) : CtxT (.add :: rest) ∧ CtxT (.sub :: rest) := by
  refine ⟨⟨?_, ?_⟩, ⟨?_, ?_⟩⟩ <;> exact Or.inr ⟨_, rest, rfl, Or.inl (by decide)⟩

theorem pe_pops (o : Op) (h : PE o) : True ∧ Pops o mulLevel.L.toOp ∧ Pops o mulLevel.R.toOp := by
  rcases h with rfl | rfl | rfl <;> refine ⟨trivial, ⟨?_, ?_⟩, ⟨?_, ?_⟩⟩ <;> decide

theorem pr_pops (o : Op) (h : PR o) : PE o ∧ Pops o addLevel.L.toOp ∧ Pops o addLevel.R.toOp := by
  cases h
  refine ⟨Or.inr (Or.inr rfl), ⟨?_, ?_⟩, ⟨?_, ?_⟩⟩ <;> decide

theorem popLoop_rp_lp (S : List Op) (st : List Step) : popLoop .rp (.lp :: S) st = (S, st) := by
  have h : ¬ prec Op.rp < prec Op.lp := by decide
  simp [popLoop, h]

/-! ## Tokens of an expression (after `from_string`'s conversion) -/

mutual
  def E.toks (zf : Nat → Bool) : E → List Tok
    | .t t => t.toks zf
    | .bin l o r => l.toks zf ++ [.oper o.toBin.toOp] ++ r.toks zf
  def T.toks (zf : Nat → Bool) : T → List Tok
    | .f f => f.toks zf
    | .bin l o r => l.toks zf ++ [.oper o.toBin.toOp] ++ r.toks zf
  def F.toks (zf : Nat → Bool) : F → List Tok
    | .id d ds => [.metric (digitsVal (idDigits d ds)) (zf (digitsVal (idDigits d ds)))]
    | .paren e => [.oper .lp] ++ e.toks zf ++ [.oper .rp]
end

section
variable (zf : Nat → Bool) (env : Env)

def GoalF (f : F) : Prop := Clean env (f.toks zf) (evalAst zf env f.ast)

def GoalT (t : T) : Prop :=
  ∀ S O, CtxT S → LevelState env mulLevel (fun _ => True) S O (shuntS (t.toks zf) (S, O)) (evalAst zf env t.ast)

def GoalE (e : E) : Prop :=
  ∀ S O, CtxE S → LevelState env addLevel PE S O (shuntS (e.toks zf) (S, O)) (evalAst zf env e.ast)

theorem evalAst_bin (o : BinOp) (l r : Ast) :
    evalAst zf env (.bin o l r) = lift2 o (evalAst zf env l) (evalAst zf env r) := rfl

theorem goalT_elem {t : T} (h : GoalT zf env t) : ElemOK env PE CtxT (t.toks zf) (evalAst zf env t.ast) :=
  levelState_elemOK env (lv := mulLevel) pe_pops h

theorem goalF_id (d : Fin 10) (ds : List (Fin 10)) : GoalF zf env (.id d ds) := by
  intro S O
  refine ⟨[.metric (digitsVal (idDigits d ds)) (zf (digitsVal (idDigits d ds)))], rfl, ?_⟩
  intro vs
  rfl

theorem goalF_paren (e : E) (h : GoalE zf env e) : GoalF zf env (.paren e) := by
  intro S O
  have hE := h (.lp :: S) O (Or.inr ⟨S, rfl⟩)
  obtain ⟨J, c, hsh, hJ, hsem⟩ := level_exit env (lv := addLevel) (P' := PR) pr_pops hE
  refine ⟨c ++ flush J, ?_, hsem⟩
  simp only [F.toks, shuntS_append, shuntS_cons, shuntS_nil, stepS, pushOperS_lp, hsh, pushOperS_rp]
  rw [hJ .rp rfl, popLoop_rp_lp, List.append_assoc]

theorem goalT_f (f : F) (h : GoalF zf env f) : GoalT zf env (.f f) := by
  intro S O hctx
  exact level_base env (lv := mulLevel) (Ctx := fun _ => True) O trivial (clean_elemOK env _ _ h)

theorem goalT_bin (l : T) (o : MulOp) (r : F) (hl : GoalT zf env l) (hr : GoalF zf env r) :
    GoalT zf env (.bin l o r) := by
  intro S O hctx
  have hstep := level_step env (lv := mulLevel) (P := fun _ => True) (Ctx := fun _ => True) (o := o.toBin)
    (el := r.toks zf) ⟨trivial, trivial⟩ hctx (fun _ => ⟨trivial, trivial⟩) (hl S O hctx)
    (by cases o; exact Or.inl rfl; exact Or.inr rfl) (clean_elemOK env _ _ hr)
  simpa only [T.toks, T.ast, evalAst_bin, shuntS_append, shuntS_cons, shuntS_nil, stepS] using hstep

theorem goalE_t (t : T) (h : GoalT zf env t) : GoalE zf env (.t t) := by
  intro S O hctx
  exact level_base env (lv := addLevel) O (ctxE_ctxT hctx) (goalT_elem zf env h)

theorem goalE_bin (l : E) (o : AddOp) (r : T) (hl : GoalE zf env l) (hr : GoalT zf env r) :
    GoalE zf env (.bin l o r) := by
  intro S O hctx
  have hstep := level_step env (lv := addLevel) (P := PE) (Ctx := CtxT) (o := o.toBin)
    (el := r.toks zf) ⟨Or.inl rfl, Or.inr (Or.inl rfl)⟩
    ⟨ctxE_stops hctx (by decide), ctxE_stops hctx (by decide)⟩ ctxT_after_add (hl S O hctx)
    (by cases o; exact Or.inl rfl; exact Or.inr rfl) (goalT_elem zf env hr)
  simpa only [E.toks, E.ast, evalAst_bin, shuntS_append, shuntS_cons, shuntS_nil, stepS] using hstep

theorem goalE_all (e : E) : GoalE zf env e :=
  E.rec (motive_1 := GoalE zf env) (motive_2 := GoalT zf env) (motive_3 := GoalF zf env)
    (fun t h => goalE_t zf env t h) (fun l o r hl hr => goalE_bin zf env l o r hl hr)
    (fun f h => goalT_f zf env f h) (fun l o r hl hr => goalT_bin zf env l o r hl hr)
    (fun d ds => goalF_id zf env d ds) (fun e h => goalF_paren zf env e h) e

/-- Running code that satisfies `Sem1` on the empty stack yields the value. -/
theorem run_of_sem1 {c : List Step} {x : M V} (h : Sem1 env c x) : run c env = x := by
  unfold run
  rw [h []]
  cases x with
  | error e => rfl
  | ok a => simp [bind, Except.bind, emitValue_id]

/-- The compiled postfix of any expression of the grammar evaluates to its standard value. -/
theorem string_core (e : E) :
    run (finalizeS (shuntS (e.toks zf) ([], []))) env = evalAst zf env e.ast := by
  obtain ⟨J, c, hsh, _, hsem⟩ := level_exit env (lv := addLevel) (P' := PR) pr_pops
    (goalE_all zf env e [] [] (Or.inl rfl))
  rw [hsh]
  simpa [finalizeS] using run_of_sem1 env hsem

end

end Formula
