/-
Correctness of the shunting-yard builder, generic part (serves C05, C13).

The builder is analysed on its `(stack, steps)` core (`shuntS`); `Lemmas/ShuntingBuild.lean` ties that to `build`
(fetcher table) and to the tokenizer.  The only facts about `_operator_precedence` used below are order facts
(`Level.hRL`, `Pops`, `Stops`), instantiated by `decide` on the extracted table in `Lemmas/ShuntingGrammar.lean`.

Idea.  Inside one parenthesis level the operators of one precedence class (`*`,`/` or `+`,`-`) that are still on
the build stack form a segment `[]`, `[L]`, `[R]` or `[R, L]` (top first): `R` (`/`, `-`) is ranked *before* `L`
(`*`, `+`) by the table, so `a L b R d` is compiled as `a L (b R d)`.  `Inv` records, for each shape of the
segment, what the code emitted so far leaves on the evaluation stack and how that relates to the standard
left-to-right value `acc`; `Level.alg` (`(a L b) R d = a L (b R d)`, including *when* a division raises) is what
keeps `acc` invariant.
-/
import Frequenz.Lemmas.FormulaSteps

namespace Formula

open Extracted.Formula (prec)

set_option linter.unusedSimpArgs false

/-! ## The builder without its fetcher table -/

abbrev St := List Op × List Step

def pushOperS (s : St) (o : Op) : St :=
  let r := if s.1 ≠ [] ∧ o ≠ .lp then popLoop o s.1 s.2 else s
  if o = .rp then r else (o :: r.1, r.2)

def stepS (s : St) : Tok → St
  | .metric n z => (s.1, s.2 ++ [.metric n z])
  | .const c => (s.1, s.2 ++ [.const c])
  | .oper o => pushOperS s o
  | .clip lo hi => (s.1, s.2 ++ [.clip lo hi])

def shuntS (toks : List Tok) (s : St) : St := toks.foldl stepS s

def flush (J : List Op) : List Step := J.map Step.op

def finalizeS (s : St) : List Step := s.2 ++ flush s.1

theorem shuntS_append (a b : List Tok) (s : St) : shuntS (a ++ b) s = shuntS b (shuntS a s) := by
  simp [shuntS, List.foldl_append]

theorem shuntS_cons (t : Tok) (ts : List Tok) (s : St) : shuntS (t :: ts) s = shuntS ts (stepS s t) := rfl

theorem shuntS_nil (s : St) : shuntS [] s = s := rfl

theorem flush_append (a b : List Op) : flush (a ++ b) = flush a ++ flush b := by simp [flush]

/-! ## `popLoop` in terms of order facts -/

/-- `o` pops `p` off the build stack (and emits it). -/
def Pops (o p : Op) : Prop := ¬ prec o < prec p ∧ p ≠ .lp

/-- `o` pops nothing from `S`. -/
def Stops (o : Op) (S : List Op) : Prop :=
  S = [] ∨ ∃ p rest, S = p :: rest ∧ (prec o < prec p ∨ (p = .lp ∧ o ≠ .rp))

theorem popLoop_pops {o p : Op} (h : Pops o p) (rest : List Op) (st : List Step) :
    popLoop o (p :: rest) st = popLoop o rest (st ++ [.op p]) := by
  simp [popLoop, h.1, h.2]

theorem popLoop_stops {o : Op} {S : List Op} (h : Stops o S) (st : List Step) : popLoop o S st = (S, st) := by
  rcases h with rfl | ⟨p, rest, rfl, h | ⟨rfl, ho⟩⟩
  · rfl
  · simp [popLoop, h]
  · by_cases hlt : prec o < prec Op.lp <;> simp [popLoop, hlt, ho]

theorem pushOperS_lp (S : List Op) (O : List Step) : pushOperS (S, O) .lp = (.lp :: S, O) := by
  simp [pushOperS]

theorem pushOperS_of_ne {o : Op} (h1 : o ≠ .lp) (h2 : o ≠ .rp) (S : List Op) (O : List Step) :
    pushOperS (S, O) o = (o :: (popLoop o S O).1, (popLoop o S O).2) := by
  cases S with
  | nil => simp [pushOperS, h2, popLoop]
  | cons p rest => simp [pushOperS, h1, h2]

theorem pushOperS_rp (S : List Op) (O : List Step) : pushOperS (S, O) .rp = popLoop .rp S O := by
  cases S with
  | nil => simp [pushOperS, popLoop]
  | cons p rest => simp [pushOperS]

/-- `J` sits on top of the stack and every operator in `P` pops all of it. -/
def Junk (P : Op → Prop) (J : List Op) : Prop :=
  ∀ o, P o → ∀ rest st, popLoop o (J ++ rest) st = popLoop o rest (st ++ flush J)

theorem junk_nil (P : Op → Prop) : Junk P [] := by
  intro o _ rest st; simp [flush]

theorem junk_of_pops {P : Op → Prop} {J : List Op} (h : ∀ o, P o → ∀ p ∈ J, Pops o p) : Junk P J := by
  intro o ho rest st
  induction J generalizing st with
  | nil => simp [flush]
  | cons p J ih =>
    have hp : Pops o p := h o ho p (by simp)
    have := ih (fun o ho q hq => h o ho q (by simp [hq])) (st ++ [.op p])
    simp only [List.cons_append, popLoop_pops hp, this, flush, List.map_cons, List.append_assoc,
      List.singleton_append, List.nil_append]

theorem junk_append {P : Op → Prop} {J₁ J₂ : List Op} (h₁ : Junk P J₁) (h₂ : Junk P J₂) : Junk P (J₁ ++ J₂) := by
  intro o ho rest st
  rw [List.append_assoc, h₁ o ho, h₂ o ho, flush_append, List.append_assoc]

theorem junk_mono {P P' : Op → Prop} {J : List Op} (h : ∀ o, P' o → P o) (hJ : Junk P J) : Junk P' J :=
  fun o ho => hJ o (h o ho)

theorem binop_ne (o : BinOp) : o.toOp ≠ .lp ∧ o.toOp ≠ .rp := by
  cases o <;> simp [BinOp.toOp]

/-! ## Elements and levels -/

section
variable (env : Env)

/-- A token sequence that leaves the build stack as it found it and emits code for `f`. -/
def Clean (el : List Tok) (f : M V) : Prop :=
  ∀ S O, ∃ c, shuntS el (S, O) = (S, O ++ c) ∧ Sem1 env c f

/-- A token sequence that may leave operators `J` on the stack which every operator in `P` pops at once;
the code for `f` is complete once `J` is flushed. -/
def ElemOK (P : Op → Prop) (Ctx : List Op → Prop) (el : List Tok) (f : M V) : Prop :=
  ∀ S O, Ctx S → ∃ J c, shuntS el (S, O) = (J ++ S, O ++ c) ∧ Junk P J ∧ Sem1 env (c ++ flush J) f

theorem clean_elemOK {el : List Tok} {f : M V} (P : Op → Prop) (Ctx : List Op → Prop) (h : Clean env el f) :
    ElemOK env P Ctx el f := by
  intro S O _
  obtain ⟨c, hc, hs⟩ := h S O
  exact ⟨[], c, by simpa using hc, junk_nil P, by simpa [flush] using hs⟩

/-- The invariant of one precedence level; `Seg` = that level's operators on the stack (top first), `c` = the
code emitted since the level was entered (junk flushed), `acc` = standard left-to-right value so far. -/
inductive Inv (lv : Level) (Seg : List Op) (c : List Step) (acc : M V) : Prop
  | nil : Seg = [] → Sem1 env c acc → Inv lv Seg c acc
  | one (o : BinOp) (x y : M V) : (o = lv.L ∨ o = lv.R) → Seg = [o.toOp] → Sem2 env c x y →
      acc = lift2 o x y → Inv lv Seg c acc
  | two (x y z : M V) : Seg = [lv.R.toOp, lv.L.toOp] → Sem3 env c x y z →
      acc = lift2 lv.R (lift2 lv.L x y) z → Inv lv Seg c acc

def LevelState (lv : Level) (P : Op → Prop) (S : List Op) (O : List Step) (σ : St) (acc : M V) : Prop :=
  ∃ J Seg c, σ = (J ++ Seg ++ S, O ++ c) ∧ Junk P J ∧ Inv env lv Seg (c ++ flush J) acc

theorem level_base {lv : Level} {P : Op → Prop} {Ctx : List Op → Prop} {el : List Tok} {f : M V}
    {S : List Op} (O : List Step) (hctx : Ctx S) (hel : ElemOK env P Ctx el f) :
    LevelState env lv P S O (shuntS el (S, O)) f := by
  obtain ⟨J, c, hsh, hJ, hsem⟩ := hel S O hctx
  exact ⟨J, [], c, by simpa using hsh, hJ, .nil rfl hsem⟩

theorem pops_LL (lv : Level) : Pops lv.L.toOp lv.L.toOp := ⟨Nat.lt_irrefl _, (binop_ne _).1⟩
theorem pops_RR (lv : Level) : Pops lv.R.toOp lv.R.toOp := ⟨Nat.lt_irrefl _, (binop_ne _).1⟩
theorem pops_LR (lv : Level) : Pops lv.L.toOp lv.R.toOp := ⟨Nat.lt_asymm lv.hRL, (binop_ne _).1⟩

theorem popLoop_R_on_L (lv : Level) (rest : List Op) (st : List Step) :
    popLoop lv.R.toOp (lv.L.toOp :: rest) st = (lv.L.toOp :: rest, st) := by
  simp [popLoop, lv.hRL]

/-- One more `o el` at a level: push the operator, then the operand. -/
theorem level_step {lv : Level} {P : Op → Prop} {Ctx : List Op → Prop} {S : List Op} {O : List Step} {σ : St}
    {acc : M V} {o : BinOp} {el : List Tok} {f : M V}
    (hP : P lv.L.toOp ∧ P lv.R.toOp)
    (hS : Stops lv.L.toOp S ∧ Stops lv.R.toOp S)
    (hctx : ∀ rest, Ctx (lv.L.toOp :: rest) ∧ Ctx (lv.R.toOp :: rest))
    (hσ : LevelState env lv P S O σ acc)
    (ho : o = lv.L ∨ o = lv.R)
    (hel : ElemOK env P Ctx el f) :
    LevelState env lv P S O (shuntS el (pushOperS σ o.toOp)) (lift2 o acc f) := by
  obtain ⟨J, Seg, c, rfl, hJ, hInv⟩ := hσ
  have hPo : P o.toOp := by rcases ho with rfl | rfl; exact hP.1; exact hP.2
  have hSo : Stops o.toOp S := by rcases ho with rfl | rfl; exact hS.1; exact hS.2
  have hCo : ∀ rest, Ctx (o.toOp :: rest) := by
    intro rest; rcases ho with rfl | rfl; exact (hctx rest).1; exact (hctx rest).2
  rw [pushOperS_of_ne (binop_ne o).1 (binop_ne o).2, List.append_assoc, hJ o.toOp hPo]
  -- a helper: once the segment is reduced to `Seg'` with code `c'`, push `o` and run the operand
  have finish : ∀ (Seg' : List Op) (c' : List Step),
      popLoop o.toOp (Seg ++ S) (O ++ c ++ flush J) = (Seg' ++ S, O ++ c') →
      (∀ (J' : List Op) (c2 : List Step), Sem1 env (c2 ++ flush J') f →
        Inv env lv (o.toOp :: Seg') ((c' ++ c2) ++ flush J') (lift2 o acc f)) →
      LevelState env lv P S O (shuntS el (o.toOp :: (popLoop o.toOp (Seg ++ S) (O ++ c ++ flush J)).1,
        (popLoop o.toOp (Seg ++ S) (O ++ c ++ flush J)).2)) (lift2 o acc f) := by
    intro Seg' c' hpop hinv
    rw [hpop]
    obtain ⟨J', c2, hsh, hJ', hsem⟩ := hel (o.toOp :: Seg' ++ S) (O ++ c') (by simpa using hCo (Seg' ++ S))
    refine ⟨J', o.toOp :: Seg', c' ++ c2, ?_, hJ', hinv J' c2 hsem⟩
    simpa [List.append_assoc] using hsh
  cases hInv with
  | nil hSeg hsem =>
    subst hSeg
    refine finish [] (c ++ flush J) ?_ ?_
    · simpa [List.append_assoc] using popLoop_stops hSo (O ++ c ++ flush J)
    · intro J' c2 h2
      refine .one o acc f ho rfl ?_ rfl
      have := sem1_sem1 hsem h2
      simpa [List.append_assoc] using this
  | one p x y hp hSeg hsem hacc =>
    subst hSeg
    subst hacc
    -- does `o` pop `p`?
    by_cases hpop : Pops o.toOp p.toOp
    · refine finish [] (c ++ flush J ++ [.op p.toOp]) ?_ ?_
      · have := popLoop_stops hSo (O ++ c ++ flush J ++ [.op p.toOp])
        simpa [List.append_assoc, popLoop_pops hpop] using this
      · intro J' c2 h2
        refine .one o (lift2 p x y) f ho rfl ?_ rfl
        have := sem1_sem1 (sem2_op p hsem) h2
        simpa [List.append_assoc] using this
    · -- only `R` on top of `L` does not pop
      have hoR : o = lv.R ∧ p = lv.L := by
        rcases ho with rfl | rfl <;> rcases hp with rfl | rfl
        · exact absurd (pops_LL lv) hpop
        · exact absurd (pops_LR lv) hpop
        · exact ⟨rfl, rfl⟩
        · exact absurd (pops_RR lv) hpop
      obtain ⟨rfl, rfl⟩ := hoR
      refine finish [lv.L.toOp] (c ++ flush J) ?_ ?_
      · simpa [List.append_assoc] using popLoop_R_on_L lv S (O ++ c ++ flush J)
      · intro J' c2 h2
        refine .two x y f rfl ?_ rfl
        have := sem2_sem1 hsem h2
        simpa [List.append_assoc] using this
  | two x y z hSeg hsem hacc =>
    subst hSeg
    subst hacc
    rcases ho with rfl | rfl
    · -- `L` pops `R` and `L`
      refine finish [] (c ++ flush J ++ [.op lv.R.toOp, .op lv.L.toOp]) ?_ ?_
      · have := popLoop_stops hSo (O ++ c ++ flush J ++ [.op lv.R.toOp] ++ [.op lv.L.toOp])
        simpa [List.append_assoc, popLoop_pops (pops_LR lv), popLoop_pops (pops_LL lv)] using this
      · intro J' c2 h2
        refine .one lv.L (lift2 lv.R (lift2 lv.L x y) z) f (Or.inl rfl) rfl ?_ rfl
        have h1 : Sem1 env ((c ++ flush J ++ [.op lv.R.toOp]) ++ [.op lv.L.toOp]) (lift2 lv.L x (lift2 lv.R y z)) :=
          sem2_op lv.L (sem3_op lv.R hsem)
        rw [← lift2_alg] at h1
        have := sem1_sem1 h1 h2
        simpa [List.append_assoc] using this
    · -- `R` pops `R` only
      refine finish [lv.L.toOp] (c ++ flush J ++ [.op lv.R.toOp]) ?_ ?_
      · have := popLoop_R_on_L lv S (O ++ c ++ flush J ++ [.op lv.R.toOp])
        simpa [List.append_assoc, popLoop_pops (pops_RR lv)] using this
      · intro J' c2 h2
        refine .two x (lift2 lv.R y z) f rfl ?_ ?_
        · have := sem2_sem1 (sem3_op lv.R hsem) h2
          simpa [List.append_assoc] using this
        · rw [lift2_alg lv x y z]

/-- Leaving a level: what is left on the stack is popped at once by every operator that pops `L` and `R`. -/
theorem level_exit {lv : Level} {P P' : Op → Prop} {S : List Op} {O : List Step} {σ : St} {acc : M V}
    (hP' : ∀ o, P' o → P o ∧ Pops o lv.L.toOp ∧ Pops o lv.R.toOp)
    (hσ : LevelState env lv P S O σ acc) :
    ∃ J c, σ = (J ++ S, O ++ c) ∧ Junk P' J ∧ Sem1 env (c ++ flush J) acc := by
  obtain ⟨J, Seg, c, rfl, hJ, hInv⟩ := hσ
  have hJ' : Junk P' J := junk_mono (fun o ho => (hP' o ho).1) hJ
  refine ⟨J ++ Seg, c, rfl, ?_, ?_⟩
  · refine junk_append hJ' (junk_of_pops ?_)
    intro o ho p hp
    cases hInv with
    | nil hSeg _ => subst hSeg; simp at hp
    | one q x y hq hSeg _ _ =>
      subst hSeg
      simp at hp; subst hp
      rcases hq with rfl | rfl
      · exact (hP' o ho).2.1
      · exact (hP' o ho).2.2
    | two x y z hSeg _ _ =>
      subst hSeg
      simp at hp
      rcases hp with rfl | rfl
      · exact (hP' o ho).2.2
      · exact (hP' o ho).2.1
  · rw [flush_append, ← List.append_assoc]
    cases hInv with
    | nil hSeg hsem => subst hSeg; simpa [flush] using hsem
    | one q x y hq hSeg hsem hacc =>
      subst hSeg; subst hacc
      simpa [flush] using sem2_op q hsem
    | two x y z hSeg hsem hacc =>
      subst hSeg; subst hacc
      have h1 : Sem1 env ((c ++ flush J ++ [.op lv.R.toOp]) ++ [.op lv.L.toOp]) (lift2 lv.L x (lift2 lv.R y z)) :=
        sem2_op lv.L (sem3_op lv.R hsem)
      rw [← lift2_alg] at h1
      simpa [flush, List.append_assoc] using h1

theorem levelState_elemOK {lv : Level} {P P' : Op → Prop} {Ctx : List Op → Prop} {el : List Tok} {f : M V}
    (hP' : ∀ o, P' o → P o ∧ Pops o lv.L.toOp ∧ Pops o lv.R.toOp)
    (h : ∀ S O, Ctx S → LevelState env lv P S O (shuntS el (S, O)) f) :
    ElemOK env P' Ctx el f :=
  fun S O hctx => level_exit env hP' (h S O hctx)

end

end Formula
