/-
C10 — invariants of the service machine (`Svc.step`) over every event list.
-/
import Frequenz.Lemmas.ActorLoop

namespace Actor

/-! ### the per-task functions behind `Svc.step` -/

def cancelOne (t : Tsk) : Tsk := if ownedLive t then { t with cancelReq := true } else t
def clearOne (t : Tsk) : Tsk := if t.owned then { t with owned := false, dropped := true } else t
def unownOne (batch : List Nat) (t : Tsk) : Tsk := if batch.contains t.id then { t with owned := false } else t
def stepOne (lim : Option Nat) (now : Int) (i : Nat) (r : StepRes) (t : Tsk) : Tsk :=
  if t.id = i then t.step lim now r else t

theorem cancelAll_eq (ts : List Tsk) : cancelAll ts = ts.map cancelOne := rfl
theorem clearOwned_eq (ts : List Tsk) : clearOwned ts = ts.map clearOne := rfl
theorem unown_eq (b : List Nat) (ts : List Tsk) : unown b ts = ts.map (unownOne b) := rfl

section fields
variable (t : Tsk)

@[simp] theorem cancelOne_id : (cancelOne t).id = t.id := by unfold cancelOne; split <;> rfl
@[simp] theorem cancelOne_loop : (cancelOne t).loop = t.loop := by unfold cancelOne; split <;> rfl
@[simp] theorem cancelOne_phase : (cancelOne t).phase = t.phase := by unfold cancelOne; split <;> rfl
@[simp] theorem cancelOne_owned : (cancelOne t).owned = t.owned := by unfold cancelOne; split <;> rfl
@[simp] theorem cancelOne_dropped : (cancelOne t).dropped = t.dropped := by unfold cancelOne; split <;> rfl
@[simp] theorem cancelOne_hist : (cancelOne t).hist = t.hist := by unfold cancelOne; split <;> rfl
@[simp] theorem cancelOne_isDone : (cancelOne t).isDone = t.isDone := by simp [Tsk.isDone]

@[simp] theorem clearOne_id : (clearOne t).id = t.id := by unfold clearOne; split <;> rfl
@[simp] theorem clearOne_loop : (clearOne t).loop = t.loop := by unfold clearOne; split <;> rfl
@[simp] theorem clearOne_phase : (clearOne t).phase = t.phase := by unfold clearOne; split <;> rfl
@[simp] theorem clearOne_owned : (clearOne t).owned = false := by
  unfold clearOne; split
  · rfl
  · simp_all
@[simp] theorem clearOne_hist : (clearOne t).hist = t.hist := by unfold clearOne; split <;> rfl
@[simp] theorem clearOne_isDone : (clearOne t).isDone = t.isDone := by simp [Tsk.isDone]

variable (b : List Nat)
@[simp] theorem unownOne_id : (unownOne b t).id = t.id := by unfold unownOne; split <;> rfl
@[simp] theorem unownOne_loop : (unownOne b t).loop = t.loop := by unfold unownOne; split <;> rfl
@[simp] theorem unownOne_phase : (unownOne b t).phase = t.phase := by unfold unownOne; split <;> rfl
@[simp] theorem unownOne_dropped : (unownOne b t).dropped = t.dropped := by unfold unownOne; split <;> rfl
@[simp] theorem unownOne_hist : (unownOne b t).hist = t.hist := by unfold unownOne; split <;> rfl
@[simp] theorem unownOne_isDone : (unownOne b t).isDone = t.isDone := by simp [Tsk.isDone]
theorem unownOne_owned : (unownOne b t).owned = (t.owned && !b.contains t.id) := by
  unfold unownOne; split <;> simp_all

end fields

/-! ### `Tsk.step` never touches identity / ownership and never revives a finished task -/

section step
variable (lim : Option Nat) (now : Int) (r : StepRes) (t : Tsk)

theorem step_fields : (t.step lim now r).id = t.id ∧ (t.step lim now r).loop = t.loop ∧
    (t.step lim now r).owned = t.owned ∧ (t.step lim now r).dropped = t.dropped := by
  obtain ⟨id, lp, phase, cr, owned, dropped, hist⟩ := t
  cases phase <;> cases r <;> simp only [Tsk.step, beginIteration] <;> (repeat' split) <;> simp

theorem step_done (h : t.isDone = true) : t.step lim now r = t := by
  obtain ⟨id, lp, phase, cr, owned, dropped, hist⟩ := t
  cases phase <;> simp [Tsk.isDone] at h
  simp [Tsk.step]

/-- A task that is not a run-loop task stays `extra` until it is done. -/
theorem step_extra (h : t.phase = .extra) :
    (t.step lim now r).phase = .extra ∨ (t.step lim now r).isDone = true := by
  obtain ⟨id, lp, phase, cr, owned, dropped, hist⟩ := t
  simp only at h; subst h
  cases r <;> simp [Tsk.step, Tsk.isDone]

end step

section stepOne
variable (lim : Option Nat) (now : Int) (i : Nat) (r : StepRes) (t : Tsk)
@[simp] theorem stepOne_id : (stepOne lim now i r t).id = t.id := by
  unfold stepOne; split <;> simp [step_fields]
@[simp] theorem stepOne_loop : (stepOne lim now i r t).loop = t.loop := by
  unfold stepOne; split <;> simp [step_fields]
@[simp] theorem stepOne_owned : (stepOne lim now i r t).owned = t.owned := by
  unfold stepOne; split <;> simp [step_fields]
@[simp] theorem stepOne_dropped : (stepOne lim now i r t).dropped = t.dropped := by
  unfold stepOne; split <;> simp [step_fields]
theorem stepOne_done (h : t.isDone = true) : stepOne lim now i r t = t := by
  unfold stepOne; split <;> simp [step_done, h]
end stepOne

/-! ### how one event changes the task list -/

inductive TasksStep (lim : Option Nat) (now : Int) : List Tsk → List Tsk → Prop
  | same (ts) : TasksStep lim now ts ts
  | cancel (ts) : TasksStep lim now ts (ts.map cancelOne)
  | step (ts i r) : TasksStep lim now ts (ts.map (stepOne lim now i r))
  | unown (ts b) : batchDone ts b = true → TasksStep lim now ts (ts.map (unownOne b))
  | restart (ts) : ts.any ownedLive = false → TasksStep lim now ts (ts.map clearOne ++ [newLoopTask ts.length])
  | add (ts) : TasksStep lim now ts (ts ++ [newExtraTask ts.length])
  | trans {a b c} : TasksStep lim now a b → TasksStep lim now b c → TasksStep lim now a c

theorem startGuarded_true : Extracted.Actor.startGuarded = true := by decide

theorem start_tasks (s : Svc) : TasksStep s.limit s.now s.tasks s.start.tasks := by
  unfold Svc.start
  by_cases h : s.isRunning = true
  · simp [h, startGuarded_true]; exact .same _
  · simp only [h, Bool.and_false, Bool.false_eq_true, if_false, clearOwned_eq]
    exact .restart _ (by simpa [Svc.isRunning] using h)

theorem call_tasks (s : Svc) (k : CallKind) : TasksStep s.limit s.now s.tasks (s.call k).tasks := by
  unfold Svc.call
  split
  · simp only []
    split
    · rw [cancelAll_eq]; exact .cancel _
    · exact .same _
  · exact .same _

theorem wake_tasks (s : Svc) (c : Nat) : TasksStep s.limit s.now s.tasks (s.wake c).tasks := by
  unfold Svc.wake
  split
  · exact .same _
  · split
    · exact .same _
    · rename_i batch _
      split
      · rename_i hb
        simp only []
        split
        · simp only []
          split
          · rw [cancelAll_eq, unown_eq]; exact .trans (.unown _ _ hb) (.cancel _)
          · rw [unown_eq]; exact .unown _ _ hb
        · simp only [unown_eq]; exact .unown _ _ hb
      · exact .same _

theorem step_tasks (s : Svc) (e : Event) : TasksStep s.limit s.now s.tasks (s.step e).tasks := by
  cases e with
  | advance d => exact .same _
  | start => exact start_tasks s
  | cancel => simp only [Svc.step, cancelAll_eq]; exact .cancel _
  | addTask => exact .add _
  | call k => exact call_tasks s k
  | taskStep i r => exact .step _ i r
  | wake c => exact wake_tasks s c

/-! ### invariants of the task list -/

def liveLoop (t : Tsk) : Bool := t.loop && !t.isDone

theorem filter_map_length_le (p : Tsk → Bool) (g : Tsk → Tsk) (ts : List Tsk)
    (h : ∀ t ∈ ts, p (g t) = true → p t = true) :
    ((ts.map g).filter p).length ≤ (ts.filter p).length := by
  induction ts with
  | nil => simp
  | cons x xs ih =>
    have ih' := ih (fun t ht => h t (List.mem_cons_of_mem _ ht))
    have hx := h x List.mem_cons_self
    simp only [List.map_cons, List.filter_cons]
    by_cases h1 : p (g x) = true
    · simp [h1, hx h1]; omega
    · by_cases h2 : p x = true <;> simp [h1, h2] <;> omega

theorem batchDone_mem {ts : List Tsk} {b : List Nat} (h : batchDone ts b = true) {t : Tsk} (ht : t ∈ ts)
    (hb : b.contains t.id = true) : t.isDone = true := by
  unfold batchDone at h
  have := (List.all_eq_true.mp h) t ht
  rw [hb] at this
  simpa using this

theorem stepOne_isDone_of (lim : Option Nat) (now : Int) (i : Nat) (r : StepRes) (t : Tsk)
    (h : t.isDone = true) : (stepOne lim now i r t).isDone = true := by
  rw [stepOne_done _ _ _ _ _ h]; exact h

structure TInv (lim : Option Nat) (ts : List Tsk) : Prop where
  unownedDone : ∀ t ∈ ts, t.owned = false → t.isDone = true
  idLt : ∀ t ∈ ts, t.id < ts.length
  taskInv : ∀ t ∈ ts, TaskInv lim t
  loopPhase : ∀ t ∈ ts, t.loop = false → (t.phase = .extra ∨ t.isDone = true)
  live : (ts.filter liveLoop).length ≤ 1

theorem TInv_nil (lim : Option Nat) : TInv lim [] :=
  ⟨by simp, by simp, by simp, by simp, by simp⟩

theorem TInv_step {lim : Option Nat} {now : Int} {a b : List Tsk} (hs : TasksStep lim now a b) :
    TInv lim a → TInv lim b := by
  induction hs with
  | same ts => exact id
  | cancel ts =>
    intro h
    refine ⟨?_, ?_, ?_, ?_, ?_⟩
    · intro t ht; obtain ⟨u, hu, rfl⟩ := List.mem_map.mp ht; simpa using h.unownedDone u hu
    · intro t ht; obtain ⟨u, hu, rfl⟩ := List.mem_map.mp ht; simpa using h.idLt u hu
    · intro t ht; obtain ⟨u, hu, rfl⟩ := List.mem_map.mp ht
      exact TaskInv_congr (by simp) (by simp) (h.taskInv u hu)
    · intro t ht; obtain ⟨u, hu, rfl⟩ := List.mem_map.mp ht; simpa using h.loopPhase u hu
    · exact Nat.le_trans (filter_map_length_le _ _ _ (by intro t _; simp [liveLoop])) h.live
  | step ts i r =>
    intro h
    refine ⟨?_, ?_, ?_, ?_, ?_⟩
    · intro t ht; obtain ⟨u, hu, rfl⟩ := List.mem_map.mp ht
      intro ho; simp at ho
      exact stepOne_isDone_of _ _ _ _ _ (h.unownedDone u hu ho)
    · intro t ht; obtain ⟨u, hu, rfl⟩ := List.mem_map.mp ht; simpa using h.idLt u hu
    · intro t ht; obtain ⟨u, hu, rfl⟩ := List.mem_map.mp ht
      unfold stepOne; split
      · exact TaskInv_step _ _ _ _ (h.taskInv u hu)
      · exact h.taskInv u hu
    · intro t ht; obtain ⟨u, hu, rfl⟩ := List.mem_map.mp ht
      intro hl; simp at hl
      rcases h.loopPhase u hu hl with he | hd
      · unfold stepOne; split
        · exact step_extra _ _ _ _ he
        · exact Or.inl he
      · exact Or.inr (stepOne_isDone_of _ _ _ _ _ hd)
    · refine Nat.le_trans (filter_map_length_le _ _ _ ?_) h.live
      intro t _ hl
      simp only [liveLoop, stepOne_loop, Bool.and_eq_true, Bool.not_eq_true'] at hl ⊢
      refine ⟨hl.1, ?_⟩
      cases hd : t.isDone with
      | false => rfl
      | true => rw [stepOne_isDone_of _ _ _ _ _ hd] at hl; exact absurd hl.2 (by simp)
  | unown ts b hb =>
    intro h
    refine ⟨?_, ?_, ?_, ?_, ?_⟩
    · intro t ht; obtain ⟨u, hu, rfl⟩ := List.mem_map.mp ht
      intro ho
      rw [unownOne_owned] at ho
      simp only [unownOne_isDone]
      cases hc : b.contains u.id with
      | true => exact batchDone_mem hb hu hc
      | false => rw [hc] at ho; exact h.unownedDone u hu (by simpa using ho)
    · intro t ht; obtain ⟨u, hu, rfl⟩ := List.mem_map.mp ht; simpa using h.idLt u hu
    · intro t ht; obtain ⟨u, hu, rfl⟩ := List.mem_map.mp ht
      exact TaskInv_congr (by simp) (by simp) (h.taskInv u hu)
    · intro t ht; obtain ⟨u, hu, rfl⟩ := List.mem_map.mp ht; simpa using h.loopPhase u hu
    · exact Nat.le_trans (filter_map_length_le _ _ _ (by intro t _; simp [liveLoop])) h.live
  | restart ts hr =>
    intro h
    have hall : ∀ t ∈ ts, t.isDone = true := by
      intro t ht
      cases ho : t.owned with
      | false => exact h.unownedDone t ht ho
      | true =>
        have := (List.any_eq_false.mp hr) t ht
        simpa [ownedLive, ho] using this
    refine ⟨?_, ?_, ?_, ?_, ?_⟩
    · intro t ht
      rcases List.mem_append.mp ht with ht | ht
      · obtain ⟨u, hu, rfl⟩ := List.mem_map.mp ht; intro _; simpa using hall u hu
      · simp at ht; subst ht; simp [newLoopTask]
    · intro t ht
      rcases List.mem_append.mp ht with ht | ht
      · obtain ⟨u, hu, rfl⟩ := List.mem_map.mp ht
        have := h.idLt u hu; simp; omega
      · simp at ht; subst ht; simp [newLoopTask]
    · intro t ht
      rcases List.mem_append.mp ht with ht | ht
      · obtain ⟨u, hu, rfl⟩ := List.mem_map.mp ht
        exact TaskInv_congr (by simp) (by simp) (h.taskInv u hu)
      · simp at ht; subst ht; exact TaskInv_newLoop _ _
    · intro t ht
      rcases List.mem_append.mp ht with ht | ht
      · obtain ⟨u, hu, rfl⟩ := List.mem_map.mp ht; simpa using h.loopPhase u hu
      · simp at ht; subst ht; simp [newLoopTask]
    · have : (ts.map clearOne).filter liveLoop = [] := by
        rw [List.filter_eq_nil_iff]
        intro t ht; obtain ⟨u, hu, rfl⟩ := List.mem_map.mp ht
        simp [liveLoop, hall u hu]
      simp [List.filter_append, this, List.filter_cons]
      split <;> simp
  | add ts =>
    intro h
    refine ⟨?_, ?_, ?_, ?_, ?_⟩
    · intro t ht
      rcases List.mem_append.mp ht with ht | ht
      · exact h.unownedDone t ht
      · simp at ht; subst ht; simp [newExtraTask]
    · intro t ht
      rcases List.mem_append.mp ht with ht | ht
      · have := h.idLt t ht; simp; omega
      · simp at ht; subst ht; simp [newExtraTask]
    · intro t ht
      rcases List.mem_append.mp ht with ht | ht
      · exact h.taskInv t ht
      · simp at ht; subst ht; exact TaskInv_newExtra _ _
    · intro t ht
      rcases List.mem_append.mp ht with ht | ht
      · exact h.loopPhase t ht
      · simp at ht; subst ht; simp [newExtraTask]
    · have : liveLoop (newExtraTask ts.length) = false := by simp [liveLoop, newExtraTask]
      simpa [List.filter_append, List.filter_cons, this] using h.live
  | trans _ _ ih1 ih2 => exact fun h => ih2 (ih1 h)

theorem filter_length_le_of_imp (p q : Tsk → Bool) (ts : List Tsk)
    (h : ∀ t ∈ ts, p t = true → q t = true) : (ts.filter p).length ≤ (ts.filter q).length := by
  induction ts with
  | nil => simp
  | cons x xs ih =>
    have ih' := ih (fun t ht => h t (List.mem_cons_of_mem _ ht))
    have hx := h x List.mem_cons_self
    simp only [List.filter_cons]
    by_cases h1 : p x = true
    · simp [h1, hx h1]; omega
    · by_cases h2 : q x = true <;> simp [h1, h2] <;> omega

end Actor
