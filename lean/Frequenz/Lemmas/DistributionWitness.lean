/-
Concrete inputs for the refutations and non-vacuity examples of C01 / C02 (the same cases are replayed on the
real code from `corpus/C01`, `corpus/C02`).  All facts are decided by kernel evaluation of the model.
-/
import Frequenz.Model.Distribution

namespace DistWitness
open Dist

/-- one battery (capacity `cap`, SoC `soc` in [10, 90]) with symmetric bounds ±`bIncl`, exclusion ±`bExcl`,
behind one inverter with bounds ±`iIncl`, exclusion ±`iExcl` -/
def pair (bid iid : Int) (cap soc bExcl bIncl iExcl iIncl : Rat) : Group :=
  { bats := [{ id := bid, cap := cap, soc := soc, socLo := 10, socHi := 90, il := -bIncl, el := -bExcl, eu := bExcl, iu := bIncl }]
    invs := [{ id := iid, il := -iIncl, el := -iExcl, eu := iExcl, iu := iIncl }] }

def outOf (inp : Input) : Out :=
  match distribute inp with
  | some o => o
  | none => { groups := [], rem := 0, flags := noFlags, core := none }

/-- DESIGN §5 #1: two equal batteries, exclusion bound 80 W on the first; 100 W requested, 110 W commanded. -/
def createsPower : Input :=
  { power := 100, exp := 1, groups := [pair 1 11 10 50 80 200 0 200, pair 2 12 10 50 0 200 0 200] }

/-- DESIGN §5 #2: a full battery with exclusion bound 300 W next to a small one; 301 W requested:
the full battery is charged with 300 W and 1 W disappears. -/
def fullBatteryCharged : Input :=
  { power := 301, exp := 1, groups := [pair 1 11 10 90 300 500 0 500, pair 2 12 1 50 0 500 0 500] }

/-- DESIGN §5 #1b: battery exclusion bound 400 W, inverters (excl 0, incl 300) and (excl 300, incl 300) in
iteration order; 550 W requested: 300 W commanded, 250 W dropped, remainder 0. -/
def splitDrops : Input :=
  { power := 550, exp := 1
    groups := [{ bats := [{ id := 3, cap := 10, soc := 50, socLo := 10, socHi := 90, il := -1000, el := -400, eu := 400, iu := 1000 }]
                 invs := [{ id := 1, il := -300, el := 0, eu := 0, iu := 300 }, { id := 2, il := -300, el := -300, eu := 300, iu := 300 }] }] }

/-- Four groups with exclusion bound = inclusion bound = 100 W, one of them with almost all the capacity
(request 1000 W, beyond the inclusion bounds): every deficit of the small groups is subtracted from
`distributed_power`, which ends at about −144 W; all groups sit at 100 W and the reported remainder is
≈ 1144.5 W — larger than the request. -/
def remainderExceeds : Input :=
  { power := 1000, exp := 1
    groups := [pair 1 11 1000 50 100 100 0 100, pair 2 12 1 50 100 100 0 100, pair 3 13 1 50 100 100 0 100,
               pair 4 14 1 50 100 100 0 100] }

/-- Tolerance corner `isclose_cover` (not a finding): the excess 25 − 7.5e-9 W covers the deficit
25 + 7.5e-9 W through `math.isclose`; the second inverter's set-point is −1.5e-8 W. -/
def iscloseCorner : Input :=
  { power := 100, exp := 1
    groups := [pair 1 11 10 50 (75 * (1 + 1 / 10000000000)) 400 0 400, pair 2 12 10 50 0 400 0 400] }

/-- OUTSIDE the domain (kept for the correspondence check): four groups with minimum power 100 W each, two
through the battery and two through the inverter.  `BatteryManager._get_bounds` enforces only 200 W and
forwards a 200 W request (one inverter is then commanded −100 W), but the pool ADVERTISES an exclusion bound
of 400 W, so the request is not admitted by the advertised bounds. -/
def overcommit : Input :=
  { power := 200, exp := 1
    groups := [pair 1 11 10 50 100 500 0 500, pair 2 12 10 50 100 500 0 500, pair 3 13 10 50 0 500 100 500,
               pair 4 14 10 50 0 500 100 500] }

/-- DESIGN §5 #3: exponent 0, one of two equal batteries is full; it still gets half of the power. -/
def exponentZero : Input :=
  { power := 100, exp := 0, groups := [pair 1 11 10 90 0 500 0 500, pair 2 12 10 50 0 500 0 500] }

/-- A non-trivial case outside every regime: three groups, exclusion bounds, one group without headroom,
a two-inverter group, request beyond one group's share. -/
def regular : Input :=
  { power := 700, exp := 1
    groups := [pair 1 11 10 50 50 300 20 300, pair 2 12 20 90 0 500 0 500,
               { bats := [{ id := 3, cap := 10, soc := 30, socLo := 10, socHi := 90, il := -600, el := -40, eu := 40, iu := 600 }]
                 invs := [{ id := 13, il := -300, el := 0, eu := 0, iu := 300 }, { id := 14, il := -300, el := -10, eu := 10, iu := 300 }] }] }

/-- the supply-side mirror of `regular` -/
def regularSupply : Input := { regular with power := -700 }

end DistWitness
