/-
C10 — `cancel_and_await`: a call that has returned found / left the task finished, for every schedule.
-/
import Frequenz.Model.Actor

namespace Actor.CA

open Extracted.Actor (caEarlyReturn caCancels caSwallowsCancelled)

/-- The extracted guard lets `cancel_and_await` return early only when the task is done. -/
theorem earlyReturn_sound (d : Bool) (n : Nat) (h : caEarlyReturn d n = true) : d = true := by
  simpa [caEarlyReturn] using h

theorem earlyReturn_done (n : Nat) : caEarlyReturn true n = true := by
  simp [caEarlyReturn]

theorem caCancels_true : caCancels = true := by decide
theorem caSwallows_true : caSwallowsCancelled = true := by decide

theorem step_done (t : Task) (r : StepRes) (h : t.isDone = true) : t.step r = t := by
  obtain ⟨ph, cr, n⟩ := t
  cases ph <;> simp [Task.isDone] at h
  simp [Task.step]

theorem cancel_done (t : Task) (h : t.isDone = true) : t.cancel = t := by
  simp [Task.cancel, h]

theorem cancel_phase (t : Task) : t.cancel.phase = t.phase := by
  unfold Task.cancel; split <;> rfl

/-- What a returned call reports, given the final outcome `o` of the task. -/
def Reported (o : Outcome) (early : Bool) (raised : Option Outcome) : Prop :=
  (early = true → raised = none) ∧ (early = false → raised = propagated o)

def Inv (s : St) : Prop :=
  ∀ c ∈ s.callers, ∀ early raised tm, c = .returned early raised tm →
    ∃ o, s.task.phase = .done o ∧ Reported o early raised

theorem Inv_init : Inv init := by intro c hc; simp [init] at hc

theorem Inv_task {s : St} {t' : Task} (h : Inv s) (hp : s.task.isDone = true → t'.phase = s.task.phase) :
    Inv { s with task := t' } := by
  intro c hc early raised tm hr
  obtain ⟨o, ho, hrep⟩ := h c hc early raised tm hr
  exact ⟨o, by rw [hp (by simp [Task.isDone, ho])]; exact ho, hrep⟩

theorem Inv_step (s : St) (e : Ev) (h : Inv s) : Inv (step s e) := by
  cases e with
  | advance d => exact h
  | cancel => exact Inv_task h (fun _ => cancel_phase _)
  | call =>
    simp only [step]
    split
    · rename_i hg
      have hd := earlyReturn_sound _ _ hg
      intro c hc early raised tm hr
      rcases List.mem_append.mp hc with hc | hc
      · exact h c hc early raised tm hr
      · simp at hc; subst hc
        cases hr
        cases hph : s.task.phase with
        | done o => exact ⟨o, rfl, ⟨fun _ => rfl, fun h => by cases h⟩⟩
        | notStarted => simp [Task.isDone, hph] at hd
        | running => simp [Task.isDone, hph] at hd
        | cleaning => simp [Task.isDone, hph] at hd
    · intro c hc early raised tm hr
      rcases List.mem_append.mp hc with hc | hc
      · have h' : Inv { s with task := if caCancels = true then s.task.cancel else s.task } := by
          apply Inv_task h
          intro _; split
          · exact cancel_phase _
          · rfl
        exact h' c hc early raised tm hr
      · simp at hc; subst hc; cases hr
  | taskStep r => exact Inv_task h (fun hd => by rw [step_done _ _ hd])
  | wake c =>
    simp only [step]
    split
    · rename_i o hc hph
      intro x hx early raised tm hr
      rcases List.mem_or_eq_of_mem_set hx with hx | rfl
      · exact h x hx early raised tm hr
      · cases hr
        exact ⟨o, hph, ⟨fun h => (by cases h), fun _ => rfl⟩⟩
    · exact h

theorem Inv_exec (s : St) (es : List Ev) (h : Inv s) : Inv (exec s es) := by
  induction es generalizing s with
  | nil => exact h
  | cons e es ih => exact ih (step s e) (Inv_step s e h)

end Actor.CA
