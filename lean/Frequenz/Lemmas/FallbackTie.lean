/-
The hand-written model of `MetricFetcher` with a fallback (`Frequenz.Model.Fallback`: `round`, `withFallback`,
`withLatest`, `syncLoop`) agrees, for ALL states, with the machine translation of the current source text of
`MetricFetcher.fetch_next` and everything it calls (`Frequenz.Extracted.FallbackPull`, regenerated on every run).

The translation works on concrete values (`None` / NaN / ±inf / number, `Pull.Q`), the model on `Option Rat` with the
first three collapsed to `none`; `absV`/`absS` is that abstraction.  The ghost/history fields of the model state
(`out` except for the appended result, `pAll`, `fAll`, `acc`) are carried along unchanged.

The proofs do not depend on the shape of the generated terms: they unfold both sides, split on the options / lists /
conditions that occur and close the leaves by simplification, so a behaviour-preserving rewrite of the Python still
goes through while a semantic change leaves a false leaf.
-/
import Frequenz.Model.Fallback
import Frequenz.Extracted.FallbackPull

namespace FallbackTie

open Fallback Pull Extracted.FallbackPull

/-! ### Abstraction -/

/-- `None`, NaN and ±inf are the model's "invalid" (`none`). -/
def absV : Option Q → Option Rat
  | some (.num q) => some q
  | _ => none

def absS (s : PSample) : Sample := ⟨s.ts, absV s.val⟩

@[simp] theorem absS_ts (s : PSample) : (absS s).ts = s.ts := rfl
@[simp] theorem absS_val (s : PSample) : (absS s).val = absV s.val := rfl

/-- A returned value as a result of the model. -/
def absR : Option PSample → Res
  | none => .none
  | some s => .sample (absS s)

/-- The model state `σ` after a call that left the translated state `c` and produced `r`: the six live fields are
those of `c`, the result is appended to `out`, the history fields are untouched. -/
def put (σ : St) (c : PSt) (r : Res) : St :=
  { σ with pq := c.pq.map absS, pClosed := c.pClosed, fq := c.fq.map absS, fClosed := c.fClosed,
           running := c.running, latest := c.latest.map absS, out := σ.out ++ [r] }

/-- The model state with the six live fields of `c` and the ghost fields of `g`. -/
def lift (g : St) (c : PSt) : St :=
  { g with pq := c.pq.map absS, pClosed := c.pClosed, fq := c.fq.map absS, fClosed := c.fClosed,
           running := c.running, latest := c.latest.map absS }

/-- `σ` is the abstraction of `c` (a fetcher that HAS a fallback). -/
def Rel (σ : St) (c : PSt) : Prop :=
  σ.pq = c.pq.map absS ∧ σ.pClosed = c.pClosed ∧ σ.fq = c.fq.map absS ∧ σ.fClosed = c.fClosed ∧
  σ.running = c.running ∧ σ.latest = c.latest.map absS ∧ c.hasFb = true

/-- The outcome `o` of the translated call is what the model's `m : Option St` says: blocked ↔ `none`; a returned
value / a propagated `ReceiverError` ↔ that result appended and the same new state; never any other exception. -/
def Agrees (σ : St) (m : Option St) : Out (Option PSample) → Prop
  | .block => m = none
  | .ok v c' => m = some (put σ c' (absR v))
  | .exc .recv c' => m = some (put σ c' .raised)
  | .exc .fault _ => False

/-! ### `_is_value_valid` -/

theorem valid_eq (v : Option Q) (c : PSt) : priv_is_value_valid v c = .ok (absV v).isSome c := by
  unfold priv_is_value_valid
  rcases v with _ | (_ | _ | q) <;> simp [absV, Q.isnan, Q.isinf]

/-! ### The synchronisation loop -/

/-- `Fallback.syncLoop` on concrete samples. -/
inductive CSync where
  | done (l : PSample) (fq : List PSample)
  | err (l : PSample)
  | block

def csync (pts : Int) : PSample → List PSample → Bool → CSync
  | l, [], closed => if pts > l.ts then (if closed then .err l else .block) else .done l []
  | l, s :: r, closed => if pts > l.ts then csync pts s r closed else .done l (s :: r)

def CSync.abs : CSync → Sync
  | .done l fq => .done (absS l) (fq.map absS)
  | .err l => .err (absS l)
  | .block => .block

theorem syncLoop_abs (pts : Int) (fq : List PSample) : ∀ (l : PSample) (closed : Bool),
    syncLoop pts (absS l) (fq.map absS) closed = (csync pts l fq closed).abs := by
  induction fq with
  | nil =>
    intro l closed
    simp only [List.map_nil, syncLoop, csync]
    by_cases h : pts > (absS l).ts
    · have h' : pts > l.ts := h
      rw [if_pos h, if_pos h']; cases closed <;> rfl
    · have h' : ¬ pts > l.ts := h
      rw [if_neg h, if_neg h']; rfl
  | cons s r ih =>
    intro l closed
    simp only [List.map_cons, syncLoop, csync]
    rw [ih]
    by_cases h : pts > (absS l).ts
    · have h' : pts > l.ts := h
      rw [if_pos h, if_pos h']
    · have h' : ¬ pts > l.ts := h
      rw [if_neg h, if_neg h']; rfl

/-- What the translated loop (followed by the `return` after it) yields for an outcome of `csync`. -/
def loopOut (c : PSt) : CSync → Out (Option PSample)
  | .block => .block
  | .err l => .ok none { c with fq := [], latest := some l }
  | .done l fq => .ok (some l) { c with fq := fq, latest := some l }

/-- Leaves of the case analyses: equalities of outcomes under hypotheses on timestamps / flags / earlier matches. -/
macro "tie_leaf" : tactic =>
  `(tactic| first
    | (simp_all [loopOut]; done)
    | (simp_all [loopOut]; omega)
    | (simp_all [loopOut]; grind)
    | omega
    | grind)

/-- Case-split every `if` / `match` in the goal, then close the leaves. -/
macro "tie_split" : tactic =>
  `(tactic| (repeat' split) <;> tie_leaf)

/-- The translated `while` loop of `_synchronize_and_fetch_fallback` (plus the final `return`) = `csync`, for every
fuel above the length of the fallback queue — in particular the fuel the translation passes is sufficient. -/
theorem loop_eq (p : PSample) (fq : List PSample) : ∀ (l : PSample) (c : PSt) (fuel : Nat),
    c.fq = fq → c.latest = some l → fq.length < fuel →
    priv_synchronize_and_fetch_fallback_loop1 (some p) fuel c = loopOut c (csync p.ts l fq c.fClosed) := by
  induction fq with
  | nil =>
    intro l c fuel hq hl hf
    obtain ⟨pq, pClosed, fq, fClosed, running, hasFb, latest, next⟩ := c
    simp only at hq hl; subst hq hl
    cases fuel with
    | zero => simp at hf
    | succ fuel =>
      unfold priv_synchronize_and_fetch_fallback_loop1 csync
      cases fClosed <;> simp only [recvF] <;> tie_split
  | cons s r ih =>
    intro l c fuel hq hl hf
    obtain ⟨pq, pClosed, fq, fClosed, running, hasFb, latest, next⟩ := c
    simp only at hq hl; subst hq hl
    cases fuel with
    | zero => simp at hf
    | succ fuel =>
      unfold priv_synchronize_and_fetch_fallback_loop1 csync
      cases fClosed <;> simp only [recvF] <;> tie_split

/-- `loop_eq` in rewriting form, with the fuel the translation passes (any fuel above the queue length). -/
theorem loop_eq' (p l : PSample) (pq fq : List PSample) (pc fc run hfb : Bool) (nx : Option PSample) (fuel : Nat)
    (hf : fq.length < fuel) :
    priv_synchronize_and_fetch_fallback_loop1 (some p) fuel ⟨pq, pc, fq, fc, run, hfb, some l, nx⟩ =
      loopOut ⟨pq, pc, fq, fc, run, hfb, some l, nx⟩ (csync p.ts l fq fc) :=
  loop_eq p fq l _ fuel rfl rfl hf

/-! ### `_synchronize_and_fetch_fallback` -/

/-- `_synchronize_and_fetch_fallback` once `latest = some l` is known (the early `return None`, then the loop). -/
def syncOut (p l : PSample) (c : PSt) : Out (Option PSample) :=
  if p.ts < l.ts then .ok none c else loopOut c (csync p.ts l c.fq c.fClosed)

theorem sync_eq (p : PSample) (c : PSt) :
    priv_synchronize_and_fetch_fallback (some p) c =
      match c.latest with
      | some l => syncOut p l c
      | none =>
        match c.fq with
        | s :: r => syncOut p s { c with fq := r, latest := some s }
        | [] => if c.fClosed then .ok none c else .block := by
  obtain ⟨pq, pc, fq, fc, run, hfb, latest, nx⟩ := c
  unfold priv_synchronize_and_fetch_fallback
  rcases latest with _ | l <;> rcases fq with _ | ⟨s, r⟩ <;> cases fc <;>
    simp only [recvF, syncOut, loop_eq', Nat.lt_add_one, List.length_cons, List.length_nil] <;> tie_split

/-! ### `fetch_next_with_fallback`, `_fetch_next`, `fetch_next`

`cWithLatest`, `cWithFallback`, `cround` are `Fallback.withLatest`, `withFallback`, `round` written on the concrete
state of the translation (`PSt`, outcomes `Out`).  They are proof devices: the generated functions are shown EQUAL to
them (`fnwf_eq`, `fetch_eq`, by unfolding and case splitting — the part that is re-checked against the source), and
they are shown to abstract to the model (`cround_abs`, independent of the source). -/

/-- `withLatest`; `c` is the state after the primary sample `p` was popped and `latest = some l` is known. -/
def cWithLatest (c : PSt) (p l : PSample) : Out (Option PSample) :=
  if p.ts < l.ts then .ok (some p) c
  else
    match csync p.ts l c.fq c.fClosed with
    | .done l' fq' => .ok (some (if (absV p.val).isSome then p else l')) { c with fq := fq', latest := some l' }
    | .err l' => .ok (some p) { c with fq := [], latest := some l' }
    | .block => .block

/-- `withFallback`; `c` is the state after the primary sample `p` was popped. -/
def cWithFallback (c : PSt) (p : PSample) : Out (Option PSample) :=
  match c.latest with
  | some l => cWithLatest c p l
  | none =>
    match c.fq with
    | s :: r => cWithLatest { c with fq := r, latest := some s } p s
    | [] => if c.fClosed then .ok (some p) c else .block

/-- `round`. -/
def cround (c : PSt) : Out (Option PSample) :=
  if c.running = false then
    match c.pq with
    | p :: pr =>
      if (absV p.val).isSome then .ok (some p) { c with pq := pr }
      else .ok (some p) { c with pq := pr, running := true }
    | [] => if c.pClosed then .ok none { c with running := true } else .block
  else
    match c.pq with
    | p :: pr => cWithFallback { c with pq := pr } p
    | [] =>
      if c.pClosed then
        match c.fq with
        | s :: r => .ok (some s) { c with fq := r }
        | [] => if c.fClosed then .exc .recv c else .block
      else .block

/-- `fetch_next_with_fallback` = the `running` half of `cround`. -/
theorem fnwf_eq (c : PSt) :
    fetch_next_with_fallback c =
      match c.pq with
      | p :: pr => cWithFallback { c with pq := pr } p
      | [] =>
        if c.pClosed then
          match c.fq with
          | s :: r => .ok (some s) { c with fq := r }
          | [] => if c.fClosed then .exc .recv c else .block
        else .block := by
  obtain ⟨pq, pc, fq, fc, run, hfb, latest, nx⟩ := c
  unfold fetch_next_with_fallback
  rcases pq with _ | ⟨p, pr⟩ <;> rcases latest with _ | l <;> rcases fq with _ | ⟨s, r⟩ <;> cases pc <;> cases fc <;>
    simp only [recvP, recvF, sync_eq, valid_eq, syncOut, cWithFallback, cWithLatest] <;> tie_split

/-- `_fetch_next` of a fetcher that has a fallback = `cround`. -/
theorem priv_fetch_eq (c : PSt) (h : c.hasFb = true) : priv_fetch_next c = cround c := by
  obtain ⟨pq, pc, fq, fc, run, hfb, latest, nx⟩ := c
  simp only at h; subst h
  unfold priv_fetch_next cround
  rcases pq with _ | ⟨p, pr⟩ <;> cases run <;> cases pc <;>
    simp only [fnwf_eq, recvP, valid_eq, start] <;> tie_split

/-- `fetch_next` = `cround`, the result stored in `next`. -/
theorem fetch_eq (c : PSt) (h : c.hasFb = true) :
    fetch_next c = match cround c with
      | .ok v c' => .ok v { c' with next := v }
      | o => o := by
  unfold fetch_next
  rw [priv_fetch_eq c h]
  tie_split

/-- Without a fallback `fetch_next` is a plain `receive()` on the primary stream. -/
theorem fetch_noFallback (c : PSt) (h : c.hasFb = false) :
    fetch_next c = match c.pq with
      | p :: pr => .ok (some p) { c with pq := pr, next := some p }
      | [] => if c.pClosed then .exc .recv c else .block := by
  obtain ⟨pq, pc, fq, fc, run, hfb, latest, nx⟩ := c
  simp only at h; subst h
  unfold fetch_next priv_fetch_next
  rcases pq with _ | ⟨p, pr⟩ <;> cases pc <;> simp only [recvP] <;> tie_split

/-! ### The concrete mirror abstracts to the model (independent of the source) -/

theorem cWithLatest_abs (g : St) (pq0 fq0 : List Sample) (lat0 : Option Sample) (pr fq : List PSample)
    (pc fc run hfb : Bool) (nx : Option PSample) (p l : PSample) :
    Agrees g
      (withLatest ⟨pq0, pc, fq0, fc, run, lat0, g.out, g.pAll, g.fAll, g.acc⟩ (absS p) (pr.map absS) (absS l)
        (fq.map absS))
      (cWithLatest ⟨pr, pc, fq, fc, run, hfb, some l, nx⟩ p l) := by
  unfold withLatest cWithLatest
  simp only [absS_ts, absS_val, syncLoop_abs]
  by_cases h : p.ts < l.ts
  · simp [h, Agrees, put, absR]
  · simp only [h, if_false]
    cases hc : csync p.ts l fq fc with
    | block => simp [CSync.abs, Agrees]
    | err l' => simp [CSync.abs, Agrees, put, absR]
    | done l' fq' =>
      by_cases hv : (absV p.val).isSome = true <;> simp [hv, CSync.abs, Agrees, put, absR]

theorem cround_abs (g : St) (c : PSt) : Agrees (lift g c) (round (lift g c)) (cround c) := by
  obtain ⟨pq, pc, fq, fc, run, hfb, latest, nx⟩ := c
  obtain ⟨gpq, gpc, gfq, gfc, grun, glat, gout, gpAll, gfAll, gacc⟩ := g
  unfold round cround lift
  cases run
  · rcases pq with _ | ⟨p, pr⟩
    · cases pc <;> simp [Agrees, put, absR]
    · by_cases hv : (absV p.val).isSome = true <;> simp [hv, Agrees, put, absR]
  · rcases pq with _ | ⟨p, pr⟩
    · cases pc
      · simp [Agrees]
      · rcases fq with _ | ⟨s, r⟩
        · cases fc <;> simp [Agrees, put]
        · simp [Agrees, put, absR]
    · simp only [List.map_cons, withFallback, cWithFallback]
      rcases latest with _ | l
      · rcases fq with _ | ⟨s, r⟩
        · cases fc <;> simp [Agrees, put, absR]
        · exact cWithLatest_abs ⟨gpq, gpc, gfq, gfc, grun, glat, gout, gpAll, gfAll, gacc⟩ _ _ _ pr r pc fc true hfb nx p s
      · exact cWithLatest_abs ⟨gpq, gpc, gfq, gfc, grun, glat, gout, gpAll, gfAll, gacc⟩ _ _ _ pr fq pc fc true hfb nx p l

/-! ### The tie -/

theorem lift_of_rel (σ : St) (c : PSt) (h : Rel σ c) : lift σ c = σ := by
  obtain ⟨h1, h2, h3, h4, h5, h6, _⟩ := h
  obtain ⟨pq, pc, fq, fc, run, lat, out, pAll, fAll, acc⟩ := σ
  simp only at h1 h2 h3 h4 h5 h6
  subst h1 h2 h3 h4 h5 h6
  rfl

/-- **The model is the source.**  For every state `c` of the translated code (queues, closed flags, `running`,
`latest`; any values incl. NaN/inf) and every model state `σ` that abstracts it: one `Fallback.round σ` is `none`
exactly when the translated `MetricFetcher.fetch_next` blocks on `c`, and otherwise it is `σ` with the live fields
replaced by the abstraction of the state the translated call leaves and the (abstracted) returned sample / `None` /
propagated `ReceiverError` appended to `out`; the translated call never raises anything else. -/
theorem round_is_source (σ : St) (c : PSt) (h : Rel σ c) : Agrees σ (round σ) (fetch_next c) := by
  have hfb : c.hasFb = true := h.2.2.2.2.2.2
  have hl := lift_of_rel σ c h
  have ha := cround_abs σ c
  rw [hl] at ha
  rw [fetch_eq c hfb]
  cases hc : cround c with
  | block => rw [hc] at ha; exact ha
  | exc e c' => rw [hc] at ha; exact ha
  | ok v c' => rw [hc] at ha; exact ha

/-- A concrete state for a model state (numbers stay numbers, `none` becomes `None`). -/
def concS (s : Sample) : PSample := ⟨s.ts, s.val.map .num⟩

def conc (σ : St) : PSt :=
  ⟨σ.pq.map concS, σ.pClosed, σ.fq.map concS, σ.fClosed, σ.running, true, σ.latest.map concS, none⟩

theorem absS_concS (s : Sample) : absS (concS s) = s := by
  obtain ⟨ts, _ | v⟩ := s <;> rfl

/-- Every model state is the abstraction of some state of the translation: the tie covers ALL model states. -/
theorem rel_conc (σ : St) : Rel σ (conc σ) := by
  have hm : ∀ xs : List Sample, (xs.map concS).map absS = xs := by
    intro xs; induction xs with
    | nil => rfl
    | cons x xs ih => simp only [List.map_cons, absS_concS, ih]
  refine ⟨(hm _).symm, rfl, (hm _).symm, rfl, rfl, ?_, rfl⟩
  show σ.latest = (σ.latest.map concS).map absS
  cases σ.latest with
  | none => rfl
  | some l => simp only [Option.map_some, absS_concS]

/-- The value returned by `fetch_next` is also stored in the field `value`/`apply` read back (`PSt.next`). -/
theorem fetch_stores_next (c c' : PSt) (v : Option PSample) (h : fetch_next c = .ok v c') : c'.next = v := by
  unfold fetch_next at h
  revert h
  tie_split

end FallbackTie
