/-
Facts about `Mgr.calc` (stored target = freshly computed target) used for C11.
-/
import Frequenz.Props.C03
import Frequenz.Model.PowerManager

open Matryoshka BoundsLemmas

namespace PowerManager

/-- A manager that never had a bucket has no stored target. -/
def MgrInv (m : Mgr) : Prop := m.bucket = none → m.last = none

theorem mgrInv_init : MgrInv Mgr.init := fun _ => rfl

/-- After `calculate_target_power`, either nothing is stored (and nothing returned), or the stored
target is the target computed for the given bounds and what is returned is `None` or that target. -/
theorem calc_cases (m : Mgr) (hinv : MgrInv m) (p : Option Proposal) (sb : SystemBounds) (must : Bool) :
    MgrInv (m.calc p sb must).1 ∧
    (((m.calc p sb must).1.last = none ∧ (m.calc p sb must).2 = none) ∨
     ∃ b, (m.calc p sb must).1.last = some (calcTarget sb b) ∧
          ((m.calc p sb must).2 = none ∨ (m.calc p sb must).2 = some (calcTarget sb b))) := by
  unfold Mgr.calc
  split
  · rename_i h
    have hb : m.bucket = none := by
      have := h.1; cases hm : m.bucket with
      | none => rfl
      | some b => rw [hm] at this; simp at this
    exact ⟨hinv, Or.inl ⟨hinv hb, rfl⟩⟩
  · split
    · rename_i hnb
      have hb : m.bucket = none := by
        unfold Mgr.newBucket at hnb
        cases p with
        | none => exact hnb
        | some q => simp at hnb
      exact ⟨hinv, Or.inl ⟨hinv hb, rfl⟩⟩
    · rename_i b hnb
      split
      · exact ⟨fun h => by simp at h, Or.inr ⟨b, rfl, Or.inr rfl⟩⟩
      · rename_i hc
        have hl : m.last = some (calcTarget sb b) := by
          by_cases h : m.last = some (calcTarget sb b)
          · exact h
          · exact absurd (Or.inr h) hc
        exact ⟨fun h => by simp at h, Or.inr ⟨b, hl, Or.inl rfl⟩⟩

theorem mgrInv_drop (m : Mgr) (h : MgrInv m) (a now : Rat) : MgrInv (m.drop a now) := by
  unfold MgrInv Mgr.drop at *
  intro hb
  simp only [Option.map_eq_none_iff] at hb
  exact h hb

/-- Shifting in-domain bounds by a target inside them keeps them in-domain. -/
theorem shifted_inDomain (sb : SystemBounds) (hd : C03_InDomain sb) (t : Rat)
    (ht : C03_Envelope sb t) : C03_InDomain (shifted sb (some t)) := by
  unfold C03_InDomain shifted C03_Envelope Extracted.Proposal.shiftedLower Extracted.Proposal.shiftedUpper at *
  refine ⟨?_, hd.2⟩
  intro b hb
  cases hi : sb.incl with
  | none => simp [hi] at hb
  | some b0 =>
    simp only [hi, Option.map_some, Option.some.injEq] at hb
    rw [hi] at ht
    subst hb
    obtain ⟨⟨h1, h2⟩, _⟩ := ht
    constructor <;> simp only <;> grind

end PowerManager
