/-
From the specification of one run of `_distribute_power` to `distribute_power` on raw battery / inverter
data: consistent data give well-formed group numbers, the sort is a permutation, the supply side is the
mirrored consume side; then the statements of C01 and C02 on the regimes where they hold.
-/
import Frequenz.Lemmas.DistributionCore
open Dist Extracted.Dist

namespace DistLemmas

theorem mem_insertSorted (x y : Item) : ∀ l : List Item, y ∈ insertSorted x l ↔ y = x ∨ y ∈ l
  | [] => by simp [insertSorted]
  | z :: l => by
    unfold insertSorted
    split_ifs
    · simp only [List.mem_cons, mem_insertSorted x y l]; grind
    · simp only [List.mem_cons]

theorem mem_sortItems (y : Item) : ∀ l : List Item, y ∈ sortItems l ↔ y ∈ l
  | [] => by simp [sortItems]
  | x :: l => by
    have := mem_sortItems y l
    unfold sortItems at *
    simp only [List.foldr_cons, mem_insertSorted, List.mem_cons, this]

theorem insertSorted_perm (x : Item) : ∀ l : List Item, (insertSorted x l).Perm (x :: l)
  | [] => by simp [insertSorted]
  | z :: l => by
    unfold insertSorted
    split_ifs
    · exact ((insertSorted_perm x l).cons z).trans (List.Perm.swap x z l)
    · exact List.Perm.refl _

theorem sortItems_perm : ∀ l : List Item, (sortItems l).Perm l
  | [] => by simp [sortItems]
  | x :: l => by
    have ih := sortItems_perm l
    unfold sortItems at *
    simp only [List.foldr_cons]
    exact (insertSorted_perm x _).trans (ih.cons x)

theorem foldl_pyMax_ge (l : List Rat) : ∀ a : Rat, a ≤ l.foldl pyMax a ∧ ∀ x ∈ l, x ≤ l.foldl pyMax a := by
  induction l with
  | nil => intro a; simp
  | cons y l ih =>
    intro a
    simp only [List.foldl_cons]
    obtain ⟨h1, h2⟩ := ih (pyMax a y)
    have : a ≤ pyMax a y ∧ y ≤ pyMax a y := by unfold pyMax; split_ifs <;> grind
    refine ⟨by grind, ?_⟩
    intro x hx
    rcases List.mem_cons.mp hx with rfl | hx
    · grind
    · exact h2 x hx

theorem foldl_pyMin_le (l : List Rat) : ∀ a : Rat, l.foldl pyMin a ≤ a ∧ ∀ x ∈ l, l.foldl pyMin a ≤ x := by
  induction l with
  | nil => intro a; simp
  | cons y l ih =>
    intro a
    simp only [List.foldl_cons]
    obtain ⟨h1, h2⟩ := ih (pyMin a y)
    have : pyMin a y ≤ a ∧ pyMin a y ≤ y := by unfold pyMin; split_ifs <;> grind
    refine ⟨by grind, ?_⟩
    intro x hx
    rcases List.mem_cons.mp hx with rfl | hx
    · grind
    · exact h2 x hx

theorem maxL_nonneg (l : List Rat) (h : ∀ x ∈ l, 0 ≤ x) : 0 ≤ maxL l := by
  cases l with
  | nil => simp [maxL]
  | cons x l => have := (foldl_pyMax_ge l x).1; have := h x List.mem_cons_self; simp only [maxL]; grind

theorem minL_nonpos (l : List Rat) (h : ∀ x ∈ l, x ≤ 0) : minL l ≤ 0 := by
  cases l with
  | nil => simp [minL]
  | cons x l => have := (foldl_pyMin_le l x).1; have := h x List.mem_cons_self; simp only [minL]; grind

theorem sumL_nonpos : ∀ l : List Rat, (∀ x ∈ l, x ≤ 0) → sumL l ≤ 0
  | [], _ => by simp only [sumL_nil]; grind
  | x :: l, h => by
    have := sumL_nonpos l (fun y hy => h y (List.mem_cons_of_mem _ hy))
    have := h x List.mem_cons_self
    simp only [sumL_cons]; grind


theorem natCast_nonneg (n : Nat) : (0 : Rat) ≤ (n : Rat) := by
  have : ((0 : Nat) : Rat) ≤ (n : Rat) := Rat.natCast_le_natCast.mpr (Nat.zero_le n)
  simpa using this

theorem agg_signs (bs : List Bat) (h : ∀ b ∈ bs, BoundsOrdered b.il b.el b.eu b.iu) :
    0 ≤ (aggregate bs).eu ∧ (aggregate bs).el ≤ 0 ∧ 0 ≤ (aggregate bs).iu ∧ (aggregate bs).il ≤ 0 := by
  unfold aggregate
  simp only []
  have hn := natCast_nonneg bs.length
  refine ⟨?_, ?_, ?_, ?_⟩
  · apply Rat.mul_nonneg _ hn
    apply maxL_nonneg; intro x hx; obtain ⟨b, hb, rfl⟩ := List.mem_map.mp hx; exact (h b hb).2.2.1
  · have : minL (bs.map (·.el)) ≤ 0 := by
      apply minL_nonpos; intro x hx; obtain ⟨b, hb, rfl⟩ := List.mem_map.mp hx; exact (h b hb).2.1
    have := Rat.mul_nonneg (a := -minL (bs.map (·.el))) (by grind) hn
    grind
  · apply sumL_nonneg; intro x hx; obtain ⟨b, hb, rfl⟩ := List.mem_map.mp hx
    have := h b hb; unfold BoundsOrdered at this; grind
  · apply sumL_nonpos; intro x hx; obtain ⟨b, hb, rfl⟩ := List.mem_map.mp hx
    have := h b hb; unfold BoundsOrdered at this; grind

theorem pyMax_ge (a b : Rat) : a ≤ pyMax a b ∧ b ≤ pyMax a b := by unfold pyMax; split_ifs <;> grind
theorem pyMin_le (a b : Rat) : pyMin a b ≤ a ∧ pyMin a b ≤ b := by unfold pyMin; split_ifs <;> grind
theorem pyMax_cases (a b : Rat) : pyMax a b = a ∨ pyMax a b = b := by unfold pyMax; split_ifs <;> grind
theorem pyMin_cases (a b : Rat) : pyMin a b = a ∨ pyMin a b = b := by unfold pyMin; split_ifs <;> grind

theorem itemOK_of_consistent (supply : Bool) (total : Rat) (exp : Nat) (g : Group) (hg : GroupConsistent g) :
    ItemOK (mkItem total exp (normGroup supply g)) := by
  obtain ⟨_, _, hb, hi, hm1, hm2⟩ := hg
  have hm : minPOf (normGroup supply g) ≤ ubOf (normGroup supply g) := by cases supply <;> assumption
  obtain ⟨s1, s2, s3, s4⟩ := agg_signs g.bats (fun b hb' => (hb b hb').2)
  have hbe : 0 ≤ (normGroup supply g).batExcl := by
    cases supply <;> simp only [normGroup, batExclSupply, batExclConsume, if_true, Bool.false_eq_true, if_false] <;> grind
  unfold ItemOK
  simp only [mkItem]
  have hmin := pyMax_ge (normGroup supply g).batExcl (minL ((normGroup supply g).invs.map (·.excl)))
  have hub := pyMin_le (sumL ((normGroup supply g).invs.map (·.incl))) (normGroup supply g).batIncl
  refine ⟨?_, hm, ?_, ?_, ?_, ?_⟩
  · unfold minPOf minPower; grind
  · unfold minPOf minPower; exact hmin.1
  · unfold ubOf inclBound; exact hub.2
  · intro ib hib
    unfold minPOf minPower ubOf inclBound
    rw [hib] at hmin hub ⊢
    simp only [List.map_cons, List.map_nil, minL, List.foldl_nil, sumL_cons, sumL_nil] at hmin hub ⊢
    constructor
    · exact hmin.2
    · grind
  · intro ib hib
    simp only [normGroup] at hib
    obtain ⟨i, hi', rfl⟩ := List.mem_map.mp hib
    have ho := hi i hi'
    unfold BoundsOrdered at ho
    cases supply
    · simp only [normInv, normGroup, Bool.false_eq_true, if_false, invExclConsume, invInclConsume, batInclConsume]
      have := pyMin_cases i.iu (aggregate g.bats).iu
      have := pyMin_le i.iu (aggregate g.bats).iu
      refine ⟨by grind, by grind, by grind⟩
    · simp only [normInv, normGroup, if_true, invExclSupply, invInclSupply, batInclSupply]
      have := pyMax_cases i.il (aggregate g.bats).il
      have := pyMax_ge i.il (aggregate g.bats).il
      refine ⟨by grind, by grind, by grind⟩


theorem ne_zero_of_not_close {v : Rat} (h : ¬ isCloseToZero v) : v ≠ 0 := fun h0 => h (h0 ▸ close_zero)

/-- Shape of a successful, non-zero run of `distribute_power`: one run of `_distribute_power` on the
normalised side, then the sign restoration. -/
structure TopSpec (inp : Input) (out : Out) (supply : Bool) (P' : Rat) (c : CoreOut) (slots : List Slot) : Prop where
  side : (supply = false ∧ 0 < inp.power ∧ P' = inp.power) ∨ (supply = true ∧ inp.power < 0 ∧ P' = -inp.power)
  core : out.core = some c
  flags : out.flags = coreFlags inp.exp c
  groups : out.groups = c.groups.map (resOf supply)
  rem : out.rem = if supply then -c.rem else c.rem
  spec : CoreSpec P' (sortItems (itemsOf supply inp.exp inp.groups)) c slots

theorem distribute_spec (inp : Input) (out : Out) (h : distribute inp = some out) (hz : ¬ zeroRequest inp.power) :
    ∃ supply P' c slots, TopSpec inp out supply P' c slots := by
  unfold distribute at h
  simp only [hz, if_false] at h
  by_cases hc : consumeRequest inp.power
  · simp only [hc, if_true] at h
    cases hr : runSide false inp.power inp.exp inp.groups with
    | none => rw [hr] at h; simp at h
    | some c =>
      rw [hr] at h
      simp only [Option.some.injEq] at h
      unfold runSide at hr
      split_ifs at hr
      simp only [Option.some.injEq] at hr
      obtain ⟨slots, hs⟩ := core_spec inp.power (sumL ((itemsOf false inp.exp inp.groups).map (·.ratio)))
        (sortItems (itemsOf false inp.exp inp.groups))
      rw [hr] at hs
      refine ⟨false, inp.power, c, slots, ⟨Or.inl ⟨rfl, hc, rfl⟩, ?_, ?_, ?_, ?_, hs⟩⟩ <;> rw [← h] <;> simp
  · simp only [hc, if_false] at h
    have hneg : inp.power < 0 := by
      have := ne_zero_of_not_close hz
      unfold consumeRequest at hc; grind
    cases hr : runSide true (supplyPowerIn inp.power) inp.exp inp.groups with
    | none => rw [hr] at h; simp at h
    | some c =>
      rw [hr] at h
      simp only [Option.some.injEq] at h
      unfold runSide at hr
      split_ifs at hr
      simp only [Option.some.injEq] at hr
      obtain ⟨slots, hs⟩ := core_spec (supplyPowerIn inp.power) (sumL ((itemsOf true inp.exp inp.groups).map (·.ratio)))
        (sortItems (itemsOf true inp.exp inp.groups))
      rw [hr] at hs
      have hP : supplyPowerIn inp.power = -inp.power := by unfold supplyPowerIn; grind
      rw [hP] at hs
      refine ⟨true, -inp.power, c, slots, ⟨Or.inr ⟨rfl, hneg, rfl⟩, ?_, ?_, ?_, ?_, hs⟩⟩ <;> rw [← h] <;>
        simp [supplyRemainingOut]
      grind


/-! ## from the groups of the result back to slots and input groups -/

theorem top_group {inp : Input} {out : Out} {supply : Bool} {P' : Rat} {c : CoreOut} {slots : List Slot}
    (ts : TopSpec inp out supply P' c slots) :
    ∀ gr ∈ out.groups, ∃ s ∈ slots, ∃ g0 ∈ inp.groups,
      gr = resOf supply (splitGroup s) ∧ s.en ∈ c.entries ∧
      s.en.it = mkItem (totalCap (inp.groups.map (normGroup supply))) inp.exp (normGroup supply g0) := by
  intro gr hgr
  rw [ts.groups, ts.spec.groups, List.map_map] at hgr
  obtain ⟨s, hs, rfl⟩ := List.mem_map.mp hgr
  have hen : s.en ∈ c.entries := by rw [← ts.spec.ens]; exact List.mem_map_of_mem hs
  have hit : s.en.it ∈ sortItems (itemsOf supply inp.exp inp.groups) := by
    rw [← ts.spec.its]; exact List.mem_map_of_mem hen
  rw [mem_sortItems] at hit
  unfold itemsOf at hit
  rw [List.map_map] at hit
  obtain ⟨g0, hg0, hit⟩ := List.mem_map.mp hit
  exact ⟨s, hs, g0, hg0, rfl, hen, hit.symm⟩

theorem top_itemOK {inp : Input} {supply : Bool} (hc : Consistent inp) :
    ∀ it ∈ sortItems (itemsOf supply inp.exp inp.groups), ItemOK it := by
  intro it hit
  rw [mem_sortItems] at hit
  unfold itemsOf at hit
  rw [List.map_map] at hit
  obtain ⟨g0, hg0, rfl⟩ := List.mem_map.mp hit
  exact itemOK_of_consistent supply _ _ g0 (hc.2 g0 hg0)

theorem top_slotFin {inp : Input} {out : Out} {supply : Bool} {P' : Rat} {c : CoreOut} {slots : List Slot}
    (ts : TopSpec inp out supply P' c slots) (hc : Consistent inp) :
    ∀ s ∈ slots, ItemOK s.en.it ∧ SlotFin (c.approx = false ∧ 0 ≤ c.left) s := by
  intro s hs
  have hok := top_itemOK (supply := supply) hc
  have hen : s.en ∈ c.entries := by rw [← ts.spec.ens]; exact List.mem_map_of_mem hs
  have hit : s.en.it ∈ sortItems (itemsOf supply inp.exp inp.groups) := by
    rw [← ts.spec.its]; exact List.mem_map_of_mem hen
  exact ⟨hok _ hit, ts.spec.fin (fun it h => (hok it h).2.1) s hs⟩

/-! ## sums -/

theorem sumL_flatMap {α β : Type} (f : α → List β) (g : β → Rat) : ∀ l : List α,
    sumL ((l.flatMap f).map g) = sumL (l.map fun x => sumL ((f x).map g))
  | [] => rfl
  | x :: l => by
    simp only [List.flatMap_cons, List.map_append, sumL_append, List.map_cons, sumL_cons, sumL_flatMap f g l]

theorem sumL_map_neg {α : Type} (f : α → Rat) : ∀ l : List α, sumL (l.map fun x => -f x) = -sumL (l.map f)
  | [] => by simp only [List.map_nil, sumL_nil]; grind
  | x :: l => by simp only [List.map_cons, sumL_cons, sumL_map_neg f l]; grind

theorem sumL_map_add {α : Type} (f g : α → Rat) : ∀ l : List α,
    sumL (l.map fun x => f x + g x) = sumL (l.map f) + sumL (l.map g)
  | [] => by simp only [List.map_nil, sumL_nil]; grind
  | x :: l => by simp only [List.map_cons, sumL_cons, sumL_map_add f g l]; grind

theorem resOf_total (supply : Bool) (g : GOut) : (resOf supply g).total = if supply then -g.total else g.total := by
  unfold GRes.total GOut.total resOf
  simp only [List.map_map]
  cases supply
  · simp only [Bool.false_eq_true, if_false]; rfl
  · simp only [if_true]
    rw [← sumL_map_neg]
    apply sumL_map_congr; intro x _; simp only [Function.comp, supplySetpointOut]; grind

theorem out_total (o : Out) : o.total = sumL (o.groups.map (·.total)) := by
  unfold Out.total Out.setpoints; rw [sumL_flatMap]; rfl

theorem slots_sum (slots : List Slot) :
    sumL (slots.map fun s => (splitGroup s).total) + sumL (slots.map fun s => (splitGroup s).residual) =
      sumL (slots.map (·.p)) := by
  rw [← sumL_map_add]
  apply sumL_map_congr; intro s _; exact splitGroup_sum s

theorem top_total {inp : Input} {out : Out} {supply : Bool} {P' : Rat} {c : CoreOut} {slots : List Slot}
    (ts : TopSpec inp out supply P' c slots) :
    out.total = if supply then -sumL (c.groups.map (·.total)) else sumL (c.groups.map (·.total)) := by
  rw [out_total, ts.groups, List.map_map]
  cases supply
  · simp only [Bool.false_eq_true, if_false]
    apply sumL_map_congr; intro g _; simp only [Function.comp, resOf_total, Bool.false_eq_true, if_false]
  · simp only [if_true]
    rw [← sumL_map_neg]
    apply sumL_map_congr; intro g _; simp only [Function.comp, resOf_total, if_true]

/-- C01 accounting identity on the normalised side: set-points + dropped by the split + remainder +
deficit-branch adjustments = request. -/
theorem top_accounting {inp : Input} {out : Out} {supply : Bool} {P' : Rat} {c : CoreOut} {slots : List Slot}
    (ts : TopSpec inp out supply P' c slots) :
    sumL (c.groups.map (·.total)) + sumL (c.groups.map (·.residual)) + c.rem + sumL c.adjs = P' := by
  have h1 := ts.spec.sum
  have h2 := slots_sum slots
  rw [ts.spec.groups, List.map_map, List.map_map]
  have e1 : sumL (slots.map ((fun g : GOut => g.total) ∘ splitGroup)) = sumL (slots.map fun s => (splitGroup s).total) := rfl
  have e2 : sumL (slots.map ((fun g : GOut => g.residual) ∘ splitGroup)) =
      sumL (slots.map fun s => (splitGroup s).residual) := rfl
  rw [e1, e2]
  grind


/-! ## reading the regime flags -/

theorem flag_adjust {exp : Nat} {c : CoreOut} (h : (coreFlags exp c).adjust = false) : c.adjs = [] := by
  simp only [coreFlags, Bool.not_eq_false'] at h
  exact List.isEmpty_iff.mp h

theorem flag_split {exp : Nat} {c : CoreOut} (h : (coreFlags exp c).splitInfeasible = false) :
    ∀ g ∈ c.groups, g.residual = 0 := by
  simp only [coreFlags, List.any_eq_false, decide_eq_true_eq] at h
  intro g hg; have := h g hg; grind

theorem flag_overcommit {exp : Nat} {c : CoreOut} (h : (coreFlags exp c).overcommit = false) : 0 ≤ c.left := by
  simp only [coreFlags, decide_eq_false_iff_not] at h; grind

theorem flag_isclose {exp : Nat} {c : CoreOut} (h : (coreFlags exp c).iscloseCover = false) : c.approx = false := h

theorem flag_exp0 {exp : Nat} {c : CoreOut} (h : (coreFlags exp c).exp0 = false) (en : Entry) (he : en ∈ c.entries)
    (ha : en.it.ng.avail = 0) : exp ≠ 0 := by
  intro h0
  simp only [coreFlags, h0, decide_true, Bool.true_and, List.any_eq_false, decide_eq_true_eq] at h
  exact h en he ha

theorem flag_zrm {exp : Nat} {c : CoreOut} (h : (coreFlags exp c).zeroRatioMin = false) (en : Entry)
    (he : en ∈ c.entries) (hact : en.active = true) (ha : en.it.ng.avail = 0) : ¬ 0 < en.it.minP := by
  simp only [coreFlags, List.any_eq_false, Bool.and_eq_true, decide_eq_true_eq, not_and] at h
  exact h en he ⟨hact, ha⟩

/-! ## C01 -/

theorem sum_partial (inp : Input) (out : Out) (h : distribute inp = some out) (hz : ¬ zeroRequest inp.power)
    (ha : out.flags.adjust = false) (hs : out.flags.splitInfeasible = false) : out.total + out.rem = inp.power := by
  obtain ⟨supply, P', c, slots, ts⟩ := distribute_spec inp out h hz
  have acc := top_accounting ts
  rw [ts.flags] at ha hs
  rw [flag_adjust ha, sumL_nil, sumL_map_zero _ _ (flag_split hs)] at acc
  have ht := top_total ts
  have hr := ts.rem
  rcases ts.side with ⟨rfl, _, rfl⟩ | ⟨rfl, _, rfl⟩
  · simp only [Bool.false_eq_true, if_false] at ht hr; grind
  · simp only [if_true] at ht hr; grind

theorem top_setpoint {inp : Input} {out : Out} {supply : Bool} {P' : Rat} {c : CoreOut} {slots : List Slot}
    (ts : TopSpec inp out supply P' c slots) :
    ∀ gr ∈ out.groups, ∀ x ∈ gr.sps, ∃ s ∈ slots, ∃ g0 ∈ inp.groups, ∃ y ∈ (splitGroup s).sps,
      gr = resOf supply (splitGroup s) ∧ s.en ∈ c.entries ∧
      s.en.it = mkItem (totalCap (inp.groups.map (normGroup supply))) inp.exp (normGroup supply g0) ∧
      x = (y.1.raw, if supply then -y.2 else y.2) ∧ y.1 ∈ s.en.it.ng.invs := by
  intro gr hgr x hx
  obtain ⟨s, hs, g0, hg0, rfl, hen, hit⟩ := top_group ts gr hgr
  simp only [resOf] at hx
  obtain ⟨y, hy, rfl⟩ := List.mem_map.mp hx
  refine ⟨s, hs, g0, hg0, y, hy, rfl, hen, hit, ?_, ?_⟩
  · cases supply <;> simp [supplySetpointOut] <;> grind
  · rw [← splitGroup_fst s]; exact List.mem_map_of_mem hy

theorem sign_partial (inp : Input) (out : Out) (hc : Consistent inp) (h : distribute inp = some out)
    (hz : ¬ zeroRequest inp.power) (ha : out.flags.adjust = false) (ho : out.flags.overcommit = false)
    (hi : out.flags.iscloseCover = false) :
    (∀ x ∈ out.setpoints, SameSign inp.power x.2) ∧ SameSign inp.power out.rem ∧ NoLarger inp.power out.rem := by
  obtain ⟨supply, P', c, slots, ts⟩ := distribute_spec inp out h hz
  rw [ts.flags] at ha ho hi
  have hlow : c.approx = false ∧ 0 ≤ c.left := ⟨flag_isclose hi, flag_overcommit ho⟩
  have hfin := top_slotFin ts hc
  have hP' : 0 ≤ P' := by rcases ts.side with ⟨_, h1, rfl⟩ | ⟨_, h1, rfl⟩ <;> grind
  have hrem := ts.spec.rem (fun it hit => ⟨(top_itemOK hc it hit).1, (top_itemOK hc it hit).2.1⟩) hlow.1 hlow.2
    (flag_adjust ha) hP'
  have hr := ts.rem
  constructor
  · intro x hx
    unfold Out.setpoints at hx
    obtain ⟨gr, hgr, hx⟩ := List.mem_flatMap.mp hx
    obtain ⟨s, hs, g0, _, y, hy, _, _, _, rfl, _⟩ := top_setpoint ts gr hgr x hx
    have := splitGroup_nonneg s (hfin s hs).1 (hfin s hs).2 hlow y hy
    unfold SameSign
    rcases ts.side with ⟨rfl, h1, rfl⟩ | ⟨rfl, h1, rfl⟩
    · simp only [Bool.false_eq_true, if_false]; grind
    · simp only [if_true]; grind
  · unfold SameSign NoLarger
    rcases ts.side with ⟨rfl, h1, rfl⟩ | ⟨rfl, h1, rfl⟩
    · simp only [Bool.false_eq_true, if_false] at hr; rw [hr]; grind
    · simp only [if_true] at hr; rw [hr]; grind


/-! ## C02 -/

theorem normInv_raw (supply : Bool) (a : Agg) (i : Inv) : (normInv supply a i).raw = i := by
  cases supply <;> rfl

theorem normInv_consume (a : Agg) (i : Inv) :
    (normInv false a i).excl = i.eu ∧ (normInv false a i).incl ≤ i.iu :=
  ⟨rfl, (pyMin_le _ _).1⟩

theorem normInv_supply (a : Agg) (i : Inv) :
    (normInv true a i).excl = -i.el ∧ (normInv true a i).incl ≤ -i.il := by
  have := (pyMax_ge i.il a.il).1
  refine ⟨rfl, ?_⟩
  show -(pyMax i.il a.il) ≤ -i.il
  grind

theorem mem_norm_invs (supply : Bool) (total : Rat) (exp : Nat) (g0 : Group) (ib : IB)
    (h : ib ∈ (mkItem total exp (normGroup supply g0)).ng.invs) :
    ∃ i ∈ g0.invs, ib = normInv supply (aggregate g0.bats) i := by
  simp only [mkItem, normGroup] at h
  obtain ⟨i, hi, rfl⟩ := List.mem_map.mp h
  exact ⟨i, hi, rfl⟩

theorem inverter_upper (inp : Input) (out : Out) (hc : Consistent inp) (h : distribute inp = some out)
    (hz : ¬ zeroRequest inp.power) : ∀ x ∈ out.setpoints, InvIncl inp.power x.1 x.2 := by
  obtain ⟨supply, P', c, slots, ts⟩ := distribute_spec inp out h hz
  have hfin := top_slotFin ts hc
  intro x hx
  unfold Out.setpoints at hx
  obtain ⟨gr, hgr, hx⟩ := List.mem_flatMap.mp hx
  obtain ⟨s, hs, g0, _, y, hy, _, _, hit, rfl, hmem⟩ := top_setpoint ts gr hgr x hx
  have hup := splitGroup_upper s (hfin s hs).1 (hfin s hs).2 y hy
  rw [hit] at hmem
  obtain ⟨i, _, hyi⟩ := mem_norm_invs _ _ _ _ _ hmem
  rw [hyi] at hup ⊢
  rw [normInv_raw]
  unfold InvIncl
  rcases ts.side with ⟨rfl, h1, rfl⟩ | ⟨rfl, h1, rfl⟩
  · have := (normInv_consume (aggregate g0.bats) i).2; simp only [Bool.false_eq_true, if_false]; grind
  · have := (normInv_supply (aggregate g0.bats) i).2; simp only [if_true]; grind

theorem inverter_partial (inp : Input) (out : Out) (hc : Consistent inp) (h : distribute inp = some out)
    (hz : ¬ zeroRequest inp.power) (ho : out.flags.overcommit = false) (hi : out.flags.iscloseCover = false) :
    ∀ x ∈ out.setpoints, x.2 = 0 ∨ InvRange inp.power x.1 x.2 := by
  obtain ⟨supply, P', c, slots, ts⟩ := distribute_spec inp out h hz
  rw [ts.flags] at ho hi
  have hlow : c.approx = false ∧ 0 ≤ c.left := ⟨flag_isclose hi, flag_overcommit ho⟩
  have hfin := top_slotFin ts hc
  intro x hx
  unfold Out.setpoints at hx
  obtain ⟨gr, hgr, hx⟩ := List.mem_flatMap.mp hx
  obtain ⟨s, hs, g0, _, y, hy, _, _, hit, rfl, hmem⟩ := top_setpoint ts gr hgr x hx
  have hup := splitGroup_upper s (hfin s hs).1 (hfin s hs).2 y hy
  have hlo := splitGroup_lower s (hfin s hs).1 (hfin s hs).2 hlow y hy
  rw [hit] at hmem
  obtain ⟨i, _, hyi⟩ := mem_norm_invs _ _ _ _ _ hmem
  rw [hyi] at hup hlo ⊢
  rw [normInv_raw]
  unfold InvRange
  rcases ts.side with ⟨rfl, h1, rfl⟩ | ⟨rfl, h1, rfl⟩
  · have := normInv_consume (aggregate g0.bats) i; simp only [Bool.false_eq_true, if_false]
    rcases hlo with h0 | h0
    · exact Or.inl h0
    · right; grind
  · have := normInv_supply (aggregate g0.bats) i; simp only [if_true]
    rcases hlo with h0 | h0
    · left; grind
    · right; grind

theorem norm_bat_bounds (supply : Bool) (g0 : Group) :
    (supply = false → (normGroup supply g0).batExcl = (aggregate g0.bats).eu ∧
        (normGroup supply g0).batIncl = (aggregate g0.bats).iu) ∧
    (supply = true → (normGroup supply g0).batExcl = -(aggregate g0.bats).el ∧
        (normGroup supply g0).batIncl = -(aggregate g0.bats).il) := by
  cases supply
  · simp [normGroup, batExclConsume, batInclConsume]
  · simp [normGroup, batExclSupply, batInclSupply]

theorem group_upper (inp : Input) (out : Out) (hc : Consistent inp) (h : distribute inp = some out)
    (hz : ¬ zeroRequest inp.power) : ∀ gr ∈ out.groups, GroupIncl inp.power gr.raw gr.total := by
  obtain ⟨supply, P', c, slots, ts⟩ := distribute_spec inp out h hz
  have hfin := top_slotFin ts hc
  intro gr hgr
  obtain ⟨s, hs, g0, _, rfl, _, hit⟩ := top_group ts gr hgr
  have hup := splitGroup_total_upper s (hfin s hs).1 (hfin s hs).2
  rw [resOf_total]
  have hraw : (resOf supply (splitGroup s)).raw = g0 := by simp only [resOf, splitGroup_slot, hit, mkItem, normGroup]
  rw [hraw, hit] at *
  obtain ⟨b1, b2⟩ := norm_bat_bounds supply g0
  simp only [mkItem] at hup
  unfold GroupIncl
  rcases ts.side with ⟨rfl, h1, rfl⟩ | ⟨rfl, h1, rfl⟩
  · have := b1 rfl; simp only [Bool.false_eq_true, if_false]; grind
  · have := b2 rfl; simp only [if_true]; grind

theorem group_partial (inp : Input) (out : Out) (hc : Consistent inp) (h : distribute inp = some out)
    (hz : ¬ zeroRequest inp.power) (hs' : out.flags.splitInfeasible = false) (ho : out.flags.overcommit = false)
    (hi : out.flags.iscloseCover = false) :
    ∀ gr ∈ out.groups, gr.total = 0 ∨ GroupRange inp.power gr.raw gr.total := by
  obtain ⟨supply, P', c, slots, ts⟩ := distribute_spec inp out h hz
  rw [ts.flags] at ho hi hs'
  have hlow : c.approx = false ∧ 0 ≤ c.left := ⟨flag_isclose hi, flag_overcommit ho⟩
  have hfin := top_slotFin ts hc
  intro gr hgr
  obtain ⟨s, hs, g0, _, rfl, _, hit⟩ := top_group ts gr hgr
  have hres : (splitGroup s).residual = 0 := by
    apply flag_split hs'; rw [ts.spec.groups]; exact List.mem_map_of_mem hs
  have hup := splitGroup_total_upper s (hfin s hs).1 (hfin s hs).2
  have hlo := splitGroup_total_lower s (hfin s hs).1 (hfin s hs).2 hlow hres
  rw [resOf_total]
  have hraw : (resOf supply (splitGroup s)).raw = g0 := by simp only [resOf, splitGroup_slot, hit, mkItem, normGroup]
  rw [hraw, hit] at *
  obtain ⟨b1, b2⟩ := norm_bat_bounds supply g0
  simp only [mkItem] at hup hlo
  unfold GroupRange
  rcases ts.side with ⟨rfl, h1, rfl⟩ | ⟨rfl, h1, rfl⟩
  · have := b1 rfl; simp only [Bool.false_eq_true, if_false]
    rcases hlo with h0 | h0
    · exact Or.inl h0
    · right; grind
  · have := b2 rfl; simp only [if_true]
    rcases hlo with h0 | h0
    · left; grind
    · right; grind


theorem zero_pow_ne (n : Nat) (h : n ≠ 0) : (0 : Rat) ^ n = 0 := by
  cases n with
  | zero => exact absurd rfl h
  | succ k => rw [Rat.pow_succ]; grind

theorem avail_of_atLimit (supply : Bool) (P : Rat) (g0 : Group)
    (hside : (supply = false ∧ 0 < P) ∨ (supply = true ∧ P < 0)) (hl : AtLimit P g0) :
    (normGroup supply g0).avail = 0 := by
  simp only [normGroup, availOf]
  split_ifs with h0 hs
  · rfl
  · rcases hside with ⟨h1, _⟩ | ⟨_, h2⟩
    · simp [hs] at h1
    · have := hl.2 h2; unfold availSupply; unfold pyMax; split_ifs <;> grind
  · rcases hside with ⟨_, h2⟩ | ⟨h1, _⟩
    · have := hl.1 h2; unfold availConsume; unfold pyMax; split_ifs <;> grind
    · exact absurd h1 hs

theorem headroom_partial (inp : Input) (out : Out) (hc : Consistent inp) (h : distribute inp = some out)
    (hz : ¬ zeroRequest inp.power) (he : out.flags.exp0 = false) (hm : out.flags.zeroRatioMin = false) :
    ∀ gr ∈ out.groups, AtLimit inp.power gr.raw → ∀ x ∈ gr.sps, x.2 = 0 := by
  obtain ⟨supply, P', c, slots, ts⟩ := distribute_spec inp out h hz
  rw [ts.flags] at he hm
  have hfin := top_slotFin ts hc
  intro gr hgr hlim x hx
  obtain ⟨s, hs, g0, _, y, hy, hgeq, hen, hit, rfl, _⟩ := top_setpoint ts gr hgr x hx
  have hraw : gr.raw = g0 := by rw [hgeq]; simp only [resOf, splitGroup_slot, hit, mkItem, normGroup]
  rw [hraw] at hlim
  have hav : s.en.it.ng.avail = 0 := by
    rw [hit]; simp only [mkItem]
    apply avail_of_atLimit supply inp.power g0 _ hlim
    rcases ts.side with ⟨h1, h2, _⟩ | ⟨h1, h2, _⟩
    · exact Or.inl ⟨h1, h2⟩
    · exact Or.inr ⟨h1, h2⟩
  have hexp := flag_exp0 he s.en hen hav
  have hratio : s.en.it.ratio = 0 := by
    have hav' := hav
    rw [hit] at hav' ⊢
    simp only [mkItem] at hav' ⊢
    rw [hav']; unfold ratioOf socFactor; rw [zero_pow_ne _ hexp]; grind
  obtain ⟨hok, hf⟩ := hfin s hs
  have hp : s.p = 0 := by
    rcases hf with ⟨_, h0⟩ | ⟨hact, _, _, hzero⟩
    · exact h0
    · have := flag_zrm hm s.en hen hact hav
      have h1 := hok.1
      have h2 := hok.2.1
      exact hzero hratio (by grind) (by grind)
  have := splitGroup_zero s hp y hy
  simp only [this]
  cases supply <;> simp

/-! ## every input group and inverter appears in the result -/

theorem coverage (inp : Input) (out : Out) (h : distribute inp = some out) :
    (out.groups.map (·.raw)).Perm inp.groups ∧ ∀ gr ∈ out.groups, gr.sps.map (·.1) = gr.raw.invs := by
  by_cases hz : zeroRequest inp.power
  · unfold distribute at h
    simp only [hz, if_true, Option.some.injEq] at h
    rw [← h]
    simp only [List.map_map]
    constructor
    · have : (inp.groups.map ((fun x : GRes => x.raw) ∘ fun g => { raw := g, avail := 0, sps := g.invs.map fun i => (i, (0 : Rat)) }))
          = inp.groups := by
        conv => rhs; rw [← List.map_id inp.groups]
        apply List.map_congr_left; intro g _; rfl
      rw [this]
    · intro gr hgr
      obtain ⟨g, _, rfl⟩ := List.mem_map.mp hgr
      simp only [List.map_map]
      conv => rhs; rw [← List.map_id g.invs]
      apply List.map_congr_left; intro i _; rfl
  · obtain ⟨supply, P', c, slots, ts⟩ := distribute_spec inp out h hz
    constructor
    · rw [ts.groups, ts.spec.groups, List.map_map, List.map_map]
      have e1 : slots.map (((fun x : GRes => x.raw) ∘ resOf supply) ∘ splitGroup) = (slots.map (·.en)).map (·.it.ng.raw) := by
        rw [List.map_map]; apply List.map_congr_left; intro s _
        simp only [Function.comp, resOf, splitGroup_slot]
      rw [e1, ts.spec.ens]
      have e2 : c.entries.map (·.it.ng.raw) = (c.entries.map (·.it)).map (·.ng.raw) := by rw [List.map_map]; rfl
      rw [e2, ts.spec.its]
      refine ((sortItems_perm _).map _).trans ?_
      unfold itemsOf
      rw [List.map_map, List.map_map]
      have : inp.groups.map (((fun x : Item => x.ng.raw) ∘ mkItem (totalCap (inp.groups.map (normGroup supply))) inp.exp) ∘ normGroup supply)
          = inp.groups := by
        conv => rhs; rw [← List.map_id inp.groups]
        apply List.map_congr_left; intro g _; rfl
      rw [this]
    · intro gr hgr
      obtain ⟨s, hs, g0, _, rfl, _, hit⟩ := top_group ts gr hgr
      simp only [resOf, splitGroup_slot, List.map_map]
      have : (splitGroup s).sps.map ((fun x : Inv × Rat => x.1) ∘ fun x => (x.1.raw, if supply = true then supplySetpointOut x.2 else x.2))
          = ((splitGroup s).sps.map (·.1)).map (·.raw) := by rw [List.map_map]; rfl
      rw [this, splitGroup_fst, hit]
      simp only [mkItem, normGroup, List.map_map]
      conv => rhs; rw [← List.map_id g0.invs]
      apply List.map_congr_left; intro i _; exact normInv_raw _ _ _


/-! ## bookkeeping / accounting at the top level -/

theorem accounting (inp : Input) (out : Out) (h : distribute inp = some out) (hz : ¬ zeroRequest inp.power) :
    ∃ c, out.core = some c ∧ out.flags = coreFlags inp.exp c ∧
      (0 < inp.power → out.total + out.rem + (sumL (c.groups.map (·.residual)) + sumL c.adjs) = inp.power) ∧
      (inp.power < 0 → out.total + out.rem - (sumL (c.groups.map (·.residual)) + sumL c.adjs) = inp.power) := by
  obtain ⟨supply, P', c, slots, ts⟩ := distribute_spec inp out h hz
  have acc := top_accounting ts
  have ht := top_total ts
  have hr := ts.rem
  refine ⟨c, ts.core, ts.flags, ?_, ?_⟩
  · intro hp
    rcases ts.side with ⟨rfl, _, rfl⟩ | ⟨_, h2, _⟩
    · simp only [Bool.false_eq_true, if_false] at ht hr; grind
    · grind
  · intro hp
    rcases ts.side with ⟨_, h2, _⟩ | ⟨rfl, _, rfl⟩
    · grind
    · simp only [if_true] at ht hr; grind

theorem bookkeeping (inp : Input) (out : Out) (h : distribute inp = some out) (hz : ¬ zeroRequest inp.power) :
    ∃ c, out.core = some c ∧
      c.tracked = sumL ((c.entries.map slotOf).map (·.p)) + sumL c.adjs := by
  obtain ⟨supply, P', c, slots, ts⟩ := distribute_spec inp out h hz
  exact ⟨c, ts.core, ts.spec.tracked⟩

theorem greedy_capped (inp : Input) (out : Out) (hc : Consistent inp) (h : distribute inp = some out)
    (hz : ¬ zeroRequest inp.power) :
    ∃ c, out.core = some c ∧ ∀ g ∈ c.groups, g.slot.p ≤ g.slot.en.it.ub ∧ g.slot.en.it.ub ≤ g.slot.en.it.ng.batIncl := by
  obtain ⟨supply, P', c, slots, ts⟩ := distribute_spec inp out h hz
  refine ⟨c, ts.core, ?_⟩
  intro g hg
  rw [ts.spec.groups] at hg
  obtain ⟨s, hs, rfl⟩ := List.mem_map.mp hg
  obtain ⟨hok, hf⟩ := top_slotFin ts hc s hs
  rw [splitGroup_slot]
  exact ⟨slotFin_le_ub s hok hf, hok.2.2.2.1⟩

/-! ## admission by the advertised bounds covers the minimum powers -/

theorem sumL_map_le {α : Type} (f g : α → Rat) : ∀ l : List α, (∀ x ∈ l, f x ≤ g x) → sumL (l.map f) ≤ sumL (l.map g)
  | [], _ => by simp only [List.map_nil, sumL_nil]; grind
  | x :: l, h => by
    have := sumL_map_le f g l (fun y hy => h y (List.mem_cons_of_mem _ hy))
    have := h x List.mem_cons_self
    simp only [List.map_cons, sumL_cons]; grind

theorem minL_le_sumL (l : List Rat) (hne : l ≠ []) (h : ∀ x ∈ l, 0 ≤ x) : minL l ≤ sumL l := by
  cases l with
  | nil => exact absurd rfl hne
  | cons x xs =>
    have h1 := (foldl_pyMin_le xs x).1
    have h2 := sumL_nonneg xs (fun y hy => h y (List.mem_cons_of_mem _ hy))
    simp only [minL, sumL_cons]; grind

theorem pyMax_mono_right (a b c : Rat) (h : b ≤ c) : pyMax a b ≤ pyMax a c := by
  unfold pyMax; split_ifs <;> grind

theorem pyMax_neg_le (a b : Rat) : pyMax (-a) (-b) ≤ -(pyMin a b) := by
  unfold pyMin pyMax; split_ifs <;> grind

theorem group_min_le_advertised (g : Group) (hg : GroupConsistent g) :
    minPOf (normGroup false g) ≤ poolGroupExclUpper (aggregate g.bats).eu (sumL (g.invs.map (·.eu))) ∧
    minPOf (normGroup true g) ≤ -(poolGroupExclLower (aggregate g.bats).el (sumL (g.invs.map (·.el)))) := by
  obtain ⟨_, hne, _, hi, _, _⟩ := hg
  have e1 : (normGroup false g).invs.map (·.excl) = g.invs.map (·.eu) := by
    simp only [normGroup, List.map_map]; apply List.map_congr_left; intro i _; rfl
  have e2 : (normGroup true g).invs.map (·.excl) = g.invs.map (fun i => -i.el) := by
    simp only [normGroup, List.map_map]; apply List.map_congr_left; intro i _; rfl
  constructor
  · unfold minPOf minPower poolGroupExclUpper
    rw [e1]
    have : (normGroup false g).batExcl = (aggregate g.bats).eu := rfl
    rw [this]
    apply pyMax_mono_right
    apply minL_le_sumL _ (by simpa using hne)
    intro x hx; obtain ⟨i, hi', rfl⟩ := List.mem_map.mp hx; exact (hi i hi').2.2.1
  · unfold minPOf minPower poolGroupExclLower
    rw [e2]
    have : (normGroup true g).batExcl = -(aggregate g.bats).el := rfl
    rw [this]
    have hs : sumL (g.invs.map fun i => -i.el) = -sumL (g.invs.map (·.el)) := sumL_map_neg _ _
    have hm : minL (g.invs.map fun i => -i.el) ≤ -sumL (g.invs.map (·.el)) := by
      rw [← hs]
      apply minL_le_sumL _ (by simpa using hne)
      intro x hx; obtain ⟨i, hi', rfl⟩ := List.mem_map.mp hx; have := (hi i hi').2.1; grind
    exact Rat.le_trans (pyMax_mono_right (-(aggregate g.bats).el) _ _ hm) (pyMax_neg_le _ _)

/-- A request admitted by the ADVERTISED bounds covers the sum of the groups' minimum powers. -/
theorem admitted_min_powers (inp : Input) (hc : Consistent inp) (ha : Admitted inp) :
    (0 < inp.power → sumL (inp.groups.map fun g => minPOf (normGroup false g)) ≤ inp.power) ∧
    (inp.power < 0 → sumL (inp.groups.map fun g => minPOf (normGroup true g)) ≤ -inp.power) := by
  unfold Admitted rejectedAdjust advertisedExcl at ha
  obtain ⟨_, hrej⟩ := ha
  simp only [] at hrej
  have hup : sumL (inp.groups.map fun g => minPOf (normGroup false g)) ≤
      sumL (inp.groups.map fun g => poolGroupExclUpper (aggregate g.bats).eu (sumL (g.invs.map (·.eu)))) :=
    sumL_map_le _ _ inp.groups (fun g hg => (group_min_le_advertised g (hc.2 g hg)).1)
  have hlo : sumL (inp.groups.map fun g => minPOf (normGroup true g)) ≤
      sumL (inp.groups.map fun g => -(poolGroupExclLower (aggregate g.bats).el (sumL (g.invs.map (·.el))))) :=
    sumL_map_le _ _ inp.groups (fun g hg => (group_min_le_advertised g (hc.2 g hg)).2)
  have hneg : sumL (inp.groups.map fun g => -(poolGroupExclLower (aggregate g.bats).el (sumL (g.invs.map (·.el))))) =
      -sumL (inp.groups.map fun g => poolGroupExclLower (aggregate g.bats).el (sumL (g.invs.map (·.el)))) :=
    sumL_map_neg _ _
  have hnn : 0 ≤ sumL (inp.groups.map fun g => minPOf (normGroup true g)) := by
    apply sumL_nonneg; intro x hx; obtain ⟨g, hg, rfl⟩ := List.mem_map.mp hx
    have := (itemOK_of_consistent true 0 0 g (hc.2 g hg)).1
    simp only [mkItem] at this; exact this
  have hnn' : 0 ≤ sumL (inp.groups.map fun g => minPOf (normGroup false g)) := by
    apply sumL_nonneg; intro x hx; obtain ⟨g, hg, rfl⟩ := List.mem_map.mp hx
    have := (itemOK_of_consistent false 0 0 g (hc.2 g hg)).1
    simp only [mkItem] at this; exact this
  rw [hneg] at hlo
  generalize sumL (inp.groups.map fun g => poolGroupExclUpper (aggregate g.bats).eu (sumL (g.invs.map (·.eu)))) = A at *
  generalize sumL (inp.groups.map fun g => poolGroupExclLower (aggregate g.bats).el (sumL (g.invs.map (·.el)))) = B at *
  generalize sumL (inp.groups.map fun g => minPOf (normGroup true g)) = X at *
  generalize sumL (inp.groups.map fun g => minPOf (normGroup false g)) = Y at *
  clear hc
  constructor
  · intro hp; grind
  · intro hp; grind

end DistLemmas
