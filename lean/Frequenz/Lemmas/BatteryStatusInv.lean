/-
Invariants of the battery status tracker (C16), proved from the closed forms of `Lemmas/BatteryStatus.lean`.
-/
import Frequenz.Lemmas.BatteryStatus

namespace BatteryStatus
open Extracted.BatteryStatus

/-! ## `evalRef` facts -/

@[simp] theorem evalRef_battery (s : Tracker) (now : Int) : (evalRef s now).1.battery = s.battery := rfl
@[simp] theorem evalRef_inverter (s : Tracker) (now : Int) : (evalRef s now).1.inverter = s.inverter := rfl
@[simp] theorem evalRef_maxAge (s : Tracker) (now : Int) : (evalRef s now).1.maxDataAge = s.maxDataAge := rfl
@[simp] theorem evalRef_status (s : Tracker) (now : Int) : (evalRef s now).1.lastStatus = curStatus s now := rfl

theorem curStatus_ne_nw (s : Tracker) (now : Int) :
    curStatus s now ≠ Status.notWorking ↔ healthyB s = true := by
  unfold curStatus
  by_cases h : healthyB s = true
  · simp only [h, if_true, iff_true]
    split_ifs <;> simp
  · simp [h]

theorem evalRef_out (s : Tracker) (now : Int) :
    match (evalRef s now).2 with
    | some x => x ≠ s.lastStatus ∧ (evalRef s now).1.lastStatus = x
    | none => (evalRef s now).1.lastStatus = s.lastStatus := by
  unfold evalRef
  by_cases h : s.lastStatus = curStatus s now
  · simp [h]
  · simp only [h, if_false]
    refine ⟨fun hc => h hc.symm, ?_⟩
    first | rfl | trivial

/-- What an iteration sends is different from the last status, and becomes the last status. -/
theorem step_out (s : Tracker) (e : Event) :
    match (step s e).2 with
    | some x => x ≠ s.lastStatus ∧ (step s e).1.lastStatus = x
    | none => (step s e).1.lastStatus = s.lastStatus := by
  cases e with
  | bat now m => rw [step_bat]; exact evalRef_out (afterBat s now m) now
  | inv now m => rw [step_inv]; exact evalRef_out (afterInv s now m) now
  | setPower now r => rw [step_setPower]; exact evalRef_out { s with blocking := spBlocking s now r } now
  | batTimer now =>
    rw [step_batTimer]
    split_ifs
    · simp
    · exact evalRef_out { s with battery := { s.battery with lastMsgCorrect := false } } now
  | invTimer now =>
    rw [step_invTimer]
    split_ifs
    · simp
    · exact evalRef_out { s with inverter := { s.inverter with lastMsgCorrect := false } } now

/-! ## The stream invariant -/

/-- What the tracker's per-stream flags say about the history (`lb`/`li` = latest battery / inverter message). -/
structure TrackerInv (maxAge : Int) (s : Tracker) (lb li : Option (Int × Msg)) : Prop where
  age : s.maxDataAge = maxAge
  st : s.lastStatus ≠ Status.notWorking ↔ healthyB s = true
  bat : s.battery.lastMsgCorrect = true → ArrivedOk BatHealthy maxAge lb
  inv : s.inverter.lastMsgCorrect = true → ArrivedOk InvHealthy maxAge li
  batTs : ∀ a m, lb = some (a, m) → s.battery.lastMsgTimestamp = m.timestamp
  invTs : ∀ a m, li = some (a, m) → s.inverter.lastMsgTimestamp = m.timestamp

theorem inv_init (maxAge maxBlk ts0 t0 : Int) :
    TrackerInv maxAge (Tracker.new maxAge maxBlk ts0 t0) none none := by
  constructor <;> simp [Tracker.new, healthyB]

/-- `evalRef` keeps the stream facts and re-establishes `st`. -/
theorem inv_evalRef {maxAge : Int} {s : Tracker} {lb li : Option (Int × Msg)} (now : Int)
    (hage : s.maxDataAge = maxAge)
    (hbat : s.battery.lastMsgCorrect = true → ArrivedOk BatHealthy maxAge lb)
    (hinv : s.inverter.lastMsgCorrect = true → ArrivedOk InvHealthy maxAge li)
    (hbts : ∀ a m, lb = some (a, m) → s.battery.lastMsgTimestamp = m.timestamp)
    (hits : ∀ a m, li = some (a, m) → s.inverter.lastMsgTimestamp = m.timestamp) :
    TrackerInv maxAge (evalRef s now).1 lb li := by
  refine ⟨hage, ?_, hbat, hinv, hbts, hits⟩
  rw [evalRef_status, curStatus_ne_nw]
  rfl

theorem inv_step {maxAge : Int} {s : Tracker} {lb li : Option (Int × Msg)} (h : TrackerInv maxAge s lb li)
    (e : Event) : TrackerInv maxAge (step s e).1 (lbStep lb e) (liStep li e) := by
  cases e with
  | bat now m =>
    rw [step_bat]
    refine inv_evalRef (s := afterBat s now m) now h.age ?_ ?_ ?_ ?_
    · intro hc
      have := (batOkB_iff s now m).mp hc
      exact ⟨this.1, by rw [← h.age]; exact this.2⟩
    · exact h.inv
    · intro a m' hm
      simp only [lbStep, Option.some.injEq, Prod.mk.injEq] at hm
      rw [← hm.2]; rfl
    · exact h.invTs
  | inv now m =>
    rw [step_inv]
    refine inv_evalRef (s := afterInv s now m) now h.age ?_ ?_ ?_ ?_
    · exact h.bat
    · intro hc
      have := (invOkB_iff s now m).mp hc
      exact ⟨this.1, by rw [← h.age]; exact this.2⟩
    · exact h.batTs
    · intro a m' hm
      simp only [liStep, Option.some.injEq, Prod.mk.injEq] at hm
      rw [← hm.2]; rfl
  | setPower now r =>
    rw [step_setPower]
    exact inv_evalRef now h.age h.bat h.inv h.batTs h.invTs
  | batTimer now =>
    rw [step_batTimer]
    split_ifs
    · exact h
    · exact inv_evalRef now h.age (by simp) h.inv h.batTs h.invTs
  | invTimer now =>
    rw [step_invTimer]
    split_ifs
    · exact h
    · exact inv_evalRef now h.age h.bat (by simp) h.batTs h.invTs

theorem inv_run {maxAge : Int} (es : List Event) : ∀ {s : Tracker} {lb li : Option (Int × Msg)},
    TrackerInv maxAge s lb li →
    TrackerInv maxAge (finalState s es) (es.foldl lbStep lb) (es.foldl liStep li) := by
  induction es with
  | nil => intro s lb li h; exact h
  | cons e es ih => intro s lb li h; exact ih (inv_step h e)

theorem inv_final (maxAge maxBlk ts0 t0 : Int) (es : List Event) :
    TrackerInv maxAge (finalState (Tracker.new maxAge maxBlk ts0 t0) es) (lastBat es) (lastInv es) :=
  inv_run es (inv_init maxAge maxBlk ts0 t0)

theorem healthy_split (s : Tracker) :
    healthyB s = true ↔ s.battery.lastMsgCorrect = true ∧ s.inverter.lastMsgCorrect = true := by
  simp [healthyB]

/-! ## Promptness -/

theorem evalRef_unhealthy (s : Tracker) (now : Int) (h : healthyB s = false) :
    (evalRef s now).1.lastStatus = Status.notWorking ∧
      (s.lastStatus ≠ Status.notWorking → (evalRef s now).2 = some Status.notWorking) := by
  have hc : curStatus s now = Status.notWorking := by simp [curStatus, h]
  refine ⟨by rw [evalRef_status, hc], ?_⟩
  intro hne
  simp [evalRef, hc, hne]

theorem prompt_step {maxAge : Int} {s : Tracker} {es : List Event}
    (h : TrackerInv maxAge s (lastBat es) (lastInv es)) (e : Event) (hd : Disqualifying maxAge es e) :
    (step s e).1.lastStatus = Status.notWorking ∧
      (s.lastStatus ≠ Status.notWorking → (step s e).2 = some Status.notWorking) := by
  cases e with
  | bat now m =>
    rw [step_bat]
    apply evalRef_unhealthy (afterBat s now m) now
    have : batOkB s now m = false := by
      rw [Bool.eq_false_iff]; intro hc
      exact hd (by rw [← h.age]; exact (batOkB_iff s now m).mp hc)
    simp [healthyB, afterBat, this]
  | inv now m =>
    rw [step_inv]
    apply evalRef_unhealthy (afterInv s now m) now
    have : invOkB s now m = false := by
      rw [Bool.eq_false_iff]; intro hc
      exact hd (by rw [← h.age]; exact (invOkB_iff s now m).mp hc)
    simp [healthyB, afterInv, this]
  | setPower now r => exact absurd hd (by simp [Disqualifying])
  | batTimer now =>
    rw [step_batTimer]
    have key : ¬ (now - s.battery.lastMsgTimestamp < s.maxDataAge) ∨ s.battery.lastMsgCorrect = false := by
      cases hl : lastBat es with
      | none =>
        right
        rw [Bool.eq_false_iff]; intro hc
        have := h.bat hc
        rw [hl] at this; exact this
      | some am =>
        left
        obtain ⟨a, m⟩ := am
        have h1 := hd a m hl
        have h2 := h.batTs a m hl
        rw [h2, h.age]; omega
    split_ifs with hg
    · have hc : s.battery.lastMsgCorrect = false := by
        cases key with
        | inl k => exact absurd hg k
        | inr k => exact k
      have hh : healthyB s = false := by simp [healthyB, hc]
      have hs : s.lastStatus = Status.notWorking := by
        apply Decidable.not_not.mp
        intro hne
        have := h.st.mp hne
        rw [hh] at this; exact absurd this (by simp)
      exact ⟨hs, fun hne => absurd hs hne⟩
    · apply evalRef_unhealthy
      simp [healthyB]
  | invTimer now =>
    rw [step_invTimer]
    have key : ¬ (now - s.inverter.lastMsgTimestamp < s.maxDataAge) ∨ s.inverter.lastMsgCorrect = false := by
      cases hl : lastInv es with
      | none =>
        right
        rw [Bool.eq_false_iff]; intro hc
        have := h.inv hc
        rw [hl] at this; exact this
      | some am =>
        left
        obtain ⟨a, m⟩ := am
        have h1 := hd a m hl
        have h2 := h.invTs a m hl
        rw [h2, h.age]; omega
    split_ifs with hg
    · have hc : s.inverter.lastMsgCorrect = false := by
        cases key with
        | inl k => exact absurd hg k
        | inr k => exact k
      have hh : healthyB s = false := by simp [healthyB, hc]
      have hs : s.lastStatus = Status.notWorking := by
        apply Decidable.not_not.mp
        intro hne
        have := h.st.mp hne
        rw [hh] at this; exact absurd this (by simp)
      exact ⟨hs, fun hne => absurd hs hne⟩
    · apply evalRef_unhealthy
      simp [healthyB]

/-! ## Timers: the latest message of a stream keeps its timer armed from its arrival -/

structure ArmInv (s : Tracker) (lb li : Option (Int × Msg)) : Prop where
  bat : s.battery.lastMsgCorrect = true → ∀ a m, lb = some (a, m) → m.timestamp ≤ a → s.battery.timerResetAt = a
  inv : s.inverter.lastMsgCorrect = true → ∀ a m, li = some (a, m) → m.timestamp ≤ a → s.inverter.timerResetAt = a

theorem inv_rearm {maxAge : Int} {s : Tracker} {lb li : Option (Int × Msg)} (h : TrackerInv maxAge s lb li)
    (e : Event) : TrackerInv maxAge (rearm s e) lb li := by
  cases e with
  | bat now m => exact h
  | inv now m => exact h
  | setPower now r => exact h
  | batTimer now =>
    simp only [rearm]; split_ifs
    · exact ⟨h.age, h.st, h.bat, h.inv, h.batTs, h.invTs⟩
    · exact h
  | invTimer now =>
    simp only [rearm]; split_ifs
    · exact ⟨h.age, h.st, h.bat, h.inv, h.batTs, h.invTs⟩
    · exact h

theorem inv_astep {maxAge : Int} {s : Tracker} {lb li : Option (Int × Msg)} (h : TrackerInv maxAge s lb li)
    (e : Event) : TrackerInv maxAge (astep s e).1 (lbStep lb e) (liStep li e) :=
  inv_step (inv_rearm h e) e

theorem arm_astep {maxAge : Int} {s : Tracker} {lb li : Option (Int × Msg)} (h : TrackerInv maxAge s lb li)
    (ha : ArmInv s lb li) (e : Event) (hb : e.now ≤ batDue s) (hi : e.now ≤ invDue s) :
    ArmInv (astep s e).1 (lbStep lb e) (liStep li e) := by
  cases e with
  | bat now m =>
    simp only [astep, rearm, step_bat]
    refine ⟨?_, ha.inv⟩
    intro _ a m' hm _
    simp only [lbStep, Option.some.injEq, Prod.mk.injEq] at hm
    rw [← hm.1]; rfl
  | inv now m =>
    simp only [astep, rearm, step_inv]
    refine ⟨ha.bat, ?_⟩
    intro _ a m' hm _
    simp only [liStep, Option.some.injEq, Prod.mk.injEq] at hm
    rw [← hm.1]; rfl
  | setPower now r =>
    simp only [astep, rearm, step_setPower]
    exact ⟨ha.bat, ha.inv⟩
  | batTimer now =>
    simp only [Event.now] at hb
    simp only [astep, step_batTimer]
    by_cases hdue : now ≥ batDue s
    · -- a genuine tick, exactly at the due time
      have hr : rearm s (.batTimer now) = { s with battery := { s.battery with timerResetAt := now } } := by
        simp [rearm, hdue]
      rw [hr]
      split_ifs with hg
      · refine ⟨?_, ha.inv⟩
        intro hc a m hl hts
        exfalso
        have h1 := ha.bat hc a m hl hts
        have h2 := h.batTs a m hl
        have h3 := h.age
        simp only [batDue] at hb hdue
        simp only at hg
        rw [h2] at hg
        omega
      · exact ⟨by simp, ha.inv⟩
    · have hr : rearm s (.batTimer now) = s := by simp [rearm, hdue]
      rw [hr]
      split_ifs
      · exact ha
      · exact ⟨by simp, ha.inv⟩
  | invTimer now =>
    simp only [Event.now] at hi
    simp only [astep, step_invTimer]
    by_cases hdue : now ≥ invDue s
    · have hr : rearm s (.invTimer now) = { s with inverter := { s.inverter with timerResetAt := now } } := by
        simp [rearm, hdue]
      rw [hr]
      split_ifs with hg
      · refine ⟨ha.bat, ?_⟩
        intro hc a m hl hts
        exfalso
        have h1 := ha.inv hc a m hl hts
        have h2 := h.invTs a m hl
        have h3 := h.age
        simp only [invDue] at hi hdue
        simp only at hg
        rw [h2] at hg
        omega
      · exact ⟨ha.bat, by simp⟩
    · have hr : rearm s (.invTimer now) = s := by simp [rearm, hdue]
      rw [hr]
      split_ifs
      · exact ha
      · exact ⟨ha.bat, by simp⟩

theorem arm_run {maxAge : Int} (es : List Event) : ∀ {s : Tracker} {lb li : Option (Int × Msg)} {tprev : Int},
    TrackerInv maxAge s lb li → ArmInv s lb li → Admissible s tprev es →
    TrackerInv maxAge (afinal s es) (es.foldl lbStep lb) (es.foldl liStep li) ∧
      ArmInv (afinal s es) (es.foldl lbStep lb) (es.foldl liStep li) := by
  induction es with
  | nil => intro s lb li tprev h ha _; exact ⟨h, ha⟩
  | cons e es ih =>
    intro s lb li tprev h ha hadm
    obtain ⟨_, hb, hi, hrest⟩ := hadm
    exact ih (inv_astep h e) (arm_astep h ha e hb hi) hrest

theorem arm_init (maxAge maxBlk ts0 t0 : Int) : ArmInv (Tracker.new maxAge maxBlk ts0 t0) none none := by
  constructor <;> simp [Tracker.new]

/-- Safety by arrival age, per stream, at any observable time. -/
theorem safety_arrival {maxAge maxBlk ts0 t0 : Int} {es : List Event} {t : Int}
    (hadm : Admissible (Tracker.new maxAge maxBlk ts0 t0) t0 es)
    (hobs : Observable (afinal (Tracker.new maxAge maxBlk ts0 t0) es) (lastTime t0 es) t)
    (hst : (afinal (Tracker.new maxAge maxBlk ts0 t0) es).lastStatus ≠ Status.notWorking) :
    (TsNotFuture (lastBat es) → StreamOk BatHealthy maxAge t false (lastBat es)) ∧
    (TsNotFuture (lastInv es) → StreamOk InvHealthy maxAge t false (lastInv es)) := by
  obtain ⟨h, ha⟩ := arm_run es (inv_init maxAge maxBlk ts0 t0) (arm_init maxAge maxBlk ts0 t0) hadm
  have hh := (healthy_split _).mp (h.st.mp hst)
  obtain ⟨_, hob, hoi⟩ := hobs
  constructor
  · intro hnf
    have hok := h.bat hh.1
    have harm := ha.bat hh.1
    change TsNotFuture (List.foldl lbStep none es) at hnf
    change StreamOk BatHealthy maxAge t false (List.foldl lbStep none es)
    cases hl : List.foldl lbStep none es with
    | none => rw [hl] at hok; exact hok
    | some am =>
      obtain ⟨a, m⟩ := am
      rw [hl] at hok hnf
      have := harm a m hl hnf
      have hage := h.age
      simp only [batDue] at hob
      refine ⟨hok.1, hok.2, ?_⟩
      simp only [Bool.false_eq_true, if_false]
      omega
  · intro hnf
    have hok := h.inv hh.2
    have harm := ha.inv hh.2
    change TsNotFuture (List.foldl liStep none es) at hnf
    change StreamOk InvHealthy maxAge t false (List.foldl liStep none es)
    cases hl : List.foldl liStep none es with
    | none => rw [hl] at hok; exact hok
    | some am =>
      obtain ⟨a, m⟩ := am
      rw [hl] at hok hnf
      have := harm a m hl hnf
      have hage := h.age
      simp only [invDue] at hoi
      refine ⟨hok.1, hok.2, ?_⟩
      simp only [Bool.false_eq_true, if_false]
      omega

end BatteryStatus
