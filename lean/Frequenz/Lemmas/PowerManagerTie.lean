/-
The hand-written model of `PowerManagingActor` (`Frequenz.Model.PowerManager`: `shifted`, `calcPower`, `step`) is EQUAL,
for all states and events, to the machine translation of the current source text of `_power_managing_actor.py`
(`Frequenz.Extracted.PowerManagerActor`, regenerated on every run): `_calculate_shifted_bounds`,
`_calculate_target_power` (state-passing over the two `Matryoshka` instances, in Python's evaluation order),
`_send_updated_target_power`, the proposals / results / timer branches of `_run` and the body of `_bounds_tracker`.

`Matryoshka.Mgr.calc` stays opaque in these proofs (its results are generalised), so they only depend on WHICH calls
are made, in which order, on which state and with which bounds — not on the shape of the generated terms.
-/
import Frequenz.Model.PowerManager
import Frequenz.Extracted.PowerManagerActor
import Mathlib.Tactic.SplitIfs
import Lean.Elab.Tactic

namespace PowerManagerTie

-- the fallback tactics below are only needed after a rewrite of the Python source
set_option linter.unusedTactic false
set_option linter.unusedSimpArgs false

open Matryoshka PowerManager Extracted.PowerManagerActor

macro "pm_leaf" : tactic =>
  `(tactic| first
    | with_reducible rfl
    | (simp_all; done)
    | grind)

macro "pm_split" : tactic =>
  `(tactic| (repeat' split) <;> pm_leaf)


open Lean Elab Tactic Meta in
/-- Innermost application (≥ `n` arguments, no loose bound variables) of the constant `c` inside `e`. -/
partial def findInnermostCall (c : Name) (n : Nat) (e : Expr) : Option Expr :=
  let isCall := e.isApp && e.getAppFn.isConstOf c && !e.hasLooseBVars && e.getAppNumArgs ≥ n
  match e with
  | .app f a => (findInnermostCall c n f) <|> (findInnermostCall c n a) <|> (if isCall then some e else none)
  | .lam _ t b _ => findInnermostCall c n t <|> findInnermostCall c n b
  | .forallE _ t b _ => findInnermostCall c n t <|> findInnermostCall c n b
  | .letE _ t v b _ => findInnermostCall c n t <|> findInnermostCall c n v <|> findInnermostCall c n b
  | .mdata _ b => findInnermostCall c n b
  | .proj _ _ b => findInnermostCall c n b
  | _ => none

open Lean Elab Tactic Meta in
partial def generalizeCallsLoop (c : Name) (n : Nat) (fuel : Nat) : TacticM Unit := do
  if fuel = 0 then return
  let g ← getMainGoal
  let found ← g.withContext do
    let tgt ← instantiateMVars (← g.getType)
    pure (findInnermostCall c n tgt)
  match found with
  | none => return
  | some e =>
    -- name the call (`hrcall : <call> = rcall`), rewrite the goal with it, forget the equation
    let stx ← g.withContext (Term.exprToSyntax e)
    let r := mkIdent `rcall
    let h := mkIdent `hrcall
    evalTactic (← `(tactic| obtain ⟨$r, $h⟩ : ∃ r, $stx = r := ⟨_, rfl⟩))
    evalTactic (← `(tactic| simp only [$h:ident]))
    evalTactic (← `(tactic| clear $h))
    generalizeCallsLoop c n (fuel - 1)

open Lean Elab Tactic Meta in
/-- `generalize_calls c n`: replace every call of `c` (with `n` arguments) in the goal by a fresh variable,
innermost calls first — the callee stays opaque, only WHICH calls are made (on which arguments) matters. -/
elab "generalize_calls " c:ident n:num : tactic => withMainContext do
  let cn ← realizeGlobalConstNoOverloadWithInfo c
  generalizeCallsLoop cn n.getNat 32

open Lean Elab Tactic Meta in
/-- The same for the first (innermost, leftmost) call only; the new variable is called `rcall`. -/
elab "generalize_first_call " c:ident n:num : tactic => withMainContext do
  let cn ← realizeGlobalConstNoOverloadWithInfo c
  generalizeCallsLoop cn n.getNat 1

/-- `_calculate_shifted_bounds` = `shifted`. -/
theorem shiftedBounds_eq (sb : SystemBounds) (p : Option Rat) : shiftedBounds sb p = shifted sb p := by
  obtain ⟨incl, excl⟩ := sb
  unfold shiftedBounds shifted Extracted.Proposal.shiftedLower Extracted.Proposal.shiftedUpper
  rcases p with _ | p <;> rcases incl with _ | ⟨il, iu⟩ <;> simp only [Option.map] <;> pm_split

/-- `_calculate_target_power` = `calcPower` (groups and returned power; bounds cache and flag are not touched). -/
theorem calculateTargetPower_eq (st : State) (sb : SystemBounds) (p : Option (Proposal × Bool)) (must : Bool) :
    calculateTargetPower st.op st.reg sb p must =
      ((calcPower st sb p must).1.op, (calcPower st sb p must).1.reg, (calcPower st sb p must).2) := by
  obtain ⟨reg, op, sbo, lp⟩ := st
  obtain ⟨incl, excl⟩ := sb
  unfold calculateTargetPower calcPower twoStage opPart regPart combine
  rcases p with _ | ⟨q, _ | _⟩ <;> rcases incl with _ | ⟨il, iu⟩ <;>
    simp only [Bool.false_eq_true, if_false, if_true, Option.map]
  all_goals
    -- the first call (operating-point group, system bounds); its stored target decides the shifted bounds
    generalize_first_call Matryoshka.Mgr.calc 4
    obtain ⟨⟨b1, l1⟩, t1⟩ := rcall
    rcases l1 with _ | l1 <;>
      simp only [shiftedBounds_eq, shifted, Option.map, Extracted.Proposal.shiftedLower,
        Extracted.Proposal.shiftedUpper] <;>
      (generalize_calls Matryoshka.Mgr.calc 4; pm_split)

theorem calcPower_frame (st : State) (sb : SystemBounds) (p : Option (Proposal × Bool)) (must : Bool) :
    (calcPower st sb p must).1.sb = st.sb ∧ (calcPower st sb p must).1.lastPartial = st.lastPartial :=
  ⟨rfl, rfl⟩

/-- `_send_updated_target_power`: a request is sent iff `_calculate_target_power` returned a power, with that power. -/
theorem sendUpdatedTargetPower_eq (st : State) (sb : SystemBounds) (p : Option (Proposal × Bool)) (must : Bool) :
    sendUpdatedTargetPower st.op st.reg sb p must =
      ((calcPower st sb p must).1.op, (calcPower st sb p must).1.reg, (calcPower st sb p must).2) := by
  unfold sendUpdatedTargetPower
  simp only [calculateTargetPower_eq]
  generalize (calcPower st sb p must).2 = o
  rcases o with _ | o <;> simp only [] <;> pm_split

/-- The model state as the tuple (flag, operating-point group, regular group, bounds cache) of the translation. -/
def stTuple (st : State) : Bool × Mgr × Mgr × Option SystemBounds := (st.lastPartial, st.op, st.reg, st.sb)

theorem calcPower_stTuple (st : State) (sb : SystemBounds) (p : Option (Proposal × Bool)) (must : Bool) :
    stTuple (calcPower st sb p must).1 =
      (st.lastPartial, (calcPower st sb p must).1.op, (calcPower st sb p must).1.reg, st.sb) := rfl

/-- What the translated `sendUpdatedTargetPower` call means on a model state (used to rewrite the handlers). -/
theorem send_on_state (flag : Bool) (op reg : Mgr) (sbo : Option SystemBounds) (sb : SystemBounds)
    (p : Option (Proposal × Bool)) (must : Bool) :
    sendUpdatedTargetPower op reg sb p must =
      ((calcPower { reg := reg, op := op, sb := sbo, lastPartial := flag } sb p must).1.op,
       (calcPower { reg := reg, op := op, sb := sbo, lastPartial := flag } sb p must).1.reg,
       (calcPower { reg := reg, op := op, sb := sbo, lastPartial := flag } sb p must).2) :=
  sendUpdatedTargetPower_eq { reg := reg, op := op, sb := sbo, lastPartial := flag } sb p must

/-- Proposals branch of `_run` = `step st (.proposal p isOp)` (never a `KeyError`). -/
theorem onProposal_eq (st : State) (p : Proposal) (isOp : Bool) :
    onProposal st.lastPartial st.op st.reg st.sb p isOp =
      some (stTuple (step st (.proposal p isOp)).1, (step st (.proposal p isOp)).2) := by
  obtain ⟨reg, op, sbo, lp⟩ := st
  unfold onProposal PowerManager.step stTuple noBounds trackerInitBounds
  rcases sbo with _ | sb <;> simp only [Option.getD]
  · simp only [send_on_state lp op reg (some ({ incl := none, excl := none } : SystemBounds))]
    first | rfl | pm_split
  · simp only [send_on_state lp op reg (some sb)]
    first | rfl | pm_split

/-- Body of `_bounds_tracker` = `step st (.bounds sb)`. -/
theorem onBounds_eq (st : State) (sb : SystemBounds) :
    onBounds st.lastPartial st.op st.reg st.sb sb = some (stTuple (step st (.bounds sb)).1, (step st (.bounds sb)).2) := by
  obtain ⟨reg, op, sbo, lp⟩ := st
  unfold onBounds PowerManager.step stTuple
  simp only [send_on_state lp op reg (some sb)]
  first | rfl | pm_split

/-- Timer branch of `_run` = `step st (.drop now)`. -/
theorem onTimer_eq (st : State) (now : Rat) :
    onTimer st.lastPartial st.op st.reg st.sb now = some (stTuple (step st (.drop now)).1, (step st (.drop now)).2) := by
  obtain ⟨reg, op, sbo, lp⟩ := st
  unfold onTimer PowerManager.step stTuple maxAge
  first | rfl | pm_split

/-- Results branch of `_run` = `step st (.result k)`, except that the model leaves the state alone where Python
raises `KeyError` (a partial failure for component ids without bounds cache entry, flag not set). -/
theorem onResult_eq (st : State) (k : ResultKind) :
    onResult st.lastPartial st.op st.reg st.sb (decide (k = .partialFailure)) (decide (k = .success)) =
      if k = .partialFailure ∧ st.lastPartial = false ∧ st.sb = none then none
      else some (stTuple (step st (.result k)).1, (step st (.result k)).2) := by
  obtain ⟨reg, op, sbo, lp⟩ := st
  unfold onResult PowerManager.step stTuple
  rcases k with _ | _ | _ <;> rcases lp with _ | _ <;> rcases sbo with _ | sb <;>
    simp only [decide_true, decide_false, reduceCtorEq, Bool.false_eq_true, if_false, if_true, and_self, and_true,
      and_false, false_and, true_and, not_true_eq_false, not_false_eq_true] <;>
    first
      | rfl
      | (simp only [send_on_state true op reg (some sb)]; first | rfl | pm_split)
      | pm_split

/-- The loop-carried flag starts as in `State.init`, the cache entry of a new tracker is `noBounds`, requests ask
the distributor to adjust the power. -/
theorem constants_eq :
    initialFlag = State.init.lastPartial ∧ trackerInitBounds = noBounds ∧ requestAdjustPower = true :=
  ⟨rfl, rfl, rfl⟩

end PowerManagerTie
