/-
Lemmas for C18: the machine-translated loop bodies in closed form, the real path (fetcher tables, required metrics)
on a structured battery, the two folds as sums over the qualifying batteries, and the order / scaling facts about
the resulting formula.
-/
import Frequenz.Model.PoolSoc
import Frequenz.Lemmas.PoolArith
set_option linter.unusedSimpArgs false
namespace PoolSoc
open Extracted.Pool PoolArith

/-! ### the machine-translated steps in closed form -/

/-- The translated loop body, whatever the shape of its decision tree (clamp as `min(max(…))` or as if/elif, …). -/
theorem socStep_eq (used total c u l s : Rat) :
    socStep used total c u l s =
      (used + c * (u - l) * scaledSoc (c, u, l, s), total + c * (u - l)) := by
  unfold socStep scaledSoc pyMin pyMax
  by_cases h1 : pyIsclose u l <;> by_cases h2 : s < l <;> by_cases h3 : (s - l) / (u - l) * 100 < 0 <;>
    by_cases h4 : 100 < (s - l) / (u - l) * 100 <;>
    simp only [h1, h2, h3, h4, if_true, if_false, gt_iff_lt] <;> first | rfl | grind

theorem socFinal_eq (used total : Rat) :
    socFinal used total = if isCloseToZero total then 0 else snap (used / total) := by
  unfold socFinal snap
  by_cases h1 : isCloseToZero total
  · simp [h1]
  · by_cases h2 : pyIsclose (used / total) 100 <;> simp [h1, h2]

theorem capStep_eq (t c u l : Rat) : capStep t c u l = t + c * (u - l) / 100 := by
  unfold capStep; rfl

theorem capFinal_eq (t : Rat) : capFinal t = t := rfl

/-! ### a structured battery through the real path -/

theorem values_soc (b : CBat) :
    (b.toBat socRequired).values socRequired =
      b.socArgs.map fun a => (b.msg.ts, [a.1, a.2.1, a.2.2.1, a.2.2.2]) := by
  rcases b with ⟨w, p, ⟨ts, c, l, u, s⟩⟩
  cases w <;> cases p <;> cases c <;> cases l <;> cases u <;> cases s <;> rfl

theorem values_cap (b : CBat) :
    (b.toBat capRequired).values capRequired =
      b.capArgs.map fun a => (b.msg.ts, [a.1, a.2.1, a.2.2]) := by
  rcases b with ⟨w, p, ⟨ts, c, l, u, s⟩⟩
  cases w <;> cases p <;> cases c <;> cases l <;> cases u <;> cases s <;> rfl

/-! ### the folds in closed form -/

def Qs (bs : List CBat) : List (Rat × Rat × Rat × Rat) := bs.filterMap CBat.socArgs
def Qc (bs : List CBat) : List (Rat × Rat × Rat) := bs.filterMap CBat.capArgs

theorem socIter_eq (s : SocAcc × Option Int) (b : CBat) :
    socIter s (b.toBat socRequired) =
      match b.socArgs with
      | none => s
      | some a => ((s.1.1 + weight a * scaledSoc a, s.1.2 + weight a), tsMax s.2 b.msg.ts) := by
  unfold socIter
  rw [values_soc]
  cases h : b.socArgs with
  | none => simp
  | some a =>
    obtain ⟨c, u, l, x⟩ := a
    simp [socStep_eq, weight]

theorem tsMax_isSome (c : Option Int) (t : Int) : (tsMax c t).isSome = true := by
  cases c <;> simp [tsMax]

theorem foldl_socIter (bs : List CBat) (s : SocAcc × Option Int) :
    let r := (bs.map (CBat.toBat socRequired)).foldl socIter s
    r.1.1 = s.1.1 + pySum ((Qs bs).map fun a => weight a * scaledSoc a) ∧
    r.1.2 = s.1.2 + pySum ((Qs bs).map weight) ∧
    r.2.isSome = (s.2.isSome || !(Qs bs).isEmpty) := by
  induction bs generalizing s with
  | nil => simp [Qs, Rat.add_zero]
  | cons b bs ih =>
    simp only [List.map_cons, List.foldl_cons]
    have h := ih (socIter s (b.toBat socRequired))
    simp only at h
    rw [socIter_eq] at h
    cases hb : b.socArgs with
    | none =>
      simp only [hb] at h
      simp only [Qs, List.filterMap_cons, hb] at h ⊢
      rw [socIter_eq]; simp only [hb]
      exact h
    | some a =>
      simp only [hb] at h
      rw [socIter_eq]; simp only [hb]
      simp only [Qs, List.filterMap_cons, hb, List.map_cons, pySum_cons, List.isEmpty_cons] at h ⊢
      refine ⟨?_, ?_, ?_⟩
      · rw [h.1]; grind
      · rw [h.2.1]; grind
      · rw [h.2.2, tsMax_isSome]; simp

/-- `SoCCalculator.calculate` as a formula over the qualifying batteries. -/
theorem socOf_eq (bs : List CBat) :
    socOf bs = if Qs bs = [] then none
               else some (if isCloseToZero (totalX100 bs) then 0 else snap (usedX100 bs / totalX100 bs)) := by
  unfold socOf socCalc
  have h := foldl_socIter bs ((0, 0), none)
  simp only [Option.isSome_none, Bool.false_or, Rat.zero_add] at h
  obtain ⟨h1, h2, h3⟩ := h
  by_cases hq : Qs bs = []
  · simp only [hq, List.isEmpty_nil, Bool.not_true] at h3
    simp only [hq, if_true]
    cases hr : ((bs.map (CBat.toBat socRequired)).foldl socIter ((0, 0), none)).2 with
    | none => simp
    | some t => rw [hr] at h3; simp at h3
  · have hne : (Qs bs).isEmpty = false := by simpa [List.isEmpty_iff] using hq
    simp only [hne, Bool.not_false] at h3
    simp only [hq, if_false]
    cases hr : ((bs.map (CBat.toBat socRequired)).foldl socIter ((0, 0), none)).2 with
    | none => rw [hr] at h3; simp at h3
    | some t =>
      simp only [Option.map_some, socFinal_eq, h1, h2, usedX100, totalX100, Qs]
      rfl

theorem capIter_eq (s : Rat × Option Int) (b : CBat) :
    capIter s (b.toBat capRequired) =
      match b.capArgs with
      | none => s
      | some a => (s.1 + a.1 * (a.2.1 - a.2.2) / 100, tsMax s.2 b.msg.ts) := by
  unfold capIter
  rw [values_cap]
  cases h : b.capArgs with
  | none => simp
  | some a =>
    obtain ⟨c, u, l⟩ := a
    simp [capStep_eq]

theorem foldl_capIter (bs : List CBat) (s : Rat × Option Int) :
    let r := (bs.map (CBat.toBat capRequired)).foldl capIter s
    r.1 = s.1 + pySum ((Qc bs).map fun a => a.1 * (a.2.1 - a.2.2) / 100) ∧
    r.2.isSome = (s.2.isSome || !(Qc bs).isEmpty) := by
  induction bs generalizing s with
  | nil => simp [Qc, Rat.add_zero]
  | cons b bs ih =>
    simp only [List.map_cons, List.foldl_cons]
    have h := ih (capIter s (b.toBat capRequired))
    simp only at h
    rw [capIter_eq] at h
    cases hb : b.capArgs with
    | none =>
      simp only [hb] at h
      simp only [Qc, List.filterMap_cons, hb] at h ⊢
      rw [capIter_eq]; simp only [hb]
      exact h
    | some a =>
      simp only [hb] at h
      rw [capIter_eq]; simp only [hb]
      simp only [Qc, List.filterMap_cons, hb, List.map_cons, pySum_cons, List.isEmpty_cons] at h ⊢
      refine ⟨?_, ?_⟩
      · rw [h.1]; grind
      · rw [h.2, tsMax_isSome]; simp

/-- `CapacityCalculator.calculate` as a formula over the qualifying batteries. -/
theorem capOf_eq (bs : List CBat) :
    capOf bs = if Qc bs = [] then none
               else some (pySum ((Qc bs).map fun a => a.1 * (a.2.1 - a.2.2) / 100)) := by
  unfold capOf capCalc
  have h := foldl_capIter bs (0, none)
  simp only [Option.isSome_none, Bool.false_or, Rat.zero_add] at h
  obtain ⟨h1, h3⟩ := h
  by_cases hq : Qc bs = []
  · simp only [hq, List.isEmpty_nil, Bool.not_true] at h3
    simp only [hq, if_true]
    cases hr : ((bs.map (CBat.toBat capRequired)).foldl capIter (0, none)).2 with
    | none => simp
    | some t => rw [hr] at h3; simp at h3
  · have hne : (Qc bs).isEmpty = false := by simpa [List.isEmpty_iff] using hq
    simp only [hne, Bool.not_false] at h3
    simp only [hq, if_false]
    cases hr : ((bs.map (CBat.toBat capRequired)).foldl capIter (0, none)).2 with
    | none => rw [hr] at h3; simp at h3
    | some t => simp only [Option.map_some, capFinal_eq, h1]


/-! ### properties of the formula -/

/-- value reported for totals `U = Σ w·s`, `W = Σ w` -/
def final (U W : Rat) : Rat := if isCloseToZero W then 0 else snap (U / W)

theorem socOf_final (bs : List CBat) :
    socOf bs = if Qs bs = [] then none else some (final (usedX100 bs) (totalX100 bs)) := socOf_eq bs

/-- capacity ≥ 0 and lower ≤ upper for every qualifying battery -/
def ArgsOk (as : List (Rat × Rat × Rat × Rat)) : Prop := ∀ a ∈ as, 0 ≤ a.1 ∧ a.2.2.1 ≤ a.2.1

theorem weight_nonneg (a : Rat × Rat × Rat × Rat) (h : 0 ≤ a.1 ∧ a.2.2.1 ≤ a.2.1) : 0 ≤ weight a := by
  unfold weight
  apply Rat.mul_nonneg h.1
  grind

theorem scaledSoc_range (a : Rat × Rat × Rat × Rat) : 0 ≤ scaledSoc a ∧ scaledSoc a ≤ 100 := by
  unfold scaledSoc pyMin pyMax
  constructor <;> grind

theorem sums_bounds (as : List (Rat × Rat × Rat × Rat)) (h : ArgsOk as) :
    0 ≤ pySum (as.map fun a => weight a * scaledSoc a) ∧
    pySum (as.map fun a => weight a * scaledSoc a) ≤ 100 * pySum (as.map weight) ∧
    0 ≤ pySum (as.map weight) := by
  induction as with
  | nil => simp
  | cons a as ih =>
    have ha := h a (by simp)
    have hw := weight_nonneg a ha
    have hs := scaledSoc_range a
    have := ih (fun x hx => h x (by simp [hx]))
    simp only [List.map_cons, pySum_cons]
    have h1 : 0 ≤ weight a * scaledSoc a := Rat.mul_nonneg hw hs.1
    have h2 : weight a * scaledSoc a ≤ weight a * 100 := Rat.mul_le_mul_of_nonneg_left hs.2 hw
    refine ⟨by grind, by grind, by grind⟩

theorem pos_of_not_close {W : Rat} (h0 : 0 ≤ W) (h : ¬ isCloseToZero W) : 0 < W := by
  have : W ≠ 0 := fun h' => h (h' ▸ isCloseToZero_zero)
  grind

theorem snap_range {x : Rat} (h0 : 0 ≤ x) (h1 : x ≤ 100) : 0 ≤ snap x ∧ snap x ≤ 100 := by
  unfold snap
  by_cases h : pyIsclose x 100 <;> simp [h] <;> grind

theorem final_range {U W : Rat} (h0 : 0 ≤ U) (h1 : U ≤ 100 * W) (hW : 0 ≤ W) :
    0 ≤ final U W ∧ final U W ≤ 100 := by
  unfold final
  by_cases h : isCloseToZero W
  · simp only [h, if_true]
    exact ⟨by decide +kernel, by decide +kernel⟩
  · simp only [h, if_false]
    have hpos := pos_of_not_close hW h
    apply snap_range
    · apply le_div_of_mul_le hpos; grind
    · exact div_le_of_le_mul hpos h1

theorem snap_mono {x y : Rat} (hx : 0 ≤ x) (hy : y ≤ 100) (h : x ≤ y) : snap x ≤ snap y := by
  unfold snap pyIsclose pyAbs
  by_cases h1 : x = 100 <;> by_cases h2 : y = 100 <;> grind

theorem final_mono {U U' W : Rat} (h0 : 0 ≤ U) (h1 : U' ≤ 100 * W) (hW : 0 ≤ W) (h : U ≤ U') :
    final U W ≤ final U' W := by
  unfold final
  by_cases hc : isCloseToZero W
  · simp [hc]
  · simp only [hc, if_false]
    have hpos := pos_of_not_close hW hc
    apply snap_mono
    · apply le_div_of_mul_le hpos; grind
    · exact div_le_of_le_mul hpos h1
    · exact div_le_div_right hpos h

theorem final_scale {U W k : Rat} (hk : 0 < k) (hc : isCloseToZero W ↔ isCloseToZero (k * W)) :
    final (k * U) (k * W) = final U W := by
  unfold final
  by_cases h : isCloseToZero W
  · have := hc.mp h
    simp [h, this]
  · have : ¬ isCloseToZero (k * W) := fun h' => h (hc.mpr h')
    simp only [h, this, if_false]
    rw [mul_div_mul_left k U W (by grind)]

/-- same battery, SoC not lower -/
def Raised (a a' : Rat × Rat × Rat × Rat) : Prop :=
  a'.1 = a.1 ∧ a'.2.1 = a.2.1 ∧ a'.2.2.1 = a.2.2.1 ∧ a.2.2.2 ≤ a'.2.2.2

theorem scaledSoc_mono (a a' : Rat × Rat × Rat × Rat) (h : Raised a a') (hl : a.2.2.1 ≤ a.2.1) :
    scaledSoc a ≤ scaledSoc a' := by
  obtain ⟨c, u, l, s⟩ := a
  obtain ⟨c', u', l', s'⟩ := a'
  obtain ⟨h1, h2, h3, h4⟩ := h
  simp only at h1 h2 h3 h4 hl
  subst h1 h2 h3
  unfold scaledSoc
  simp only
  by_cases hc : pyIsclose u' l'
  · simp only [hc, if_true]
    unfold pyMin pyMax
    by_cases ha : s < l' <;> by_cases hb : s' < l' <;> simp [ha, hb] <;> grind
  · simp only [hc, if_false]
    have hne : u' ≠ l' := fun h' => hc (Or.inl h')
    have hpos : 0 < u' - l' := by grind
    have hd : (s - l') / (u' - l') ≤ (s' - l') / (u' - l') := div_le_div_right hpos (by grind)
    have hm : (s - l') / (u' - l') * 100 ≤ (s' - l') / (u' - l') * 100 :=
      Rat.mul_le_mul_of_nonneg_right hd (by decide +kernel)
    unfold pyMin pyMax
    grind

theorem weight_raised (a a' : Rat × Rat × Rat × Rat) (h : Raised a a') : weight a' = weight a := by
  unfold weight; rw [h.1, h.2.1, h.2.2.1]

theorem sums_raised (as as' : List (Rat × Rat × Rat × Rat)) (h : Pointwise Raised as as') (hok : ArgsOk as) :
    pySum (as'.map weight) = pySum (as.map weight) ∧
    pySum (as.map fun a => weight a * scaledSoc a) ≤ pySum (as'.map fun a => weight a * scaledSoc a) ∧
    ArgsOk as' := by
  induction h with
  | nil => simp [ArgsOk]
  | @cons a a' as as' hr _ ih =>
    have ha := hok a (by simp)
    have := ih (fun x hx => hok x (by simp [hx]))
    have hw := weight_raised a a' hr
    have hs := scaledSoc_mono a a' hr ha.2
    have hwn := weight_nonneg a ha
    have hm : weight a * scaledSoc a ≤ weight a * scaledSoc a' := Rat.mul_le_mul_of_nonneg_left hs hwn
    simp only [List.map_cons, pySum_cons, hw]
    refine ⟨by grind, by grind, ?_⟩
    intro x hx
    rcases List.mem_cons.mp hx with rfl | hmem
    · rw [hr.1, hr.2.1, hr.2.2.1]; exact ha
    · exact this.2.2 x hmem

/-- capacities multiplied by `k` -/
def scaleArgs (k : Rat) (a : Rat × Rat × Rat × Rat) : Rat × Rat × Rat × Rat := (k * a.1, a.2)

theorem socArgs_scale (k : Rat) (b : CBat) : (b.scale k).socArgs = b.socArgs.map (scaleArgs k) := by
  rcases b with ⟨w, p, ⟨ts, c, l, u, s⟩⟩
  cases w <;> cases p <;> cases c <;> cases l <;> cases u <;> cases s <;> rfl

theorem Qs_scale (k : Rat) (bs : List CBat) : Qs (bs.map (CBat.scale k)) = (Qs bs).map (scaleArgs k) := by
  unfold Qs
  induction bs with
  | nil => rfl
  | cons b bs ih =>
    simp only [List.map_cons, List.filterMap_cons, socArgs_scale]
    cases b.socArgs <;> simp [ih]

theorem sums_scale (k : Rat) (as : List (Rat × Rat × Rat × Rat)) :
    pySum ((as.map (scaleArgs k)).map weight) = k * pySum (as.map weight) ∧
    pySum ((as.map (scaleArgs k)).map fun a => weight a * scaledSoc a) =
      k * pySum (as.map fun a => weight a * scaledSoc a) := by
  rw [List.map_map, List.map_map, ← pySum_map_mul_left, ← pySum_map_mul_left]
  constructor
  · congr 1; apply List.map_congr_left; intro a _
    simp only [Function.comp, weight, scaleArgs]; grind
  · congr 1; apply List.map_congr_left; intro a _
    simp only [Function.comp, weight, scaleArgs, scaledSoc]; grind

theorem filterMap_filter_isSome {α β : Type} (f : α → Option β) (l : List α) :
    (l.filter fun x => (f x).isSome).filterMap f = l.filterMap f := by
  induction l with
  | nil => rfl
  | cons x l ih =>
    cases h : f x with
    | none => simp [List.filter_cons, List.filterMap_cons, h, ih]
    | some y => simp [List.filter_cons, List.filterMap_cons, h, ih]

theorem socArgs_isSome_iff (b : CBat) :
    b.socArgs.isSome ↔ b.working ∧ b.present ∧ b.msg.capacity.isSome ∧ b.msg.soc_lower_bound.isSome ∧
      b.msg.soc_upper_bound.isSome ∧ b.msg.soc.isSome := by
  rcases b with ⟨w, p, ⟨ts, c, l, u, s⟩⟩
  cases w <;> cases p <;> cases c <;> cases l <;> cases u <;> cases s <;> simp [CBat.socArgs]

theorem capArgs_isSome_iff (b : CBat) :
    b.capArgs.isSome ↔ b.working ∧ b.present ∧ b.msg.capacity.isSome ∧ b.msg.soc_lower_bound.isSome ∧
      b.msg.soc_upper_bound.isSome := by
  rcases b with ⟨w, p, ⟨ts, c, l, u, s⟩⟩
  cases w <;> cases p <;> cases c <;> cases l <;> cases u <;> simp [CBat.capArgs]


theorem socArgs_raised (b b' : CBat) (h : SocRaised b b') :
    (b.socArgs = none ∧ b'.socArgs = none) ∨
    ∃ a a', b.socArgs = some a ∧ b'.socArgs = some a' ∧ Raised a a' := by
  rcases b with ⟨w, p, ⟨ts, c, l, u, s⟩⟩
  rcases b' with ⟨w', p', ⟨ts', c', l', u', s'⟩⟩
  obtain ⟨h1, h2, h3, h4, h5, h6⟩ := h
  simp only at h1 h2 h3 h4 h5 h6
  subst h1 h2 h3 h4 h5
  rcases h6 with ⟨hs, hs'⟩ | ⟨x, x', hs, hs', hle⟩
  · subst hs hs'
    left
    cases w' <;> cases p' <;> cases c' <;> cases l' <;> cases u' <;> simp [CBat.socArgs]
  · subst hs hs'
    cases w' <;> cases p' <;> cases c' <;> cases l' <;> cases u' <;> simp [CBat.socArgs, Raised, hle]

theorem Qs_raised (bs bs' : List CBat) (h : Pointwise SocRaised bs bs') : Pointwise Raised (Qs bs) (Qs bs') := by
  induction h with
  | nil => exact Pointwise.nil
  | @cons b b' bs bs' hr _ ih =>
    unfold Qs at ih ⊢
    rcases socArgs_raised b b' hr with ⟨h1, h2⟩ | ⟨a, a', h1, h2, hraise⟩
    · simp only [List.filterMap_cons, h1, h2]; exact ih
    · simp only [List.filterMap_cons, h1, h2]; exact Pointwise.cons hraise ih

theorem Pointwise.nil_iff {α β : Type} {R : α → β → Prop} {as : List α} {bs : List β} (h : Pointwise R as bs) :
    as = [] ↔ bs = [] := by
  cases h <;> simp

theorem Qs_nil_of_raised (bs bs' : List CBat) (h : Pointwise SocRaised bs bs') : Qs bs = [] ↔ Qs bs' = [] :=
  (Qs_raised bs bs' h).nil_iff

/-! ### the `SendOnUpdate` cache -/

theorem lookup_filter_key {β : Type} (q : Nat → Bool) (c : List (Nat × β)) (b : Nat) :
    (c.filter fun e => q e.1).lookup b = if q b then c.lookup b else none := by
  induction c with
  | nil => simp
  | cons e c ih =>
    obtain ⟨k, v⟩ := e
    by_cases hb : b = k
    · subst hb
      by_cases hq : q b
      · simp [List.filter_cons, hq, List.lookup]
      · simp [List.filter_cons, hq, ih]
    · have hb' : (b == k) = false := by simpa using hb
      by_cases hq : q k
      · simp only [List.filter_cons, hq, if_true, List.lookup, hb', ih]
      · simp only [List.filter_cons, hq, List.lookup, hb']
        exact ih

theorem step_working (ids : List String) (p : Pool) (new : List Nat) (b : Nat) :
    let p' := p.step ids (.working new)
    (b ∈ p.working → ¬ (b ∈ p.batteries ∧ b ∈ new) → p'.cached.lookup b = none) ∧
    (¬ (b ∈ p.working ∧ ¬ (b ∈ p.batteries ∧ b ∈ new)) → p'.cached.lookup b = p.cached.lookup b) ∧
    (∀ x, x ∈ p'.working ↔ x ∈ p.batteries ∧ x ∈ new) := by
  simp only [Pool.step]
  have hstop : (p.working.filter fun b => !(p.batteries.filter fun b => new.contains b).contains b).contains b = true
      ↔ (b ∈ p.working ∧ ¬ (b ∈ p.batteries ∧ b ∈ new)) := by
    simp only [List.contains_iff_mem, List.mem_filter, Bool.not_eq_true', List.contains_eq_mem,
      decide_eq_false_iff_not, decide_eq_true_eq]
  generalize (p.working.filter fun b => !(p.batteries.filter fun b => new.contains b).contains b) = stopped at hstop
  rw [lookup_filter_key (fun x => !stopped.contains x)]
  refine ⟨?_, ?_, ?_⟩
  · intro hw hn
    have : stopped.contains b = true := hstop.mpr ⟨hw, hn⟩
    rw [this]; rfl
  · intro hn
    have : stopped.contains b = false := Bool.eq_false_iff.mpr (fun hc => hn (hstop.mp hc))
    rw [this]; rfl
  · intro x
    simp [List.mem_filter]

/-! ### iteration order -/

theorem pySum_perm {xs ys : List Rat} (h : xs.Perm ys) : pySum xs = pySum ys := by
  induction h with
  | nil => rfl
  | cons x _ ih => simp only [pySum_cons, ih]
  | swap x y l => simp only [pySum_cons]; grind
  | trans _ _ ih1 ih2 => exact ih1.trans ih2

theorem perm_nil_iff {α : Type} {xs ys : List α} (h : xs.Perm ys) : xs = [] ↔ ys = [] := by
  constructor
  · intro e; subst e; exact h.nil_eq.symm ▸ rfl
  · intro e; subst e; exact h.symm.nil_eq.symm ▸ rfl

/-- The calculators iterate over a Python `set`: the order of the batteries is irrelevant. -/
theorem socOf_perm {bs bs' : List CBat} (h : bs.Perm bs') : socOf bs = socOf bs' ∧ capOf bs = capOf bs' := by
  have hq : (bs.filterMap CBat.socArgs).Perm (bs'.filterMap CBat.socArgs) := h.filterMap _
  have hc : (bs.filterMap CBat.capArgs).Perm (bs'.filterMap CBat.capArgs) := h.filterMap _
  constructor
  · rw [socOf_eq, socOf_eq]
    unfold Qs totalX100 usedX100
    rw [pySum_perm (hq.map weight), pySum_perm (hq.map fun a => weight a * scaledSoc a)]
    by_cases e : bs.filterMap CBat.socArgs = []
    · simp [e, (perm_nil_iff hq).mp e]
    · have e' : ¬ bs'.filterMap CBat.socArgs = [] := fun x => e ((perm_nil_iff hq).mpr x)
      simp [e, e']
  · rw [capOf_eq, capOf_eq]
    unfold Qc
    rw [pySum_perm (hc.map _)]
    by_cases e : bs.filterMap CBat.capArgs = []
    · simp [e, (perm_nil_iff hc).mp e]
    · have e' : ¬ bs'.filterMap CBat.capArgs = [] := fun x => e ((perm_nil_iff hc).mpr x)
      simp [e, e']

end PoolSoc
