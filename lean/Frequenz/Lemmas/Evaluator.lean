/-
Invariant of the formula evaluator model (C06): after the first `apply()` every queue is the suffix of its
stream's history starting at tick `T0 + #outputs`, and the outputs are exactly `⟨T0 + r, f(samples stamped T0 + r)⟩`.
Serves Props/C06.lean.
-/
import Frequenz.Model.Evaluator
import Frequenz.Lemmas.EvaluatorList

namespace Evaluator

open QList

/-- Admissible delivery: stream `i < n` delivers its next consecutive tick, with the stream's value for it. -/
def AdmEv (n : Nat) (t0 : Nat → Int) (src : Nat → Int → Option Rat) (σ : St) : Ev → Prop
  | .deliver i s => i < n ∧ s.ts = t0 i + (σ.all i).length ∧ s.val = src i s.ts
  | .eval _ => True

instance (n : Nat) (t0 : Nat → Int) (src : Nat → Int → Option Rat) (σ : St) (e : Ev) :
    Decidable (AdmEv n t0 src σ e) := by
  cases e <;> unfold AdmEv <;> infer_instance

def AdmFrom (n : Nat) (f : List (Option Rat) → Option Rat) (t0 : Nat → Int) (src : Nat → Int → Option Rat) :
    St → List Ev → Prop
  | _, [] => True
  | σ, e :: es => AdmEv n t0 src σ e ∧ AdmFrom n f t0 src (step n f σ e) es

instance (n : Nat) (f : List (Option Rat) → Option Rat) (t0 : Nat → Int) (src : Nat → Int → Option Rat) :
    ∀ (σ : St) (es : List Ev), Decidable (AdmFrom n f t0 src σ es)
  | _, [] => by unfold AdmFrom; infer_instance
  | σ, e :: es => by
      unfold AdmFrom
      have := instDecidableAdmFrom n f t0 src (step n f σ e) es
      infer_instance

/-- The latest of the streams' first timestamps. -/
def maxStart (n : Nat) (t0 : Nat → Int) : Int :=
  (List.range n).foldl (fun m i => max m (t0 i)) (t0 0)

/-- The values stamped `t`, in stream order. -/
def valuesAt (n : Nat) (src : Nat → Int → Option Rat) (t : Int) : List (Option Rat) :=
  (List.range n).map (fun i => src i t)

theorem foldl_max_ge (g : Nat → Int) : ∀ (l : List Nat) (a : Int),
    a ≤ l.foldl (fun m i => max m (g i)) a ∧ ∀ i ∈ l, g i ≤ l.foldl (fun m i => max m (g i)) a
  | [], a => by simp
  | x :: l, a => by
      simp only [List.foldl_cons]
      obtain ⟨h1, h2⟩ := foldl_max_ge g l (max a (g x))
      refine ⟨by omega, ?_⟩
      intro i hi
      rcases List.mem_cons.mp hi with rfl | hi
      · omega
      · exact h2 i hi

theorem foldl_max_mem (g : Nat → Int) : ∀ (l : List Nat) (a : Int),
    l.foldl (fun m i => max m (g i)) a = a ∨ ∃ i ∈ l, l.foldl (fun m i => max m (g i)) a = g i
  | [], a => by simp
  | x :: l, a => by
      simp only [List.foldl_cons]
      rcases foldl_max_mem g l (max a (g x)) with h | ⟨i, hi, h⟩
      · rcases Int.le_total a (g x) with hle | hle
        · right; exact ⟨x, by simp, by rw [h]; omega⟩
        · left; rw [h]; omega
      · right; exact ⟨i, by simp [hi], h⟩

theorem maxStart_ge (n : Nat) (t0 : Nat → Int) (i : Nat) (hi : i < n) : t0 i ≤ maxStart n t0 :=
  (foldl_max_ge t0 (List.range n) (t0 0)).2 i (List.mem_range.mpr hi)

theorem maxStart_attained (n : Nat) (t0 : Nat → Int) (hn : 0 < n) : ∃ i, i < n ∧ maxStart n t0 = t0 i := by
  rcases foldl_max_mem t0 (List.range n) (t0 0) with h | ⟨i, hi, h⟩
  · exact ⟨0, hn, h⟩
  · exact ⟨i, List.mem_range.mp hi, h⟩

theorem foldl_max_congr (g g' : Nat → Int) : ∀ (l : List Nat) (a : Int), (∀ i ∈ l, g i = g' i) →
    l.foldl (fun m i => max m (g i)) a = l.foldl (fun m i => max m (g' i)) a
  | [], _, _ => rfl
  | x :: l, a, h => by
      simp only [List.foldl_cons]
      rw [h x (by simp)]
      exact foldl_max_congr g g' l _ (fun i hi => h i (by simp [hi]))

/-- A gap-free history starting at tick `a`. -/
def GapFree (a : Int) (v : Int → Option Rat) (l : List Sample) : Prop :=
  ∀ (k : Nat) (s : Sample), l[k]? = some s → s.ts = a + k ∧ s.val = v (a + k)

theorem GapFree.tail {a : Int} {v : Int → Option Rat} {s : Sample} {r : List Sample}
    (h : GapFree a v (s :: r)) : GapFree (a + 1) v r := by
  intro k x hx
  have := h (k + 1) x (by simpa using hx)
  push_cast at this
  constructor
  · omega
  · rw [this.2]; congr 1; omega

/-- Draining a gap-free queue up to `t` (not before its start) leaves the suffix starting at tick `t`. -/
theorem drain_spec (v : Int → Option Rat) (t : Int) : ∀ (l : List Sample) (a : Int), GapFree a v l → a ≤ t →
    ∃ d : Nat, a + d = t ∧ (drain t l = l.drop d ∨ (l.length ≤ d ∧ drain t l = []))
  | [], a, _, hle => ⟨(t - a).toNat, by omega, Or.inl (by simp [drain])⟩
  | s :: r, a, h, hle => by
      have hs := h 0 s (by simp)
      unfold drain
      by_cases hlt : s.ts < t
      · rw [if_pos hlt]
        obtain ⟨d, hd, hdr⟩ := drain_spec v t r (a + 1) h.tail (by simp at hs; omega)
        refine ⟨d + 1, by push_cast; omega, ?_⟩
        rcases hdr with hdr | ⟨hl, hdr⟩
        · left; simpa using hdr
        · right; exact ⟨by simp; omega, hdr⟩
      · rw [if_neg hlt]
        refine ⟨0, by simp at hs; omega, Or.inl (by simp)⟩

theorem allReady_iff (n : Nat) (qs : Nat → List Sample) :
    allReady n qs = true ↔ ∀ i, i < n → qs i ≠ [] := by
  unfold allReady
  simp only [List.all_eq_true, List.mem_range, Bool.not_eq_true', List.isEmpty_eq_false_iff]

theorem allAt_iff (n : Nat) (t : Int) (qs : Nat → List Sample) :
    allAt n t qs = true ↔ ∀ i, i < n → qs i ≠ [] ∧ headTs (qs i) = t := by
  unfold allAt
  simp only [List.all_eq_true, List.mem_range, Bool.and_eq_true, Bool.not_eq_true',
    List.isEmpty_eq_false_iff, beq_iff_eq]

structure Inv (n : Nat) (f : List (Option Rat) → Option Rat) (t0 : Nat → Int) (src : Nat → Int → Option Rat)
    (σ : St) : Prop where
  hist : ∀ i, GapFree (t0 i) (src i) (σ.all i)
  first : σ.firstRun = true → σ.out = [] ∧ ∀ i, σ.qs i = σ.all i
  steady : σ.firstRun = false → ∀ i, i < n →
      ∃ d : Nat, d ≤ (σ.all i).length ∧ t0 i + d = maxStart n t0 + σ.out.length ∧ σ.qs i = (σ.all i).drop d
  outs : ∀ (r : Nat) (o : Sample), σ.out[r]? = some o →
      o = ⟨maxStart n t0 + r, f (valuesAt n src (maxStart n t0 + r))⟩

theorem inv_init (n : Nat) (f : List (Option Rat) → Option Rat) (t0 : Nat → Int) (src : Nat → Int → Option Rat) :
    Inv n f t0 src St.init := by
  refine ⟨?_, ?_, ?_, ?_⟩ <;> simp [St.init, GapFree]

theorem step_deliver (n : Nat) (f : List (Option Rat) → Option Rat) (σ : St) (i : Nat) (s : Sample) :
    step n f σ (.deliver i s) =
      { σ with qs := fun j => if j = i then σ.qs j ++ [s] else σ.qs j,
               all := fun j => if j = i then σ.all j ++ [s] else σ.all j } := rfl

theorem step_eval (n : Nat) (f : List (Option Rat) → Option Rat) (σ : St) (c : Nat) :
    step n f σ (.eval c) = (apply n f c σ).getD σ := rfl

theorem inv_deliver {n : Nat} {f : List (Option Rat) → Option Rat} {t0 : Nat → Int}
    {src : Nat → Int → Option Rat} {σ : St} (h : Inv n f t0 src σ) (i : Nat) (s : Sample)
    (ha : AdmEv n t0 src σ (.deliver i s)) : Inv n f t0 src (step n f σ (.deliver i s)) := by
  rw [step_deliver]
  obtain ⟨_, hts, hval⟩ := ha
  refine ⟨?_, ?_, ?_, ?_⟩ <;> dsimp only
  · intro j
    by_cases hj : j = i
    · rw [if_pos hj]
      intro k x hx
      rcases getElem?_append_cases _ _ _ _ hx with hx | ⟨rfl, rfl⟩
      · exact h.hist j k x hx
      · subst hj; exact ⟨hts, by rw [hval, hts]⟩
    · rw [if_neg hj]; exact h.hist j
  · intro hf
    obtain ⟨h1, h2⟩ := h.first hf
    refine ⟨h1, ?_⟩
    intro j
    by_cases hj : j = i
    · rw [if_pos hj, if_pos hj, h2 j]
    · rw [if_neg hj, if_neg hj]; exact h2 j
  · intro hf j hjn
    obtain ⟨d, hd, hdt, hq⟩ := h.steady hf j hjn
    by_cases hj : j = i
    · rw [if_pos hj, if_pos hj]
      refine ⟨d, by simp; omega, hdt, ?_⟩
      rw [drop_append_single _ _ _ hd, hq]
    · rw [if_neg hj, if_neg hj]; exact ⟨d, hd, hdt, hq⟩
  · exact h.outs

/-- Facts about the head of a non-empty suffix of a gap-free history. -/
theorem suffix_head {a : Int} {v : Int → Option Rat} {l : List Sample} (h : GapFree a v l) (d : Nat)
    (hne : l.drop d ≠ []) :
    headTs (l.drop d) = a + d ∧ headVal (l.drop d) = v (a + d) ∧ (l.drop d).tail = l.drop (d + 1) ∧
      d + 1 ≤ l.length := by
  cases hq : l.drop d with
  | nil => exact absurd hq hne
  | cons x r =>
    obtain ⟨hx, hr⟩ := drop_eq_cons l d x r hq
    obtain ⟨h1, h2⟩ := h d x hx
    have := lt_length_of_getElem? _ _ _ hx
    exact ⟨h1, h2, by simpa using hr.symm, by omega⟩

theorem inv_apply {n : Nat} {f : List (Option Rat) → Option Rat} {t0 : Nat → Int}
    {src : Nat → Int → Option Rat} {σ σ' : St} (hn : 0 < n) (h : Inv n f t0 src σ) (c : Nat)
    (hσ' : apply n f c σ = some σ') : Inv n f t0 src σ' := by
  unfold apply at hσ'
  by_cases hf : σ.firstRun = true
  · rw [if_pos hf] at hσ'
    unfold applyFirst at hσ'
    by_cases hr : allReady n σ.qs = true
    · rw [if_pos hr] at hσ'
      dsimp only at hσ'
      obtain ⟨hout, hqs⟩ := h.first hf
      have hne : ∀ i, i < n → σ.all i ≠ [] := by
        intro i hi; rw [← hqs i]; exact (allReady_iff n σ.qs).mp hr i hi
      have hhead : ∀ i, i < n → headTs (σ.qs i) = t0 i := by
        intro i hi
        have := suffix_head (h.hist i) 0 (by simpa using hne i hi)
        rw [hqs i]; simpa using this.1
      have hT : latestTs n σ.qs = maxStart n t0 := by
        unfold latestTs maxStart
        rw [hhead 0 hn]
        exact foldl_max_congr _ _ _ _ (fun i hi => hhead i (List.mem_range.mp hi))
      rw [hT] at hσ'
      by_cases hat : allAt n (maxStart n t0) (fun i => drain (maxStart n t0) (σ.qs i)) = true
      · rw [if_pos hat] at hσ'
        cases hσ'
        have hat' := (allAt_iff n _ _).mp hat
        -- every drained queue is the suffix starting at T0
        have hdr : ∀ i, i < n → ∃ d : Nat, t0 i + d = maxStart n t0 ∧
            drain (maxStart n t0) (σ.qs i) = (σ.all i).drop d ∧ (σ.all i).drop d ≠ [] := by
          intro i hi
          obtain ⟨d, hd, hcase⟩ := drain_spec (src i) (maxStart n t0) (σ.all i) (t0 i) (h.hist i)
            (maxStart_ge n t0 i hi)
          obtain ⟨hne', _⟩ := hat' i hi
          rw [hqs i] at hne' ⊢
          rcases hcase with hc | ⟨_, hc⟩
          · exact ⟨d, hd, hc, by rw [← hc]; exact hne'⟩
          · exact absurd hc hne'
        refine ⟨h.hist, ?_, ?_, ?_⟩ <;> dsimp only
        · intro hc; cases hc
        · intro _ i hi
          obtain ⟨d, hd, hdq, hne'⟩ := hdr i hi
          obtain ⟨_, _, htail, hlen⟩ := suffix_head (h.hist i) d hne'
          refine ⟨d + 1, hlen, ?_, ?_⟩
          · rw [hout]; simp; omega
          · unfold popAll; (try dsimp only); rw [hdq, htail]
        · intro r o ho
          rcases getElem?_append_cases _ _ _ _ ho with ho' | ⟨hr0, ho'⟩
          · rw [hout] at ho'; simp at ho'
          rw [hout] at hr0
          simp only [List.length_nil] at hr0
          subst hr0
          subst ho'
          simp only [Int.add_zero, Int.natCast_zero]
          congr 2
          unfold values valuesAt
          apply List.map_congr_left
          intro i hi
          have hi' := List.mem_range.mp hi
          obtain ⟨d, hd, hdq, hne'⟩ := hdr i hi'
          obtain ⟨_, hv, _, _⟩ := suffix_head (h.hist i) d hne'
          (try dsimp only)
          rw [hdq, hv, hd]
      · rw [if_neg hat] at hσ'; cases hσ'
    · rw [if_neg hr] at hσ'; cases hσ'
  · rw [if_neg hf] at hσ'
    have hf' : σ.firstRun = false := by cases hh : σ.firstRun <;> simp_all
    unfold applySteady at hσ'
    by_cases hr : allReady n σ.qs = true
    · rw [if_pos hr] at hσ'
      cases hσ'
      have hne := (allReady_iff n σ.qs).mp hr
      have hst : ∀ i, i < n → ∃ d : Nat, t0 i + d = maxStart n t0 + σ.out.length ∧
          σ.qs i = (σ.all i).drop d ∧ (σ.all i).drop d ≠ [] := by
        intro i hi
        obtain ⟨d, _, hdt, hq⟩ := h.steady hf' i hi
        exact ⟨d, hdt, hq, by rw [← hq]; exact hne i hi⟩
      refine ⟨h.hist, ?_, ?_, ?_⟩ <;> dsimp only
      · intro hc; rw [hf'] at hc; cases hc
      · intro _ i hi
        obtain ⟨d, hdt, hq, hne'⟩ := hst i hi
        obtain ⟨_, _, htail, hlen⟩ := suffix_head (h.hist i) d hne'
        refine ⟨d + 1, hlen, ?_, ?_⟩
        · simp; omega
        · unfold popAll; (try dsimp only); rw [hq, htail]
      · intro r o ho
        rcases getElem?_append_cases _ _ _ _ ho with ho | ⟨rfl, rfl⟩
        · exact h.outs r o ho
        · have hc : c % n < n := Nat.mod_lt _ hn
          obtain ⟨d, hdt, hq, hne'⟩ := hst (c % n) hc
          obtain ⟨hts, _, _, _⟩ := suffix_head (h.hist (c % n)) d hne'
          congr 1
          · rw [hq, hts, hdt]
          · congr 1
            unfold values valuesAt
            apply List.map_congr_left
            intro i hi
            have hi' := List.mem_range.mp hi
            obtain ⟨d', hdt', hq', hne''⟩ := hst i hi'
            obtain ⟨_, hv, _, _⟩ := suffix_head (h.hist i) d' hne''
            (try dsimp only)
            rw [hq', hv, hdt']
    · rw [if_neg hr] at hσ'; cases hσ'

theorem inv_step {n : Nat} {f : List (Option Rat) → Option Rat} {t0 : Nat → Int}
    {src : Nat → Int → Option Rat} {σ : St} (hn : 0 < n) (h : Inv n f t0 src σ) (e : Ev)
    (ha : AdmEv n t0 src σ e) : Inv n f t0 src (step n f σ e) := by
  cases e with
  | deliver i s => exact inv_deliver h i s ha
  | eval c =>
    rw [step_eval]
    cases hr : apply n f c σ with
    | none => exact h
    | some σ' => exact inv_apply hn h c hr

theorem inv_foldl {n : Nat} {f : List (Option Rat) → Option Rat} {t0 : Nat → Int}
    {src : Nat → Int → Option Rat} (hn : 0 < n) : ∀ (es : List Ev) (σ : St), Inv n f t0 src σ →
    AdmFrom n f t0 src σ es → Inv n f t0 src (es.foldl (step n f) σ)
  | [], _, h, _ => h
  | e :: es, σ, h, ha => inv_foldl hn es (step n f σ e) (inv_step hn h e ha.1) ha.2

theorem inv_run {n : Nat} {f : List (Option Rat) → Option Rat} {t0 : Nat → Int}
    {src : Nat → Int → Option Rat} (hn : 0 < n) (es : List Ev) (ha : AdmFrom n f t0 src St.init es) :
    Inv n f t0 src (run n f es) :=
  inv_foldl hn es St.init (inv_init n f t0 src) ha

end Evaluator
