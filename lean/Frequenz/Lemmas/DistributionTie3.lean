/-
"Model is source", part 3: the excess loop and the assembly of `_distribute_power` (`core`).
-/
import Frequenz.Lemmas.DistributionTie2

namespace DistTie
open Dist Extracted.Dist
open Extracted.DistLoops (Dict dictGet dictSet mapAccumItems Power AvRatio dictMaxByValue DistResult)

variable (key : Item → List Int)

theorem dictGet_mid {ν : Type} [Inhabited ν] (done tail : Dict (List Int) ν) (k : List Int) (v : ν)
    (h : k ∉ done.map (·.1)) : dictGet (done ++ (k, v) :: tail) k = v := by
  unfold dictGet
  induction done with
  | nil => simp
  | cons p ps ih =>
    simp only [List.map_cons, List.mem_cons, not_or] at h
    have : ¬ p.1 = k := fun e => h.1 e.symm
    simp only [List.cons_append, List.find?_cons, this, decide_false]
    exact ih h.2

theorem dictSet_mid {ν : Type} (done tail : Dict (List Int) ν) (k : List Int) (v v' : ν)
    (h1 : k ∉ done.map (·.1)) (h2 : k ∉ tail.map (·.1)) :
    dictSet (done ++ (k, v) :: tail) k v' = done ++ (k, v') :: tail := by
  rw [dictSet_present _ _ _ (by simp)]
  simp only [List.map_append, List.map_cons, if_true]
  rw [map_replace_fresh _ _ _ h1, map_replace_fresh _ _ _ h2]

/-- the third loop: every reserved excess is added to `distributed_power` and to the power of its group -/
theorem excess_eq_source (es : List Entry) (hnd : (es.map fun e => key e.it).Nodup) (done : Dict (List Int) Power)
    (hd : ∀ e ∈ es, key e.it ∉ done.map (·.1)) (D : Rat) :
    List.foldl Extracted.DistLoops.distributePower_for3 (done ++ distE key es, D) (excE key es) =
      (done ++ distOf (fun e => key e.it) (es.map slotOf), D + excessTotal es) := by
  induction es generalizing done D with
  | nil => simp [excE, distE, distOf, excessTotal, sumL, Rat.add_zero]
  | cons e rest ih =>
    simp only [List.map_cons, List.nodup_cons] at hnd
    have hk0 : key e.it ∉ done.map (·.1) := hd e List.mem_cons_self
    have hkr : key e.it ∉ (distE key rest).map (·.1) := by
      intro hm; apply hnd.1
      simpa [distE, List.map_map] using hm
    have hfresh : ∀ (v : Power), ∀ x ∈ rest, key x.it ∉ (done ++ [(key e.it, v)]).map (·.1) := by
      intro v x hx
      simp only [List.map_append, List.map_cons, List.map_nil, List.mem_append, List.mem_singleton, not_or]
      refine ⟨hd x (List.mem_cons_of_mem _ hx), fun hEq => hnd.1 ?_⟩
      rw [← hEq]; exact List.mem_map.mpr ⟨x, hx, rfl⟩
    cases hx : e.exc with
    | none =>
      have h1 : excE key (e :: rest) = excE key rest := by simp [excE, hx]
      have h2 : done ++ distE key (e :: rest) = (done ++ [(key e.it, ⟨e.ub, e.base⟩)]) ++ distE key rest := by
        simp [distE]
      rw [h1, h2, ih hnd.2 _ (hfresh _)]
      simp [distOf, slotOf, hx, powerOf, excessTotal]
    | some x =>
      have h1 : excE key (e :: rest) = (key e.it, x) :: excE key rest := by simp [excE, hx]
      have h2 : done ++ distE key (e :: rest) = done ++ (key e.it, ⟨e.ub, e.base⟩) :: distE key rest := by
        simp [distE]
      rw [h1, h2, List.foldl_cons]
      simp only [Extracted.DistLoops.distributePower_for3]
      rw [dictGet_mid _ _ _ _ hk0, dictSet_mid _ _ _ _ _ hk0 hkr]
      have h3 : done ++ (key e.it, ({ upper_bound := e.ub, power := e.base + x } : Power)) :: distE key rest =
          (done ++ [(key e.it, ⟨e.ub, e.base + x⟩)]) ++ distE key rest := by simp
      rw [h3, ih hnd.2 _ (hfresh _)]
      simp [distOf, slotOf, hx, powerOf, excessTotal, excessPowerInc, excessDistributedInc, sumL_cons, Rat.add_assoc]

/-! ## what the covering leaves untouched; what the greedy step leaves untouched -/

def coreOf (e : Entry) : Item × Rat × Rat := (e.it, e.ub, e.base)

theorem setFirst_core (lp v : Rat) (es : List Entry) : (setFirst lp v es).map coreOf = es.map coreOf := by
  induction es with
  | nil => rfl
  | cons e rest ih =>
    simp only [setFirst]
    by_cases h : e.exc = some lp <;> simp [h, ih, coreOf]

theorem coverLoop_core (n : Nat) (es : List Entry) (d : Rat) (a : Bool) :
    (coverLoop n es d a).1.map coreOf = es.map coreOf := by
  induction n generalizing es d a with
  | zero => rfl
  | succ n ih =>
    simp only [coverLoop]
    split_ifs <;> try rfl
    all_goals (cases hm : maxExc es <;> simp only [] <;> try rfl)
    all_goals (split_ifs <;> first | rfl | simp [setFirst_core] | (rw [ih]; simp [setFirst_core]))

theorem coverOne_core (P : Rat) (s : CS) (d0 : Rat) : (coverOne P s d0).es.map coreOf = s.es.map coreOf := by
  unfold coverOne
  simp only []
  split_ifs <;> exact coverLoop_core _ _ _ _

theorem coverFold_core (P : Rat) (ds : List Rat) (s : CS) : (ds.foldl (coverOne P) s).es.map coreOf = s.es.map coreOf := by
  induction ds generalizing s with
  | nil => rfl
  | cons d rest ih => simp only [List.foldl_cons]; rw [ih, coverOne_core]

theorem distE_of_core {es es' : List Entry} (h : es'.map coreOf = es.map coreOf) : distE key es' = distE key es := by
  have := congrArg (List.map fun c : Item × Rat × Rat => (key c.1, ({ upper_bound := c.2.1, power := c.2.2 } : Power))) h
  simp only [List.map_map] at this
  exact this

theorem its_of_core {es es' : List Entry} (h : es'.map coreOf = es.map coreOf) : es'.map (·.it) = es.map (·.it) := by
  have := congrArg (List.map fun c : Item × Rat × Rat => c.1) h
  simp only [List.map_map] at this
  exact this

theorem greedyGo_ens (rem : Rat) (ss : List Slot) : (greedyGo rem ss).1.map (·.en) = ss.map (·.en) := by
  induction ss generalizing rem with
  | nil => rfl
  | cons s rest ih =>
    simp only [greedyGo]
    split_ifs <;> simp [ih]

theorem greedy_ens (L : Rat) (ss : List Slot) : (greedy L ss).1.map (·.en) = ss.map (·.en) := by
  unfold greedy; split_ifs
  · rfl
  · exact greedyGo_ens _ _

theorem distOf_congr (k1 k2 : Entry → List Int) (ss : List Slot) (h : ∀ s ∈ ss, k1 s.en = k2 s.en) :
    distOf k1 ss = distOf k2 ss := by
  unfold distOf
  exact List.map_congr_left fun s hs => by rw [h s hs]

/-! ## `_distribute_power` after the availability ratios are known -/

/-- What the hypotheses of the assembly say about the data: the dict key of a group is the list of its inverter ids in
`frozenset` order (the model's input order), these keys and all inverter ids are pairwise distinct, the bound
dictionaries hold the per-inverter values of the model, and the inclusion bound computed from them is the item's. -/
structure DataOK (fsOrder : List Int → List Int) (ids : Item → List Int) (bid : Item → Int)
    (incl excl : Dict Int Rat) (items : List Item) : Prop where
  keyEq : ∀ it ∈ items, fsOrder (ids it) = idsOf it.ng.invs
  keysNodup : (items.map fun it => idsOf it.ng.invs).Nodup
  idsNodup : (items.flatMap fun it => idsOf it.ng.invs).Nodup
  lookups : ∀ it ∈ items, Lookups excl incl it.ng.invs
  ub : ∀ it ∈ items, pyMin (Extracted.DistLoops.sumL ((ids it).map fun i => dictGet incl i)) (dictGet incl (bid it)) = it.ub

theorem reserve_length (P S R U ρ : Rat) (items : List Item) : (reserve P S R U ρ items).length = items.length := by
  have := congrArg List.length (reserve_its P S R U ρ items); simpa using this

theorem cover_eq_fold (P : Rat) (es : List Entry) :
    cover P es = ((dfcE key es).map (·.2)).foldl (coverOne P) { es := es, D := sumL (es.map (·.dInc)), adjs := [], approx := false } := by
  rw [dfcE_values]; rfl

/-- `_distribute_power` (non-zero total ratio) is the model's `core`: same remainder, and the returned dictionary lists
the model's set-points group after group.  Fuel of the `while`: number of groups + 1. -/
theorem core_eq_source (m : Nat) (exponent : Nat) (fsOrder : List Int → List Int) (ids : Item → List Int) (bid : Item → Int)
    (incl excl avail : Dict Int Rat) (comps : List Extracted.DistLoops.Pair) (P S : Rat) (items : List Item)
    (hS : ¬ isCloseToZero S) (hok : DataOK fsOrder ids bid incl excl items)
    (hcomp : Extracted.DistLoops.computeBatteryAvailabilityRatio exponent comps avail excl =
      some (items.map (arOf ids bid), S)) :
    Extracted.DistLoops.distributePower exponent fsOrder (items.length + 1 + m) comps P avail incl excl =
      some { distribution := (core P S items).groups.flatMap (fun g => spsOf g.sps),
             remaining_power := (core P S items).rem } := by
  -- keys
  have hkeys : (items.map fun it => fsOrder (ids it)) = items.map fun it => idsOf it.ng.invs :=
    List.map_congr_left fun it hit => hok.keyEq it hit
  have hnd1 : (items.map fun it => fsOrder (ids it)).Nodup := by rw [hkeys]; exact hok.keysNodup
  have hits0 : (reserve P S 0 0 S items).map (·.it) = items := reserve_its P S 0 0 S items
  have hnd0 : ((reserve P S 0 0 S items).map fun e => (fun it => fsOrder (ids it)) e.it).Nodup := by
    have : ((reserve P S 0 0 S items).map fun e => (fun it => fsOrder (ids it)) e.it) = ((reserve P S 0 0 S items).map (·.it)).map (fun it => fsOrder (ids it)) := by simp [List.map_map]
    rw [this, hits0]; exact hnd1
  -- loop 1
  obtain ⟨R', U', ρ', hres⟩ := reserve_eq_source fsOrder ids bid incl P S items hok.ub [] 0 0 S 0 [] [] hnd1
    (fun it _ => by simp)
  -- loop 2
  have hlen : (reserve P S 0 0 S items).length + 1 + m = items.length + 1 + m := by rw [reserve_length]
  obtain ⟨kds', hcov⟩ := coverFold_eq_source (fun it => fsOrder (ids it)) m P (dfcE (fun it => fsOrder (ids it)) (reserve P S 0 0 S items))
    { es := (reserve P S 0 0 S items), D := sumL ((reserve P S 0 0 S items).map (·.dInc)), adjs := [], approx := false } hnd0
  rw [← cover_eq_fold] at hcov
  simp only [hlen] at hcov
  -- what the covering preserved
  have hcore : (cover P (reserve P S 0 0 S items)).es.map coreOf = (reserve P S 0 0 S items).map coreOf := by
    rw [cover_eq_fold (fun it => fsOrder (ids it))]; exact coverFold_core _ _ _
  have hndc : ((cover P (reserve P S 0 0 S items)).es.map fun e => (fun it => fsOrder (ids it)) e.it).Nodup := nodup_keys_of_its (fun it => fsOrder (ids it)) (its_of_core hcore) hnd0
  -- loop 3
  have hexc := excess_eq_source (fun it => fsOrder (ids it)) (cover P (reserve P S 0 0 S items)).es hndc [] (fun _ _ => by simp) (cover P (reserve P S 0 0 S items)).D
  rw [distE_of_core (fun it => fsOrder (ids it)) hcore] at hexc
  -- greedy and split
  have hgr := greedy_eq_source (fun e => (fun it => fsOrder (ids it)) e.it) (P - ((cover P (reserve P S 0 0 S items)).D + excessTotal (cover P (reserve P S 0 0 S items)).es)) ((cover P (reserve P S 0 0 S items)).es.map slotOf)
  have hens : (greedy (P - ((cover P (reserve P S 0 0 S items)).D + excessTotal (cover P (reserve P S 0 0 S items)).es)) ((cover P (reserve P S 0 0 S items)).es.map slotOf)).1.map (·.en) = (cover P (reserve P S 0 0 S items)).es := by
    rw [greedy_ens, List.map_map]
    exact (List.map_congr_left (fun e _ => (rfl : ((fun x : Slot => x.en) ∘ slotOf) e = id e))).trans (List.map_id _)
  have hmem : ∀ s ∈ (greedy (P - ((cover P (reserve P S 0 0 S items)).D + excessTotal (cover P (reserve P S 0 0 S items)).es)) ((cover P (reserve P S 0 0 S items)).es.map slotOf)).1, s.en.it ∈ items := by
    intro s hs
    have h1 : s.en ∈ (cover P (reserve P S 0 0 S items)).es := by rw [← hens]; exact List.mem_map.mpr ⟨s, hs, rfl⟩
    have h2 : s.en.it ∈ (cover P (reserve P S 0 0 S items)).es.map (·.it) := List.mem_map.mpr ⟨s.en, h1, rfl⟩
    rw [its_of_core hcore, hits0] at h2; exact h2
  have hcongr : distOf (fun e => (fun it => fsOrder (ids it)) e.it) (greedy (P - ((cover P (reserve P S 0 0 S items)).D + excessTotal (cover P (reserve P S 0 0 S items)).es)) ((cover P (reserve P S 0 0 S items)).es.map slotOf)).1 = distOf (fun e => idsOf e.it.ng.invs) (greedy (P - ((cover P (reserve P S 0 0 S items)).D + excessTotal (cover P (reserve P S 0 0 S items)).es)) ((cover P (reserve P S 0 0 S items)).es.map slotOf)).1 :=
    distOf_congr _ _ _ fun s hs => hok.keyEq _ (hmem s hs)
  have hidsnd : ((greedy (P - ((cover P (reserve P S 0 0 S items)).D + excessTotal (cover P (reserve P S 0 0 S items)).es)) ((cover P (reserve P S 0 0 S items)).es.map slotOf)).1.flatMap fun s => idsOf s.en.it.ng.invs).Nodup := by
    have : ((greedy (P - ((cover P (reserve P S 0 0 S items)).D + excessTotal (cover P (reserve P S 0 0 S items)).es)) ((cover P (reserve P S 0 0 S items)).es.map slotOf)).1.flatMap fun s => idsOf s.en.it.ng.invs) =
        ((greedy (P - ((cover P (reserve P S 0 0 S items)).D + excessTotal (cover P (reserve P S 0 0 S items)).es)) ((cover P (reserve P S 0 0 S items)).es.map slotOf)).1.map (·.en)).flatMap fun e => idsOf e.it.ng.invs := by simp [List.flatMap_map]
    rw [this, hens]
    have h2 : ((cover P (reserve P S 0 0 S items)).es.flatMap fun e => idsOf e.it.ng.invs) =
        ((cover P (reserve P S 0 0 S items)).es.map (·.it)).flatMap fun it => idsOf it.ng.invs := by simp [List.flatMap_map]
    rw [h2, its_of_core hcore, hits0]; exact hok.idsNodup
  have hsplit := split_eq_source excl incl (greedy (P - ((cover P (reserve P S 0 0 S items)).D + excessTotal (cover P (reserve P S 0 0 S items)).es)) ((cover P (reserve P S 0 0 S items)).es.map slotOf)).1 (fun s hs => hok.lookups _ (hmem s hs)) hidsnd
  -- put the pieces together
  simp only [List.nil_append] at hexc hres
  unfold Extracted.DistLoops.distributePower
  simp only [hcomp, hS, if_false]
  simp only [hres, List.nil_append, Rat.zero_add, hcov, hexc]
  simp only [hgr, hcongr, hsplit]
  simp only [core, hS, if_false, finalLeftOver, List.flatMap_map]

end DistTie
