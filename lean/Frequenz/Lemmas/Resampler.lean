/-
Lemmas about the tick machine of `Frequenz.Model.Resampler` (snapshot semantics) and about the extracted
alignment arithmetic.  Everything here holds for EVERY schedule (`List Event`), by induction.
-/
import Frequenz.Model.Resampler

set_option linter.unusedSimpArgs false

namespace Resampler

open Extracted.Resampling

/-- `[w, w + p, …]` (`n` entries). -/
def expected (w p : Int) (n : Nat) : List Int := (List.range n).map (fun (i : Nat) => w + (i : Int) * p)

theorem expected_succ (w p : Int) (n : Nat) : expected w p (n + 1) = w :: expected (w + p) p n := by
  unfold expected
  rw [List.range_succ_eq_map]
  simp only [List.map_cons, List.map_map]
  congr 1
  · simp
  · apply List.map_congr_left
    intro i _
    simp only [Function.comp]
    have : ((i + 1 : Nat) : Int) = (i : Int) + 1 := by omega
    rw [this, Int.add_mul]; omega

/-! ### alignment arithmetic (`calculateWindowEnd`, `firstTickTime`) -/

theorem windowEnd_none (now p : Int) : calculateWindowEnd now p none = (now + p, 0) := by
  simp [calculateWindowEnd]

theorem windowEnd_some_aligned (now p a : Int) (h : (now - a) % p = 0) :
    calculateWindowEnd now p (some a) = (now + p, 0) := by
  simp [calculateWindowEnd, h]

theorem windowEnd_some_unaligned (now p a : Int) (h : (now - a) % p ≠ 0) :
    calculateWindowEnd now p (some a) = (now + p * 2 - (now - a) % p, p - (now - a) % p) := by
  simp [calculateWindowEnd, h]

theorem windowEnd_on_grid (now p a : Int) : ((calculateWindowEnd now p (some a)).1 - a) % p = 0 := by
  by_cases h : (now - a) % p = 0
  · rw [windowEnd_some_aligned _ _ _ h]
    show (now + p - a) % p = 0
    have : now + p - a = (now - a) + p := by omega
    rw [this, Int.add_emod_right]; exact h
  · rw [windowEnd_some_unaligned _ _ _ h]
    show (now + p * 2 - (now - a) % p - a) % p = 0
    have hd := Int.mul_ediv_add_emod (now - a) p
    have : now + p * 2 - (now - a) % p - a = p * ((now - a) / p + 2) := by
      rw [Int.mul_add]; omega
    rw [this, Int.mul_emod_right]

theorem windowEnd_bounds (now p : Int) (al : Option Int) (hp : 0 < p) :
    now + p ≤ (calculateWindowEnd now p al).1 ∧ (calculateWindowEnd now p al).1 < now + 2 * p := by
  cases al with
  | none => rw [windowEnd_none]; simp; omega
  | some a =>
    by_cases h : (now - a) % p = 0
    · rw [windowEnd_some_aligned _ _ _ h]; simp; omega
    · rw [windowEnd_some_unaligned _ _ _ h]
      have h0 := Int.emod_nonneg (now - a) (Int.ne_of_gt hp)
      have h1 := Int.emod_lt_of_pos (now - a) hp
      simp only
      omega

theorem windowEnd_eq_of_aligned (now p a : Int) (h : (now - a) % p = 0) :
    (calculateWindowEnd now p (some a)).1 = now + p := by
  rw [windowEnd_some_aligned _ _ _ h]

theorem timer_due_at_windowEnd (now loopNow p : Int) (al : Option Int) :
    now + (firstTickTime loopNow p (calculateWindowEnd now p al).2 - loopNow) = (calculateWindowEnd now p al).1 := by
  cases al with
  | none => rw [windowEnd_none]; simp [firstTickTime]; omega
  | some a =>
    by_cases h : (now - a) % p = 0
    · rw [windowEnd_some_aligned _ _ _ h]; simp [firstTickTime]; omega
    · rw [windowEnd_some_unaligned _ _ _ h]; simp only [firstTickTime]; omega

/-! ### the tick machine, snapshot semantics -/

/-- The timestamp the next `tickStart` will hand out. -/
def nextTs (p : Int) (st : State) : Int := if st.inflight.isSome then st.windowEnd + p else st.windowEnd

theorem runWith_nil (snap : Bool) (p : Int) (st : State) : runWith snap p st [] = (st, []) := rfl

theorem runWith_cons (snap : Bool) (p : Int) (st : State) (e : Event) (es : List Event) :
    runWith snap p st (e :: es) =
      ((runWith snap p (stepWith snap p st e).1 es).1, (stepWith snap p st e).2 ++ (runWith snap p (stepWith snap p st e).1 es).2) := rfl

theorem runWith_append (snap : Bool) (p : Int) (st : State) (es₁ es₂ : List Event) :
    runWith snap p st (es₁ ++ es₂) =
      ((runWith snap p (runWith snap p st es₁).1 es₂).1,
       (runWith snap p st es₁).2 ++ (runWith snap p (runWith snap p st es₁).1 es₂).2) := by
  induction es₁ generalizing st with
  | nil => simp [runWith_nil]
  | cons e es ih => simp only [List.cons_append, runWith_cons, ih, List.append_assoc]

/-- Under snapshot semantics the loop task never dies, and the emitted timestamps are consecutive grid points. -/
theorem run_snapshot (p : Int) (es : List Event) (st : State) (hd : st.dead = false) :
    (runWith true p st es).1.dead = false ∧
    (runWith true p st es).2.map (·.ts) = expected (nextTs p st) p (runWith true p st es).2.length := by
  induction es generalizing st with
  | nil => simp [runWith_nil, expected, hd]
  | cons e es ih =>
    obtain ⟨w, ser, inf, dead⟩ := st
    simp only at hd
    subst hd
    rw [runWith_cons]
    cases e with
    | add s =>
      have := ih ⟨w, addSeries ser s, inf, false⟩ rfl
      simpa [stepWith, nextTs] using this
    | remove s =>
      have := ih ⟨w, removeSeries ser s, inf, false⟩ rfl
      simpa [stepWith, nextTs] using this
    | tickStart =>
      cases inf with
      | some n =>
        have := ih ⟨w, ser, some n, false⟩ rfl
        simpa [stepWith] using this
      | none =>
        have := ih ⟨w, ser, some ser.length, false⟩ rfl
        simp only [stepWith, Option.isSome_none, Bool.false_eq_true, if_false, List.singleton_append,
          List.map_cons, List.length_cons]
        refine ⟨this.1, ?_⟩
        rw [this.2, expected_succ]
        simp [nextTs]
    | tickEnd =>
      cases inf with
      | none =>
        have := ih ⟨w, ser, none, false⟩ rfl
        simpa [stepWith] using this
      | some n =>
        have := ih ⟨advanceWindowEnd w p, ser, none, false⟩ rfl
        simpa [stepWith, nextTs, advanceWindowEnd] using this

/-- `windowEnd` after a schedule = what the next tick will be stamped with, counted from the start. -/
theorem run_snapshot_nextTs (p : Int) (es : List Event) (st : State) (hd : st.dead = false) :
    nextTs p (runWith true p st es).1 = nextTs p st + ((runWith true p st es).2.length : Int) * p := by
  induction es generalizing st with
  | nil => simp [runWith_nil]
  | cons e es ih =>
    obtain ⟨w, ser, inf, dead⟩ := st
    simp only at hd
    subst hd
    rw [runWith_cons]
    cases e with
    | add s =>
      have := ih ⟨w, addSeries ser s, inf, false⟩ rfl
      simp only [stepWith, nextTs] at this ⊢
      exact this
    | remove s =>
      have := ih ⟨w, removeSeries ser s, inf, false⟩ rfl
      simp only [stepWith, nextTs] at this ⊢
      exact this
    | tickStart =>
      cases inf with
      | some n =>
        have := ih ⟨w, ser, some n, false⟩ rfl
        simp only [stepWith, Option.isSome_some, Option.isSome_none, if_true, Bool.false_eq_true, if_false,
          List.nil_append] at this ⊢
        exact this
      | none =>
        have := ih ⟨w, ser, some ser.length, false⟩ rfl
        simp only [stepWith, Option.isSome_none, Bool.false_eq_true, if_false, List.singleton_append,
          List.length_cons]
        rw [this]
        simp only [nextTs, Option.isSome_some, Option.isSome_none, if_true, Bool.false_eq_true, if_false]
        have h1 : (((runWith true p ⟨w, ser, some ser.length, false⟩ es).2.length + 1 : Nat) : Int)
            = ((runWith true p ⟨w, ser, some ser.length, false⟩ es).2.length : Int) + 1 := by omega
        rw [h1, Int.add_mul]; omega
    | tickEnd =>
      cases inf with
      | none =>
        have := ih ⟨w, ser, none, false⟩ rfl
        simp only [stepWith, Option.isSome_some, Option.isSome_none, if_true, Bool.false_eq_true, if_false,
          List.nil_append] at this ⊢
        exact this
      | some n =>
        have := ih ⟨advanceWindowEnd w p, ser, none, false⟩ rfl
        simp only [stepWith, nextTs, advanceWindowEnd, Option.isSome_some, Option.isSome_none, if_true,
          Bool.false_eq_true, if_false, List.nil_append] at this ⊢
        exact this

/-! ### who is registered -/

theorem mem_addSeries (l : List SeriesId) (s x : SeriesId) : x ∈ addSeries l s ↔ x = s ∨ x ∈ l := by
  unfold addSeries
  by_cases h : s ∈ l
  · simp only [h, if_true]
    constructor
    · intro hx; exact Or.inr hx
    · rintro (rfl | hx)
      · exact h
      · exact hx
  · simp only [h, if_false, List.mem_append, List.mem_singleton]
    constructor
    · rintro (hx | hx); exact Or.inr hx; exact Or.inl hx
    · rintro (hx | hx); exact Or.inr hx; exact Or.inl hx

theorem mem_removeSeries (l : List SeriesId) (s x : SeriesId) : x ∈ removeSeries l s ↔ x ∈ l ∧ x ≠ s := by
  simp [removeSeries]

theorem series_registered (snap : Bool) (p : Int) (x : SeriesId) (es : List Event) (st : State) :
    x ∈ (runWith snap p st es).1.series ↔ es.foldl (regStep x) (decide (x ∈ st.series)) = true := by
  induction es generalizing st with
  | nil => simp [runWith_nil]
  | cons e es ih =>
    rw [runWith_cons, List.foldl_cons, ih]
    have key : decide (x ∈ (stepWith snap p st e).1.series) = regStep x (decide (x ∈ st.series)) e := by
      cases e with
      | add s =>
        simp only [stepWith, regStep]
        by_cases hs : s = x
        · subst hs; simp [mem_addSeries]
        · have : ¬ x = s := fun h => hs h.symm
          simp [mem_addSeries, hs, this]
      | remove s =>
        simp only [stepWith, regStep]
        by_cases hs : s = x
        · subst hs; simp [mem_removeSeries]
        · have : ¬ x = s := fun h => hs h.symm
          simp [mem_removeSeries, hs, this]
      | tickStart =>
        simp only [stepWith, regStep]
        split <;> try rfl
        split <;> rfl
      | tickEnd =>
        simp only [stepWith, regStep]
        split <;> try rfl
        split <;> try rfl
        split <;> try rfl
        split <;> rfl
    rw [key]

end Resampler
