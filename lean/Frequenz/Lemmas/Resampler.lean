/-
Lemmas about the tick machine of `Frequenz.Model.Resampler` (snapshot semantics) and about the extracted
alignment arithmetic.  Everything here holds for EVERY schedule (`List Event`), by induction.
-/
import Frequenz.Model.Resampler

set_option linter.unusedSimpArgs false

namespace Resampler

open Extracted.Resampling

/-- `[w, w + p, …]` (`n` entries). -/
def expected (w p : Int) (n : Nat) : List Int := (List.range n).map (fun (i : Nat) => w + (i : Int) * p)

theorem expected_succ (w p : Int) (n : Nat) : expected w p (n + 1) = w :: expected (w + p) p n := by
  unfold expected
  rw [List.range_succ_eq_map]
  simp only [List.map_cons, List.map_map]
  congr 1
  · simp
  · apply List.map_congr_left
    intro i _
    simp only [Function.comp]
    have : ((i + 1 : Nat) : Int) = (i : Int) + 1 := by omega
    rw [this, Int.add_mul]; omega

/-! ### alignment arithmetic (`calculateWindowEnd`, `firstTickTime`)

The three characterisations below are proved by case analysis whatever shape the translated function has (the Python
source may be refactored without changing its behaviour); everything else only uses them. -/

/-- Closes the leaf goals after the case distinctions on `align_to` and on "is the creation on the grid". -/
macro "finish_leaf" : tactic =>
  `(tactic| first
      | rfl
      | (simp_all; done)
      | omega
      | (simp_all <;> omega)
      | (apply Prod.ext <;> simp_all <;> omega))

macro "finish_window" : tactic =>
  `(tactic| first
      | finish_leaf
      | ((repeat' split) <;> finish_leaf))

theorem windowEnd_none (now p : Int) : calculateWindowEnd now p none = (now + p, 0) := by
  unfold calculateWindowEnd
  finish_window

theorem windowEnd_some_aligned (now p a : Int) (h : (now - a) % p = 0) :
    calculateWindowEnd now p (some a) = (now + p, 0) := by
  unfold calculateWindowEnd
  finish_window

theorem windowEnd_some_unaligned (now p a : Int) (h : (now - a) % p ≠ 0) :
    calculateWindowEnd now p (some a) = (now + p * 2 - (now - a) % p, p - (now - a) % p) := by
  unfold calculateWindowEnd
  finish_window

theorem windowEnd_on_grid (now p a : Int) : ((calculateWindowEnd now p (some a)).1 - a) % p = 0 := by
  by_cases h : (now - a) % p = 0
  · rw [windowEnd_some_aligned _ _ _ h]
    show (now + p - a) % p = 0
    have : now + p - a = (now - a) + p := by omega
    rw [this, Int.add_emod_right]; exact h
  · rw [windowEnd_some_unaligned _ _ _ h]
    show (now + p * 2 - (now - a) % p - a) % p = 0
    have hd := Int.mul_ediv_add_emod (now - a) p
    have : now + p * 2 - (now - a) % p - a = p * ((now - a) / p + 2) := by
      rw [Int.mul_add]; omega
    rw [this, Int.mul_emod_right]

theorem windowEnd_bounds (now p : Int) (al : Option Int) (hp : 0 < p) :
    now + p ≤ (calculateWindowEnd now p al).1 ∧ (calculateWindowEnd now p al).1 < now + 2 * p := by
  cases al with
  | none => rw [windowEnd_none]; simp; omega
  | some a =>
    by_cases h : (now - a) % p = 0
    · rw [windowEnd_some_aligned _ _ _ h]; simp; omega
    · rw [windowEnd_some_unaligned _ _ _ h]
      have h0 := Int.emod_nonneg (now - a) (Int.ne_of_gt hp)
      have h1 := Int.emod_lt_of_pos (now - a) hp
      simp only
      omega

theorem windowEnd_eq_of_aligned (now p a : Int) (h : (now - a) % p = 0) :
    (calculateWindowEnd now p (some a)).1 = now + p := by
  rw [windowEnd_some_aligned _ _ _ h]

theorem timer_due_at_windowEnd (now loopNow p : Int) (al : Option Int) :
    now + (firstTickTime loopNow p (calculateWindowEnd now p al).2 - loopNow) = (calculateWindowEnd now p al).1 := by
  cases al with
  | none => rw [windowEnd_none]; simp [firstTickTime]; omega
  | some a =>
    by_cases h : (now - a) % p = 0
    · rw [windowEnd_some_aligned _ _ _ h]; simp [firstTickTime]; omega
    · rw [windowEnd_some_unaligned _ _ _ h]; simp only [firstTickTime]; omega

/-! ### the tick machine, snapshot semantics, window advanced also by ticks that end with an error -/

/-- The timestamp the next `tickStart` will hand out. -/
def nextTs (p : Int) (st : State) : Int := if st.inflight.isSome then st.windowEnd + p else st.windowEnd

theorem runWith_nil (snap advErr : Bool) (p : Int) (st : State) : runWith snap advErr p st [] = (st, []) := rfl

theorem runWith_cons (snap advErr : Bool) (p : Int) (st : State) (e : Event) (es : List Event) :
    runWith snap advErr p st (e :: es) =
      ((runWith snap advErr p (stepWith snap advErr p st e).1 es).1,
       (stepWith snap advErr p st e).2 ++ (runWith snap advErr p (stepWith snap advErr p st e).1 es).2) := rfl

/-- What one step does to the quantities the timeline depends on. -/
theorem step_effect (p : Int) (st : State) (e : Event) (hd : st.dead = false) :
    (stepWith true true p st e).1.dead = false ∧
    (((stepWith true true p st e).2 = [] ∧ nextTs p (stepWith true true p st e).1 = nextTs p st) ∨
     (∃ rc, (stepWith true true p st e).2 = [{ ts := nextTs p st, recipients := rc }] ∧
        nextTs p (stepWith true true p st e).1 = nextTs p st + p)) := by
  obtain ⟨w, ser, fl, inf, rs, stp, dead⟩ := st
  simp only at hd
  subst hd
  cases e with
  | add s =>
    by_cases h : s ∈ ser <;> simp [stepWith, nextTs, h]
  | remove s => simp [stepWith, nextTs] <;> rfl
  | fail s => simp [stepWith, nextTs] <;> rfl
  | restart rs' => simp [stepWith, nextTs] <;> rfl
  | tickStart =>
    cases stp <;> cases inf <;> simp [stepWith, nextTs]
  | tickEnd =>
    cases inf with
    | none => simp [stepWith, nextTs]
    | some n =>
      cases hr : rs.isEmpty <;> simp [stepWith, nextTs, advanceWindowEnd, hr]

/-- Under snapshot semantics the loop task never dies, and the emitted timestamps are consecutive grid points —
whatever fails, is removed or restarted in between. -/
theorem run_snapshot (p : Int) (es : List Event) (st : State) (hd : st.dead = false) :
    (runWith true true p st es).1.dead = false ∧
    (runWith true true p st es).2.map (·.ts) = expected (nextTs p st) p (runWith true true p st es).2.length ∧
    nextTs p (runWith true true p st es).1 = nextTs p st + ((runWith true true p st es).2.length : Int) * p := by
  induction es generalizing st with
  | nil => simp [runWith_nil, expected, hd]
  | cons e es ih =>
    rw [runWith_cons]
    obtain ⟨hd', heff⟩ := step_effect p st e hd
    obtain ⟨ih1, ih2, ih3⟩ := ih (stepWith true true p st e).1 hd'
    rcases heff with ⟨hout, hn⟩ | ⟨rc, hout, hn⟩
    · rw [hn] at ih2 ih3
      rw [hout]
      simp only [List.nil_append]
      exact ⟨ih1, ih2, ih3⟩
    · rw [hout]
      simp only [List.singleton_append, List.map_cons, List.length_cons]
      refine ⟨ih1, ?_, ?_⟩
      · rw [ih2, hn, expected_succ]
      · rw [ih3, hn]
        have h1 : (((runWith true true p (stepWith true true p st e).1 es).2.length + 1 : Nat) : Int)
            = ((runWith true true p (stepWith true true p st e).1 es).2.length : Int) + 1 := by omega
        rw [h1, Int.add_mul]; omega

/-! ### who is registered, who fails -/

theorem status_step (snap advErr : Bool) (p : Int) (x : SeriesId) (st : State) (e : Event) :
    (decide (x ∈ (stepWith snap advErr p st e).1.series), decide (x ∈ (stepWith snap advErr p st e).1.failing))
      = specStep x (decide (x ∈ st.series), decide (x ∈ st.failing)) e := by
  obtain ⟨w, ser, fl, inf, rs, stp, dead⟩ := st
  cases e with
  | add s =>
    by_cases hs : s = x
    · subst hs
      by_cases h : s ∈ ser <;> simp [stepWith, specStep, h]
    · have hx : ¬ x = s := fun h => hs h.symm
      by_cases h : s ∈ ser <;> simp [stepWith, specStep, h, hs, hx]
  | remove s =>
    by_cases hs : s = x
    · subst hs; simp [stepWith, specStep, removeSeries] <;> congr
    · have hx : ¬ x = s := fun h => hs h.symm
      simp [stepWith, specStep, removeSeries, hs, hx] <;> congr
  | fail s =>
    by_cases hs : s = x
    · subst hs; simp [stepWith, specStep] <;> congr
    · have hx : ¬ x = s := fun h => hs h.symm
      simp [stepWith, specStep, hs, hx] <;> congr
  | restart rs' =>
    by_cases hc : x ∈ rs' <;> simp [stepWith, specStep, hc]
  | tickStart =>
    simp only [stepWith, specStep]
    split <;> try rfl
    split <;> try rfl
    split <;> rfl
  | tickEnd =>
    simp only [stepWith, specStep]
    split <;> try rfl
    split <;> try rfl
    split <;> try rfl
    split <;> rfl

theorem series_status (snap advErr : Bool) (p : Int) (x : SeriesId) (es : List Event) (st : State) :
    (decide (x ∈ (runWith snap advErr p st es).1.series), decide (x ∈ (runWith snap advErr p st es).1.failing))
      = es.foldl (specStep x) (decide (x ∈ st.series), decide (x ∈ st.failing)) := by
  induction es generalizing st with
  | nil => rfl
  | cons e es ih => rw [runWith_cons, List.foldl_cons, ih, status_step]

end Resampler
