/-
Invariants of the Matryoshka sweep (`_calc_target_power`) and facts about the proposal order.
-/
import Frequenz.Model.Matryoshka
import Frequenz.Lemmas.Bounds

open BoundsLemmas

namespace Matryoshka

/-- Sweep invariant relative to a frame `[L, U]`: the running bounds never leave the frame and the
running target is inside the frame and zero-or-outside the exclusion zone. -/
structure Frame (L U : Rat) (ex : Option Bounds) (s : St) : Prop where
  lo : L ≤ s.lo
  hi : s.hi ≤ U
  tlo : L ≤ s.target
  thi : s.target ≤ U
  out : OutOrZero ex s.target

theorem pick_frame {L U : Rat} {ex : Option Bounds} {s : St} (hs : Frame L U ex s)
    (hle : s.lo ≤ s.hi) (pref : Rat) :
    L ≤ pick pref (Extracted.clampToBounds pref s.lo s.hi ex) s.target ∧
    pick pref (Extracted.clampToBounds pref s.lo s.hi ex) s.target ≤ U ∧
    OutOrZero ex (pick pref (Extracted.clampToBounds pref s.lo s.hi ex) s.target) := by
  have h1 := clamp_fst pref s.lo s.hi ex hle
  have h2 := clamp_snd pref s.lo s.hi ex hle
  obtain ⟨hlo, hhi, htl, hth, hout⟩ := hs
  generalize Extracted.clampToBounds pref s.lo s.hi ex = r at h1 h2
  obtain ⟨a, b⟩ := r
  cases a with
  | none =>
    cases b with
    | none => exact ⟨htl, hth, hout⟩
    | some y =>
      have := h2 y rfl
      exact ⟨Rat.le_trans hlo this.1, Rat.le_trans this.2.1 hhi, this.2.2⟩
  | some x =>
    have hx := h1 x rfl
    cases b with
    | none => exact ⟨Rat.le_trans hlo hx.1, Rat.le_trans hx.2.1 hhi, hx.2.2⟩
    | some y =>
      have hy := h2 y rfl
      simp only [pick]
      split
      · exact ⟨Rat.le_trans hlo hy.1, Rat.le_trans hy.2.1 hhi, hy.2.2⟩
      · exact ⟨Rat.le_trans hlo hx.1, Rat.le_trans hx.2.1 hhi, hx.2.2⟩

theorem step_frame {L U : Rat} {ex : Option Bounds} (h0 : L ≤ 0 ∧ 0 ≤ U) {s : St}
    (hs : Frame L U ex s) (p : Proposal) : Frame L U ex (step ex s p) := by
  unfold step
  by_cases hst : s.stopped = true
  · simp only [hst, if_true]; exact hs
  · simp only [hst, Bool.false_eq_true, if_false]
    by_cases hlt : s.hi < s.lo
    · simp only [hlt, if_true]; exact ⟨hs.lo, hs.hi, hs.tlo, hs.thi, hs.out⟩
    · simp only [hlt, if_false]
      have hle : s.lo ≤ s.hi := Rat.not_lt.mp hlt
      -- the new target
      have htgt : ∀ t, t = (match p.pref with
          | none => s.target
          | some pref => pick pref (Extracted.clampToBounds pref s.lo s.hi ex) s.target) →
          L ≤ t ∧ t ≤ U ∧ OutOrZero ex t := by
        intro t ht
        cases hp : p.pref with
        | none => rw [hp] at ht; subst ht; exact ⟨hs.tlo, hs.thi, hs.out⟩
        | some pref => rw [hp] at ht; subst ht; exact pick_frame hs hle pref
      have ht := htgt _ rfl
      split
      · exact ⟨hs.lo, hs.hi, ht.1, ht.2.1, ht.2.2⟩
      · have hL : L ≤ pyMax s.lo (p.lo.getD s.lo) := by
          have := hs.lo; unfold pyMax; grind
        have hU : pyMin s.hi (p.hi.getD s.hi) ≤ U := by
          have := hs.hi; unfold pyMin; grind
        have := adjust_within _ _ L U ex hL hU h0
        exact ⟨this.1, this.2, ht.1, ht.2.1, ht.2.2⟩

theorem foldl_step_frame {L U : Rat} {ex : Option Bounds} (h0 : L ≤ 0 ∧ 0 ≤ U)
    (ps : List Proposal) (s : St) (hs : Frame L U ex s) : Frame L U ex (ps.foldl (step ex) s) := by
  induction ps generalizing s with
  | nil => exact hs
  | cons p ps ih => exact ih _ (step_frame h0 hs p)

end Matryoshka
