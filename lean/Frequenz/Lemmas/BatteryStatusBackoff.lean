/-
Back-off, notifications-on-change and pool lemmas for C16.
-/
import Frequenz.Lemmas.BatteryStatusInv

namespace BatteryStatus
open Extracted.BatteryStatus

/-! ## Back-off -/

theorem backoffDur_zero {minD maxD : Int} (h : minD ≤ maxD) : backoffDur minD maxD 0 = minD := by
  simp only [backoffDur, Int.pow_zero, Int.one_mul]
  omega

theorem backoffDur_succ {minD maxD : Int} (h0 : 0 ≤ minD) (h : minD ≤ maxD) (k : Nat) :
    min (2 * backoffDur minD maxD k) maxD = backoffDur minD maxD (k + 1) := by
  simp only [backoffDur]
  have e : (2 : Int) ^ (k + 1) * minD = 2 * (2 ^ k * minD) := by
    rw [Int.pow_succ, Int.mul_comm (2 ^ k) 2, Int.mul_assoc]
  rw [e]
  generalize (2 : Int) ^ k * minD = X
  omega

/-- The tracker's `BlockingStatus` agrees with the closed-form automaton state `b`. -/
structure BkInv (minD maxD : Int) (bl : Blocking) (b : Option (Nat × Int)) : Prop where
  hmin : bl.minDuration = minD
  hmax : bl.maxDuration = maxD
  huntil : bl.blockedUntil = b.map (·.2)
  hdur : ∀ k u, b = some (k, u) → bl.lastBlockingDuration = backoffDur minD maxD k

theorem bk_init (maxAge maxBlk ts0 t0 : Int) :
    BkInv minBlockingDuration maxBlk (Tracker.new maxAge maxBlk ts0 t0).blocking none := by
  constructor <;> (unfold Tracker.new Blocking.new Blocking.postInit; c16_unfold_helpers <;> (try simp) <;> c16_leaf)

theorem bk_unblock {minD maxD : Int} {bl : Blocking} {b : Option (Nat × Int)} (h : BkInv minD maxD bl b) :
    BkInv minD maxD { bl with blockedUntil := none } none :=
  ⟨h.hmin, h.hmax, rfl, by simp⟩

theorem bk_block {minD maxD : Int} {bl : Blocking} {b : Option (Nat × Int)} (h : BkInv minD maxD bl b)
    (h0 : 0 ≤ minD) (hle : minD ≤ maxD) (now : Int) :
    BkInv minD maxD (blockRef bl now) (backoffFail minD maxD b now) := by
  unfold backoffFail
  cases b with
  | none =>
    have hu : bl.blockedUntil = none := by simpa using h.huntil
    simp only [blockRef, hu]
    refine ⟨h.hmin, h.hmax, ?_, ?_⟩
    · simp [backoffDur_zero hle, h.hmin]
    · intro k u hk
      simp only [Option.some.injEq, Prod.mk.injEq] at hk
      rw [← hk.1, backoffDur_zero hle]; exact h.hmin
  | some ku =>
    obtain ⟨k, u⟩ := ku
    have hu : bl.blockedUntil = some u := by simpa using h.huntil
    have hd := h.hdur k u rfl
    simp only [blockRef, hu]
    by_cases hlt : now < u
    · simp only [hlt, if_true]
      exact ⟨h.hmin, h.hmax, by simp [hu], fun k' u' hk => by
        simp only [Option.some.injEq, Prod.mk.injEq] at hk; rw [← hk.1]; exact hd⟩
    · simp only [hlt, if_false]
      have hnew : min (2 * bl.lastBlockingDuration) bl.maxDuration = backoffDur minD maxD (k + 1) := by
        rw [hd, h.hmax]; exact backoffDur_succ h0 hle k
      refine ⟨h.hmin, h.hmax, ?_, ?_⟩
      · simp [hnew]
      · intro k' u' hk
        simp only [Option.some.injEq, Prod.mk.injEq] at hk
        rw [← hk.1]; exact hnew

theorem bk_sp {minD maxD : Int} {s : Tracker} {b : Option (Nat × Int)} (h : BkInv minD maxD s.blocking b)
    (h0 : 0 ≤ minD) (hle : minD ≤ maxD) (now : Int) (r : SpResult) :
    BkInv minD maxD (spBlocking s now r) (backoffEvent minD maxD b s.lastStatus (.setPower now r)) := by
  unfold spBlocking backoffEvent
  by_cases hs : r.succeeded = true
  · simp only [hs, if_true]; exact bk_unblock h
  · simp only [hs, if_false]
    by_cases hf : r.failed = true ∧ s.lastStatus ≠ Status.notWorking
    · simp only [hf, and_self, if_true, ne_eq, not_false_eq_true]
      exact bk_block h h0 hle now
    · simp only [hf, if_false]; exact h

theorem bk_evalRef {minD maxD : Int} {s : Tracker} {b : Option (Nat × Int)} (h : BkInv minD maxD s.blocking b)
    (now : Int) :
    BkInv minD maxD (evalRef s now).1.blocking
      (if s.lastStatus = Status.notWorking ∧ (evalRef s now).1.lastStatus ≠ Status.notWorking then none else b) := by
  have hcs := curStatus_ne_nw s now
  have hb : (evalRef s now).1.blocking =
      if healthyB s = true ∧ s.lastStatus = Status.notWorking then { s.blocking with blockedUntil := none }
      else s.blocking := rfl
  rw [hb, evalRef_status]
  by_cases h1 : s.lastStatus = Status.notWorking <;> by_cases h2 : healthyB s = true
  · have : curStatus s now ≠ Status.notWorking := hcs.mpr h2
    simp only [h1, h2, this, and_self, if_true, ne_eq, not_false_eq_true]
    exact bk_unblock h
  · have : ¬ (curStatus s now ≠ Status.notWorking) := fun x => h2 (hcs.mp x)
    simp only [h1, h2, this, and_false, false_and, if_false]
    exact h
  · simp only [h1, false_and, and_false, if_false]
    exact h
  · simp only [h1, h2, false_and, and_false, if_false]
    exact h

theorem bk_step {minD maxD : Int} {s : Tracker} {b : Option (Nat × Int)} (h : BkInv minD maxD s.blocking b)
    (h0 : 0 ≤ minD) (hle : minD ≤ maxD) (e : Event) :
    BkInv minD maxD (step s e).1.blocking (backoffStep minD maxD b s.lastStatus (step s e).1.lastStatus e) := by
  unfold backoffStep
  cases e with
  | bat now m => rw [step_bat]; exact bk_evalRef (s := afterBat s now m) h now
  | inv now m => rw [step_inv]; exact bk_evalRef (s := afterInv s now m) h now
  | setPower now r =>
    rw [step_setPower]
    exact bk_evalRef (s := { s with blocking := spBlocking s now r }) (bk_sp h h0 hle now r) now
  | batTimer now =>
    rw [step_batTimer]
    by_cases hg : now - s.battery.lastMsgTimestamp < s.maxDataAge
    · rw [if_pos hg]
      have : ¬ (s.lastStatus = Status.notWorking ∧ s.lastStatus ≠ Status.notWorking) := fun x => x.2 x.1
      simp only [this, if_false, backoffEvent]; exact h
    · rw [if_neg hg]
      exact bk_evalRef (s := { s with battery := { s.battery with lastMsgCorrect := false } }) h now
  | invTimer now =>
    rw [step_invTimer]
    by_cases hg : now - s.inverter.lastMsgTimestamp < s.maxDataAge
    · rw [if_pos hg]
      have : ¬ (s.lastStatus = Status.notWorking ∧ s.lastStatus ≠ Status.notWorking) := fun x => x.2 x.1
      simp only [this, if_false, backoffEvent]; exact h
    · rw [if_neg hg]
      exact bk_evalRef (s := { s with inverter := { s.inverter with lastMsgCorrect := false } }) h now

theorem bk_run {minD maxD : Int} (h0 : 0 ≤ minD) (hle : minD ≤ maxD) (es : List Event) :
    ∀ {s : Tracker} {b : Option (Nat × Int)}, BkInv minD maxD s.blocking b →
      BkInv minD maxD (finalState s es).blocking (backoffRun minD maxD s b es) := by
  induction es with
  | nil => intro s b h; exact h
  | cons e es ih => intro s b h; exact ih (bk_step h h0 hle e)

theorem blockedB_map (b : Option (Nat × Int)) (now : Int) :
    blockedB (b.map (·.2)) now = true ↔ blockedAt b now := by
  cases b with
  | none => simp [blockedB, blockedAt]
  | some ku => obtain ⟨k, u⟩ := ku; simp [blockedB, blockedAt]

/-- After a re-evaluation, a battery that is not NOT_WORKING is UNCERTAIN exactly while the closed-form automaton
says it is blocked. -/
theorem uncertain_evalRef {s : Tracker} {b : Option (Nat × Int)} (now : Int)
    (hu : s.blocking.blockedUntil = b.map (·.2))
    (hne : (evalRef s now).1.lastStatus ≠ Status.notWorking) :
    (evalRef s now).1.lastStatus = Status.uncertain ↔
      blockedAt (if s.lastStatus = Status.notWorking ∧ (evalRef s now).1.lastStatus ≠ Status.notWorking
                 then none else b) now := by
  rw [evalRef_status] at hne ⊢
  have hh := (curStatus_ne_nw s now).mp hne
  by_cases h1 : s.lastStatus = Status.notWorking
  · have hc : curStatus s now = Status.working := by simp [curStatus, hh, h1]
    simp [h1, hne, hc, blockedAt]
  · have hb := blockedB_map b now
    rw [← hu] at hb
    simp only [h1, false_and, if_false]
    rw [← hb]
    by_cases hbl : blockedB s.blocking.blockedUntil now = true
    · simp [curStatus, hh, h1, hbl]
    · simp [curStatus, hh, h1, hbl]

theorem uncertain_step {minD maxD : Int} {s : Tracker} {b : Option (Nat × Int)} (h : BkInv minD maxD s.blocking b)
    (h0 : 0 ≤ minD) (hle : minD ≤ maxD) (e : Event) (hre : Reevaluates s e)
    (hne : (step s e).1.lastStatus ≠ Status.notWorking) :
    (step s e).1.lastStatus = Status.uncertain ↔
      blockedAt (backoffStep minD maxD b s.lastStatus (step s e).1.lastStatus e) e.now := by
  unfold backoffStep
  cases e with
  | bat now m =>
    rw [step_bat] at hne ⊢
    exact uncertain_evalRef (s := afterBat s now m) now h.huntil hne
  | inv now m =>
    rw [step_inv] at hne ⊢
    exact uncertain_evalRef (s := afterInv s now m) now h.huntil hne
  | setPower now r =>
    rw [step_setPower] at hne ⊢
    exact uncertain_evalRef (s := { s with blocking := spBlocking s now r }) now (bk_sp h h0 hle now r).huntil hne
  | batTimer now =>
    have hg : ¬ (now - s.battery.lastMsgTimestamp < s.maxDataAge) := hre
    rw [step_batTimer, if_neg hg] at hne ⊢
    exact uncertain_evalRef (s := { s with battery := { s.battery with lastMsgCorrect := false } }) now h.huntil hne
  | invTimer now =>
    have hg : ¬ (now - s.inverter.lastMsgTimestamp < s.maxDataAge) := hre
    rw [step_invTimer, if_neg hg] at hne ⊢
    exact uncertain_evalRef (s := { s with inverter := { s.inverter with lastMsgCorrect := false } }) now h.huntil hne

/-! ## Notifications only on change -/

theorem on_change (es : List Event) : ∀ s : Tracker, AdjDistinct s.lastStatus (notifications s es) := by
  induction es with
  | nil => intro s; simp [notifications, outputs, AdjDistinct]
  | cons e es ih =>
    intro s
    have hs := step_out s e
    have ih' := ih (step s e).1
    simp only [notifications, outputs] at ih' ⊢
    cases ho : (step s e).2 with
    | none =>
      rw [ho] at hs
      simp only [List.filterMap_cons, id]
      rw [← hs]; exact ih'
    | some x =>
      rw [ho] at hs
      simp only [List.filterMap_cons, id]
      refine ⟨fun hc => hs.1 hc.symm, ?_⟩
      rw [← hs.2]; exact ih'

/-! ## Pool -/

theorem mem_setInter (a b : List Nat) (x : Nat) : x ∈ setInter a b ↔ x ∈ a ∧ x ∈ b := by
  simp [setInter, List.mem_filter]

theorem mem_setAdd (a : List Nat) (y x : Nat) : x ∈ setAdd a y ↔ x ∈ a ∨ y = x := by
  unfold setAdd
  by_cases h : y ∈ a
  · simp only [List.contains_iff_mem, h, if_true]
    constructor
    · exact Or.inl
    · intro hx; cases hx with
      | inl hx => exact hx
      | inr hx => subst hx; exact h
  · simp only [List.contains_iff_mem, h, if_false, List.mem_append, List.mem_singleton]
    constructor
    · intro hx; cases hx with
      | inl hx => exact Or.inl hx
      | inr hx => exact Or.inr hx.symm
    · intro hx; cases hx with
      | inl hx => exact Or.inl hx
      | inr hx => exact Or.inr hx.symm

theorem mem_setDiscard (a : List Nat) (y x : Nat) : x ∈ setDiscard a y ↔ x ∈ a ∧ y ≠ x := by
  simp only [setDiscard, List.mem_filter, bne_iff_ne, ne_eq]
  constructor
  · intro h; exact ⟨h.1, fun hc => h.2 hc.symm⟩
  · intro h; exact ⟨h.1, fun hc => h.2 hc.symm⟩

theorem pool_selection (p : PoolStatus) (req : List Nat) (x : Nat) :
    x ∈ PoolStatus.getWorkingComponents p 0 req ↔
      x ∈ req ∧ (x ∈ p.working ∨ (x ∈ p.uncertain ∧ ∀ y, y ∈ req → y ∉ p.working)) := by
  -- semantic case distinction: is a working component requested?
  by_cases hnil : setInter p.working req = []
  · have hnone : ∀ y, y ∈ req → y ∉ p.working := by
      intro y hy hyw
      have : y ∈ setInter p.working req := (mem_setInter _ _ _).mpr ⟨hyw, hy⟩
      rw [hnil] at this; simp at this
    have hval : PoolStatus.getWorkingComponents p 0 req = setInter p.uncertain req := by
      unfold PoolStatus.getWorkingComponents
      c16_unfold_helpers <;> (try simp [hnil]) <;> c16_leaf
    rw [hval, mem_setInter]
    constructor
    · intro h; exact ⟨h.2, Or.inr ⟨h.1, hnone⟩⟩
    · intro h
      cases h.2 with
      | inl hx => exact absurd hx (hnone x h.1)
      | inr hx => exact ⟨hx.1, h.1⟩
  · have hpos : 0 < (setInter p.working req).length := List.length_pos_iff.mpr hnil
    have hne : (setInter p.working req).length ≠ 0 := by omega
    have hval : PoolStatus.getWorkingComponents p 0 req = setInter p.working req := by
      unfold PoolStatus.getWorkingComponents
      c16_unfold_helpers <;> (try simp [hnil, hpos, hne]) <;> c16_leaf
    rw [hval, mem_setInter]
    constructor
    · intro h; exact ⟨h.2, Or.inl h.1⟩
    · intro h
      cases h.2 with
      | inl hx => exact ⟨hx, h.1⟩
      | inr hx =>
        exfalso
        obtain ⟨y, hy⟩ := List.exists_mem_of_length_pos hpos
        rw [mem_setInter] at hy
        exact hx.2 y hy.2 hy.1

/-- The pool's sets mirror the latest notification of every component. -/
def PoolTracks (p : Pool) (f : Nat → Option Status) : Prop :=
  ∀ x, (x ∈ p.currentStatus.working ↔ f x = some Status.working) ∧
       (x ∈ p.currentStatus.uncertain ↔ f x = some Status.uncertain)

theorem pool_step {p : Pool} {f : Nat → Option Status} (h : PoolTracks p f) (c : CompStatus) :
    PoolTracks (Pool.updateStatus p 0 c).1 (fun x => if c.componentId = x then some c.value else f x) ∧
      (Pool.updateStatus p 0 c).2 = some (Pool.updateStatus p 0 c).1.currentStatus := by
  obtain ⟨id, v⟩ := c
  cases v <;> refine ⟨?_, by first | rfl | (unfold Pool.updateStatus; c16_unfold_helpers <;> (try simp) <;> c16_leaf)⟩ <;>
    intro x <;> have hx := h x <;> unfold Pool.updateStatus <;> c16_unfold_helpers <;>
    by_cases hid : id = x <;> simp_all [mem_setAdd, mem_setDiscard]

theorem pool_run (cs : List CompStatus) : ∀ {p : Pool} {f : Nat → Option Status}, PoolTracks p f →
    PoolTracks (poolRun p cs)
      (fun x => cs.foldl (fun acc c => if c.componentId = x then some c.value else acc) (f x)) := by
  induction cs with
  | nil => intro p f h; exact h
  | cons c cs ih =>
    intro p f h
    exact ih (pool_step h c).1

theorem pool_init : PoolTracks Pool.new (fun _ => none) := by
  intro x; simp [Pool.new]

/-! ## Decidability (for the concrete witnesses and non-vacuity examples) -/

instance decAdmissible : ∀ (es : List Event) (s : Tracker) (t : Int), Decidable (Admissible s t es)
  | [], _, _ => isTrue trivial
  | e :: es, s, t => by
      unfold Admissible
      have := decAdmissible es (astep s e).1 e.now
      exact inferInstance

instance (s : Tracker) (a b : Int) : Decidable (Observable s a b) := by unfold Observable; infer_instance

instance (healthy : Msg → Prop) [DecidablePred healthy] (maxAge t : Int) (byTs : Bool) :
    ∀ o : Option (Int × Msg), Decidable (StreamOk healthy maxAge t byTs o)
  | none => isFalse (fun h => h)
  | some (a, m) => by unfold StreamOk; infer_instance

instance : DecidablePred BatHealthy := fun m => inferInstance
instance : DecidablePred InvHealthy := fun m => inferInstance

instance : ∀ o : Option (Int × Msg), Decidable (TsIsArrival o)
  | none => isTrue trivial
  | some (a, m) => by unfold TsIsArrival; infer_instance

instance : ∀ o : Option (Int × Msg), Decidable (TsNotFuture o)
  | none => isTrue trivial
  | some (a, m) => by unfold TsNotFuture; infer_instance

end BatteryStatus
