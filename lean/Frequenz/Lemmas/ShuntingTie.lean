/-
The hand-written model of the formula engine's builder / evaluator (`Frequenz.Model.Shunting`) is EQUAL, for all
arguments, to the machine translation of the current source text (`Frequenz.Extracted.FormulaLoops`, regenerated on
every run).

Loops are translated to `pyLoop step fuel state` where `step` is ONE iteration.  The proofs never look at the shape of
the loop body: they use the generic lemma `pyLoop_eq` (a loop whose iteration either makes progress towards what the
model computes, or leaves with it, computes it — given enough fuel), and discharge its hypothesis by case analysis.
-/
import Frequenz.Model.Shunting
import Frequenz.Extracted.FormulaLoops
import Mathlib.Tactic.SplitIfs
import Mathlib.Tactic.CasesM

namespace ShuntingTie

set_option linter.unusedTactic false
set_option linter.unusedSimpArgs false
set_option linter.unusedVariables false

open Formula Extracted.FormulaLoops
open Extracted.Formula (prec)

/-- One loop iteration either continues with a state of smaller measure on which the model agrees, or leaves the
loop with the model's result: then the loop computes the model's result, with any fuel above the measure. -/
theorem pyLoop_eq {σ ρ : Type} (step : σ → σ ⊕ ρ) (model : σ → ρ) (μ : σ → Nat)
    (h : ∀ s, match step s with
      | .inl s' => μ s' < μ s ∧ model s = model s'
      | .inr r => r = model s) :
    ∀ n s, μ s < n → pyLoop step n s = some (model s) := by
  intro n
  induction n with
  | zero => intro s hs; omega
  | succ n ih =>
    intro s hs
    have hs' := h s
    unfold pyLoop
    split at hs' <;> rename_i heq <;> simp only [heq]
    · rw [ih _ (by omega), hs'.2]
    · rw [hs']

macro "st_leaf" : tactic =>
  `(tactic| first
    | with_reducible rfl
    | (simp_all; done)
    | omega
    | grind)

macro "st_split" : tactic =>
  `(tactic| (repeat' split) <;> st_leaf)

theorem popLoop_nil (o : Op) (steps : List Step) : popLoop o [] steps = ([], steps) := rfl

theorem popLoop_cons (o p : Op) (rest : List Op) (steps : List Step) :
    popLoop o (p :: rest) steps =
      if prec o < prec p then (p :: rest, steps)
      else if o = .rp ∧ p = .lp then (rest, steps)
      else if p = .lp then (p :: rest, steps)
      else popLoop o rest (steps ++ [.op p]) := by
  conv => lhs; unfold popLoop

/-- The specification the translation of `push_oper` is compared with: exactly `Formula.pushOper` on the two lists. -/
def pushOperSpec (o : Op) (stack : List Op) (steps : List Step) : List Op × List Step :=
  ((pushOper { stack := stack, steps := steps } o).stack, (pushOper { stack := stack, steps := steps } o).steps)

/-- Discharge `pyLoop_eq`'s hypothesis for the pop loop of operator `o`, then finish. -/
macro "pop_loop" o:term : tactic =>
  `(tactic| (
    try rw [pyLoop_eq _ (fun s => popLoop $o s.1 s.2) (fun s => s.1.length)
      (by
        rintro ⟨st, sp⟩
        rcases st with _ | ⟨q, r⟩ <;> simp only [popLoop_nil, popLoop_cons] <;>
          cases q <;> simp (config := { decide := true }) [Extracted.Formula.prec] <;> st_split)
      _ _ (by simp only [List.length_cons]; omega)]
    try simp only [Option.getD_some, popLoop_nil, popLoop_cons]
    all_goals try st_split))

/-- One operator: unfold its translation, split on the build stack, use `pop_loop`. -/
macro "push_case" f:ident o:term:max stack:ident : tactic =>
  `(tactic| (
    unfold $f
    rcases $stack:ident with _ | ⟨p, rest⟩ <;>
      simp only [ne_eq, reduceCtorEq, not_false_eq_true, not_true_eq_false, and_true, and_false, and_self,
        if_true, if_false, List.cons_ne_nil] <;>
      try pop_loop $o))

/-- **(a) `FormulaBuilder.push_oper`** (guard, pop loop, push): the translation equals `Formula.pushOper`. -/
theorem pushOper_eq (o : Op) (stack : List Op) (steps : List Step) :
    Extracted.FormulaLoops.pushOper o stack steps = pushOperSpec o stack steps := by
  unfold pushOperSpec Formula.pushOper
  cases o <;> unfold Extracted.FormulaLoops.pushOper <;> simp only []
  · push_case pushOper_max Op.max stack
  · push_case pushOper_min Op.min stack
  · push_case pushOper_cons Op.cons stack
  · push_case pushOper_prod Op.prod stack
  · push_case pushOper_lp Op.lp stack
  · push_case pushOper_div Op.div stack
  · push_case pushOper_mul Op.mul stack
  · push_case pushOper_sub Op.sub stack
  · push_case pushOper_add Op.add stack
  · push_case pushOper_rp Op.rp stack

/-- **(b) `FormulaBuilder.finalize`**: the build stack is drained, top first, onto the steps. -/
theorem finalize_eq (stack : List Op) (steps : List Step) :
    Extracted.FormulaLoops.finalize stack steps = ([], Formula.finalize { stack := stack, steps := steps }) := by
  unfold Extracted.FormulaLoops.finalize Formula.finalize
  simp only []
  try rw [pyLoop_eq _ (fun s => (([] : List Op), s.2 ++ s.1.map Step.op)) (fun s => s.1.length)
    (by
      rintro ⟨st, sp⟩
      rcases st with _ | ⟨q, r⟩ <;> simp <;> st_split)
    _ _ (by simp only []; omega)]
  try simp only [Option.getD_some]
  all_goals try st_split

/-- **(c) `push_metric` / `push_constant` / `push_clipper`**. -/
theorem pushMetric_eq (b : Builder) (n : Nat) (z : Bool) :
    Extracted.FormulaLoops.pushMetric b.fetchers b.steps n z =
      ((Formula.pushMetric b n z).fetchers, (Formula.pushMetric b n z).steps) ∧
    (Formula.pushMetric b n z).stack = b.stack := by
  unfold Extracted.FormulaLoops.pushMetric Formula.pushMetric
  refine ⟨?_, ?_⟩
  · cases h : lookupFetcher b.fetchers n <;> simp only [] <;> st_split
  · split <;> rfl

theorem pushConstClip_eq (b : Builder) (c : Rat) (lo hi : Option Rat) :
    Extracted.FormulaLoops.pushConstant b.steps c = (pushTok b (.const c)).steps ∧
    Extracted.FormulaLoops.pushClipper b.steps lo hi = (pushTok b (.clip lo hi)).steps := by
  unfold Extracted.FormulaLoops.pushConstant Extracted.FormulaLoops.pushClipper pushTok
  exact ⟨by st_split, by st_split⟩

/-- The monadic version of `pyLoop_eq` (`Except`): an iteration continues with a smaller state on which the model
agrees, leaves with the model's result, or raises what the model raises. -/
theorem pyLoopM_eq {ε σ ρ : Type} (step : σ → Except ε (σ ⊕ ρ)) (model : σ → Except ε ρ) (μ : σ → Nat)
    (h : ∀ s, match step s with
      | .ok (.inl s') => μ s' < μ s ∧ model s = model s'
      | .ok (.inr r) => model s = .ok r
      | .error e => model s = .error e) :
    ∀ n s, μ s < n → pyLoopM step n s = (model s).map some := by
  intro n
  induction n with
  | zero => intro s hs; omega
  | succ n ih =>
    intro s hs
    have hs' := h s
    unfold pyLoopM
    split at hs' <;> rename_i heq <;> simp only [heq, bind, Except.bind, pure, Except.pure]
    · rw [ih _ (by omega), hs'.2]
    · rw [hs']; rfl
    · rw [hs']; rfl

/-- **(e) `MetricFetcher.apply`** pushes `Formula.fetch`. -/
theorem metricFetcherApply_eq (z : Bool) (inp : Inp) (st : List V) :
    metricFetcherApply z inp st = fetch z inp :: st := by
  unfold metricFetcherApply fetch PyF.lit PyF.nan
  cases inp <;> cases z <;> simp only [] <;> st_split

theorem exec_nil (env : Env) (st : List V) : exec env [] st = .ok st := rfl

theorem exec_cons (env : Env) (x : Step) (xs : List Step) (st : List V) :
    exec env (x :: xs) st = (applyStep env x st >>= exec env xs) := rfl

/-- **(f) `FormulaEvaluator.apply`** (loop over the steps, size check, pop, final test) = `Formula.run`, the dynamic
dispatch `step.apply` being `Formula.applyStep env`. -/
theorem evaluatorApply_eq (steps : List Step) (env : Env) :
    evaluatorApply (applyStep env) steps = run steps env := by
  unfold evaluatorApply run
  simp only []
  rw [pyLoopM_eq _ (fun s => (exec env s.1 s.2).map (fun st => (([] : List Step), st))) (fun s => s.1.length)
    (by
      rintro ⟨xs, st⟩
      rcases xs with _ | ⟨x, xs⟩
      · simp only [exec_nil, exec_cons, Except.map]
        all_goals st_split
      · simp only [exec_nil, exec_cons, Except.map]
        cases h : applyStep env x st <;> simp only [bind, Except.bind, Except.map, List.length_cons] <;>
          all_goals st_split)
    _ _ (by simp only []; omega)]
  cases h : exec env steps [] with
  | error e => simp [Except.map, bind, Except.bind]
  | ok st =>
    simp only [Except.map, bind, Except.bind, Option.getD_some]
    unfold emitValue Extracted.Formula.resultIsNone ofV PyF.isnanC PyF.isinfC PyF.isnan
    rcases st with _ | ⟨v, _ | ⟨w, rest⟩⟩ <;> simp only [List.length_nil, List.length_cons] <;>
      first
        | (cases v <;> simp <;> done)
        | (simp <;> done)
        | st_split

/-! ### (g) the composition API: `_BaseHOFormulaBuilder.__init__ / _push / consumption / production` -/

/-- A deque element as the token `HigherOrderFormulaBuilder.build(…, nones_are_zeros=z)` pushes for it. -/
def tokOfH (z : Bool) : HTok → Tok
  | .metric n => .metric n z
  | .const c => .const c
  | .oper o => .oper o

/-- The Python class of a constant operand that `_push` accepts for the operator. -/
def constOperand (o : BinOp) (c : Rat) : Operand :=
  match o with
  | .mul | .div => .scalar c
  | _ => .quantity c

/-- Replay of an `HO` expression with the TRANSLATED methods (`none` = a `RuntimeError` on the way). -/
def hoSrc : HO → Option (List HTok)
  | .start n => hoInit n
  | .pushEng b o n => (hoSrc b).bind fun s => hoPush o s (.engine n)
  | .pushConst b o c => (hoSrc b).bind fun s => hoPush o s (constOperand o c)
  | .pushB b o r => (hoSrc b).bind fun s => (hoSrc r).bind fun t => hoPush o s (.builder t)
  | .un b u => (hoSrc b).bind fun s => hoUnary u s

macro "ho_ops" : tactic =>
  `(tactic| (simp only [hoPush, hoPush_add, hoPush_sub, hoPush_mul, hoPush_div, hoPush_max, hoPush_min, hoUnary,
      hoInit, constOperand, BinOp.toOp, UnOp.toOp, Option.map_some, Option.some.injEq, List.map_append, List.map_cons,
      List.map_nil, tokOfH, List.nil_append, List.cons_append, List.append_assoc, List.append_nil,
      List.singleton_append]))

/-- **(g)** the deque built by the translated methods is, token by token, the model's `HO.toks` — and no operation of
an `HO` expression raises. -/
theorem hoSrc_toks (z : Bool) (h : HO) : (hoSrc h).map (List.map (tokOfH z)) = some (h.toks z) := by
  induction h with
  | start n => unfold hoSrc HO.toks; ho_ops <;> st_split
  | pushEng b o n ih =>
    obtain ⟨s, hs, hm⟩ := Option.map_eq_some_iff.mp ih
    unfold hoSrc HO.toks
    rw [hs, ← hm]
    cases o <;> simp only [Option.bind_some] <;> ho_ops <;> st_split
  | pushConst b o c ih =>
    obtain ⟨s, hs, hm⟩ := Option.map_eq_some_iff.mp ih
    unfold hoSrc HO.toks
    rw [hs, ← hm]
    cases o <;> simp only [Option.bind_some] <;> ho_ops <;> st_split
  | pushB b o r ihb ihr =>
    obtain ⟨s, hs, hm⟩ := Option.map_eq_some_iff.mp ihb
    obtain ⟨t, ht, hn⟩ := Option.map_eq_some_iff.mp ihr
    unfold hoSrc HO.toks
    rw [hs, ht, ← hm, ← hn]
    cases o <;> simp only [Option.bind_some] <;> ho_ops <;> st_split
  | un b u ih =>
    obtain ⟨s, hs, hm⟩ := Option.map_eq_some_iff.mp ih
    unfold hoSrc HO.toks
    rw [hs, ← hm]
    cases u <;> simp only [Option.bind_some] <;> ho_ops <;> st_split

/-- Which right operands `_push` accepts (everything else is a `RuntimeError`): engines and builders always, a
`Quantity` for `+ - max min`, a `float`/`int` for `* /`. -/
def pushAccepts (o : BinOp) : Operand → Bool
  | .engine _ => true
  | .builder _ => true
  | .quantity _ => match o with | .mul | .div => false | _ => true
  | .scalar _ => match o with | .mul | .div => true | _ => false
  | .other => false

theorem hoPush_isSome (o : BinOp) (s : List HTok) (x : Operand) : (hoPush o s x).isSome = pushAccepts o x := by
  cases o <;> cases x <;> ho_ops <;> simp only [pushAccepts] <;> st_split

/-! ### The builder assembled ONLY from translated methods -/

/-- One pushed token, through the translated `push_metric` / `push_constant` / `push_oper` / `push_clipper`. -/
def srcPushTok (b : Builder) : Tok → Builder
  | .metric n z =>
    { b with fetchers := (Extracted.FormulaLoops.pushMetric b.fetchers b.steps n z).1,
             steps := (Extracted.FormulaLoops.pushMetric b.fetchers b.steps n z).2 }
  | .const c => { b with steps := Extracted.FormulaLoops.pushConstant b.steps c }
  | .oper o =>
    { b with stack := (Extracted.FormulaLoops.pushOper o b.stack b.steps).1,
             steps := (Extracted.FormulaLoops.pushOper o b.stack b.steps).2 }
  | .clip lo hi => { b with steps := Extracted.FormulaLoops.pushClipper b.steps lo hi }

/-- `FormulaBuilder` fed a token list, then `finalize()`: only translated code. -/
def srcBuild (toks : List Tok) : List Step :=
  (Extracted.FormulaLoops.finalize (toks.foldl srcPushTok {}).stack (toks.foldl srcPushTok {}).steps).2

theorem srcPushTok_eq (b : Builder) (t : Tok) : srcPushTok b t = pushTok b t := by
  obtain ⟨stack, steps, fetchers⟩ := b
  cases t with
  | metric n z =>
    have h := pushMetric_eq ⟨stack, steps, fetchers⟩ n z
    simp only [srcPushTok, pushTok, h.1]
    cases hb : Formula.pushMetric ⟨stack, steps, fetchers⟩ n z
    have := h.2; rw [hb] at this; simp only at this; subst this; rfl
  | const c =>
    have h := (pushConstClip_eq ⟨stack, steps, fetchers⟩ c none none).1
    simp only [srcPushTok, h]; rfl
  | oper o =>
    have h := pushOper_eq o stack steps
    simp only [srcPushTok, h, pushOperSpec]
    unfold pushTok Formula.pushOper
    simp only []
    split <;> rfl
  | clip lo hi =>
    have h := (pushConstClip_eq ⟨stack, steps, fetchers⟩ 0 lo hi).2
    simp only [srcPushTok, h]; rfl

/-- **`Formula.build` = the builder of the current source text** ((a) + (b) + (c) composed). -/
theorem build_eq_source (toks : List Tok) : build toks = srcBuild toks := by
  unfold build srcBuild
  have hf : srcPushTok = pushTok := by funext b t; exact srcPushTok_eq b t
  rw [hf]
  cases hb : toks.foldl pushTok {} with
  | mk stack steps fetchers => rw [finalize_eq]; rfl

/-- `hoBuild` (the composition API) = translated deque operations, then the translated builder. -/
theorem hoBuild_eq_source (h : HO) (z : Bool) :
    (hoSrc h).map (fun d => srcBuild (d.map (tokOfH z))) = some (hoBuild h z) := by
  have := hoSrc_toks z h
  obtain ⟨s, hs, hm⟩ := Option.map_eq_some_iff.mp this
  rw [hs]; simp only [Option.map_some, hm, hoBuild, build_eq_source]

/-! ### (d) the tokenizer: `Tokenizer.__next__`, `_read_unsigned_int` -/

/-- The maximal prefix of decimal digits and the rest. -/
def spanDigits : List Char → List Char × List Char
  | [] => ([], [])
  | c :: cs => if c.isDigit then ((c :: (spanDigits cs).1), (spanDigits cs).2) else ([], c :: cs)

/-- `_read_unsigned_int`: nothing at the end of the input, `ValueError` before a non-digit, otherwise the digits. -/
def readSpec : List Char → Except TokErr (List Char × List Char)
  | [] => .ok ([], [])
  | c :: cs => if c.isDigit then .ok (spanDigits (c :: cs)) else .error .valueError

/-- What the loop of `_read_unsigned_int` computes from a state (stream, result, first_char). -/
def readModel (s : List Char × List Char × Bool) : Except TokErr (List Char × List Char × Bool) :=
  match s.1 with
  | [] => .ok s
  | c :: _ =>
    if c.isDigit then .ok ((spanDigits s.1).2, s.2.1 ++ (spanDigits s.1).1, false)
    else if s.2.2 then .error .valueError else .ok s

/-- Variant: the loop runs while the next character is a digit and remembers the character it stopped at. -/
def readModelB (s : List Char × List Char × Option Char) : Except TokErr (List Char × List Char × Option Char) :=
  .ok ((spanDigits s.1).2, s.2.1 ++ (spanDigits s.1).1, (spanDigits s.1).2.head?)

/-- Variant: no flag — a non-digit is an error exactly while nothing has been read. -/
def readModelC (s : List Char × List Char) : Except TokErr (List Char × List Char) :=
  match s.1 with
  | [] => .ok s
  | c :: _ =>
    if c.isDigit then .ok ((spanDigits s.1).2, s.2 ++ (spanDigits s.1).1)
    else if s.2 = [] then .error .valueError else .ok s

theorem readUnsignedInt_eq (rest : List Char) : readUnsignedInt rest = readSpec rest := by
  first
  | (
    unfold readUnsignedInt
    simp only []
    rw [pyLoopM_eq _ readModel (fun s => s.1.length)
      (by
        rintro ⟨cs, res, first⟩
        rcases cs with _ | ⟨c, cs⟩
        · simp only [readModel]
          all_goals st_split
        · simp only [readModel]
          by_cases hc : c.isDigit = true <;> simp only [hc, if_true, if_false, Bool.false_eq_true]
          · refine ⟨by simp, ?_⟩
            rcases cs with _ | ⟨d, cs⟩
            · simp [spanDigits, hc]
            · by_cases hd : d.isDigit = true <;> simp [hd, hc, spanDigits]
          · cases first <;> simp)
      _ _ (by simp only []; omega)]
    rcases rest with _ | ⟨c, cs⟩ <;> simp only [readModel, readSpec, Except.map]
    · rfl
    · by_cases hc : c.isDigit = true <;> simp [hc])
  | (
    unfold readUnsignedInt
    simp only []
    rw [pyLoopM_eq _ readModelB (fun s => s.1.length)
      (by
        rintro ⟨cs, res, ch⟩
        rcases cs with _ | ⟨c, cs⟩
        · simp [readModelB, spanDigits]
        · simp only [readModelB]
          by_cases hc : c.isDigit = true <;> simp [hc, spanDigits])
      _ _ (by simp only []; omega)]
    rcases rest with _ | ⟨c, cs⟩
    · simp [readModelB, readSpec, Except.map, spanDigits]
    · by_cases hc : c.isDigit = true
      · simp only [readModelB, readSpec, Except.map, spanDigits, hc, if_true, Option.getD_some, List.nil_append]
        cases h : (spanDigits cs).2 <;> simp
      · simp [readModelB, readSpec, Except.map, spanDigits, hc])
  | (
    unfold readUnsignedInt
    simp only []
    rw [pyLoopM_eq _ readModelC (fun s => s.1.length)
      (by
        rintro ⟨cs, res⟩
        rcases cs with _ | ⟨c, cs⟩
        · simp [readModelC]
        · simp only [readModelC]
          by_cases hc : c.isDigit = true
          · simp only [hc, if_true]
            refine ⟨by simp, ?_⟩
            rcases cs with _ | ⟨d, cs⟩
            · simp [spanDigits, hc]
            · by_cases hd : d.isDigit = true <;> simp [hd, hc, spanDigits]
          · rcases res with _ | ⟨x, xs⟩ <;> simp [hc])
      _ _ (by simp only []; omega)]
    rcases rest with _ | ⟨c, cs⟩ <;> simp only [readModelC, readSpec, Except.map]
    · rfl
    · by_cases hc : c.isDigit = true <;> simp [hc])

/-- `Tokenizer.__next__`: skip whitespace; an operator character is a token; `#` starts a metric token; anything else
is a `ValueError`; the end of the input is `StopIteration`. -/
def nextSpec : List Char → Except TokErr (RawTok × List Char)
  | [] => .error .stopIteration
  | c :: cs =>
    if isWs c then nextSpec cs
    else if isOperChar c then .ok (.oper c, cs)
    else if c = Extracted.Formula.metricChar then (readSpec cs).map (fun r => (.metric r.1, r.2))
    else .error .valueError

/-- What the loop of `__next__` computes from the remaining characters: (characters left, the token if one was returned). -/
def nextModel (s : List Char) : Except TokErr (List Char × Option RawTok) :=
  match nextSpec s with
  | .ok (t, r) => .ok (r, some t)
  | .error .stopIteration => .ok ([], none)
  | .error .valueError => .error .valueError

theorem readSpec_err {cs : List Char} {a : TokErr} (h : readSpec cs = .error a) : a = .valueError := by
  rcases cs with _ | ⟨c, cs⟩
  · simp [readSpec] at h
  · simp only [readSpec] at h
    split_ifs at h <;> simp_all

theorem mem_chars (c : Char) (l : List Char) : (l.contains c = true) = (c ∈ l) := by simp

/-- Variant: the loop only skips whitespace (remembering the last character read, and whether it left by `break`). -/
def skipWs : List Char → Char → (List Char × Char) × Bool
  | [], ch => (([], ch), false)
  | c :: cs, ch => if isWs c then skipWs cs c else ((cs, c), true)

theorem skipWs_notws (rest : List Char) : ∀ (ch : Char) (r : List Char) (c : Char),
    skipWs rest ch = ((r, c), true) → isWs c = false := by
  induction rest with
  | nil => intro ch r c h; simp [skipWs] at h
  | cons d ds ih =>
    intro ch r c h
    simp only [skipWs] at h
    split_ifs at h with hd
    · exact ih _ _ _ h
    · simp only [Prod.mk.injEq, and_true] at h; rw [← h.2]; simpa using hd

theorem nextSpec_skip (rest : List Char) : ∀ ch : Char,
    nextSpec rest =
      match skipWs rest ch with
      | ((r, c), true) =>
        if isOperChar c then .ok (.oper c, r)
        else if c = Extracted.Formula.metricChar then (readSpec r).map (fun x => (.metric x.1, x.2))
        else .error .valueError
      | (_, false) => .error .stopIteration := by
  induction rest with
  | nil => intro ch; simp [nextSpec, skipWs]
  | cons d ds ih =>
    intro ch
    simp only [nextSpec, skipWs]
    by_cases hd : isWs d = true
    · simp only [hd, if_true]; exact ih d
    · have hd' : isWs d = false := by simpa using hd
      simp only [hd', Bool.false_eq_true, if_false]

theorem nextToken_eq (rest : List Char) : nextToken rest = nextSpec rest := by
  first
  | (
    unfold nextToken
    simp only [readUnsignedInt_eq]
    rw [pyLoopM_eq _ nextModel (fun s => s.length)
      (by
        intro s
        rcases s with _ | ⟨c, cs⟩
        · simp only [nextModel, nextSpec]
          all_goals st_split
        · -- the character is whitespace / an operator / the marker / something else: decided per concrete character
          have hrs : ∀ a, readSpec cs = .error a → a = .valueError := fun a h => readSpec_err h
          by_cases hw : isWs c = true
          · have hw' := hw
            simp only [isWs, Extracted.Formula.wsChars, mem_chars, List.mem_cons, List.not_mem_nil, or_false] at hw'
            simp only [nextModel, nextSpec, hw, if_true]
            casesm* _ ∨ _ <;> subst_vars <;> simp (config := { decide := true }) only [if_true, if_false, List.contains_cons,
              List.contains_nil, Bool.or_false, Bool.or_true, Bool.true_or, beq_self_eq_true, List.length_cons] <;>
              first | (refine ⟨by omega, ?_⟩; rfl) | (simp; done) | st_split
          · have hw' : isWs c = false := by simpa using hw
            by_cases ho : isOperChar c = true
            · have ho' := ho
              simp only [isOperChar, Extracted.Formula.operChars, mem_chars, List.mem_cons, List.not_mem_nil, or_false] at ho'
              simp only [nextModel, nextSpec, hw', ho, if_true, if_false, Bool.false_eq_true]
              casesm* _ ∨ _ <;> subst_vars <;> simp (config := { decide := true }) only [if_true, if_false, List.contains_cons,
                List.contains_nil, Bool.or_false, Bool.or_true, Bool.true_or, beq_self_eq_true] <;>
                first | rfl | (simp; done) | st_split
            · have ho' : isOperChar c = false := by simpa using ho
              by_cases hm : c = Extracted.Formula.metricChar
              · subst hm
                simp only [nextModel, nextSpec, hw', ho', if_true, if_false, Bool.false_eq_true]
                simp (config := { decide := true }) only [Extracted.Formula.metricChar, if_true, if_false, List.contains_cons,
                  List.contains_nil, Bool.or_false, Bool.or_true, Bool.true_or, beq_self_eq_true, readUnsignedInt_eq]
                cases hr : readSpec cs with
                | error a => have := hrs a hr; subst this; simp [Except.map]
                | ok v => simp [Except.map]
              · simp only [nextModel, nextSpec, hw', ho', hm, if_true, if_false, Bool.false_eq_true]
                simp only [isWs, isOperChar, Extracted.Formula.wsChars, Extracted.Formula.operChars,
                  Extracted.Formula.metricChar, mem_chars, List.mem_cons, List.not_mem_nil, or_false, not_or,
                  Bool.eq_false_iff, ne_eq] at hw hw' ho ho' hm
                simp_all)
      _ _ (by first | (simp only []; omega) | omega | simp)]
    simp only [nextModel]
    cases h : nextSpec rest with
    | error e => cases e <;> simp [Except.map]
    | ok v => obtain ⟨t, r⟩ := v; simp [Except.map])
  | (
    unfold nextToken
    simp only [readUnsignedInt_eq]
    rw [pyLoopM_eq _ (fun s => .ok (skipWs s.1 s.2)) (fun s => s.1.length)
      (by
        rintro ⟨cs, ch⟩
        rcases cs with _ | ⟨c, cs⟩
        · simp [skipWs]
        · by_cases hw : isWs c = true
          · have hw' := hw
            simp only [isWs, Extracted.Formula.wsChars, mem_chars, List.mem_cons, List.not_mem_nil, or_false] at hw'
            simp only [skipWs, hw, if_true]
            casesm* _ ∨ _ <;> subst_vars <;> simp (config := { decide := true })
          · have hw' : isWs c = false := by simpa using hw
            simp only [skipWs, hw', Bool.false_eq_true, if_false]
            simp only [isWs, Extracted.Formula.wsChars, mem_chars, List.mem_cons, List.not_mem_nil, or_false, not_or,
              Bool.eq_false_iff, ne_eq] at hw hw'
            simp_all)
      _ _ (by first | (simp only []; omega) | omega | simp)]
    rw [nextSpec_skip rest (Char.ofNat 0)]
    cases h : skipWs rest (Char.ofNat 0) with
    | mk rc b =>
      obtain ⟨r, c⟩ := rc
      cases b
      · simp [Except.map]
      · have hws := skipWs_notws rest _ r c h
        simp only [Except.map, Option.getD_some, if_true]
        by_cases ho : isOperChar c = true
        · have ho' := ho
          simp only [isOperChar, Extracted.Formula.operChars, mem_chars, List.mem_cons, List.not_mem_nil, or_false] at ho'
          simp only [ho, if_true]
          casesm* _ ∨ _ <;> subst_vars <;> simp (config := { decide := true })
        · have ho' : isOperChar c = false := by simpa using ho
          by_cases hm : c = Extracted.Formula.metricChar
          · subst hm
            simp only [ho', Bool.false_eq_true, if_false, if_true]
            simp (config := { decide := true }) only [Extracted.Formula.metricChar, if_true, if_false]
            cases hr : readSpec r with
            | error a => have := readSpec_err hr; subst this; simp [Except.map]
            | ok v => simp [Except.map]
          · simp only [ho', hm, Bool.false_eq_true, if_false]
            simp only [isOperChar, Extracted.Formula.operChars, Extracted.Formula.metricChar, mem_chars, List.mem_cons,
              List.not_mem_nil, or_false, not_or, Bool.eq_false_iff, ne_eq] at ho ho' hm
            simp_all)

/-! #### Model side: `tokGo` (a three-mode automaton) run along `nextSpec` -/

theorem digit_not_special (c : Char) (h : c.isDigit = true) :
    isWs c = false ∧ isOperChar c = false ∧ c ≠ Extracted.Formula.metricChar := by
  have hw : ∀ d ∈ Extracted.Formula.wsChars, d.isDigit = false := by decide
  have ho : ∀ d ∈ Extracted.Formula.operChars, d.isDigit = false := by decide
  have hm : Extracted.Formula.metricChar.isDigit = false := by decide
  refine ⟨?_, ?_, ?_⟩
  · cases hc : isWs c
    · rfl
    · have := hw c (by simpa [isWs] using hc); simp [h] at this
  · cases hc : isOperChar c
    · rfl
    · have := ho c (by simpa [isOperChar] using hc); simp [h] at this
  · intro e; subst e; simp [h] at hm

theorem tokGo_top_cons (c : Char) (cs : List Char) :
    tokGo .top (c :: cs) =
      if c.isDigit then none
      else if isWs c then tokGo .top cs
      else if isOperChar c then (tokGo .top cs).map (fun r => .oper c :: r)
      else if c = Extracted.Formula.metricChar then tokGo .hash cs
      else none := by
  rw [tokGo]
  split_ifs <;> simp [Option.map_id']

theorem tokGo_num (cs : List Char) : ∀ ds : List Char,
    tokGo (.num ds) cs =
      (tokGo .top (spanDigits cs).2).map (fun r => .metric (ds ++ (spanDigits cs).1) :: r) := by
  induction cs with
  | nil => intro ds; simp [tokGo, spanDigits]
  | cons c cs ih =>
    intro ds
    by_cases hc : c.isDigit = true
    · rw [tokGo]; simp only [hc, if_true, spanDigits]
      rw [ih]; simp
    · have hc' : c.isDigit = false := by simpa using hc
      simp only [spanDigits, hc', Bool.false_eq_true, if_false, List.append_nil]
      rw [tokGo_top_cons]
      conv => lhs; rw [tokGo]
      simp only [hc', Bool.false_eq_true, if_false]
      split_ifs <;> simp [Option.map_map, Function.comp_def]

theorem tokGo_hash (cs : List Char) :
    tokGo .hash cs =
      match readSpec cs with
      | .ok (ds, r) => (tokGo .top r).map (fun x => .metric ds :: x)
      | .error _ => none := by
  rcases cs with _ | ⟨c, cs⟩
  · simp [tokGo, readSpec]
  · by_cases hc : c.isDigit = true
    · rw [tokGo]; simp only [hc, if_true, readSpec]
      rw [tokGo_num]; simp [spanDigits, hc]
    · have hc' : c.isDigit = false := by simpa using hc
      rw [tokGo]; simp [hc', readSpec]

/-- One token of `tokGo` = one call of `nextSpec`. -/
theorem tokGo_top_step (rest : List Char) :
    tokGo .top rest =
      match nextSpec rest with
      | .ok (t, r) => (tokGo .top r).map (fun x => t :: x)
      | .error .stopIteration => some []
      | .error .valueError => none := by
  induction rest with
  | nil => simp [tokGo, nextSpec]
  | cons c cs ih =>
    rw [tokGo_top_cons, nextSpec]
    by_cases hd : c.isDigit = true
    · obtain ⟨h1, h2, h3⟩ := digit_not_special c hd
      simp [hd, h1, h2, h3]
    · have hd' : c.isDigit = false := by simpa using hd
      simp only [hd', Bool.false_eq_true, if_false]
      by_cases hw : isWs c = true
      · simp only [hw, if_true]; exact ih
      · have hw' : isWs c = false := by simpa using hw
        simp only [hw', Bool.false_eq_true, if_false]
        by_cases ho : isOperChar c = true
        · simp [ho]
        · have ho' : isOperChar c = false := by simpa using ho
          simp only [ho', Bool.false_eq_true, if_false]
          by_cases hm : c = Extracted.Formula.metricChar
          · simp only [hm, if_true]
            rw [tokGo_hash]
            cases hr : readSpec cs with
            | error a => have := readSpec_err hr; subst this; simp [Except.map]
            | ok v => obtain ⟨ds, r⟩ := v; simp [Except.map]
          · simp [hm]

theorem spanDigits_length (cs : List Char) : (spanDigits cs).2.length ≤ cs.length := by
  induction cs with
  | nil => simp [spanDigits]
  | cons c cs ih => simp only [spanDigits]; split_ifs <;> simp <;> omega

theorem nextSpec_shrinks (rest : List Char) (t : RawTok) (r : List Char) (h : nextSpec rest = .ok (t, r)) :
    r.length < rest.length := by
  induction rest with
  | nil => simp [nextSpec] at h
  | cons c cs ih =>
    rw [nextSpec] at h
    split_ifs at h with h1 h2 h3
    · have := ih h; simp; omega
    · simp at h; obtain ⟨_, rfl⟩ := h; simp
    · rcases cs with _ | ⟨d, cs⟩
      · simp [readSpec, Except.map] at h; obtain ⟨_, rfl⟩ := h; simp
      · simp only [readSpec] at h
        split_ifs at h
        · simp [Except.map] at h
          obtain ⟨_, rfl⟩ := h
          have := spanDigits_length (d :: cs)
          simp at this ⊢; omega
        · simp [Except.map] at h

/-- `list(Tokenizer(formula))`: `__next__` (the TRANSLATED one) until `StopIteration`; `none` = `ValueError`. -/
def srcTokens : Nat → List Char → Option (List RawTok)
  | 0, _ => none
  | n + 1, rest =>
    match nextToken rest with
    | .ok (t, r) => (srcTokens n r).map (fun x => t :: x)
    | .error .stopIteration => some []
    | .error .valueError => none

/-- **(d) the tokenizer**: iterating the translated `Tokenizer.__next__` is `Formula.tokenize`. -/
theorem tokenize_eq_source (s : List Char) : tokenize s = srcTokens (s.length + 1) s := by
  unfold tokenize
  suffices H : ∀ n (rest : List Char), rest.length < n → srcTokens n rest = tokGo .top rest from (H _ _ (by omega)).symm
  intro n
  induction n with
  | zero => intro rest h; omega
  | succ n ih =>
    intro rest h
    rw [srcTokens, nextToken_eq, tokGo_top_step]
    cases hn : nextSpec rest with
    | error e => cases e <;> rfl
    | ok v =>
      obtain ⟨t, r⟩ := v
      have := nextSpec_shrinks rest t r hn
      simp only []
      rw [ih r (by omega)]

end ShuntingTie
