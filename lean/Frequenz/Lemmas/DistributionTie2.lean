/-
"Model is source", part 2: the reservation loop, the deficit-covering `while`, the deficit / excess loops of
`_distribute_power` and their assembly (`core`).
-/
import Frequenz.Lemmas.DistributionTie
import Frequenz.Lemmas.Distribution
import Mathlib.Tactic.SplitIfs

namespace DistTie
open Dist Extracted.Dist
open Extracted.DistLoops (Dict dictGet dictSet mapAccumItems Power AvRatio dictMaxByValue)

/-! ## dict views of the model's entries -/

variable (key : Item → List Int)

def distE (es : List Entry) : Dict (List Int) Power := es.map fun e => (key e.it, { upper_bound := e.ub, power := e.base })
def excE (es : List Entry) : Dict (List Int) Rat := es.filterMap fun e => e.exc.map fun x => (key e.it, x)
def dfcE (es : List Entry) : Dict (List Int) Rat := es.filterMap fun e => e.dfc.map fun x => (key e.it, x)

/-- the `AvailabilityRatio` record of a model item (`ids`: the sorted id list, `bid`: the battery id) -/
def arOf (ids : Item → List Int) (bid : Item → Int) (it : Item) : AvRatio :=
  { battery_id := bid it, inverter_ids := ids it, ratio := it.ratio, min_power := it.minP }

theorem sumL_cons (x : Rat) (xs : List Rat) : sumL (x :: xs) = x + sumL xs := rfl

theorem mkEntry_it (it : Item) (c : Rat) : (mkEntry it c).it = it := by
  unfold mkEntry; split_ifs <;> rfl

theorem reserve_its (P S R U ρ : Rat) (items : List Item) : (reserve P S R U ρ items).map (·.it) = items := by
  induction items generalizing R U ρ with
  | nil => simp [reserve]
  | cons it rest ih =>
    simp only [reserve]
    by_cases h : tailCond ρ
    · simp [h, tailEntry, ih]
    · simp [h, ih, mkEntry_it]

theorem excE_keys_sub (es : List Entry) : ∀ k ∈ (excE key es).map (·.1), k ∈ es.map (fun e => key e.it) := by
  intro k hk
  simp only [excE, List.mem_map, List.mem_filterMap] at hk
  obtain ⟨p, ⟨e, he, hp⟩, rfl⟩ := hk
  cases hx : e.exc with
  | none => simp [hx] at hp
  | some x => simp only [hx, Option.map_some, Option.some.injEq] at hp; subst hp; exact List.mem_map.mpr ⟨e, he, rfl⟩

theorem dfcE_keys_sub (es : List Entry) : ∀ k ∈ (dfcE key es).map (·.1), k ∈ es.map (fun e => key e.it) := by
  intro k hk
  simp only [dfcE, List.mem_map, List.mem_filterMap] at hk
  obtain ⟨p, ⟨e, he, hp⟩, rfl⟩ := hk
  cases hx : e.dfc with
  | none => simp [hx] at hp
  | some x => simp only [hx, Option.map_some, Option.some.injEq] at hp; subst hp; exact List.mem_map.mpr ⟨e, he, rfl⟩

/-! ## the reservation loop -/

/-- The first loop of `_distribute_power`, from any intermediate state: it appends to the three dictionaries exactly
what the model's `reserve` records in its entries, and adds their minimum powers to `distributed_power`.
`hub`: the inclusion bound the source computes from `incl_bounds` is the item's `ub` (tied separately, with the
aggregation); the dict keys `fsOrder ids` of the groups are pairwise distinct and new.
State of the translated loop: (distribution, deficits, excess_reserved, ratio, distributed_power, used_ratio,
reserved_power). -/
theorem reserve_eq_source (fsOrder : List Int → List Int) (ids : Item → List Int) (bid : Item → Int)
    (incl : Dict Int Rat) (P S : Rat) (items : List Item)
    (hub : ∀ it ∈ items, pyMin (Extracted.DistLoops.sumL ((ids it).map fun i => dictGet incl i)) (dictGet incl (bid it)) = it.ub)
    (dist : Dict (List Int) Power) (R U ρ D : Rat) (exc dfc : Dict (List Int) Rat)
    (hnd : (items.map fun it => fsOrder (ids it)).Nodup)
    (hf : ∀ it ∈ items, fsOrder (ids it) ∉ dist.map (·.1) ∧ fsOrder (ids it) ∉ exc.map (·.1) ∧ fsOrder (ids it) ∉ dfc.map (·.1)) :
    ∃ R' U' ρ',
      List.foldl (Extracted.DistLoops.distributePower_for1 fsOrder P S incl) (dist, dfc, exc, ρ, D, U, R)
          (items.map (arOf ids bid)) =
        (dist ++ distE (fun it => fsOrder (ids it)) (reserve P S R U ρ items),
          dfc ++ dfcE (fun it => fsOrder (ids it)) (reserve P S R U ρ items),
          exc ++ excE (fun it => fsOrder (ids it)) (reserve P S R U ρ items),
          ρ', D + sumL ((reserve P S R U ρ items).map (·.dInc)), U', R') := by
  induction items generalizing dist R U ρ D exc dfc with
  | nil => exact ⟨R, U, ρ, by simp [reserve, distE, excE, dfcE, sumL, Rat.add_zero]⟩
  | cons it rest ih =>
    have hub' := fun x hx => hub x (List.mem_cons_of_mem _ hx)
    have hub0 := hub it List.mem_cons_self
    simp only [List.map_cons, List.nodup_cons] at hnd
    obtain ⟨hf0d, hf0e, hf0f⟩ := hf it List.mem_cons_self
    have fresh : ∀ {ν : Type} (d : Dict (List Int) ν) (v : ν), (∀ x ∈ rest, fsOrder (ids x) ∉ d.map (·.1)) →
        ∀ x ∈ rest, fsOrder (ids x) ∉ (d ++ [(fsOrder (ids it), v)]).map (·.1) := by
      intro ν d v hd x hx
      simp only [List.map_append, List.map_cons, List.map_nil, List.mem_append, List.mem_singleton, not_or]
      refine ⟨hd x hx, fun hEq => hnd.1 ?_⟩
      rw [← hEq]; exact List.mem_map.mpr ⟨x, hx, rfl⟩
    have hfd : ∀ x ∈ rest, fsOrder (ids x) ∉ dist.map (·.1) := fun x hx => (hf x (List.mem_cons_of_mem _ hx)).1
    have hfe : ∀ x ∈ rest, fsOrder (ids x) ∉ exc.map (·.1) := fun x hx => (hf x (List.mem_cons_of_mem _ hx)).2.1
    have hff : ∀ x ∈ rest, fsOrder (ids x) ∉ dfc.map (·.1) := fun x hx => (hf x (List.mem_cons_of_mem _ hx)).2.2
    simp only [List.map_cons, List.foldl_cons, Extracted.DistLoops.distributePower_for1, arOf, reserve, hub0]
    by_cases ht : tailCond ρ
    · have ht' : isCloseToZero ρ := ht
      settle [ht, ht']
      rw [dictSet_fresh _ _ _ hf0d]
      obtain ⟨R', U', ρ', h⟩ := ih hub' (dist ++ [(fsOrder (ids it), ⟨0, 0⟩)]) R U ρ D exc dfc hnd.2
        (fun x hx => ⟨fresh dist _ hfd x hx, hfe x hx, hff x hx⟩)
      refine ⟨R', U', ρ', ?_⟩
      rw [h]
      simp [distE, excE, dfcE, tailEntry, sumL_cons, List.append_assoc, Rat.zero_add]
    · have ht' : ¬ isCloseToZero ρ := ht
      settle [ht, ht']
      simp only [powerToDistribute, calcPower, reserveInc, usedInc, nextRatio]
      unfold mkEntry
      by_cases h1 : overIncl ((P - R) * it.ratio / ρ) it.ub
      · have h1a : it.ub < (P - R) * it.ratio / ρ := h1
        have h1b : ¬ (P - R) * it.ratio / ρ ≤ it.ub := by grind
        settle [h1, h1a, h1b]
        rw [dictSet_fresh _ _ _ hf0e, dictSet_fresh _ _ _ hf0d]
        obtain ⟨R', U', ρ', h⟩ := ih hub' (dist ++ [(fsOrder (ids it), ⟨it.ub, it.minP⟩)])
          (R + pyMax ((P - R) * it.ratio / ρ) it.minP) (U + it.ratio) (S - (U + it.ratio)) (D + it.minP)
          (exc ++ [(fsOrder (ids it), it.ub - it.minP)]) dfc hnd.2
          (fun x hx => ⟨fresh dist _ hfd x hx, fresh exc _ hfe x hx, hff x hx⟩)
        refine ⟨R', U', ρ', ?_⟩
        rw [h]
        simp [distE, excE, dfcE, sumL_cons, List.append_assoc, entryUpper, entryPower, distributedInc, excessOver,
          Rat.add_assoc]
        try grind
      · have h1a : ¬ it.ub < (P - R) * it.ratio / ρ := h1
        have h1b : (P - R) * it.ratio / ρ ≤ it.ub := by grind
        by_cases h2 : underMin ((P - R) * it.ratio / ρ) it.minP
        · have h2a : (P - R) * it.ratio / ρ < it.minP := h2
          have h2b : ¬ it.minP ≤ (P - R) * it.ratio / ρ := by grind
          settle [h1, h1a, h1b, h2, h2a, h2b]
          rw [dictSet_fresh _ _ _ hf0f, dictSet_fresh _ _ _ hf0d]
          obtain ⟨R', U', ρ', h⟩ := ih hub' (dist ++ [(fsOrder (ids it), ⟨it.ub, it.minP⟩)])
            (R + pyMax ((P - R) * it.ratio / ρ) it.minP) (U + it.ratio) (S - (U + it.ratio)) (D + it.minP)
            exc (dfc ++ [(fsOrder (ids it), (P - R) * it.ratio / ρ - it.minP)]) hnd.2
            (fun x hx => ⟨fresh dist _ hfd x hx, hfe x hx, fresh dfc _ hff x hx⟩)
          refine ⟨R', U', ρ', ?_⟩
          rw [h]
          simp [distE, excE, dfcE, sumL_cons, List.append_assoc, entryUpper, entryPower, distributedInc, deficitOf,
            Rat.add_assoc]
          try grind
        · have h2a : ¬ (P - R) * it.ratio / ρ < it.minP := h2
          have h2b : it.minP ≤ (P - R) * it.ratio / ρ := by grind
          settle [h1, h1a, h1b, h2, h2a, h2b]
          rw [dictSet_fresh _ _ _ hf0e, dictSet_fresh _ _ _ hf0d]
          obtain ⟨R', U', ρ', h⟩ := ih hub' (dist ++ [(fsOrder (ids it), ⟨it.ub, it.minP⟩)])
            (R + pyMax ((P - R) * it.ratio / ρ) it.minP) (U + it.ratio) (S - (U + it.ratio)) (D + it.minP)
            (exc ++ [(fsOrder (ids it), (P - R) * it.ratio / ρ - it.minP)]) dfc hnd.2
            (fun x hx => ⟨fresh dist _ hfd x hx, fresh exc _ hfe x hx, hff x hx⟩)
          refine ⟨R', U', ρ', ?_⟩
          rw [h]
          simp [distE, excE, dfcE, sumL_cons, List.append_assoc, entryUpper, entryPower, distributedInc, excessIn,
            Rat.add_assoc]
          try grind

/-! ## `max(excess_reserved.items(), key=…)` and the update of the largest excess -/

theorem maxExc_none_iff (es : List Entry) : maxExc es = none ↔ excE key es = [] := by
  induction es with
  | nil => simp [maxExc, excE]
  | cons e rest ih =>
    cases hx : e.exc with
    | none => simpa [maxExc, excE, hx] using ih
    | some x =>
      simp only [maxExc, hx, excE, List.filterMap_cons, Option.map_some]
      cases maxExc rest <;> simp

theorem dictMax_none_iff {κ : Type} (d : Dict κ Rat) : dictMaxByValue d = none ↔ d = [] := by
  cases d with
  | nil => simp [dictMaxByValue]
  | cons p ps =>
    simp only [dictMaxByValue]
    cases dictMaxByValue ps with
    | none => simp
    | some q => by_cases h : q.2 > p.2 <;> simp [h]

theorem setFirst_its (lp v : Rat) (es : List Entry) : (setFirst lp v es).map (·.it) = es.map (·.it) := by
  induction es with
  | nil => rfl
  | cons e rest ih =>
    simp only [setFirst]
    by_cases h : e.exc = some lp <;> simp [h, ih]

theorem setFirst_length (lp v : Rat) (es : List Entry) : (setFirst lp v es).length = es.length := by
  have := congrArg List.length (setFirst_its lp v es); simpa using this

/-- replacing the value of a key that does not occur changes nothing -/
theorem map_replace_fresh {ν : Type} (d : Dict (List Int) ν) (k : List Int) (v : ν) (h : k ∉ d.map (·.1)) :
    d.map (fun p => if p.1 = k then (k, v) else p) = d := by
  induction d with
  | nil => rfl
  | cons p ps ih =>
    simp only [List.map_cons, List.mem_cons, not_or] at h
    have : ¬ p.1 = k := fun e => h.1 e.symm
    simp [this, ih h.2]

theorem dictSet_present {ν : Type} (d : Dict (List Int) ν) (k : List Int) (v : ν) (h : k ∈ d.map (·.1)) :
    dictSet d k v = d.map (fun p => if p.1 = k then (k, v) else p) := by
  unfold dictSet
  have : d.any (fun p => decide (p.1 = k)) = true := by
    rw [List.any_eq_true]
    obtain ⟨p, hp, hk⟩ := List.mem_map.mp h
    exact ⟨p, hp, by simpa using hk⟩
  simp [this]

/-- The item `max(excess.items(), key=item[1])` picks is the model's maximal excess, and writing to its key is the
model's `setFirst` (keys pairwise distinct). -/
theorem largest_eq_source (es : List Entry) (hnd : (es.map fun e => key e.it).Nodup) (k : List Int) (lp : Rat)
    (h : dictMaxByValue (excE key es) = some (k, lp)) :
    maxExc es = some lp ∧ k ∈ (excE key es).map (·.1) ∧ dictGet (excE key es) k = lp ∧
      ∀ v, dictSet (excE key es) k v = excE key (setFirst lp v es) := by
  induction es generalizing k lp with
  | nil => simp [excE, dictMaxByValue] at h
  | cons e rest ih =>
    simp only [List.map_cons, List.nodup_cons] at hnd
    cases hx : e.exc with
    | none =>
      have hE : excE key (e :: rest) = excE key rest := by simp [excE, hx]
      rw [hE] at h ⊢
      obtain ⟨h1, h2, h3, h4⟩ := ih hnd.2 k lp h
      refine ⟨by simp [maxExc, hx, h1], h2, h3, fun v => ?_⟩
      rw [h4 v]
      simp [setFirst, hx, excE]
    | some x =>
      have hE : excE key (e :: rest) = (key e.it, x) :: excE key rest := by simp [excE, hx]
      have hkfresh : key e.it ∉ (excE key rest).map (·.1) := fun hm => hnd.1 (excE_keys_sub key rest _ hm)
      rw [hE] at h ⊢
      simp only [dictMaxByValue] at h
      cases hr : dictMaxByValue (excE key rest) with
      | none =>
        simp only [hr, Option.some.injEq, Prod.mk.injEq] at h
        obtain ⟨rfl, rfl⟩ := h
        have hnone : maxExc rest = none := (maxExc_none_iff key rest).mpr ((dictMax_none_iff _).mp hr)
        refine ⟨by simp [maxExc, hx, hnone], by simp, by simp [dictGet], fun v => ?_⟩
        rw [dictSet_present _ _ _ (by simp)]
        simp only [List.map_cons, if_true, setFirst, hx]
        rw [map_replace_fresh _ _ _ hkfresh]
        simp [excE]
      | some q =>
        obtain ⟨kq, lq⟩ := q
        simp only [hr] at h
        obtain ⟨g1, g2, g3, g4⟩ := ih hnd.2 kq lq hr
        by_cases hgt : lq > x
        · simp only [hgt, if_true, Option.some.injEq, Prod.mk.injEq] at h
          obtain ⟨rfl, rfl⟩ := h
          have hne : ¬ key e.it = kq := fun e' => hkfresh (e' ▸ g2)
          have hxne : ¬ (some x = some lq) := by
            intro e'; simp only [Option.some.injEq] at e'; rw [e'] at hgt; exact absurd hgt (by grind)
          refine ⟨by simp [maxExc, hx, g1, pyMax, hgt], by simp [g2], ?_, fun v => ?_⟩
          · simp only [dictGet, List.find?_cons]
            have : decide (key e.it = kq) = false := by simpa using hne
            simp only [this]
            simpa [dictGet] using g3
          · rw [dictSet_present _ _ _ (by simp [g2])]
            simp only [List.map_cons, hne, if_false, setFirst, hx, hxne]
            rw [← dictSet_present _ _ _ g2, g4 v]
            simp [excE, hx]
        · simp only [hgt, if_false, Option.some.injEq, Prod.mk.injEq] at h
          obtain ⟨rfl, rfl⟩ := h
          refine ⟨by simp [maxExc, hx, g1, pyMax, hgt], by simp, by simp [dictGet], fun v => ?_⟩
          rw [dictSet_present _ _ _ (by simp)]
          simp only [List.map_cons, if_true, setFirst, hx]
          rw [map_replace_fresh _ _ _ hkfresh]
          simp [excE]

/-! ## the deficit-covering `while` -/

theorem coverLoop_its (n : Nat) (es : List Entry) (d : Rat) (a : Bool) :
    (coverLoop n es d a).1.map (·.it) = es.map (·.it) := by
  induction n generalizing es d a with
  | zero => rfl
  | succ n ih =>
    simp only [coverLoop]
    split_ifs <;> try rfl
    all_goals (cases hm : maxExc es <;> simp only [] <;> try rfl)
    all_goals (split_ifs <;> first | rfl | simp [setFirst_its] | (rw [ih]; simp [setFirst_its]))

/-- The `while` of `_distribute_power` for one deficit, for EVERY fuel: it leaves `excess_reserved` as the model's
`coverLoop` leaves the entries, with the same remaining deficit (the stored copy `deficits[k]` and the model's
`approx` flag are ghosts of the respective side). -/
theorem coverLoop_eq_source (ids : List Int) (n : Nat) (es : List Entry) (hnd : (es.map fun e => key e.it).Nodup)
    (d st : Rat) (a : Bool) :
    ∃ st', Extracted.DistLoops.distributePower_while1 ids n (excE key es, st, d) =
      (excE key (coverLoop n es d a).1, st', (coverLoop n es d a).2.1) := by
  induction n generalizing es d st a with
  | zero => exact ⟨st, rfl⟩
  | succ n ih =>
    simp only [Extracted.DistLoops.distributePower_while1, coverLoop]
    by_cases hc : coverCond d
    · have hcs : ¬ isCloseToZero d ∧ d < 0 := hc
      obtain ⟨hc1, hc2⟩ := hcs
      cases hm : dictMaxByValue (excE key es) with
      | none =>
        have he : excE key es = [] := (dictMax_none_iff _).mp hm
        have hn : maxExc es = none := (maxExc_none_iff key es).mpr he
        settle [hc, hc1, hc2, he, hn]
        exact ⟨st, rfl⟩
      | some q =>
        obtain ⟨k, lp⟩ := q
        obtain ⟨h1, h2, h3, h4⟩ := largest_eq_source key es hnd k lp hm
        have hne : ¬ excE key es = [] := fun e => by simp [e, dictMaxByValue] at hm
        simp only [h1, Option.getD_some, h3]
        by_cases hs : largestStop lp
        · have hs' : isCloseToZero lp ∨ lp < 0 := hs
          settle [hc, hc1, hc2, hne, hs, hs']
          exact ⟨st, rfl⟩
        · have hs' : ¬ (isCloseToZero lp ∨ lp < 0) := hs
          have hs1 : ¬ isCloseToZero lp := fun x => hs' (Or.inl x)
          have hs2 : ¬ lp < 0 := fun x => hs' (Or.inr x)
          by_cases hv : covers lp d
          · have hv' : -d ≤ lp ∨ isClose lp (-d) := hv
            settle [hc, hc1, hc2, hne, hs, hs', hs1, hs2, hv, hv']
            rw [h4]
            simp only [coverExcess, coverDeficitDone]
            cases n with
            | zero => exact ⟨0, rfl⟩
            | succ m =>
              have hz : ¬ (0 : Rat) < 0 := by decide
              simp only [Extracted.DistLoops.distributePower_while1]
              settle [hz]
              exact ⟨0, rfl⟩
          · have hv' : ¬ (-d ≤ lp ∨ isClose lp (-d)) := hv
            have hv1 : ¬ -d ≤ lp := fun x => hv' (Or.inl x)
            have hv2 : ¬ isClose lp (-d) := fun x => hv' (Or.inr x)
            settle [hc, hc1, hc2, hne, hs, hs', hs1, hs2, hv, hv', hv1, hv2]
            rw [h4]
            simp only [partialDeficit, partialExcess]
            have hnd' : ((setFirst lp 0 es).map fun e => key e.it).Nodup := by
              have := congrArg (List.map key) (setFirst_its lp 0 es)
              simp only [List.map_map] at this
              rw [show (fun e : Entry => key e.it) = key ∘ (fun e => e.it) from rfl, this]; exact hnd
            exact ih (setFirst lp 0 es) hnd' (d + lp) (d + lp) a
    · have hc' : ¬ (¬ isCloseToZero d ∧ d < 0) := hc
      have hc'' : ¬ (¬ isCloseToZero d ∧ d < 0 ∧ ¬ excE key es = []) := fun x => hc' ⟨x.1, x.2.1⟩
      settle [hc, hc', hc'']
      exact ⟨st, rfl⟩

/-! ## `for inverter_ids, deficit in deficits.items()` -/

theorem coverLoop_length (n : Nat) (es : List Entry) (d : Rat) (a : Bool) : (coverLoop n es d a).1.length = es.length := by
  have := congrArg List.length (coverLoop_its n es d a); simpa using this

theorem coverOne_its (P : Rat) (s : CS) (d0 : Rat) : (coverOne P s d0).es.map (·.it) = s.es.map (·.it) := by
  unfold coverOne
  simp only []
  split_ifs <;> exact coverLoop_its _ _ _ _

theorem nodup_keys_of_its {es es' : List Entry} (h : es'.map (·.it) = es.map (·.it))
    (hnd : (es.map fun e => key e.it).Nodup) : (es'.map fun e => key e.it).Nodup := by
  have := congrArg (List.map key) h
  simp only [List.map_map] at this
  rw [show (fun e : Entry => key e.it) = key ∘ (fun e => e.it) from rfl, this]; exact hnd

/-- one deficit: the body of the second loop is the model's `coverOne`, for EVERY fuel of the `while` from the number of
entries + 1 on (the model's choice; more fuel changes nothing: `coverLoop_fuel`) -/
theorem coverOne_eq_source (m : Nat) (P : Rat) (s : CS) (hnd : (s.es.map fun e => key e.it).Nodup) (k : List Int) (d0 : Rat) :
    ∃ st', Extracted.DistLoops.distributePower_for2 (s.es.length + 1 + m) P (excE key s.es, s.D) k d0 =
      ((excE key (coverOne P s d0).es, (coverOne P s d0).D), st') := by
  obtain ⟨st', hw⟩ := coverLoop_eq_source key k (s.es.length + 1 + m) s.es hnd d0 d0 s.approx
  rw [DistLemmas.coverLoop_fuel] at hw
  unfold Extracted.DistLoops.distributePower_for2 coverOne
  simp only [hw]
  generalize (coverLoop (s.es.length + 1) s.es d0 s.approx) = r
  by_cases h1 : adjustCond r.2.1
  · have h1' : r.2.1 < -((1 : Rat) / 10) := h1
    by_cases h2 : adjFullCond (leftOver P s.D) r.2.1
    · have h2' : -r.2.1 < P - s.D := h2
      settle [h1, h1', h2, h2']
      exact ⟨st', by simp [adjFullInc]⟩
    · have h2' : ¬ -r.2.1 < P - s.D := h2
      by_cases h3 : adjPartCond (leftOver P s.D)
      · have h3' : (0 : Rat) < P - s.D := h3
        settle [h1, h1', h2, h2', h3, h3']
        exact ⟨st', by simp [adjPartInc, leftOver]⟩
      · have h3' : ¬ (0 : Rat) < P - s.D := h3
        settle [h1, h1', h2, h2', h3, h3']
        exact ⟨st', rfl⟩
  · have h1' : ¬ r.2.1 < -((1 : Rat) / 10) := h1
    settle [h1, h1']
    exact ⟨st', rfl⟩

theorem coverOne_length (P : Rat) (s : CS) (d0 : Rat) : (coverOne P s d0).es.length = s.es.length := by
  have := congrArg List.length (coverOne_its P s d0); simpa using this

/-- the whole second loop = the model's fold of `coverOne` over the deficits -/
theorem coverFold_eq_source (m : Nat) (P : Rat) (kds : Dict (List Int) Rat) (s : CS) (hnd : (s.es.map fun e => key e.it).Nodup) :
    ∃ kds', mapAccumItems (Extracted.DistLoops.distributePower_for2 (s.es.length + 1 + m) P) (excE key s.es, s.D) kds =
      ((excE key ((kds.map (·.2)).foldl (coverOne P) s).es, ((kds.map (·.2)).foldl (coverOne P) s).D), kds') := by
  induction kds generalizing s with
  | nil => exact ⟨[], by simp [mapAccumItems]⟩
  | cons kd rest ih =>
    obtain ⟨k, d0⟩ := kd
    obtain ⟨st', h1⟩ := coverOne_eq_source key m P s hnd k d0
    have hnd' := nodup_keys_of_its key (coverOne_its P s d0) hnd
    obtain ⟨kds', h2⟩ := ih (coverOne P s d0) hnd'
    rw [coverOne_length] at h2
    refine ⟨(k, st') :: kds', ?_⟩
    simp only [mapAccumItems, h1, h2, List.map_cons, List.foldl_cons]

theorem dfcE_values (es : List Entry) : (dfcE key es).map (·.2) = deficitsOf es := by
  induction es with
  | nil => rfl
  | cons e rest ih =>
    cases hx : e.dfc <;> simp_all [dfcE, deficitsOf]

end DistTie
