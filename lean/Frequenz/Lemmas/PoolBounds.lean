/-
Lemmas for C17: (1) on complete component data the raw models of both sides (`advertisedRaw`, `pairsRaw`) reduce
to the per-battery-set data; (2) closed forms of the calculator fold and of `_get_bounds`; (3) the inequalities
between them.
-/
import Frequenz.Model.PoolBounds
import Frequenz.Lemmas.PoolArith
set_option linter.unusedSimpArgs false

namespace PoolBounds
open Extracted.Pool PoolArith

theorem validated_bat (b : CBattery) :
    validated batteryMetricIds b.toRaw.metrics = some (batBounds b.data) := by
  simp [validated, RawBattery.metrics, CBattery.toRaw, fetchMetrics, batteryMetricIds, batteryDataMethods,
    RawBattery.attr, List.lookup, validatedBounds, batBounds]

theorem validated_inv (i : CInverter) :
    validated inverterMetricIds i.toRaw.metrics = some (invBounds i.data) := by
  simp [validated, RawInverter.metrics, CInverter.toRaw, fetchMetrics, inverterMetricIds, inverterDataMethods,
    RawInverter.attr, List.lookup, validatedBounds, invBounds]

theorem batteryPowerBounds_eq (b : BatteryData) : batteryPowerBounds b = batBounds b := rfl

theorem calcGroup_toRaw (g : CGroup) : g.toRaw.calcGroup = g.group := by
  unfold RawGroup.calcGroup CGroup.toRaw CGroup.group
  simp only [List.filterMap_map]
  congr 1
  · rw [← List.filterMap_eq_map]
    congr 1
  · rw [← List.filterMap_eq_map]
    congr 1

theorem active_toRaw (g : CGroup) : g.toRaw.active = g.active := by
  simp only [RawGroup.active, CGroup.toRaw, CGroup.active, List.any_map]
  rfl

theorem filter_active_map (gs : List CGroup) :
    (gs.map (·.toRaw)).filter (·.active) = (gs.filter (·.active)).map (·.toRaw) := by
  induction gs with
  | nil => rfl
  | cons g gs ih =>
    simp only [List.map_cons, List.filter_cons, active_toRaw]
    by_cases h : g.active <;> simp [h, ih]

theorem advertisedRaw_complete (gs : List CGroup) :
    advertisedRaw (gs.map (·.toRaw)) = advertised ((gs.filter (·.active)).map (·.group)) := by
  unfold advertisedRaw
  rw [filter_active_map, List.map_map]
  congr 1
  apply List.map_congr_left
  intro g _
  simp [calcGroup_toRaw]

theorem data_bat (b : CBattery) : b.toRaw.data? = some b.data := by
  simp [RawBattery.data?, CBattery.toRaw]

theorem data_inv (i : CInverter) : i.toRaw.data? = some i.data := by
  simp [RawInverter.data?, CInverter.toRaw]

theorem pairData_toRaw (g : CGroup) : g.toRaw.pairData = .pair g.idPair := by
  unfold RawGroup.pairData
  have hb : (g.toRaw.bats.filterMap (·.data?)) = g.bats.map (·.data) := by
    simp only [CGroup.toRaw, List.filterMap_map]
    rw [← List.filterMap_eq_map]; congr 1
  have hi : (g.toRaw.invs.filterMap (fun i => i.data?.map fun d => (i.id, d))) = g.invs.map fun i => (i.id, i.data) := by
    simp only [CGroup.toRaw, List.filterMap_map]
    rw [← List.filterMap_eq_map]; congr 1
  have h1 : (g.toRaw.bats.all (·.has) ∧ g.toRaw.invs.all (·.has)) := by
    simp [CGroup.toRaw, CBattery.toRaw, CInverter.toRaw]
  have h2 : ¬ (g.toRaw.bats.any (fun b => crucialMetricsBat.any fun m => (b.attr m).isNone)) := by
    simp [CGroup.toRaw, CBattery.toRaw, crucialMetricsBat, RawBattery.attr]
  have h3 : ¬ (g.toRaw.invs.any (fun i => crucialMetricsInv.any fun m => (i.attr m).isNone)) := by
    simp [CGroup.toRaw, CInverter.toRaw, crucialMetricsInv, RawInverter.attr]
  have hid : (g.toRaw.bats.head?.map (·.id)) = g.bats.head?.map (·.id) := by
    cases hg : g.bats <;> simp [CGroup.toRaw, hg, CBattery.toRaw]
  simp only [h1, h2, h3, hb, hi, hid]
  simp [CGroup.toRaw, CGroup.idPair, List.map_map]
  rfl

theorem pairsRaw_complete (gs : List CGroup) :
    pairsRaw (gs.map (·.toRaw)) = .ok ((gs.filter (·.active)).map (·.idPair)) := by
  unfold pairsRaw
  rw [filter_active_map]
  induction (gs.filter (·.active)) with
  | nil => rfl
  | cons g gs ih =>
    simp only [List.map_cons, List.foldr_cons, ih, pairData_toRaw]

theorem plain_map (gs : List CGroup) : plain (gs.map (·.idPair)) = gs.map (·.pair) := by
  simp [plain, List.map_map, CGroup.pair, Function.comp]

/-! ### closed form of the calculator fold -/

/-- What one contributing battery set adds to the four advertised bounds. -/
def Group.il (g : Group) : Rat :=
  pyMax (aggregateBatteryPowerBounds g.bats).inclusion_lower (pySum (g.invs.map (·.inclusion_lower)))
def Group.iu (g : Group) : Rat :=
  pyMin (aggregateBatteryPowerBounds g.bats).inclusion_upper (pySum (g.invs.map (·.inclusion_upper)))
def Group.el (g : Group) : Rat :=
  pyMin (aggregateBatteryPowerBounds g.bats).exclusion_lower (pySum (g.invs.map (·.exclusion_lower)))
def Group.eu (g : Group) : Rat :=
  pyMax (aggregateBatteryPowerBounds g.bats).exclusion_upper (pySum (g.invs.map (·.exclusion_upper)))

def GroupsNonempty (gs : List Group) : Prop := ∀ g ∈ gs, g.bats ≠ [] ∧ g.invs ≠ []

theorem calcIter_nonempty (s : Acc × Bool) (g : Group) (hb : g.bats ≠ []) (hi : g.invs ≠ []) :
    calcIter s g = ((s.1.1 + g.il, s.1.2.1 + g.iu, s.1.2.2.1 + g.el, s.1.2.2.2 + g.eu), true) := by
  have h1 : ¬ g.bats.length = 0 := by simpa [List.length_eq_zero_iff] using hb
  have h2 : ¬ g.invs.length = 0 := by simpa [List.length_eq_zero_iff] using hi
  simp only [calcIter, h1, h2, if_false, calcStep, Group.il, Group.iu, Group.el, Group.eu]

theorem foldl_calcIter (gs : List Group) (h : GroupsNonempty gs) (a : Acc) (fl : Bool) :
    gs.foldl calcIter (a, fl) =
      ((a.1 + pySum (gs.map Group.il), a.2.1 + pySum (gs.map Group.iu), a.2.2.1 + pySum (gs.map Group.el),
        a.2.2.2 + pySum (gs.map Group.eu)), fl || !gs.isEmpty) := by
  induction gs generalizing a fl with
  | nil => simp [Rat.add_zero]
  | cons g gs ih =>
    have hg := h g (by simp)
    simp only [List.foldl_cons]
    rw [calcIter_nonempty _ g hg.1 hg.2, ih (fun x hx => h x (by simp [hx]))]
    simp only [List.map_cons, pySum_cons, List.isEmpty_cons, Bool.not_false, Bool.or_true, Bool.true_or]
    congr 1
    ext <;> simp <;> grind

/-- `PowerBoundsCalculator.calculate` on battery sets that all contribute. -/
theorem advertised_closed (gs : List Group) (h : GroupsNonempty gs) :
    advertised gs =
      if gs = [] then none
      else some { inclusion_lower := pySum (gs.map Group.il), exclusion_lower := pySum (gs.map Group.el),
                  exclusion_upper := pySum (gs.map Group.eu), inclusion_upper := pySum (gs.map Group.iu) } := by
  unfold advertised calcFold
  rw [foldl_calcIter gs h]
  cases gs with
  | nil => simp
  | cons g gs => simp [calcResult, Rat.zero_add]


/-! ### enforced side, and the inequalities between the two sides -/

theorem group_nonempty (gs : List CGroup) (h : WellFormed gs) : GroupsNonempty (gs.map (·.group)) := by
  intro g hg
  rcases List.mem_map.mp hg with ⟨c, hc, rfl⟩
  have := h c hc
  simp [CGroup.group, this.1, this.2]

theorem enforced_il (gs : List CGroup) :
    (getBounds (gs.map (·.pair))).inclusion_lower = pySum ((gs.map (·.group)).map Group.il) := by
  simp only [getBounds, List.map_map]
  congr 1
  apply List.map_congr_left
  intro g _
  simp only [Function.comp, Group.il, Group.iu, CGroup.group, CGroup.pair, CGroup.idPair, IdPair.pair, List.map_map]
  rfl

theorem enforced_iu (gs : List CGroup) :
    (getBounds (gs.map (·.pair))).inclusion_upper = pySum ((gs.map (·.group)).map Group.iu) := by
  simp only [getBounds, List.map_map]
  congr 1
  apply List.map_congr_left
  intro g _
  simp only [Function.comp, Group.il, Group.iu, CGroup.group, CGroup.pair, CGroup.idPair, IdPair.pair, List.map_map]
  rfl

/-- Σ over the sets of the aggregated battery bound / of the inverter sums: the two arguments of `_get_bounds`' max. -/
def Group.batEu (g : Group) : Rat := (aggregateBatteryPowerBounds g.bats).exclusion_upper
def Group.invEu (g : Group) : Rat := pySum (g.invs.map (·.exclusion_upper))
def Group.batEl (g : Group) : Rat := (aggregateBatteryPowerBounds g.bats).exclusion_lower
def Group.invEl (g : Group) : Rat := pySum (g.invs.map (·.exclusion_lower))

theorem enforced_eu (gs : List CGroup) :
    (getBounds (gs.map (·.pair))).exclusion_upper =
      pyMax (pySum ((gs.map (·.group)).map Group.batEu)) (pySum ((gs.map (·.group)).map Group.invEu)) := by
  simp only [getBounds, List.map_map, pySum_flatMap]
  congr 2
  apply List.map_congr_left
  intro g _
  simp only [Function.comp, Group.invEu, Group.invEl, CGroup.group, CGroup.pair, CGroup.idPair, IdPair.pair, List.map_map]
  rfl

theorem enforced_el (gs : List CGroup) :
    (getBounds (gs.map (·.pair))).exclusion_lower =
      pyMin (pySum ((gs.map (·.group)).map Group.batEl)) (pySum ((gs.map (·.group)).map Group.invEl)) := by
  simp only [getBounds, List.map_map, pySum_flatMap]
  congr 2
  apply List.map_congr_left
  intro g _
  simp only [Function.comp, Group.invEu, Group.invEl, CGroup.group, CGroup.pair, CGroup.idPair, IdPair.pair, List.map_map]
  rfl

theorem Group.eu_eq (g : Group) : g.eu = pyMax g.batEu g.invEu := rfl
theorem Group.el_eq (g : Group) : g.el = pyMin g.batEl g.invEl := rfl

/-- `max(Σ a, Σ b) ≤ Σ max(a, b)`: the enforced upper exclusion bound never exceeds the advertised one. -/
theorem max_sum_le_sum_max (gs : List Group) :
    pyMax (pySum (gs.map Group.batEu)) (pySum (gs.map Group.invEu)) ≤ pySum (gs.map Group.eu) := by
  apply pyMax_le
  · exact pySum_map_le _ _ gs (fun g _ => pyMax_ge_left _ _)
  · exact pySum_map_le _ _ gs (fun g _ => pyMax_ge_right _ _)

theorem sum_min_le_min_sum (gs : List Group) :
    pySum (gs.map Group.el) ≤ pyMin (pySum (gs.map Group.batEl)) (pySum (gs.map Group.invEl)) := by
  apply le_pyMin
  · exact pySum_map_le _ _ gs (fun g _ => pyMin_le_left _ _)
  · exact pySum_map_le _ _ gs (fun g _ => pyMin_le_right _ _)

theorem pySum_map_neg {α : Type} (f : α → Rat) (xs : List α) : pySum (xs.map fun x => -f x) = -pySum (xs.map f) := by
  induction xs with
  | nil => simp
  | cons x xs ih => simp only [List.map_cons, pySum_cons, ih]; grind

/-- Consume side: the group minimum power of the distribution algorithm is at most what the set adds to the
advertised upper exclusion bound, as soon as the inverters' upper exclusion bounds are non-negative. -/
theorem pairMinPower_consume_le (g : CGroup) (hi : g.invs ≠ [])
    (hpos : ∀ i ∈ g.invs, 0 ≤ i.data.active_power_exclusion_upper_bound) :
    pairMinPower false g.pair ≤ g.group.eu := by
  simp only [pairMinPower, Bool.false_eq_true, if_false, Group.eu, CGroup.group, CGroup.pair, CGroup.idPair,
    IdPair.pair, List.map_map]
  have h : pyMinL (g.invs.map fun i => i.data.active_power_exclusion_upper_bound)
      ≤ pySum (g.invs.map fun i => i.data.active_power_exclusion_upper_bound) := by
    apply pyMinL_le_pySum
    · simpa using hi
    · intro x hx
      rcases List.mem_map.mp hx with ⟨i, hi', rfl⟩
      exact hpos i hi'
  exact pyMax_mono_right _ h

theorem pairMinPower_supply_le (g : CGroup) (hi : g.invs ≠ [])
    (hneg : ∀ i ∈ g.invs, i.data.active_power_exclusion_lower_bound ≤ 0) :
    pairMinPower true g.pair ≤ -g.group.el := by
  simp only [pairMinPower, if_true, Group.el, CGroup.group, CGroup.pair, CGroup.idPair, IdPair.pair, List.map_map]
  have h : pyMinL (g.invs.map fun i => -i.data.active_power_exclusion_lower_bound)
      ≤ pySum (g.invs.map fun i => -i.data.active_power_exclusion_lower_bound) := by
    apply pyMinL_le_pySum
    · simpa using hi
    · intro x hx
      rcases List.mem_map.mp hx with ⟨i, hi', rfl⟩
      have := hneg i hi'
      grind
  rw [pySum_map_neg] at h
  rw [pyMin_neg, Rat.neg_neg]
  exact pyMax_mono_right _ h

theorem sumMinPower_consume_le (gs : List CGroup) (h : ∀ g ∈ gs, g.invs ≠ [] ∧ ∀ i ∈ g.invs, 0 ≤ i.data.active_power_exclusion_upper_bound) :
    sumMinPower false (gs.map (·.pair)) ≤ pySum ((gs.map (·.group)).map Group.eu) := by
  unfold sumMinPower
  rw [List.map_map, List.map_map]
  exact pySum_map_le _ _ gs (fun g hg => pairMinPower_consume_le g (h g hg).1 (h g hg).2)

theorem sumMinPower_supply_le (gs : List CGroup) (h : ∀ g ∈ gs, g.invs ≠ [] ∧ ∀ i ∈ g.invs, i.data.active_power_exclusion_lower_bound ≤ 0) :
    sumMinPower true (gs.map (·.pair)) ≤ -pySum ((gs.map (·.group)).map Group.el) := by
  unfold sumMinPower
  rw [List.map_map, List.map_map, ← pySum_map_neg]
  exact pySum_map_le _ _ gs (fun g hg => pairMinPower_supply_le g (h g hg).1 (h g hg).2)

/-- Signs of the advertised exclusion bounds under consistent data. -/
theorem group_eu_nonneg (g : CGroup) (hpos : ∀ i ∈ g.invs, 0 ≤ i.data.active_power_exclusion_upper_bound) : 0 ≤ g.group.eu := by
  have h : 0 ≤ g.group.invEu := by
    apply pySum_nonneg
    intro x hx
    simp only [CGroup.group, List.map_map] at hx
    rcases List.mem_map.mp hx with ⟨i, hi', rfl⟩
    exact hpos i hi'
  have := pyMax_ge_right g.group.batEu g.group.invEu
  rw [Group.eu_eq]; grind

theorem group_el_nonpos (g : CGroup) (hneg : ∀ i ∈ g.invs, i.data.active_power_exclusion_lower_bound ≤ 0) : g.group.el ≤ 0 := by
  have h : 0 ≤ -g.group.invEl := by
    unfold Group.invEl
    rw [← pySum_map_neg]
    apply pySum_nonneg
    intro x hx
    simp only [CGroup.group, List.map_map] at hx
    rcases List.mem_map.mp hx with ⟨i, hi', rfl⟩
    have := hneg i hi'
    simp only [Function.comp, invBounds]
    grind
  have := pyMin_le_right g.group.batEl g.group.invEl
  rw [Group.el_eq]; grind

/-- The decision of `_check_request` on bounds `enf`, for a power admitted by bounds `adv` that have the same
inclusion bounds and an exclusion zone containing `enf`'s. -/
theorem checkRequest_accepts (adv enf : PowerBounds) (p : Rat) (adjust : Bool)
    (hil : adv.inclusion_lower = enf.inclusion_lower) (hiu : adv.inclusion_upper = enf.inclusion_upper)
    (hel : adv.exclusion_lower ≤ enf.exclusion_lower) (heu : enf.exclusion_upper ≤ adv.exclusion_upper)
    (hin : InAdvertised adv p) : checkRequest enf p adjust = false := by
  unfold InAdvertised at hin
  unfold checkRequest
  by_cases hz : isCloseToZero p
  · simp [hz]
  · cases adjust <;> simp [hz] <;> grind

/-! ### shape of the advertised bounds on complete data -/

theorem wf_filter {gs : List CGroup} (h : WellFormed gs) : WellFormed (gs.filter (·.active)) :=
  fun g hg => h g (List.mem_filter.mp hg).1

theorem adv_some {gs : List CGroup} (h : WellFormed gs) {adv : PowerBounds}
    (ha : advertisedRaw (gs.map (·.toRaw)) = some adv) :
    gs.filter (·.active) ≠ [] ∧
    adv = { inclusion_lower := pySum (((gs.filter (·.active)).map (·.group)).map Group.il),
            exclusion_lower := pySum (((gs.filter (·.active)).map (·.group)).map Group.el),
            exclusion_upper := pySum (((gs.filter (·.active)).map (·.group)).map Group.eu),
            inclusion_upper := pySum (((gs.filter (·.active)).map (·.group)).map Group.iu) } := by
  rw [advertisedRaw_complete, advertised_closed _ (group_nonempty _ (wf_filter h))] at ha
  by_cases he : gs.filter (·.active) = []
  · simp [he] at ha
  · simp only [List.map_eq_nil_iff, he, if_false, Option.some.injEq] at ha
    exact ⟨he, ha.symm⟩



/-! ### the id-keyed `excl_bounds` dict -/

def dictStep (k : Nat) (cur : Rat) (e : Nat × Rat) : Rat := if e.1 = k then e.2 else cur

theorem dictGet_eq (d : List (Nat × Rat)) (k : Nat) : dictGet d k = d.foldl (dictStep k) 0 := rfl

theorem foldl_dictStep_not_mem (d : List (Nat × Rat)) (k : Nat) (c : Rat) (h : k ∉ d.map Prod.fst) :
    d.foldl (dictStep k) c = c := by
  induction d generalizing c with
  | nil => rfl
  | cons e d ih =>
    simp only [List.map_cons, List.mem_cons, not_or] at h
    simp only [List.foldl_cons, dictStep]
    have : ¬ e.1 = k := fun h' => h.1 h'.symm
    simp only [this, if_false]
    exact ih c h.2

/-- With pairwise distinct keys a lookup returns the one value assigned to the key. -/
theorem foldl_dictStep_mem (d : List (Nat × Rat)) (k : Nat) (v c : Rat) (hn : (d.map Prod.fst).Nodup)
    (hm : (k, v) ∈ d) : d.foldl (dictStep k) c = v := by
  induction d generalizing c with
  | nil => simp at hm
  | cons e d ih =>
    simp only [List.map_cons, List.nodup_cons] at hn
    simp only [List.foldl_cons]
    rcases List.mem_cons.mp hm with heq | hmem
    · subst heq
      simp only [dictStep, if_true]
      exact foldl_dictStep_not_mem d k v hn.1
    · have hne : ¬ e.1 = k := by
        intro h'
        apply hn.1
        rw [h']
        exact List.mem_map.mpr ⟨(k, v), hmem, rfl⟩
      simp only [dictStep, hne, if_false]
      exact ih c hn.2 hmem

theorem exclAssignments_keys (supply : Bool) (ps : List IdPair) :
    (exclAssignments supply ps).map Prod.fst = allIds ps := by
  unfold exclAssignments allIds
  induction ps with
  | nil => rfl
  | cons p ps ih =>
    simp only [List.flatMap_cons, List.map_append, ih, List.map_cons, List.map_map]
    congr 2

def batExcl (supply : Bool) (p : IdPair) : Rat :=
  if supply then -p.agg.power_bounds.exclusion_lower else p.agg.power_bounds.exclusion_upper
def invExcl (supply : Bool) (i : InverterData) : Rat :=
  if supply then -i.active_power_exclusion_lower_bound else i.active_power_exclusion_upper_bound

theorem bat_mem_exclAssignments (supply : Bool) (ps : List IdPair) (p : IdPair) (hp : p ∈ ps) :
    (p.batId, batExcl supply p) ∈ exclAssignments supply ps := by
  unfold exclAssignments
  exact List.mem_flatMap.mpr ⟨p, hp, by simp [batExcl]⟩

theorem inv_mem_exclAssignments (supply : Bool) (ps : List IdPair) (p : IdPair) (hp : p ∈ ps)
    (i : Nat × InverterData) (hi : i ∈ p.invs) :
    (i.1, invExcl supply i.2) ∈ exclAssignments supply ps := by
  unfold exclAssignments
  refine List.mem_flatMap.mpr ⟨p, hp, ?_⟩
  apply List.mem_cons_of_mem
  exact List.mem_map.mpr ⟨i, hi, by simp [invExcl]⟩

theorem pairMinPower_eq (supply : Bool) (p : IdPair) :
    pairMinPower supply p.pair = pyMax (batExcl supply p) (pyMinL (p.invs.map fun i => invExcl supply i.2)) := by
  cases supply <;> simp [pairMinPower, IdPair.pair, batExcl, invExcl, List.map_map] <;> rfl

/-- Without id collisions the dict-based `min_power` is the plain one. -/
theorem idPairMinPower_eq (supply : Bool) (ps : List IdPair) (hn : (allIds ps).Nodup) (p : IdPair) (hp : p ∈ ps) :
    idPairMinPower (exclAssignments supply ps) p = pairMinPower supply p.pair := by
  have hk : ((exclAssignments supply ps).map Prod.fst).Nodup := by rw [exclAssignments_keys]; exact hn
  rw [pairMinPower_eq]
  unfold idPairMinPower
  rw [dictGet_eq, foldl_dictStep_mem _ _ _ _ hk (bat_mem_exclAssignments supply ps p hp)]
  congr 2
  apply List.map_congr_left
  intro i hi
  rw [dictGet_eq, foldl_dictStep_mem _ _ _ _ hk (inv_mem_exclAssignments supply ps p hp i hi)]

theorem sumMinPowerIds_eq (supply : Bool) (ps : List IdPair) (hn : (allIds ps).Nodup) :
    sumMinPowerIds supply ps = sumMinPower supply (plain ps) := by
  unfold sumMinPowerIds sumMinPower plain
  rw [List.map_map]
  congr 1
  apply List.map_congr_left
  intro p hp
  exact idPairMinPower_eq supply ps hn p hp

/-! ### iteration order of the battery sets -/

theorem pySum_perm {xs ys : List Rat} (h : xs.Perm ys) : pySum xs = pySum ys := by
  induction h with
  | nil => rfl
  | cons x _ ih => simp only [pySum_cons, ih]
  | swap x y l => simp only [pySum_cons]; grind
  | trans _ _ ih1 ih2 => exact ih1.trans ih2

/-- The advertised bounds do not depend on the order in which the battery sets are visited. -/
theorem advertised_perm {gs gs' : List Group} (h : gs.Perm gs') (hne : GroupsNonempty gs) :
    advertised gs = advertised gs' := by
  have hne' : GroupsNonempty gs' := fun g hg => hne g (h.mem_iff.mpr hg)
  rw [advertised_closed gs hne, advertised_closed gs' hne']
  have hnil : gs = [] ↔ gs' = [] := by
    constructor
    · intro e; subst e; exact h.nil_eq.symm ▸ rfl
    · intro e; subst e; exact h.symm.nil_eq.symm ▸ rfl
  by_cases e : gs = []
  · simp [e, hnil.mp e]
  · have e' : ¬ gs' = [] := fun x => e (hnil.mpr x)
    simp only [e, e', if_false]
    rw [pySum_perm (h.map Group.il), pySum_perm (h.map Group.el), pySum_perm (h.map Group.eu),
      pySum_perm (h.map Group.iu)]

/-- `_get_bounds` does not depend on the order of the pairs. -/
theorem getBounds_perm {ps ps' : List (AggregatedBatteryData × List InverterData)} (h : ps.Perm ps') :
    getBounds ps = getBounds ps' := by
  unfold getBounds
  simp only [pySum_flatMap]
  congr 1
  · exact pySum_perm (h.map _)
  · congr 1 <;> exact pySum_perm (h.map _)
  · congr 1 <;> exact pySum_perm (h.map _)
  · exact pySum_perm (h.map _)

end PoolBounds
