/-
"Model is source" for the battery distribution algorithm (C01/C02): the hand-written loops of
`Frequenz/Model/Distribution.lean` are equal to the machine translation of the current Python source
(`Frequenz/Extracted/DistributionLoops.lean`, regenerated on every run).
-/
import Frequenz.Model.Distribution
import Frequenz.Extracted.DistributionLoops

/-- decide the `if`s of a translated loop body from facts about its atomic tests (each fact given in the spellings the
translation may use: `a ≤ b` and `¬ b < a`, …): the proofs do not depend on how the source spells or nests a test -/
macro "settle" "[" ts:Lean.Parser.Tactic.simpLemma,* "]" : tactic =>
  `(tactic| simp only [$ts,*, if_true, if_false, ite_true, ite_false, true_and, and_true, false_and, and_false, true_or, or_true,
    false_or, or_false, not_true_eq_false, not_false_eq_true, and_self, or_self, ne_eq, Classical.not_not, gt_iff_lt, ge_iff_le])

namespace DistTie
open Dist Extracted.Dist
open Extracted.DistLoops (Dict dictGet dictSet mapAccumItems Power)

/-! ## greedy top-up (`_greedy_distribute_remaining_power`) -/

/-- a model slot as the `_Power` object the source keeps in `distribution` -/
def powerOf (s : Slot) : Power := { upper_bound := s.ub, power := s.p }

/-- the `distribution` dict of the source for a list of model slots (`key`: the inverter set of the slot's group) -/
def distOf (key : Entry → List Int) (ss : List Slot) : Dict (List Int) Power := ss.map fun s => (key s.en, powerOf s)

/-- The skip condition, whatever the order / polarity the source writes it in. -/
theorem greedySkip_iff_tie (rem p : Rat) : greedySkip rem p ↔ (isCloseToZero rem ∨ isCloseToZero p) := by
  unfold greedySkip
  by_cases h1 : isCloseToZero rem <;> by_cases h2 : isCloseToZero p <;> simp [h1, h2]

theorem greedyGo_eq_source (key : Entry → List Int) (rem : Rat) (ss : List Slot) :
    mapAccumItems Extracted.DistLoops.greedyDistributeRemainingPower_for1 rem (distOf key ss) =
      ((greedyGo rem ss).2, distOf key (greedyGo rem ss).1) := by
  induction ss generalizing rem with
  | nil => simp [distOf, mapAccumItems, greedyGo]
  | cons s ss ih =>
    simp only [distOf, List.map_cons, mapAccumItems, greedyGo, powerOf] at ih ⊢
    simp only [Extracted.DistLoops.greedyDistributeRemainingPower_for1]
    by_cases h : greedySkip rem s.p
    · have h' : isCloseToZero rem ∨ isCloseToZero s.p := (greedySkip_iff_tie _ _).1 h
      have h'' : ¬ (¬ isCloseToZero rem ∧ ¬ isCloseToZero s.p) := by grind
      have h3 : isCloseToZero s.p ∨ isCloseToZero rem := h'.symm
      have h4 : ¬ (¬ isCloseToZero s.p ∧ ¬ isCloseToZero rem) := by grind
      settle [h, h', h'', h3, h4, ih rem, List.map_cons]
    · have h' : ¬ (isCloseToZero rem ∨ isCloseToZero s.p) := fun x => h ((greedySkip_iff_tie _ _).2 x)
      have h1 : ¬ isCloseToZero rem := fun x => h' (Or.inl x)
      have h2 : ¬ isCloseToZero s.p := fun x => h' (Or.inr x)
      settle [h, h1, h2, greedyRemDec, greedyAdd, greedyPowerInc, ih, List.map_cons]

/-- `_greedy_distribute_remaining_power` (with its early exit) is the model's `greedy`. -/
theorem greedy_eq_source (key : Entry → List Int) (L : Rat) (ss : List Slot) :
    Extracted.DistLoops.greedyDistributeRemainingPower (distOf key ss) L =
      (distOf key (greedy L ss).1, (greedy L ss).2) := by
  unfold Extracted.DistLoops.greedyDistributeRemainingPower greedy
  by_cases h : greedyExit L
  · have h' : isCloseToZero L := h
    settle [h, h']
  · have h' : ¬ isCloseToZero L := h
    settle [h, h']
    rw [greedyGo_eq_source]

/-! ## per-inverter split (`_distribute_multi_inverter_pairs`) -/

theorem dictSet_fresh {κ ν : Type} [DecidableEq κ] (d : Dict κ ν) (k : κ) (v : ν) (h : k ∉ d.map (·.1)) :
    dictSet d k v = d ++ [(k, v)] := by
  unfold dictSet
  have : d.any (fun p => decide (p.1 = k)) = false := by
    rw [List.any_eq_false]
    intro p hp hk
    exact h (List.mem_map.mpr ⟨p, hp, by simpa using hk⟩)
  simp [this]

/-- the ids of a list of model inverters -/
def idsOf (ibs : List IB) : List Int := ibs.map (·.raw.id)

/-- what the source writes into `new_distribution` for one group -/
def spsOf (sps : List (IB × Rat)) : Dict Int Rat := sps.map fun x => (x.1.raw.id, x.2)

/-- The bound dictionaries of the source agree with the per-inverter values of the model. -/
def Lookups (excl incl : Dict Int Rat) (ibs : List IB) : Prop :=
  ∀ ib ∈ ibs, dictGet excl ib.raw.id = ib.excl ∧ dictGet incl ib.raw.id = ib.incl

theorem spsOf_ids (rem : Rat) (ibs : List IB) : (spsOf (splitGo rem ibs).1).map (·.1) = idsOf ibs := by
  induction ibs generalizing rem with
  | nil => simp [splitGo, spsOf, idsOf]
  | cons ib ibs ih =>
    simp only [splitGo]
    by_cases h : splitTake rem ib.excl
    · simp only [h, if_true, spsOf, idsOf, List.map_cons] at ih ⊢
      rw [ih]
    · simp only [h, if_false, spsOf, idsOf, List.map_cons] at ih ⊢
      rw [ih]

theorem splitGo_eq_source (excl incl : Dict Int Rat) (ibs : List IB) (hl : Lookups excl incl ibs)
    (nd : Dict Int Rat) (rem : Rat) (hnd : (idsOf ibs).Nodup) (hfresh : ∀ i ∈ idsOf ibs, i ∉ nd.map (·.1)) :
    List.foldl (Extracted.DistLoops.distributeMultiInverterPairs_for2 excl incl) (nd, rem) (idsOf ibs) =
      (nd ++ spsOf (splitGo rem ibs).1, (splitGo rem ibs).2) := by
  induction ibs generalizing nd rem with
  | nil => simp [idsOf, splitGo, spsOf]
  | cons ib ibs ih =>
    have hl' : Lookups excl incl ibs := fun x hx => hl x (List.mem_cons_of_mem _ hx)
    obtain ⟨he, hi⟩ := hl ib (List.mem_cons_self)
    simp only [idsOf, List.map_cons, List.nodup_cons] at hnd
    have hf0 : ib.raw.id ∉ nd.map (·.1) := hfresh _ (by simp [idsOf])
    simp only [idsOf, List.map_cons, List.foldl_cons, Extracted.DistLoops.distributeMultiInverterPairs_for2, he, hi]
    simp only [splitGo]
    have key : ∀ v : Rat, ∀ i ∈ idsOf ibs, i ∉ (nd ++ [(ib.raw.id, v)]).map (·.1) := by
      intro v i hi'
      simp only [List.map_append, List.map_cons, List.map_nil, List.mem_append, List.mem_singleton, not_or]
      refine ⟨hfresh i (by simp only [idsOf, List.map_cons]; exact List.mem_cons_of_mem _ hi'), ?_⟩
      intro hEq
      exact hnd.1 (by rw [← hEq]; exact hi')
    by_cases h : splitTake rem ib.excl
    · have hsrc : ¬ isCloseToZero rem ∧ ib.excl ≤ rem := h
      obtain ⟨hc, hle⟩ := hsrc
      have hlt : ¬ rem < ib.excl := by grind
      settle [h, hc, hle, hlt, splitPower, splitAssigned, splitRemDec]
      rw [dictSet_fresh _ _ _ hf0]
      have := ih hl' (nd ++ [(ib.raw.id, pyMin ib.incl rem)]) (rem - pyMin ib.incl rem) hnd.2 (key _)
      simp only [idsOf] at this
      rw [this]
      simp [spsOf]
    · have h' : ¬ (¬ isCloseToZero rem ∧ ib.excl ≤ rem) := h
      have h2 : isCloseToZero rem ∨ rem < ib.excl := by
        by_cases hc : isCloseToZero rem
        · exact Or.inl hc
        · exact Or.inr (by have : ¬ ib.excl ≤ rem := fun x => h' ⟨hc, x⟩; grind)
      settle [h, h', h2, splitSkipped]
      rw [dictSet_fresh _ _ _ hf0]
      have := ih hl' (nd ++ [(ib.raw.id, 0)]) rem hnd.2 (key _)
      simp only [idsOf] at this
      rw [this]
      simp [spsOf]

/-- One group: the body of the outer loop of `_distribute_multi_inverter_pairs` appends exactly the set-points the
model's `splitGroup` computes (the dict key of the group is the list of its inverter ids in iteration order). -/
theorem splitGroup_eq_source (excl incl : Dict Int Rat) (s : Slot) (hl : Lookups excl incl s.en.it.ng.invs)
    (nd : Dict Int Rat) (hnd : (idsOf s.en.it.ng.invs).Nodup) (hfresh : ∀ i ∈ idsOf s.en.it.ng.invs, i ∉ nd.map (·.1)) :
    Extracted.DistLoops.distributeMultiInverterPairs_for1 excl incl nd (idsOf s.en.it.ng.invs, powerOf s) =
      nd ++ spsOf (splitGroup s).sps := by
  unfold Extracted.DistLoops.distributeMultiInverterPairs_for1 splitGroup
  simp only [powerOf]
  cases hibs : s.en.it.ng.invs with
  | nil => simp [idsOf, splitGo, spsOf]
  | cons ib rest =>
    cases rest with
    | nil =>
      rw [hibs] at hfresh
      simp only [idsOf, List.map_cons, List.map_nil, List.length_cons, List.length_nil, List.headD_cons, splitSingle]
      have : ib.raw.id ∉ nd.map (·.1) := hfresh _ (by simp [idsOf])
      simp [dictSet_fresh _ _ _ this, spsOf]
    | cons ib2 rest =>
      rw [hibs] at hl hnd hfresh
      have hlen : ¬ (((idsOf (ib :: ib2 :: rest)).length : Nat) : Int) = 1 := by
        simp only [idsOf, List.map_cons, List.length_cons]; omega
      simp only [hlen, if_false, splitStart]
      rw [splitGo_eq_source excl incl _ hl nd s.p hnd hfresh]

/-- The whole method: the dictionary it returns lists, group after group in the order of `distribution`, the set-points
of the model (all inverter ids pairwise distinct, as the component graph guarantees). -/
theorem split_eq_source (excl incl : Dict Int Rat) (ss : List Slot)
    (hl : ∀ s ∈ ss, Lookups excl incl s.en.it.ng.invs)
    (hnd : (ss.flatMap fun s => idsOf s.en.it.ng.invs).Nodup) :
    Extracted.DistLoops.distributeMultiInverterPairs (distOf (fun e => idsOf e.it.ng.invs) ss) excl incl =
      ss.flatMap fun s => spsOf (splitGroup s).sps := by
  unfold Extracted.DistLoops.distributeMultiInverterPairs
  suffices h : ∀ (nd : Dict Int Rat), (∀ i ∈ (ss.flatMap fun s => idsOf s.en.it.ng.invs), i ∉ nd.map (·.1)) →
      List.foldl (Extracted.DistLoops.distributeMultiInverterPairs_for1 excl incl) nd
        (distOf (fun e => idsOf e.it.ng.invs) ss) = nd ++ ss.flatMap fun s => spsOf (splitGroup s).sps by
    simpa using h [] (by simp)
  induction ss with
  | nil => intro nd _; simp [distOf]
  | cons s ss ih =>
    intro nd hfresh
    simp only [List.flatMap_cons, List.nodup_append] at hnd
    simp only [distOf, List.map_cons, List.foldl_cons]
    have hf1 : ∀ i ∈ idsOf s.en.it.ng.invs, i ∉ nd.map (·.1) := fun i hi => hfresh i (by simp [List.flatMap_cons, hi])
    rw [splitGroup_eq_source excl incl s (hl s (List.mem_cons_self)) nd hnd.1 hf1]
    have hids : (spsOf (splitGroup s).sps).map (·.1) = idsOf s.en.it.ng.invs := by
      unfold splitGroup
      cases hibs : s.en.it.ng.invs with
      | nil => simp [spsOf, idsOf, splitGo]
      | cons ib rest =>
        cases rest with
        | nil => simp [spsOf, idsOf]
        | cons ib2 rest => simpa using spsOf_ids _ _
    have := ih (fun x hx => hl x (List.mem_cons_of_mem _ hx)) hnd.2.1 (nd ++ spsOf (splitGroup s).sps) (by
      intro i hi
      simp only [List.map_append, List.mem_append, not_or]
      refine ⟨hfresh i (by simp only [List.flatMap_cons, List.mem_append]; exact Or.inr hi), ?_⟩
      rw [hids]
      intro hmem
      exact hnd.2.2 i hmem i hi rfl)
    simp only [distOf] at this
    rw [this]
    simp [List.flatMap_cons, List.append_assoc]

end DistTie
