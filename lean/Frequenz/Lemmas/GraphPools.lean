/-
Helper lemmas for C12, part 2: the consumer search without a grid meter, the pool walks (battery / PV),
EV chargers, CHP meters, and "the pool of all devices is closed".
-/
import Frequenz.Lemmas.Graph

namespace Graph
open Extracted.Graph

/-! ### consumer formula without a grid meter -/

theorem consumerCond_device (pos : Pos) (n : Node) (h : n.isMeter = false) : consumerCond pos n = false := by
  cases n with
  | meter id cs => simp [Node.isMeter] at h
  | _ => rfl

theorem consumerCond_meter (pos : Pos) (id : Nat) (cs : List Node) :
    consumerCond pos (.meter id cs) = !anyChain consumerNotChains pos (.meter id cs) := by
  simp [consumerCond, consumerCats, Node.cat]

mutual
theorem devSum_noDevice (k : Node → Bool) (env : Nat → Rat) : (n : Node) → n.hasDevice = false → n.devSum k env = 0
  | .meter _ cs, h => by simp only [Node.hasDevice] at h; simp only [Node.devSum]; exact devSumL_noDevice k env cs h
  | .batInv _ _, h => by simp [Node.hasDevice] at h
  | .pvInv _, h => by simp [Node.hasDevice] at h
  | .ev _, h => by simp [Node.hasDevice] at h
  | .chp _, h => by simp [Node.hasDevice] at h
theorem devSumL_noDevice (k : Node → Bool) (env : Nat → Rat) : (ns : List Node) → hasDeviceL ns = false →
    devSumL k env ns = 0
  | [], _ => rfl
  | n :: ns, h => by
    simp only [hasDeviceL, Bool.or_eq_false_iff] at h
    simp only [devSumL, devSum_noDevice k env n h.1, devSumL_noDevice k env ns h.2]; grind
end

/-- Device power below the meters picked by a search (what the no-grid-meter consumer formula adds on
top of the unmetered loads). -/
def sumDevFound (env : Nat → Rat) (fs : List Found) : Rat := (fs.map (fun f => f.node.devSum allDev env)).sum

theorem sumDevFound_nil (env : Nat → Rat) : sumDevFound env [] = 0 := by simp [sumDevFound]
theorem sumDevFound_append (env : Nat → Rat) (a b : List Found) :
    sumDevFound env (a ++ b) = sumDevFound env a + sumDevFound env b := by simp [sumDevFound]
theorem sumDevFound_cons (env : Nat → Rat) (a : Found) (b : List Found) :
    sumDevFound env (a :: b) = a.node.devSum allDev env + sumDevFound env b := by simp [sumDevFound]

theorem sumDevFound_noDevice (env : Nat → Rat) (fs : List Found)
    (h : fs.any (fun f => f.node.hasDevice) = false) : sumDevFound env fs = 0 := by
  induction fs with
  | nil => exact sumDevFound_nil env
  | cons f fs ih =>
    simp only [List.any_cons, Bool.or_eq_false_iff] at h
    rw [sumDevFound_cons, ih h.2, devSum_noDevice _ _ _ h.1]; grind

mutual
theorem loadSum_devices : (cs : List Node) → cs.all (fun c => !c.isMeter) = true → loadSumL load cs = 0
  | [], _ => rfl
  | c :: cs, h => by
    simp only [List.all_cons, Bool.and_eq_true, Bool.not_eq_true'] at h
    have := loadSum_devices (load := load) cs (by simpa using h.2)
    cases c <;> simp_all [Node.isMeter, loadSumL, Node.loadSum] <;> grind
end

mutual
theorem consumer_dfs_sum (env load : Nat → Rat) :
    (n : Node) → (pos : Pos) → (parent : Option (Node × Pos)) →
    n.law env load = true → n.noLoadAtDedicated load = true →
    sumPrim env ((dfs consumerCond pos parent n).map primaryOf)
        = n.loadSum load + sumDevFound env (dfs consumerCond pos parent n)
      ∧ fbOk env ((dfs consumerCond pos parent n).map primaryOf)
  | .meter id cs, pos, parent, hl, hn => by
    by_cases hcn : consumerCond pos (.meter id cs) = true
    · have ht := read_eq_total env load (.meter id cs) hl
      simp only [Node.id] at ht
      simp only [dfs, hcn, if_true, List.map_cons, List.map_nil, primaryOf_meter, sumPrim_cons, sumPrim_nil,
        sumDevFound_cons, sumDevFound_nil, Node.id]
      exact ⟨by grind, fbOk_cons _ _ _ (meterFallback_ok env load id cs hl hn) (fbOk_nil _)⟩
    · have hcf : consumerCond pos (.meter id cs) = false := by simpa using hcn
      have hch : anyChain consumerNotChains pos (.meter id cs) = true := by
        rw [consumerCond_meter] at hcf; simpa using hcf
      obtain ⟨hd, _⟩ := (condSpec_anyChain consumerNotChains).meter pos id cs hch
      have hl' := hl
      have hn' := hn
      simp only [Node.law, Bool.and_eq_true] at hl
      simp only [Node.noLoadAtDedicated, Bool.and_eq_true, Bool.or_eq_true, Bool.not_eq_true', decide_eq_true_eq] at hn
      have hz : load id = 0 := by
        rcases hn.1 with h | h
        · rw [hd] at h; cases h
        · exact h
      obtain ⟨h1, f1⟩ := consumer_dfsL_sum env load cs (belowMeter cs) (some (.meter id cs, pos)) hl.2 hn.2
      simp only [dfs, hcf, Bool.false_eq_true, if_false, Node.loadSum, h1, hz]
      exact ⟨by grind, f1⟩
  | .batInv id bs, pos, parent, _, _ => by
    rw [dfs_device _ _ _ _ rfl, consumerCond_device _ _ rfl]
    exact ⟨by simp [sumPrim, sumDevFound, Node.loadSum] <;> grind, fbOk_nil _⟩
  | .pvInv id, pos, parent, _, _ => by
    rw [dfs_device _ _ _ _ rfl, consumerCond_device _ _ rfl]
    exact ⟨by simp [sumPrim, sumDevFound, Node.loadSum] <;> grind, fbOk_nil _⟩
  | .ev id, pos, parent, _, _ => by
    rw [dfs_device _ _ _ _ rfl, consumerCond_device _ _ rfl]
    exact ⟨by simp [sumPrim, sumDevFound, Node.loadSum] <;> grind, fbOk_nil _⟩
  | .chp id, pos, parent, _, _ => by
    rw [dfs_device _ _ _ _ rfl, consumerCond_device _ _ rfl]
    exact ⟨by simp [sumPrim, sumDevFound, Node.loadSum] <;> grind, fbOk_nil _⟩
theorem consumer_dfsL_sum (env load : Nat → Rat) :
    (ns : List Node) → (pos : Pos) → (parent : Option (Node × Pos)) →
    lawL env load ns = true → noLoadAtDedicatedL load ns = true →
    sumPrim env ((dfsL consumerCond pos parent ns).map primaryOf)
        = loadSumL load ns + sumDevFound env (dfsL consumerCond pos parent ns)
      ∧ fbOk env ((dfsL consumerCond pos parent ns).map primaryOf)
  | [], _, _, _, _ => by
    simp only [dfsL, List.map_nil, sumPrim_nil, loadSumL, sumDevFound_nil]
    exact ⟨by grind, fbOk_nil _⟩
  | n :: ns, pos, parent, hl, hn => by
    simp only [lawL, Bool.and_eq_true] at hl
    simp only [noLoadAtDedicatedL, Bool.and_eq_true] at hn
    obtain ⟨h1, f1⟩ := consumer_dfs_sum env load n pos parent hl.1 hn.1
    obtain ⟨h2, f2⟩ := consumer_dfsL_sum env load ns pos parent hl.2 hn.2
    simp only [dfsL, List.map_append, sumPrim_append, loadSumL, sumDevFound_append, h1, h2]
    exact ⟨by grind, fbOk_append _ _ _ f1 f2⟩
end

/-! ### pool walks -/

theorem sumPrim_own (env : Nat → Rat) (cs : List Node) :
    sumPrim env (cs.map (fun c => (c, ([] : List Node)))) = sumEnv env cs := by
  simp [sumPrim, sumEnv, List.map_map, Function.comp_def]

theorem fbOk_own (env : Nat → Rat) (cs : List Node) : fbOk env (cs.map (fun c => (c, ([] : List Node)))) := by
  intro pf h
  obtain ⟨c, _, rfl⟩ := List.mem_map.mp h
  exact Or.inl rfl

/-- The two filters of `poolWalk` at a meter: all selected successors are paired with the meter, or none. -/
theorem pool_filters (l : Leaf) (sel : Node → Bool) (hsel : ∀ c, sel c = true → leafTest l c = true)
    (pos : Pos) (m : Node) (cs : List Node) (ok : Bool) :
    cs.filter (fun c => sel c && (isPrimaryFallbackPair pos m c && ok))
        = (if (meterPred (pairedMeter l) pos m && ok) then cs.filter sel else [])
      ∧ cs.filter (fun c => sel c && !(isPrimaryFallbackPair pos m c && ok))
        = (if (meterPred (pairedMeter l) pos m && ok) then [] else cs.filter sel) := by
  have e : ∀ c, sel c = true → (isPrimaryFallbackPair pos m c && ok) = (meterPred (pairedMeter l) pos m && ok) :=
    fun c hc => by rw [pair_of_leaf l pos m c (hsel c hc)]
  by_cases hB : (meterPred (pairedMeter l) pos m && ok) = true
  · simp only [hB, if_true]
    constructor
    · apply List.filter_congr
      intro c _
      by_cases hc : sel c = true
      · simp [hc, e c hc, hB]
      · simp [hc]
    · rw [List.filter_eq_nil_iff]
      intro c _
      by_cases hc : sel c = true
      · simp [hc, e c hc, hB]
      · simp [hc]
  · have hB' : (meterPred (pairedMeter l) pos m && ok) = false := by simpa using hB
    simp only [hB', Bool.false_eq_true, if_false]
    constructor
    · rw [List.filter_eq_nil_iff]
      intro c _
      by_cases hc : sel c = true
      · simp [hc, e c hc, hB']
      · simp [hc]
    · apply List.filter_congr
      intro c _
      by_cases hc : sel c = true
      · simp [hc, e c hc, hB']
      · simp [hc]

theorem filter_all_self (sel : Node → Bool) (cs : List Node) (h : cs.all sel = true) : cs.filter sel = cs := by
  rw [List.filter_eq_self]
  exact fun c hc => List.all_eq_true.mp h c hc

theorem sumEnv_filter_cons (env : Nat → Rat) (sel : Node → Bool) (n : Node) (ns : List Node) :
    sumEnv env ((n :: ns).filter sel) = (if sel n then env n.id else 0) + sumEnv env (ns.filter sel) := by
  by_cases h : sel n = true
  · simp [h, sumEnv_cons]
  · have h' : sel n = false := by simpa using h
    simp only [List.filter_cons, h', Bool.false_eq_true, if_false]; grind

mutual
theorem walk_sum (req : Bool) (l : Leaf) (sel : Node → Bool) (hsel : ∀ c, sel c = true → leafTest l c = true)
    (env load : Nat → Rat) :
    (n : Node) → (pos : Pos) → n.law env load = true → n.noLoadAtDedicated load = true →
    (req = true ∨ poolClosed sel pos n = true) →
    sumPrim env (poolWalk req sel pos n) + (if sel n then env n.id else 0) = n.devSum sel env
      ∧ fbOk env (poolWalk req sel pos n)
  | .meter id cs, pos, hl, hn, hc => by
    have hselm : sel (.meter id cs) = false := by
      cases h : sel (.meter id cs)
      · rfl
      · have := hsel _ h; rw [leafTest_meter] at this; cases this
    obtain ⟨hp, ho⟩ := pool_filters l sel hsel pos (.meter id cs) cs (!req || cs.all sel)
    have hl' := hl
    have hn' := hn
    simp only [Node.law, Bool.and_eq_true] at hl
    simp only [Node.noLoadAtDedicated, Bool.and_eq_true] at hn
    have hcL : req = true ∨ poolClosedL sel (belowMeter cs) cs = true := by
      rcases hc with h | h
      · exact Or.inl h
      · simp only [poolClosed, Bool.and_eq_true] at h; exact Or.inr h.2
    obtain ⟨h1, f1⟩ := walkL_sum req l sel hsel env load cs (belowMeter cs) hl.2 hn.2 hcL
    simp only [poolWalk, hp, ho, hselm, Bool.false_eq_true, if_false, Node.devSum]
    by_cases hB : (meterPred (pairedMeter l) pos (.meter id cs) && (!req || cs.all sel)) = true
    · have hB2 := hB
      simp only [Bool.and_eq_true, Bool.or_eq_true, Bool.not_eq_true'] at hB2
      obtain ⟨hne, hall⟩ := meterPred_meter _ _ _ _ hB2.1
      rw [pairedMeter_leaf] at hall
      simp only [hB, if_true, List.map_nil, List.append_nil]
      by_cases hemp : (cs.filter sel).isEmpty = true
      · have hnil : cs.filter sel = [] := by simpa using hemp
        simp only [hemp, if_true, List.nil_append]
        rw [hnil] at h1
        simp only [sumEnv_nil] at h1
        exact ⟨by grind, f1⟩
      · have hemp' : (cs.filter sel).isEmpty = false := by simpa using hemp
        have hallsel : cs.all sel = true := by
          rcases hB2.2 with hreq | h
          · -- pinned behaviour: closedness of the pool is needed
            rcases hc with h | h
            · rw [h] at hreq; cases hreq
            · simp only [poolClosed, Bool.and_eq_true, Bool.or_eq_true, Bool.not_eq_true'] at h
              rcases h.1 with h' | h'
              · exfalso
                have hne' : cs.filter sel ≠ [] := by simpa using hemp
                obtain ⟨c, hcm⟩ := List.exists_mem_of_ne_nil _ hne'
                rw [List.mem_filter] at hcm
                have := List.any_eq_false.mp h' c hcm.1
                rw [pair_of_leaf l pos (.meter id cs) c (hsel c hcm.2), hB2.1, hcm.2] at this
                simp at this
              · exact h'
          · exact h
        have hself := filter_all_self sel cs hallsel
        have hread := meter_reads_children env load id cs hl' hn' (dedicated_of_leaf l cs hne hall)
        rw [hself] at h1 hemp' ⊢
        simp only [hemp', Bool.false_eq_true, if_false, List.singleton_append, sumPrim_cons, Node.id]
        refine ⟨by grind, fbOk_cons _ _ _ (Or.inr hread.symm) f1⟩
    · have hB' : (meterPred (pairedMeter l) pos (.meter id cs) && (!req || cs.all sel)) = false := by simpa using hB
      simp only [hB', Bool.false_eq_true, if_false, List.isEmpty_nil, if_true, List.nil_append, sumPrim_append,
        sumPrim_own]
      exact ⟨by grind, fbOk_append _ _ _ (fbOk_own env _) f1⟩
  | .batInv id bs, pos, _, _, _ => by
    simp only [poolWalk, sumPrim_nil, Node.devSum, Node.id]; exact ⟨by grind, fbOk_nil _⟩
  | .pvInv id, pos, _, _, _ => by
    simp only [poolWalk, sumPrim_nil, Node.devSum, Node.id]; exact ⟨by grind, fbOk_nil _⟩
  | .ev id, pos, _, _, _ => by
    simp only [poolWalk, sumPrim_nil, Node.devSum, Node.id]; exact ⟨by grind, fbOk_nil _⟩
  | .chp id, pos, _, _, _ => by
    simp only [poolWalk, sumPrim_nil, Node.devSum, Node.id]; exact ⟨by grind, fbOk_nil _⟩
theorem walkL_sum (req : Bool) (l : Leaf) (sel : Node → Bool) (hsel : ∀ c, sel c = true → leafTest l c = true)
    (env load : Nat → Rat) :
    (ns : List Node) → (pos : Pos) → lawL env load ns = true → noLoadAtDedicatedL load ns = true →
    (req = true ∨ poolClosedL sel pos ns = true) →
    sumPrim env (poolWalkL req sel pos ns) + sumEnv env (ns.filter sel) = devSumL sel env ns
      ∧ fbOk env (poolWalkL req sel pos ns)
  | [], _, _, _, _ => by
    simp only [poolWalkL, sumPrim_nil, List.filter_nil, sumEnv_nil, devSumL]; exact ⟨by grind, fbOk_nil _⟩
  | n :: ns, pos, hl, hn, hc => by
    simp only [lawL, Bool.and_eq_true] at hl
    simp only [noLoadAtDedicatedL, Bool.and_eq_true] at hn
    have hc1 : req = true ∨ poolClosed sel pos n = true := by
      rcases hc with h | h
      · exact Or.inl h
      · simp only [poolClosedL, Bool.and_eq_true] at h; exact Or.inr h.1
    have hc2 : req = true ∨ poolClosedL sel pos ns = true := by
      rcases hc with h | h
      · exact Or.inl h
      · simp only [poolClosedL, Bool.and_eq_true] at h; exact Or.inr h.2
    obtain ⟨h1, f1⟩ := walk_sum req l sel hsel env load n pos hl.1 hn.1 hc1
    obtain ⟨h2, f2⟩ := walkL_sum req l sel hsel env load ns pos hl.2 hn.2 hc2
    simp only [poolWalkL, sumPrim_append, sumEnv_filter_cons, devSumL]
    exact ⟨by grind, fbOk_append _ _ _ f1 f2⟩
end

theorem poolTerms_sum (req : Bool) (l : Leaf) (sel : Node → Bool) (hsel : ∀ c, sel c = true → leafTest l c = true)
    (env load : Nat → Rat) (g : Grid) (hl : lawL env load g.succ = true)
    (hn : noLoadAtDedicatedL load g.succ = true)
    (hc : req = true ∨ poolClosedL sel (topPos g) g.succ = true) :
    sumPrim env (poolTerms req sel g) = devSumL sel env g.succ ∧ fbOk env (poolTerms req sel g) := by
  obtain ⟨h1, f1⟩ := walkL_sum req l sel hsel env load g.succ (topPos g) hl hn hc
  simp only [poolTerms, sumPrim_append, sumPrim_own]
  exact ⟨by grind, fbOk_append _ _ _ (fbOk_own env _) f1⟩

/-! ### the pool of ALL devices of a kind is closed, and selects exactly that kind -/

mutual
/-- `sel` selects every device of kind `k` in the subtree. -/
def Node.selFull (sel k : Node → Bool) : Node → Bool
  | .meter _ cs => selFullL sel k cs
  | .batInv id bs => !k (.batInv id bs) || sel (.batInv id bs)
  | .pvInv id => !k (.pvInv id) || sel (.pvInv id)
  | .ev id => !k (.ev id) || sel (.ev id)
  | .chp id => !k (.chp id) || sel (.chp id)
def selFullL (sel k : Node → Bool) : List Node → Bool
  | [] => true
  | n :: ns => n.selFull sel k && selFullL sel k ns
end

theorem selFull_device (sel k : Node → Bool) (n : Node) (h : n.isMeter = false) :
    n.selFull sel k = (!k n || sel n) := by
  cases n with
  | meter id cs => simp [Node.isMeter] at h
  | _ => rfl

mutual
theorem devSum_selFull (sel k : Node → Bool) (hsub : ∀ c, sel c = true → k c = true) (env : Nat → Rat) :
    (n : Node) → n.selFull sel k = true → n.devSum sel env = n.devSum k env
  | .meter _ cs, h => by
    simp only [Node.selFull] at h; simp only [Node.devSum]; exact devSumL_selFull sel k hsub env cs h
  | .batInv id bs, h => by
    simp only [Node.selFull, Bool.or_eq_true, Bool.not_eq_true'] at h
    have := hsub (.batInv id bs)
    simp only [Node.devSum]
    cases hk : k (.batInv id bs) <;> cases hs : sel (.batInv id bs) <;> simp_all
  | .pvInv id, h => by
    simp only [Node.selFull, Bool.or_eq_true, Bool.not_eq_true'] at h
    have := hsub (.pvInv id)
    simp only [Node.devSum]
    cases hk : k (.pvInv id) <;> cases hs : sel (.pvInv id) <;> simp_all
  | .ev id, h => by
    simp only [Node.selFull, Bool.or_eq_true, Bool.not_eq_true'] at h
    have := hsub (.ev id)
    simp only [Node.devSum]
    cases hk : k (.ev id) <;> cases hs : sel (.ev id) <;> simp_all
  | .chp id, h => by
    simp only [Node.selFull, Bool.or_eq_true, Bool.not_eq_true'] at h
    have := hsub (.chp id)
    simp only [Node.devSum]
    cases hk : k (.chp id) <;> cases hs : sel (.chp id) <;> simp_all
theorem devSumL_selFull (sel k : Node → Bool) (hsub : ∀ c, sel c = true → k c = true) (env : Nat → Rat) :
    (ns : List Node) → selFullL sel k ns = true → devSumL sel env ns = devSumL k env ns
  | [], _ => rfl
  | n :: ns, h => by
    simp only [selFullL, Bool.and_eq_true] at h
    simp only [devSumL, devSum_selFull sel k hsub env n h.1, devSumL_selFull sel k hsub env ns h.2]
end

/-- Successors that all pass the leaf test and are fully selected are all selected. -/
theorem all_sel_of_full (l : Leaf) (sel : Node → Bool) (cs : List Node)
    (hall : cs.all (leafTest l) = true) (hf : selFullL sel (leafTest l) cs = true) : cs.all sel = true := by
  induction cs with
  | nil => rfl
  | cons c cs ih =>
    simp only [List.all_cons, Bool.and_eq_true] at hall ⊢
    simp only [selFullL, Bool.and_eq_true] at hf
    refine ⟨?_, ih hall.2 hf.2⟩
    have hm := leafTest_isMeter l c hall.1
    rw [selFull_device sel _ c hm, hall.1] at hf
    simpa using hf.1

mutual
theorem closed_of_full (l : Leaf) (sel : Node → Bool) (hsel : ∀ c, sel c = true → leafTest l c = true) :
    (n : Node) → (pos : Pos) → n.selFull sel (leafTest l) = true → poolClosed sel pos n = true
  | .meter id cs, pos, h => by
    simp only [Node.selFull] at h
    simp only [poolClosed, Bool.and_eq_true, Bool.or_eq_true, Bool.not_eq_true']
    refine ⟨?_, closedL_of_full l sel hsel cs (belowMeter cs) h⟩
    by_cases hany : cs.any (fun c => sel c && isPrimaryFallbackPair pos (.meter id cs) c) = true
    · right
      obtain ⟨c, _, hc⟩ := List.any_eq_true.mp hany
      simp only [Bool.and_eq_true] at hc
      rw [pair_of_leaf l pos (.meter id cs) c (hsel c hc.1)] at hc
      obtain ⟨_, hall⟩ := meterPred_meter _ _ _ _ hc.2
      rw [pairedMeter_leaf] at hall
      exact all_sel_of_full l sel cs hall h
    · left; simpa using hany
  | .batInv _ _, _, _ => rfl
  | .pvInv _, _, _ => rfl
  | .ev _, _, _ => rfl
  | .chp _, _, _ => rfl
theorem closedL_of_full (l : Leaf) (sel : Node → Bool) (hsel : ∀ c, sel c = true → leafTest l c = true) :
    (ns : List Node) → (pos : Pos) → selFullL sel (leafTest l) ns = true → poolClosedL sel pos ns = true
  | [], _, _ => rfl
  | n :: ns, pos, h => by
    simp only [selFullL, Bool.and_eq_true] at h
    simp only [poolClosedL, Bool.and_eq_true]
    exact ⟨closed_of_full l sel hsel n pos h.1, closedL_of_full l sel hsel ns pos h.2⟩
end

/-! #### PV: the pool of all PV inverter ids -/

mutual
theorem pv_full (ids : List Nat) : (n : Node) → (∀ i ∈ n.idsWhere Node.isPv, i ∈ ids) →
    n.selFull (pvSel ids) (leafTest .pvInverter) = true
  | .meter id cs, h => by
    simp only [Node.selFull]
    apply pv_fullL ids cs
    intro i hi
    apply h
    simp only [Node.idsWhere, Node.isPv, Bool.false_eq_true, if_false, List.nil_append]
    exact hi
  | .batInv _ _, _ => rfl
  | .pvInv id, h => by
    have : id ∈ ids := h id (by simp [Node.idsWhere, Node.isPv])
    simp [Node.selFull, pvSel, leafTest_pv, Node.isPv, Node.id, this]
  | .ev _, _ => rfl
  | .chp _, _ => rfl
theorem pv_fullL (ids : List Nat) : (ns : List Node) → (∀ i ∈ idsWhereL Node.isPv ns, i ∈ ids) →
    selFullL (pvSel ids) (leafTest .pvInverter) ns = true
  | [], _ => rfl
  | n :: ns, h => by
    simp only [selFullL, Bool.and_eq_true]
    refine ⟨pv_full ids n (fun i hi => h i ?_), pv_fullL ids ns (fun i hi => h i ?_)⟩
    · simp only [idsWhereL, List.mem_append]; exact Or.inl hi
    · simp only [idsWhereL, List.mem_append]; exact Or.inr hi
end

/-! #### batteries: the pool of all battery ids -/

mutual
theorem bat_full (S : List Nat) : (n : Node) → (∀ b ∈ n.allBats, b ∈ S) → n.invsHaveBats = true →
    n.selFull (batSel S) (leafTest .batteryInverter) = true ∧ batErr S n = false
  | .meter id cs, h, hb => by
    simp only [Node.selFull, batErr]
    simp only [Node.invsHaveBats] at hb
    exact bat_fullL S cs (fun b hb' => h b (by simpa [Node.allBats] using hb')) hb
  | .batInv id bs, h, hb => by
    simp only [Node.invsHaveBats, Bool.not_eq_true', List.isEmpty_eq_false_iff] at hb
    have hall : bs.all (fun b => S.contains b) = true := by
      rw [List.all_eq_true]; intro b hb'
      simpa using h b (by simpa [Node.allBats] using hb')
    have hany : bs.any (fun b => S.contains b) = true := by
      obtain ⟨b, hb'⟩ := List.exists_mem_of_ne_nil bs hb
      exact List.any_eq_true.mpr ⟨b, hb', List.all_eq_true.mp hall b hb'⟩
    simp only [Node.selFull, batErr, batSel, batteryInverterLeaf, Node.bats, hany, hall, leafTest_bat, Node.isBat]
    simp
  | .pvInv _, _, _ => ⟨rfl, rfl⟩
  | .ev _, _, _ => ⟨rfl, rfl⟩
  | .chp _, _, _ => ⟨rfl, rfl⟩
theorem bat_fullL (S : List Nat) : (ns : List Node) → (∀ b ∈ allBatsL ns, b ∈ S) → invsHaveBatsL ns = true →
    selFullL (batSel S) (leafTest .batteryInverter) ns = true ∧ batErrL S ns = false
  | [], _, _ => ⟨rfl, rfl⟩
  | n :: ns, h, hb => by
    simp only [invsHaveBatsL, Bool.and_eq_true] at hb
    obtain ⟨a1, b1⟩ := bat_full S n (fun b hb' => h b (by simp only [allBatsL, List.mem_append]; exact Or.inl hb')) hb.1
    obtain ⟨a2, b2⟩ := bat_fullL S ns (fun b hb' => h b (by simp only [allBatsL, List.mem_append]; exact Or.inr hb')) hb.2
    simp only [selFullL, batErrL, a1, a2, b1, b2]
    exact ⟨rfl, rfl⟩
end

/-! ### EV chargers -/

def sumIds (env : Nat → Rat) (ids : List Nat) : Rat := (ids.map env).sum

theorem sumIds_append (env : Nat → Rat) (a b : List Nat) : sumIds env (a ++ b) = sumIds env a + sumIds env b := by
  simp [sumIds]

mutual
theorem sumIds_idsWhere (k : Node → Bool) (hk : ∀ id cs, k (.meter id cs) = false) (env : Nat → Rat) :
    (n : Node) → sumIds env (n.idsWhere k) = n.devSum k env
  | .meter id cs => by
    simp only [Node.idsWhere, hk id cs, Bool.false_eq_true, if_false, List.nil_append, Node.devSum]
    exact sumIds_idsWhereL k hk env cs
  | .batInv id bs => by
    simp only [Node.idsWhere, Node.devSum]; split <;> simp [sumIds] <;> grind
  | .pvInv id => by
    simp only [Node.idsWhere, Node.devSum]; split <;> simp [sumIds] <;> grind
  | .ev id => by
    simp only [Node.idsWhere, Node.devSum]; split <;> simp [sumIds] <;> grind
  | .chp id => by
    simp only [Node.idsWhere, Node.devSum]; split <;> simp [sumIds] <;> grind
theorem sumIds_idsWhereL (k : Node → Bool) (hk : ∀ id cs, k (.meter id cs) = false) (env : Nat → Rat) :
    (ns : List Node) → sumIds env (idsWhereL k ns) = devSumL k env ns
  | [] => by simp [sumIds, idsWhereL, devSumL]
  | n :: ns => by
    simp only [idsWhereL, sumIds_append, devSumL, sumIds_idsWhere k hk env n, sumIds_idsWhereL k hk env ns]
end

theorem evalTerms_ev (env : Nat → Rat) (ids : List Nat) :
    evalTerms env (ids.map (fun i => (⟨false, i, nazEval evNaz .evCharger, []⟩ : Term))) = sumIds env ids := by
  induction ids with
  | nil => rfl
  | cons i is ih =>
    simp only [List.map_cons, evalTerms_cons, ih, sumIds, List.sum_cons]
    rfl

/-! ### CHP meters -/

theorem isChpNode_eq (n : Node) : isChpNode n = n.isChp := by cases n <;> rfl

mutual
theorem chpErr_false : (n : Node) → n.chpMetered = true → chpErr n = false
  | .meter _ cs, h => by
    simp only [Node.chpMetered, Bool.and_eq_true, Bool.or_eq_true, Bool.not_eq_true'] at h
    have e : isChpNode = Node.isChp := funext isChpNode_eq
    simp only [chpErr, e, chpErrL_false cs h.2, Bool.or_false, Bool.and_eq_false_imp]
    intro ha
    rcases h.1 with h1 | h1
    · rw [ha] at h1; cases h1
    · simpa using h1
  | .batInv _ _, _ => rfl
  | .pvInv _, _ => rfl
  | .ev _, _ => rfl
  | .chp _, _ => rfl
theorem chpErrL_false : (ns : List Node) → chpMeteredL ns = true → chpErrL ns = false
  | [], _ => rfl
  | n :: ns, h => by
    simp only [chpMeteredL, Bool.and_eq_true] at h
    simp only [chpErrL, chpErr_false n h.1, chpErrL_false ns h.2, Bool.or_false]
end

theorem filter_none (k : Node → Bool) (cs : List Node) (h : cs.any k = false) : cs.filter k = [] := by
  rw [List.filter_eq_nil_iff]
  intro c hc
  have := List.any_eq_false.mp h c hc
  simpa using this

theorem dedicated_of_chp (cs : List Node) (hany : cs.any Node.isChp = true) (hall : cs.all Node.isChp = true) :
    dedicated cs = true := by
  have hne : cs.isEmpty = false := by
    cases cs with
    | nil => simp at hany
    | cons c cs => rfl
  simp [dedicated, dedicatedTo, hne, hall]

mutual
theorem chp_sum (env load : Nat → Rat) :
    (n : Node) → n.law env load = true → n.noLoadAtDedicated load = true → n.chpMetered = true →
    sumEnv env (chpMeters n) + (if n.isChp then env n.id else 0) = n.devSum Node.isChp env
  | .meter id cs, hl, hn, hm => by
    have hl' := hl
    have hn' := hn
    simp only [Node.law, Bool.and_eq_true] at hl
    simp only [Node.noLoadAtDedicated, Bool.and_eq_true] at hn
    simp only [Node.chpMetered, Bool.and_eq_true, Bool.or_eq_true, Bool.not_eq_true'] at hm
    have ih := chp_sumL env load cs hl.2 hn.2 hm.2
    have e : isChpNode = Node.isChp := funext isChpNode_eq
    simp only [chpMeters, e, Node.isChp, Bool.false_eq_true, if_false, Node.devSum]
    by_cases hany : cs.any Node.isChp = true
    · have hall : cs.all Node.isChp = true := by
        rcases hm.1 with h | h
        · rw [hany] at h; cases h
        · exact h
      have hread := meter_reads_children env load id cs hl' hn' (dedicated_of_chp cs hany hall)
      rw [filter_all_self Node.isChp cs hall] at ih
      simp only [hany, if_true, List.singleton_append, sumEnv_cons, Node.id]
      grind
    · have hany' : cs.any Node.isChp = false := by simpa using hany
      rw [filter_none Node.isChp cs hany', sumEnv_nil] at ih
      simp only [hany', Bool.false_eq_true, if_false, List.nil_append]
      grind
  | .batInv _ _, _, _, _ => by simp only [chpMeters, sumEnv_nil, Node.isChp, Node.devSum]; grind
  | .pvInv _, _, _, _ => by simp only [chpMeters, sumEnv_nil, Node.isChp, Node.devSum]; grind
  | .ev _, _, _, _ => by simp only [chpMeters, sumEnv_nil, Node.isChp, Node.devSum]; grind
  | .chp id, _, _, _ => by simp only [chpMeters, sumEnv_nil, Node.isChp, Node.devSum, Node.id, if_true]; grind
theorem chp_sumL (env load : Nat → Rat) :
    (ns : List Node) → lawL env load ns = true → noLoadAtDedicatedL load ns = true → chpMeteredL ns = true →
    sumEnv env (chpMetersL ns) + sumEnv env (ns.filter Node.isChp) = devSumL Node.isChp env ns
  | [], _, _, _ => by simp only [chpMetersL, List.filter_nil, sumEnv_nil, devSumL]; grind
  | n :: ns, hl, hn, hm => by
    simp only [lawL, Bool.and_eq_true] at hl
    simp only [noLoadAtDedicatedL, Bool.and_eq_true] at hn
    simp only [chpMeteredL, Bool.and_eq_true] at hm
    have h1 := chp_sum env load n hl.1 hn.1 hm.1
    have h2 := chp_sumL env load ns hl.2 hn.2 hm.2
    have ha : sumEnv env (chpMeters n ++ chpMetersL ns) = sumEnv env (chpMeters n) + sumEnv env (chpMetersL ns) := by
      simp [sumEnv]
    simp only [chpMetersL, ha, sumEnv_filter_cons, devSumL]
    grind
end

theorem evalTerms_chp (env : Nat → Rat) (ms : List Node) :
    evalTerms env (ms.map (fun m => (⟨false, m.id, nazEval chpNaz m.cat, []⟩ : Term))) = sumEnv env ms := by
  induction ms with
  | nil => rfl
  | cons m ms ih =>
    simp only [List.map_cons, evalTerms_cons, ih, sumEnv_cons]
    rfl

end Graph
