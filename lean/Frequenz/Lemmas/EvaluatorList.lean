/-
Small list facts shared by the C06 / C19 proofs (queues are suffixes `all.drop n` of delivery histories).
-/

namespace QList

theorem drop_eq_cons {α} : ∀ (l : List α) (n : Nat) (x : α) (r : List α),
    l.drop n = x :: r → l[n]? = some x ∧ l.drop (n + 1) = r
  | [], n, x, r, h => by simp at h
  | a :: l, 0, x, r, h => by
      simp at h; obtain ⟨rfl, rfl⟩ := h; simp
  | a :: l, n + 1, x, r, h => by
      simp at h
      have := drop_eq_cons l n x r h
      simpa using this

theorem drop_eq_nil_iff {α} (l : List α) (n : Nat) : l.drop n = [] ↔ l.length ≤ n := by
  simp

theorem getElem?_append_some {α} (l : List α) (a : α) (i : Nat) (x : α) (h : l[i]? = some x) :
    (l ++ [a])[i]? = some x := by
  have hi : i < l.length := by
    rcases Nat.lt_or_ge i l.length with h' | h'
    · exact h'
    · rw [List.getElem?_eq_none h'] at h; cases h
  rw [List.getElem?_append_left hi]; exact h

theorem getElem?_append_last {α} (l : List α) (a : α) : (l ++ [a])[l.length]? = some a := by
  simp

theorem getElem?_append_cases {α} (l : List α) (a : α) (i : Nat) (x : α) (h : (l ++ [a])[i]? = some x) :
    l[i]? = some x ∨ (i = l.length ∧ x = a) := by
  rcases Nat.lt_trichotomy i l.length with h' | h' | h'
  · left; rw [List.getElem?_append_left h'] at h; exact h
  · right; subst h'; simp at h; exact ⟨rfl, h.symm⟩
  · have : (l ++ [a]).length ≤ i := by simp; omega
    rw [List.getElem?_eq_none this] at h; cases h

theorem drop_append_single {α} (l : List α) (a : α) (n : Nat) (h : n ≤ l.length) :
    (l ++ [a]).drop n = l.drop n ++ [a] := by
  rw [List.drop_append_of_le_length h]

theorem lt_length_of_getElem? {α} (l : List α) (i : Nat) (x : α) (h : l[i]? = some x) : i < l.length := by
  rcases Nat.lt_or_ge i l.length with h' | h'
  · exact h'
  · rw [List.getElem?_eq_none h'] at h; cases h

end QList
