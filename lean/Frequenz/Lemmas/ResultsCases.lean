/-
Case analysis of `batResult` / `pvResult` (serves: C15).  Everything that depends on the extracted
handling tables and result expressions is unfolded here, so a change of the source breaks these proofs.
-/
import Frequenz.Lemmas.ResultsBounds

namespace Results

open Extracted.Distributor

/-! ## the extracted tables: a call fails exactly when it does not return normally -/

theorem bat_failed_iff (o : Outcome) : batHandling o = Handling.failed ↔ o ≠ Outcome.ok := by
  cases o <;> simp [batHandling]

theorem bat_never_propagates (o : Outcome) : batHandling o ≠ Handling.propagates := by
  cases o <;> simp [batHandling]

theorem pv_failed_iff (o : Outcome) : pvHandling o = Handling.failed ↔ o ≠ Outcome.ok := by
  cases o <;> simp [pvHandling]

theorem pv_succeeded_iff (o : Outcome) : pvHandling o = Handling.succeeded ↔ o = Outcome.ok := by
  cases o <;> simp [pvHandling]

theorem pv_never_propagates (o : Outcome) : pvHandling o ≠ Handling.propagates := by
  cases o <;> simp [pvHandling]

theorem isFailed_iff (sp : SetPoint) : sp.isFailed = true ↔ sp.outcome ≠ Outcome.ok := by
  simp [SetPoint.isFailed, bat_failed_iff]

theorem filter_isFailed (sps : List SetPoint) :
    sps.filter SetPoint.isFailed = sps.filter (fun sp => decide (sp.outcome ≠ Outcome.ok)) := by
  apply List.filter_congr
  intro sp _
  cases h : sp.isFailed with
  | true => simp [(isFailed_iff sp).mp h]
  | false =>
    have : ¬ (sp.outcome ≠ Outcome.ok) := fun h' => by simp [(isFailed_iff sp).mpr h'] at h
    simp at this
    simp [this]

/-! ## batteries -/

/-- The two shapes of a battery result. -/
theorem batResult_cases (P remaining : Rat) (ib : Nat → List Nat) (sps : List SetPoint) :
    let fp := ((sps.filter SetPoint.isFailed).map (·.power)).sum
    let fb := (sps.filter SetPoint.isFailed).flatMap (fun sp => ib sp.inv)
    batResult P remaining ib sps =
      if fb ≠ [] then
        some { partialFailure := true, succeededPower := (P - remaining) - fp,
               succeeded := (addressed ib sps).filter (fun b => decide (b ∉ fb)),
               failedPower := fp, failed := fb, excess := remaining }
      else
        some { partialFailure := false, succeededPower := P - remaining, succeeded := addressed ib sps,
               failedPower := 0, failed := [], excess := remaining } := by
  intro fp fb
  have hno : (sps.any fun sp => decide (batHandling sp.outcome = Handling.propagates)) = false := by
    simp [bat_never_propagates]
  simp only [batResult, hno, parseResult_fst, parseResult_snd, batPfSucceeded, batPfFailed, batPfExcess,
    batOkSucceeded, batOkExcess]
  rfl

/-- With at least one battery behind every addressed inverter, no failed call is hidden:
`failed_batteries` is empty only if no call failed. -/
theorem failed_nil_iff (ib : Nat → List Nat) (sps : List SetPoint) (hw : ∀ sp ∈ sps, ib sp.inv ≠ []) :
    (sps.filter SetPoint.isFailed).flatMap (fun sp => ib sp.inv) = [] ↔ sps.filter SetPoint.isFailed = [] := by
  constructor
  · intro h
    cases hf : sps.filter SetPoint.isFailed with
    | nil => rfl
    | cons sp l =>
      have hm : sp ∈ sps.filter SetPoint.isFailed := by rw [hf]; exact List.mem_cons_self
      have hsp : sp ∈ sps := (List.mem_filter.mp hm).1
      have hne := hw sp hsp
      have : ib sp.inv = [] := by
        have hall := List.flatMap_eq_nil_iff.mp h sp hm
        exact hall
      exact absurd this hne
  · intro h; simp [h]

/-! ## PV -/

theorem pvResult_cases (P remaining : Rat) (allocs : List (Nat × Rat)) (oc : Nat → Outcome) :
    let fl := allocs.filter (pvFailed oc)
    let fp := (fl.map (·.2)).sum
    pvResult P remaining allocs oc =
      if fl.map (·.1) ≠ [] then
        some { partialFailure := true, succeededPower := pvPfSucceeded P remaining fp pvTargetInit,
               succeeded := (allocs.filter (pvSucceeded oc)).map (·.1),
               failedPower := fp, failed := fl.map (·.1), excess := remaining }
      else
        some { partialFailure := false, succeededPower := pvOkSucceeded P remaining fp pvTargetInit,
               succeeded := (allocs.filter (pvSucceeded oc)).map (·.1),
               failedPower := 0, failed := [], excess := remaining } := by
  intro fl fp
  have hno : (allocs.any fun ia => decide (pvHandling (oc ia.1) = Handling.propagates)) = false := by
    simp [pv_never_propagates]
  simp only [pvResult, hno, pvPfFailed, pvPfExcess, pvOkExcess]
  rfl

/-- Failed and succeeded calls partition the calls. -/
theorem pv_partition (allocs : List (Nat × Rat)) (oc : Nat → Outcome) :
    ∀ ia ∈ allocs, (pvFailed oc ia = true ∧ pvSucceeded oc ia = false) ∨
                   (pvFailed oc ia = false ∧ pvSucceeded oc ia = true) := by
  intro ia _
  unfold pvFailed pvSucceeded
  cases h : oc ia.1 <;> simp [pvHandling]

/-- Unfolding `pvDistribute` to the two shapes of `pvResult`. -/
theorem pvDistribute_unfold {P : Rat} {invs : List PvInv} {oc : Nat → Outcome} {calls : List (Nat × Rat)} {r : Result}
    (h : pvDistribute P invs oc = some (calls, some r)) :
    calls = (allocate P invs).1 ∧ pvResult P (allocate P invs).2 (allocate P invs).1 oc = some r := by
  unfold pvDistribute at h
  split at h
  · cases h
  · injection h with h
    injection h with h1 h2
    exact ⟨h1.symm, h2⟩

end Results
